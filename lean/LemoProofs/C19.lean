/-
  C19 — the consensus engine is thread-safe under concurrent blocks, confirms and mining.  (PARTIAL)

  A theorem cannot exhibit a racy schedule of the Go runtime.  What is proved here, on the model
  `LemoModel.Signer` (interleaving machine + the two unsynchronised memos) and on the committed
  fact table `LemoModel.LockFacts` (re-derived from the source by `hx c19` on every run and compared
  row by row; `table-mismatch` otherwise):

    * `drf_of_discipline` (FULL, all programs, all schedules): if every section of every thread runs
      under the lock, then at every point of every execution the state is the one produced by running
      the begun sections SEQUENTIALLY, whole, in lock-acquisition order (the section in progress up to
      the step it has reached); in particular whenever the lock is free the effect of the execution
      equals the sequential composition in acquisition order.
    * `signer_cache_atomicity` (FULL under the discipline): any number of threads, any number of
      `SignBlock` calls each, all under the lock ⇒ every completed call returned the signature over
      the hash it was asked to sign, and the cache is consistent.
    * WITHOUT the discipline (= the code BEFORE the repairs f4ffd1d / 204ebea, see `legacy_table_discipline_refuted`):
      `signer_cache_atomicity_refuted` (a concrete schedule of the general machine),
      `signer_outcomes_unlocked` (ALL 70 merges of two unsynchronised calls enumerated: wrong
      signatures and torn caches are among the outcomes, and exactly which),
      `signer_stale_hit_unlocked` (reader matches Hash h2 and returns the old Sig of h1),
      `torn_cache_persists` (a torn cache makes a LATER, sequential call return a wrong signature),
      `lastSig_torn_unlocked` / `lastSig_consistent_locked`.
    * `rmw_no_lost_update` (FULL under the discipline): k writers doing read; append; write-back on one stored
      record under one lock section ⇒ the stored set is exactly the acknowledged appends in acquisition order;
      `rmw_lost_update_refuted` / `rmw_outcomes_unlocked`: without a lock spanning the three steps an acknowledged
      append is lost (read-read-write-write; 4 of the 6 merges).
    * `cta_no_stale_decision` (FULL under the discipline with the read of the head inside the section): no
      `MineBlock` acts on a head another call has moved; `cta_stale_decision_refuted` / `cta_outcomes_unlocked`:
      with the read before the lock the outcome (mined on P, head B) equals no sequential order;
      `table_head_decisions`: on the code every head read of the chain-lock functions is inside the section except
      the declared pre-check `InsertBlock/isIgnorableBlock`.
    * `table_discipline`: by `decide` over the committed table (the OUTPUT OF THE SCANNER, which is trusted: Lean
      proves nothing about the source beyond this literal), the nine shared variables of c19Vars and the
      read-modify-write record satisfy the discipline on
      the current code (sigCache under `consensus.sigCacheMu` since f4ffd1d, lastSig under `Confirmer.lastSigLock`
      since 204ebea, the unconfirmed tree under `ChainDatabase.RW` since a25165d, `FileQueue.Offset` under
      `FileQueue.putLock` since 20ee480); the only unlocked accesses left are constructor / start-up code.  The
      rows that broke it before the repairs are frozen in `legacyOffenders` (`legacy_*` theorems).

  ASSUMED, not modelled: Go's `sync.Mutex`/`RWMutex` give mutual exclusion and happens-before
  (a locked section is a sequence of steps no other locked section can interleave with), and
  `atomic.Value` Load/Store are atomic; one `sync.RWMutex` read lock is treated like the write lock
  (coarser than the code: sound for the sequential-equivalence claim).  The runtime behaviour of the
  real engine is covered by the `hx c19` hammer (+ `-race` in the thorough tier), which is
  supporting evidence, not proof.
-/
import LemoModel.Signer
import LemoModel.LockFacts
namespace LemoProofs.C19
open LemoModel.Signer LemoModel.LockFacts

/-! ### the machine: lock discipline ⇒ sequential semantics -/

theorem runSteps_append {σ : Type} (a b : List (σ → σ)) (s : σ) :
    runSteps (a ++ b) s = runSteps b (runSteps a s) := by
  simp [runSteps, List.foldl_append]

theorem runSecs_append {σ : Type} (a b : List (List (σ → σ))) (s : σ) :
    runSecs (a ++ b) s = runSecs b (runSecs a s) := by
  simp [runSecs, List.foldl_append]

/-- every section (in progress or still to do) of every thread is run under the lock -/
def AllLocked {σ : Type} (c : Cfg σ) : Prop :=
  ∀ i, (∀ sec, (c.ts i).cur = some sec → sec.locked = true) ∧ ∀ sec ∈ (c.ts i).todo, sec.locked = true

/-- the lock is free, nobody is inside a section, the state is the sequential composition of the
    sections begun so far; or thread `i` owns the lock, nobody else is inside a section, and the state
    is that composition with the owner's section run up to the step it has reached -/
def Shape {σ : Type} (s0 : σ) (c : Cfg σ) : Prop :=
  match c.owner with
  | none => (∀ j, (c.ts j).cur = none) ∧ c.st = runSecs c.log.reverse s0
  | some i => ∃ sec done tl, (c.ts i).cur = some sec ∧ (∀ j, j ≠ i → (c.ts j).cur = none) ∧
      c.log = (done ++ sec.steps) :: tl ∧ c.st = runSteps done (runSecs tl.reverse s0)

theorem upd_self {σ : Type} (ts : Nat → TState σ) (i : Nat) (t : TState σ) : upd ts i t i = t := by
  simp [upd]

theorem upd_ne {σ : Type} (ts : Nat → TState σ) {i j : Nat} (t : TState σ) (h : j ≠ i) : upd ts i t j = ts j := by
  simp [upd, h]

theorem inv_pick {σ : Type} (s0 : σ) (c : Cfg σ) (i : Nat) (hl : AllLocked c) (hs : Shape s0 c) :
    AllLocked (pick c i) ∧ Shape s0 (pick c i) := by
  unfold pick
  cases hcur : (c.ts i).cur with
  | none =>
    simp only
    cases htodo : (c.ts i).todo with
    | nil => exact ⟨hl, hs⟩
    | cons sec rest =>
      simp only
      have hsl : sec.locked = true := (hl i).2 sec (by rw [htodo]; exact List.mem_cons_self)
      cases hown : c.owner with
      | some k => simp [hsl]; exact ⟨hl, hs⟩
      | none =>
        simp only [hsl, Option.isSome_none, Bool.and_false, Bool.false_eq_true, if_false, if_true]
        refine ⟨?_, ?_⟩
        · intro j
          by_cases hj : j = i
          · subst hj
            simp only [upd_self]
            refine ⟨?_, ?_⟩
            · intro sec' h; cases h; exact hsl
            · intro sec' h; exact (hl j).2 sec' (by rw [htodo]; exact List.mem_cons_of_mem _ h)
          · simp only [upd_ne _ _ hj]; exact hl j
        · unfold Shape at hs ⊢
          rw [hown] at hs
          simp only at hs ⊢
          refine ⟨sec, [], c.log, by simp [upd_self], ?_, by simp, ?_⟩
          · intro j hj; rw [upd_ne _ _ hj]; exact hs.1 j
          · simpa [runSteps] using hs.2
  | some sec =>
    simp only
    have hsl : sec.locked = true := (hl i).1 sec hcur
    -- the owner is `i` and `sec` is the owner's section
    unfold Shape at hs
    cases hown : c.owner with
    | none =>
      rw [hown] at hs
      have := hs.1 i
      rw [hcur] at this; cases this
    | some k =>
      rw [hown] at hs
      obtain ⟨sec', done, tl, hc, hothers, hlog, hst⟩ := hs
      have hk : i = k := by
        by_cases h : i = k
        · exact h
        · have := hothers i h; rw [hcur] at this; cases this
      subst hk
      rw [hcur] at hc
      cases hc
      cases hsteps : sec.steps with
      | nil =>
        simp only [hsl, if_true]
        refine ⟨?_, ?_⟩
        · intro j
          by_cases hj : j = i
          · subst hj
            simp only [upd_self]
            exact ⟨fun _ h => (by cases h), (hl j).2⟩
          · simp only [upd_ne _ _ hj]; exact hl j
        · unfold Shape
          simp only
          refine ⟨?_, ?_⟩
          · intro j
            by_cases hj : j = i
            · subst hj; simp [upd_self]
            · rw [upd_ne _ _ hj]; exact hothers j hj
          · rw [hst, hlog, hsteps]
            simp [runSecs]
      | cons f fs =>
        simp only
        refine ⟨?_, ?_⟩
        · intro j
          by_cases hj : j = i
          · subst hj
            simp only [upd_self]
            exact ⟨fun _ h => (by cases h; exact hsl), (hl j).2⟩
          · simp only [upd_ne _ _ hj]; exact hl j
        · unfold Shape
          simp only
          refine ⟨⟨sec.locked, fs⟩, done ++ [f], tl, by simp [upd_self], ?_, ?_, ?_⟩
          · intro j hj; rw [upd_ne _ _ hj]; exact hothers j hj
          · rw [hlog, hsteps]; simp
          · rw [hst, runSteps_append]; rfl

theorem inv_exec {σ : Type} (s0 : σ) (sch : List Nat) (c : Cfg σ) (hl : AllLocked c) (hs : Shape s0 c) :
    AllLocked (exec c sch) ∧ Shape s0 (exec c sch) := by
  induction sch generalizing c with
  | nil => exact ⟨hl, hs⟩
  | cons i r ih =>
    have h := inv_pick s0 c i hl hs
    exact ih (pick c i) h.1 h.2

theorem inv_init {σ : Type} (s0 : σ) (progs : Nat → List (Sec σ))
    (hdisc : ∀ i, ∀ sec ∈ progs i, sec.locked = true) : AllLocked (init s0 progs) ∧ Shape s0 (init s0 progs) := by
  refine ⟨fun i => ⟨fun sec h => by simp [init] at h, hdisc i⟩, ?_⟩
  unfold Shape
  simp [init, runSecs]

/-- **drf_of_discipline** (all programs, all schedules).  If every section of every thread holds the
    lock, then for every execution `sch`:
      * while the lock is free, no thread is inside a section and the state equals the SEQUENTIAL
        composition, whole section after whole section, of the sections begun so far in the order in
        which they acquired the lock;
      * while thread `i` holds it, no other thread is inside a section (no two accesses of different
        threads are ever adjacent without a release/acquire in between: data-race freedom) and the
        state is that composition with `i`'s section run up to its current step. -/
theorem drf_of_discipline {σ : Type} (s0 : σ) (progs : Nat → List (Sec σ))
    (hdisc : ∀ i, ∀ sec ∈ progs i, sec.locked = true) (sch : List Nat) :
    let c := exec (init s0 progs) sch
    (c.owner = none → (∀ j, (c.ts j).cur = none) ∧ c.st = runSecs c.log.reverse s0) ∧
    (∀ i, c.owner = some i → ∃ sec done tl, (c.ts i).cur = some sec ∧ (∀ j, j ≠ i → (c.ts j).cur = none) ∧
        c.log = (done ++ sec.steps) :: tl ∧ c.st = runSteps done (runSecs tl.reverse s0)) := by
  intro c
  have h := (inv_exec s0 sch (init s0 progs) (inv_init s0 progs hdisc).1 (inv_init s0 progs hdisc).2).2
  unfold Shape at h
  refine ⟨fun ho => ?_, fun i ho => ?_⟩
  · rw [show (exec (init s0 progs) sch).owner = none from ho] at h; exact h
  · rw [show (exec (init s0 progs) sch).owner = some i from ho] at h; exact h

/-- the sections in the acquisition log are sections of the programs (any property `Q` of the step
    lists of all program sections holds of every log entry) -/
theorem log_from_progs {σ : Type} (Q : List (σ → σ) → Prop) (sch : List Nat) (c : Cfg σ)
    (h1 : ∀ i, ∀ sec ∈ (c.ts i).todo, Q sec.steps) (h2 : ∀ fs ∈ c.log, Q fs) :
    ∀ fs ∈ (exec c sch).log, Q fs := by
  induction sch generalizing c with
  | nil => exact h2
  | cons i r ih =>
    apply ih (pick c i)
    · intro j sec hsec
      unfold pick at hsec
      cases hcur : (c.ts i).cur with
      | none =>
        rw [hcur] at hsec
        simp only at hsec
        cases htodo : (c.ts i).todo with
        | nil => rw [htodo] at hsec; exact h1 j sec hsec
        | cons s rest =>
          rw [htodo] at hsec
          simp only at hsec
          split at hsec
          · exact h1 j sec hsec
          · simp only at hsec
            by_cases hj : j = i
            · subst hj
              rw [upd_self] at hsec
              exact h1 j sec (by rw [htodo]; exact List.mem_cons_of_mem _ hsec)
            · rw [upd_ne _ _ hj] at hsec; exact h1 j sec hsec
      | some s =>
        rw [hcur] at hsec
        simp only at hsec
        cases hsteps : s.steps with
        | nil =>
          rw [hsteps] at hsec
          simp only at hsec
          by_cases hj : j = i
          · subst hj; rw [upd_self] at hsec; exact h1 j sec hsec
          · rw [upd_ne _ _ hj] at hsec; exact h1 j sec hsec
        | cons f fs =>
          rw [hsteps] at hsec
          simp only at hsec
          by_cases hj : j = i
          · subst hj; rw [upd_self] at hsec; exact h1 j sec hsec
          · rw [upd_ne _ _ hj] at hsec; exact h1 j sec hsec
    · intro fs hfs
      unfold pick at hfs
      cases hcur : (c.ts i).cur with
      | none =>
        rw [hcur] at hfs
        simp only at hfs
        cases htodo : (c.ts i).todo with
        | nil => rw [htodo] at hfs; exact h2 fs hfs
        | cons s rest =>
          rw [htodo] at hfs
          simp only at hfs
          split at hfs
          · exact h2 fs hfs
          · simp only [List.mem_cons] at hfs
            rcases hfs with rfl | hfs
            · exact h1 i s (by rw [htodo]; exact List.mem_cons_self)
            · exact h2 fs hfs
      | some s =>
        rw [hcur] at hfs
        simp only at hfs
        cases hsteps : s.steps with
        | nil => rw [hsteps] at hfs; exact h2 fs hfs
        | cons f fs' => rw [hsteps] at hfs; exact h2 fs hfs

/-! ### SignBlock under the discipline -/

/-- sequential invariant of the signer state: the cached signature is the one over the cached hash,
    every completed call returned the signature over its own hash, no call is in progress -/
def SInv (s : SS) : Prop :=
  s.sig = s.hash ∧ (∀ x ∈ s.rets, x.2.2 = x.2.1) ∧ ∀ j, (s.loc j).pc = .start

/-- one whole `SignBlock h` (thread `i`) run without interference keeps the invariant and returns the
    signature over `h` -/
theorem signSteps_run (i h : Nat) (s : SS) (h1 : s.sig = s.hash) (h3 : ∀ j, (s.loc j).pc = .start) :
    (runSteps (signSteps i h) s).hash = h ∧ (runSteps (signSteps i h) s).sig = h ∧
    (runSteps (signSteps i h) s).rets = (i, h, h) :: s.rets ∧
    ∀ j, ((runSteps (signSteps i h) s).loc j).pc = .start := by
  have hi := h3 i
  simp only [signSteps, runSteps, List.foldl_cons, List.foldl_nil]
  by_cases hh : s.hash = h
  · have hs : s.sig = h := by rw [h1, hh]
    refine ⟨?_, ?_, ?_, ?_⟩
    · simp [sbStep, sbReset, setPc, finish, hi, hh]
    · simp [sbStep, sbReset, setPc, finish, hi, hh, hs]
    · simp [sbStep, sbReset, setPc, finish, hi, hh, hs]
    · intro j; by_cases hj : j = i <;> simp [sbStep, sbReset, setPc, finish, hi, hh, hj, h3 j]
  · refine ⟨?_, ?_, ?_, ?_⟩
    · simp [sbStep, sbReset, setPc, finish, hi, hh]
    · simp [sbStep, sbReset, setPc, finish, hi, hh]
    · simp [sbStep, sbReset, setPc, finish, hi, hh]
    · intro j; by_cases hj : j = i <;> simp [sbStep, sbReset, setPc, finish, hi, hh, hj, h3 j]

theorem signSteps_seq (i h : Nat) (s : SS) (hs : SInv s) :
    SInv (runSteps (signSteps i h) s) ∧
      (runSteps (signSteps i h) s).rets = (i, h, h) :: s.rets := by
  obtain ⟨h1, h2, h3⟩ := hs
  obtain ⟨r1, r2, r3, r4⟩ := signSteps_run i h s h1 h3
  refine ⟨⟨by rw [r1, r2], ?_, r4⟩, r3⟩
  intro x hx
  rw [r3] at hx
  simp only [List.mem_cons] at hx
  rcases hx with rfl | hx
  · rfl
  · exact h2 x hx

theorem sinv_runSecs (secs : List (List (SS → SS))) (s : SS) (hs : SInv s)
    (hq : ∀ fs ∈ secs, ∃ i h, fs = signSteps i h) : SInv (runSecs secs s) := by
  induction secs generalizing s with
  | nil => exact hs
  | cons fs r ih =>
    obtain ⟨i, h, rfl⟩ := hq _ List.mem_cons_self
    exact ih _ (signSteps_seq i h s hs).1 (fun fs' hf => hq fs' (List.mem_cons_of_mem _ hf))

/-- **signer_cache_atomicity** (under the discipline; any number of threads, thread `i` calling
    `SignBlock` on the hashes `reqs i` one after the other, every call under the lock; every schedule).
    Whenever the lock is free: every completed call `(thread, h, r)` returned `r = ` the signature over
    `h`, and the cache holds a signature over the cached hash. -/
theorem signer_cache_atomicity (reqs : Nat → List Nat) (sch : List Nat) :
    let c := exec (init ({} : SS) (fun i => (reqs i).map (signSec true i))) sch
    c.owner = none → (∀ x ∈ c.st.rets, x.2.2 = x.2.1) ∧ c.st.sig = c.st.hash := by
  intro c ho
  have hd := (drf_of_discipline ({} : SS) (fun i => (reqs i).map (signSec true i))
    (by intro i sec h; simp only [List.mem_map] at h; obtain ⟨_, _, rfl⟩ := h; rfl) sch).1 ho
  have hq : ∀ fs ∈ c.log, ∃ i h, fs = signSteps i h := by
    apply log_from_progs (fun fs => ∃ i h, fs = signSteps i h) sch
    · intro i sec h
      simp only [init, List.mem_map] at h
      obtain ⟨x, _, rfl⟩ := h
      exact ⟨i, x, rfl⟩
    · intro fs h; simp [init] at h
  have hinv : SInv c.st := by
    rw [hd.2]
    apply sinv_runSecs
    · exact ⟨rfl, (by intro x hx; cases hx), fun _ => rfl⟩
    · intro fs hfs; exact hq fs (List.mem_reverse.mp hfs)
  exact ⟨hinv.2.1, hinv.1⟩

/-- non-vacuity: two threads, two locked calls, a schedule that really interleaves the picks
    (thread 1 is blocked on the lock while thread 0 is inside) — both calls return their own
    signature -/
example :
    let c := exec (init ({} : SS) (fun i => if i = 0 then [signSec true 0 1] else if i = 1 then [signSec true 1 2] else []))
      [0, 1, 0, 1, 0, 0, 1, 0, 0, 0, 1, 1, 1, 1, 1, 1, 1]
    c.owner = none ∧ c.st.rets = [(1, 2, 2), (0, 1, 1)] := by decide

/-! ### WITHOUT the discipline (`SignBlock` before /repo commit f4ffd1d, `lastSig` before 204ebea) -/

/-- **REFUTATION of signer_cache_atomicity without the lock** (code before fix f4ffd1d) on the general machine: thread 0 runs
    `SignBlock 1` (e.g. `batchConfirmStable` goroutine signing stable block 1) and thread 1 runs
    `SignBlock 2` (e.g. `InsertBlock`→`TryConfirm` of block 2), neither section locked.  Schedule:
    both miss; 0 writes Hash:=1; 1 writes Hash:=2, Sig:=sig(2); 0 writes Sig:=sig(1); 1 returns
    `sigCache.Sig` = sig(1) — a signature over block 1 handed out as the confirm of block 2. -/
theorem signer_cache_atomicity_refuted :
    ∃ sch : List Nat,
      let c := exec (init ({} : SS) (fun i => if i = 0 then [signSec false 0 1] else if i = 1 then [signSec false 1 2] else [])) sch
      (1, 2, 1) ∈ c.st.rets ∧ (∀ j, j < 2 → ((c.ts j).cur.isNone ∧ (c.ts j).todo.isEmpty)) :=
  ⟨[0, 1, 0, 1, 0, 1, 1, 0, 1, 0, 0, 0, 1, 1], by decide⟩

/-- the 70 merges of the four shared accesses of each call -/
example : (merges 4 4).length = 70 := by decide

set_option maxRecDepth 8000 in
/-- **signer_outcomes_unlocked** (code before fix f4ffd1d): over ALL interleavings of `SignBlock 1 ∥ SignBlock 2` without a lock,
    from the empty cache, the set of outcomes (ret₀, ret₁, final Hash, final Sig) is exactly this list:
    it contains calls that return the OTHER block's signature (`ret₀ = 2`, `ret₁ = 1`) and torn final
    caches (Hash 1 with Sig over 2; Hash 2 with Sig over 1). -/
theorem signer_outcomes_unlocked :
    dedup ((merges 4 4).map (outcome 0 0 1 2)) =
      [(some 1, some 2, 2, 2), (some 2, some 2, 2, 2), (some 1, some 1, 2, 1), (some 1, some 2, 2, 1),
       (some 1, some 2, 1, 2), (some 2, some 2, 1, 2), (some 1, some 1, 1, 1), (some 1, some 2, 1, 1)] := by
  decide

set_option maxRecDepth 8000 in
/-- of the 70 merges, 46 end with a wrong returned signature or a torn cache, 40 with a wrong
    returned signature -/
theorem signer_bad_merges_count :
    ((merges 4 4).filter (fun m => outcome 0 0 1 2 m != (some 1, some 2, 1, 1) &&
        outcome 0 0 1 2 m != (some 1, some 2, 2, 2))).length = 46 ∧
    ((merges 4 4).filter (fun m => (outcome 0 0 1 2 m).1 != some 1 || (outcome 0 0 1 2 m).2.1 != some 2)).length = 40 := by
  decide

/-- **signer_stale_hit_unlocked** (code before fix f4ffd1d; the variant of the brief): cache = (Hash 1, Sig over 1); the writer
    `SignBlock 2` has stored Hash := 2 but not yet Sig; a reader `SignBlock 2` matches Hash 2 and
    returns the old Sig over 1. -/
theorem signer_stale_hit_unlocked :
    ∃ m ∈ merges 4 4, (outcome 1 1 2 2 m).2.1 = some 1 :=
  ⟨[false, false, true, true, false, false, true, true], by decide, by decide⟩

/-- **torn_cache_persists** (code before fix f4ffd1d): after the unlocked merge `[0:start, 1:start, 0:wHash, 1:wHash, 1:wSig, 0:wSig, …]`
    the cache is (Hash 2, Sig over 1); a LATER `SignBlock 2`, run alone, hits and returns the signature
    over 1.  (`hx c19` reproduces exactly this on the real `consensus.SignBlock`, op `sign 2 1 2`.) -/
theorem torn_cache_persists :
    (outcome 0 0 1 2 [false, true, false, true, true, false, false, true]).2.2 = (2, 1) ∧
    signSeq 2 1 2 = (1, 2, 1) := by decide

/-- sequential `SignBlock` on a consistent cache is correct (instance of `signSteps_seq`, computed) -/
example : signSeq 0 0 5 = (5, 5, 5) ∧ signSeq 5 5 5 = (5, 5, 5) ∧ signSeq 5 5 6 = (6, 6, 6) := by decide

/-- **lastSig_torn_unlocked** (code before fix 204ebea): lastSig = (Height 1, Hash 11); `SetLastSig(2, 22)` unlocked against the
    two reads of `needConfirm`: over all 10 merges the reader sees exactly these (Height, Hash) pairs —
    two of them, (1, 22) and (2, 11), were never written. -/
theorem lastSig_torn_unlocked :
    dedup ((merges 3 2).map (lsOutcome 1 11 2 22)) = [(2, 22), (2, 11), (1, 22), (1, 11)] := by decide

/-- **lastSig_consistent_locked**: when the writer's three steps and the reader's two steps are each
    atomic (the two sequential orders), the reader sees a written pair. -/
theorem lastSig_consistent_locked (h0 x0 h1 x1 : Nat) :
    lsOutcome h0 x0 h1 x1 [true, true, false, false, false] = (h0, x0) ∧
    lsOutcome h0 x0 h1 x1 [false, false, false, true, true] = (if h1 > h0 then (h1, x1) else (h0, x0)) := by
  by_cases h : h0 < h1 <;> simp [lsOutcome, runLS, setLastSigSteps, readLastSigSteps, h]

/-- **lastSig_batch_write_invisible**: the check-then-act window of `needConfirm` (lastSig read, lock released, stable
    block read, decision; the batch goroutine's `SetLastSig` may fall in between) does not change the decision input:
    a write of the batch goroutine replaces `(h0, x0)` by `(s, xs)` only if `h0 < s`, and `s` is the height of a block
    that is already stable, `s ≤ stableH` for the stable height read afterwards — both values clamp to the stable
    block.  (ASSUMED from the code, not from the table: the batch goroutine signs stable blocks only, the stable height
    never decreases.) -/
theorem lastSig_batch_write_invisible (h0 x0 s xs stableH stableX : Nat) (h1 : h0 < s) (h2 : s ≤ stableH) :
    clampLast h0 x0 stableH stableX = clampLast s xs stableH stableX := by
  unfold clampLast
  have : h0 ≤ stableH := by omega
  simp [this, h2]

/-- non-vacuity, and the clamp matters: without it the two inputs differ -/
example : clampLast 3 33 7 77 = clampLast 5 55 7 77 ∧ (3, 33) ≠ (5, 55) := by decide

/-! ### the last-signed record as a monotone-max register (`SetLastSig`) -/

/-- the record is an upper bound of every completed request and is one of them (or the initial 0) -/
def MInv (s : MS) : Prop := (∀ x ∈ s.done, x ≤ s.cell) ∧ (s.cell = 0 ∨ s.cell ∈ s.done)

theorem mxSteps_seq (i x : Nat) (s : MS) (h : MInv s) : MInv (runSteps (mxSteps i x) s) := by
  obtain ⟨h1, h2⟩ := h
  simp only [mxSteps, runSteps, List.foldl_cons, List.foldl_nil, mxRead, mxWrite, if_true]
  by_cases hx : x > s.cell
  · simp only [hx, if_true]
    refine ⟨?_, Or.inr List.mem_cons_self⟩
    intro y hy
    simp only [List.mem_cons] at hy
    rcases hy with rfl | hy
    · exact Nat.le_refl _
    · exact Nat.le_of_lt (Nat.lt_of_le_of_lt (h1 y hy) hx)
  · simp only [hx, if_false]
    refine ⟨?_, ?_⟩
    · intro y hy
      simp only [List.mem_cons] at hy
      rcases hy with rfl | hy
      · show y ≤ s.cell
        omega
      · exact h1 y hy
    · rcases h2 with h2 | h2
      · exact Or.inl h2
      · exact Or.inr (List.mem_cons_of_mem _ h2)

theorem minv_runSecs (secs : List (List (MS → MS))) (s : MS) (hs : MInv s)
    (hq : ∀ fs ∈ secs, ∃ i x, fs = mxSteps i x) : MInv (runSecs secs s) := by
  induction secs generalizing s with
  | nil => exact hs
  | cons fs r ih =>
    obtain ⟨i, x, rfl⟩ := hq _ List.mem_cons_self
    exact ih _ (mxSteps_seq i x s hs) (fun fs' hf => hq fs' (List.mem_cons_of_mem _ hf))

/-- **lastsig_monotone** (check and update in ONE section of lastSigLock; any number of writers, writer `i` calling
    `SetLastSig` with the heights `reqs i`; every schedule).  Whenever the lock is free the record is the MAXIMUM of
    the completed requests: it bounds every one of them and is one of them — in particular it never moves backwards
    below a height that a completed `SetLastSig` asked for, which is what every sequential order gives. -/
theorem lastsig_monotone (reqs : Nat → List Nat) (sch : List Nat) :
    let c := exec (init ({} : MS) (fun i => (reqs i).map (mxSec i))) sch
    c.owner = none → (∀ x ∈ c.st.done, x ≤ c.st.cell) ∧ (c.st.cell = 0 ∨ c.st.cell ∈ c.st.done) := by
  intro c ho
  have hd := (drf_of_discipline ({} : MS) (fun i => (reqs i).map (mxSec i))
    (by intro i sec h; simp only [List.mem_map] at h; obtain ⟨_, _, rfl⟩ := h; rfl) sch).1 ho
  have hq : ∀ fs ∈ c.log, ∃ i x, fs = mxSteps i x := by
    apply log_from_progs (fun fs => ∃ i x, fs = mxSteps i x) sch
    · intro i sec h
      simp only [init, List.mem_map] at h
      obtain ⟨x, _, rfl⟩ := h
      exact ⟨i, x, rfl⟩
    · intro fs h; simp [init] at h
  have hinv : MInv c.st := by
    rw [hd.2]
    apply minv_runSecs
    · exact ⟨(by intro x hx; cases hx), Or.inl rfl⟩
    · intro fs hfs; exact hq fs (List.mem_reverse.mp hfs)
  exact hinv

/-- non-vacuity: two locked writers (109 and 105), interleaved picks: the record ends at 109 -/
example :
    let c := exec (init ({} : MS) (fun i => if i = 0 then [mxSec 0 109] else if i = 1 then [mxSec 1 105] else []))
      [1, 0, 1, 0, 1, 1, 0, 0, 0, 0]
    c.owner = none ∧ c.st.cell = 109 ∧ c.st.done = [109, 105] := by decide

/-- **REFUTATION for the split variant** (the seeded change: read `lastSig.Height` under the lock, unlock, compare and
    hash outside, lock again, write; EVERY access is guarded, each step is its own locked section): both writers read
    the old record 0, the writer of 109 updates, the writer of 105 updates last: the record ends at 105 although
    `SetLastSig(109)` has completed — it moved backwards; both sequential orders end at 109. -/
theorem lastsig_split_refuted :
    ∃ sch : List Nat,
      let c := exec (init ({} : MS) (fun i => if i = 0 then mxSplit 0 109 else if i = 1 then mxSplit 1 105 else [])) sch
      c.st.done = [105, 109] ∧ c.st.cell = 105 ∧ c.owner = none ∧
        (∀ j, j < 2 → ((c.ts j).cur.isNone ∧ (c.ts j).todo.isEmpty)) :=
  ⟨[0, 0, 0, 1, 1, 1, 0, 0, 0, 1, 1, 1], by decide⟩

/-! ### read-modify-write of a stored record (`setConfirm` on a stable block) -/

/-- sequential invariant: the stored set is exactly the acknowledged confirms, in order (nothing lost,
    nothing duplicated) -/
def RInv (s : RS) : Prop := s.cell = s.acked.reverse

theorem rmwSteps_seq (i x : Nat) (s : RS) (h : RInv s) : RInv (runSteps (rmwSteps i x) s) := by
  unfold RInv at *
  simp [rmwSteps, runSteps, rmwRead, rmwWrite, h]

theorem rinv_runSecs (secs : List (List (RS → RS))) (s : RS) (hs : RInv s)
    (hq : ∀ fs ∈ secs, ∃ i x, fs = rmwSteps i x) : RInv (runSecs secs s) := by
  induction secs generalizing s with
  | nil => exact hs
  | cons fs r ih =>
    obtain ⟨i, x, rfl⟩ := hq _ List.mem_cons_self
    exact ih _ (rmwSteps_seq i x s hs) (fun fs' hf => hq fs' (List.mem_cons_of_mem _ hf))

/-- **rmw_no_lost_update** (any number of writers, writer `i` appending the confirms `vals i` one call after the
    other, every read–append–write-back under ONE lock section; every schedule).  Whenever the lock is free, the
    stored set is exactly the list of acknowledged confirms in lock-acquisition order: in particular every confirm
    whose `SetConfirms` returned is stored (the union every sequential order gives). -/
theorem rmw_no_lost_update (vals : Nat → List Nat) (sch : List Nat) :
    let c := exec (init ({} : RS) (fun i => (vals i).map (rmwSec true i))) sch
    c.owner = none → c.st.cell = c.st.acked.reverse ∧ ∀ x ∈ c.st.acked, x ∈ c.st.cell := by
  intro c ho
  have hd := (drf_of_discipline ({} : RS) (fun i => (vals i).map (rmwSec true i))
    (by intro i sec h; simp only [List.mem_map] at h; obtain ⟨_, _, rfl⟩ := h; rfl) sch).1 ho
  have hq : ∀ fs ∈ c.log, ∃ i x, fs = rmwSteps i x := by
    apply log_from_progs (fun fs => ∃ i x, fs = rmwSteps i x) sch
    · intro i sec h
      simp only [init, List.mem_map] at h
      obtain ⟨x, _, rfl⟩ := h
      exact ⟨i, x, rfl⟩
    · intro fs h; simp [init] at h
  have hinv : RInv c.st := by
    rw [hd.2]
    apply rinv_runSecs
    · rfl
    · intro fs hfs; exact hq fs (List.mem_reverse.mp hfs)
  refine ⟨hinv, fun x hx => ?_⟩
  rw [hinv]; exact List.mem_reverse.mpr hx

/-- non-vacuity: two locked writers, interleaved picks (writer 1 blocked on the lock meanwhile) -/
example :
    let c := exec (init ({} : RS) (fun i => if i = 0 then [rmwSec true 0 1] else if i = 1 then [rmwSec true 1 2] else []))
      [0, 1, 0, 1, 0, 0, 1, 1, 1, 1]
    c.owner = none ∧ c.st.cell = [1, 2] ∧ c.st.acked = [2, 1] := by decide

/-- **REFUTATION without a lock spanning the three steps** (the seeded change "release RW before the stable-block
    path of setConfirm"; general machine): both writers read the set S = [], writer 0 writes back S+1, writer 1
    writes back S+2: both calls have returned (`acked = [2, 1]`), the store holds `[2]` — confirm 1 is lost, and no
    sequential order of the two calls gives that. -/
theorem rmw_lost_update_refuted :
    ∃ sch : List Nat,
      let c := exec (init ({} : RS) (fun i => if i = 0 then [rmwSec false 0 1] else if i = 1 then [rmwSec false 1 2] else [])) sch
      c.st.acked = [2, 1] ∧ c.st.cell = [2] ∧ (∀ j, j < 2 → ((c.ts j).cur.isNone ∧ (c.ts j).todo.isEmpty)) :=
  ⟨[0, 1, 0, 1, 0, 1, 0, 1], by decide⟩

/-- **rmw_outcomes_unlocked**: over ALL 6 merges of two unsynchronised read–append–write-backs the stored set is one
    of `[1,2]`, `[2,1]` (the two sequential results) or `[2]`, `[1]` (a lost update: 4 of the 6 merges). -/
theorem rmw_outcomes_unlocked :
    dedup ((merges 2 2).map (fun m => (rmwOutcome m).1)) = [[1, 2], [2], [1], [2, 1]] ∧
    ((merges 2 2).filter (fun m => (rmwOutcome m).1.length < 2)).length = 4 := by decide

/-! ### check-then-act on the fork head (`MineBlock` against `InsertBlock`) -/

/-- every mining decision was checked against the head the block was then built on and stored under -/
def CInv (s : CS) : Prop := ∀ d ∈ s.decisions, d.1 = d.2

theorem ctaMine_seq (i : Nat) (s : CS) (h : CInv s) : CInv (runSteps (ctaMineSteps i) s) := by
  unfold CInv at *
  simp only [ctaMineSteps, runSteps, List.foldl_cons, List.foldl_nil]
  unfold ctaAct
  simp only [ctaRead, if_true]
  split
  · intro d hd
    simp only [List.mem_cons] at hd
    rcases hd with rfl | hd
    · rfl
    · exact h d hd
  · exact h

theorem ctaInsert_seq (s : CS) (h : CInv s) : CInv (runSteps [ctaInsert] s) := by
  unfold CInv at *
  simpa [runSteps, ctaInsert] using h

theorem cinv_runSecs (secs : List (List (CS → CS))) (s : CS) (hs : CInv s)
    (hq : ∀ fs ∈ secs, (∃ i, fs = ctaMineSteps i) ∨ fs = [ctaInsert]) : CInv (runSecs secs s) := by
  induction secs generalizing s with
  | nil => exact hs
  | cons fs r ih =>
    have hr := fun fs' hf => hq fs' (List.mem_cons_of_mem _ hf)
    rcases hq _ List.mem_cons_self with ⟨i, rfl⟩ | rfl
    · exact ih _ (ctaMine_seq i s hs) hr
    · exact ih _ (ctaInsert_seq s hs) hr

/-- **cta_no_stale_decision** (the read of the head INSIDE the chain-lock section; any number of threads, thread
    `i` issuing the engine calls `calls i` — `true` = MineBlock, `false` = InsertBlock(B) — one after the other;
    every schedule).  Whenever the lock is free the state is the sequential composition of the begun calls in
    lock-acquisition order (`drf_of_discipline`), hence every block the node mined was checked against, built on
    and stored under ONE value of the head: no MineBlock ever acts on a head that an InsertBlock has moved in
    between. -/
theorem cta_no_stale_decision (calls : Nat → List Bool) (sch : List Nat) :
    let c := exec (init ({} : CS) (fun i => (calls i).map (ctaSec i))) sch
    c.owner = none → ∀ d ∈ c.st.decisions, d.1 = d.2 := by
  intro c ho
  have hd := (drf_of_discipline ({} : CS) (fun i => (calls i).map (ctaSec i))
    (by
      intro i sec h
      simp only [List.mem_map] at h
      obtain ⟨b, _, rfl⟩ := h
      cases b <;> rfl) sch).1 ho
  have hq : ∀ fs ∈ c.log, (∃ i, fs = ctaMineSteps i) ∨ fs = [ctaInsert] := by
    apply log_from_progs (fun fs => (∃ i, fs = ctaMineSteps i) ∨ fs = [ctaInsert]) sch
    · intro i sec h
      simp only [init, List.mem_map] at h
      obtain ⟨b, _, rfl⟩ := h
      cases b
      · exact Or.inr rfl
      · exact Or.inl ⟨i, rfl⟩
    · intro fs h; simp [init] at h
  have hinv : CInv c.st := by
    rw [hd.2]
    apply cinv_runSecs
    · intro d hd; cases hd
    · intro fs hfs; exact hq fs (List.mem_reverse.mp hfs)
  exact hinv

/-- the two sequential orders of one MineBlock and one InsertBlock(B): (mined on, failed, head) -/
theorem cta_sequential_outcomes :
    ctaOutcome (runSteps ([ctaInsert] ++ ctaMineSteps 0) {}) = ([], 1, 1) ∧
    ctaOutcome (runSteps (ctaMineSteps 0 ++ [ctaInsert]) {}) = ([0], 0, 2) := by decide

/-- non-vacuity: both calls locked, MineBlock blocked on the lock while InsertBlock(B) is inside: the outcome is
    the sequential Insert → Mine one (not in turn on B) -/
example :
    let c := exec (init ({} : CS) (fun i => if i = 0 then [ctaSec 0 true] else if i = 1 then [ctaSec 1 false] else []))
      [1, 0, 0, 1, 0, 1, 0, 0, 0, 0]
    c.owner = none ∧ ctaOutcome c.st = ([], 1, 1) ∧ c.st.decisions = [] := by decide

/-- **REFUTATION with the read BEFORE the lock** (the seeded variant "log the height before queueing on the chain
    lock"; general machine): MineBlock reads head = P without the lock, InsertBlock(B) runs under the lock and moves
    the head to B, MineBlock then takes the lock and acts on what it read: it mines a child of P while the head is
    B — decision (P, B), outcome (mined on P, head B), which is neither sequential outcome. -/
theorem cta_stale_decision_refuted :
    ∃ sch : List Nat,
      let c := exec (init ({} : CS) (fun i => if i = 0 then ctaMineOutside 0 else if i = 1 then [ctaSec 1 false] else [])) sch
      c.st.decisions = [(0, 1)] ∧ ctaOutcome c.st = ([0], 0, 1) ∧
        (∀ j, j < 2 → ((c.ts j).cur.isNone ∧ (c.ts j).todo.isEmpty)) :=
  ⟨[0, 0, 0, 1, 1, 1, 0, 0, 0], by decide⟩

/-- **cta_outcomes_unlocked**: the three-row table.  Over ALL merges of an unprotected read + act with one
    InsertBlock(B): Mine→Insert gives (M on P, head M), Insert→Mine gives (MineBlock fails, head B), and the
    interleaving read–insert–act gives (M on P, head B): equal to no sequential order. -/
theorem cta_outcomes_unlocked :
    (merges 2 1).map ctaOutcomeUnlocked = [([0], 0, 2), ([0], 0, 1), ([], 1, 1)] ∧
    ctaOutcomeUnlocked [false, true, false] ≠ ctaOutcome (runSteps ([ctaInsert] ++ ctaMineSteps 0) {}) ∧
    ctaOutcomeUnlocked [false, true, false] ≠ ctaOutcome (runSteps (ctaMineSteps 0 ++ [ctaInsert]) {}) := by decide

/-! ### which premises hold on the code: the committed fact table -/

set_option maxRecDepth 16000 in
/-- **table_discipline** (current code = /repo with the repairs f4ffd1d `sigCacheMu`, 204ebea
    `Confirmer.lastSigLock`, a25165d RW in the unconfirmed-tree readers, 20ee480 `FileQueue.putLock`): over the
    committed table (= the scanner's reading of the source; the scanner is trusted, see props) the lock discipline
    holds for all nine shared variables of c19Vars and for the read-modify-write record `Beansdb.blockRecord` (the read and the write back of
    `setConfirm` on a stable block sit in ONE section of `ChainDatabase.RW`, so `rmw_no_lost_update` applies): every access from a real entry point holds the variable's lock (`guards` names it), so
    `drf_of_discipline` applies per variable and `signer_cache_atomicity` applies to the real `SignBlock`. -/
theorem table_discipline :
    disciplined table .sigCache = true ∧ disciplined table .lastSig = true ∧
    disciplined table .head = true ∧ disciplined table .unConfirmBlocks = true ∧
    disciplined table .lastConfirm = true ∧ disciplined table .offset = true ∧
    disciplined table .index = true ∧ disciplined table .termList = true ∧
    disciplined table .evilDeputies = true ∧ disciplined table .blockRecord = true := by decide

set_option maxRecDepth 16000 in
/-- no row of the current table breaks the discipline of any variable -/
theorem table_no_offenders :
    offenders table .sigCache = [] ∧ offenders table .lastSig = [] ∧ offenders table .head = [] ∧
    offenders table .unConfirmBlocks = [] ∧ offenders table .lastConfirm = [] ∧ offenders table .offset = [] ∧
    offenders table .index = [] ∧ offenders table .termList = [] ∧ offenders table .evilDeputies = [] ∧
    offenders table .blockRecord = [] := by decide

set_option maxRecDepth 16000 in
/-- the only unlocked accesses left are constructor / start-up code (entry "-"), before the object is shared, and
    the declared benign pre-check of `InsertBlock` -/
theorem table_unlocked_rows_are_startup :
    (table.filter (fun r => !r.held)).all (fun r => r.kind == .startup || benignPrechecks.contains r.fn) = true := by
  decide

/-- position of a lock in the committed topological order -/
def rankOf (l : String) : Nat := lockRank.findIdx (· == l)

set_option maxRecDepth 16000 in
/-- **table_lock_order_acyclic**: every committed lock-order edge (B taken while A may be held) other than the per-type
    re-acquisitions (A, A) goes strictly forward in the committed order `lockRank`, and both ends are in it: the
    lock-order graph the scanner extracted has no cycle, i.e. no two code paths take two of these locks in opposite
    orders (no lock-order inversion).  The only (A, A) edge is `BitCask.RW` (256 instances, one per shard). -/
theorem table_lock_order_acyclic :
    lockOrder.all (fun e => e.1 == e.2 || (rankOf e.1 < rankOf e.2 && rankOf e.2 < lockRank.length)) = true ∧
    (lockOrder.filter (fun e => e.1 == e.2)).map (·.1) = ["BitCask.RW"] := by decide

/-- **table_no_lock_leak**: the only function that can return still holding a lock it took is the deliberate
    lock-handing wrapper `TrieDatabase.Lock` -/
theorem table_no_lock_leak : lockLeaks.map (·.1) = ["TrieDatabase.Lock"] := by decide

/-- **table_no_check_then_act_split**: the scanner found no function that reads a tracked variable in one section of
    its lock and writes it in another one (the premise of `lastsig_monotone` / `rmw_no_lost_update` at function level:
    check and update share a section) -/
theorem table_no_check_then_act_split : rmwSplits = [] := rfl

/-- no goroutine started in a loop reads the loop's shared variable (fact `loopvar`, scanned on every run) -/
theorem table_no_loopvar_capture : loopvarCaptures = [] := rfl

set_option maxRecDepth 16000 in
/-- **table_head_decisions** (the premise of `cta_no_stale_decision` on the code): inside `MineBlock`, `InsertBlock`
    and `InsertConfirms` every call that reads the fork head or the stable head — directly or through its callees —
    is made with the chain lock of that function already held, EXCEPT the one declared pre-check
    `InsertBlock/isIgnorableBlock` (early exit on monotone facts: the block is already stored / its height is not
    above the stable height; a negative answer is re-validated under the lock by VerifyAndSeal and SetBlock, a
    positive one only drops the request).  In particular `MineBlock/CurrentBlock` is inside the section. -/
theorem table_head_decisions :
    table.all (fun r => r.var != .headDecision || r.held || benignPrechecks.contains r.fn) = true ∧
    (table.filter (fun r => r.var == .headDecision && !r.held)).map (·.fn) =
      ["DPoVP.InsertBlock/DPoVP.isIgnorableBlock"] ∧
    (table.filter (fun r => r.var == .headDecision && r.fn == "DPoVP.MineBlock/DPoVP.CurrentBlock")).map (·.held) =
      [true] := by decide

/-! #### code BEFORE the repairs (frozen fragment of the table of /repo at 2b30546, i.e. before f4ffd1d,
    204ebea, a25165d, 20ee480): the rows that broke the discipline.  Kept as documentation of why the repairs
    were needed and as the data the refutations above (`signer_*_unlocked`, `lastSig_torn_unlocked`) were
    about; the harness still carries the oracles `c19/unlocked-access/*`, `c19/signblock-wrong-signature`,
    `c19/data-race/*`, `c19/panic/concurrent-map/*`, which fire again if a repair is reverted. -/

def legacyOffenders : List Row := [
  ⟨.lastConfirm, "ChainDatabase.CandidatesRanking", false, false, .engine, "DPoVP.InsertBlock"⟩,
  ⟨.lastConfirm, "ChainDatabase.CandidatesRanking", false, false, .engine, "DPoVP.MineBlock"⟩,
  ⟨.lastConfirm, "ChainDatabase.CandidatesRanking", false, false, .store, "store:CandidatesRanking"⟩,
  ⟨.lastConfirm, "ChainDatabase.GetActDatabase", false, false, .engine, "DPoVP.InsertBlock"⟩,
  ⟨.lastConfirm, "ChainDatabase.GetActDatabase", false, false, .engine, "DPoVP.MineBlock"⟩,
  ⟨.lastConfirm, "ChainDatabase.GetActDatabase", false, false, .store, "store:GetActDatabase"⟩,
  ⟨.lastConfirm, "ChainDatabase.GetLastConfirm", false, false, .store, "store:GetLastConfirm"⟩,
  ⟨.lastConfirm, "ChainDatabase.IterateUnConfirms", false, false, .engine, "DPoVP.InsertBlock"⟩,
  ⟨.lastConfirm, "ChainDatabase.IterateUnConfirms", false, false, .engine, "DPoVP.InsertConfirms"⟩,
  ⟨.lastConfirm, "ChainDatabase.IterateUnConfirms", false, false, .engine, "DPoVP.MineBlock"⟩,
  ⟨.lastConfirm, "ChainDatabase.IterateUnConfirms", false, false, .go, "go:DPoVP.InsertBlock$1"⟩,
  ⟨.lastConfirm, "ChainDatabase.IterateUnConfirms", false, false, .store, "store:IterateUnConfirms"⟩,
  ⟨.lastConfirm, "ChainDatabase.LoadLatestBlock", false, false, .engine, "DPoVP.InsertBlock"⟩,
  ⟨.lastConfirm, "ChainDatabase.LoadLatestBlock", false, false, .engine, "DPoVP.InsertConfirms"⟩,
  ⟨.lastConfirm, "ChainDatabase.LoadLatestBlock", false, false, .engine, "DPoVP.MineBlock"⟩,
  ⟨.lastConfirm, "ChainDatabase.LoadLatestBlock", false, false, .store, "store:LoadLatestBlock"⟩,
  ⟨.unConfirmBlocks, "ChainDatabase.CandidatesRanking", false, false, .engine, "DPoVP.InsertBlock"⟩,
  ⟨.unConfirmBlocks, "ChainDatabase.CandidatesRanking", false, false, .engine, "DPoVP.MineBlock"⟩,
  ⟨.unConfirmBlocks, "ChainDatabase.CandidatesRanking", false, false, .store, "store:CandidatesRanking"⟩,
  ⟨.unConfirmBlocks, "ChainDatabase.GetActDatabase", false, false, .engine, "DPoVP.InsertBlock"⟩,
  ⟨.unConfirmBlocks, "ChainDatabase.GetActDatabase", false, false, .engine, "DPoVP.MineBlock"⟩,
  ⟨.unConfirmBlocks, "ChainDatabase.GetActDatabase", false, false, .store, "store:GetActDatabase"⟩,
  ⟨.lastSig, "Confirmer.SetLastSig", false, false, .go, "go:DPoVP.batchConfirmStable"⟩,
  ⟨.lastSig, "Confirmer.SetLastSig", true, false, .go, "go:DPoVP.batchConfirmStable"⟩,
  ⟨.offset, "FileQueue.Put", false, false, .engine, "DPoVP.InsertBlock"⟩,
  ⟨.offset, "FileQueue.Put", false, false, .engine, "DPoVP.MineBlock"⟩,
  ⟨.offset, "FileQueue.Put", false, false, .go, "go:SyncFileDB.start"⟩,
  ⟨.offset, "FileQueue.Put", false, false, .store, "store:SetContractCode"⟩,
  ⟨.offset, "FileQueue.Put", true, false, .engine, "DPoVP.InsertBlock"⟩,
  ⟨.offset, "FileQueue.Put", true, false, .engine, "DPoVP.MineBlock"⟩,
  ⟨.offset, "FileQueue.Put", true, false, .go, "go:SyncFileDB.start"⟩,
  ⟨.offset, "FileQueue.Put", true, false, .store, "store:SetContractCode"⟩,
  ⟨.offset, "FileQueue.PutBatch", false, false, .engine, "DPoVP.InsertBlock"⟩,
  ⟨.offset, "FileQueue.PutBatch", false, false, .engine, "DPoVP.MineBlock"⟩,
  ⟨.offset, "FileQueue.deliver", false, false, .engine, "DPoVP.InsertBlock"⟩,
  ⟨.offset, "FileQueue.deliver", false, false, .engine, "DPoVP.MineBlock"⟩,
  ⟨.offset, "FileQueue.deliver", false, false, .go, "go:SyncFileDB.start"⟩,
  ⟨.offset, "FileQueue.deliver", false, false, .store, "store:SetContractCode"⟩,
  ⟨.offset, "FileQueue.deliverBatch", true, false, .engine, "DPoVP.InsertBlock"⟩,
  ⟨.offset, "FileQueue.deliverBatch", true, false, .engine, "DPoVP.MineBlock"⟩,
  ⟨.offset, "FileQueue.emptyFile", true, false, .engine, "DPoVP.InsertBlock"⟩,
  ⟨.offset, "FileQueue.emptyFile", true, false, .engine, "DPoVP.MineBlock"⟩,
  ⟨.offset, "FileQueue.emptyFile", true, false, .go, "go:SyncFileDB.start"⟩,
  ⟨.offset, "FileQueue.emptyFile", true, false, .store, "store:SetContractCode"⟩,
  ⟨.sigCache, "consensus.SignBlock", false, false, .ext, "ext:consensus.SignBlock"⟩,
  ⟨.sigCache, "consensus.SignBlock", false, false, .go, "go:DPoVP.batchConfirmStable"⟩,
  ⟨.sigCache, "consensus.SignBlock", true, false, .ext, "ext:consensus.SignBlock"⟩,
  ⟨.sigCache, "consensus.SignBlock", true, false, .go, "go:DPoVP.batchConfirmStable"⟩
]

/-- (code before the repairs) the discipline FAILED for `sigCache`, `Confirmer.lastSig`,
    `ChainDatabase.UnConfirmBlocks`, `ChainDatabase.LastConfirm`, `FileQueue.Offset` -/
theorem legacy_table_discipline_refuted :
    disciplined legacyOffenders .sigCache = false ∧ disciplined legacyOffenders .lastSig = false ∧
    disciplined legacyOffenders .unConfirmBlocks = false ∧ disciplined legacyOffenders .lastConfirm = false ∧
    disciplined legacyOffenders .offset = false := by decide

/-- (code before f4ffd1d) the offending paths for the signer memo: the `batchConfirmStable` goroutine and the
    RPC entry (`PrivateNetAPI.BroadcastConfirm` → exported `SignBlock`) -/
theorem legacy_offenders_sigCache :
    (offenders legacyOffenders .sigCache).map (fun r => (r.write, r.entry)) =
      [(false, "ext:consensus.SignBlock"), (false, "go:DPoVP.batchConfirmStable"),
       (true, "ext:consensus.SignBlock"), (true, "go:DPoVP.batchConfirmStable")] := by decide

/-- (code before 204ebea) -/
theorem legacy_offenders_lastSig :
    (offenders legacyOffenders .lastSig).map (fun r => (r.fn, r.write, r.entry)) =
      [("Confirmer.SetLastSig", false, "go:DPoVP.batchConfirmStable"),
       ("Confirmer.SetLastSig", true, "go:DPoVP.batchConfirmStable")] := by decide

/-- (code before a25165d) the unlocked readers of the unconfirmed-block tree -/
theorem legacy_offenders_tree_fns :
    dedup ((offenders legacyOffenders .unConfirmBlocks ++ offenders legacyOffenders .lastConfirm).map (·.fn)) =
      ["ChainDatabase.CandidatesRanking", "ChainDatabase.GetActDatabase", "ChainDatabase.GetLastConfirm",
       "ChainDatabase.IterateUnConfirms", "ChainDatabase.LoadLatestBlock"] := by decide

/-- (code before 20ee480) the unguarded writers of the write-ahead cursor -/
theorem legacy_offenders_offset_fns :
    dedup ((offenders legacyOffenders .offset).map (·.fn)) =
      ["FileQueue.Put", "FileQueue.PutBatch", "FileQueue.deliver", "FileQueue.deliverBatch",
       "FileQueue.emptyFile"] := by decide

/-- the link table → premise of `drf_of_discipline`: build one section per row of `v` whose `locked`
    flag is the row's `held` (start-up rows excepted); if the table says `v` is disciplined, the
    premise of `drf_of_discipline` holds for these programs -/
def secOfRow {σ : Type} (body : Row → List (σ → σ)) (r : Row) : Sec σ := ⟨r.held || r.kind == .startup, body r⟩

theorem discipline_of_table {σ : Type} (v : Var) (body : Row → List (σ → σ)) (h : disciplined table v = true) :
    ∀ sec ∈ (table.filter (fun r => r.var == v)).map (secOfRow body), sec.locked = true := by
  intro sec hsec
  simp only [List.mem_map, List.mem_filter] at hsec
  obtain ⟨r, ⟨hr, hv⟩, rfl⟩ := hsec
  have := (List.all_eq_true.mp h) r hr
  simp only [secOfRow]
  have hv' : (r.var != v) = false := by simpa using hv
  simpa [hv'] using this

end LemoProofs.C19

/-
  C19 (writer lag) — every read of the store returns the last acknowledged write of its key, for EVERY interleaving of
  the request threads with the sync goroutine and the done goroutine (model: LemoModel/QueueLin.lean).
-/
import LemoModel.QueueLin
namespace LemoProofs.C19Lag
open LemoModel.Wal LemoModel.QueueLin

/-! ## the index as a finite map -/

theorem lFind_key {idx : LIndex} {k : Bytes} {e : LEntry} (h : lFind idx k = some e) : e.key = k := by
  unfold lFind at h
  have := List.find?_some h
  simpa using this

theorem lFind_lErase (idx : LIndex) (k' k : Bytes) :
    lFind (lErase idx k') k = if k' = k then none else lFind idx k := by
  unfold lFind lErase
  rw [List.find?_filter]
  by_cases h : k' = k
  · subst h; simp
  · simp only [h, if_false]
    congr 1; funext e
    by_cases h2 : e.key = k
    · have : ¬ k = k' := fun h' => h h'.symm
      simp [h2, this]
    · simp [h2]

theorem lFind_lPut (idx : LIndex) (e : LEntry) (k : Bytes) :
    lFind (lPut idx e) k = if e.key = k then some e else lFind idx k := by
  have h := lFind_lErase idx e.key k
  unfold lPut
  unfold lFind at h ⊢
  by_cases h1 : e.key = k
  · simp [h1]
  · simp [h1] at h ⊢; exact h

theorem lCnt_lErase (idx : LIndex) (k' k : Bytes) :
    lCnt (lErase idx k') k = if k' = k then 0 else lCnt idx k := by
  unfold lCnt; rw [lFind_lErase]; by_cases h : k' = k <;> simp [h]

theorem lCnt_lPut (idx : LIndex) (e : LEntry) (k : Bytes) :
    lCnt (lPut idx e) k = if e.key = k then e.cnt else lCnt idx k := by
  unfold lCnt; rw [lFind_lPut]; by_cases h : e.key = k <;> simp [h]

/-! ## the store -/

theorem replay_cons (s : Store) (r : Record) (rs : List Record) : s.replay (r :: rs) = (s.apply r).replay rs := rfl

theorem replay_snoc (s : Store) (rs : List Record) (r : Record) :
    s.replay (rs ++ [r]) = (s.replay rs).apply r := by
  simp [Store.replay, List.foldl_append]

theorem apply_same (s : Store) (r : Record) : s.apply r (r.flg, r.key) = some r.val := by
  simp [Store.apply]

theorem apply_other (s : Store) (r : Record) (K : StoreKey) (h : K ≠ (r.flg, r.key)) : s.apply r K = s K := by
  simp [Store.apply, h]

theorem replay_untouched (s : Store) (rs : List Record) (K : StoreKey)
    (h : ∀ r ∈ rs, K ≠ (r.flg, r.key)) : s.replay rs K = s K := by
  induction rs generalizing s with
  | nil => rfl
  | cons r rs ih =>
    rw [replay_cons, ih _ (fun r' h' => h r' (List.mem_cons_of_mem _ h'))]
    exact apply_other s r K (h r (List.mem_cons_self ..))

/-! ## the invariant of the code under test -/

/-- `fl` = the flag every key is written with.  `cnt` is the index invariant: refCnt = number of hand-overs of the
    key that `delIndex` has not seen yet; `ent`: an entry holds the newest promised value of its key. -/
structure Inv (fl : Bytes → Nat) (s : LState) : Prop where
  alive : s.dead = false
  cnt : ∀ k, lCnt s.index k = (s.acks ++ s.chan).countP (fun r => r.key == k)
  ent : ∀ k e, lFind s.index k = some e → e.flg = fl k ∧ 1 ≤ e.cnt ∧ s.promised (fl k, k) = some e.val
  flg : ∀ r ∈ s.acks ++ s.chan, r.flg = fl r.key

theorem inv_init (fl : Bytes → Nat) : Inv fl LState.init :=
  ⟨rfl, fun _ => rfl, fun _ _ h => by simp [LState.init, lFind] at h, fun _ h => by simp [LState.init] at h⟩

/-- a read answers what the acknowledged writes promise -/
theorem get_eq_promised {fl : Bytes → Nat} {s : LState} (h : Inv fl s) (f : Nat) (k : Bytes) :
    qGet s f k = s.promised (f, k) := by
  unfold qGet lGetIndex
  cases hf : lFind s.index k with
  | none =>
    simp only
    have hc : 0 = (s.acks ++ s.chan).countP (fun r => r.key == k) := by
      have := h.cnt k
      unfold lCnt at this; rw [hf] at this; exact this
    have hz : ∀ r ∈ s.chan, (f, k) ≠ (r.flg, r.key) := by
      intro r hr heq
      have hk : r.key = k := (Prod.mk.inj heq).2.symm
      have hpos : 0 < (s.acks ++ s.chan).countP (fun r => r.key == k) :=
        List.countP_pos_iff.2 ⟨r, List.mem_append_right _ hr, by simp [hk]⟩
      omega
    exact (replay_untouched s.disk s.chan (f, k) hz).symm
  | some e =>
    obtain ⟨h1, _, h3⟩ := h.ent k e hf
    by_cases hfl : e.flg = f
    · simp only [hfl, if_true]
      rw [← hfl, h1]; exact h3.symm
    · simp only [hfl, if_false]
      have hz : ∀ r ∈ s.chan, (f, k) ≠ (r.flg, r.key) := by
        intro r hr heq
        have hk : r.key = k := (Prod.mk.inj heq).2.symm
        have hf' : r.flg = f := (Prod.mk.inj heq).1.symm
        have := h.flg r (List.mem_append_right _ hr)
        rw [hk, hf'] at this
        exact hfl (h1.trans this.symm)
      exact (replay_untouched s.disk s.chan (f, k) hz).symm

theorem promised_put (seeded : Bool) (s : LState) (r : Record) :
    (qPut seeded s r).promised = s.promised.apply r := by
  simp [qPut, LState.promised, replay_snoc]

/-- a hand-over keeps the invariant -/
theorem inv_put {fl : Bytes → Nat} {s : LState} (h : Inv fl s) (r : Record) (hr : r.flg = fl r.key) :
    Inv fl (qPut false s r) := by
  have hidx : ∀ k, lFind (qPut false s r).index k =
      if r.key = k then some ⟨r.key, r.flg, r.val, lCnt s.index r.key + 1⟩ else lFind s.index k := by
    intro k
    show lFind (lSetIndex false s.index r) k = _
    unfold lSetIndex lCnt
    cases hf : lFind s.index r.key with
    | none => simp [lFind_lPut]
    | some e => simp [lFind_lPut]
  refine ⟨h.alive, ?_, ?_, ?_⟩
  · intro k
    have : (qPut false s r).acks ++ (qPut false s r).chan = (s.acks ++ s.chan) ++ [r] := by
      simp [qPut]
    rw [this, List.countP_append]
    unfold lCnt; rw [hidx k]
    by_cases hk : r.key = k
    · subst hk; have := h.cnt r.key; simp [List.countP_append] at this ⊢; exact this
    · have := h.cnt k
      unfold lCnt at this
      simp [hk, this]
  · intro k e he
    rw [hidx k] at he
    rw [promised_put]
    by_cases hk : r.key = k
    · subst hk
      simp at he; subst he
      refine ⟨hr, by simp, ?_⟩
      rw [← hr]; exact apply_same _ r
    · simp [hk] at he
      obtain ⟨h1, h2, h3⟩ := h.ent k e he
      refine ⟨h1, h2, ?_⟩
      rw [apply_other _ r _ (fun heq => hk (Prod.mk.inj heq).2.symm)]; exact h3
  · intro x hx
    have : x ∈ (s.acks ++ s.chan) ++ [r] := by simpa [qPut, List.append_assoc] using hx
    rcases List.mem_append.1 this with h' | h'
    · exact h.flg x h'
    · simp at h'; subst h'; exact hr

theorem promised_wStep {fl : Bytes → Nat} {s : LState} (_h : Inv fl s) (e : WEv) :
    (wStep s e).promised = s.promised := by
  cases e with
  | write =>
    unfold wStep
    cases hc : s.chan with
    | nil => rfl
    | cons r rest => simp [LState.promised, hc, replay_cons]
  | ack =>
    unfold wStep
    cases ha : s.acks with
    | nil => rfl
    | cons r rest =>
      simp only
      cases lDelIndex s.index r.flg r.key <;> rfl

/-- a step of either goroutine keeps the invariant (in particular `delIndex` does not panic) -/
theorem inv_wStep {fl : Bytes → Nat} {s : LState} (h : Inv fl s) (e : WEv) : Inv fl (wStep s e) := by
  have hp := promised_wStep h e
  cases e with
  | write =>
    unfold wStep at hp ⊢
    cases hc : s.chan with
    | nil => exact h
    | cons r rest =>
      rw [hc] at hp
      simp only at hp ⊢
      have hl : ∀ (p : Record → Bool), ((s.acks ++ [r]) ++ rest).countP p = (s.acks ++ s.chan).countP p := by
        intro p; rw [hc]; simp
      refine ⟨h.alive, ?_, ?_, ?_⟩
      · intro k; show lCnt s.index k = ((s.acks ++ [r]) ++ rest).countP _
        rw [hl]; exact h.cnt k
      · intro k e he
        have := h.ent k e he
        rw [← hp] at this; exact this
      · intro x hx
        apply h.flg x
        rw [hc]
        have : x ∈ (s.acks ++ [r]) ++ rest := hx
        simpa using this
  | ack =>
    unfold wStep at hp ⊢
    cases ha : s.acks with
    | nil => exact h
    | cons r rest =>
      rw [ha] at hp
      simp only at hp ⊢
      have hrf : r.flg = fl r.key := h.flg r (by rw [ha]; simp)
      have hcr := h.cnt r.key
      rw [ha] at hcr
      have hpos : 1 ≤ lCnt s.index r.key := by
        rw [hcr]; simp
      cases hf : lFind s.index r.key with
      | none =>
        have : lCnt s.index r.key = 0 := by unfold lCnt; rw [hf]
        omega
      | some e =>
        obtain ⟨he1, he2, he3⟩ := h.ent r.key e hf
        have hek : e.key = r.key := lFind_key hf
        have hcnt : lCnt s.index r.key = e.cnt := by unfold lCnt; rw [hf]
        have hflg : e.flg = r.flg := he1.trans hrf.symm
        have hcount : ∀ k, (s.acks ++ s.chan).countP (fun x => x.key == k) =
            (if r.key = k then 1 else 0) + (rest ++ s.chan).countP (fun x => x.key == k) := by
          intro k; rw [ha]; simp [List.countP_cons]; omega
        by_cases hle : e.cnt ≤ 1
        · have hd : lDelIndex s.index r.flg r.key = some (lErase s.index r.key) := by
            unfold lDelIndex; rw [hf]; simp [hflg, hle]
          rw [hd] at hp ⊢
          simp only at hp ⊢
          refine ⟨h.alive, ?_, ?_, ?_⟩
          · intro k
            show lCnt (lErase s.index r.key) k = (rest ++ s.chan).countP _
            rw [lCnt_lErase]
            have h1 := h.cnt k
            rw [hcount k] at h1
            by_cases hk : r.key = k
            · subst hk; simp at h1 ⊢; omega
            · simp [hk] at h1 ⊢; exact h1
          · intro k e' he'
            have he'' : lFind (lErase s.index r.key) k = some e' := he'
            rw [lFind_lErase] at he''
            by_cases hk : r.key = k
            · simp [hk] at he''
            · simp [hk] at he''
              have := h.ent k e' he''
              rw [← hp] at this; exact this
          · intro x hx
            apply h.flg x; rw [ha]
            have : x ∈ rest ++ s.chan := hx
            simp at this ⊢; rcases this with h' | h' <;> simp [h']
        · have hd : lDelIndex s.index r.flg r.key = some (lPut s.index { e with cnt := e.cnt - 1 }) := by
            unfold lDelIndex; rw [hf]; simp [hflg, hle]
          rw [hd] at hp ⊢
          simp only at hp ⊢
          refine ⟨h.alive, ?_, ?_, ?_⟩
          · intro k
            show lCnt (lPut s.index { e with cnt := e.cnt - 1 }) k = (rest ++ s.chan).countP _
            rw [lCnt_lPut]
            have h1 := h.cnt k
            rw [hcount k] at h1
            by_cases hk : r.key = k
            · subst hk; simp [hek] at h1 ⊢; omega
            · have : ¬ e.key = k := by rw [hek]; exact hk
              simp [hk, this] at h1 ⊢; exact h1
          · intro k e' he'
            have he'' : lFind (lPut s.index { e with cnt := e.cnt - 1 }) k = some e' := he'
            rw [lFind_lPut] at he''
            by_cases hk : r.key = k
            · have : e.key = k := hek.trans hk
              simp [this] at he''
              subst he''
              subst hk
              have := h.ent r.key e hf
              rw [← hp] at this
              exact ⟨this.1, by simp; omega, this.2.2⟩
            · have : ¬ e.key = k := by rw [hek]; exact hk
              simp [this] at he''
              have := h.ent k e' he''
              rw [← hp] at this; exact this
          · intro x hx
            apply h.flg x; rw [ha]
            have : x ∈ rest ++ s.chan := hx
            simp at this ⊢; rcases this with h' | h' <;> simp [h']

theorem inv_wRun {fl : Bytes → Nat} (es : List WEv) {s : LState} (h : Inv fl s) :
    Inv fl (wRun s es) ∧ (wRun s es).promised = s.promised := by
  induction es generalizing s with
  | nil => exact ⟨h, rfl⟩
  | cons e es ih =>
    have h1 := inv_wStep h e
    obtain ⟨h2, h3⟩ := ih h1
    exact ⟨h2, h3.trans (promised_wStep h e)⟩

/-! ## schedules of puts, gets and goroutine steps -/

theorem run_refines {fl : Bytes → Nat} (evs : List Ev) {s : LState} (h : Inv fl s)
    (hp : ∀ r, Ev.put r ∈ evs → r.flg = fl r.key) :
    (lRun false s evs).1 = (mRun s.promised evs).1 ∧ Inv fl (lRun false s evs).2 ∧
    (lRun false s evs).2.promised = (mRun s.promised evs).2 := by
  induction evs generalizing s with
  | nil => exact ⟨rfl, h, rfl⟩
  | cons e evs ih =>
    have hp' : ∀ r, Ev.put r ∈ evs → r.flg = fl r.key := fun r' h' => hp r' (List.mem_cons_of_mem _ h')
    cases e with
    | put r =>
      have hr := hp r (by simp)
      have := ih (inv_put h r hr) hp'
      rw [promised_put] at this
      simpa [lRun, mRun] using this
    | get f k =>
      have := ih h hp'
      simp only [lRun, mRun]
      rw [get_eq_promised h]
      exact ⟨by rw [this.1], this.2.1, this.2.2⟩
    | w e =>
      have := ih (inv_wStep h e) hp'
      rw [promised_wStep h e] at this
      simpa [lRun, mRun] using this

/-- **store_reads_linearizable**: for EVERY schedule — any interleaving of puts and gets of the request threads with
    write steps of the sync goroutine and delIndex steps of the done goroutine — every get returns exactly what the
    synchronous map returns (the value of the last put of its (flag, key) before it, `spec_get_last_put`), and
    `delIndex` never panics.  Guard: a key's bytes are always written with the same flag (`fl`). -/
theorem store_reads_linearizable (fl : Bytes → Nat) (evs : List Ev)
    (hp : ∀ r, Ev.put r ∈ evs → r.flg = fl r.key) :
    (lRun false LState.init evs).1 = (mRun Store.empty evs).1 ∧ (lRun false LState.init evs).2.dead = false := by
  have := run_refines evs (inv_init fl) hp
  exact ⟨this.1, this.2.1.alive⟩

/-- the records a schedule writes, in order -/
def putsOf : List Ev → List Record
  | [] => []
  | .put r :: evs => r :: putsOf evs
  | _ :: evs => putsOf evs

theorem mRun_append (st : Store) (pre post : List Ev) :
    (mRun st (pre ++ post)).1 = (mRun st pre).1 ++ (mRun (st.replay (putsOf pre)) post).1 := by
  induction pre generalizing st with
  | nil => simp [mRun, putsOf, Store.replay]
  | cons e pre ih =>
    cases e with
    | put r => simp [mRun, putsOf, replay_cons, ih]
    | get f k => simp [mRun, putsOf, ih]
    | w e => simp [mRun, putsOf, ih]

/-- what the specification answers: a get placed after the events `pre` returns the last put of its key in `pre` -/
theorem spec_get_last_put (pre post : List Ev) (f : Nat) (k : Bytes) :
    (mRun Store.empty (pre ++ Ev.get f k :: post)).1 =
      (mRun Store.empty pre).1 ++ (Store.empty.replay (putsOf pre)) (f, k) ::
        (mRun (Store.empty.replay (putsOf pre)) post).1 := by
  rw [mRun_append]; simp [mRun]

/-- **index_refcnt_invariant** (the lemma the linearizability rests on): after every schedule the reference count
    of a key is the number of its hand-overs that `delIndex` has not seen yet (queued or written, not acknowledged),
    no entry = 0 — so an entry disappears only when the NEWEST value of its key is on disk. -/
theorem index_refcnt_invariant (fl : Bytes → Nat) (evs : List Ev)
    (hp : ∀ r, Ev.put r ∈ evs → r.flg = fl r.key) (k : Bytes) :
    lCnt (lRun false LState.init evs).2.index k =
      ((lRun false LState.init evs).2.acks ++ (lRun false LState.init evs).2.chan).countP (fun r => r.key == k) :=
  (run_refines evs (inv_init fl) hp).2.1.cnt k

/-! ## client programs (read-modify-write), goroutine steps inside the request -/

theorem prog_refines {α : Type} {fl : Bytes → Nat} (p : Prog α) :
    ∀ {s : LState} (sc : List (List WEv)), Inv fl s → p.Flagged fl →
      (p.runQ false s sc).1 = (p.runM s.promised).1 ∧ Inv fl (p.runQ false s sc).2.1 ∧
      (p.runQ false s sc).2.1.promised = (p.runM s.promised).2 := by
  induction p with
  | ret a => intro s sc h _; exact ⟨rfl, h, rfl⟩
  | get f k c ih =>
    intro s sc h hf
    simp only [Prog.runQ, Prog.runM]
    rw [get_eq_promised h]
    obtain ⟨h1, h2⟩ := inv_wRun (sc.headD []) h
    have := ih (s.promised (f, k)) sc.tail h1 (hf _)
    rw [h2] at this
    exact this
  | put r c ih =>
    intro s sc h hf
    simp only [Prog.runQ, Prog.runM]
    have hi := inv_put h r hf.1
    obtain ⟨h1, h2⟩ := inv_wRun (sc.headD []) hi
    have := ih sc.tail h1 hf.2
    rw [h2, promised_put] at this
    exact this

/-- **store_prog_linearizable**: any request — a program whose writes may depend on what it read, like `setConfirm`'s
    read–append–write back — run on the queue with ARBITRARY steps of the two goroutines after each of its store
    accesses returns what it returns on the synchronous map. -/
theorem store_prog_linearizable {α : Type} (fl : Bytes → Nat) (p : Prog α) (sc : List (List WEv))
    (hf : p.Flagged fl) :
    (p.runQ false LState.init sc).1 = (p.runM Store.empty).1 ∧ (p.runQ false LState.init sc).2.1.dead = false := by
  have := prog_refines p sc (inv_init fl) hf
  exact ⟨this.1, this.2.1.alive⟩

/-! ## the `ChainDatabase` API -/

theorem flagOf_block (n : Nat) : flagOf (mkKey flagBlock n) = flagBlock := by
  simp [flagOf, mkKey, flagBlock]
theorem flagOf_height (n : Nat) : flagOf (mkKey flagHeight n) = flagHeight := by
  simp [flagOf, mkKey, flagHeight]
theorem flagOf_act (n : Nat) : flagOf (mkKey flagAct n) = flagAct := by
  simp [flagOf, mkKey, flagAct]

theorem putAll_flagged {α : Type} {fl : Bytes → Nat} (rs : List Record) (c : Prog α)
    (hr : ∀ r ∈ rs, r.flg = fl r.key) (hc : c.Flagged fl) : (putAll rs c).Flagged fl := by
  induction rs with
  | nil => exact hc
  | cons r rs ih =>
    exact ⟨hr r (List.mem_cons_self ..), ih (fun r' h' => hr r' (List.mem_cons_of_mem _ h'))⟩

theorem commitBatch_flagged (b : UBlock) : ∀ r ∈ commitBatch b, r.flg = flagOf r.key := by
  intro r hr
  unfold commitBatch at hr
  cases ha : b.acct with
  | none =>
    rw [ha] at hr
    simp at hr
    rcases hr with h | h <;> subst h
    · exact (flagOf_block _).symm
    · exact (flagOf_height _).symm
  | some av =>
    rw [ha] at hr
    simp at hr
    rcases hr with h | h | h <;> subst h
    · exact (flagOf_block _).symm
    · exact (flagOf_height _).symm
    · exact (flagOf_act _).symm

theorem commitPath_flagged (bs : List UBlock) : ∀ cs, (commitPath bs cs).Flagged flagOf := by
  induction bs with
  | nil => intro cs; trivial
  | cons b rest ih =>
    intro cs
    exact putAll_flagged _ _ (commitBatch_flagged b) (ih _)

theorem apiProg_flagged (cs : CState) (a : Api) : (apiProg cs a).Flagged flagOf := by
  cases a with
  | setBlock id parent height acct =>
    simp only [apiProg]
    split
    · trivial
    · intro v
      cases v with
      | some _ => trivial
      | none =>
        simp only
        split
        · trivial
        · split <;> split <;> trivial
  | setStable id =>
    simp only [apiProg]
    split
    · trivial
    · exact commitPath_flagged _ _
  | confirm id c =>
    simp only [apiProg]
    split
    · trivial
    · intro v
      cases v with
      | none => trivial
      | some old => exact ⟨(flagOf_block _).symm, trivial⟩
  | getConfirms id =>
    simp only [apiProg]
    split
    · trivial
    · intro v; cases v <;> trivial
  | getByHash id =>
    simp only [apiProg]
    split
    · trivial
    · intro v; cases v <;> trivial
  | getByHeight h =>
    simp only [apiProg]
    intro v
    cases v with
    | none => trivial
    | some bk => intro w; cases w <;> trivial
  | getAccount a =>
    simp only [apiProg]
    intro v; cases v <;> trivial

theorem script_refines (steps : List SStep) :
    ∀ (cs : CState) {s : LState} (sc : List (List WEv)), Inv flagOf s →
      (runScriptQ false cs s sc steps).1 = (runScriptM cs s.promised steps).1 ∧
      (runScriptQ false cs s sc steps).2.dead = false := by
  induction steps with
  | nil => intro cs s sc h; exact ⟨rfl, h.alive⟩
  | cons st rest ih =>
    intro cs s sc h
    cases st with
    | w e =>
      have := ih cs sc (inv_wStep h e)
      rw [promised_wStep h e] at this
      simpa [runScriptQ, runScriptM] using this
    | api a =>
      obtain ⟨h1, h2, h3⟩ := prog_refines (apiProg cs a) sc h (apiProg_flagged cs a)
      have := ih ((apiProg cs a).runQ false s sc).1.1 ((apiProg cs a).runQ false s sc).2.2 h2
      simp only [runScriptQ, runScriptM]
      rw [h3, h1] at this
      rw [h1]
      exact ⟨by rw [this.1], this.2⟩

/-- **cdb_api_linearizable**: every script of `ChainDatabase` calls (SetBlock, SetStableBlock, SetConfirms,
    GetConfirms, GetBlockByHash, GetBlockByHeight, GetAccount), run on the write-ahead queue with arbitrary steps of
    the sync and done goroutines between the calls (`Step.w`) and inside them (`sc`), returns call by call what the
    same script returns on a synchronously written map; the done goroutine never panics. -/
theorem cdb_api_linearizable (steps : List SStep) (sc : List (List WEv)) :
    (runScriptQ false CState.init LState.init sc steps).1 = (runScriptM CState.init Store.empty steps).1 ∧
    (runScriptQ false CState.init LState.init sc steps).2.dead = false :=
  script_refines steps CState.init sc (inv_init flagOf)

/-! ## no acknowledged confirm is lost -/

/-- the confirms `cs`, one `setConfirm` each, then a read -/
def confirmAll (k : Bytes) : List UInt8 → Prog (Option Bytes)
  | [] => .get flagBlock k .ret
  | c :: cs => (rmwConfirm k c).bind (fun _ => confirmAll k cs)

theorem confirmAll_flagged {fl : Bytes → Nat} (k : Bytes) (hk : fl k = flagBlock) (cs : List UInt8) :
    (confirmAll k cs).Flagged fl := by
  induction cs with
  | nil => intro v; trivial
  | cons c cs ih =>
    intro v
    cases v with
    | none => exact ih
    | some old => exact ⟨hk.symm, ih⟩

theorem confirmAll_runM (k : Bytes) (cs : List UInt8) :
    ∀ (st : Store) (v0 : Bytes), st (flagBlock, k) = some v0 →
      ((confirmAll k cs).runM st).1 = some (cs.foldl addConfirm v0) := by
  induction cs with
  | nil => intro st v0 h; simp [confirmAll, Prog.runM, h]
  | cons c cs ih =>
    intro st v0 h
    have := ih (st.apply ⟨flagBlock, k, addConfirm v0 c⟩) (addConfirm v0 c) (apply_same _ _)
    simpa [confirmAll, rmwConfirm, Prog.bind, Prog.runM, h] using this

/-- **confirms_never_lost**: a stable block whose record promises the confirms `v0` receives the confirms `cs`
    by one read-modify-write each, with ARBITRARY steps of the two goroutines inside and between the requests: the
    read that follows returns `v0` with every one of them appended — each acknowledged confirm is stored. -/
theorem confirms_never_lost (fl : Bytes → Nat) (k : Bytes) (hk : fl k = flagBlock) (cs : List UInt8) (v0 : Bytes)
    (sc : List (List WEv)) (s : LState) (h : Inv fl s) (h0 : s.promised (flagBlock, k) = some v0) :
    ((confirmAll k cs).runQ false s sc).1 = some (cs.foldl addConfirm v0) := by
  rw [(prog_refines (confirmAll k cs) sc h (confirmAll_flagged k hk cs)).1]
  exact confirmAll_runM k cs _ v0 h0

theorem mem_addConfirm_self (v : List UInt8) (c : UInt8) : c ∈ addConfirm v c := by
  unfold addConfirm
  by_cases h : c ∈ v
  · simp [h]
  · simp [h]

theorem mem_addConfirm_of_mem (v : List UInt8) (c x : UInt8) (h : x ∈ v) : x ∈ addConfirm v c := by
  unfold addConfirm
  split
  · exact h
  · exact List.mem_append_left _ h

/-- every appended confirm (and every earlier one) is in the result -/
theorem mem_foldl_addConfirm (cs : List UInt8) : ∀ (v0 : List UInt8) (x : UInt8), x ∈ v0 ∨ x ∈ cs →
    x ∈ cs.foldl addConfirm v0 := by
  induction cs with
  | nil => intro v0 x h; simpa using h
  | cons c cs ih =>
    intro v0 x h
    simp only [List.foldl_cons]
    apply ih
    rcases h with h | h
    · exact Or.inl (mem_addConfirm_of_mem _ _ _ h)
    · rcases List.mem_cons.1 h with h | h
      · subst h; exact Or.inl (mem_addConfirm_self _ _)
      · exact Or.inr h

/-! ## refutations -/

/-- the record of block 1 -/
def kB : Bytes := mkKey flagBlock 1

/-- seed C19i, queue level: SetStableBlock's block record (no confirms), SetConfirms(a0) queued behind it, the FIRST
    write flushed and acknowledged, then a read -/
def staleSchedule : List Ev :=
  [.put ⟨flagBlock, kB, []⟩, .put ⟨flagBlock, kB, [0xA0]⟩, .w .write, .w .ack, .get flagBlock kB]

/-- **seeded_stale_read_refuted** (VARIANT seed C19i, not the code under test: the count never exceeds 1): after the
    first of two queued writes of one key has been acknowledged the entry holding the NEWEST value is gone although
    a write is still queued, and the read returns the older value from disk.  The code under test answers a0. -/
theorem seeded_stale_read_refuted :
    (lRun true LState.init staleSchedule).1 = [some []] ∧
    (mRun Store.empty staleSchedule).1 = [some [0xA0]] ∧
    lCnt (lRun true LState.init staleSchedule).2.index kB = 0 ∧
    (lRun true LState.init staleSchedule).2.chan.length = 1 ∧
    (lRun false LState.init staleSchedule).1 = [some [0xA0]] := by decide

/-- seed C19i, API level: block 1 becomes stable, SetConfirms(a0), the block record of the promotion is flushed and
    acknowledged, SetConfirms(b1), everything is flushed, GetConfirms -/
def lostScript : List SStep :=
  [.api (.setBlock 1 0 1 none), .api (.setStable 1), .api (.confirm 1 0xA0), .w .write, .w .ack,
   .api (.confirm 1 0xB1), .w .write, .w .ack, .w .write, .w .ack, .w .write, .w .ack, .api (.getConfirms 1)]

/-- **seeded_confirm_lost_refuted** (VARIANT seed C19i): `setConfirm`'s read-modify-write, although atomic among
    the requests, reads the stale record and writes it back: after both calls returned and everything is on disk the
    block holds b1 only.  Every sequential order ends with both; so does the code under test. -/
theorem seeded_confirm_lost_refuted :
    (runScriptQ true CState.init LState.init [] lostScript).1.getLast? = some (.confirms [0xB1]) ∧
    (runScriptM CState.init Store.empty lostScript).1.getLast? = some (.confirms [0xA0, 0xB1]) ∧
    (runScriptQ false CState.init LState.init [] lostScript).1.getLast? = some (.confirms [0xA0, 0xB1]) := by
  decide

/-- one key under two flags: written as KV (7), then as Code (6) -/
def clashSchedule : List Ev :=
  [.put ⟨7, [9], [1]⟩, .put ⟨6, [9], [2]⟩, .get 7 [9], .w .write, .w .ack]

/-- **flag_clash_refuted** (the code under test WITHOUT the guard of `store_reads_linearizable`): the index is keyed
    by the key bytes alone; a second write of the same bytes under another flag takes the entry over, the read of the
    first record falls through to disk (nothing there yet), and the acknowledgement of the first write makes
    `delIndex` panic. -/
theorem flag_clash_refuted :
    (lRun false LState.init clashSchedule).1 = [none] ∧
    (mRun Store.empty clashSchedule).1 = [some [1]] ∧
    (lRun false LState.init clashSchedule).2.dead = true := by decide

/-! ## the count part of the index is C08's model (LemoModel/Wal.lean) -/

theorem idxFind_view (idx : LIndex) (k : Bytes) :
    idxFind (idx.map LEntry.erase) k = (lFind idx k).map LEntry.erase := by
  induction idx with
  | nil => rfl
  | cons e t ih =>
    unfold idxFind lFind at ih ⊢
    by_cases h : e.key = k
    · simp [LEntry.erase, h]
    · simp [LEntry.erase, h] at ih ⊢; exact ih

theorem idxErase_view (idx : LIndex) (k : Bytes) :
    idxErase (idx.map LEntry.erase) k = (lErase idx k).map LEntry.erase := by
  unfold idxErase lErase
  rw [List.filter_map]
  rfl

/-- forgetting the values, `setIndex` of this model is `setIndex` of C08's model -/
theorem index_view_set (idx : LIndex) (r : Record) :
    (lSetIndex false idx r).map LEntry.erase = setIndex false (idx.map LEntry.erase) r := by
  unfold lSetIndex setIndex
  rw [idxFind_view]
  cases lFind idx r.key with
  | none => simp [lPut, idxPut, idxErase_view, LEntry.erase]
  | some e => simp [lPut, idxPut, idxErase_view, LEntry.erase]

/-- … and `delIndex` is `delIndex` -/
theorem index_view_del (idx : LIndex) (f : Nat) (k : Bytes) :
    (lDelIndex idx f k).map (fun i => i.map LEntry.erase) = delIndex (idx.map LEntry.erase) f k := by
  unfold lDelIndex delIndex
  rw [idxFind_view]
  cases hf : lFind idx k with
  | none => simp
  | some e =>
    have hk : e.key = k := lFind_key hf
    by_cases h1 : e.flg = f
    · by_cases h2 : e.cnt ≤ 1
      · simp [h1, h2, LEntry.erase, idxErase_view]
      · simp [h1, h2, LEntry.erase, idxErase_view, lPut, idxPut, hk]
    · simp [h1, LEntry.erase]

/-! ## non-vacuity -/

/-- the guard of `store_reads_linearizable` is satisfiable by the very schedule that refutes the seeded variant -/
example : (lRun false LState.init staleSchedule).1 = (mRun Store.empty staleSchedule).1 :=
  (store_reads_linearizable (fun _ => flagBlock) staleSchedule (by
    intro r h
    simp [staleSchedule] at h
    rcases h with h | h <;> subst h <;> rfl)).1

/-- `confirms_never_lost` applies to a state reached by real steps: the block record queued, nothing written yet -/
example : ((confirmAll kB [0xA0, 0xB1]).runQ false (qPut false LState.init ⟨flagBlock, kB, []⟩) [[.write], [.ack], [], [.write, .ack]]).1
    = some [0xA0, 0xB1] :=
  confirms_never_lost (fun _ => flagBlock) kB rfl [0xA0, 0xB1] [] _ _
    (inv_put (inv_init _) ⟨flagBlock, kB, []⟩ rfl) (by decide)


end LemoProofs.C19Lag

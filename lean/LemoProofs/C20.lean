/-
  C20 — Sync converges under any delivery order; BlockCache is a sorted multimap; every tx of a
  batch reaches the pool exactly once.

  Model: `LemoModel.Sync` (network/cache.go and the receive loop of network/protocol_manager.go as
  coded, Go slice/pointer aliasing explicit), tied to the real code by `hx c20` (cache ops, the real
  ProtocolManager over an abstract chain, the real tx handler).

  State of /repo: the defects this property exposed were repaired by
    bca2980 (BlockCache.Add strict-middle insert), 2a76dcb (BlockCache.IsExit), b496d03 (`tx := tx` in
    handleTxsMsg), 9829a42 (Add/Push flush an oversized cache without re-locking their mutex).
  The LIVE model (what `hx c20` compares the real code with) is `addLive` / `isExitFixed` /
  `ccPushLive` / `handleTxs _ true`; the headline theorems are about it:

  * `cache_refines_multimap_fixed` — for ALL sequences of Add/Remove/Clear/Iterate the cache is a sorted
    multimap (sorted, nothing lost, nothing duplicated); `iterate_visits_ascending`;
    `isExitFixed_refines`; `addLive_eq_addFixed` (the live Add is `addFixed` as long as the slice has at
    most 10240 entries — the property's "bounded gaps"; beyond that the cache is flushed on purpose).
  * `converges` / `converges_same` / `converges_fixed` — any delivery order converges.
  * `txs_exactly_once`.

  The `_refuted` theorems (and `add_deadlocks`, `cache_refines_multimap_partial`) are kept as regression
  documentation: they are about the model of the code BEFORE those commits (`add`, `isExit`,
  `addChecked`, `handleTxs _ false`), with the witnesses that were reproduced on the real code then.
-/
import LemoModel.Sync
import LemoProofs.Lemmas.Sync
import LemoProofs.Lemmas.SyncLoop
import LemoProofs.Lemmas.SyncConfirm
namespace LemoProofs.C20
open LemoModel.Sync LemoProofs.SyncLemmas LemoProofs.SyncLoop LemoProofs.SyncConfirm

/-! ## BlockCache as a sorted multimap -/

inductive Op where
  | add (b : Blk)
  | remove (b : Blk)
  | clear (h : Nat)
  | iterate (f : Blk → Bool)

/-- `prune`: `Iterate` drops emptied entries (the code since commit 6f06589) -/
def stepOp (addF : Blk → BlockCache → BlockCache) (prune : Bool) : Op → BlockCache → BlockCache
  | .add b, c => addF b c
  | .remove b, c => remove b c
  | .clear h, c => clear h c
  | .iterate f, c => (iterateP prune (fun (_ : Unit) b => ((), f b)) () c).2.1

def run (addF : Blk → BlockCache → BlockCache) (prune : Bool) : List Op → BlockCache → BlockCache
  | [], c => c
  | op :: ops, c => run addF prune ops (stepOp addF prune op c)

/-- the specification: a set of blocks (a block carries its height, so this is the multimap) -/
def specStep : Op → List Blk → List Blk
  | .add b, s => if b ∈ s then s else b :: s
  | .remove b, s => s.filter (fun x => decide (x ≠ b))
  | .clear h, s => s.filter (fun x => decide (h < x.height))
  | .iterate f, s => s.filter (fun x => !f x)

def specRun : List Op → List Blk → List Blk
  | [], s => s
  | op :: ops, s => specRun ops (specStep op s)

/-- the exact guard of the partial theorem: no `Add` takes the "not exist" middle branch -/
def Guard : List Op → BlockCache → Prop
  | [], _ => True
  | op :: ops, c =>
    (match op with
      | .add b => strictMiddle b.height c.cache = false
      | _ => True) ∧ Guard ops (stepOp add false op c)

/-- one step refines the specification, for any `Add` that refines multimap insertion on `c` -/
theorem step_refines (addF : Blk → BlockCache → BlockCache) (prune : Bool) (op : Op) (c : BlockCache) (s : List Blk)
    (hc : WF c) (hs : ∀ x, x ∈ blocksOf c.cache ↔ x ∈ s)
    (hadd : ∀ b, op = .add b →
      WF (addF b c) ∧ ∀ x, x ∈ blocksOf (addF b c).cache ↔ x = b ∨ x ∈ blocksOf c.cache) :
    WF (stepOp addF prune op c) ∧ ∀ x, x ∈ blocksOf (stepOp addF prune op c).cache ↔ x ∈ specStep op s := by
  cases op with
  | add b =>
    obtain ⟨h1, h2⟩ := hadd b rfl
    refine ⟨h1, fun x => ?_⟩
    simp only [stepOp, specStep]
    rw [h2 x, hs x]
    by_cases hb : b ∈ s
    · simp only [hb, if_true]
      constructor
      · rintro (rfl | h)
        · exact hb
        · exact h
      · exact Or.inr
    · simp [hb]
  | remove b =>
    obtain ⟨h1, h2⟩ := remove_refines b c hc
    refine ⟨h1, fun x => ?_⟩
    simp only [stepOp, specStep]
    rw [h2 x, hs x]
    simp
  | clear h =>
    refine ⟨clear_wf h c hc, fun x => ?_⟩
    simp only [stepOp, specStep, clear]
    rw [mem_clear_sorted h c.cache hc.sorted hc.hts x, hs x]
    simp
  | iterate f =>
    obtain ⟨h1, _, h3, _⟩ := iterateP_wf prune (fun (_ : Unit) b => ((), f b)) () c hc
    refine ⟨h1, fun x => ?_⟩
    simp only [stepOp, specStep]
    rw [h3 x, visitKeys_pure (fun (_ : Unit) b => ((), f b)) f (fun _ _ => rfl), hs x]
    simp only [List.mem_filter]
    constructor
    · rintro ⟨h, hn⟩
      refine ⟨h, ?_⟩
      cases hf : f x with
      | true => exact absurd ⟨(hs x).mpr h, hf⟩ hn
      | false => rfl
    · rintro ⟨h, hf⟩
      refine ⟨h, ?_⟩
      rintro ⟨_, hf'⟩
      rw [hf'] at hf
      simp at hf

/-- **cache_refines_multimap_partial** (about the `Add` before commit bca2980): for every sequence of Add/Remove/Clear/Iterate in which no Add
    takes the strict-middle branch, the coded cache stays well formed (strictly sorted, no aliasing,
    no duplicate) and denotes exactly the multimap the specification computes. -/
theorem cache_refines_multimap_partial : ∀ (ops : List Op) (c : BlockCache) (s : List Blk),
    WF c → (∀ x, x ∈ blocksOf c.cache ↔ x ∈ s) → Guard ops c →
    WF (run add false ops c) ∧ ∀ x, x ∈ blocksOf (run add false ops c).cache ↔ x ∈ specRun ops s
  | [], c, s, hc, hs, _ => ⟨hc, hs⟩
  | op :: ops, c, s, hc, hs, hg => by
    obtain ⟨hg1, hg2⟩ := hg
    have hst := step_refines add false op c s hc hs (by
      intro b hb
      subst hb
      exact addWith_refines middleInsert b c hc (midOk_guard b c hc.sorted hg1))
    exact cache_refines_multimap_partial ops (stepOp add false op c) (specStep op s) hst.1 hst.2 hg2

/-- **cache_refines_multimap_fixed** (HEADLINE; `addFixed` is the `Add` of /repo since commit bca2980):
    the full theorem, no guard. -/
theorem cache_refines_multimap_fixed (prune : Bool) : ∀ (ops : List Op) (c : BlockCache) (s : List Blk),
    WF c → (∀ x, x ∈ blocksOf c.cache ↔ x ∈ s) →
    WF (run addFixed prune ops c) ∧ ∀ x, x ∈ blocksOf (run addFixed prune ops c).cache ↔ x ∈ specRun ops s
  | [], c, s, hc, hs => ⟨hc, hs⟩
  | op :: ops, c, s, hc, hs => by
    have hst := step_refines addFixed prune op c s hc hs (by
      intro b _
      exact addWith_refines middleInsertFixed b c hc (midOk_fixed b c))
    exact cache_refines_multimap_fixed prune ops (stepOp addFixed prune op c) (specStep op s) hst.1 hst.2

/-- what well-formedness means for an observer: strictly ascending heights, and no block twice -/
theorem wf_sorted_nodup (c : BlockCache) (h : WF c) :
    (c.cache.map (·.height)).Pairwise (· < ·) ∧ (blocksOf c.cache).Nodup ∧
    size c = (blocksOf c.cache).length := by
  refine ⟨by rw [List.pairwise_map]; exact h.sorted, wf_blocksOf_nodup h, ?_⟩
  unfold size blocksOf
  generalize c.cache = l
  induction l with
  | nil => rfl
  | cons g tl ih =>
    simp only [List.map_cons, List.foldl_cons, List.flatMap_cons, List.length_append]
    rw [← ih]
    generalize (tl.map fun g => g.blocks.length) = ns
    have : ∀ (ns : List Nat) (a b : Nat), List.foldl (· + ·) (a + b) ns = a + List.foldl (· + ·) b ns := by
      intro ns
      induction ns with
      | nil => intros; rfl
      | cons n ns ih2 => intro a b; simp only [List.foldl_cons]; rw [Nat.add_assoc, ih2]
    have h2 := this ns g.blocks.length 0
    simpa using h2

/-- **iterate_visits_ascending**: on a well-formed cache `Iterate` hands every cached block to the
    callback exactly once (the visits concatenate to the multimap) in strictly ascending height. -/
theorem iterate_visits_ascending {σ : Type} (prune : Bool) (f : σ → Blk → σ × Bool) (s : σ) (c : BlockCache) (hc : WF c) :
    ((iterateP prune f s c).2.2.map (·.1)).Pairwise (· < ·) ∧
    (iterateP prune f s c).2.2.flatMap (·.2) = blocksOf c.cache := by
  obtain ⟨_, _, _, h4, _⟩ := iterateP_wf prune f s c hc
  rw [h4]
  constructor
  · rw [List.map_map, List.pairwise_map]
    exact hc.sorted
  · unfold blocksOf
    rw [List.flatMap_map]

/-! ### refutations for the code BEFORE commits bca2980 / 2a76dcb / 9829a42 (`add`, `isExit`, `addChecked`):
     concrete witnesses, found with the real `network.BlockCache` at that time -/

def B (h : Nat) : Blk := { height := h, hash := h, parent := h - 1 }

/-- (code before commit bca2980) heights 1,3,4 then 2: the entry of height 4 is overwritten — block 4 is LOST -/
theorem cache_refines_multimap_refuted_lost :
    B 4 ∈ specRun [.add (B 1), .add (B 3), .add (B 4), .add (B 2)] [] ∧
    B 4 ∉ blocksOf (run add false [.add (B 1), .add (B 3), .add (B 4), .add (B 2)] {}).cache := by decide

/-- (code before commit bca2980) same witness: block 2 is reachable through two entries (one aliased object) and `Size` is 4 for 3 blocks -/
theorem cache_refines_multimap_refuted_duplicate :
    ((run add false [.add (B 1), .add (B 3), .add (B 4), .add (B 2)] {}).cache.map (fun g => (g.gid, g.height)))
      = [(0, 1), (1, 3), (3, 2), (3, 2)] ∧
    size (run add false [.add (B 1), .add (B 3), .add (B 4), .add (B 2)] {}) = 4 := by decide

/-- (code before commit bca2980) heights 1,5 then 3: the new entry lands AFTER its larger neighbour — unsorted (minimal witness) -/
theorem cache_refines_multimap_refuted_unsorted :
    (run add false [.add (B 1), .add (B 5), .add (B 3)] {}).cache.map (·.height) = [1, 5, 3] := by decide

/-- (code before commit 2a76dcb) `IsExit` only looks at the first entry: a cached block of the second entry is reported absent -/
theorem isExit_refuted :
    B 2 ∈ blocksOf (run add false [.add (B 1), .add (B 2)] {}).cache ∧
    isExit (B 2).hash 2 (run add false [.add (B 1), .add (B 2)] {}) = false := by decide

/-- after the drain emptied the first entry, `FirstHeight` still names it (the timer then asks the peer
    for the parent of a block that is no longer cached) -/
theorem firstHeight_stale :
    let c := run add false [.add (B 5), .add (B 9), .iterate (fun b => b.height == 5)] {}
    blocksOf c.cache = [B 9] ∧ firstHeight c = 5 := by decide

/-- (code before commit 9829a42) `Add` that makes the slice longer than the limit never returns
    (self-deadlock on `c.lock`); since that commit the cache is flushed instead (`addLive`). -/
theorem add_deadlocks (limit : Nat) (b : Blk) (c : BlockCache) (hlen : c.cache.length = limit)
    (hs : c.cache.Pairwise (fun a b => a.height < b.height))
    (hnew : c.cache ≠ [] → b.height > lastHeight c.cache) : addChecked limit b c = none := by
  unfold addChecked add addWith
  cases hc : c.cache with
  | nil => rw [hc] at hlen; simp at hlen; subst hlen; simp
  | cons f tl =>
    have h2 := hnew (by rw [hc]; simp)
    rw [hc] at h2 hlen
    have h1 : ¬ b.height < f.height := by
      rw [hc] at hs
      have := le_lastHeight (f :: tl) hs f (by simp)
      omega
    simp only [h1, h2, if_false, if_true, List.length_append, List.length_cons, List.length_nil]
    simp at hlen
    simp [← hlen]


/-! ### `FirstHeight` on the current code -/

theorem noEmpty_run : ∀ (ops : List Op) (c : BlockCache), WF c → NoEmpty c.cache →
    WF (run addFixed true ops c) ∧ NoEmpty (run addFixed true ops c).cache
  | [], c, hc, hn => ⟨hc, hn⟩
  | op :: ops, c, hc, hn => by
    have hw : WF (stepOp addFixed true op c) :=
      (step_refines addFixed true op c (blocksOf c.cache) hc (fun _ => Iff.rfl) (by
        intro b _
        exact addWith_refines middleInsertFixed b c hc (midOk_fixed b c))).1
    have hne : NoEmpty (stepOp addFixed true op c).cache := by
      cases op with
      | add b => exact addWith_noEmpty middleInsertFixed b c hc.sorted (midOk_fixed b c) hn
      | remove b => exact remove_noEmpty b c hc hn
      | clear h => exact clear_noEmpty h c hn
      | iterate f => exact (iterateP_wf true (fun (_ : Unit) b => ((), f b)) () c hc).2.2.2.2.2 rfl
    exact noEmpty_run ops _ hw hne

/-- **firstHeight_live**: after any sequence of Add/Remove/Clear/Iterate on the code as it is now (repaired
    `Add`, `Iterate` dropping the entries it emptied), `FirstHeight` is the lowest cached height — the block
    whose parent the drain timer has to ask for (0 iff nothing is cached).  Before commit 6f06589:
    `firstHeight_stale`. -/
theorem firstHeight_live (ops : List Op) :
    (blocksOf (run addFixed true ops {}).cache = [] ∧ firstHeight (run addFixed true ops {}) = 0) ∨
    ((∃ b ∈ blocksOf (run addFixed true ops {}).cache, b.height = firstHeight (run addFixed true ops {})) ∧
      ∀ x ∈ blocksOf (run addFixed true ops {}).cache, firstHeight (run addFixed true ops {}) ≤ x.height) := by
  obtain ⟨h1, h2⟩ := noEmpty_run ops {} wf_empty (by intro g hg; simp at hg)
  exact firstHeight_min _ h1 h2

/-! ### the live `Add` and `IsExit` -/

/-- the `Add` of /repo now is `addFixed` as long as the slice stays within the limit (10240 heights) -/
theorem addLive_eq_addFixed (limit : Nat) (b : Blk) (c : BlockCache)
    (h : (addFixed b c).cache.length ≤ limit) : addLive limit b c = addFixed b c := by
  unfold addLive
  have : ¬ (addFixed b c).cache.length > limit := by omega
  simp only [this, if_false]

theorem eq_of_height_eq : ∀ {l : List Group}, l.Pairwise (fun a b => a.height < b.height) →
    ∀ {a b : Group}, a ∈ l → b ∈ l → a.height = b.height → a = b
  | [], _, a, _, ha, _, _ => by simp at ha
  | e :: l, h, a, b, ha, hb, hab => by
    rw [List.pairwise_cons] at h
    rcases List.mem_cons.mp ha with rfl | ha' <;> rcases List.mem_cons.mp hb with rfl | hb'
    · rfl
    · have := h.1 b hb'; omega
    · have := h.1 a ha'; omega
    · exact eq_of_height_eq h.2 ha' hb' hab

/-- **isExitFixed_refines**: on a well-formed cache the repaired `IsExit(hash, height)` is exactly
    multimap membership of a block with that hash at that height. -/
theorem isExitFixed_refines (hash height : Nat) (c : BlockCache) (hc : WF c) :
    isExitFixed hash height c = true ↔ ∃ b ∈ blocksOf c.cache, b.hash = hash ∧ b.height = height := by
  unfold isExitFixed
  cases hcc : c.cache with
  | nil => simp
  | cons f tl =>
    simp only
    rw [← hcc]
    constructor
    · intro h
      split at h
      · simp at h
      · split at h
        · rename_i g hg
          have hgm := List.mem_of_find?_eq_some hg
          have hgh : g.height = height := by simpa using List.find?_some hg
          rw [List.any_eq_true] at h
          obtain ⟨k, hk, hkh⟩ := h
          refine ⟨k, mem_blocksOf.mpr ⟨g, hgm, hk⟩, by simpa using hkh, ?_⟩
          rw [hc.hts g hgm k hk, hgh]
        · simp at h
    · rintro ⟨b, hb, hbh, hbe⟩
      obtain ⟨g, hgm, hbg⟩ := mem_blocksOf.mp hb
      have hgh : g.height = height := by rw [← hc.hts g hgm b hbg, hbe]
      have hs := hc.sorted
      have h1 : f.height ≤ g.height := first_le_of_sorted (by rw [← hcc]; exact hs) g (by rw [← hcc]; exact hgm)
      have h2 := le_lastHeight c.cache hs g hgm
      have hrange : ¬ ((decide (height < f.height) || decide (height > lastHeight c.cache)) = true) := by
        simp only [Bool.or_eq_true, decide_eq_true_eq]; omega
      simp only [hrange, Bool.false_eq_true, if_false]
      split
      · rename_i g' hg'
        have hgm' := List.mem_of_find?_eq_some hg'
        have hgh' : g'.height = height := by simpa using List.find?_some hg'
        have : g' = g := eq_of_height_eq hs hgm' hgm (by rw [hgh', hgh])
        subst this
        rw [List.any_eq_true]
        exact ⟨b, hbg, by simpa using hbh⟩
      · rename_i hnone
        rw [List.find?_eq_none] at hnone
        have := hnone g hgm
        simp [hgh] at this

/-! ## the receive loop converges -/

def initNode (base : Nat) : Node := { chain := { known := [seg base 0] } }

theorem init_inv (base n : Nat) : Inv base n (initNode base) := by
  refine ⟨⟨?_, by simp [initNode], ?_⟩, wf_empty, by simp [initNode], by simp [initNode, InRange]⟩
  · intro x hx
    simp [initNode] at hx
    exact ⟨0, Nat.zero_le _, hx⟩
  · intro k hk
    simp [initNode] at hk
    have := seg_inj hk
    omega

/-- every block of the segment is delivered at least once (any order, any duplication, any batching,
    from any peer) -/
def Complete (base n : Nat) (msgs : List Msg) : Prop :=
  ∀ k, 1 ≤ k → k ≤ n → ∃ bs, Msg.blocks bs ∈ msgs ∧ seg base k ∈ bs

/-- **converges**: take ANY `Add` that, on the caches reachable while the segment is delivered, refines
    multimap insertion (`AddOk`).  Deliver the blocks `1..n` of ONE valid linear segment in any order, with
    any duplicates, batched in any way into blocks messages, interleaved with arbitrary confirm messages
    (before or after their blocks), drain ticks (spawned inserts scheduled immediately or after the tick)
    and stable-block events; then let the drain timer fire `n` more times.  The chain then knows exactly
    the blocks `0..n` of the segment and its current height is `base + n` — which is what the in-order
    delivery produces (`converges_same`).  Sequential handler semantics (one handler at a time). -/
theorem converges (addF : Blk → BlockCache → BlockCache) (base n q : Nat) (hadd : AddOk base n addF)
    (hbase : 1 ≤ base) (msgs : List Msg) (modes : List Bool)
    (hv : ∀ m ∈ msgs, ValidMsg base n m) (hc : Complete base n msgs) (hm : n ≤ modes.length) :
    (∀ x, x ∈ (runMsgs addF q (initNode base) (msgs ++ modes.map Msg.tick)).chain.known ↔
        ∃ k, k ≤ n ∧ x = seg base k) ∧
    currentHeight (runMsgs addF q (initNode base) (msgs ++ modes.map Msg.tick)).chain = base + n := by
  have e : runMsgs addF q (initNode base) (msgs ++ modes.map Msg.tick)
      = runMsgs addF q (runMsgs addF q (initNode base) msgs) (modes.map Msg.tick) := by
    simp [runMsgs, List.foldl_append]
  rw [e]
  obtain ⟨r1, _, r3⟩ := run_ok addF base n q hadd hbase msgs (initNode base) (init_inv base n) hv
  have hall : ∀ k, 1 ≤ k → k ≤ n → Have base (runMsgs addF q (initNode base) msgs) k := by
    intro k h1 h2
    obtain ⟨bs, hbs, hk⟩ := hc k h1 h2
    exact r3 bs hbs k hk
  obtain ⟨t1, t2⟩ := ticks_ok addF base n q modes _ 0 r1 hall r1.ch.zero
  have hmin : min n (0 + modes.length) = n := by omega
  rw [hmin] at t2
  have hiff : ∀ x, x ∈ (runMsgs addF q (runMsgs addF q (initNode base) msgs) (modes.map Msg.tick)).chain.known ↔
      ∃ k, k ≤ n ∧ x = seg base k := by
    intro x
    constructor
    · exact t1.ch.known_seg x
    · rintro ⟨k, hk, rfl⟩
      exact known_down t1.ch n k hk t2
  refine ⟨hiff, ?_⟩
  unfold currentHeight
  apply Nat.le_antisymm
  · apply maxL_le
    intro h hh
    obtain ⟨x, hx, rfl⟩ := List.mem_map.mp hh
    obtain ⟨k, hk, rfl⟩ := (hiff x).mp hx
    show base + k ≤ base + n
    omega
  · apply le_maxL
    exact List.mem_map.mpr ⟨seg base n, t2, rfl⟩

/-- the in-order delivery: one block per message, ascending -/
def inOrder (base n : Nat) : List Msg := (List.range n).map (fun i => Msg.blocks [seg base (i + 1)])

theorem inOrder_valid_complete (base n : Nat) :
    (∀ m ∈ inOrder base n, ValidMsg base n m) ∧ Complete base n (inOrder base n) := by
  constructor
  · intro m hm
    obtain ⟨i, hi, rfl⟩ := List.mem_map.mp hm
    have := List.mem_range.mp hi
    intro b hb
    simp at hb
    exact ⟨i + 1, by omega, by omega, hb⟩
  · intro k h1 h2
    refine ⟨[seg base k], List.mem_map.mpr ⟨k - 1, List.mem_range.mpr (by omega), ?_⟩, by simp⟩
    have : k - 1 + 1 = k := by omega
    rw [this]

/-- **converges_same**: any complete delivery ends with the same chain content and the same current
    block as the in-order delivery (both followed by the drain). -/
theorem converges_same (addF : Blk → BlockCache → BlockCache) (base n q : Nat) (hadd : AddOk base n addF)
    (hbase : 1 ≤ base) (msgs : List Msg) (modes modes' : List Bool)
    (hv : ∀ m ∈ msgs, ValidMsg base n m) (hc : Complete base n msgs)
    (hm : n ≤ modes.length) (hm' : n ≤ modes'.length) :
    (∀ x, x ∈ (runMsgs addF q (initNode base) (msgs ++ modes.map Msg.tick)).chain.known ↔
          x ∈ (runMsgs addF q (initNode base) (inOrder base n ++ modes'.map Msg.tick)).chain.known) ∧
    currentHeight (runMsgs addF q (initNode base) (msgs ++ modes.map Msg.tick)).chain =
      currentHeight (runMsgs addF q (initNode base) (inOrder base n ++ modes'.map Msg.tick)).chain := by
  obtain ⟨a1, a2⟩ := converges addF base n q hadd hbase msgs modes hv hc hm
  obtain ⟨b1, b2⟩ := converges addF base n q hadd hbase (inOrder base n) modes'
    (inOrder_valid_complete base n).1 (inOrder_valid_complete base n).2 hm'
  exact ⟨fun x => by rw [a1 x, b1 x], by rw [a2, b2]⟩

/-- **converges_live** (HEADLINE): the receive loop with the `Add` of /repo as it is now (`addLive 10240`:
    repaired middle insert, flush beyond 10240 entries).  For a segment of at most 10240 blocks the flush
    never fires (`addLive_ok`: a well-formed cache whose entries lie inside the segment has at most `n`
    entries; since commit 6f06589 `Iterate` drops emptied entries, and even the entries it used to leave
    behind lie inside the segment). -/
theorem converges_live (base n q : Nat) (hbase : 1 ≤ base) (hn : n ≤ 10240) (msgs : List Msg) (modes : List Bool)
    (hv : ∀ m ∈ msgs, ValidMsg base n m) (hc : Complete base n msgs) (hm : n ≤ modes.length) :
    (∀ x, x ∈ (runMsgs (addLive 10240) q (initNode base) (msgs ++ modes.map Msg.tick)).chain.known ↔
        ∃ k, k ≤ n ∧ x = seg base k) ∧
    currentHeight (runMsgs (addLive 10240) q (initNode base) (msgs ++ modes.map Msg.tick)).chain = base + n :=
  converges (addLive 10240) base n q (addLive_ok base n 10240 hn) hbase msgs modes hv hc hm

/-- the instance for `addFixed` (no size limit at all) -/
theorem converges_fixed (base n q : Nat) (hbase : 1 ≤ base) (msgs : List Msg) (modes : List Bool)
    (hv : ∀ m ∈ msgs, ValidMsg base n m) (hc : Complete base n msgs) (hm : n ≤ modes.length) :
    currentHeight (runMsgs addFixed q (initNode base) (msgs ++ modes.map Msg.tick)).chain = base + n :=
  (converges addFixed base n q (addFixed_ok base n) hbase msgs modes hv hc hm).2

def witnessDelivery : List Msg :=
  [.blocks [seg 5 2, seg 5 4, seg 5 5], .blocks [seg 5 3], .blocks [seg 5 1]]

/-- **converges_refuted** (code before commit bca2980): with the cache as it was coded, the delivery
    {2,4,5} | 3 | 1  of the segment 1..5 (every block delivered, valid) loses block 5 in `Add`: after any
    number of drain ticks the head stays at block 4 and the cache is empty, while the repaired cache
    reaches block 5.  (Was reproduced on the real ProtocolManager by `hx c20`, signature c20/sync-diverged;
    the oracle is silent since the commit, and fires again when the commit is reverted.) -/
theorem converges_refuted :
    (∀ m ∈ witnessDelivery, ValidMsg 5 5 m) ∧
    currentHeight (runMsgs add 1 (initNode 5) (witnessDelivery ++ (List.replicate 8 false).map Msg.tick)).chain = 9 ∧
    size (runMsgs add 1 (initNode 5) (witnessDelivery ++ (List.replicate 8 false).map Msg.tick)).bc = 0 ∧
    currentHeight (runMsgs (addLive 10240) 1 (initNode 5) (witnessDelivery ++ (List.replicate 8 false).map Msg.tick)).chain = 10 := by
  refine ⟨?_, by decide, by decide, by decide⟩
  intro m hm
  simp only [witnessDelivery, List.mem_cons, List.mem_nil_iff, or_false] at hm
  rcases hm with rfl | rfl | rfl
  · intro b hb
    simp only [List.mem_cons, List.mem_nil_iff, or_false] at hb
    rcases hb with rfl | rfl | rfl
    · exact ⟨2, by omega, by omega, rfl⟩
    · exact ⟨4, by omega, by omega, rfl⟩
    · exact ⟨5, by omega, by omega, rfl⟩
  · intro b hb
    simp only [List.mem_cons, List.mem_nil_iff, or_false] at hb
    subst hb
    exact ⟨3, by omega, by omega, rfl⟩
  · intro b hb
    simp only [List.mem_cons, List.mem_nil_iff, or_false] at hb
    subst hb
    exact ⟨1, by omega, by omega, rfl⟩

/-! ### confirmations and the stable block -/

theorem init_ci (base n : Nat) : CI base n [] (initNode base) := by
  refine ⟨keyOK_nil, ?_, ?_, ?_, ?_, ?_, ?_, ?_⟩ <;> simp [initNode, ccMem, alGet]

theorem valid_ticks (base n : Nat) (msgs : List Msg) (modes : List Bool) (hv : ∀ m ∈ msgs, ValidMsgC base n m) :
    ∀ m ∈ msgs ++ modes.map Msg.tick, ValidMsgC base n m := by
  intro m hm
  rcases List.mem_append.mp hm with h | h
  · exact hv m h
  · obtain ⟨a, _, rfl⟩ := List.mem_map.mp h
    trivial

/-- **confirms_converge**: deliver the blocks of the segment in any order/duplication/batching and any
    confirmations of its blocks at any point — before their block ("early", through the confirm cache and
    `mergeConfirmsFromCache`) or after it (`InsertConfirms`) — interleaved with ticks and stable events
    (whose `Clear` never removes a confirmation still needed).  After the drain the chain has attached
    EXACTLY the delivered confirmations: none lost, none invented. -/
theorem confirms_converge (addF : Blk → BlockCache → BlockCache) (base n q : Nat) (hadd : AddOk base n addF)
    (hbase : 1 ≤ base) (hn : n ≤ 10240) (msgs : List Msg) (modes : List Bool)
    (hv : ∀ m ∈ msgs, ValidMsgC base n m) (hc : Complete base n msgs) (hm : n ≤ modes.length) :
    ∀ p, p ∈ (runMsgs addF q (initNode base) (msgs ++ modes.map Msg.tick)).chain.attached ↔
      ∃ d ∈ confs msgs, d.hash = p.1 ∧ d.sig = p.2 := by
  have hci := run_ci addF base n q hadd hbase hn (msgs ++ modes.map Msg.tick) [] (initNode base)
    (init_inv base n) (init_ci base n) (valid_ticks base n msgs modes hv)
  rw [confs_append, confs_ticks, List.append_nil, List.append_nil] at hci
  obtain ⟨hk, _⟩ := converges addF base n q hadd hbase msgs modes (fun m hm => validMsgC_valid (hv m hm)) hc hm
  intro p
  constructor
  · exact hci.att_sound p
  · rintro ⟨d, hd, e1, e2⟩
    obtain ⟨k, _, hkn, e3, _⟩ := hci.dvalid d hd
    have := hci.att_complete d hd ((hk _).mpr ⟨d.hash, by omega, rfl⟩)
    have ep : p = (d.hash, d.sig) := by rw [e1, e2]
    rw [ep]; exact this

/-- **stable_converges**: two complete deliveries of the same segment that carry the same confirmations (in
    whatever order, early or late) end with the same stable height — for the abstract chain whose stable block
    is the highest known block with at least `q` distinct confirmations. -/
theorem stable_converges (addF : Blk → BlockCache → BlockCache) (base n q : Nat) (hadd : AddOk base n addF)
    (hbase : 1 ≤ base) (hn : n ≤ 10240) (msgs msgs' : List Msg) (modes modes' : List Bool)
    (hv : ∀ m ∈ msgs, ValidMsgC base n m) (hc : Complete base n msgs) (hm : n ≤ modes.length)
    (hv' : ∀ m ∈ msgs', ValidMsgC base n m) (hc' : Complete base n msgs') (hm' : n ≤ modes'.length)
    (hsame : ∀ d, d ∈ confs msgs ↔ d ∈ confs msgs') :
    stableHeight q (runMsgs addF q (initNode base) (msgs ++ modes.map Msg.tick)).chain =
      stableHeight q (runMsgs addF q (initNode base) (msgs' ++ modes'.map Msg.tick)).chain := by
  apply stableHeight_congr
  · intro x
    rw [(converges addF base n q hadd hbase msgs modes (fun m hm => validMsgC_valid (hv m hm)) hc hm).1 x,
      (converges addF base n q hadd hbase msgs' modes' (fun m hm => validMsgC_valid (hv' m hm)) hc' hm').1 x]
  · intro p
    rw [confirms_converge addF base n q hadd hbase hn msgs modes hv hc hm p,
      confirms_converge addF base n q hadd hbase hn msgs' modes' hv' hc' hm' p]
    constructor
    · rintro ⟨d, hd, e⟩; exact ⟨d, (hsame d).mp hd, e⟩
    · rintro ⟨d, hd, e⟩; exact ⟨d, (hsame d).mpr hd, e⟩

/-- the in-order reference node: blocks ascending, then every confirmation (each after its block) -/
def inOrderWith (base n : Nat) (cs : List Confirm) : List Msg := inOrder base n ++ cs.map Msg.confirm

theorem confs_inOrder (base n : Nat) : confs (inOrder base n) = [] := by
  unfold inOrder
  induction List.range n with
  | nil => rfl
  | cons a l ih => simp [confs, ih]

theorem confs_map_confirm (cs : List Confirm) : confs (cs.map Msg.confirm) = cs := by
  induction cs with
  | nil => rfl
  | cons d l ih => simp [confs, ih]

/-- **converges_same_stable** (HEADLINE, with `converges_live`): with the `Add` of /repo, ANY complete delivery
    ends with the same stable height as the in-order node that got the same confirmations after the blocks. -/
theorem converges_same_stable (base n q : Nat) (hbase : 1 ≤ base) (hn : n ≤ 10240) (msgs : List Msg)
    (modes modes' : List Bool) (hv : ∀ m ∈ msgs, ValidMsgC base n m) (hc : Complete base n msgs)
    (hm : n ≤ modes.length) (hm' : n ≤ modes'.length) :
    stableHeight q (runMsgs (addLive 10240) q (initNode base) (msgs ++ modes.map Msg.tick)).chain =
      stableHeight q (runMsgs (addLive 10240) q (initNode base)
        (inOrderWith base n (confs msgs) ++ modes'.map Msg.tick)).chain := by
  have hvo : ∀ m ∈ inOrderWith base n (confs msgs), ValidMsgC base n m := by
    intro m hmm
    rcases List.mem_append.mp hmm with h | h
    · have := (inOrder_valid_complete base n).1 m h
      obtain ⟨i, _, rfl⟩ := List.mem_map.mp h
      exact this
    · obtain ⟨d, hd, rfl⟩ := List.mem_map.mp h
      -- a confirmation of `msgs` is valid because `msgs` is
      have : ∀ (ms : List Msg), (∀ m ∈ ms, ValidMsgC base n m) → ∀ d ∈ confs ms, VC base n d := by
        intro ms
        induction ms with
        | nil => intro _ d hd; simp [confs] at hd
        | cons m l ih =>
          intro hvl d hd
          rw [confs_cons] at hd
          rcases List.mem_append.mp hd with h1 | h1
          · cases m with
            | confirm d' =>
              simp [confs] at h1; subst h1
              exact hvl (.confirm d) (by simp)
            | blocks _ => simp [confs] at h1
            | tick _ => simp [confs] at h1
            | stable => simp [confs] at h1
          · exact ih (fun m' hm' => hvl m' (by simp [hm'])) d h1
      exact this msgs hv d hd
  have hco : Complete base n (inOrderWith base n (confs msgs)) := by
    intro k h1 h2
    obtain ⟨bs, hbs, hk⟩ := (inOrder_valid_complete base n).2 k h1 h2
    exact ⟨bs, List.mem_append_left _ hbs, hk⟩
  apply stable_converges (addLive 10240) base n q (addLive_ok base n 10240 hn) hbase hn msgs _ modes modes'
    hv hc hm hvo hco hm'
  intro d
  unfold inOrderWith
  rw [confs_append, confs_inOrder, confs_map_confirm, List.nil_append]

/-! ### schedules outside the sequential semantics: witnesses for the code before the repair commits, and what
     the repaired code does on the same schedule (the harness runs these schedules on the real
     ProtocolManager: `race …` ops) -/

def node5 : Node := initNode 5

/-- **confirm_during_insert_refuted** (code before commit 8f95517, `fix = false`): a confirm handled by the
    peer goroutine while `chain.InsertBlock` of its block is running is pushed AFTER the pop; it stays in the
    confirm cache and never reaches the chain.  With the repair (`fix = true`) it is attached. -/
theorem confirm_during_insert_refuted :
    (pmInsertG false [{ hash := 1, height := 6, sig := 7 }] node5 (seg 5 1)).1.chain.attached = [] ∧
    ccSize (pmInsertG false [{ hash := 1, height := 6, sig := 7 }] node5 (seg 5 1)).1.cc = 1 ∧
    (pmInsertG true [{ hash := 1, height := 6, sig := 7 }] node5 (seg 5 1)).1.chain.attached = [(1, 7)] ∧
    ccSize (pmInsertG true [{ hash := 1, height := 6, sig := 7 }] node5 (seg 5 1)).1.cc = 0 := by decide

/-- … and the other half of the window: `HasBlock` answered false, the insert finished, then the push -/
theorem confirm_stale_check_refuted :
    let nd := (pmInsertG true [] node5 (seg 5 1)).1
    (rcvConfirmStale false nd { hash := 1, height := 6, sig := 7 }).chain.attached = [] ∧
    (rcvConfirmStale true nd { hash := 1, height := 6, sig := 7 }).chain.attached = [(1, 7)] := by decide

/-- **duplicate_insert_break_refuted** (code before commit 2ae7988): block 2 waits in the cache, the timer
    hands it to `go pm.insertBlock`, a peer re-sends `[2,3]`; the goroutine wins, the loop's insert of 2
    fails with "exists" and the loop drops block 3: it is neither cached nor inserted.  With the repair the
    loop goes on and inserts 3. -/
theorem duplicate_insert_break_refuted :
    let n1 := rcvBlocksG true none (addLive 10240) 1 (rcvBlocksG true none (addLive 10240) 1 node5 [seg 5 2]) [seg 5 1]
    let n2 : Node := { n1 with bc := (iterateP true (fun pend b => tickLater n1.chain pend b) [] n1.bc).2.1 }
    (rcvBlocksG false (some 2) (addLive 10240) 1 n2 [seg 5 2, seg 5 3]).chain.known.map (·.hash) = [2, 1, 0] ∧
    size (rcvBlocksG false (some 2) (addLive 10240) 1 n2 [seg 5 2, seg 5 3]).bc = 0 ∧
    (rcvBlocksG true (some 2) (addLive 10240) 1 n2 [seg 5 2, seg 5 3]).chain.known.map (·.hash) = [3, 2, 1, 0] := by
  decide

/-- **timer_request_refuted** (code before commits 6f06589 and 2d092b8): blocks 3 and 5 cached, 1 and 2
    inserted, 3 drained; the cache holds only block 5 (height 10), the only peer's head is height 10.
    Before: the emptied entry of height 8 stays first, the timer asks for height 7 (already inserted).
    With pruning only: `BestToSync(10)` finds no peer STRICTLY above 10 and asks nobody.
    Now: it asks for height 9, the missing parent. -/
theorem timer_request_refuted :
    let r := rcvBlocksG true none (addLive 10240) 1
    let nd := r (r (r node5 [seg 5 3]) [seg 5 5]) [seg 5 1, seg 5 2]
    let t := fun (pr eq : Bool) => (tickG pr eq true (tickG pr eq true nd)).requests.take 1
    firstHeight (tickG false false true nd).bc = 8 ∧ t false false = [7] ∧
    firstHeight (tickG true false true nd).bc = 10 ∧
    (tickG true false true (tickG true false true nd)).requests.length = (tickG true false true nd).requests.length ∧
    t true true = [9] := by decide

/-! ## handleTxsMsg -/

theorem foldl_poolAdd_mem : ∀ (l pool : List Nat) (t : Nat), t ∈ l.foldl poolAdd pool ↔ t ∈ pool ∨ t ∈ l
  | [], pool, t => by simp
  | x :: l, pool, t => by
    simp only [List.foldl_cons]
    rw [foldl_poolAdd_mem l (poolAdd pool x) t]
    unfold poolAdd
    by_cases hx : x ∈ pool
    · simp only [hx, if_true, List.mem_cons]
      constructor
      · rintro (h | h)
        · exact Or.inl h
        · exact Or.inr (Or.inr h)
      · rintro (h | rfl | h)
        · exact Or.inl h
        · exact Or.inl hx
        · exact Or.inr h
    · simp only [hx, if_false, List.mem_append, List.mem_cons, List.not_mem_nil, or_false]
      constructor
      · rintro ((h | h) | h)
        · exact Or.inl h
        · exact Or.inr (Or.inl h)
        · exact Or.inr (Or.inr h)
      · rintro (h | h | h)
        · exact Or.inl (Or.inl h)
        · exact Or.inl (Or.inr h)
        · exact Or.inr h

theorem foldl_poolAdd_nodup : ∀ (l pool : List Nat), pool.Nodup → (l.foldl poolAdd pool).Nodup
  | [], pool, h => by simpa using h
  | x :: l, pool, h => by
    simp only [List.foldl_cons]
    apply foldl_poolAdd_nodup l
    unfold poolAdd
    by_cases hx : x ∈ pool
    · simp [hx, h]
    · simp only [hx, if_false]
      rw [List.nodup_append]
      refine ⟨h, by simp, ?_⟩
      intro a ha b hb
      simp at hb
      subst hb
      intro hab
      subst hab
      exact hx ha

/-- **txs_exactly_once** (per-iteration variable: sequential semantics, or the loop with `tx := tx`):
    after the batch the pool holds exactly the old content plus every valid tx of the batch, each once. -/
theorem txs_exactly_once (valid : Nat → Bool) (pool txs : List Nat) (hp : pool.Nodup) :
    (handleTxs valid true pool txs).Nodup ∧
    ∀ t, t ∈ handleTxs valid true pool txs ↔ t ∈ pool ∨ (t ∈ txs ∧ valid t = true) := by
  unfold handleTxs txsReach
  simp only [if_true]
  refine ⟨foldl_poolAdd_nodup _ _ hp, fun t => ?_⟩
  rw [foldl_poolAdd_mem]
  simp [List.mem_filter]

/-- every valid occurrence in the batch gets exactly one `AddTx` call (what the `txs` driver op prints as
    `calls=`); the pool's own duplicate check then gives `txs_exactly_once` -/
theorem txs_one_call_each (valid : Nat → Bool) (txs : List Nat) :
    txsReach valid true txs = txs.filter valid := by simp [txsReach]

/-- **txs_loopvar_refuted** (code before commit b496d03): ONE loop variable shared by the goroutines (Go < 1.22 semantics selected by
    `go 1.14` in /repo/go.mod), goroutines scheduled after the loop: of three valid txs only the last one
    reaches the pool. -/
theorem txs_loopvar_refuted : handleTxs (fun _ => true) false [] [1, 2, 3] = [3] := by decide

/-- … and a tx that FAILED verification reaches the pool when it is the last of the batch -/
theorem txs_loopvar_unverified :
    handleTxs (fun t => t != 9) false [] [1, 9] = [9] ∧ handleTxs (fun t => t != 9) true [] [1, 9] = [1] := by
  decide

end LemoProofs.C20

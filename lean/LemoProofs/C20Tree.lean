/-
  C20, block TREES — sync converges under any delivery order when several blocks compete at the same height
  (forks, several miners).

  `converges_live` & co. (LemoProofs/C20.lean) are stated for ONE linear segment.  Here the delivered universe is
  any finite set `T` of blocks closed under parent, rooted at the node's base block (`IsTree`): any number of
  siblings at any height, any shape.  The model is the same `LemoModel.Sync` (`rcvBlocks` / `tick` / `pmInsert` /
  `rcvConfirm` / `onStable` over the abstract chain that accepts a block iff its parent is known and the block is
  new — which is what `chain.InsertBlock` answers with ErrParentNotExist / ErrExist); the harness ties it on fork
  scenarios (`fnode` / `fblocks` / `fconfirm` / `fstable` ops on the real ProtocolManager).

  Guard that trees need and a segment does not (`NoQuorum`): no block of `T` collects `q` distinct confirmations
  during the run, so the stable block stays at the base block.  Without it the result is NOT order independent
  any more, by design of the stale check `b.Height() <= StableBlock().Height()` and of `stableBlockLoop`'s
  `blockCache.Clear`: `converges_tree_quorum_refuted`.
-/
import LemoProofs.C20
import LemoProofs.Lemmas.SyncTree
import LemoProofs.Lemmas.SyncTreeConfirm
namespace LemoProofs.C20
open LemoModel.Sync LemoProofs.SyncLemmas LemoProofs.SyncLoop LemoProofs.SyncConfirm LemoProofs.SyncTree

/-- the node before anything is delivered: its chain ends at `base` -/
def initTree (base : Blk) : Node := { chain := { known := [base] } }

theorem init_ti (base : Blk) (T : List Blk) (d : Nat) (D : List Confirm) : TI base T d D (initTree base) := by
  refine ⟨⟨?_, by simp [initTree]⟩, wf_empty, by simp [initTree], by simp [initTree, InRange], ⟨keyOK_nil, ?_, ?_⟩⟩
  · intro x hx
    simp [initTree] at hx
    exact Or.inl hx
  · intro p hp; simp [initTree] at hp
  · intro c hc
    obtain ⟨hm, l, e, _⟩ := hc
    simp [initTree, alGet] at e

theorem mem_confs {ms : List Msg} {c : Confirm} : Msg.confirm c ∈ ms → c ∈ confs ms := by
  induction ms with
  | nil => intro h; simp at h
  | cons m l ih =>
    intro h
    rw [confs_cons]
    rcases List.mem_cons.mp h with rfl | h
    · simp [confs]
    · exact List.mem_append_right _ (ih h)

/-- every block message carries blocks of the tree only (whoever the sending peers are) -/
def OnlyTree (T : List Blk) (msgs : List Msg) : Prop := ∀ bs, Msg.blocks bs ∈ msgs → ∀ b ∈ bs, b ∈ T

/-- every block of the tree is delivered at least once (any order, any duplication, any batching) -/
def CompleteT (T : List Blk) (msgs : List Msg) : Prop := ∀ x ∈ T, ∃ bs, Msg.blocks bs ∈ msgs ∧ x ∈ bs

theorem valid_of_only {T : List Blk} {msgs : List Msg} (hv : OnlyTree T msgs) :
    ∀ m ∈ msgs, ValidMsgT T (confs msgs) m := by
  intro m hm
  cases m with
  | blocks bs => exact hv bs hm
  | confirm c => exact mem_confs hm
  | tick a => trivial
  | stable => trivial

/-- **converges_tree_any** — `converges_tree` for any `Add` that refines multimap insertion on the reachable caches
    (`AddOkH`), with the depth bound `d` explicit. -/
theorem converges_tree_any (addF : Blk → BlockCache → BlockCache) (base : Blk) (T : List Blk) (d q : Nat)
    (hadd : AddOkH base.height d addF) (hbase : 1 ≤ base.height) (hT : IsTree base T)
    (hd : ∀ x ∈ T, x.height ≤ base.height + d)
    (msgs : List Msg) (modes : List Bool) (hv : OnlyTree T msgs) (hc : CompleteT T msgs)
    (hq : NoQuorum q T (confs msgs)) (hm : ∀ x ∈ T, x.height ≤ base.height + modes.length) :
    (∀ x, x ∈ (runMsgs addF q (initTree base) (msgs ++ modes.map Msg.tick)).chain.known ↔ x = base ∨ x ∈ T) ∧
    blocksOf (runMsgs addF q (initTree base) (msgs ++ modes.map Msg.tick)).bc.cache = [] ∧
    size (runMsgs addF q (initTree base) (msgs ++ modes.map Msg.tick)).bc = 0 ∧
    currentHeight (runMsgs addF q (initTree base) (msgs ++ modes.map Msg.tick)).chain =
      maxL ((base :: T).map (·.height)) := by
  have cx : Ctx base T d q (confs msgs) addF := ⟨hT, hbase, hd, hq, hadd⟩
  have e : runMsgs addF q (initTree base) (msgs ++ modes.map Msg.tick)
      = runMsgs addF q (runMsgs addF q (initTree base) msgs) (modes.map Msg.tick) := by
    simp [runMsgs, List.foldl_append]
  rw [e]
  obtain ⟨r1, _, r3⟩ := run_tree cx msgs (initTree base) (init_ti base T d (confs msgs)) (valid_of_only hv)
  have hall : ∀ x ∈ T, HaveB (runMsgs addF q (initTree base) msgs) x := by
    intro x hx
    obtain ⟨bs, hbs, hxb⟩ := hc x hx
    exact r3 bs hbs x hxb
  obtain ⟨t1, t2⟩ := ticks_tree (addF := addF) (q := q) hT modes _ 0 r1 hall (by
    intro x hx hle
    have := height_gt hT x hx
    omega)
  have hiff : ∀ x, x ∈ (runMsgs addF q (runMsgs addF q (initTree base) msgs) (modes.map Msg.tick)).chain.known ↔
      x = base ∨ x ∈ T := by
    intro x
    constructor
    · exact t1.ch.known_sub x
    · rintro (rfl | hx)
      · exact t1.ch.base_known
      · exact (t2 x hx (by have := hm x hx; omega)).1
  have hempty : blocksOf (runMsgs addF q (runMsgs addF q (initTree base) msgs) (modes.map Msg.tick)).bc.cache = [] := by
    apply List.eq_nil_iff_forall_not_mem.mpr
    intro x hx
    have hxT := t1.cache_T x hx
    exact (t2 x hxT (by have := hm x hxT; omega)).2 hx
  refine ⟨hiff, hempty, ?_, ?_⟩
  · rw [(wf_sorted_nodup _ t1.wf).2.2, hempty]; rfl
  · unfold currentHeight
    apply maxL_congr
    intro h
    simp only [List.mem_map]
    constructor
    · rintro ⟨x, hx, rfl⟩
      exact ⟨x, by rcases (hiff x).mp hx with rfl | hx' <;> simp [*], rfl⟩
    · rintro ⟨x, hx, rfl⟩
      refine ⟨x, (hiff x).mpr ?_, rfl⟩
      rcases List.mem_cons.mp hx with rfl | hx'
      · exact Or.inl rfl
      · exact Or.inr hx'

/-- **converges_tree** (HEADLINE for forks): the receive loop with the `Add` of /repo as it is now (`addLive 10240`).
    `T` is ANY finite block tree above the node's base block (closed under parent, any number of competing blocks
    per height) spanning at most 10240 heights.  Deliver its blocks in any order, with any duplication, batched in
    any way into blocks messages from any peers, interleaved with arbitrary confirm messages (for any hash and
    height, before or after their block — as long as no block of `T` collects `q` distinct signers: `NoQuorum`),
    drain ticks (spawned inserts scheduled immediately or after the tick) and stable events; then let the drain
    timer fire as many times as `T` is deep.  Then
    * the chain knows EXACTLY `base` and the blocks of `T` (every fork, not only the winning one),
    * the block cache is empty,
    * `currentHeight` of the ABSTRACT chain (= the height of the highest known block, which is what the harness's
      stub chain reports as CurrentBlock) is the height of the highest block of `T`.
    Which block the REAL chain calls `current` is its fork-choice rule (chain/consensus ForkManager), which the
    abstract `Chain` does not model and which is order dependent under forks even in HEIGHT (a longer competing
    fork takes over only at certain heights: `needSwitchFork`); the harness shows it on the real engine
    (class real-fork:choice-witness…).  Sequential handler semantics (one handler at a time). -/
theorem converges_tree (base : Blk) (T : List Blk) (q : Nat) (hbase : 1 ≤ base.height) (hT : IsTree base T)
    (hd : ∀ x ∈ T, x.height ≤ base.height + 10240)
    (msgs : List Msg) (modes : List Bool) (hv : OnlyTree T msgs) (hc : CompleteT T msgs)
    (hq : NoQuorum q T (confs msgs)) (hm : ∀ x ∈ T, x.height ≤ base.height + modes.length) :
    (∀ x, x ∈ (runMsgs (addLive 10240) q (initTree base) (msgs ++ modes.map Msg.tick)).chain.known ↔
        x = base ∨ x ∈ T) ∧
    blocksOf (runMsgs (addLive 10240) q (initTree base) (msgs ++ modes.map Msg.tick)).bc.cache = [] ∧
    size (runMsgs (addLive 10240) q (initTree base) (msgs ++ modes.map Msg.tick)).bc = 0 ∧
    currentHeight (runMsgs (addLive 10240) q (initTree base) (msgs ++ modes.map Msg.tick)).chain =
      maxL ((base :: T).map (·.height)) :=
  converges_tree_any (addLive 10240) base T 10240 q (addLive_okH base.height 10240 10240 (Nat.le_refl _)) hbase hT hd
    msgs modes hv hc hq hm

/-- **converges_tree_same**: any two complete deliveries of the same tree (different orders, duplications,
    batchings, different confirm / tick / stable interleavings — each without a quorum) end with the same set of
    known blocks, an empty cache and the same current height. -/
theorem converges_tree_same (base : Blk) (T : List Blk) (q : Nat) (hbase : 1 ≤ base.height) (hT : IsTree base T)
    (hd : ∀ x ∈ T, x.height ≤ base.height + 10240)
    (msgs msgs' : List Msg) (modes modes' : List Bool)
    (hv : OnlyTree T msgs) (hc : CompleteT T msgs) (hq : NoQuorum q T (confs msgs))
    (hm : ∀ x ∈ T, x.height ≤ base.height + modes.length)
    (hv' : OnlyTree T msgs') (hc' : CompleteT T msgs') (hq' : NoQuorum q T (confs msgs'))
    (hm' : ∀ x ∈ T, x.height ≤ base.height + modes'.length) :
    (∀ x, x ∈ (runMsgs (addLive 10240) q (initTree base) (msgs ++ modes.map Msg.tick)).chain.known ↔
          x ∈ (runMsgs (addLive 10240) q (initTree base) (msgs' ++ modes'.map Msg.tick)).chain.known) ∧
    currentHeight (runMsgs (addLive 10240) q (initTree base) (msgs ++ modes.map Msg.tick)).chain =
      currentHeight (runMsgs (addLive 10240) q (initTree base) (msgs' ++ modes'.map Msg.tick)).chain := by
  obtain ⟨a1, _, _, a4⟩ := converges_tree base T q hbase hT hd msgs modes hv hc hq hm
  obtain ⟨b1, _, _, b4⟩ := converges_tree base T q hbase hT hd msgs' modes' hv' hc' hq' hm'
  exact ⟨fun x => by rw [a1 x, b1 x], by rw [a4, b4]⟩

/-! ### the reference node: parent before child -/

theorem noQuorum_nil (q : Nat) (hq : 1 ≤ q) (T : List Blk) : NoQuorum q T [] := by
  intro x _
  show (dedupN (([] : List Confirm).filter (fun c => c.hash == x.hash) |>.map (·.sig))).length < q
  simp only [List.filter_nil, List.map_nil, dedupN, List.length_nil]
  omega

/-- **converges_tree_inorder** (the reference node of `converges_tree`): deliver the tree one block per message in
    ANY parent-before-child order `L` (`ParentFirst`: the parent of every block is the base block or an earlier
    block of `L`; siblings in any order).  Every block goes straight into the chain: the node knows exactly
    `base ∪ T` without a single drain tick and the block cache is never used.  By `converges_tree` every other
    complete delivery ends with this same set. -/
theorem converges_tree_inorder (base : Blk) (T : List Blk) (q : Nat) (hbase : 1 ≤ base.height) (hq : 1 ≤ q)
    (hT : IsTree base T) (hd : ∀ x ∈ T, x.height ≤ base.height + 10240)
    (L : List Blk) (hL : ∀ x, x ∈ L ↔ x ∈ T) (hpf : ParentFirst [base.hash] L) :
    (∀ x, x ∈ (runMsgs (addLive 10240) q (initTree base) (L.map (fun b => Msg.blocks [b]))).chain.known ↔
        x = base ∨ x ∈ T) ∧
    (runMsgs (addLive 10240) q (initTree base) (L.map (fun b => Msg.blocks [b]))).bc = {} := by
  have cx : Ctx base T 10240 q [] (addLive 10240) :=
    ⟨hT, hbase, hd, noQuorum_nil q hq T, addLive_okH base.height 10240 10240 (Nat.le_refl _)⟩
  obtain ⟨i1, i2, _, i4⟩ := inorder_tree cx L [base.hash] (initTree base) (init_ti base T 10240 [])
    (fun x hx => (hL x).mp hx) hpf (by
      intro h hh
      simp only [List.mem_singleton] at hh
      subst hh
      exact has_of_known (by simp [initTree]))
  refine ⟨fun x => ⟨i1.ch.known_sub x, ?_⟩, i2⟩
  rintro (rfl | hx)
  · exact i1.ch.base_known
  · exact i4 x ((hL x).mpr hx)

/-! ### confirmations over a tree -/

theorem init_cit (base : Blk) (d : Nat) : CIT base d [] (initTree base) := by
  refine ⟨?_, ?_, ?_, ?_, ?_⟩ <;> simp [initTree, ccMem, alGet]

theorem valid_tc_of {T : List Blk} {msgs : List Msg} (hv : OnlyTree T msgs) (hvc : ∀ c ∈ confs msgs, VCT T c) :
    ∀ m ∈ msgs, ValidMsgTC T m := by
  intro m hm
  cases m with
  | blocks bs => exact hv bs hm
  | confirm c => exact hvc c (mem_confs hm)
  | tick a => trivial
  | stable => trivial

/-- **converges_tree_confirms**: over a block tree, with the `Add` / `Push` of /repo.  Deliver the blocks of `T` in
    any order / duplication / batching and any confirmations OF BLOCKS OF `T` (right hash and height; of blocks on
    any fork) at any point — before their block ("early": confirm cache, then `mergeConfirmsFromCache` when the
    block is inserted by the loop or by the drain timer) or after it (`InsertConfirms`) — interleaved with ticks and
    stable events, no block reaching the quorum.  After the drain the chain has attached EXACTLY the delivered
    confirmations (none lost, none invented) and the confirm cache holds none of them any more. -/
theorem converges_tree_confirms (base : Blk) (T : List Blk) (q : Nat) (hbase : 1 ≤ base.height) (hT : IsTree base T)
    (hd : ∀ x ∈ T, x.height ≤ base.height + 10240)
    (msgs : List Msg) (modes : List Bool) (hv : OnlyTree T msgs) (hvc : ∀ c ∈ confs msgs, VCT T c)
    (hc : CompleteT T msgs) (hq : NoQuorum q T (confs msgs))
    (hm : ∀ x ∈ T, x.height ≤ base.height + modes.length) :
    (∀ p, p ∈ (runMsgs (addLive 10240) q (initTree base) (msgs ++ modes.map Msg.tick)).chain.attached ↔
      ∃ c ∈ confs msgs, c.hash = p.1 ∧ c.sig = p.2) ∧
    (∀ c, ¬ ccMem c (runMsgs (addLive 10240) q (initTree base) (msgs ++ modes.map Msg.tick)).cc) := by
  have cx : Ctx base T 10240 q (confs msgs) (addLive 10240) :=
    ⟨hT, hbase, hd, hq, addLive_okH base.height 10240 10240 (Nat.le_refl _)⟩
  have hvall : ∀ m ∈ msgs ++ modes.map Msg.tick, ValidMsgT T (confs msgs) m := by
    intro m hmm
    rcases List.mem_append.mp hmm with h | h
    · exact valid_of_only hv m h
    · obtain ⟨a, _, rfl⟩ := List.mem_map.mp h; trivial
  have hvcall : ∀ m ∈ msgs ++ modes.map Msg.tick, ValidMsgTC T m := by
    intro m hmm
    rcases List.mem_append.mp hmm with h | h
    · exact valid_tc_of hv hvc m h
    · obtain ⟨a, _, rfl⟩ := List.mem_map.mp h; trivial
  obtain ⟨t1, _, _⟩ := run_tree cx (msgs ++ modes.map Msg.tick) (initTree base)
    (init_ti base T 10240 (confs msgs)) hvall
  have hci := run_cit cx (Nat.le_refl _) hvc (msgs ++ modes.map Msg.tick) [] (initTree base)
    (init_ti base T 10240 (confs msgs)) (init_cit base 10240) hvall hvcall
  rw [confs_append, confs_ticks, List.append_nil, List.append_nil] at hci
  obtain ⟨hk, _⟩ := converges_tree base T q hbase hT hd msgs modes hv hc hq hm
  have hknown : ∀ c ∈ confs msgs,
      hasBlock (runMsgs (addLive 10240) q (initTree base) (msgs ++ modes.map Msg.tick)).chain c.hash = true := by
    intro c hcD
    obtain ⟨x, hx, e1, _⟩ := hvc c hcD
    rw [e1]
    exact has_of_known ((hk x).mpr (Or.inr hx))
  constructor
  · intro p
    constructor
    · exact t1.cl.att_sound p
    · rintro ⟨c, hcD, e1, e2⟩
      have := hci.att_complete c hcD (hknown c hcD)
      have ep : p = (c.hash, c.sig) := by rw [e1, e2]
      rw [ep]; exact this
  · intro c hm
    have h1 := t1.cl.cc_sound c hm
    have h2 := hci.cc_unknown c hm
    rw [hknown c h1] at h2
    cases h2

/-- under `NoQuorum` the stable block never leaves the base block, whatever is delivered -/
theorem converges_tree_stable_at_base (base : Blk) (T : List Blk) (q : Nat) (hbase : 1 ≤ base.height)
    (hT : IsTree base T) (hd : ∀ x ∈ T, x.height ≤ base.height + 10240)
    (msgs : List Msg) (hv : OnlyTree T msgs) (hq : NoQuorum q T (confs msgs)) :
    stableHeight q (runMsgs (addLive 10240) q (initTree base) msgs).chain ≤ base.height := by
  have cx : Ctx base T 10240 q (confs msgs) (addLive 10240) :=
    ⟨hT, hbase, hd, hq, addLive_okH base.height 10240 10240 (Nat.le_refl _)⟩
  obtain ⟨t1, _, _⟩ := run_tree cx msgs (initTree base) (init_ti base T 10240 (confs msgs)) (valid_of_only hv)
  exact stable_le t1.ch t1.cl hq

/-! ### the hypotheses are satisfiable, and what happens without the guard -/

/-- every block the messages carry, in delivery order -/
def deliveredBlocks : List Msg → List Blk
  | [] => []
  | .blocks bs :: ms => bs ++ deliveredBlocks ms
  | _ :: ms => deliveredBlocks ms

theorem mem_deliveredBlocks {ms : List Msg} {b : Blk} :
    b ∈ deliveredBlocks ms ↔ ∃ bs, Msg.blocks bs ∈ ms ∧ b ∈ bs := by
  induction ms with
  | nil => simp [deliveredBlocks]
  | cons m l ih =>
    cases m with
    | blocks bs0 =>
      simp only [deliveredBlocks, List.mem_append, ih, List.mem_cons, Msg.blocks.injEq]
      constructor
      · rintro (h | ⟨bs, h1, h2⟩)
        · exact ⟨bs0, Or.inl rfl, h⟩
        · exact ⟨bs, Or.inr h1, h2⟩
      · rintro ⟨bs, rfl | h1, h2⟩
        · exact Or.inl h2
        · exact Or.inr ⟨bs, h1, h2⟩
    | confirm c => simp [deliveredBlocks, ih]
    | tick a => simp [deliveredBlocks, ih]
    | stable => simp [deliveredBlocks, ih]

/-- `OnlyTree` and `CompleteT` together: the delivered blocks are, as a set, exactly the tree -/
theorem only_complete_iff (T : List Blk) (msgs : List Msg) :
    (OnlyTree T msgs ∧ CompleteT T msgs) ↔ ∀ b, b ∈ deliveredBlocks msgs ↔ b ∈ T := by
  constructor
  · rintro ⟨h1, h2⟩ b
    rw [mem_deliveredBlocks]
    constructor
    · rintro ⟨bs, hbs, hb⟩; exact h1 bs hbs b hb
    · exact h2 b
  · intro h
    exact ⟨fun bs hbs b hb => (h b).mp (mem_deliveredBlocks.mpr ⟨bs, hbs, hb⟩),
      fun x hx => mem_deliveredBlocks.mp ((h x).mpr hx)⟩

/-- executable check of `IsTree` (for concrete witnesses) -/
def isTreeB (base : Blk) (T : List Blk) : Bool :=
  T.all (fun x => (base :: T).any (fun p => p.hash == x.parent && x.height == p.height + 1)) &&
  T.all (fun x => T.all (fun y => x.hash != y.hash || x == y)) &&
  T.all (fun x => x.hash != base.hash)

theorem isTree_of_check (base : Blk) (T : List Blk) (h : isTreeB base T = true) : IsTree base T := by
  unfold isTreeB at h
  simp only [Bool.and_eq_true, List.all_eq_true, List.any_eq_true, Bool.or_eq_true, bne_iff_ne, ne_eq,
    beq_iff_eq] at h
  obtain ⟨⟨h1, h2⟩, h3⟩ := h
  refine ⟨?_, ?_, h3⟩
  · intro x hx
    obtain ⟨p, hp, e1, e2⟩ := h1 x hx
    exact ⟨p, by simpa using hp, e1, e2⟩
  · intro x hx y hy e
    rcases h2 x hx y hy with h | h
    · exact absurd e h
    · exact h

/-- witness tree over a base block of height 5 (hash 0): two competing blocks 1, 2 at height 6, block 3 on top
    of 1 and blocks 4, 5 (competing again) on top of 2 at height 7, block 6 on top of 5 at height 8 -/
def fbase : Blk := { height := 5, hash := 0, parent := 0 }
def ftree : List Blk :=
  [{ height := 6, hash := 1, parent := 0 }, { height := 6, hash := 2, parent := 0 },
   { height := 7, hash := 3, parent := 1 }, { height := 7, hash := 4, parent := 2 },
   { height := 7, hash := 5, parent := 2 }, { height := 8, hash := 6, parent := 5 }]

/-- children first, a duplicate, siblings in one message, an early and a late confirmation, a stable event -/
def fdelivery : List Msg :=
  [.blocks [{ height := 8, hash := 6, parent := 5 }], .confirm { hash := 2, height := 6, sig := 7 },
   .blocks [{ height := 7, hash := 4, parent := 2 }, { height := 7, hash := 5, parent := 2 }], .tick true,
   .blocks [{ height := 7, hash := 3, parent := 1 }, { height := 6, hash := 1, parent := 0 }], .stable,
   .blocks [{ height := 6, hash := 2, parent := 0 }, { height := 8, hash := 6, parent := 5 }],
   .confirm { hash := 1, height := 6, sig := 8 }]

/-- non-vacuity: the hypotheses of `converges_tree` hold for the witness (quorum 2, three drain ticks) … -/
example : IsTree fbase ftree ∧ OnlyTree ftree fdelivery ∧ CompleteT ftree fdelivery ∧
    NoQuorum 2 ftree (confs fdelivery) ∧ (∀ x ∈ ftree, x.height ≤ fbase.height + [true, false, true].length) := by
  have h := (only_complete_iff ftree fdelivery).mpr (by
    intro b
    have e : deliveredBlocks fdelivery =
        [{ height := 8, hash := 6, parent := 5 }, { height := 7, hash := 4, parent := 2 },
         { height := 7, hash := 5, parent := 2 }, { height := 7, hash := 3, parent := 1 },
         { height := 6, hash := 1, parent := 0 }, { height := 6, hash := 2, parent := 0 },
         { height := 8, hash := 6, parent := 5 }] := rfl
    rw [e]
    simp only [ftree, List.mem_cons, List.mem_nil_iff, or_false]
    constructor
    · rintro (h | h | h | h | h | h | h) <;> simp [h]
    · rintro (h | h | h | h | h | h) <;> simp [h])
  exact ⟨isTree_of_check _ _ (by decide), h.1, h.2, by unfold NoQuorum; decide, by decide⟩

/-- … and the model run ends as the theorem says (known hashes in insertion order, newest first) -/
example :
    (runMsgs (addLive 10240) 2 (initTree fbase) (fdelivery ++ [true, false, true].map Msg.tick)).chain.known.map (·.hash)
      = [6, 3, 5, 4, 2, 1, 0] ∧
    size (runMsgs (addLive 10240) 2 (initTree fbase) (fdelivery ++ [true, false, true].map Msg.tick)).bc = 0 ∧
    currentHeight (runMsgs (addLive 10240) 2 (initTree fbase) (fdelivery ++ [true, false, true].map Msg.tick)).chain = 8 ∧
    (runMsgs (addLive 10240) 2 (initTree fbase) (fdelivery ++ [true, false, true].map Msg.tick)).chain.attached
      = [(2, 7), (1, 8)] := by
  decide

/-- the witness also satisfies the extra hypotheses of `converges_tree_confirms` and `converges_tree_inorder` -/
example : (∀ c ∈ confs fdelivery, VCT ftree c) ∧ ParentFirst [fbase.hash] ftree := by
  constructor
  · intro c hc
    have e : confs fdelivery = [{ hash := 2, height := 6, sig := 7 }, { hash := 1, height := 6, sig := 8 }] := rfl
    rw [e] at hc
    simp only [List.mem_cons, List.mem_nil_iff, or_false] at hc
    rcases hc with rfl | rfl
    · exact ⟨{ height := 6, hash := 2, parent := 0 }, by simp [ftree], rfl, rfl⟩
    · exact ⟨{ height := 6, hash := 1, parent := 0 }, by simp [ftree], rfl, rfl⟩
  · simp [ParentFirst, ftree, fbase]

def qA : Blk := { height := 6, hash := 1, parent := 0 }
def qB : Blk := { height := 6, hash := 2, parent := 0 }
def qC : Blk := { height := 7, hash := 3, parent := 2 }

/-- **converges_tree_quorum_refuted** (why `NoQuorum` is there; by design of the code, not a defect of the cache):
    two competing blocks A, B at height 6 and a child C of B.  Quorum 1.  Both deliveries carry every block and the
    same single confirmation of A.
    * confirmation LAST: the node knows A, B and C.
    * confirmation right after A: A is stable at height 6, so B (`b.Height() <= StableBlock().Height()`) is dropped as
      stale when it arrives, and C waits in the cache for ever — no number of ticks changes that; the next stable
      event (`blockCache.Clear`) is what removes it.
    The set of known blocks depends on the delivery order as soon as a block of the tree becomes stable while
    competitors at or below its height are still on their way. -/
theorem converges_tree_quorum_refuted :
    IsTree fbase [qA, qB, qC] ∧
    ((runMsgs (addLive 10240) 1 (initTree fbase)
        ([.blocks [qC], .blocks [qA], .blocks [qB], .confirm { hash := 1, height := 6, sig := 7 }] ++
          [true, true, true].map Msg.tick)).chain.known.map (·.hash)) = [3, 2, 1, 0] ∧
    ((runMsgs (addLive 10240) 1 (initTree fbase)
        ([.blocks [qC], .blocks [qA], .confirm { hash := 1, height := 6, sig := 7 }, .blocks [qB]] ++
          [true, true, true].map Msg.tick)).chain.known.map (·.hash)) = [1, 0] ∧
    size (runMsgs (addLive 10240) 1 (initTree fbase)
        ([.blocks [qC], .blocks [qA], .confirm { hash := 1, height := 6, sig := 7 }, .blocks [qB]] ++
          [true, true, true].map Msg.tick)).bc = 1 ∧
    ¬ NoQuorum 1 [qA, qB, qC] (confs [.blocks [qC], .blocks [qA], .confirm { hash := 1, height := 6, sig := 7 }, .blocks [qB]]) := by
  refine ⟨isTree_of_check _ _ (by decide), by decide, by decide, by decide, by unfold NoQuorum; decide⟩

end LemoProofs.C20

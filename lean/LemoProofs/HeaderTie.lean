/-
  Tie T1 for the three arithmetic header checks of `Validator.VerifyBeforeTxProcess` (C02).
  `LemoGen.Header` is REGENERATED from /repo's working tree on every run: `badHeightCond` is the
  `if parent.Height()+1 != block.Height()` of `verifyHeight` (uint32 arithmetic, wrap-around included),
  `futureCond` the `if int64(block.Time())-timeNow > 1` of `verifyTime`, `extraTooLongCond` the
  `if len(block.Extra()) > params.MaxExtraDataLen` of `verifyExtraData`.  The theorems say that the three
  rejection tests of `LemoModel.Validator.verifyBefore` (the function `accept_sound` is about) are these.
-/
import LemoModel.Validator
import LemoGen.Header

namespace LemoProofs.HeaderTie
open LemoModel LemoModel.Validator

theorem maxExtraDataLen_regenerated : (Validator.maxExtraDataLen : Int) = LemoGen.Header.MaxExtraDataLen := rfl

theorem height_check_regenerated (parentHeight blockHeight : Nat) :
    LemoGen.Header.badHeightCond blockHeight parentHeight
      = (GoSem.uadd Validator.u32 parentHeight 1 != blockHeight) := rfl

theorem future_check_regenerated (blockTime : Nat) (now : Int) :
    LemoGen.Header.futureCond blockTime now = decide ((blockTime : Int) - now > 1) := rfl

theorem extra_check_regenerated (n : Nat) :
    LemoGen.Header.extraTooLongCond n = decide (n > Validator.maxExtraDataLen) := by
  simp only [LemoGen.Header.extraTooLongCond, Validator.maxExtraDataLen]
  by_cases h : n > 256
  · have : (n : Int) > 256 := by omega
    simp [h, this]
  · have : ¬ (n : Int) > 256 := by omega
    simp [h, this]

end LemoProofs.HeaderTie

/-
  Tie T1 for the three arithmetic header checks of `Validator.VerifyBeforeTxProcess` (C02).
  `LemoGen.Header` is REGENERATED from /repo's working tree on every run: `badHeightCond` is the
  `if parent.Height()+1 != block.Height()` of `verifyHeight` (uint32 arithmetic, wrap-around included),
  `futureCond` the `if int64(block.Time())-timeNow > 1` of `verifyTime`, `extraTooLongCond` the
  `if len(block.Extra()) > params.MaxExtraDataLen` of `verifyExtraData`.

  `verifyBefore_regenerated` is the tie: it rewrites the MODEL FUNCTION `LemoModel.Validator.verifyBefore` (the one
  `accept_sound` / `reject_no_effect` are about), for every context and block whose earlier checks pass, as a
  cascade over the three GENERATED conditions applied to the block's and the parent's fields.  What the tie
  covers is each comparison with its operands and constants (narrowing conversions included, see
  `GoSem.toS`); what it does NOT cover — the position of each `if` inside its Go function, the body of the
  branch, the order of the checks inside VerifyBeforeTxProcess — is covered by the correspondence run only
  (review round 8, R2).
-/
import LemoModel.Validator
import LemoGen.Header

namespace LemoProofs.HeaderTie
open LemoModel LemoModel.Validator

theorem maxExtraDataLen_regenerated : (Validator.maxExtraDataLen : Int) = LemoGen.Header.MaxExtraDataLen := rfl

private theorem extra_cond (n : Nat) :
    LemoGen.Header.extraTooLongCond n = decide (n > Validator.maxExtraDataLen) := by
  simp only [LemoGen.Header.extraTooLongCond, Validator.maxExtraDataLen]
  by_cases h : n > 256
  · have : (n : Int) > 256 := by omega
    simp [h, this]
  · have : ¬ (n : Int) > 256 := by omega
    simp [h, this]

/-- **the tie**: after the parent lookup, the signer check and the tx-root check have passed, the verdict of the model's
    `verifyBefore` is decided by the three regenerated conditions, in this order, and then by verifyTxs / verifyMiner -/
theorem verifyBefore_regenerated (c : Ctx) (b : Block) (parent : Header)
    (hp : c.load b.header.parentHash = some parent) (hs : verifySigner c b = none)
    (hr : (c.merkleRoot b.txs != b.header.txRoot) = false) :
    verifyBefore c b =
      (if LemoGen.Header.badHeightCond b.header.height parent.height then .reject .height
       else if LemoGen.Header.futureCond b.header.time c.now then .reject .future
       else if LemoGen.Header.extraTooLongCond b.header.extra.length then .reject .extra
       else match verifyTxs c b with
         | .ok => verifyMiner c b.header parent
         | v => v) := by
  simp only [verifyBefore, hp, hs, hr, extra_cond, LemoGen.Header.badHeightCond, LemoGen.Header.futureCond]
  simp [Validator.u32]
  rfl

/-- the three conditions one by one, for reference (consequences of the definitions; the tie is the theorem above) -/
theorem height_check_regenerated (parentHeight blockHeight : Nat) :
    LemoGen.Header.badHeightCond blockHeight parentHeight
      = (GoSem.uadd Validator.u32 parentHeight 1 != blockHeight) := rfl

theorem future_check_regenerated (blockTime : Nat) (now : Int) :
    LemoGen.Header.futureCond blockTime now = decide ((blockTime : Int) - now > 1) := rfl

theorem extra_check_regenerated (n : Nat) :
    LemoGen.Header.extraTooLongCond n = decide (n > Validator.maxExtraDataLen) := extra_cond n

end LemoProofs.HeaderTie

/-
  Helper lemmas for C12: the primitives of the asset model (putEquity / putSupply / setMeta) and sums of
  equity over a duplicate-free key list.
-/
import LemoModel.Assets
namespace LemoProofs.AssetsLemmas
open LemoModel.Assets

theorem bind_ok {α β : Type} {x : Except Err α} {f : α → Except Err β} {b : β}
    (h : (x >>= f) = .ok b) : ∃ a, x = .ok a ∧ f a = .ok b := by
  cases x with
  | error e => simp [bind, Except.bind] at h
  | ok a => exact ⟨a, rfl, by simpa [bind, Except.bind] using h⟩

/-- amount an entry contributes to the holdings of asset `x` -/
def valOf (x : Nat) : Option (Nat × Int) → Int
  | some (c, e) => if c = x then e else 0
  | none => 0

theorem entryOf_eq (s : St) (x : Nat) (k : Nat × Nat) : entryOf s x k = valOf x (s.equity k.1 k.2) := by
  unfold entryOf valOf
  cases s.equity k.1 k.2 with
  | none => rfl
  | some p => cases p; rfl

/-! ### primitives -/

theorem putEquity_ok {s s' : St} {a id : Nat} {e : Nat × Int} (h : putEquity s a id e = .ok s') :
    0 ≤ e.2 ∧ s'.assets = s.assets ∧ s'.idMeta = s.idMeta ∧
      s'.equity = fun x y => if x = a ∧ y = id then some e else s.equity x y := by
  unfold putEquity at h
  split at h
  · cases h
  · injection h with h; subst h
    exact ⟨by omega, rfl, rfl, rfl⟩

theorem putSupply_ok {s s' : St} {code : Nat} {v : Int} (h : putSupply s code v = .ok s') :
    ∃ r, s.assets code = some r ∧ 0 ≤ v ∧ s'.equity = s.equity ∧ s'.idMeta = s.idMeta ∧
      s'.assets = fun x => if x = code then some { r with supply := v } else s.assets x := by
  unfold putSupply at h
  split at h
  · cases h
  · rename_i r hr
    split at h
    · cases h
    · injection h with h; subst h
      exact ⟨r, hr, by omega, rfl, rfl, rfl⟩

theorem setMeta_assets (s : St) (a id : Nat) (b : Bool) : (setMeta s a id b).assets = s.assets := rfl
theorem setMeta_equity (s : St) (a id : Nat) (b : Bool) : (setMeta s a id b).equity = s.equity := rfl

/-! ### sums -/

theorem sumCode_cons (s : St) (x : Nat) (k : Nat × Nat) (ks : List (Nat × Nat)) :
    sumCode s x (k :: ks) = entryOf s x k + sumCode s x ks := rfl

theorem sumCode_congr (s s' : St) (x : Nat) :
    ∀ keys : List (Nat × Nat), (∀ k ∈ keys, s'.equity k.1 k.2 = s.equity k.1 k.2) →
      sumCode s' x keys = sumCode s x keys := by
  intro keys
  induction keys with
  | nil => intro _; rfl
  | cons k ks ih =>
    intro h
    rw [sumCode_cons, sumCode_cons, ih (fun k' hk' => h k' (List.mem_cons_of_mem _ hk'))]
    rw [entryOf_eq, entryOf_eq, h k List.mem_cons_self]

/-- a change of one entry moves the sum by exactly the difference of that entry -/
theorem sumCode_point (s s' : St) (x : Nat) (k0 : Nat × Nat)
    (h : ∀ k : Nat × Nat, k ≠ k0 → s'.equity k.1 k.2 = s.equity k.1 k.2) :
    ∀ keys : List (Nat × Nat), keys.Nodup → k0 ∈ keys →
      sumCode s' x keys = sumCode s x keys + (entryOf s' x k0 - entryOf s x k0) := by
  intro keys
  induction keys with
  | nil => intro _ hm; cases hm
  | cons k ks ih =>
    intro hn hm
    have ⟨hk, hn'⟩ := List.nodup_cons.mp hn
    rw [sumCode_cons, sumCode_cons]
    by_cases e : k = k0
    · subst e
      have : sumCode s' x ks = sumCode s x ks :=
        sumCode_congr s s' x ks (fun k' hk' => h k' (fun e => hk (e ▸ hk')))
      rw [this]; omega
    · have hm' : k0 ∈ ks := by
        rcases List.mem_cons.mp hm with h1 | h1
        · exact absurd h1.symm e
        · exact h1
      rw [ih hn' hm', entryOf_eq s' x k, entryOf_eq s x k, h k e]; omega

/-- the "gap" form of the sum invariant: supply = Σ holdings + δ -/
def Gap (s : St) (keys : List (Nat × Nat)) (δ : Nat → Int) : Prop :=
  ∀ x r, s.assets x = some r → r.divisible = true → r.supply = sumCode s x keys + δ x

theorem gap_putEquity {s s' : St} {keys : List (Nat × Nat)} {δ : Nat → Int} {a id : Nat} {e : Nat × Int}
    (hn : keys.Nodup) (hk : (a, id) ∈ keys) (h : putEquity s a id e = .ok s') (G : Gap s keys δ) :
    Gap s' keys (fun x => δ x - (valOf x (some e) - valOf x (s.equity a id))) := by
  obtain ⟨_, ha, _, he⟩ := putEquity_ok h
  intro x r hr hd
  rw [ha] at hr
  have hp := sumCode_point s s' x (a, id) (by
    intro k hne
    rw [he]
    have : ¬ (k.1 = a ∧ k.2 = id) := fun ⟨h1, h2⟩ => hne (by cases k; simp_all)
    simp [this]) keys hn hk
  rw [hp, entryOf_eq, entryOf_eq, he]
  simp only [and_self, if_true]
  have := G x r hr hd
  omega

theorem gap_putSupply {s s' : St} {keys : List (Nat × Nat)} {δ : Nat → Int} {code : Nat} {v : Int}
    (h : putSupply s code v = .ok s') (G : Gap s keys δ) :
    ∃ r0, s.assets code = some r0 ∧
      Gap s' keys (fun x => δ x + (if x = code then v - r0.supply else 0)) := by
  obtain ⟨r0, hr0, _, he, _, ha⟩ := putSupply_ok h
  refine ⟨r0, hr0, ?_⟩
  intro x r hr hd
  have hs : sumCode s' x keys = sumCode s x keys := sumCode_congr s s' x keys (fun k _ => by rw [he])
  rw [hs]
  rw [ha] at hr
  by_cases e : x = code
  · subst e
    simp only [if_true] at hr ⊢
    injection hr with hr; subst hr
    have := G x r0 hr0 hd
    simp only
    omega
  · simp only [if_neg e] at hr ⊢
    have := G x r hr hd
    omega

end LemoProofs.AssetsLemmas

/-
  Inversion lemmas for C12: what a SUCCESSFUL asset transaction of the model did, as a chain of primitives.
-/
import LemoProofs.Lemmas.AssetsLemmas
namespace LemoProofs.AssetsOps
open LemoModel.Assets LemoProofs.AssetsLemmas

theorem lookup_some {s : St} {o code : Nat} {r : AssetRec} (h : lookup s o code = some r) :
    s.assets code = some r ∧ r.issuer = o := by
  unfold lookup at h
  split at h
  · rename_i r' hr'
    split at h
    · injection h with h; subst h; exact ⟨hr', by assumption⟩
    · cases h
  · cases h

theorem create_ok {s s' : St} {sd hsh cat dc : Nat} {dv rp fz big : Bool}
    (h : create s sd hsh cat dv rp dc fz big = .ok s') :
    s'.equity = s.equity ∧ s'.idMeta = s.idMeta ∧
      s'.assets = fun x => if x = hsh then
        some { issuer := sd, category := cat, divisible := dv, replenishable := rp, frozen := fz, supply := 0 }
        else s.assets x := by
  unfold create at h
  split at h; · cases h
  split at h; · cases h
  split at h; · cases h
  split at h; · cases h
  split at h; · cases h
  injection h with h; subst h
  exact ⟨rfl, rfl, rfl⟩

theorem issue_ok {stable s s' : St} {sd rc hsh code m : Nat} {amt : Option Int}
    (h : issue stable s sd rc hsh code m amt = .ok s') :
    ∃ a r s1 s2 tid newEq, amt = some a ∧ 0 < a ∧ lookup s sd code = some r ∧ r.frozen = false ∧
      putSupply s code (if r.divisible then r.supply + a else r.supply + 1) = .ok s1 ∧
      putEquity s1 rc tid (code, newEq) = .ok s2 ∧ s' = setMeta s2 rc tid (decide (m > 0)) ∧
      ((r.category = 1 ∧ tid = code ∧
          newEq = (match s.equity rc code with | none => a | some (_, e) => a + e)) ∨
       (r.category ≠ 1 ∧ tid = hsh ∧ newEq = a)) := by
  unfold issue at h
  split at h; · cases h
  rename_i a
  split at h; · cases h
  split at h; · cases h
  split at h; · cases h
  rename_i hpos
  split at h; · cases h
  rename_i r hr
  split at h; · cases h
  rename_i hfz
  split at h
  · rename_i hcat
    obtain ⟨s1, h1, h⟩ := bind_ok h
    obtain ⟨s2, h2, h⟩ := bind_ok h
    injection h with h
    exact ⟨a, r, s1, s2, code, _, rfl, by omega, hr, by simpa using hfz, h1, h2, h.symm, Or.inl ⟨hcat, rfl, rfl⟩⟩
  · rename_i hcat
    split at h
    · obtain ⟨s1, h1, h⟩ := bind_ok h
      obtain ⟨s2, h2, h⟩ := bind_ok h
      injection h with h
      exact ⟨a, r, s1, s2, hsh, a, rfl, by omega, hr, by simpa using hfz, h1, h2, h.symm, Or.inr ⟨hcat, rfl, rfl⟩⟩
    · cases h

theorem replenish_ok {stable s s' : St} {sd rc code id : Nat} {amt : Option Int}
    (h : replenish stable s sd rc code id amt = .ok s') :
    ∃ a r s1, amt = some a ∧ 0 < a ∧ lookup s sd code = some r ∧ r.frozen = false ∧
      r.replenishable = true ∧ r.divisible = true ∧ (oldEntry s rc id code).1 = code ∧
      putEquity s rc id (code, (oldEntry s rc id code).2 + a) = .ok s1 ∧
      putSupply s1 code (r.supply + a) = .ok s' := by
  unfold replenish at h
  split at h; · cases h
  rename_i a
  split at h; · cases h
  split at h; · cases h
  rename_i hpos
  split at h; · cases h
  rename_i r hr
  split at h; · cases h
  rename_i hfz
  split at h; · cases h
  rename_i hrp
  split at h; · cases h
  rename_i hdv
  split at h; · cases h
  rename_i hc
  have hc' : (oldEntry s rc id code).1 = code := (Decidable.not_not.mp hc).symm
  obtain ⟨s1, h1, h⟩ := bind_ok h
  rw [hc'] at h1
  exact ⟨a, r, s1, rfl, by omega, hr, by simpa using hfz, by simpa using hrp, by simpa using hdv, hc', h1, h⟩

theorem modify_ok {stable s s' : St} {sd code : Nat} {fz : Fz} (h : LemoModel.Assets.modify stable s sd code fz = .ok s') :
    ∃ r, lookup s sd code = some r ∧ s'.equity = s.equity ∧ s'.idMeta = s.idMeta ∧
      (s' = s ∨ ∃ b, fz = .set b ∧
        s'.assets = fun x => if x = code then some { r with frozen := b } else s.assets x) := by
  unfold LemoModel.Assets.modify at h
  split at h; · cases h
  split at h; · cases h
  split at h; · cases h
  rename_i r hr
  split at h
  · rename_i b _
    injection h with h; subst h
    exact ⟨r, hr, rfl, rfl, Or.inr ⟨b, rfl, rfl⟩⟩
  · cases h
  · injection h with h; subst h
    exact ⟨r, hr, rfl, rfl, Or.inl rfl⟩

theorem moveEquity_ok {s s' : St} {sd rc id c : Nat} {r : AssetRec} {amount : Int}
    (h : moveEquity s sd rc id c r amount = .ok s') :
    ∃ s1 c' e',
      ((rc ≠ 0 ∧ putEquity s rc id (creditEntry s rc id c amount) = .ok s1)
       ∨ (rc = 0 ∧ putSupply s c (if r.divisible then r.supply - amount else r.supply - 1) = .ok s1)) ∧
      s1.equity sd id = some (c', e') ∧ putEquity s1 sd id (c', e' - amount) = .ok s' := by
  unfold moveEquity at h
  obtain ⟨s1, h1, h⟩ := bind_ok h
  unfold debit at h
  split at h; · cases h
  rename_i c' e' hs1
  refine ⟨s1, c', e', ?_, hs1, h⟩
  unfold credit at h1
  split at h1
  · rename_i hrc; exact Or.inl ⟨hrc, h1⟩
  · rename_i hrc; exact Or.inr ⟨Decidable.not_not.mp hrc, h1⟩

theorem transfer_ok {fixed : Bool} {stable s s' : St} {sd rc id ck : Nat} {amt : Option Int}
    (h : transfer fixed stable s sd rc id ck amt = .ok s') :
    ∃ a c e r, amt = some a ∧ s.equity sd id = some (c, e) ∧ 0 < e ∧ (fixed = true → 0 ≤ a) ∧
      s.assets c = some r ∧ r.frozen = false ∧ (r.divisible = true → a ≤ e) ∧
      (s' = s ∨ moveEquity s sd rc id c r (if r.divisible then a else e) = .ok s') := by
  unfold transfer at h
  split at h; · cases h
  rename_i a
  split at h; · cases h
  split at h; · cases h
  rename_i c e hse
  split at h; · cases h
  rename_i hpos
  split at h; · cases h
  rename_i hfix
  split at h; · cases h
  split at h; · cases h
  rename_i r hr
  split at h; · cases h
  rename_i hfz
  split at h; · cases h
  rename_i hins
  refine ⟨a, c, e, r, rfl, hse, by omega, ?_, hr, by simpa using hfz, ?_, ?_⟩
  · intro hf
    by_cases hneg : a < 0
    · exact absurd ⟨hf, hneg⟩ hfix
    · omega
  · intro hd
    by_cases hlt : e < a
    · exact absurd ⟨hlt, hd⟩ hins
    · omega
  · split at h
    · injection h with h; exact Or.inl h.symm
    · split at h
      · cases h
      · rename_i s2 hm
        split at h
        · injection h with h; exact Or.inl h.symm
        · injection h with h; subst h; exact Or.inr hm

end LemoProofs.AssetsOps

/-
  Helper lemmas for C14: base-26 digits and the address text form.
-/
import LemoModel.Base26
import LemoProofs.Lemmas.RlpBytes
namespace LemoProofs.Base26Lemmas
open LemoModel.Rlp LemoModel.Base26 LemoProofs.RlpBytes

/-! ### leading zero bytes -/

def stripZ (l : List UInt8) : List UInt8 := l.dropWhile (· == 0)

theorem stripZ_cons_zero (l : List UInt8) : stripZ (0 :: l) = stripZ l := by
  unfold stripZ; rw [List.dropWhile_cons]; simp

theorem stripZ_cons_ne {a : UInt8} (h : a ≠ 0) (l : List UInt8) : stripZ (a :: l) = a :: l := by
  unfold stripZ; rw [List.dropWhile_cons]; simp [h]

theorem fromBE_stripZ (l : List UInt8) : fromBE (stripZ l) = fromBE l := by
  induction l with
  | nil => rfl
  | cons a l ih =>
    by_cases h : a = 0
    · subst h; rw [stripZ_cons_zero, ih, fromBE_cons]; simp
    · rw [stripZ_cons_ne h]

theorem stripZ_head (l : List UInt8) : (stripZ l).head? ≠ some 0 := by
  induction l with
  | nil => simp [stripZ]
  | cons a l ih =>
    by_cases h : a = 0
    · subst h; rw [stripZ_cons_zero]; exact ih
    · rw [stripZ_cons_ne h]; simpa using h

theorem toBE_fromBE_strip (l : List UInt8) : toBE (fromBE l) = stripZ l := by
  rw [← fromBE_stripZ]; exact toBE_fromBE _ (stripZ_head l)

theorem stripZ_length_le (l : List UInt8) : (stripZ l).length ≤ l.length := by
  induction l with
  | nil => simp [stripZ]
  | cons a l ih =>
    by_cases h : a = 0
    · subst h; rw [stripZ_cons_zero]; simp; omega
    · rw [stripZ_cons_ne h]; simp

theorem replicate_stripZ (l : List UInt8) : List.replicate (l.length - (stripZ l).length) 0 ++ stripZ l = l := by
  induction l with
  | nil => simp [stripZ]
  | cons a l ih =>
    by_cases h : a = 0
    · subst h
      rw [stripZ_cons_zero]
      have := stripZ_length_le l
      have e : (0 :: l).length - (stripZ l).length = (l.length - (stripZ l).length) + 1 := by simp; omega
      rw [e, List.replicate_succ, List.cons_append, ih]
    · rw [stripZ_cons_ne h]; simp

theorem checkSum_cons_zero (l : List UInt8) : checkSum (0 :: l) = checkSum l := by
  unfold checkSum; simp

theorem checkSum_stripZ (l : List UInt8) : checkSum (stripZ l) = checkSum l := by
  induction l with
  | nil => rfl
  | cons a l ih =>
    by_cases h : a = 0
    · subst h; rw [stripZ_cons_zero, ih, checkSum_cons_zero]
    · rw [stripZ_cons_ne h]

theorem stripZ_nil_imp (l : List UInt8) (h : stripZ l = []) : l = List.replicate l.length 0 ∧ checkSum l = 0 := by
  induction l with
  | nil => exact ⟨rfl, rfl⟩
  | cons a l ih =>
    by_cases ha : a = 0
    · subst ha
      rw [stripZ_cons_zero] at h
      have := ih h
      refine ⟨?_, ?_⟩
      · rw [List.length_cons, List.replicate_succ, ← this.1]
      · rw [checkSum_cons_zero]; exact this.2
    · rw [stripZ_cons_ne ha] at h; cases h

theorem stripZ_concat (a : List UInt8) (c : UInt8) :
    stripZ (a ++ [c]) = if (stripZ a).isEmpty then stripZ [c] else stripZ a ++ [c] := by
  unfold stripZ; rw [List.dropWhile_append]

/-! ### base-26 digits -/

theorem charIndex_digitChar : ∀ d, d < 26 → charIndex (digitChar d) = (d : Int) := by decide

theorem digitChar_upper : ∀ d, d < 26 → (digitChar d).toUpper = digitChar d := by decide

theorem digitChar_ne_zero : ∀ d, d < 26 → d ≠ 0 → digitChar d ≠ '8' := by decide

theorem digitsLE_zero : digitsLE 0 = [] := by rw [digitsLE]; simp

theorem digitsLE_pos {n : Nat} (h : n ≠ 0) : digitsLE n = digitChar (n % 26) :: digitsLE (n / 26) := by
  rw [digitsLE]; simp [h]

theorem foldr_digits (n : Nat) :
    (digitsLE n).foldr (fun c acc => acc * 26 + charIndex c) (0 : Int) = (n : Int) := by
  induction n using Nat.strongRecOn with
  | _ n ih =>
    by_cases h : n = 0
    · subst h; rw [digitsLE_zero]; rfl
    · rw [digitsLE_pos h, List.foldr_cons, ih (n / 26) (by omega), charIndex_digitChar _ (by omega)]
      omega

theorem digitsLE_last (n : Nat) (h : n ≠ 0) : (digitsLE n).getLast? ≠ some '8' := by
  induction n using Nat.strongRecOn with
  | _ n ih =>
    rw [digitsLE_pos h]
    by_cases hq : n / 26 = 0
    · rw [hq, digitsLE_zero]
      have hn : n % 26 = n := by omega
      simp only [List.getLast?_singleton, ne_eq, Option.some.injEq]
      rw [hn]
      exact digitChar_ne_zero n (by omega) h
    · have := ih (n / 26) (by omega) hq
      rw [digitsLE_pos hq] at this ⊢
      rw [List.getLast?_cons_cons]
      exact this

theorem digitsLE_upper (n : Nat) : ∀ c ∈ digitsLE n, c.toUpper = c := by
  induction n using Nat.strongRecOn with
  | _ n ih =>
    by_cases h : n = 0
    · subst h; rw [digitsLE_zero]; simp
    · rw [digitsLE_pos h]
      intro c hc
      cases hc with
      | head => exact digitChar_upper _ (by omega)
      | tail _ hc' => exact ih (n / 26) (by omega) c hc'

theorem encode_eq (input : List UInt8) :
    encode input = List.replicate (36 - (digitsLE (fromBE input)).length) '8' ++ (digitsLE (fromBE input)).reverse := by
  unfold LemoModel.Base26.encode
  simp only [List.reverse_append, List.reverse_replicate]

theorem encode_upper (input : List UInt8) : (encode input).map Char.toUpper = encode input := by
  have : ∀ c ∈ encode input, Char.toUpper c = id c := by
    intro c hc
    rw [encode_eq] at hc
    rcases List.mem_append.mp hc with h | h
    · have := (List.mem_replicate.mp h).2
      subst this; decide
    · exact digitsLE_upper _ c (List.mem_reverse.mp h)
  rw [List.map_congr_left this, List.map_id]

/-- `base26.Decode ∘ base26.Encode` strips the leading zero bytes (the number is what is encoded) -/
theorem decode_encode (input : List UInt8) : decode (encode input) = stripZ input := by
  rw [encode_eq]
  unfold LemoModel.Base26.decode
  simp only
  rw [List.dropWhile_append, List.dropWhile_replicate]
  simp only [beq_self_eq_true, if_true, List.isEmpty_nil]
  have hdrop : List.dropWhile (fun x => x == '8') (digitsLE (fromBE input)).reverse = (digitsLE (fromBE input)).reverse := by
    by_cases h0 : fromBE input = 0
    · rw [h0, digitsLE_zero]; rfl
    · have hl := digitsLE_last _ h0
      rw [List.getLast?_eq_head?_reverse] at hl
      match hm : (digitsLE (fromBE input)).reverse, hl with
      | [], _ => rfl
      | x :: t, hl =>
        have : x ≠ '8' := by simpa using hl
        rw [List.dropWhile_cons]; simp [this]
  rw [hdrop, List.foldl_reverse, foldr_digits, Int.natAbs_natCast, toBE_fromBE_strip]

end LemoProofs.Base26Lemmas

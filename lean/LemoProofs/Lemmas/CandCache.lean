/-
  Helper lemmas for LemoProofs/C10Cache.lean: Go `copy` on lists, windows of a buffer, little-endian heads,
  the association-list map, RLP round trip of store.Candidate.
-/
import LemoModel.CandCache
import LemoProofs.C14
namespace LemoProofs.CandCacheLemmas
open LemoModel.Rlp LemoModel.RlpSchema LemoModel.CandCache LemoProofs.RlpBytes

/-! ### copy -/

theorem copyAt_length (dst : List UInt8) (off : Nat) (src : List UInt8) (h : off ≤ dst.length) :
    (copyAt dst off src).length = dst.length := by
  unfold copyAt
  simp only [List.length_append, List.length_take, List.length_drop]
  omega

theorem copyAt_getElem? (dst : List UInt8) (off : Nat) (src : List UInt8) (h : off ≤ dst.length) (i : Nat) :
    (copyAt dst off src)[i]? = if off ≤ i ∧ i < off + src.length ∧ i < dst.length then src[i - off]? else dst[i]? := by
  unfold copyAt
  have hm : min off dst.length = off := Nat.min_eq_left h
  rcases Nat.lt_or_ge i off with h1 | h1
  · rw [List.append_assoc, List.getElem?_append_left (by rw [List.length_take, hm]; exact h1)]
    rw [List.getElem?_take, if_pos h1, if_neg (by omega)]
  · rw [List.append_assoc, List.getElem?_append_right (by rw [List.length_take, hm]; exact h1)]
    simp only [List.length_take, hm]
    by_cases h2 : i - off < min (dst.length - off) src.length
    · rw [List.getElem?_append_left (by rw [List.length_take]; exact h2), List.getElem?_take,
        if_pos (by omega), if_pos (by omega)]
    · rw [List.getElem?_append_right (by rw [List.length_take]; omega), List.getElem?_drop]
      simp only [List.length_take]
      by_cases h3 : src.length ≤ dst.length - off
      · rw [if_neg (by omega)]; congr 1; omega
      · rw [List.getElem?_eq_none (by omega)]
        split
        · omega
        · rw [List.getElem?_eq_none (by omega)]

/-- bytes outside `[off, off+len(src))` are untouched -/
theorem copyAt_frame (dst : List UInt8) (off : Nat) (src : List UInt8) (h : off ≤ dst.length) (i : Nat)
    (hi : i < off ∨ off + src.length ≤ i) : (copyAt dst off src)[i]? = dst[i]? := by
  rw [copyAt_getElem? dst off src h, if_neg (by omega)]

/-! ### windows `(l.drop a).take k` -/

theorem win_getElem? (l : List UInt8) (a k j : Nat) :
    ((l.drop a).take k)[j]? = if j < k then l[a + j]? else none := by
  rw [List.getElem?_take, List.getElem?_drop]

theorem win_congr {l l' : List UInt8} {a k : Nat} (h : ∀ i, a ≤ i → i < a + k → l'[i]? = l[i]?) :
    (l'.drop a).take k = (l.drop a).take k := by
  apply List.ext_getElem?
  intro j
  rw [win_getElem?, win_getElem?]
  split
  · exact h _ (by omega) (by omega)
  · rfl

/-- the window just written by `copyAt` is the source -/
theorem copyAt_win (dst : List UInt8) (off : Nat) (src : List UInt8) (h : off + src.length ≤ dst.length) :
    ((copyAt dst off src).drop off).take src.length = src := by
  apply List.ext_getElem?
  intro j
  rw [win_getElem?, copyAt_getElem? dst off src (by omega)]
  split
  · rw [if_pos (by omega)]; congr 1; omega
  · rw [List.getElem?_eq_none (by omega)]

theorem win_length {l : List UInt8} {a k : Nat} {w : List UInt8} (h : (l.drop a).take k = w) (hw : w.length = k) (hk : 0 < k) :
    a + k ≤ l.length := by
  have := congrArg List.length h
  rw [List.length_take, List.length_drop, hw] at this
  omega

theorem win_take (l : List UInt8) (a k j : Nat) (h : j ≤ k) : ((l.drop a).take k).take j = (l.drop a).take j := by
  rw [List.take_take, Nat.min_eq_left h]

theorem win_drop (l : List UInt8) (a k j : Nat) : ((l.drop a).take k).drop j = (l.drop (a + j)).take (k - j) := by
  rw [List.drop_take, List.drop_drop]

/-! ### little-endian uint32 -/

theorem rd32_le32 (n : Nat) (h : n < 4294967296) (rest : List UInt8) : rd32 (le32 n ++ rest) = n := by
  unfold le32 rd32
  simp only [List.cons_append, List.nil_append]
  rw [u8_ofNat_toNat (by omega), u8_ofNat_toNat (by omega), u8_ofNat_toNat (by omega), u8_ofNat_toNat (by omega)]
  omega

theorem le32_length (n : Nat) : (le32 n).length = 4 := rfl

theorem encHead_length (p : Pos) : (encHead p).length = 8 := rfl

theorem decHead_encHead (p : Pos) (h1 : p.pos < 4294967296) (h2 : p.len < 4294967296) (rest : List UInt8) :
    decHead (encHead p ++ rest) = p := by
  unfold decHead encHead
  have e1 : rd32 (le32 p.pos ++ le32 p.len ++ rest) = p.pos := by
    rw [List.append_assoc]; exact rd32_le32 _ h1 _
  have e2 : (le32 p.pos ++ le32 p.len ++ rest).drop 4 = le32 p.len ++ rest := by
    rw [List.append_assoc, List.drop_left' (le32_length _)]
  rw [e1, e2, rd32_le32 _ h2]

/-! ### the map -/

theorem mapSet_of_lookup_none : ∀ (m : PosMap) (a : Addr) (p : Pos), lookup m a = none → mapSet m a p = m ++ [(a, p)]
  | [], _, _, _ => rfl
  | (k, v) :: r, a, p, h => by
    unfold lookup at h
    unfold mapSet
    by_cases hk : k = a
    · rw [if_pos hk] at h; cases h
    · rw [if_neg hk] at h
      rw [if_neg hk, mapSet_of_lookup_none r a p h]; rfl

theorem lookup_append_none : ∀ (m : PosMap) (a b : Addr) (p : Pos), lookup m a = none → b ≠ a → lookup (m ++ [(b, p)]) a = none
  | [], a, b, p, _, hb => by simp [lookup, hb]
  | (k, v) :: r, a, b, p, h, hb => by
    unfold lookup at h
    by_cases hk : k = a
    · rw [if_pos hk] at h; cases h
    · rw [if_neg hk] at h
      simp only [List.cons_append, lookup, if_neg hk]
      exact lookup_append_none r a b p h hb

/-! ### RLP of a candidate -/

theorem decodeCand_encodeCand (a : Addr) (t : Nat) (ha : a.length = 20) (hl : (encodeCand a t).length < 2 ^ 64) :
    decodeCand (encodeCand a t) = some (a, t) := by
  unfold decodeCand encodeCand
  rw [LemoProofs.C14.decode_encode _ hl]
  have hz := LemoProofs.RlpSchemaLemmas.noLeadZero_toBE t
  simp [candItem, candSchema, decodeS, decodeFields, ha, hz, fromBE_toBE]

end LemoProofs.CandCacheLemmas

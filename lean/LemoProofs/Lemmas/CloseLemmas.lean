/-
  C15 — mutual-exclusion invariant of `Peer.Close` (LemoModel.Frame.Close) under the mutex.
-/
import LemoModel.Frame
namespace LemoProofs.CloseLemmas
open LemoModel.Frame.Close

theorem upd_same (f : Nat → PC) (i : Nat) (v : PC) : upd f i v i = v := by
  simp [upd]

theorem upd_other (f : Nat → PC) {i j : Nat} (v : PC) (h : j ≠ i) : upd f i v j = f j := by
  simp [upd, h]

/-- a closer is inside the critical section -/
def InCS (p : PC) : Prop := p = .inCheck ∨ p = .willClose ∨ p = .willUnlock

structure Inv (s : St) : Prop where
  noPanic : s.panicked = false
  cnt : s.closes = if s.closed then 1 else 0
  hold : ∀ i, InCS (s.pc i) ↔ s.holder = some i
  wc : ∀ i, s.pc i = .willClose → s.closed = false
  fin : ∀ i, (s.pc i = .done ∨ s.pc i = .willUnlock) → s.closed = true

theorem init_inv : Inv init := by
  refine ⟨rfl, rfl, ?_, ?_, ?_⟩
  · intro i
    simp [init, InCS]
  · intro i h; simp [init] at h
  · intro i h; simp [init] at h

/-- at most one closer is in the critical section -/
theorem cs_unique {s : St} (h : Inv s) {i j : Nat} (hi : InCS (s.pc i)) (hj : InCS (s.pc j)) : i = j := by
  have a := (h.hold i).mp hi
  have b := (h.hold j).mp hj
  rw [a] at b
  exact Option.some.inj b

theorem step_inv (s : St) (i : Nat) (h : Inv s) : Inv (step true s i) := by
  unfold step
  rw [h.noPanic]
  simp only [Bool.false_eq_true, if_false, if_true]
  cases hpc : s.pc i with
  | start =>
    simp only
    by_cases hh : s.holder = none
    · rw [if_pos hh]
      refine ⟨rfl, h.cnt, ?_, ?_, ?_⟩
      · intro j
        try dsimp only
        by_cases hj : j = i
        · subst hj
          simp [upd_same, InCS]
        · simp only [upd_other _ _ hj]
          constructor
          · intro hc
            have := (h.hold j).mp hc
            rw [hh] at this; cases this
          · intro hc
            exact absurd (Option.some.inj hc).symm hj
      · intro j hw
        try dsimp only at hw ⊢
        by_cases hj : j = i
        · subst hj; simp [upd_same] at hw
        · rw [upd_other _ _ hj] at hw; exact h.wc j hw
      · intro j hd
        try dsimp only at hd ⊢
        by_cases hj : j = i
        · subst hj; simp [upd_same] at hd
        · rw [upd_other _ _ hj] at hd; exact h.fin j hd
    · rw [if_neg hh]; exact h
  | inCheck =>
    simp only
    have hi : s.holder = some i := (h.hold i).mp (Or.inl hpc)
    by_cases hc : s.closed = true
    · rw [if_pos hc]
      refine ⟨rfl, h.cnt, ?_, ?_, ?_⟩
      · intro j
        try dsimp only
        by_cases hj : j = i
        · subst hj
          simp [upd_same, InCS, hi]
        · simp only [upd_other _ _ hj]
          exact h.hold j
      · intro j hw
        try dsimp only at hw ⊢
        by_cases hj : j = i
        · subst hj; simp [upd_same] at hw
        · rw [upd_other _ _ hj] at hw; exact h.wc j hw
      · intro j hd
        try dsimp only at hd ⊢
        by_cases hj : j = i
        · exact hc
        · rw [upd_other _ _ hj] at hd; exact h.fin j hd
    · rw [if_neg hc]
      have hcf : s.closed = false := by
        cases hb : s.closed with
        | true => exact absurd hb hc
        | false => rfl
      refine ⟨rfl, h.cnt, ?_, ?_, ?_⟩
      · intro j
        try dsimp only
        by_cases hj : j = i
        · subst hj
          simp [upd_same, InCS, hi]
        · simp only [upd_other _ _ hj]
          exact h.hold j
      · intro j _
        try dsimp only
        exact hcf
      · intro j hd
        try dsimp only at hd ⊢
        by_cases hj : j = i
        · subst hj; simp [upd_same] at hd
        · rw [upd_other _ _ hj] at hd; exact h.fin j hd
  | willClose =>
    simp only
    have hcf : s.closed = false := h.wc i hpc
    have hi : s.holder = some i := (h.hold i).mp (Or.inr (Or.inl hpc))
    rw [hcf]
    simp only [Bool.false_eq_true, if_false]
    refine ⟨rfl, ?_, ?_, ?_, ?_⟩
    · have := h.cnt
      rw [hcf] at this
      simp only [Bool.false_eq_true, if_false] at this
      simp [this]
    · intro j
      try dsimp only
      by_cases hj : j = i
      · subst hj
        simp [upd_same, InCS, hi]
      · simp only [upd_other _ _ hj]
        exact h.hold j
    · intro j hw
      try dsimp only at hw ⊢
      by_cases hj : j = i
      · subst hj; simp [upd_same] at hw
      · rw [upd_other _ _ hj] at hw
        have : j = i := cs_unique h (Or.inr (Or.inl hw)) (Or.inr (Or.inl hpc))
        exact absurd this hj
    · intro j _
      first | rfl | (dsimp only)
  | willUnlock =>
    simp only
    have hi : s.holder = some i := (h.hold i).mp (Or.inr (Or.inr hpc))
    refine ⟨rfl, h.cnt, ?_, ?_, ?_⟩
    · intro j
      try dsimp only
      by_cases hj : j = i
      · subst hj
        simp [upd_same, InCS]
      · simp only [upd_other _ _ hj]
        constructor
        · intro hc
          have : j = i := cs_unique h hc (Or.inr (Or.inr hpc))
          exact absurd this hj
        · intro hc; cases hc
    · intro j hw
      try dsimp only at hw ⊢
      by_cases hj : j = i
      · subst hj; simp [upd_same] at hw
      · rw [upd_other _ _ hj] at hw; exact h.wc j hw
    · intro j hd
      try dsimp only at hd ⊢
      by_cases hj : j = i
      · exact h.fin i (Or.inr hpc)
      · rw [upd_other _ _ hj] at hd; exact h.fin j hd
  | done =>
    simp only
    exact h

theorem run_inv : ∀ (sched : List Nat) (s : St), Inv s → Inv (run true s sched) := by
  intro sched
  induction sched with
  | nil => intro s h; exact h
  | cons i rest ih => intro s h; exact ih (step true s i) (step_inv s i h)

end LemoProofs.CloseLemmas

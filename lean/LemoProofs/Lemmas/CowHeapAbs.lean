/-
  C09 (heap refinement, part 2): the array-level heap model `LemoModel.CowTrie` (with the repaired
  `put`, `putG true`) simulates the logical heap machine of `CowHeapL.lean`.

  `HOk h` is the memory-ownership invariant: array 0 is the empty array, every node's children slice
  lies inside an existing array and holds no nil, and **every backing array is referenced by at most
  one node** (`own`).  `labs h` reads a heap as a list of logical nodes.
-/
import LemoProofs.Lemmas.CowHeapL
set_option linter.unusedSimpArgs false
namespace LemoProofs.CowHeapL
open LemoModel.CowTrie

abbrev Arrs := List (List (Option Nat))

def cellsA (arrs : Arrs) (a : Nat) : List (Option Nat) := (arrs[a]?).getD []

theorem cellsOf_eq (h : Heap) (a : Nat) : cellsOf h a = cellsA h.arrs a := rfl

/-- the slice `(a, len)` holds exactly the ids `ks` -/
def Slice (arrs : Arrs) (a len : Nat) (ks : List Nat) : Prop :=
  (cellsA arrs a).take len = ks.map some ∧ ks.length = len

def kidsD (arrs : Arrs) (n : Node) : List Nat := ((cellsA arrs n.arr).take n.len).filterMap id

def absN (arrs : Arrs) (n : Node) : LN := ⟨n.key, n.dye, n.data, n.terminal, kidsD arrs n⟩

def labs (h : Heap) : LHeap := h.nodes.map (absN h.arrs)

structure HOk (h : Heap) : Prop where
  arr0 : h.arrs[0]? = some []
  node : ∀ (id : Nat) (n : Node), h.nodes[id]? = some n → n.arr < h.arrs.length ∧ ∃ ks, Slice h.arrs n.arr n.len ks
  own : ∀ (i j : Nat) (ni nj : Node), h.nodes[i]? = some ni → h.nodes[j]? = some nj → ni.arr = nj.arr → i = j ∨ ni.arr = 0

theorem filterMap_id_map_some (ks : List Nat) : (ks.map some).filterMap id = ks := by
  induction ks with
  | nil => rfl
  | cons a t ih => simp [ih]

theorem Slice.kidsD {arrs : Arrs} {n : Node} {ks : List Nat} (hs : Slice arrs n.arr n.len ks) :
    kidsD arrs n = ks := by
  unfold CowHeapL.kidsD; rw [hs.1, filterMap_id_map_some]

theorem seqCells_map_some (ks : List Nat) : seqCells (ks.map some) = .ok ks := by
  induction ks with
  | nil => rfl
  | cons a t ih => simp [seqCells, ih, bind]

theorem Slice.kids {h : Heap} {n : Node} {ks : List Nat} (hs : Slice h.arrs n.arr n.len ks) :
    kids h n = .ok ks := by
  unfold LemoModel.CowTrie.kids
  rw [cellsOf_eq, hs.1]
  simp [hs.2, seqCells_map_some]

theorem Slice.len_le {arrs : Arrs} {a len : Nat} {ks : List Nat} (hs : Slice arrs a len ks) :
    len ≤ (cellsA arrs a).length := by
  have := congrArg List.length hs.1
  simp [hs.2] at this
  omega

theorem labs_length (h : Heap) : (labs h).length = h.nodes.length := by simp [labs]

theorem labs_get (h : Heap) (id : Nat) : (labs h)[id]? = (h.nodes[id]?).map (absN h.arrs) := by
  simp [labs]

theorem HOk.kids {h : Heap} (hok : HOk h) {id : Nat} {n : Node} (hn : h.nodes[id]? = some n) :
    kids h n = .ok (kidsD h.arrs n) := by
  obtain ⟨_, ks, hs⟩ := hok.node id n hn
  rw [hs.kidsD]; exact hs.kids

theorem HOk.slice {h : Heap} (hok : HOk h) {id : Nat} {n : Node} (hn : h.nodes[id]? = some n) :
    Slice h.arrs n.arr n.len (kidsD h.arrs n) := by
  obtain ⟨_, ks, hs⟩ := hok.node id n hn
  rw [hs.kidsD]; exact hs

theorem cellsA_zero {h : Heap} (hok : HOk h) : cellsA h.arrs 0 = [] := by
  simp [cellsA, hok.arr0]

theorem arrs_pos {h : Heap} (hok : HOk h) : 0 < h.arrs.length := by
  have := hok.arr0
  cases hh : h.arrs with
  | nil => rw [hh] at this; simp at this
  | cons a t => simp

/-! ### two general preservation lemmas -/

/-- allocation of a node whose slice is empty-at-array-0 or lives in an array no old node can reference -/
theorem HOk_alloc {h h2 : Heap} (hok : HOk h) (hn : h2.nodes = h.nodes) (hlen : h.arrs.length ≤ h2.arrs.length)
    (frame : ∀ b, b < h.arrs.length → cellsA h2.arrs b = cellsA h.arrs b)
    (n' : Node) (ks' : List Nat) (hs : Slice h2.arrs n'.arr n'.len ks')
    (ha : ∀ (j : Nat) (nj : Node), h.nodes[j]? = some nj → nj.arr = n'.arr → n'.arr = 0) (har : n'.arr < h2.arrs.length) :
    HOk (allocNode h2 n').1 ∧
    labs (allocNode h2 n').1 = labs h ++ [⟨n'.key, n'.dye, n'.data, n'.terminal, ks'⟩] ∧
    (allocNode h2 n').2 = h.nodes.length := by
  have hp := arrs_pos hok
  have h0 : cellsA h2.arrs 0 = [] := by rw [frame 0 hp]; exact cellsA_zero hok
  have h0' : h2.arrs[0]? = some [] := by
    have h1 : 0 < h2.arrs.length := by omega
    have := h0
    unfold cellsA at this
    rw [List.getElem?_eq_getElem h1] at this ⊢
    simpa using this
  have oldslice : ∀ (id : Nat) (n : Node), h.nodes[id]? = some n → Slice h2.arrs n.arr n.len (kidsD h.arrs n) := by
    intro id n hid
    have hs0 := hok.slice hid
    have hr := (hok.node id n hid).1
    unfold Slice at *
    rw [frame _ hr]; exact hs0
  refine ⟨⟨?_, ?_, ?_⟩, ?_, ?_⟩
  · simpa [allocNode] using h0'
  · intro id n hid
    simp only [allocNode, hn] at hid ⊢
    rw [List.getElem?_append] at hid
    split at hid
    · exact ⟨by have := (hok.node id n hid).1; omega, _, oldslice id n hid⟩
    · have : n' = n := by
        rename_i hlt
        have : id - h.nodes.length = 0 ∨ id - h.nodes.length > 0 := by omega
        rcases this with e | e
        · rw [e] at hid; simpa using hid
        · rw [List.getElem?_eq_none (by simp; omega)] at hid; cases hid
      subst this
      exact ⟨har, ks', hs⟩
  · intro i j ni nj hi hj he
    simp only [allocNode, hn] at hi hj
    rw [List.getElem?_append] at hi hj
    split at hi <;> split at hj
    · exact hok.own i j ni nj hi hj he
    · rename_i h1 h2'
      have e : nj = n' := by
        have : j - h.nodes.length = 0 ∨ j - h.nodes.length > 0 := by omega
        rcases this with e | e
        · rw [e] at hj; simpa using hj.symm
        · rw [List.getElem?_eq_none (by simp; omega)] at hj; cases hj
      subst e
      right; rw [he]; exact ha i ni hi he
    · rename_i h1 h2'
      have e : ni = n' := by
        have : i - h.nodes.length = 0 ∨ i - h.nodes.length > 0 := by omega
        rcases this with e | e
        · rw [e] at hi; simpa using hi.symm
        · rw [List.getElem?_eq_none (by simp; omega)] at hi; cases hi
      subst e
      right; exact ha j nj hj he.symm
    · rename_i h1 h2'
      left
      have : i - h.nodes.length = 0 := by
        by_cases e : i - h.nodes.length = 0
        · exact e
        · rw [List.getElem?_eq_none (by simp; omega)] at hi; cases hi
      have : j - h.nodes.length = 0 := by
        by_cases e : j - h.nodes.length = 0
        · exact e
        · rw [List.getElem?_eq_none (by simp; omega)] at hj; cases hj
      omega
  · simp only [labs, allocNode, hn, List.map_append, List.map_cons, List.map_nil]
    congr 1
    · apply List.map_congr_left
      intro n hmem
      obtain ⟨id, hlt, hid⟩ := List.getElem_of_mem hmem
      have hid' : h.nodes[id]? = some n := by rw [List.getElem?_eq_getElem hlt, hid]
      unfold absN
      congr 1
      rw [(oldslice id n hid').kidsD]
    · simp [absN, hs.kidsD]
  · simp [allocNode, hn]


/-- node `m` gets a new record whose slice is its old array (rewritten) or an array no old node references;
    no other array changes (array 0 never changes) -/
theorem HOk_update {h h2 : Heap} (hok : HOk h) {m : Nat} {cn : Node} (hm : h.nodes[m]? = some cn)
    (hn : h2.nodes = h.nodes) (hlen : h.arrs.length ≤ h2.arrs.length)
    (n' : Node) (ks' : List Nat) (hs : Slice h2.arrs n'.arr n'.len ks')
    (ha : n'.arr = cn.arr ∨ h.arrs.length ≤ n'.arr) (har : n'.arr < h2.arrs.length)
    (frame : ∀ b, b < h.arrs.length → (b ≠ n'.arr ∨ b = 0) → cellsA h2.arrs b = cellsA h.arrs b) :
    HOk (setNode h2 m n') ∧
    labs (setNode h2 m n') = (labs h).set m ⟨n'.key, n'.dye, n'.data, n'.terminal, ks'⟩ := by
  have hp := arrs_pos hok
  have hmlt : m < h.nodes.length := by
    by_cases e : m < h.nodes.length
    · exact e
    · rw [List.getElem?_eq_none (by omega)] at hm; cases hm
  have h0 : cellsA h2.arrs 0 = [] := by rw [frame 0 hp (Or.inr rfl)]; exact cellsA_zero hok
  have h0' : h2.arrs[0]? = some [] := by
    have h1 : 0 < h2.arrs.length := by omega
    have := h0
    unfold cellsA at this
    rw [List.getElem?_eq_getElem h1] at this ⊢
    simpa using this
  have oldslice : ∀ (id : Nat) (n : Node), id ≠ m → h.nodes[id]? = some n →
      Slice h2.arrs n.arr n.len (kidsD h.arrs n) := by
    intro id n hne hid
    have hs0 := hok.slice hid
    have hr := (hok.node id n hid).1
    unfold Slice at *
    rw [frame _ hr]
    · exact hs0
    · by_cases e : n.arr = n'.arr
      · rcases ha with a1 | a1
        · rcases hok.own id m n cn hid hm (e.trans a1) with x | x
          · exact absurd x hne
          · exact Or.inr x
        · omega
      · exact Or.inl e
  have getset : ∀ (id : Nat) (n : Node), (h.nodes.set m n')[id]? = some n →
      (id = m ∧ n = n') ∨ (id ≠ m ∧ h.nodes[id]? = some n) := by
    intro id n hid
    rw [List.getElem?_set] at hid
    split at hid
    · rename_i e
      simp only [hmlt, if_true, Option.some.injEq] at hid
      exact Or.inl ⟨e.symm, hid.symm⟩
    · rename_i e
      exact Or.inr ⟨fun x => e x.symm, hid⟩
  refine ⟨⟨?_, ?_, ?_⟩, ?_⟩
  · simpa [setNode] using h0'
  · intro id n hid
    simp only [setNode, hn] at hid ⊢
    rcases getset id n hid with ⟨_, rfl⟩ | ⟨hne, hid'⟩
    · exact ⟨har, ks', hs⟩
    · exact ⟨by have := (hok.node id n hid').1; omega, _, oldslice id n hne hid'⟩
  · intro i j ni nj hi hj he
    simp only [setNode, hn] at hi hj
    rcases getset i ni hi with ⟨rfl, rfl⟩ | ⟨hnei, hi'⟩ <;> rcases getset j nj hj with ⟨rfl, rfl⟩ | ⟨hnej, hj'⟩
    · left; rfl
    · have := (hok.node j nj hj').1
      rcases ha with a1 | a1
      · rcases hok.own j i nj cn hj' hm (he.symm.trans a1) with x | x
        · exact absurd x hnej
        · right; omega
      · omega
    · have := (hok.node i ni hi').1
      rcases ha with a1 | a1
      · rcases hok.own i j ni cn hi' hm (he.trans a1) with x | x
        · exact absurd x hnei
        · right; exact x
      · omega
    · exact hok.own i j ni nj hi' hj' he
  · simp only [labs, setNode, hn, List.map_set]
    have e1 : absN h2.arrs n' = ⟨n'.key, n'.dye, n'.data, n'.terminal, ks'⟩ := by simp [absN, hs.kidsD]
    rw [e1]
    apply List.ext_getElem?
    intro i
    rw [List.getElem?_set, List.getElem?_set]
    split
    · simp
    · rename_i e
      rw [List.getElem?_map, List.getElem?_map]
      cases hi : h.nodes[i]? with
      | none => rfl
      | some ni =>
        simp only [Option.map_some, Option.some.injEq]
        unfold absN
        congr 1
        rw [(oldslice i ni (fun x => e x.symm) hi).kidsD]


/-! ### the primitives -/

theorem cellsA_set (arrs : Arrs) (a : Nat) (c : List (Option Nat)) (b : Nat) :
    cellsA (arrs.set a c) b = if b = a ∧ a < arrs.length then c else cellsA arrs b := by
  unfold cellsA
  rw [List.getElem?_set]
  by_cases e : a = b
  · subst e
    by_cases l : a < arrs.length
    · simp [l]
    · simp [l]
  · have : ¬ (b = a ∧ a < arrs.length) := fun x => e x.1.symm
    simp [e, this]

theorem cellsA_append (arrs : Arrs) (c : List (Option Nat)) (b : Nat) :
    cellsA (arrs ++ [c]) b = if b = arrs.length then c else cellsA arrs b := by
  unfold cellsA
  grind

theorem cellsA_in_range {arrs : Arrs} {a : Nat} (h : 0 < (cellsA arrs a).length) : a < arrs.length := by
  by_cases e : a < arrs.length
  · exact e
  · unfold cellsA at h
    rw [List.getElem?_eq_none (by omega)] at h
    simp at h

theorem take_set_succ (cells : List (Option Nat)) (len x : Nat) (hc : len < cells.length) :
    (cells.set len (some x)).take (len + 1) = cells.take len ++ [some x] := by
  apply List.ext_getElem?
  intro i
  grind

theorem take_grow (cells r : List (Option Nat)) (len x : Nat) (hc : (cells.take len).length = len) :
    (cells.take len ++ [some x] ++ r).take (len + 1) = cells.take len ++ [some x] := by
  rw [List.take_append_of_le_length (by rw [List.length_append, hc]; simp)]
  exact List.take_of_length_le (by rw [List.length_append, hc]; simp)

theorem goAppend_spec {h : Heap} (h0 : cellsA h.arrs 0 = []) {a len : Nat} {ks : List Nat}
    (hs : Slice h.arrs a len ks) (x : Nat) :
    (goAppend h a len x).1.nodes = h.nodes ∧ h.arrs.length ≤ (goAppend h a len x).1.arrs.length ∧
    Slice (goAppend h a len x).1.arrs (goAppend h a len x).2.1 (goAppend h a len x).2.2 (ks ++ [x]) ∧
    (((goAppend h a len x).2.1 = a ∧ len < (cellsA h.arrs a).length) ∨ h.arrs.length ≤ (goAppend h a len x).2.1) ∧
    (goAppend h a len x).2.1 < (goAppend h a len x).1.arrs.length ∧
    (∀ b, b < h.arrs.length → (b ≠ (goAppend h a len x).2.1 ∨ b = 0) →
      cellsA (goAppend h a len x).1.arrs b = cellsA h.arrs b) := by
  obtain ⟨hs1, hs2⟩ := hs
  have htl : ((cellsA h.arrs a).take len).length = len := by rw [hs1]; simp [hs2]
  by_cases hc : len < (cellsA h.arrs a).length
  · have e : goAppend h a len x = (setCell h a len x, a, len + 1) := by
      unfold goAppend; simp only [cellsOf_eq, hc, if_true]
    rw [e]
    have ha : a < h.arrs.length := cellsA_in_range (by omega)
    have hne0 : a ≠ 0 := by
      intro e; rw [e, h0] at hc; simp at hc
    have ea : (setCell h a len x).arrs = h.arrs.set a ((cellsA h.arrs a).set len (some x)) := rfl
    refine ⟨rfl, by rw [ea]; simp, ⟨?_, by simp [hs2]⟩, Or.inl ⟨rfl, hc⟩, by rw [ea]; simpa using ha, ?_⟩
    · show List.take (len + 1) (cellsA (setCell h a len x).arrs a) = _
      rw [ea, cellsA_set, if_pos ⟨rfl, ha⟩, take_set_succ _ _ _ hc, List.map_append, ← hs1]
      rfl
    · intro b _ hb
      show cellsA (setCell h a len x).arrs b = _
      rw [ea, cellsA_set]
      have : ¬ (b = a ∧ a < h.arrs.length) := by
        rintro ⟨e, _⟩
        rcases hb with x | x
        · exact x e
        · exact hne0 (e ▸ x)
      rw [if_neg this]
  · have e : goAppend h a len x = ({ h with arrs := h.arrs ++ [(cellsA h.arrs a).take len ++ [some x] ++
          List.replicate ((if (cellsA h.arrs a).length = 0 then 1 else 2 * (cellsA h.arrs a).length) - len - 1) none] },
          h.arrs.length, len + 1) := by
      unfold goAppend; simp only [cellsOf_eq, hc, if_false, allocArr]; rfl
    rw [e]
    refine ⟨rfl, by simp, ⟨?_, by simp [hs2]⟩, Or.inr (Nat.le_refl _), by simp, ?_⟩
    · show List.take (len + 1) (cellsA (h.arrs ++ [_]) h.arrs.length) = _
      rw [cellsA_append, if_pos rfl, take_grow _ _ _ _ htl, List.map_append, ← hs1]
      rfl
    · intro b hb _
      show cellsA (h.arrs ++ [_]) b = _
      rw [cellsA_append, if_neg (by omega)]


theorem ins_cells (cells : List (Option Nat)) (ks : List Nat) (x pos : Nat) (hp : pos ≤ ks.length)
    (h : cells.take (ks.length + 1) = (ks ++ [x]).map some) :
    (cells.take pos ++ [some x] ++ (cells.drop pos).take (ks.length - pos) ++ cells.drop (ks.length + 1)).take (ks.length + 1)
      = (insAt ks pos x).map some := by
  have hl : ks.length + 1 ≤ cells.length := by
    have := congrArg List.length h
    simp at this; omega
  have e1 : cells.take pos = (ks.take pos).map some := by
    have : cells.take pos = (cells.take (ks.length + 1)).take pos := by
      rw [List.take_take]; congr 1; omega
    rw [this, h, List.map_append, List.take_append_of_le_length (by simp; omega), List.map_take]
  have e2 : (cells.drop pos).take (ks.length - pos) = (ks.drop pos).map some := by
    have : (cells.drop pos).take (ks.length - pos) = ((cells.take (ks.length + 1)).drop pos).take (ks.length - pos) := by
      rw [List.drop_take, List.take_take]; congr 1; omega
    rw [this, h, List.map_append, List.drop_append_of_le_length (by simp; omega),
      List.take_append_of_le_length (by simp), ← List.map_drop]
    exact List.take_of_length_le (by simp)
  rw [e1, e2]
  unfold insAt
  rw [List.take_append_of_le_length (by simp; omega)]
  rw [List.take_of_length_le (by simp; omega)]
  simp

theorem sliceInsert_spec {h : Heap} (h0 : cellsA h.arrs 0 = []) {a len : Nat} {ks : List Nat}
    (hs : Slice h.arrs a len ks) (pos x : Nat) (hpos : pos ≤ len) :
    ∃ h' a', sliceInsert h a len pos x = .ok (h', a', len + 1) ∧
      h'.nodes = h.nodes ∧ h.arrs.length ≤ h'.arrs.length ∧ Slice h'.arrs a' (len + 1) (insAt ks pos x) ∧
      (a' = a ∨ h.arrs.length ≤ a') ∧ a' < h'.arrs.length ∧
      (∀ b, b < h.arrs.length → (b ≠ a' ∨ b = 0) → cellsA h'.arrs b = cellsA h.arrs b) := by
  obtain ⟨g1, g2, g3, g4, g5, g6⟩ := goAppend_spec h0 hs x
  have hnp : ¬ pos > len := by omega
  unfold sliceInsert
  simp only [hnp, if_false]
  generalize goAppend h a len x = r at *
  obtain ⟨h1, a1, l1⟩ := r
  simp only at g1 g2 g3 g4 g5 g6 ⊢
  have hl1 : l1 = len + 1 := by have := g3.2; have h2 := hs.2; rw [List.length_append] at this; simp at this; omega
  subst hl1
  refine ⟨_, _, rfl, ?_, ?_, ⟨?_, ?_⟩, ?_, ?_, ?_⟩
  · exact g1
  · simpa [setCells] using g2
  · show List.take (len + 1) (cellsA (h1.arrs.set a1 _) a1) = _
    rw [cellsA_set, if_pos ⟨rfl, g5⟩, cellsOf_eq]
    have := ins_cells (cellsA h1.arrs a1) ks x pos (by rw [hs.2]; exact hpos) (by rw [hs.2]; exact g3.1)
    rw [hs.2] at this
    exact this
  · simp [insAt, hs.2]; omega
  · rcases g4 with ⟨x, _⟩ | x
    · exact Or.inl x
    · exact Or.inr x
  · simpa [setCells] using g5
  · intro b hb hne
    show cellsA (h1.arrs.set a1 _) b = _
    rw [cellsA_set]
    by_cases e : b = a1
    · have hb0 : b = 0 := by
        rcases hne with x | x
        · exact absurd e x
        · exact x
      -- array 0 is never the target of an in-place insert
      exfalso
      rcases g4 with ⟨x, y⟩ | x
      · rw [x] at e; rw [← e, hb0, h0] at y; simp at y
      · omega
    · have : ¬ (b = a1 ∧ a1 < h1.arrs.length) := fun x => e x.1
      rw [if_neg this]
      exact g6 b hb (Or.inl e)

theorem copySlice_spec {h : Heap} (hp : 0 < h.arrs.length) {a len : Nat} {ks : List Nat}
    (hs : Slice h.arrs a len ks) :
    (copySlice h a len).1.nodes = h.nodes ∧ h.arrs.length ≤ (copySlice h a len).1.arrs.length ∧
    Slice (copySlice h a len).1.arrs (copySlice h a len).2.1 (copySlice h a len).2.2 ks ∧
    ((copySlice h a len).2.1 = 0 ∧ (copySlice h a len).2.2 = 0 ∨ h.arrs.length ≤ (copySlice h a len).2.1) ∧
    (copySlice h a len).2.1 < (copySlice h a len).1.arrs.length ∧
    (∀ b, b < h.arrs.length → cellsA (copySlice h a len).1.arrs b = cellsA h.arrs b) := by
  by_cases hl : len > 0
  · have e : copySlice h a len = ({ h with arrs := h.arrs ++ [(cellsA h.arrs a).take len] }, h.arrs.length, len) := by
      unfold copySlice; simp only [hl, if_true, allocArr, cellsOf_eq]
    rw [e]
    refine ⟨rfl, by simp, ⟨?_, hs.2⟩, Or.inr (Nat.le_refl _), by simp, ?_⟩
    · show List.take len (cellsA (h.arrs ++ [_]) h.arrs.length) = _
      rw [cellsA_append, if_pos rfl, List.take_take, Nat.min_self]
      exact hs.1
    · intro b hb
      show cellsA (h.arrs ++ [_]) b = _
      rw [cellsA_append, if_neg (by omega)]
  · have e : copySlice h a len = (h, 0, 0) := by
      unfold copySlice; simp only [hl, if_false]
    rw [e]
    have : ks = [] := by
      have := hs.2
      cases ks with
      | nil => rfl
      | cons a t => simp at this; omega
    subst this
    exact ⟨rfl, Nat.le_refl _, ⟨by simp, rfl⟩, Or.inl ⟨rfl, rfl⟩, hp, fun _ _ => rfl⟩

theorem twoKids_spec {h : Heap} (h0 : cellsA h.arrs 0 = []) (hp : 0 < h.arrs.length) {sub childSub : Key} {node childNode : Nat}
    {tk : List Nat} (ht : two sub childSub node childNode = some tk) :
    ∃ h' a', twoKids h sub childSub node childNode = .ok (h', a', 2) ∧
      h'.nodes = h.nodes ∧ h.arrs.length ≤ h'.arrs.length ∧ Slice h'.arrs a' 2 tk ∧
      h.arrs.length ≤ a' ∧ a' < h'.arrs.length ∧
      (∀ b, b < h.arrs.length → cellsA h'.arrs b = cellsA h.arrs b) := by
  unfold two at ht
  unfold twoKids
  split at ht
  · rename_i s0 _ c0 _
    simp only [Option.some.injEq] at ht
    simp only
    generalize hxy : (if s0 < c0 then (node, childNode) else (childNode, node)) = xy
    obtain ⟨x, y⟩ := xy
    have htk : tk = [x, y] := by
      by_cases e : s0 < c0
      · simp only [e, if_true] at ht hxy; cases hxy; exact ht.symm
      · simp only [e, if_false] at ht hxy; cases hxy; exact ht.symm
    have hs0 : Slice h.arrs 0 0 [] := ⟨by simp, rfl⟩
    obtain ⟨g1, g2, g3, g4, g5, g6⟩ := goAppend_spec h0 hs0 x
    generalize goAppend h 0 0 x = r at *
    obtain ⟨h1, a1, l1⟩ := r
    simp only at g1 g2 g3 g4 g5 g6 ⊢
    have ha1 : h.arrs.length ≤ a1 := by
      rcases g4 with ⟨_, y⟩ | x
      · rw [h0] at y; simp at y
      · exact x
    have h10 : cellsA h1.arrs 0 = [] := by rw [g6 0 hp (Or.inr rfl)]; exact h0
    obtain ⟨k1, k2, k3, k4, k5, k6⟩ := goAppend_spec h10 g3 y
    generalize goAppend h1 a1 l1 y = r2 at *
    obtain ⟨h2, a2, l2⟩ := r2
    simp only at k1 k2 k3 k4 k5 k6 ⊢
    have hl2 : l2 = 2 := by have := k3.2; simp at this; omega
    subst hl2
    refine ⟨_, _, rfl, k1.trans g1, by omega, ?_, ?_, k5, ?_⟩
    · rw [htk]; exact k3
    · rcases k4 with ⟨x, _⟩ | x
      · omega
      · omega
    · intro b hb
      have hb2 : b ≠ a2 := by
        rcases k4 with ⟨x, _⟩ | x
        · omega
        · omega
      rw [k6 b (by omega) (Or.inl hb2), g6 b hb (Or.inl (by omega))]
  · cases ht


/-! ### composite steps, at the level of logical nodes -/

theorem nodes_of_labs {h : Heap} {id : Nat} {ln : LN} (hl : (labs h)[id]? = some ln) :
    ∃ n, h.nodes[id]? = some n ∧ absN h.arrs n = ln := by
  rw [labs_get] at hl
  cases hn : h.nodes[id]? with
  | none => rw [hn] at hl; cases hl
  | some n => rw [hn] at hl; exact ⟨n, rfl, by simpa using hl⟩

theorem C_leaf {h : Heap} (hok : HOk h) (k : Key) (d : Nat) (data : Option Data) :
    HOk (allocNode h (leaf k d data)).1 ∧
    labs (allocNode h (leaf k d data)).1 = labs h ++ [lleaf k d data] ∧
    (allocNode h (leaf k d data)).2 = (labs h).length := by
  have := HOk_alloc hok rfl (Nat.le_refl _) (fun _ _ => rfl) (leaf k d data) []
    ⟨by simp [leaf], rfl⟩ (fun _ _ _ _ => rfl) (arrs_pos hok)
  rw [labs_length]
  exact this

/-- `copySlice` of node `id`'s children, then allocation of a node over the copy -/
theorem C_clone {h : Heap} (hok : HOk h) {id : Nat} {n : Node} (hn : h.nodes[id]? = some n) (t : Node) :
    HOk (allocNode (copySlice h n.arr n.len).1
        { t with arr := (copySlice h n.arr n.len).2.1, len := (copySlice h n.arr n.len).2.2 }).1 ∧
    labs (allocNode (copySlice h n.arr n.len).1
        { t with arr := (copySlice h n.arr n.len).2.1, len := (copySlice h n.arr n.len).2.2 }).1
      = labs h ++ [⟨t.key, t.dye, t.data, t.terminal, kidsD h.arrs n⟩] ∧
    (allocNode (copySlice h n.arr n.len).1
        { t with arr := (copySlice h n.arr n.len).2.1, len := (copySlice h n.arr n.len).2.2 }).2 = (labs h).length := by
  obtain ⟨c1, c2, c3, c4, c5, c6⟩ := copySlice_spec (arrs_pos hok) (hok.slice hn)
  have := HOk_alloc hok c1 c2 c6
    { t with arr := (copySlice h n.arr n.len).2.1, len := (copySlice h n.arr n.len).2.2 } _ c3
    (by intro j nj hj he
        rcases c4 with ⟨x, _⟩ | x
        · exact x
        · have := (hok.node j nj hj).1
          have he' : nj.arr = (copySlice h n.arr n.len).2.1 := he
          omega) c5
  rw [labs_length]
  exact this

theorem C_cloneNode {h : Heap} (hok : HOk h) {id : Nat} {n : Node} (hn : h.nodes[id]? = some n) :
    ∃ h1, cloneNode h id = .ok (h1, (labs h).length) ∧ HOk h1 ∧ labs h1 = labs h ++ [absN h.arrs n] := by
  obtain ⟨a, b, c⟩ := C_clone hok hn n
  refine ⟨_, ?_, a, b⟩
  have e : cloneNode h id = .ok (allocNode (copySlice h n.arr n.len).1
      { n with arr := (copySlice h n.arr n.len).2.1, len := (copySlice h n.arr n.len).2.2 }) := by
    unfold cloneNode getNode
    rw [hn]
    rfl
  rw [e]
  congr 1
  exact Prod.ext rfl c

theorem C_append {h : Heap} (hok : HOk h) {m : Nat} {cn : Node} (hm : h.nodes[m]? = some cn) (x : Nat) (t : Node) :
    HOk (setNode (goAppend h cn.arr cn.len x).1 m
        { t with arr := (goAppend h cn.arr cn.len x).2.1, len := (goAppend h cn.arr cn.len x).2.2 }) ∧
    labs (setNode (goAppend h cn.arr cn.len x).1 m
        { t with arr := (goAppend h cn.arr cn.len x).2.1, len := (goAppend h cn.arr cn.len x).2.2 })
      = (labs h).set m ⟨t.key, t.dye, t.data, t.terminal, kidsD h.arrs cn ++ [x]⟩ := by
  obtain ⟨g1, g2, g3, g4, g5, g6⟩ := goAppend_spec (cellsA_zero hok) (hok.slice hm) x
  exact HOk_update hok hm g1 g2
    { t with arr := (goAppend h cn.arr cn.len x).2.1, len := (goAppend h cn.arr cn.len x).2.2 } _ g3
    (by rcases g4 with ⟨x, _⟩ | x
        · exact Or.inl x
        · exact Or.inr x) g5 g6

theorem C_insert {h : Heap} (hok : HOk h) {m : Nat} {cn : Node} (hm : h.nodes[m]? = some cn) (pos x : Nat)
    (hpos : pos ≤ (kidsD h.arrs cn).length) :
    ∃ h2 a, sliceInsert h cn.arr cn.len pos x = .ok (h2, a, cn.len + 1) ∧ ∀ t : Node,
      HOk (setNode h2 m { t with arr := a, len := cn.len + 1 }) ∧
      labs (setNode h2 m { t with arr := a, len := cn.len + 1 })
        = (labs h).set m ⟨t.key, t.dye, t.data, t.terminal, insAt (kidsD h.arrs cn) pos x⟩ := by
  have hsl := hok.slice hm
  obtain ⟨h2, a, e, g1, g2, g3, g4, g5, g6⟩ := sliceInsert_spec (cellsA_zero hok) hsl pos x (by rw [← hsl.2]; exact hpos)
  refine ⟨h2, a, e, fun t => ?_⟩
  exact HOk_update hok hm g1 g2 { t with arr := a, len := cn.len + 1 } _ g3 g4 g5 g6

theorem set_self {α : Type} (l : List α) (i : Nat) (a : α) (h : l[i]? = some a) : l.set i a = l := by
  apply List.ext_getElem?
  intro j
  rw [List.getElem?_set]
  split
  · rename_i e; subst e
    have : i < l.length := by
      by_cases e : i < l.length
      · exact e
      · rw [List.getElem?_eq_none (by omega)] at h; cases h
    rw [if_pos this, h]
  · rfl

theorem C_setCell {h : Heap} (hok : HOk h) {m : Nat} {cn : Node} (hm : h.nodes[m]? = some cn) (i x : Nat)
    (hi : i < cn.len) :
    HOk (setCell h cn.arr i x) ∧
    labs (setCell h cn.arr i x) = (labs h).set m ⟨cn.key, cn.dye, cn.data, cn.terminal, (kidsD h.arrs cn).set i x⟩ := by
  have hsl := hok.slice hm
  have hle := hsl.len_le
  have ha : cn.arr < h.arrs.length := (hok.node m cn hm).1
  have ea : (setCell h cn.arr i x).arrs = h.arrs.set cn.arr ((cellsA h.arrs cn.arr).set i (some x)) := rfl
  have hne0 : cn.arr ≠ 0 := by
    intro e; rw [e, cellsA_zero hok] at hle; simp at hle; omega
  have hsl' : Slice (setCell h cn.arr i x).arrs cn.arr cn.len ((kidsD h.arrs cn).set i x) := by
    refine ⟨?_, by simp [hsl.2]⟩
    rw [ea, cellsA_set, if_pos ⟨rfl, ha⟩, List.take_set, hsl.1, List.map_set]
  have := HOk_update (h2 := setCell h cn.arr i x) hok hm rfl (by rw [ea]; simp) cn _ hsl' (Or.inl rfl)
    (by rw [ea]; simpa using ha)
    (by
      intro b _ hb
      rw [ea, cellsA_set]
      have : ¬ (b = cn.arr ∧ cn.arr < h.arrs.length) := by
        rintro ⟨e, _⟩
        rcases hb with x | x
        · exact x e
        · exact hne0 (e ▸ x)
      rw [if_neg this])
  have e2 : setNode (setCell h cn.arr i x) m cn = setCell h cn.arr i x := by
    show ({ nodes := (setCell h cn.arr i x).nodes.set m cn, arrs := _ } : Heap) = _
    have : (setCell h cn.arr i x).nodes = h.nodes := rfl
    rw [this, set_self _ _ _ hm]
    rfl
  rw [e2] at this
  exact this

/-- a new record for `m` over the same slice -/
theorem C_setRec {h : Heap} (hok : HOk h) {m : Nat} {cn : Node} (hm : h.nodes[m]? = some cn) (t : Node) :
    HOk (setNode h m { t with arr := cn.arr, len := cn.len }) ∧
    labs (setNode h m { t with arr := cn.arr, len := cn.len })
      = (labs h).set m ⟨t.key, t.dye, t.data, t.terminal, kidsD h.arrs cn⟩ :=
  HOk_update hok hm rfl (Nat.le_refl _) { t with arr := cn.arr, len := cn.len } _
    (show Slice h.arrs cn.arr cn.len _ from hok.slice hm) (Or.inl rfl)
    (hok.node m cn hm).1 (fun _ _ _ => rfl)


theorem C_two {h : Heap} (hok : HOk h) {m : Nat} {cn : Node} (hm : h.nodes[m]? = some cn)
    {sub childSub : Key} {node childNode : Nat} {tk : List Nat} (ht : two sub childSub node childNode = some tk) :
    ∃ h2 a, twoKids h sub childSub node childNode = .ok (h2, a, 2) ∧ ∀ t : Node,
      HOk (setNode h2 m { t with arr := a, len := 2 }) ∧
      labs (setNode h2 m { t with arr := a, len := 2 }) = (labs h).set m ⟨t.key, t.dye, t.data, t.terminal, tk⟩ := by
  obtain ⟨h2, a, e, g1, g2, g3, g4, g5, g6⟩ := twoKids_spec (cellsA_zero hok) (arrs_pos hok) ht
  refine ⟨h2, a, e, fun t => ?_⟩
  exact HOk_update hok hm g1 g2 { t with arr := a, len := 2 } _ g3 (Or.inr g4) g5 (fun b hb _ => g6 b hb)

theorem goAppend_nodes (h : Heap) (ns : List Node) (a len x : Nat) :
    goAppend { h with nodes := ns } a len x =
      ({ (goAppend h a len x).1 with nodes := ns }, (goAppend h a len x).2) := by
  unfold goAppend
  by_cases hc : len < ((h.arrs[a]?).getD []).length
  · simp [hc, setCell, setCells, cellsOf]
  · simp [hc, allocArr, cellsOf]

theorem twoKids_nodes {h h' : Heap} (ns : List Node) {sub childSub : Key} {x y a l : Nat}
    (e : twoKids h sub childSub x y = .ok (h', a, l)) :
    twoKids { h with nodes := ns } sub childSub x y = .ok ({ h' with nodes := ns }, a, l) := by
  unfold twoKids at e ⊢
  split at e
  · rename_i s0 _ c0 _
    simp only at e ⊢
    generalize (if s0 < c0 then (x, y) else (y, x)) = xy at e ⊢
    obtain ⟨p, q⟩ := xy
    simp only at e ⊢
    rw [goAppend_nodes h ns 0 0 p]
    generalize goAppend h 0 0 p = r at e ⊢
    obtain ⟨h1, a1, l1⟩ := r
    simp only at e ⊢
    rw [goAppend_nodes h1 ns a1 l1 q]
    generalize goAppend h1 a1 l1 q = r2 at e ⊢
    obtain ⟨h2, a2, l2⟩ := r2
    simp only [Res.ok.injEq, Prod.mk.injEq] at e ⊢
    obtain ⟨rfl, rfl, rfl⟩ := e
    exact ⟨rfl, rfl, rfl⟩
  · cases e

/-- the split case of `insert`: the old children slice of `c` moves to a new node, `c` gets a fresh slice -/
theorem C_move {h : Heap} (hok : HOk h) {c : Nat} {ch : Node} (hc : h.nodes[c]? = some ch)
    {sub childSub : Key} {tk : List Nat} (n1 : Node) (hn1 : n1.arr = ch.arr ∧ n1.len = ch.len)
    (k : Key) (data : Option Data) {x y : Nat}
    (ht : two sub childSub x y = some tk) :
    ∃ h3 a, twoKids (allocNode (allocNode h n1).1 (leaf k 0 data)).1 sub childSub x y
        = .ok (h3, a, 2) ∧ ∀ t : Node,
      HOk (setNode h3 c { t with arr := a, len := 2 }) ∧
      labs (setNode h3 c { t with arr := a, len := 2 }) =
        (labs h ++ [⟨n1.key, n1.dye, n1.data, n1.terminal, kidsD h.arrs ch⟩, lleaf k 0 data]).set c
          ⟨t.key, t.dye, t.data, t.terminal, tk⟩ := by
  obtain ⟨ha, a, e, g1, g2, g3, g4, g5, g6⟩ := twoKids_spec (cellsA_zero hok) (arrs_pos hok) ht
  have e' := twoKids_nodes (h.nodes ++ [n1] ++ [leaf k 0 data]) e
  have hclt : c < h.nodes.length := by
    by_cases x : c < h.nodes.length
    · exact x
    · rw [List.getElem?_eq_none (by omega)] at hc; cases hc
  refine ⟨_, a, e', fun t => ?_⟩
  -- the same heap, built in an order in which every step preserves `HOk`
  obtain ⟨u1, u2⟩ := HOk_update hok hc g1 g2 { t with arr := a, len := 2 } _ g3 (Or.inr g4) g5 (fun b hb _ => g6 b hb)
  let hb := setNode ha c { t with arr := a, len := 2 }
  have hbarr : hb.arrs = ha.arrs := rfl
  have hsl : Slice hb.arrs n1.arr n1.len (kidsD h.arrs ch) := by
    rw [hn1.1, hn1.2]
    have := hok.slice hc
    unfold Slice at *
    rw [hbarr, g6 _ (hok.node c ch hc).1]; exact this
  have hchr := (hok.node c ch hc).1
  obtain ⟨v1, v2, _⟩ := HOk_alloc (h := hb) (h2 := hb) u1 rfl (Nat.le_refl _) (fun _ _ => rfl) n1 _ hsl
    (by
      intro j nj hj he
      have hj' : (ha.nodes.set c { t with arr := a, len := 2 })[j]? = some nj := hj
      rw [g1, List.getElem?_set] at hj'
      split at hj'
      · simp only [hclt, if_true, Option.some.injEq] at hj'
        rw [← hj', hn1.1] at he
        have : a = ch.arr := he
        omega
      · rw [hn1.1] at he ⊢
        rename_i hne
        rcases hok.own j c nj ch hj' hc he with x | x
        · exact absurd x.symm hne
        · rw [← he]; exact x)
    (by rw [hn1.1, hbarr]; omega)
  obtain ⟨w1, w2, _⟩ := C_leaf v1 k 0 data
  have heq : setNode ({ ha with nodes := h.nodes ++ [n1] ++ [leaf k 0 data] }) c { t with arr := a, len := 2 }
      = (allocNode (allocNode hb n1).1 (leaf k 0 data)).1 := by
    show ({ nodes := (h.nodes ++ [n1] ++ [leaf k 0 data]).set c _, arrs := ha.arrs } : Heap) =
      { nodes := (ha.nodes.set c _ ++ [n1]) ++ [leaf k 0 data], arrs := ha.arrs }
    congr 1
    rw [g1, List.append_assoc, List.set_append_left _ _ hclt, List.append_assoc]
  rw [heq]
  refine ⟨w1, ?_⟩
  rw [w2, v2, u2, List.append_assoc]
  rw [List.set_append_left _ _ (by rw [labs_length]; exact hclt)]
  rfl

end LemoProofs.CowHeapL

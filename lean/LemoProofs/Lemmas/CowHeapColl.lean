/-
  C09 (heap refinement, part 12): `Collect(h)` on the heap.  `collected` descends only through nodes dyed `h`;
  on a well-formed heap (sorted children = a proper radix trie, dyes not increasing downwards, terminal nodes at
  full depth carrying their own key) it returns exactly the entries dyed `h` of the table the root realises.
-/
import LemoProofs.Lemmas.CowHeapRel
import LemoProofs.Lemmas.CowHeapSim
set_option linter.unusedSimpArgs false
set_option linter.unusedVariables false
namespace LemoProofs.CowHeapL
open LemoModel.CowTrie LemoModel.CowSpec LemoProofs.CowSpecL

/-! ### `collected` on logical heaps, and the simulation -/

def collectedL : Nat → LHeap → Nat → Nat → List Data → Res (List Data)
  | 0, _, _, _, _ => .stuck
  | fuel + 1, lh, cur, dye, all =>
    match lh[cur]? with
    | none => .stuck
    | some n =>
      if n.dye ≠ dye then .ok all
      else
        n.kids.foldlM (fun acc c => collectedL fuel lh c dye acc) all >>= fun all1 =>
        match n.data, n.terminal with
        | some d, true => .ok (all1 ++ [d])
        | _, _ => .ok all1

theorem collected_sim {h : Heap} (hok : HOk h) : ∀ (fuel cur dye : Nat) (all : List Data),
    collected fuel h cur dye all = collectedL fuel (labs h) cur dye all
  | 0, _, _, _ => rfl
  | fuel + 1, cur, dye, all => by
    unfold collected collectedL getNode
    rw [labs_get]
    cases hn : h.nodes[cur]? with
    | none => rfl
    | some n =>
      simp only [Option.map_some, bind_ok]
      have e1 : (absN h.arrs n).dye = n.dye := rfl
      have e2 : (absN h.arrs n).kids = kidsD h.arrs n := rfl
      have e3 : (absN h.arrs n).data = n.data := rfl
      have e4 : (absN h.arrs n).terminal = n.terminal := rfl
      rw [e1, e2, e3, e4]
      by_cases hd : n.dye ≠ dye
      · simp only [hd, if_true, ne_eq, not_false_eq_true]
      · simp only [hd, if_false]
        rw [hok.kids hn, bind_ok]
        have : (fun acc c => collected fuel h c dye acc) = (fun acc c => collectedL fuel (labs h) c dye acc) := by
          funext acc c; exact collected_sim hok fuel c dye acc
        rw [this]
        rfl

theorem collectTop_sim {h : Heap} (hok : HOk h) (root dye : Nat) :
    collectTop h root dye = collectedL ((labs h).length + 1) (labs h) root dye [] := by
  unfold collectTop; rw [collected_sim hok, labs_length]

/-! ### paths -/

/-- `m` is reached from `n` through nodes that are all dyed `h` (`n` and `m` included) -/
inductive HPath (lh : LHeap) (h : Nat) : Nat → Nat → Prop where
  | refl (n : Nat) (nn : LN) : lh[n]? = some nn → nn.dye = h → HPath lh h n n
  | step (n : Nat) (nn : LN) (c m : Nat) : lh[n]? = some nn → nn.dye = h → c ∈ nn.kids → HPath lh h c m → HPath lh h n m

theorem HPath.inv {lh : LHeap} {h n m : Nat} (p : HPath lh h n m) :
    ∃ nn, lh[n]? = some nn ∧ nn.dye = h ∧ (m = n ∨ ∃ c ∈ nn.kids, HPath lh h c m) := by
  cases p with
  | refl _ nn h1 h2 => exact ⟨nn, h1, h2, Or.inl rfl⟩
  | step _ nn c _ h1 h2 h3 h4 => exact ⟨nn, h1, h2, Or.inr ⟨c, h3, h4⟩⟩

theorem HPath.last {lh : LHeap} {h n m : Nat} (p : HPath lh h n m) : ∃ nm, lh[m]? = some nm ∧ nm.dye = h := by
  induction p with
  | refl _ nn h1 h2 => exact ⟨nn, h1, h2⟩
  | step _ _ _ _ _ _ _ _ ih => exact ih

/-- `m` is reached from `n` consuming the key `s` -/
inductive RPath (lh : LHeap) : Nat → Key → Nat → Prop where
  | refl (n : Nat) : RPath lh n [] n
  | step (n : Nat) (nn : LN) (c : Nat) (nc : LN) (s : Key) (m : Nat) : lh[n]? = some nn → c ∈ nn.kids → lh[c]? = some nc →
      RPath lh c s m → RPath lh n (nc.key ++ s) m

theorem RPath.full {L : Nat} {E : Enc L} {lh : LHeap} {full : Nat → Key} (hok : LOk E lh full) {n m : Nat} {s : Key}
    (p : RPath lh n s m) : full m = full n ++ s := by
  induction p with
  | refl _ => simp
  | step n nn c nc s m h1 h2 h3 _ ih =>
    obtain ⟨nc', g1, _, g3⟩ := hok.kid n nn c h1 h2
    rw [h3] at g1; cases g1
    rw [ih, g3, List.append_assoc]

theorem RPath.nil_inv {L : Nat} {E : Enc L} {lh : LHeap} {full : Nat → Key} (hok : LOk E lh full) {n m : Nat}
    (p : RPath lh n [] m) : m = n := by
  generalize hs : ([] : Key) = s at p
  cases p with
  | refl _ => rfl
  | step _ nn c nc s' _ h1 h2 h3 _ =>
    obtain ⟨nc', g1, g2, _⟩ := hok.kid n nn c h1 h2
    rw [h3] at g1; cases g1
    exfalso
    cases hk : nc.key with
    | nil => exact g2 hk
    | cons a t => rw [hk] at hs; cases hs

theorem HPath.toR {L : Nat} {E : Enc L} {lh : LHeap} {full : Nat → Key} (hok : LOk E lh full) {h n m : Nat}
    (p : HPath lh h n m) : ∃ s, RPath lh n s m := by
  induction p with
  | refl n _ _ _ => exact ⟨[], RPath.refl n⟩
  | step n nn c m h1 _ h3 _ ih =>
    obtain ⟨s, ps⟩ := ih
    obtain ⟨nc, g1, _, _⟩ := hok.kid n nn c h1 h3
    exact ⟨nc.key ++ s, RPath.step n nn c nc s m h1 h3 g1 ps⟩

/-- with dyes not increasing downwards, a path that ends in a node dyed `h` and starts in a node dyed at most `h`
    runs through nodes dyed `h` only -/
theorem RPath.toH {L : Nat} {E : Enc L} {lh : LHeap} {full : Nat → Key} (hok : LOk E lh full) {h n m : Nat} {s : Key}
    (p : RPath lh n s m) : ∀ {nn nm : LN}, lh[n]? = some nn → nn.dye ≤ h → lh[m]? = some nm → nm.dye = h →
    HPath lh h n m := by
  induction p with
  | refl n =>
    intro nn nm h1 _ h3 h4
    rw [h1] at h3; cases h3
    exact HPath.refl n nn h1 h4
  | step n nn c nc s m h1 h2 h3 _ ih =>
    intro nn' nm g1 g2 g3 g4
    rw [h1] at g1; cases g1
    have hm := hok.mono n nn c nc h1 h2 h3
    have hc := ih h3 (by omega) g3 g4
    obtain ⟨nc', q1, q2, _⟩ := hc.inv
    rw [h3] at q1; cases q1
    exact HPath.step n nn c m h1 (by omega) h2 hc

theorem lcp_append_self : ∀ (a b : Key), lcp a (a ++ b) = a.length
  | [], b => by cases b <;> simp [lcp]
  | x :: as, b => by simp [lcp, lcp_append_self as b]

/-- **a proper radix trie**: the node at the end of a path is what the lookup of the consumed key finds -/
theorem look_of_path {L : Nat} {E : Enc L} {lh : LHeap} {full : Nat → Key} (hok : LOk E lh full) {n m : Nat} {s : Key}
    (p : RPath lh n s m) : ∀ {nm : LN}, s ≠ [] → lh[m]? = some nm → look lh n s = .ok (some nm) := by
  induction p with
  | refl _ => intro _ h; exact absurd rfl h
  | step n nn c nc s m h1 h2 h3 p' ih =>
    intro nm _ hm
    obtain ⟨nc', g1, g2, _⟩ := hok.kid n nn c h1 h2
    rw [h3] at g1; cases g1
    cases hk : nc.key with
    | nil => exact absurd hk g2
    | cons k0 ct =>
    obtain ⟨pre, post, hkids⟩ := List.append_of_mem h2
    have hsort := hok.sorted n nn h1
    rw [hkids] at hsort
    unfold SortedKids at hsort
    rw [List.pairwise_append] at hsort
    have hpre : ∀ y ∈ pre, HdLt lh k0 y := by
      intro y hy
      obtain ⟨a, b, q1, q2, q3⟩ := hsort.2.2 y hy c List.mem_cons_self
      have := Hd_unique q2 ⟨nc, ct, h3, hk⟩
      exact ⟨a, q1, by omega⟩
    rw [look_step h1, hkids]
    show desc1 lh ((k0 :: ct) ++ s) (scanL lh ((k0 :: ct) ++ s) (pre ++ c :: post) 0) = _
    rw [List.cons_append, scanL_pass (ct ++ s) pre _ 0 hpre, (scanL_cons_eq (ct ++ s) post _ h3 hk).1]
    simp only [desc1, h3]
    have hl : lcp nc.key (k0 :: (ct ++ s)) = nc.key.length := by
      have := lcp_append_self nc.key s
      rw [hk] at this ⊢; exact this
    have hlen : (k0 :: (ct ++ s)).length = nc.key.length + s.length := by rw [hk]; simp; omega
    rw [hl]
    by_cases hs : s = []
    · subst hs
      have := RPath.nil_inv hok p'
      subst this
      rw [h3] at hm; cases hm
      have e1 : nc.key.length = min nc.key.length (k0 :: (ct ++ [])).length := by rw [hlen]; simp
      rw [if_pos e1, if_pos (by rw [hlen]; simp)]
    · have hpos : 0 < s.length := List.length_pos_iff.mpr hs
      have e1 : nc.key.length = min nc.key.length (k0 :: (ct ++ s)).length := by rw [hlen]; omega
      have e2 : ¬ (k0 :: (ct ++ s)).length = nc.key.length := by rw [hlen]; omega
      have e3 : (k0 :: (ct ++ s)).length > nc.key.length := by rw [hlen]; omega
      rw [if_pos e1, if_neg e2, if_pos e3]
      have : (k0 :: (ct ++ s)).drop nc.key.length = s := by
        rw [← List.cons_append, ← hk]; simp
      rw [this]
      exact ih hs hm

theorem scanL_at_lcp {lh : LHeap} {key : Key} : ∀ {ks : List Nat} {i i' c j : Nat},
    scanL lh key ks i = .at i' c j → ∃ ch, lh[c]? = some ch ∧ j = lcp ch.key key
  | [], _, _, _, _, h => by simp [scanL] at h
  | x :: cs, i, i', c, j, h => by
    unfold scanL at h
    split at h
    · cases h
    · rename_i chx hx
      simp only at h
      split at h
      · split at h
        · split at h
          · cases h
          · exact scanL_at_lcp h
        · cases h
      · cases h; exact ⟨chx, hx, rfl⟩

theorem lcp_nil_right (a : Key) : lcp a [] = 0 := by cases a <;> rfl

/-- conversely, what a lookup finds lies at the end of a path consuming the key -/
theorem path_of_look {lh : LHeap} : ∀ (k : Nat) (n : Nat) (s : Key) (nm : LN), s.length ≤ k →
    look lh n s = .ok (some nm) → ∃ m, lh[m]? = some nm ∧ RPath lh n s m
  | k, n, s, nm, hk, hl => by
    cases hn : lh[n]? with
    | none => rw [look_none hn] at hl; cases hl
    | some nn =>
      rw [look_step hn] at hl
      cases hsc : scanL lh s nn.kids 0 with
      | none => rw [hsc] at hl; cases hl
      | before i => rw [hsc] at hl; cases hl
      | panic => rw [hsc] at hl; cases hl
      | stuck => rw [hsc] at hl; cases hl
      | «at» i c j =>
        rw [hsc] at hl
        have hj := scanL_at_pos hsc
        have hc := scanL_at_mem hsc
        obtain ⟨ch, hch, hjl⟩ := scanL_at_lcp hsc
        simp only [desc1, hch] at hl
        have hle1 := lcp_le_left ch.key s
        have hle2 := lcp_le_right ch.key s
        by_cases t1 : j = min ch.key.length s.length
        · rw [if_pos t1] at hl
          by_cases t2 : s.length = ch.key.length
          · rw [if_pos t2] at hl
            simp only [Res.ok.injEq, Option.some.injEq] at hl
            subst hl
            have hs : ch.key = s := eq_of_lcp_full (by omega) t2.symm
            refine ⟨c, hch, ?_⟩
            have := RPath.step n nn c ch [] c hn hc hch (RPath.refl c)
            rw [List.append_nil, hs] at this; exact this
          · rw [if_neg t2] at hl
            by_cases t3 : s.length > ch.key.length
            · rw [if_pos t3] at hl
              have hjk : j = ch.key.length := by omega
              cases k with
              | zero => omega
              | succ k =>
                obtain ⟨m, hm, pm⟩ := path_of_look k c (s.drop j) nm (by rw [List.length_drop]; omega) hl
                refine ⟨m, hm, ?_⟩
                have hpre : ch.key = s.take ch.key.length := lcp_eq_left (by omega)
                have := RPath.step n nn c ch (s.drop j) m hn hc hch pm
                rw [hjk] at this
                have e : ch.key ++ s.drop ch.key.length = s := by
                  conv => lhs; arg 1; rw [hpre]
                  exact List.take_append_drop _ _
                rw [e] at this; exact this
            · rw [if_neg t3] at hl; cases hl
        · rw [if_neg t1] at hl; cases hl


/-! ### what `collected` returns -/

theorem nodup_bound : ∀ (N : Nat) (l : List Nat), l.Nodup → (∀ x ∈ l, x < N) → l.length ≤ N
  | 0, l, _, h => by
    cases l with
    | nil => simp
    | cons a t => have := h a List.mem_cons_self; omega
  | N + 1, l, hn, h => by
    have h1 := nodup_bound N (l.erase N) (hn.erase N) (fun x hx => by
      have := (hn.mem_erase_iff).mp hx
      have := h x this.2
      omega)
    by_cases e : N ∈ l
    · rw [List.length_erase_of_mem e] at h1; omega
    · rw [List.erase_of_not_mem e] at h1; omega

theorem foldlM_char {Q : Nat → Data → Prop} (F : List Data → Nat → Res (List Data)) : ∀ (ks : List Nat),
    (∀ c ∈ ks, ∀ acc, ∃ ds, F acc c = .ok (acc ++ ds) ∧ ∀ d, d ∈ ds ↔ Q c d) →
    ∀ acc, ∃ ds, ks.foldlM F acc = .ok (acc ++ ds) ∧ ∀ d, d ∈ ds ↔ ∃ c ∈ ks, Q c d
  | [], _, acc => ⟨[], by simp [List.foldlM_nil]; rfl, fun d => by simp⟩
  | x :: xs, h, acc => by
    obtain ⟨ds1, e1, c1⟩ := h x List.mem_cons_self acc
    obtain ⟨ds2, e2, c2⟩ := foldlM_char F xs (fun c hc => h c (List.mem_cons_of_mem _ hc)) (acc ++ ds1)
    refine ⟨ds1 ++ ds2, ?_, ?_⟩
    · rw [List.foldlM_cons, e1, bind_ok, e2, List.append_assoc]
    · intro d
      rw [List.mem_append, c1, c2]
      constructor
      · rintro (h1 | ⟨c, hc, h2⟩)
        · exact ⟨x, List.mem_cons_self, h1⟩
        · exact ⟨c, List.mem_cons_of_mem _ hc, h2⟩
      · rintro ⟨c, hc, h2⟩
        rcases List.mem_cons.mp hc with rfl | hc'
        · exact Or.inl h2
        · exact Or.inr ⟨c, hc', h2⟩

/-- **Collect walks exactly the `h`-dyed crown**: with the model's fuel (number of nodes + 1) `collected` succeeds and
    appends exactly the data of the terminal nodes reached through nodes dyed `h` -/
theorem collectedL_char {L : Nat} {E : Enc L} {lh : LHeap} {full : Nat → Key} (hok : LOk E lh full) (h : Nat) :
    ∀ (f n : Nat) (anc : List Nat) (acc : List Data), anc.Nodup →
      (∀ a ∈ anc, a < lh.length ∧ (full a).length < (full n).length) → n < lh.length →
      lh.length + 1 ≤ f + anc.length →
      ∃ ds, collectedL f lh n h acc = .ok (acc ++ ds) ∧
        ∀ d, d ∈ ds ↔ ∃ m nm, HPath lh h n m ∧ lh[m]? = some nm ∧ nm.terminal = true ∧ nm.data = some d := by
  intro f
  induction f with
  | zero =>
    intro n anc acc hnd hanc hn hf
    exfalso
    have hnd' : (n :: anc).Nodup := by
      rw [List.nodup_cons]
      refine ⟨fun hmem => ?_, hnd⟩
      have := (hanc n hmem).2; omega
    have := nodup_bound lh.length (n :: anc) hnd' (fun x hx => by
      rcases List.mem_cons.mp hx with rfl | hx'
      · exact hn
      · exact (hanc x hx').1)
    simp at this; omega
  | succ f ih =>
    intro n anc acc hnd hanc hn hf
    obtain ⟨nn, hnn⟩ : ∃ nn, lh[n]? = some nn := ⟨lh[n], by rw [List.getElem?_eq_getElem hn]⟩
    unfold collectedL
    rw [hnn]
    simp only
    by_cases hd : nn.dye ≠ h
    · simp only [hd, if_true, ne_eq, not_false_eq_true]
      refine ⟨[], by simp, ?_⟩
      intro d
      simp only [List.not_mem_nil, false_iff]
      rintro ⟨m, nm, p, _⟩
      obtain ⟨nn', q1, q2, _⟩ := p.inv
      rw [hnn] at q1; cases q1
      exact hd q2
    · have hdye : nn.dye = h := by simpa using hd
      simp only [hd, if_false]
      have hnd' : (n :: anc).Nodup := by
        rw [List.nodup_cons]
        refine ⟨fun hmem => ?_, hnd⟩
        have := (hanc n hmem).2; omega
      obtain ⟨dsK, eK, cK⟩ := foldlM_char (Q := fun c d => ∃ m nm, HPath lh h c m ∧ lh[m]? = some nm ∧
          nm.terminal = true ∧ nm.data = some d) (fun acc c => collectedL f lh c h acc) nn.kids (by
        intro c hc acc'
        obtain ⟨nc, g1, _, _⟩ := hok.kid n nn c hnn hc
        have hlong := kid_full_longer hok hnn hc
        exact ih c (n :: anc) acc' hnd' (fun a ha => by
          rcases List.mem_cons.mp ha with rfl | ha'
          · exact ⟨hn, hlong⟩
          · have := hanc a ha'; exact ⟨this.1, by omega⟩) (valid_lt g1) (by simp; omega)) acc
      rw [eK, bind_ok]
      -- membership through the children = paths that leave `n`
      have hkidpath : ∀ d, (∃ c ∈ nn.kids, ∃ m nm, HPath lh h c m ∧ lh[m]? = some nm ∧ nm.terminal = true ∧ nm.data = some d) →
          ∃ m nm, HPath lh h n m ∧ lh[m]? = some nm ∧ nm.terminal = true ∧ nm.data = some d := by
        rintro d ⟨c, hc, m, nm, p, r⟩
        exact ⟨m, nm, HPath.step n nn c m hnn hdye hc p, r⟩
      have hsplit : ∀ d, (∃ m nm, HPath lh h n m ∧ lh[m]? = some nm ∧ nm.terminal = true ∧ nm.data = some d) →
          (nn.terminal = true ∧ nn.data = some d) ∨
          (∃ c ∈ nn.kids, ∃ m nm, HPath lh h c m ∧ lh[m]? = some nm ∧ nm.terminal = true ∧ nm.data = some d) := by
        rintro d ⟨m, nm, p, r1, r2, r3⟩
        obtain ⟨nn', q1, _, q3⟩ := p.inv
        rw [hnn] at q1; cases q1
        rcases q3 with rfl | ⟨c, hc, pc⟩
        · rw [hnn] at r1; cases r1; exact Or.inl ⟨r2, r3⟩
        · exact Or.inr ⟨c, hc, m, nm, pc, r1, r2, r3⟩
      have hself : ∀ d, nn.terminal = true → nn.data = some d →
          ∃ m nm, HPath lh h n m ∧ lh[m]? = some nm ∧ nm.terminal = true ∧ nm.data = some d :=
        fun d h1 h2 => ⟨n, nn, HPath.refl n nn hnn hdye, hnn, h1, h2⟩
      cases hdat : nn.data with
      | none =>
        refine ⟨dsK, by cases nn.terminal <;> rfl, ?_⟩
        intro d
        rw [cK]
        constructor
        · exact hkidpath d
        · intro hx
          rcases hsplit d hx with ⟨_, h2⟩ | h2
          · rw [hdat] at h2; cases h2
          · exact h2
      | some d0 =>
        cases hterm : nn.terminal with
        | false =>
          refine ⟨dsK, rfl, ?_⟩
          intro d
          rw [cK]
          constructor
          · exact hkidpath d
          · intro hx
            rcases hsplit d hx with ⟨h1, _⟩ | h2
            · rw [hterm] at h1; cases h1
            · exact h2
        | true =>
          refine ⟨dsK ++ [d0], by show Res.ok (acc ++ dsK ++ [d0]) = _; rw [List.append_assoc], ?_⟩
          intro d
          rw [List.mem_append, cK, List.mem_singleton]
          constructor
          · rintro (h1 | rfl)
            · exact hkidpath d h1
            · exact hself d hterm hdat
          · intro hx
            rcases hsplit d hx with ⟨_, h2⟩ | h2
            · rw [hdat] at h2; cases h2; exact Or.inr rfl
            · exact Or.inl h2


/-! ### Collect(height) on a block's trie = the entries of its table dyed with its height -/

theorem rel_collect {L : Nat} {E : Enc L} {c : CSt} {a : ASt} {full : Nat → Key} {vis : Nat → Option Nat → Prop}
    (hr : Rel E c a full vis) {l r : Nat} {b : ABlk} (hrl : c.roots l = some r) (hb : findB a.blocks l = some b) :
    ∃ ds, collectedL (c.lh.length + 1) c.lh r b.height [] = .ok ds ∧
      ∀ d : Data, d ∈ ds ↔ b.tbl d.addr = some ⟨d.val, b.height⟩ := by
  obtain ⟨r1, r2, r3⟩ := hr.root l r hrl
  obtain ⟨ds, e1, e2⟩ := collectedL_char hr.ok b.height (c.lh.length + 1) r [] [] List.nodup_nil
    (fun a ha => by cases ha) r1 (by simp)
  refine ⟨ds, by simpa using e1, ?_⟩
  obtain ⟨rn, hrn⟩ : ∃ rn, c.lh[r]? = some rn := ⟨c.lh[r], by rw [List.getElem?_eq_getElem r1]⟩
  have hrdye : rn.dye ≤ b.height := by
    have := hr.dye r rn _ r3 hrn
    simpa [hOf, hb] using this
  intro d
  rw [e2]
  constructor
  · rintro ⟨m, nm, p, hm, ht, hdat⟩
    obtain ⟨s, ps⟩ := p.toR hr.ok
    have hfull := ps.full hr.ok
    rw [r2, List.nil_append] at hfull
    obtain ⟨hlen, dd, hd1, hd2⟩ := hr.ok.term m nm hm ht
    rw [hdat] at hd1; cases hd1
    have hs : s = E.enc d.addr := by rw [← hfull, hd2]
    have hsne : s ≠ [] := by
      intro h0
      have := E.len d.addr
      rw [← hs, h0] at this
      have := E.pos
      simp only [List.length_nil] at *; omega
    have hlook := look_of_path hr.ok ps hsne hm
    rw [hs] at hlook
    have ht := hr.tbl l r b hrl hb d.addr
    unfold TblRel at ht
    rw [hlook, entR_ok_some] at ht
    obtain ⟨nm', _, hdy⟩ := p.last
    cases hte : b.tbl d.addr with
    | none => rw [hte] at ht; cases ht
    | some e =>
      rw [hte] at ht
      simp only [Option.map_some, Res.ok.injEq, Option.some.injEq] at ht
      have h1 : nm.dye = e.dye := congrArg Ent.dye ht
      have h2 : nm.data = some ⟨d.addr, e.val⟩ := congrArg Ent.data ht
      rw [hdat] at h2
      simp only [Option.some.injEq] at h2
      have hv : d.val = e.val := congrArg Data.val h2
      have hdm : nm.dye = b.height := by
        obtain ⟨nm2, q1, q2⟩ := p.last
        rw [hm] at q1; cases q1; exact q2
      congr 1
      cases e with
      | mk ev ed =>
        simp only at h1 hv
        rw [← hv, ← h1, hdm]
  · intro hte
    have ht := hr.tbl l r b hrl hb d.addr
    unfold TblRel at ht
    rw [hte] at ht
    obtain ⟨o, ho, hoe⟩ := entR_ok ht
    cases o with
    | none => cases hoe
    | some nm =>
      simp only [Option.map_some, Option.some.injEq] at hoe
      have h1 : nm.dye = b.height := congrArg Ent.dye hoe
      have h2 : nm.terminal = true := congrArg Ent.terminal hoe
      have h3 : nm.data = some ⟨d.addr, d.val⟩ := congrArg Ent.data hoe
      obtain ⟨m, hm, pm⟩ := path_of_look (E.enc d.addr).length r (E.enc d.addr) nm (Nat.le_refl _) ho
      exact ⟨m, nm, pm.toH hr.ok hrn hrdye hm h1, hm, h2, h3⟩

end LemoProofs.CowHeapL

/-
  C09 (heap refinement, part 15): the GENESIS BOOTSTRAP of the machine the driver executes (`LemoModel.UTree`).

  Before the first `SetStableBlock` the database has no stable block (`stable = none`): `SetBlock` only accepts blocks of
  height 0 without a parent, each gets a FRESH empty trie (`NewGenesisBlock` → `NewEmptyAccountTrieDB`), and a `Put`
  through such a block uses the dye 0 — the dye of the root node and of the read-through cache.  `GRel E u w` is the
  invariant of that phase (`w l k` = ghost: the value block `l` holds for account `k`): nothing is persisted, all
  unconfirmed blocks are parentless height-0 blocks, their tries are pairwise DISJOINT sets of nodes (`P l`) all dyed 0,
  and the lookups through block `l`'s root show exactly `w l`.  A `Put` with dye 0 works in place on the block's own
  nodes, and — the dye-0 collision — a second `Put` of the same account by the same block is DROPPED (first write wins).
  `grel_stable`: the first `SetStableBlock(g)` leads to a state related (`URel`) to the abstract machine whose stable block
  is `g`, with the persisted accounts = `w g` and no unconfirmed block left (all other height-0 blocks are pruned).
-/
import LemoProofs.Lemmas.CowHeapUStable
set_option linter.unusedSimpArgs false
set_option linter.unusedVariables false
namespace LemoProofs.CowHeapL
open LemoModel.CowTrie LemoModel.CowSpec LemoProofs.CowSpecL LemoModel.UTree

/-! ### logical heaps: the empty heap, a fresh root -/

def rootLN : LN := ⟨[], 0, none, false, []⟩

theorem lok_nil {L : Nat} (E : Enc L) (full : Nat → Key) : LOk E [] full where
  kid := fun id n c hn _ => by simp at hn
  depth := fun id n hn => by simp at hn
  sorted := fun id n hn => by simp at hn
  term := fun id n hn _ => by simp at hn
  mono := fun id n c nc hn _ _ => by simp at hn

theorem get_snoc {α : Type} {lh : List α} {r n : α} {id : Nat} (h : (lh ++ [r])[id]? = some n) :
    (id < lh.length ∧ lh[id]? = some n) ∨ (id = lh.length ∧ n = r) := by
  by_cases h1 : id < lh.length
  · rw [List.getElem?_append_left h1] at h; exact Or.inl ⟨h1, h⟩
  · rw [List.getElem?_append_right (by omega)] at h
    by_cases h2 : id = lh.length
    · subst h2; simp at h; exact Or.inr ⟨rfl, h.symm⟩
    · have : id - lh.length ≠ 0 := by omega
      cases hk : id - lh.length with
      | zero => exact absurd hk this
      | succ j => rw [hk] at h; simp at h

def fullSnoc (lh : LHeap) (full : Nat → Key) : Nat → Key := fun id => if id = lh.length then [] else full id

theorem fullSnoc_old {lh : LHeap} {full : Nat → Key} {id : Nat} (h : id < lh.length) : fullSnoc lh full id = full id := by
  unfold fullSnoc; rw [if_neg (by omega)]

/-- `NewEmptyDatabase()`: one more node without children -/
theorem lok_snoc_root {L : Nat} {E : Enc L} {lh : LHeap} {full : Nat → Key} (hok : LOk E lh full) :
    LOk E (lh ++ [rootLN]) (fullSnoc lh full) where
  kid := fun id n c hn hc => by
    rcases get_snoc hn with ⟨h1, h2⟩ | ⟨_, rfl⟩
    · obtain ⟨nc, g1, g2, g3⟩ := hok.kid id n c h2 hc
      have hc' := valid_lt g1
      exact ⟨nc, by rw [List.getElem?_append_left hc']; exact g1, g2, by rw [fullSnoc_old hc', fullSnoc_old h1]; exact g3⟩
    · cases hc
  depth := fun id n hn => by
    rcases get_snoc hn with ⟨h1, h2⟩ | ⟨rfl, rfl⟩
    · rw [fullSnoc_old h1]; exact hok.depth id n h2
    · simp [fullSnoc]
  sorted := fun id n hn => by
    rcases get_snoc hn with ⟨h1, h2⟩ | ⟨_, rfl⟩
    · apply (hok.sorted id n h2).transfer
      intro x hx c0 ⟨ch, ct, e1, e2⟩
      exact ⟨ch, ct, by rw [List.getElem?_append_left (valid_lt e1)]; exact e1, e2⟩
    · exact List.Pairwise.nil
  term := fun id n hn ht => by
    rcases get_snoc hn with ⟨h1, h2⟩ | ⟨_, rfl⟩
    · rw [fullSnoc_old h1]; exact hok.term id n h2 ht
    · cases ht
  mono := fun id n c nc hn hc hnc => by
    rcases get_snoc hn with ⟨h1, h2⟩ | ⟨_, rfl⟩
    · obtain ⟨nc', g1, _, _⟩ := hok.kid id n c h2 hc
      rw [List.getElem?_append_left (valid_lt g1)] at hnc
      exact hok.mono id n c nc h2 hc hnc
    · cases hc

theorem look_rootLN {lh : LHeap} {id : Nat} (h : lh[id]? = some rootLN) (s : Key) : entR (look lh id s) = .ok none := by
  rw [look_step h]; rfl

/-! ### the invariant of the genesis phase -/

def ent0 (v : Nat) : Entry := ⟨v, 0⟩

structure GHeap {L : Nat} (E : Enc L) (u : St) (w : Nat → Nat → Option Nat) (full : Nat → Key) (P : Nat → Nat → Prop) :
    Prop where
  ok : LOk E (labs u.heap) full
  root : ∀ b ∈ u.blocks, b.root < (labs u.heap).length ∧ full b.root = [] ∧ P b.label b.root
  closed : ∀ (l id : Nat) (n : LN) (c : Nat), P l id → (labs u.heap)[id]? = some n → c ∈ n.kids → P l c
  valid : ∀ l id, P l id → id < (labs u.heap).length
  dye0 : ∀ (l id : Nat) (n : LN), P l id → (labs u.heap)[id]? = some n → n.dye = 0
  /-- the tries of different height-0 blocks share no node -/
  sep : ∀ l l' id, P l id → P l' id → l = l'
  tbl : ∀ b ∈ u.blocks, ∀ k, TblRel k ((w b.label k).map ent0) (look (labs u.heap) b.root (E.enc k))

structure GRel {L : Nat} (E : Enc L) (u : St) (w : Nat → Nat → Option Nat) : Prop where
  stable : u.stable = none
  comm : u.committed = []
  disk : u.disk = []
  hok : HOk u.heap
  bmeta : ∀ b ∈ u.blocks, b.height = 0 ∧ b.parent = none
  self : ∀ b ∈ u.blocks, findBlk u b.label = some b
  heap : ∃ full P, GHeap E u w full P

/-- the EMPTY database -/
theorem grel_open {L : Nat} (E : Enc L) : GRel E (openDb [] [] none) (fun _ _ => none) := by
  obtain ⟨h1, h2, _⟩ := newTrie_sim HOk_empty
  rw [labs_empty] at h2
  refine ⟨rfl, rfl, rfl, h1, (fun b hb => by cases hb), (fun b hb => by cases hb), ⟨fun id => [], fun _ _ => False, ?_⟩⟩
  have hlh : labs (openDb [] [] none).heap = [] ++ [rootLN] := h2
  refine ⟨?_, (fun b hb => by cases hb), fun _ _ _ _ h => h.elim, fun _ _ h => h.elim, fun _ _ _ h => h.elim,
    fun _ _ _ h => h.elim, (fun b hb => by cases hb)⟩
  rw [hlh]
  have := lok_snoc_root (lok_nil E (fun _ => []))
  have e : fullSnoc ([] : LHeap) (fun _ => []) = fun _ => [] := by
    funext id; unfold fullSnoc; split <;> rfl
  rw [e] at this; exact this

/-- a restart before the first stable block: back to the empty database -/
theorem grel_reopen {L : Nat} {E : Enc L} {u : St} {w : Nat → Nat → Option Nat} (h : GRel E u w) :
    GRel E u.reopen (fun _ _ => none) := by
  have : u.reopen = openDb [] [] none := by
    unfold St.reopen; rw [h.comm, h.disk, h.stable]
  rw [this]; exact grel_open E

/-! ### SetBlock -/

theorem setBlock_genesis_form {u u' : St} {l : Nat} {p : Option Nat} {h : Nat} (hst : u.stable = none)
    (hs : setBlock u l p h = .ok u') :
    findBlk u l = none ∧ p = none ∧ h = 0 ∧
    u' = { u with heap := (newTrie u.heap).1,
                  blocks := u.blocks ++ [{ label := l, height := 0, parent := none, root := (newTrie u.heap).2 }] } := by
  unfold setBlock at hs
  split at hs
  · cases hs
  · rename_i hfresh
    have hfl : findBlk u l = none := by
      cases hf : findBlk u l with
      | none => rfl
      | some b => simp [hf] at hfresh
    split at hs
    · split at hs
      · cases hs
      · rename_i hc
        have hh : h = 0 := by
          by_cases e : h = 0
          · exact e
          · simp [e] at hc
        have hp : p = none := by
          cases p with
          | none => rfl
          | some q => simp at hc
        cases hs
        exact ⟨hfl, hp, hh, rfl⟩
    · rename_i sl sh heq
      rw [hst] at heq; cases heq

theorem findBlk_snoc {u u' : St} {nb : Blk} (h : u'.blocks = u.blocks ++ [nb]) (x : Nat) :
    findBlk u' x = match findBlk u x with
      | some b => some b
      | none => if nb.label = x then some nb else none := by
  have := findBlk_append_new u nb x
  unfold findBlk at *
  rw [h]; exact this

def wNew (w : Nat → Nat → Option Nat) (l : Nat) : Nat → Nat → Option Nat := fun l' => if l' = l then fun _ => none else w l'

/-- **SetBlock in the genesis phase**: only parentless blocks of height 0 are accepted; each gets its own fresh trie -/
theorem grel_setBlock {L : Nat} {E : Enc L} {u u' : St} {w : Nat → Nat → Option Nat} (hr : GRel E u w) {l : Nat}
    {p : Option Nat} {h : Nat} (hs : setBlock u l p h = .ok u') : GRel E u' (wNew w l) := by
  obtain ⟨hfl, _, _, hu'⟩ := setBlock_genesis_form hr.stable hs
  obtain ⟨k1, k2, k3⟩ := newTrie_sim hr.hok
  obtain ⟨full, P, g⟩ := hr.heap
  have hne : ∀ b ∈ u.blocks, b.label ≠ l := by
    intro b hb e
    have := hr.self b hb
    rw [e, hfl] at this; cases this
  have hheap : u'.heap = (newTrie u.heap).1 := by rw [hu']
  have hblocks : u'.blocks = u.blocks ++ [{ label := l, height := 0, parent := none, root := (newTrie u.heap).2 }] := by rw [hu']
  have hlabs : labs u'.heap = labs u.heap ++ [rootLN] := by rw [hheap]; exact k2
  refine ⟨by rw [hu']; exact hr.stable, by rw [hu']; exact hr.comm, by rw [hu']; exact hr.disk, by rw [hheap]; exact k1, ?_, ?_, ?_⟩
  · intro b hb
    rw [hblocks] at hb
    rcases List.mem_append.mp hb with h1 | h1
    · exact hr.bmeta b h1
    · rw [List.mem_singleton] at h1; subst h1; exact ⟨rfl, rfl⟩
  · intro b hb
    rw [hblocks] at hb
    rw [findBlk_snoc hblocks]
    rcases List.mem_append.mp hb with h1 | h1
    · rw [hr.self b h1]
    · rw [List.mem_singleton] at h1
      subst h1
      simp only [hfl, if_true]
  · refine ⟨fullSnoc (labs u.heap) full, fun l' id => (l' = l ∧ id = (labs u.heap).length) ∨ (l' ≠ l ∧ P l' id), ?_⟩
    have hget : ∀ {id : Nat} {n : LN}, (labs u'.heap)[id]? = some n →
        (id < (labs u.heap).length ∧ (labs u.heap)[id]? = some n) ∨ (id = (labs u.heap).length ∧ n = rootLN) := by
      intro id n hn; rw [hlabs] at hn; exact get_snoc hn
    refine ⟨by rw [hlabs]; exact lok_snoc_root g.ok, ?_, ?_, ?_, ?_, ?_, ?_⟩
    · intro b hb
      rw [hblocks] at hb
      rw [hlabs, List.length_append]
      rcases List.mem_append.mp hb with h1 | h1
      · obtain ⟨q1, q2, q3⟩ := g.root b h1
        exact ⟨by simp; omega, by rw [fullSnoc_old q1]; exact q2, Or.inr ⟨hne b h1, q3⟩⟩
      · rw [List.mem_singleton] at h1
        subst h1
        refine ⟨?_, ?_, Or.inl ⟨rfl, k3⟩⟩
        · show (newTrie u.heap).2 < _
          rw [k3]; simp
        · show fullSnoc _ _ (newTrie u.heap).2 = []
          rw [k3]; simp [fullSnoc]
    · intro l' id n c hp hn hc
      rcases hget hn with ⟨h1, h2⟩ | ⟨_, rfl⟩
      · rcases hp with ⟨_, e⟩ | ⟨e1, e2⟩
        · omega
        · exact Or.inr ⟨e1, g.closed l' id n c e2 h2 hc⟩
      · cases hc
    · intro l' id hp
      rw [hlabs, List.length_append]
      rcases hp with ⟨_, e⟩ | ⟨_, e2⟩
      · simp; omega
      · have := g.valid l' id e2; simp; omega
    · intro l' id n hp hn
      rcases hget hn with ⟨h1, h2⟩ | ⟨_, rfl⟩
      · rcases hp with ⟨_, e⟩ | ⟨_, e2⟩
        · omega
        · exact g.dye0 l' id n e2 h2
      · rfl
    · intro l1 l2 id h1 h2
      rcases h1 with ⟨a1, a2⟩ | ⟨a1, a2⟩ <;> rcases h2 with ⟨b1, b2⟩ | ⟨b1, b2⟩
      · rw [a1, b1]
      · have := g.valid l2 id b2; omega
      · have := g.valid l1 id a2; omega
      · exact g.sep l1 l2 id a2 b2
    · intro b hb k
      rw [hblocks] at hb
      rcases List.mem_append.mp hb with h1 | h1
      · obtain ⟨q1, _, _⟩ := g.root b h1
        rw [hlabs, look_append g.ok [rootLN] q1]
        have : wNew w l b.label = w b.label := by unfold wNew; rw [if_neg (hne b h1)]
        rw [this]; exact g.tbl b h1 k
      · rw [List.mem_singleton] at h1
        subst h1
        simp only
        have : wNew w l l = fun _ => none := by unfold wNew; rw [if_pos rfl]
        rw [this]
        unfold TblRel
        apply look_rootLN
        rw [hlabs, k3]; simp

/-! ### Put -/

/-- the ghost table after `Put(l, k, v)` with dye 0: the FIRST value written for an account stays -/
def wPut (w : Nat → Nat → Option Nat) (l k v : Nat) : Nat → Nat → Option Nat :=
  fun l' k' => if l' = l ∧ k' = k then some ((w l k).getD v) else w l' k'

theorem putAcct_live {u : St} {l addr val : Nat} {key : Key} {b : Blk} (hb : findBlk u l = some b) {h' : Heap} {r' : Nat}
    (hp : putTopFixed u.heap b.root key (some { addr := addr, val := val }) b.height = .ok (h', r')) :
    putAcct true u l key addr val = .ok (setRoot { u with heap := h' } l r') := by
  unfold putAcct actDb
  rw [hb]
  simp only
  show (putTopFixed u.heap b.root key (some { addr := addr, val := val }) b.height >>= _) = _
  rw [hp, bind_ok]

/-- **Put in the genesis phase** (dye 0 = the dye of every node of the block's own trie): always succeeds, works on the
    block's own nodes only, no other block's lookups change, and a repeated Put of one account is dropped -/
theorem grel_put {L : Nat} {E : Enc L} {u : St} {w : Nat → Nat → Option Nat} (hr : GRel E u w) {l : Nat} {b : Blk}
    (hb : findBlk u l = some b) (k v : Nat) :
    ∃ u', putAcct true u l (E.enc k) k v = .ok u' ∧ GRel E u' (wPut w l k v) := by
  obtain ⟨full, P, g⟩ := hr.heap
  obtain ⟨hbm, hbl⟩ := findBlk_some hb
  obtain ⟨hb0, _⟩ := hr.bmeta b hbm
  obtain ⟨r1, r2, r3⟩ := g.root b hbm
  rw [hbl] at r3
  have hLpos := E.pos
  have hklen := E.len k
  have hkne : E.enc k ≠ [] := by
    intro e; rw [e] at hklen; simp at hklen; omega
  obtain ⟨rn, hrn⟩ : ∃ rn, (labs u.heap)[b.root]? = some rn := ⟨(labs u.heap)[b.root], by rw [List.getElem?_eq_getElem r1]⟩
  obtain ⟨lh', res, full', hput, post⟩ := putL_spec (E := E) (P := P l) ((E.enc k).length + 1) (labs u.heap) full b.root (E.enc k)
    (some ⟨k, v⟩) 0 g.ok (fun id n c => g.closed l id n c) r3 ⟨rn, hrn⟩ (by rw [r2, hklen]; simp) hkne (by omega)
    (fun id n hp hn => by rw [g.dye0 l id n hp hn]; exact Nat.le_refl _) ⟨⟨k, v⟩, rfl, by rw [r2]; rfl⟩
  have htop : putTopL (labs u.heap) b.root (E.enc k) (some ⟨k, v⟩) 0 = some (lh', res.getD b.root) := by
    unfold putTopL; rw [hput]; cases res <;> rfl
  obtain ⟨h', p1, p2, p3⟩ := putTop_sim hr.hok b.root (E.enc k) (some ⟨k, v⟩) 0 lh' (res.getD b.root) htop
  rw [← hb0] at p1
  refine ⟨_, putAcct_live hb p1, ?_⟩
  have hfind : ∀ x, findBlk (setRoot { u with heap := h' } l (res.getD b.root)) x =
      (findBlk u x).map (fun b0 => if b0.label == l then { b0 with root := res.getD b.root } else b0) := by
    intro x; rw [findBlk_setRoot]; rfl
  have hmem : ∀ b', b' ∈ (setRoot { u with heap := h' } l (res.getD b.root)).blocks →
      ∃ b0 ∈ u.blocks, b' = if b0.label == l then { b0 with root := res.getD b.root } else b0 := by
    intro b' hb'
    have hb'' : b' ∈ u.blocks.map (fun b0 => if b0.label == l then { b0 with root := res.getD b.root } else b0) := hb'
    obtain ⟨b0, h1, h2⟩ := List.mem_map.mp hb''
    exact ⟨b0, h1, h2.symm⟩
  have hlabs : labs (setRoot { u with heap := h' } l (res.getD b.root)).heap = lh' := p3
  have holdget : ∀ {id : Nat}, id < (labs u.heap).length → ∃ n, (labs u.heap)[id]? = some n := by
    intro id hid; exact ⟨(labs u.heap)[id], by rw [List.getElem?_eq_getElem hid]⟩
  -- nodes of other blocks are untouched
  have hother : ∀ l' id, l' ≠ l → P l' id → lh'[id]? = (labs u.heap)[id]? := by
    intro l' id hne hp
    obtain ⟨n, hn⟩ := holdget (g.valid l' id hp)
    rcases post.old id n hn with q | ⟨q, _⟩
    · rw [q, hn]
    · exact absurd (g.sep l' l id hp q) hne
  refine ⟨hr.stable, hr.comm, hr.disk, p2, ?_, ?_, ?_⟩
  · intro b' hb'
    obtain ⟨b0, h1, rfl⟩ := hmem b' hb'
    have := hr.bmeta b0 h1
    split <;> exact this
  · intro b' hb'
    obtain ⟨b0, h1, rfl⟩ := hmem b' hb'
    have hl : (if b0.label == l then { b0 with root := res.getD b.root } else b0).label = b0.label := by split <;> rfl
    rw [hl, hfind, hr.self b0 h1]; rfl
  · refine ⟨full', fun l' id => if l' = l then (P l id ∨ ((labs u.heap).length ≤ id ∧ id < lh'.length)) else P l' id, ?_⟩
    refine ⟨by rw [hlabs]; exact post.ok, ?_, ?_, ?_, ?_, ?_, ?_⟩
    · -- roots
      intro b' hb'
      obtain ⟨b0, h1, rfl⟩ := hmem b' hb'
      rw [hlabs]
      by_cases e : b0.label = l
      · have hb0eq : b0 = b := by
          have := hr.self b0 h1
          rw [e, hb] at this; cases this; rfl
        subst hb0eq
        have e' : (b0.label == l) = true := by simpa using e
        simp only [e', if_true]
        rw [if_pos e]
        cases hres : res with
        | none =>
          simp only [Option.getD_none]
          exact ⟨by have := post.len; omega, by rw [post.fsame _ r1]; exact r2, Or.inl r3⟩
        | some t =>
          simp only [Option.getD_some]
          obtain ⟨t1, n, nt, _, t3, _, t5, _⟩ := post.root t hres
          exact ⟨valid_lt t3, by rw [t5]; exact r2, Or.inr ⟨t1, valid_lt t3⟩⟩
      · have e' : (b0.label == l) = false := by simpa using e
        simp only [e', Bool.false_eq_true, if_false]
        rw [if_neg e]
        obtain ⟨q1, q2, q3⟩ := g.root b0 h1
        exact ⟨by have := post.len; omega, by rw [post.fsame _ q1]; exact q2, q3⟩
    · -- closed
      intro l' id n' c hp hn hc
      rw [hlabs] at hn
      by_cases e : l' = l
      · simp only [e, if_true] at hp ⊢
        have hcvalid : c < lh'.length := by
          obtain ⟨nc, g1, _, _⟩ := post.ok.kid id n' c hn hc
          exact valid_lt g1
        have hfin : ((c < (labs u.heap).length → P l c)) → P l c ∨ ((labs u.heap).length ≤ c ∧ c < lh'.length) := by
          intro hh
          by_cases hc' : c < (labs u.heap).length
          · exact Or.inl (hh hc')
          · exact Or.inr ⟨by omega, hcvalid⟩
        rcases hp with hp | ⟨hp1, hp2⟩
        · obtain ⟨n, hn0⟩ := holdget (g.valid l id hp)
          rcases post.old id n hn0 with q | ⟨_, _, _, n'', q1, _, _, _, _, q6⟩
          · have hnn : n = n' := by rw [q] at hn; exact Option.some.inj hn
            subst hnn
            exact Or.inl (g.closed l id n c hp hn0 hc)
          · have hnn : n'' = n' := by rw [q1] at hn; exact Option.some.inj hn
            subst hnn
            exact hfin (q6 c hc)
        · exact hfin ((post.new id n' hp1 hn).2 c hc)
      · simp only [e, if_false] at hp ⊢
        rw [hother l' id e hp] at hn
        exact g.closed l' id n' c hp hn hc
    · -- valid
      intro l' id hp
      rw [hlabs]
      by_cases e : l' = l
      · simp only [e, if_true] at hp
        rcases hp with hp | ⟨_, hp2⟩
        · have := g.valid l id hp; have := post.len; omega
        · exact hp2
      · simp only [e, if_false] at hp
        have := g.valid l' id hp; have := post.len; omega
    · -- dye0
      intro l' id n' hp hn
      rw [hlabs] at hn
      by_cases e : l' = l
      · simp only [e, if_true] at hp
        rcases hp with hp | ⟨hp1, _⟩
        · obtain ⟨n, hn0⟩ := holdget (g.valid l id hp)
          rcases post.old id n hn0 with q | ⟨_, _, _, n'', q1, _, q3, _⟩
          · have hnn : n = n' := by rw [q] at hn; exact Option.some.inj hn
            subst hnn
            exact g.dye0 l id n hp hn0
          · have hnn : n'' = n' := by rw [q1] at hn; exact Option.some.inj hn
            subst hnn
            rw [q3]; exact g.dye0 l id n hp hn0
        · rcases (post.new id n' hp1 hn).1 with q | ⟨pp, np, q1, q2, q3⟩
          · exact q
          · rw [q3]; exact g.dye0 l pp np q1 q2
      · simp only [e, if_false] at hp
        rw [hother l' id e hp] at hn
        exact g.dye0 l' id n' hp hn
    · -- sep
      intro l1 l2 id h1 h2
      by_cases e1 : l1 = l <;> by_cases e2 : l2 = l
      · rw [e1, e2]
      · simp only [e1, if_true] at h1
        simp only [e2, if_false] at h2
        rcases h1 with h1 | ⟨h1, _⟩
        · rw [e1]; exact g.sep l l2 id h1 h2
        · have := g.valid l2 id h2; omega
      · simp only [e1, if_false] at h1
        simp only [e2, if_true] at h2
        rcases h2 with h2 | ⟨h2, _⟩
        · rw [e2]; exact g.sep l1 l id h1 h2
        · have := g.valid l1 id h1; omega
      · simp only [e1, if_false] at h1
        simp only [e2, if_false] at h2
        exact g.sep l1 l2 id h1 h2
    · -- tables
      intro b' hb' k'
      obtain ⟨b0, h1, rfl⟩ := hmem b' hb'
      rw [hlabs]
      by_cases e : b0.label = l
      · have hb0eq : b0 = b := by
          have := hr.self b0 h1
          rw [e, hb] at this; cases this; rfl
        subst hb0eq
        have e' : (b0.label == l) = true := by simpa using e
        simp only [e', if_true]
        have hsem := post.sem (E.enc k') (by rw [E.len, E.len])
        have hold := g.tbl b0 h1 k'
        rw [e] at hold ⊢
        unfold TblRel at hold ⊢
        show entR (look lh' (res.getD b0.root) (E.enc k')) = _
        rw [hsem]
        by_cases ek : k' = k
        · subst ek
          rw [if_pos rfl, hold]
          have : wPut w l k' v l k' = some ((w l k').getD v) := by unfold wPut; rw [if_pos ⟨rfl, rfl⟩]
          rw [this]
          cases hw : w l k' with
          | none => rfl
          | some v0 => rfl
        · have hne : E.enc k' ≠ E.enc k := fun h => ek (E.inj _ _ h)
          rw [if_neg hne, hold]
          have : wPut w l k v l k' = w l k' := by
            unfold wPut; rw [if_neg (fun h => ek h.2)]
          rw [this]
      · have e' : (b0.label == l) = false := by simpa using e
        simp only [e', Bool.false_eq_true, if_false]
        obtain ⟨q1, q2, q3⟩ := g.root b0 h1
        have hw : wPut w l k v b0.label = w b0.label := by
          funext k''; unfold wPut; rw [if_neg (fun h => e h.1)]
        rw [hw]
        have hfr : look lh' b0.root (E.enc k') = look (labs u.heap) b0.root (E.enc k') := by
          apply look_frame (P b0.label) (fun id n c => g.closed b0.label id n c) (fun id hp => hother b0.label id e hp)
          exact q3
        unfold TblRel
        rw [hfr]
        exact g.tbl b0 h1 k'

/-! ### Get / views -/

/-- nothing is persisted yet, so a `Get` never fills the read-through cache: the state does not change -/
theorem getAcct_nodisk {u s : St} {l addr : Nat} {key : Key} {v : Option Nat} (hd : u.disk = [])
    (h : getAcct u l key addr = .ok (s, v)) : s = u := by
  unfold getAcct at h
  cases hr : rootOf u l with
  | panic => rw [hr] at h; cases h
  | stuck => rw [hr] at h; cases h
  | ok r =>
    rw [hr, bind_ok] at h
    have hdg : diskGet u addr = none := by unfold diskGet; rw [hd]; rfl
    rw [hdg] at h
    unfold getTop at h
    cases hf : findTop u.heap r key with
    | panic => rw [hf] at h; cases h
    | stuck => rw [hf] at h; cases h
    | ok o =>
      rw [hf, bind_ok] at h
      cases o with
      | none =>
        simp only [bind_ok, Res.ok.injEq, Prod.mk.injEq] at h
        exact h.1.symm
      | some d =>
        simp only [bind_ok, Res.ok.injEq, Prod.mk.injEq] at h
        exact h.1.symm

/-- **views in the genesis phase**: a height-0 block reads exactly what IT holds — never what another height-0 block wrote -/
theorem grel_view {L : Nat} {E : Enc L} {u : St} {w : Nat → Nat → Option Nat} (hr : GRel E u w) {l : Nat} {b : Blk}
    (hb : findBlk u l = some b) (k : Nat) : peekAcct u l (E.enc k) k = .ok (w l k) := by
  obtain ⟨full, P, g⟩ := hr.heap
  obtain ⟨hbm, hbl⟩ := findBlk_some hb
  have hroot : rootOf u l = .ok b.root := by unfold rootOf actDb; rw [hb]
  have hkpos : (E.enc k).length ≠ 0 := by rw [E.len]; exact Nat.pos_iff_ne_zero.mp E.pos
  have hdg : diskGet u k = none := by unfold diskGet; rw [hr.disk]; rfl
  have ht := g.tbl b hbm k
  rw [hbl] at ht
  have hfind : findTop u.heap b.root (E.enc k) = .ok (((w l k).map ent0).map (fun e => dataK k e.val)) := by
    rw [findTop_sim hr.hok]
    unfold findTopL
    rw [if_neg hkpos]
    exact data_of_tbl ht
  unfold peekAcct
  rw [hroot, bind_ok, hdg]
  unfold peekTop
  rw [hfind, bind_ok]
  cases w l k <;> rfl

/-! ### the first SetStableBlock -/

theorem walk_leafless {bs : List Blk} (hp : ∀ z ∈ bs, z.parent = none) (x : Nat) (ex : Option Nat) :
    ∀ f, walk f bs (some x) ex = []
  | 0 => rfl
  | f + 1 => by
    rw [walk]
    have : bs.filter (fun b => b.parent == some x && some b.label != ex) = [] := by
      rw [List.filter_eq_nil_iff]
      intro z hz
      rw [hp z hz]
      simp
    rw [this]; rfl

theorem flatMap_single {α : Type} : ∀ (l : List α), l.flatMap (fun b => [b]) = l
  | [] => rfl
  | a :: l => by rw [List.flatMap_cons, flatMap_single l]; rfl

theorem walk_genesis {bs : List Blk} (hp : ∀ z ∈ bs, z.parent = none) (g f : Nat) :
    walk (f + 1) bs none (some g) = bs.filter (fun b => b.label != g) := by
  rw [walk]
  have e1 : (fun (b : Blk) => b :: walk f bs (some b.label) (some g)) = fun b => [b] := by
    funext b; rw [walk_leafless hp]
  have e2 : bs.filter (fun b => b.parent == none && some b.label != some g) = bs.filter (fun b => b.label != g) := by
    apply List.filter_congr
    intro z hz
    rw [hp z hz]
    by_cases e : z.label = g
    · simp [e]
    · have a1 : (some z.label != some g) = true := by
        rw [bne_iff_ne]; intro h; exact e (Option.some.inj h)
      have a2 : (z.label != g) = true := by rw [bne_iff_ne]; exact e
      rw [a1, a2]; rfl
  rw [e1, e2, flatMap_single]

/-- the abstract state the first stable block starts from: stable block `g` (height 0), its table = what `g` holds
    (all dyed 0 = the cache dye: from now on these entries are indistinguishable from read-through cache entries, and they
    ARE equal to the persisted values), no unconfirmed block, persisted accounts = what `g` holds -/
def aGenesis (w : Nat → Nat → Option Nat) (g : Nat) : ASt :=
  { sl := g, sh := 0, stbl := fun k => (w g k).map ent0, blocks := [], disk := w g }

/-- `Collect(0)` on a height-0 block's trie: everything the block holds -/
theorem grel_collect {L : Nat} {E : Enc L} {u : St} {w : Nat → Nat → Option Nat} (hr : GRel E u w) {b : Blk}
    (hbm : b ∈ u.blocks) :
    ∃ ds, collectTop u.heap b.root b.height = .ok ds ∧ ∀ d : Data, d ∈ ds ↔ (w b.label d.addr).map ent0 = some ⟨d.val, 0⟩ := by
  obtain ⟨full, P, g⟩ := hr.heap
  obtain ⟨hb0, _⟩ := hr.bmeta b hbm
  obtain ⟨r1, r2, r3⟩ := g.root b hbm
  obtain ⟨ds, e1, e2⟩ := collectedL_char g.ok 0 ((labs u.heap).length + 1) b.root [] [] List.nodup_nil
    (fun a ha => by cases ha) r1 (by simp)
  refine ⟨ds, by rw [collectTop_sim hr.hok, hb0]; simpa using e1, ?_⟩
  obtain ⟨rn, hrn⟩ : ∃ rn, (labs u.heap)[b.root]? = some rn := ⟨(labs u.heap)[b.root], by rw [List.getElem?_eq_getElem r1]⟩
  have hrdye : rn.dye ≤ 0 := by rw [g.dye0 b.label b.root rn r3 hrn]; exact Nat.le_refl _
  intro d
  rw [e2]
  constructor
  · rintro ⟨m, nm, p, hm, ht, hdat⟩
    obtain ⟨s, ps⟩ := p.toR g.ok
    have hfull := ps.full g.ok
    rw [r2, List.nil_append] at hfull
    obtain ⟨hlen, dd, hd1, hd2⟩ := g.ok.term m nm hm ht
    rw [hdat] at hd1; cases hd1
    have hs : s = E.enc d.addr := by rw [← hfull, hd2]
    have hsne : s ≠ [] := by
      intro h0
      have := E.len d.addr
      rw [← hs, h0] at this
      have := E.pos
      simp only [List.length_nil] at *; omega
    have hlook := look_of_path g.ok ps hsne hm
    rw [hs] at hlook
    have ht := g.tbl b hbm d.addr
    unfold TblRel at ht
    rw [hlook, entR_ok_some] at ht
    cases hte : w b.label d.addr with
    | none => rw [hte] at ht; cases ht
    | some v0 =>
      rw [hte] at ht
      simp only [Option.map_some, Res.ok.injEq, Option.some.injEq] at ht
      have h2 : nm.data = some ⟨d.addr, (ent0 v0).val⟩ := congrArg Ent.data ht
      rw [hdat] at h2
      simp only [Option.some.injEq] at h2
      have hv : d.val = v0 := congrArg Data.val h2
      rw [hv]; rfl
  · intro hte
    have ht := g.tbl b hbm d.addr
    unfold TblRel at ht
    rw [hte] at ht
    obtain ⟨o, ho, hoe⟩ := entR_ok ht
    cases o with
    | none => cases hoe
    | some nm =>
      simp only [Option.map_some, Option.some.injEq] at hoe
      have h1 : nm.dye = 0 := congrArg Ent.dye hoe
      have h2 : nm.terminal = true := congrArg Ent.terminal hoe
      have h3 : nm.data = some ⟨d.addr, d.val⟩ := congrArg Ent.data hoe
      obtain ⟨m, hm, pm⟩ := path_of_look (E.enc d.addr).length b.root (E.enc d.addr) nm (Nat.le_refl _) ho
      exact ⟨m, nm, pm.toH g.ok hrn hrdye hm h1, hm, h2, h3⟩

/-- **the first `SetStableBlock`** (of a height-0 block `g`, out of the genesis phase): it succeeds, drops exactly the OTHER
    height-0 blocks (in insertion order), and the resulting state is related to the abstract machine started at `g` -/
theorem grel_stable {L : Nat} {E : Enc L} {u : St} {w : Nat → Nat → Option Nat} (hr : GRel E u w) {g : Nat} {b : Blk}
    (hb : findBlk u g = some b) :
    ∃ u', setStable u g = .ok (some (u', (u.blocks.filter (fun x => x.label != g)).map (·.label))) ∧
      URel E u' (aGenesis w g) := by
  obtain ⟨hbm, hbl⟩ := findBlk_some hb
  obtain ⟨hb0, hbp⟩ := hr.bmeta b hbm
  obtain ⟨ds, hds1, hds2⟩ := grel_collect hr hbm
  rw [hbl] at hds2
  have hpar : ∀ z ∈ u.blocks, z.parent = none := fun z hz => (hr.bmeta z hz).2
  have hsl : stableLabel u = none := by unfold stableLabel; rw [hr.stable]; rfl
  have hwalk : walk (u.blocks.length + 1) u.blocks (stableLabel u) (some b.label) = u.blocks.filter (fun x => x.label != g) := by
    rw [hsl, hbl]; exact walk_genesis hpar g _
  have hpath : pathTo (u.blocks.length + 1) u g = [b] := by
    unfold pathTo
    rw [hb]
    simp only
    have : isLast u b.parent = true := by unfold isLast; rw [hsl, hbp]; rfl
    rw [if_pos this]
  have hone := commitOne_eq hds1
  rw [hwalk] at hone
  refine ⟨commitSt u b ds, ?_, ?_⟩
  · unfold setStable
    rw [hb]
    simp only
    rw [hpath]
    simp only [List.reverse_cons, List.reverse_nil, List.nil_append, List.foldlM_cons, List.foldlM_nil]
    rw [hone]
    rfl
  · -- no unconfirmed block is left
    have hblocks : (commitSt u b ds).blocks = [] := by
      show u.blocks.filter _ = []
      rw [List.filter_eq_nil_iff]
      intro x hx
      rw [hwalk]
      by_cases e : x.label = g
      · rw [hbl]; simp [e]
      · have : ((u.blocks.filter (fun x => x.label != g)).map (·.label)).contains x.label = true := by
          rw [List.contains_iff_mem, List.mem_map]
          exact ⟨x, List.mem_filter.mpr ⟨hx, by simpa using e⟩, rfl⟩
        rw [this]; simp
    have hfindnone : ∀ l, findBlk (commitSt u b ds) l = none := by
      intro l; unfold findBlk; rw [hblocks]; rfl
    obtain ⟨full, P, gh⟩ := hr.heap
    obtain ⟨r1, r2, r3⟩ := gh.root b hbm
    rw [hbl] at r3
    have hdisk : ∀ k, (commitSt u b ds).disk.lookup k = w g k := by
      intro k
      show (diskPut u.disk ds).lookup k = _
      rw [hr.disk]
      rw [lookup_diskPut (disk := []) (adisk := fun _ => none) (t := fun k => (w g k).map ent0) (h := 0) (fun _ => rfl) hds2 k]
      unfold persist
      simp only
      cases hw : w g k with
      | none => rfl
      | some v => simp [ent0]
    refine ⟨?_, ?_, ?_, ?_, ?_, hdisk, ?_⟩
    · -- HRel
      refine ⟨hr.hok, full, fun id o => o = none ∧ P g id, ?_⟩
      have hc1 : (hsOf (commitSt u b ds)).abs.lh = labs u.heap := rfl
      have hc2 : (hsOf (commitSt u b ds)).abs.sroot = b.root := rfl
      have hc3 : ∀ l, (hsOf (commitSt u b ds)).abs.roots l = none := by
        intro l
        show (findBlk (commitSt u b ds) l).map _ = none
        rw [hfindnone]; rfl
      refine ⟨⟨trivial, (fun x hx => by cases hx), (fun x hx => by cases hx), ?_⟩, by rw [hc1]; exact gh.ok, ?_, ?_, ?_, ?_, ?_, ?_, ?_, ?_, ?_⟩
      · intro k e he
        show w g k = some e.val ∧ e.dye ≤ 0
        have he' : (w g k).map ent0 = some e := he
        cases hw : w g k with
        | none => rw [hw] at he'; cases he'
        | some v =>
          rw [hw] at he'
          simp only [Option.map_some, Option.some.injEq] at he'
          rw [← he']; exact ⟨rfl, Nat.le_refl _⟩
      · intro l
        rw [hc3]
        show (none : Option Nat).isSome ↔ (findB [] l).isSome
        simp [findB]
      · rw [hc1, hc2]; exact ⟨r1, r2, rfl, r3⟩
      · intro l r hrl; rw [hc3] at hrl; cases hrl
      · intro id n x o hv hn hx
        rw [hc1] at hn
        exact ⟨hv.1, gh.closed g id n x hv.2 hn hx⟩
      · intro id l hv; cases hv.1
      · intro id n o hv hn
        rw [hc1] at hn
        rw [gh.dye0 g id n hv.2 hn]; exact Nat.zero_le _
      · intro id n l b' o hv; cases hv.1
      · intro l r b' hrl; rw [hc3] at hrl; cases hrl
      · intro k
        rw [hc1, hc2]
        have := gh.tbl b hbm k
        rw [hbl] at this
        exact this
    · show some (b.label, b.height) = some (g, 0)
      rw [hbl, hb0]
    · refine ⟨(b.label, b.height), ?_, hbl⟩
      show (b.label, b.height) ∈ u.committed ++ [(b.label, b.height)]
      simp
    · intro l
      rw [hfindnone]; rfl
    · intro x hx; rw [hblocks] at hx; cases hx
    · rw [hblocks]; rfl

end LemoProofs.CowHeapL

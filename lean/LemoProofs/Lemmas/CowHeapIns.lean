/-
  C09 (heap refinement, part 6): the read-through insertion `insertL` (what `AccountTrieDB.Get` does on a
  miss) on logical heaps.  It mutates shared nodes in place, but for EVERY node of the heap — hence for the
  root of every block's trie that shares the mutated node — every lookup is unchanged, except that the
  inserted (previously missing) key is now found with the inserted data (dye 0).
-/
import LemoProofs.Lemmas.CowHeapLA
set_option linter.unusedSimpArgs false
set_option linter.unusedVariables false
namespace LemoProofs.CowHeapL
open LemoModel.CowTrie

/-- `new` answers like `old`, or `old` missed the absolute key `K` and `new` finds the entry `e` -/
def InsRel (K : Key) (e : Ent) (absKey : Key) (old new : Res (Option LN)) : Prop :=
  entR new = entR old ∨ (old = .ok none ∧ absKey = K ∧ entR new = .ok (some e))

theorem valid_lt {lh : LHeap} {id : Nat} {n : LN} (h : lh[id]? = some n) : id < lh.length := by
  by_cases x : id < lh.length
  · exact x
  · rw [List.getElem?_eq_none (by omega)] at h; cases h

/-- lookups below node `x` only depend on the nodes whose absolute prefix extends `full x` -/
theorem look_below {L : Nat} {E : Enc L} {lh lh' : LHeap} {full : Nat → Key} (hok : LOk E lh full) {x : Nat}
    (hx : x < lh.length)
    (hagree : ∀ y, y < lh.length → full x <+: full y → lh'[y]? = lh[y]?) (t : Key) :
    look lh' x t = look lh x t := by
  apply look_frame (fun y => y < lh.length ∧ full x <+: full y)
  · intro id n c ⟨h1, h2⟩ hn hc
    obtain ⟨nc, g1, g2, g3⟩ := hok.kid id n c hn hc
    exact ⟨valid_lt g1, by rw [g3]; exact h2.trans (List.prefix_append _ _)⟩
  · intro y ⟨h1, h2⟩; exact hagree y h1 h2
  · exact ⟨hx, List.prefix_refl _⟩

theorem kid_full_longer {L : Nat} {E : Enc L} {lh : LHeap} {full : Nat → Key} (hok : LOk E lh full) {id x : Nat} {n : LN}
    (hn : lh[id]? = some n) (hx : x ∈ n.kids) : (full id).length < (full x).length := by
  obtain ⟨nc, g1, g2, g3⟩ := hok.kid id n x hn hx
  rw [g3, List.length_append]
  have : 0 < nc.key.length := List.length_pos_iff.mpr g2
  omega

/-- nothing at or above `id` lies below a child of `id` -/
theorem not_below_kid {L : Nat} {E : Enc L} {lh : LHeap} {full : Nat → Key} (hok : LOk E lh full) {id x y : Nat} {n : LN}
    (hn : lh[id]? = some n) (hx : x ∈ n.kids) (hy : (full y).length ≤ (full id).length) : ¬ full x <+: full y := by
  intro h
  have := h.length_le
  have := kid_full_longer hok hn hx
  omega

/-- descending into a child that keeps its key and entry, given the relation for the child's lookups -/
theorem gen_desc {L : Nat} {E : Enc L} {lh lh' : LHeap} {full : Nat → Key} {K : Key} {e : Ent} (hok : LOk E lh full)
    {id x : Nat} {n nx nx' : LN} (hn : lh[id]? = some n) (hx : x ∈ n.kids) (hnx : lh[x]? = some nx)
    (hnx' : lh'[x]? = some nx') (hk : nx'.key = nx.key) (he : nx'.ent = nx.ent) (s : Key)
    (hs : (full id).length + s.length = L)
    (ih : ∀ t : Key, t ≠ [] → t.length < s.length → (full x).length + t.length = L →
      InsRel K e (full x ++ t) (look lh x t) (look lh' x t)) (i i' : Nat) :
    InsRel K e (full id ++ s) (desc1 lh s (.at i x (lcp nx.key s))) (desc1 lh' s (.at i' x (lcp nx'.key s))) := by
  obtain ⟨nc, g1, g2, g3⟩ := hok.kid id n x hn hx
  rw [hnx] at g1; cases g1
  simp only [desc1, hnx, hnx', hk]
  by_cases t1 : lcp nx.key s = min nx.key.length s.length
  · rw [if_pos t1, if_pos t1]
    by_cases t2 : s.length = nx.key.length
    · rw [if_pos t2, if_pos t2]
      left; rw [entR_ok_some, entR_ok_some, he]
    · rw [if_neg t2, if_neg t2]
      by_cases t3 : s.length > nx.key.length
      · rw [if_pos t3, if_pos t3]
        have hpos : 0 < nx.key.length := List.length_pos_iff.mpr g2
        have hj : lcp nx.key s = nx.key.length := by omega
        have hpre : nx.key = s.take nx.key.length := lcp_eq_left hj
        have hfull : full x ++ s.drop (lcp nx.key s) = full id ++ s := by
          rw [g3, hj, List.append_assoc]
          congr 1
          conv => rhs; rw [← List.take_append_drop nx.key.length s]
          rw [← hpre]
        rw [← hfull]
        apply ih
        · intro h0
          have := congrArg List.length h0
          simp at this; omega
        · simp; omega
        · rw [g3, List.length_append, List.length_drop, hj]; omega
      · rw [if_neg t3, if_neg t3]; left; rfl
  · rw [if_neg t1, if_neg t1]; left; rfl

/-- one generic step of the universal induction: the node keeps its record; every child keeps its first
    symbol; for the children that the scan can hit a relation for the descent is given -/
theorem gen_step {L : Nat} {E : Enc L} {lh lh' : LHeap} {full : Nat → Key} {K : Key} {e : Ent} (hok : LOk E lh full)
    {id : Nat} {n : LN} (hn : lh[id]? = some n) (hn' : lh'[id]? = some n) (s0 : Nat) (st : Key)
    (hheads : ∀ x ∈ n.kids, ∀ c0, Hd lh x c0 → Hd lh' x c0)
    (hdesc : ∀ x ∈ n.kids, ∀ nx nx', lh[x]? = some nx → lh'[x]? = some nx' → ∀ i i',
      InsRel K e (full id ++ s0 :: st) (desc1 lh (s0 :: st) (.at i x (lcp nx.key (s0 :: st))))
        (desc1 lh' (s0 :: st) (.at i' x (lcp nx'.key (s0 :: st))))) :
    InsRel K e (full id ++ s0 :: st) (look lh id (s0 :: st)) (look lh' id (s0 :: st)) := by
  rw [look_step hn, look_step hn']
  rcases scanL_transfer (lh' := lh') hheads (scanL_cases s0 st n.kids 0 (hok.kidsValid hn)) with
    ⟨e1, e2⟩ | ⟨i', e1, e2⟩ | ⟨i', c, ch, ch', ct, ct', hc, h1, h2, h3, h4, e1, e2⟩
  · rw [e1, e2]; left; rfl
  · rw [e1, e2]; left; rfl
  · rw [e1, e2]; exact hdesc c hc ch ch' h1 h2 _ _


theorem get_sa_old {α : Type} (lh : List α) (news : List α) (b : α) (m id : Nat) (h1 : id < lh.length) (h2 : id ≠ m) :
    ((lh ++ news).set m b)[id]? = lh[id]? := by grind
theorem get_sa_m {α : Type} (lh : List α) (news : List α) (b : α) (m : Nat) (h1 : m < lh.length) :
    ((lh ++ news).set m b)[m]? = some b := by grind
theorem get_sa_new0 {α : Type} (lh : List α) (a : α) (rest : List α) (b : α) (m : Nat) (h1 : m < lh.length) :
    ((lh ++ a :: rest).set m b)[lh.length]? = some a := by grind
theorem get_sa_new1 {α : Type} (lh : List α) (a a2 : α) (rest : List α) (b : α) (m : Nat) (h1 : m < lh.length) :
    ((lh ++ a :: a2 :: rest).set m b)[lh.length + 1]? = some a2 := by grind

/-- **adding the cache leaf under node `m`**: the relation holds for every node of the old heap -/
theorem ins_leaf_univ {L : Nat} {E : Enc L} {lh : LHeap} {full : Nat → Key} (hok : LOk E lh full) {m : Nat} {cn : LN}
    (hm : lh[m]? = some cn) {k0 : Nat} {kt : Key} {pre post : List Nat} (hkids : cn.kids = pre ++ post)
    (hpre : ∀ x ∈ pre, HdLt lh k0 x)
    (hpost : post = [] ∨ ∃ c ch c0 ct rest, post = c :: rest ∧ lh[c]? = some ch ∧ ch.key = c0 :: ct ∧ k0 < c0)
    (hlen : (full m).length + (k0 :: kt).length = L) (dye : Nat) (data : Option Data) :
    ∀ (n id : Nat) (s : Key), s.length ≤ n → s ≠ [] → id < lh.length → (full id).length + s.length = L →
      InsRel (full m ++ k0 :: kt) ⟨dye, true, data⟩ (full id ++ s) (look lh id s)
        (look ((lh ++ [lleaf (k0 :: kt) dye data]).set m { cn with kids := pre ++ lh.length :: post }) id s) := by
  have hmlt := valid_lt hm
  generalize hlh' : (lh ++ [lleaf (k0 :: kt) dye data]).set m { cn with kids := pre ++ lh.length :: post } = lh'
  have hold : ∀ id, id < lh.length → id ≠ m → lh'[id]? = lh[id]? := by
    intro id h1 h2; rw [← hlh']; exact get_sa_old _ _ _ _ _ h1 h2
  have hm' : lh'[m]? = some { cn with kids := pre ++ lh.length :: post } := by
    rw [← hlh']; exact get_sa_m _ _ _ _ hmlt
  have hnew : lh'[lh.length]? = some (lleaf (k0 :: kt) dye data) := by
    rw [← hlh']; exact get_sa_new0 _ _ _ _ _ hmlt
  -- every old node keeps key and entry
  have hkeep : ∀ (x : Nat) (nx : LN), lh[x]? = some nx → ∃ nx' : LN, lh'[x]? = some nx' ∧ nx'.key = nx.key ∧ nx'.ent = nx.ent := by
    intro x nx hx
    by_cases e : x = m
    · subst e; rw [hm] at hx; cases hx
      exact ⟨_, hm', rfl, rfl⟩
    · exact ⟨nx, by rw [hold x (valid_lt hx) e]; exact hx, rfl, rfl⟩
  have hheads : ∀ x c0, Hd lh x c0 → Hd lh' x c0 := by
    intro x c0 ⟨ch, ct, h1, h2⟩
    obtain ⟨nx', g1, g2, _⟩ := hkeep x ch h1
    exact ⟨nx', ct, g1, g2.trans h2⟩
  intro n
  induction n with
  | zero =>
    intro id s h1 h2
    cases s with
    | nil => exact absurd rfl h2
    | cons a t => simp at h1
  | succ n ih =>
    intro id s hsn hne hid hfl
    cases s with
    | nil => exact absurd rfl hne
    | cons s0 st =>
    by_cases e : id = m
    · -- the node that receives the leaf
      subst e
      have hsl : (s0 :: st).length = (k0 :: kt).length := by omega
      have hsame : ∀ x ∈ pre ++ post, lh'[x]? = lh[x]? ∧ ∀ t, look lh' x t = look lh x t := by
        intro x hx
        have hxk : x ∈ cn.kids := by rw [hkids]; exact hx
        obtain ⟨nc, g1, g2, g3⟩ := hok.kid id cn x hm hxk
        have hxlt := valid_lt g1
        have hxm : x ≠ id := by
          intro e; have := kid_full_longer hok hm hxk; rw [e] at this; omega
        refine ⟨hold x hxlt hxm, fun t => look_below hok hxlt ?_ t⟩
        intro y hy hpfx
        apply hold y hy
        intro e
        exact not_below_kid hok hm hxk (by rw [e]; exact Nat.le_refl _) hpfx
      obtain ⟨g1, g2⟩ := LA_leaf (lh' := lh') (by rw [← hkids]; exact hok.kidsValid hm) hpre hpost hsame hnew rfl
        (s0 :: st) hsl
      rw [look_step hm', look_step hm, hkids]
      show InsRel _ _ _ _ (desc1 lh' (s0 :: st) (scanL lh' (s0 :: st) (pre ++ lh.length :: post) 0))
      rw [g1]
      by_cases heq : s0 :: st = k0 :: kt
      · rw [if_pos heq]
        right
        exact ⟨g2 heq, by rw [heq], rfl⟩
      · rw [if_neg heq]; left; rfl
    · -- any other node: same record, same children
      cases hn : lh[id]? with
      | none => rw [List.getElem?_eq_none_iff] at hn; omega
      | some nd =>
      have hn' : lh'[id]? = some nd := by rw [hold id hid e]; exact hn
      apply gen_step hok hn hn' s0 st (fun x _ c0 h => hheads x c0 h)
      intro x hx nx nx' hnx hnx' i i'
      obtain ⟨nx'', g1, g2, g3⟩ := hkeep x nx hnx
      rw [hnx'] at g1; cases g1
      apply gen_desc hok hn hx hnx hnx' g2 g3 (s0 :: st) hfl
      intro t ht1 ht2 ht3
      exact ih x t (by simp at hsn ht2; omega) ht1 (valid_lt hnx) ht3


theorem head_take {c0 : Nat} {ct : Key} {j : Nat} (hj : 0 < j) : ∃ ct', (c0 :: ct).take j = c0 :: ct' := by
  cases j with
  | zero => omega
  | succ j => exact ⟨ct.take j, rfl⟩

/-- **splitting node `c` in place** (the cache leaf shares a proper prefix with `c`'s key): the relation holds
    for every node of the old heap other than `c` itself (whose key, hence absolute position, changes) -/
theorem ins_split_univ {L : Nat} {E : Enc L} {lh : LHeap} {full : Nat → Key} (hok : LOk E lh full) {c : Nat} {ch : LN}
    (hc : lh[c]? = some ch) {P k : Key} (hP : full c = P ++ ch.key) (hlen : P.length + k.length = L)
    (hj0 : 0 < lcp ch.key k) (hj1 : lcp ch.key k < ch.key.length) (hj2 : lcp ch.key k < k.length)
    {tk : List Nat}
    (htk : two (k.drop (lcp ch.key k)) (ch.key.drop (lcp ch.key k)) (lh.length + 1) lh.length = some tk)
    (dye : Nat) (data : Option Data) :
    ∀ (n id : Nat) (s : Key), s.length ≤ n → s ≠ [] → id < lh.length → id ≠ c → (full id).length + s.length = L →
      InsRel (P ++ k) ⟨dye, true, data⟩ (full id ++ s) (look lh id s)
        (look ((lh ++ [{ ch with key := ch.key.drop (lcp ch.key k) }, lleaf (k.drop (lcp ch.key k)) dye data]).set c
          { ch with key := ch.key.take (lcp ch.key k), terminal := false, kids := tk }) id s) := by
  have hclt := valid_lt hc
  generalize hlh' : (lh ++ [{ ch with key := ch.key.drop (lcp ch.key k) }, lleaf (k.drop (lcp ch.key k)) dye data]).set c
          { ch with key := ch.key.take (lcp ch.key k), terminal := false, kids := tk } = lh'
  have hold : ∀ id, id < lh.length → id ≠ c → lh'[id]? = lh[id]? := by
    intro id h1 h2; rw [← hlh']; exact get_sa_old _ _ _ _ _ h1 h2
  have hc' : lh'[c]? = some { ch with key := ch.key.take (lcp ch.key k), terminal := false, kids := tk } := by
    rw [← hlh']; exact get_sa_m _ _ _ _ hclt
  have hcN : lh'[lh.length]? = some { ch with key := ch.key.drop (lcp ch.key k) } := by
    rw [← hlh']; exact get_sa_new0 _ _ _ _ _ hclt
  have hlf : lh'[lh.length + 1]? = some (lleaf (k.drop (lcp ch.key k)) dye data) := by
    rw [← hlh']; exact get_sa_new1 _ _ _ _ _ _ hclt
  have hheads : ∀ x c0, Hd lh x c0 → Hd lh' x c0 := by
    intro x c0 ⟨nx, ct, h1, h2⟩
    by_cases e : x = c
    · subst e
      rw [hc] at h1; cases h1
      have hj0' := hj0
      rw [h2] at hj0'
      obtain ⟨ct', e2⟩ := head_take (c0 := c0) (ct := ct) hj0'
      exact ⟨_, ct', hc', by show ch.key.take _ = _; rw [h2]; exact e2⟩
    · exact ⟨nx, ct, by rw [hold x (valid_lt h1) e]; exact h1, h2⟩
  have hcdepth := hok.depth c ch hc
  intro n
  induction n with
  | zero =>
    intro id s h1 h2
    cases s with
    | nil => exact absurd rfl h2
    | cons a t => simp at h1
  | succ n ih =>
    intro id s hsn hne hid hidc hfl
    cases s with
    | nil => exact absurd rfl hne
    | cons s0 st =>
    cases hn : lh[id]? with
    | none => rw [List.getElem?_eq_none_iff] at hn; omega
    | some nd =>
    have hn' : lh'[id]? = some nd := by rw [hold id hid hidc]; exact hn
    apply gen_step hok hn hn' s0 st (fun x _ c0 h => hheads x c0 h)
    intro x hx nx nx' hnx hnx' i i'
    by_cases e : x = c
    · -- the edge into the split node
      subst e
      rw [hc] at hnx; cases hnx
      rw [hc'] at hnx'; cases hnx'
      obtain ⟨nc, g1, g2, g3⟩ := hok.kid id nd x hn hx
      rw [hc] at g1; cases g1
      have hidP : full id = P := by
        rw [hP] at g3; exact (List.append_cancel_right g3).symm
      have hsl : (s0 :: st).length = k.length := by rw [hidP] at hfl; omega
      have hcs : ch.key.length ≤ (s0 :: st).length := by
        rw [g3, List.length_append] at hcdepth; omega
      have hsame : ∀ y ∈ ch.kids, lh'[y]? = lh[y]? ∧ ∀ t, look lh' y t = look lh y t := by
        intro y hy
        obtain ⟨ny, q1, q2, q3⟩ := hok.kid x ch y hc hy
        have hylt := valid_lt q1
        have hyc : y ≠ x := by
          intro e; have := kid_full_longer hok hc hy; rw [e] at this; omega
        refine ⟨hold y hylt hyc, fun t => look_below hok hylt ?_ t⟩
        intro z hz hpfx
        apply hold z hz
        intro e
        exact not_below_kid hok hc hy (by rw [e]; exact Nat.le_refl _) hpfx
      obtain ⟨r1, r2⟩ := LA_split_parent (lh' := lh') (TC := x) hc hj0 hj1 hj2 hcN rfl rfl rfl hlf rfl htk hc' rfl rfl
        hsame (s0 :: st) hsl hcs i i'
      by_cases heq : s0 :: st = k
      · right
        rw [if_pos heq] at r1
        exact ⟨r2 heq, by rw [hidP, heq], r1⟩
      · left
        rw [if_neg heq] at r1
        exact r1
    · have hk : lh'[x]? = lh[x]? := hold x (valid_lt hnx) e
      rw [hk, hnx] at hnx'; cases hnx'
      apply gen_desc hok hn hx hnx (by rw [hk]; exact hnx) rfl rfl (s0 :: st) hfl
      intro t ht1 ht2 ht3
      exact ih x t (by simp at hsn ht2; omega) ht1 (valid_lt hnx) e ht3


/-! ### the postcondition of `insertL` -/

/-- sponsor-or-self: new nodes are attributed to an old node -/
def spo (n0 : Nat) (sp : Nat → Nat) (id : Nat) : Nat := if id < n0 then id else sp id

structure InsPost {L : Nat} (E : Enc L) (lh : LHeap) (full : Nat → Key) (cur : Nat) (key : Key) (data : Option Data)
    (lh' : LHeap) (full' : Nat → Key) : Prop where
  ok : LOk E lh' full'
  len : lh.length ≤ lh'.length
  pfx : ∀ id, id < lh.length → full' id <+: full id
  /-- every lookup from every old node (that keeps its position) is unchanged, except that the inserted key is found -/
  sem : ∀ id s, id < lh.length → full' id = full id → s ≠ [] → (full id).length + s.length = L →
      InsRel (full cur ++ key) ⟨0, true, data⟩ (full id ++ s) (look lh id s) (look lh' id s)
  hit : entR (look lh' cur key) = .ok (some ⟨0, true, data⟩)
  loc : ∀ y, y < lh.length → ¬ (full cur <+: full y) → lh'[y]? = lh[y]? ∧ full' y = full y
  curkey : ∃ n n', lh[cur]? = some n ∧ lh'[cur]? = some n' ∧ n'.key = n.key ∧ full' cur = full cur
  heads : ∀ x c0, Hd lh x c0 → Hd lh' x c0
  /-- shape of the new heap: every node is (or is attributed to) an old node `p`, has `p`'s dye (or 0 if new) and
      its children are old children of `p` or new nodes attributed to `p` -/
  str : ∃ sp : Nat → Nat, ∀ id n', lh'[id]? = some n' →
      ∃ np, lh[spo lh.length sp id]? = some np ∧ (n'.dye = np.dye ∨ (n'.dye = 0 ∧ lh.length ≤ id)) ∧
        ∀ c ∈ n'.kids, (c < lh.length ∧ c ∈ np.kids) ∨ (lh.length ≤ c ∧ sp c = spo lh.length sp id)

theorem get_sa_none {α : Type} (lh : List α) (news : List α) (b : α) (m id : Nat) (h1 : lh.length + news.length ≤ id) :
    ((lh ++ news).set m b)[id]? = none := by
  rw [List.getElem?_eq_none_iff]; simp; omega

/-- the base case "append / insert a leaf under `m`" -/
theorem ins_leaf_post {L : Nat} {E : Enc L} {lh : LHeap} {full : Nat → Key} (hok : LOk E lh full) {m : Nat} {cn : LN}
    (hm : lh[m]? = some cn) {k0 : Nat} {kt : Key} {pre post : List Nat} (hkids : cn.kids = pre ++ post)
    (hpre : ∀ x ∈ pre, HdLt lh k0 x)
    (hpost : post = [] ∨ ∃ c ch c0 ct rest, post = c :: rest ∧ lh[c]? = some ch ∧ ch.key = c0 :: ct ∧ k0 < c0)
    (hlen : (full m).length + (k0 :: kt).length = L) (data : Option Data)
    (hdata : ∃ d, data = some d ∧ E.enc d.addr = full m ++ k0 :: kt) :
    InsPost E lh full m (k0 :: kt) data
      ((lh ++ [lleaf (k0 :: kt) 0 data]).set m { cn with kids := pre ++ lh.length :: post })
      (fun id => if id = lh.length then full m ++ k0 :: kt else full id) := by
  have huniv := ins_leaf_univ hok hm hkids hpre hpost hlen 0 data
  have hmlt := valid_lt hm
  generalize hlh' : (lh ++ [lleaf (k0 :: kt) 0 data]).set m { cn with kids := pre ++ lh.length :: post } = lh' at *
  have hold : ∀ id, id < lh.length → id ≠ m → lh'[id]? = lh[id]? := by
    intro id h1 h2; rw [← hlh']; exact get_sa_old _ _ _ _ _ h1 h2
  have hm' : lh'[m]? = some { cn with kids := pre ++ lh.length :: post } := by
    rw [← hlh']; exact get_sa_m _ _ _ _ hmlt
  have hnew : lh'[lh.length]? = some (lleaf (k0 :: kt) 0 data) := by
    rw [← hlh']; exact get_sa_new0 _ _ _ _ _ hmlt
  have hnone : ∀ id, lh.length + 1 ≤ id → lh'[id]? = none := by
    intro id h; rw [← hlh']; exact get_sa_none _ _ _ _ _ (by simpa using h)
  have hlen' : lh'.length = lh.length + 1 := by rw [← hlh']; simp
  have hkeep : ∀ (x : Nat) (nx : LN), lh[x]? = some nx → ∃ nx' : LN, lh'[x]? = some nx' ∧ nx'.key = nx.key ∧ nx'.ent = nx.ent := by
    intro x nx hx
    by_cases e : x = m
    · subst e; rw [hm] at hx; cases hx
      exact ⟨_, hm', rfl, rfl⟩
    · exact ⟨nx, by rw [hold x (valid_lt hx) e]; exact hx, rfl, rfl⟩
  have hheads : ∀ x c0, Hd lh x c0 → Hd lh' x c0 := by
    intro x c0 ⟨ch, ct, h1, h2⟩
    obtain ⟨nx', g1, g2, _⟩ := hkeep x ch h1
    exact ⟨nx', ct, g1, g2.trans h2⟩
  have hfold : ∀ id, id < lh.length → (if id = lh.length then full m ++ k0 :: kt else full id) = full id := by
    intro id h; rw [if_neg (by omega)]
  -- the classification of the nodes of the new heap
  have hcls : ∀ id n', lh'[id]? = some n' →
      (id = m ∧ n' = { cn with kids := pre ++ lh.length :: post }) ∨
      (id = lh.length ∧ n' = lleaf (k0 :: kt) 0 data) ∨ (id < lh.length ∧ id ≠ m ∧ lh[id]? = some n') := by
    intro id n' h
    by_cases e1 : id = m
    · subst e1; rw [hm'] at h; cases h; exact Or.inl ⟨rfl, rfl⟩
    · by_cases e2 : id < lh.length
      · rw [hold id e2 e1] at h; exact Or.inr (Or.inr ⟨e2, e1, h⟩)
      · by_cases e3 : id = lh.length
        · subst e3; rw [hnew] at h; cases h; exact Or.inr (Or.inl ⟨rfl, rfl⟩)
        · rw [hnone id (by omega)] at h; cases h
  have hdyekeep : ∀ (x : Nat) (nx nx' : LN), lh[x]? = some nx → lh'[x]? = some nx' → nx'.dye = nx.dye := by
    intro x nx nx' h1 h2
    obtain ⟨nx'', g1, _, g3⟩ := hkeep x nx h1
    rw [h2] at g1; cases g1
    exact congrArg Ent.dye g3
  have hkidold : ∀ c, c ∈ pre ++ lh.length :: post → c ≠ lh.length → c ∈ cn.kids := by
    intro c hc e
    rw [hkids]; simp only [List.mem_append, List.mem_cons] at hc ⊢
    rcases hc with h | h | h
    · exact Or.inl h
    · exact absurd h e
    · exact Or.inr h
  refine ⟨⟨?_, ?_, ?_, ?_, ?_⟩, by omega, ?_, ?_, ?_, ?_, ?_, hheads, ?_⟩
  · -- LOk.kid
    intro id n c hn hc
    rcases hcls id n hn with ⟨rfl, rfl⟩ | ⟨rfl, rfl⟩ | ⟨h1, h2, h3⟩
    · simp only [List.mem_append, List.mem_cons] at hc
      by_cases e : c = lh.length
      · subst e
        refine ⟨_, hnew, by simp [lleaf], ?_⟩
        simp only [if_true]
        rw [hfold id hmlt]; rfl
      · have hc' : c ∈ cn.kids := by
          rw [hkids]; simp only [List.mem_append]
          rcases hc with h | h | h
          · exact Or.inl h
          · exact absurd h e
          · exact Or.inr h
        obtain ⟨nc, g1, g2, g3⟩ := hok.kid id cn c hm hc'
        obtain ⟨nc', q1, q2, _⟩ := hkeep c nc g1
        refine ⟨nc', q1, by rw [q2]; exact g2, ?_⟩
        rw [hfold c (valid_lt g1), hfold id hmlt, g3, q2]
    · simp [lleaf] at hc
    · obtain ⟨nc, g1, g2, g3⟩ := hok.kid id n c h3 hc
      obtain ⟨nc', q1, q2, _⟩ := hkeep c nc g1
      refine ⟨nc', q1, by rw [q2]; exact g2, ?_⟩
      rw [hfold c (valid_lt g1), hfold id h1, g3, q2]
  · -- LOk.depth
    intro id n hn
    rcases hcls id n hn with ⟨rfl, rfl⟩ | ⟨rfl, rfl⟩ | ⟨h1, h2, h3⟩
    · rw [hfold id hmlt]; exact hok.depth id cn hm
    · simp only [if_true, List.length_append]; omega
    · rw [hfold id h1]; exact hok.depth id n h3
  · -- LOk.sorted
    intro id n hn
    rcases hcls id n hn with ⟨rfl, rfl⟩ | ⟨rfl, rfl⟩ | ⟨h1, h2, h3⟩
    · have h0 := (hok.sorted id cn hm).transfer (lh' := lh') (fun x _ c0 h => hheads x c0 h)
      rw [hkids] at h0
      apply h0.insert ⟨_, kt, hnew, rfl⟩
      · intro y hy
        obtain ⟨c0, g1, g2⟩ := hpre y hy
        exact ⟨c0, hheads y c0 g1, g2⟩
      · rcases hpost with h | ⟨c, ch, c0, ct, rest, q0, q1, q2, q3⟩
        · exact Or.inl h
        · obtain ⟨ch', ct', g1, g2⟩ := hheads c c0 ⟨ch, ct, q1, q2⟩
          exact Or.inr ⟨c, ch', c0, ct', rest, q0, g1, g2, q3⟩
    · exact List.Pairwise.nil
    · exact (hok.sorted id n h3).transfer (fun x _ c0 h => hheads x c0 h)
  · -- LOk.term
    intro id n hn ht
    rcases hcls id n hn with ⟨rfl, rfl⟩ | ⟨rfl, rfl⟩ | ⟨h1, h2, h3⟩
    · rw [hfold id hmlt]; exact hok.term id cn hm ht
    · simp only [if_true]
      refine ⟨by rw [List.length_append]; omega, ?_⟩
      obtain ⟨d, hd1, hd2⟩ := hdata
      exact ⟨d, hd1, hd2⟩
    · rw [hfold id h1]; exact hok.term id n h3 ht
  · -- LOk.mono
    intro id n c nc hn hc hnc
    have holdkid : ∀ (n0 : LN), lh[id]? = some n0 → c ∈ n0.kids → nc.dye ≤ n0.dye := by
      intro n0 h0 hc0
      obtain ⟨nco, g1, _, _⟩ := hok.kid id n0 c h0 hc0
      rw [hdyekeep c nco nc g1 hnc]
      exact hok.mono id n0 c nco h0 hc0 g1
    rcases hcls id n hn with ⟨rfl, rfl⟩ | ⟨rfl, rfl⟩ | ⟨h1, h2, h3⟩
    · by_cases e : c = lh.length
      · subst e; rw [hnew] at hnc; cases hnc; exact Nat.zero_le _
      · exact holdkid cn hm (hkidold c hc e)
    · simp [lleaf] at hc
    · exact holdkid n h3 hc
  · intro id h; rw [hfold id h]; exact List.prefix_refl _
  · intro id s h1 _ h3 h4
    exact huniv s.length id s (Nat.le_refl _) h3 h1 h4
  · -- hit
    have hsame : ∀ x ∈ pre ++ post, lh'[x]? = lh[x]? ∧ ∀ t, look lh' x t = look lh x t := by
      intro x hx
      have hxk : x ∈ cn.kids := by rw [hkids]; exact hx
      obtain ⟨nc, g1, g2, g3⟩ := hok.kid m cn x hm hxk
      have hxlt := valid_lt g1
      have hxm : x ≠ m := by
        intro e; have := kid_full_longer hok hm hxk; rw [e] at this; omega
      refine ⟨hold x hxlt hxm, fun t => look_below hok hxlt ?_ t⟩
      intro y hy hpfx
      apply hold y hy
      intro e
      exact not_below_kid hok hm hxk (by rw [e]; exact Nat.le_refl _) hpfx
    obtain ⟨g1, _⟩ := LA_leaf (lh' := lh') (by rw [← hkids]; exact hok.kidsValid hm) hpre hpost hsame hnew rfl
      (k0 :: kt) rfl
    rw [look_step hm']
    show entR (desc1 lh' (k0 :: kt) (scanL lh' (k0 :: kt) (pre ++ lh.length :: post) 0)) = _
    rw [g1, if_pos rfl]; rfl
  · intro y hy hnp
    refine ⟨?_, hfold y hy⟩
    apply hold y hy
    intro e; rw [e] at hnp; exact hnp (List.prefix_refl _)
  · exact ⟨cn, _, hm, hm', rfl, hfold m hmlt⟩
  · -- shape
    refine ⟨fun _ => m, ?_⟩
    intro id n' hn
    rcases hcls id n' hn with ⟨rfl, rfl⟩ | ⟨rfl, rfl⟩ | ⟨h1, h2, h3⟩
    · refine ⟨cn, by rw [spo, if_pos hmlt]; exact hm, Or.inl rfl, ?_⟩
      intro c hc
      simp only [List.mem_append, List.mem_cons] at hc
      by_cases e : c = lh.length
      · right; exact ⟨by omega, by rw [spo, if_pos hmlt]⟩
      · left
        have hc' : c ∈ cn.kids := by
          rw [hkids]; simp only [List.mem_append]
          rcases hc with h | h | h
          · exact Or.inl h
          · exact absurd h e
          · exact Or.inr h
        obtain ⟨nc, g1, _, _⟩ := hok.kid id cn c hm hc'
        exact ⟨valid_lt g1, hc'⟩
    · refine ⟨cn, by rw [spo, if_neg (Nat.lt_irrefl _)]; exact hm, Or.inr ⟨rfl, Nat.le_refl _⟩, ?_⟩
      intro c hc; simp [lleaf] at hc
    · refine ⟨n', by rw [spo, if_pos h1]; exact h3, Or.inl rfl, ?_⟩
      intro c hc
      left
      obtain ⟨nc, g1, _, _⟩ := hok.kid id n' c h3 hc
      exact ⟨valid_lt g1, hc⟩


theorem get_sa_none2 {α : Type} (lh : List α) (a a2 b : α) (m id : Nat) (h1 : lh.length + 2 ≤ id) :
    ((lh ++ [a, a2]).set m b)[id]? = none := by
  rw [List.getElem?_eq_none_iff]; simp; omega

/-- the base case "split the child `c` of `cur`" -/
theorem ins_split_post {L : Nat} {E : Enc L} {lh : LHeap} {full : Nat → Key} (hok : LOk E lh full) {cur c : Nat} {cn ch : LN}
    (hcur : lh[cur]? = some cn) (hc : lh[c]? = some ch) (hck : c ∈ cn.kids) {k : Key} {i : Nat}
    (hscan : scanL lh k cn.kids 0 = .at i c (lcp ch.key k))
    (hlen : (full cur).length + k.length = L)
    (hj1 : lcp ch.key k < ch.key.length) (hj2 : lcp ch.key k < k.length)
    {tk : List Nat}
    (htk : two (k.drop (lcp ch.key k)) (ch.key.drop (lcp ch.key k)) (lh.length + 1) lh.length = some tk)
    (data : Option Data) (hdata : ∃ d, data = some d ∧ E.enc d.addr = full cur ++ k) :
    InsPost E lh full cur k data
      ((lh ++ [{ ch with key := ch.key.drop (lcp ch.key k) }, lleaf (k.drop (lcp ch.key k)) 0 data]).set c
          { ch with key := ch.key.take (lcp ch.key k), terminal := false, kids := tk })
      (fun id => if id = c then full cur ++ ch.key.take (lcp ch.key k) else if id = lh.length then full c
        else if id = lh.length + 1 then full cur ++ k else full id) := by
  have hj0 : 0 < lcp ch.key k := scanL_at_pos hscan
  obtain ⟨nc0, q1, hckne, hP⟩ := hok.kid cur cn c hcur hck
  rw [hc] at q1; cases q1
  have huniv := ins_split_univ hok hc hP hlen hj0 hj1 hj2 htk 0 data
  have hclt := valid_lt hc
  have hcurlt := valid_lt hcur
  have hcc : cur ≠ c := by
    intro e; have := kid_full_longer hok hcur hck; rw [e] at this; omega
  generalize hlh' : (lh ++ [{ ch with key := ch.key.drop (lcp ch.key k) }, lleaf (k.drop (lcp ch.key k)) 0 data]).set c
          { ch with key := ch.key.take (lcp ch.key k), terminal := false, kids := tk } = lh' at *
  have hold : ∀ id, id < lh.length → id ≠ c → lh'[id]? = lh[id]? := by
    intro id h1 h2; rw [← hlh']; exact get_sa_old _ _ _ _ _ h1 h2
  have hc' : lh'[c]? = some { ch with key := ch.key.take (lcp ch.key k), terminal := false, kids := tk } := by
    rw [← hlh']; exact get_sa_m _ _ _ _ hclt
  have hcN : lh'[lh.length]? = some { ch with key := ch.key.drop (lcp ch.key k) } := by
    rw [← hlh']; exact get_sa_new0 _ _ _ _ _ hclt
  have hlf : lh'[lh.length + 1]? = some (lleaf (k.drop (lcp ch.key k)) 0 data) := by
    rw [← hlh']; exact get_sa_new1 _ _ _ _ _ _ hclt
  have hnone : ∀ id, lh.length + 2 ≤ id → lh'[id]? = none := by
    intro id h; rw [← hlh']; exact get_sa_none2 _ _ _ _ _ _ h
  have hlen' : lh'.length = lh.length + 2 := by rw [← hlh']; simp
  have hheads : ∀ x c0, Hd lh x c0 → Hd lh' x c0 := by
    intro x c0 ⟨nx, ct, h1, h2⟩
    by_cases e : x = c
    · subst e
      rw [hc] at h1; cases h1
      have hj0' := hj0
      rw [h2] at hj0'
      obtain ⟨ct', e2⟩ := head_take (c0 := c0) (ct := ct) hj0'
      exact ⟨_, ct', hc', by show ch.key.take _ = _; rw [h2]; exact e2⟩
    · exact ⟨nx, ct, by rw [hold x (valid_lt h1) e]; exact h1, h2⟩
  have htkmem : ∀ x ∈ tk, x = lh.length ∨ x = lh.length + 1 := by
    intro x hx
    unfold two at htk
    split at htk
    · simp only [Option.some.injEq] at htk
      rw [← htk] at hx
      split at hx <;> simp at hx <;> omega
    · cases htk
  have hcurfull : (if cur = c then full cur ++ ch.key.take (lcp ch.key k) else if cur = lh.length then full c
        else if cur = lh.length + 1 then full cur ++ k else full cur) = full cur := by
    rw [if_neg hcc, if_neg (by omega), if_neg (by omega)]
  have hfold : ∀ id, id < lh.length → id ≠ c → (if id = c then full cur ++ ch.key.take (lcp ch.key k) else if id = lh.length then full c
        else if id = lh.length + 1 then full cur ++ k else full id) = full id := by
    intro id h1 h2; rw [if_neg h2, if_neg (by omega), if_neg (by omega)]
  have hfc : (if c = c then full cur ++ ch.key.take (lcp ch.key k) else if c = lh.length then full c
        else if c = lh.length + 1 then full cur ++ k else full c) = full cur ++ ch.key.take (lcp ch.key k) := by
    rw [if_pos rfl]
  have hfN : (if lh.length = c then full cur ++ ch.key.take (lcp ch.key k) else if lh.length = lh.length then full c
        else if lh.length = lh.length + 1 then full cur ++ k else full lh.length) = full c := by
    rw [if_neg (by omega), if_pos rfl]
  have hfL : (if lh.length + 1 = c then full cur ++ ch.key.take (lcp ch.key k) else if lh.length + 1 = lh.length then full c
        else if lh.length + 1 = lh.length + 1 then full cur ++ k else full (lh.length + 1)) = full cur ++ k := by
    rw [if_neg (by omega), if_neg (by omega), if_pos rfl]
  have hcls : ∀ id n', lh'[id]? = some n' →
      (id = c ∧ n' = { ch with key := ch.key.take (lcp ch.key k), terminal := false, kids := tk }) ∨
      (id = lh.length ∧ n' = { ch with key := ch.key.drop (lcp ch.key k) }) ∨
      (id = lh.length + 1 ∧ n' = lleaf (k.drop (lcp ch.key k)) 0 data) ∨ (id < lh.length ∧ id ≠ c ∧ lh[id]? = some n') := by
    intro id n' h
    by_cases e1 : id = c
    · subst e1; rw [hc'] at h; cases h; exact Or.inl ⟨rfl, rfl⟩
    · by_cases e2 : id < lh.length
      · rw [hold id e2 e1] at h; exact Or.inr (Or.inr (Or.inr ⟨e2, e1, h⟩))
      · by_cases e3 : id = lh.length
        · subst e3; rw [hcN] at h; cases h; exact Or.inr (Or.inl ⟨rfl, rfl⟩)
        · by_cases e4 : id = lh.length + 1
          · subst e4; rw [hlf] at h; cases h; exact Or.inr (Or.inr (Or.inl ⟨rfl, rfl⟩))
          · rw [hnone id (by omega)] at h; cases h
  have htake : ch.key.take (lcp ch.key k) = k.take (lcp ch.key k) := take_lcp ch.key k
  have hckids : ∀ y ∈ ch.kids, y < lh.length ∧ y ≠ c := by
    intro y hy
    obtain ⟨ny, q1, _, _⟩ := hok.kid c ch y hc hy
    refine ⟨valid_lt q1, ?_⟩
    intro e; have := kid_full_longer hok hc hy; rw [e] at this; omega
  -- children of an old node other than `c`, in the new heap
  have holdkid : ∀ id n x, id < lh.length → id ≠ c → lh[id]? = some n → x ∈ n.kids →
      ∃ nx', lh'[x]? = some nx' ∧ nx'.key ≠ [] ∧
        (if x = c then full cur ++ ch.key.take (lcp ch.key k) else if x = lh.length then full c
          else if x = lh.length + 1 then full cur ++ k else full x) = full id ++ nx'.key := by
    intro id n x h1 h2 h3 hx
    obtain ⟨nx, g1, g2, g3⟩ := hok.kid id n x h3 hx
    by_cases e : x = c
    · subst e
      rw [hc] at g1; cases g1
      refine ⟨_, hc', ?_, ?_⟩
      · show ch.key.take (lcp ch.key k) ≠ []
        intro h0
        have := congrArg List.length h0
        rw [List.length_take] at this
        simp only [List.length_nil] at this
        omega
      · rw [hfc]
        have : full id = full cur := by
          rw [hP] at g3; exact (List.append_cancel_right g3).symm
        rw [this]
    · refine ⟨nx, by rw [hold x (valid_lt g1) e]; exact g1, g2, ?_⟩
      rw [hfold x (valid_lt g1) e, g3]
  have hdyekeep : ∀ (x : Nat) (nx nx' : LN), lh[x]? = some nx → lh'[x]? = some nx' → nx'.dye = nx.dye := by
    intro x nx nx' h1 h2
    by_cases e : x = c
    · subst e
      rw [hc] at h1; cases h1
      rw [hc'] at h2; cases h2; rfl
    · rw [hold x (valid_lt h1) e, h1] at h2; cases h2; rfl
  obtain ⟨hb, ha, cbt, kat, heb, hea, hab⟩ := lcp_mismatch ch.key k hj1 hj2
  have htk' : tk = if ha < hb then [lh.length + 1, lh.length] else [lh.length, lh.length + 1] := by
    have := htk
    rw [hea, heb] at this
    simp only [two, Option.some.injEq] at this
    exact this.symm
  refine ⟨⟨?_, ?_, ?_, ?_, ?_⟩, by omega, ?_, ?_, ?_, ?_, ?_, hheads, ?_⟩
  · -- LOk.kid
    intro id n x hn hx
    rcases hcls id n hn with ⟨rfl, rfl⟩ | ⟨rfl, rfl⟩ | ⟨rfl, rfl⟩ | ⟨h1, h2, h3⟩
    · rcases htkmem x hx with rfl | rfl
      · refine ⟨_, hcN, ?_, ?_⟩
        · show ch.key.drop (lcp ch.key k) ≠ []
          intro h0
          have := congrArg List.length h0
          simp at this; omega
        · rw [hfN, hfc, hP, List.append_assoc]
          show _ = full cur ++ (ch.key.take (lcp ch.key k) ++ ch.key.drop (lcp ch.key k))
          rw [List.take_append_drop]
      · refine ⟨_, hlf, ?_, ?_⟩
        · show k.drop (lcp ch.key k) ≠ []
          intro h0
          have := congrArg List.length h0
          simp at this; omega
        · rw [hfL, hfc, List.append_assoc, htake]
          show _ = full cur ++ (k.take (lcp ch.key k) ++ k.drop (lcp ch.key k))
          rw [List.take_append_drop]
    · have hx' : x ∈ ch.kids := hx
      obtain ⟨nx, g1, g2, g3⟩ := hok.kid c ch x hc hx'
      obtain ⟨y1, y2⟩ := hckids x hx'
      refine ⟨nx, by rw [hold x y1 y2]; exact g1, g2, ?_⟩
      rw [hfold x y1 y2, hfN, g3]
    · simp [lleaf] at hx
    · rw [hfold id h1 h2]
      exact holdkid id n x h1 h2 h3 hx
  · -- LOk.depth
    intro id n hn
    have hcd := hok.depth c ch hc
    rcases hcls id n hn with ⟨rfl, rfl⟩ | ⟨rfl, rfl⟩ | ⟨rfl, rfl⟩ | ⟨h1, h2, h3⟩
    · rw [hfc]; rw [hP] at hcd; simp only [List.length_append, List.length_take] at hcd ⊢; omega
    · rw [hfN]; exact hcd
    · rw [hfL, List.length_append]; omega
    · rw [hfold id h1 h2]; exact hok.depth id n h3
  · -- LOk.sorted
    intro id n hn
    rcases hcls id n hn with ⟨rfl, rfl⟩ | ⟨rfl, rfl⟩ | ⟨rfl, rfl⟩ | ⟨h1, h2, h3⟩
    · show SortedKids lh' tk
      have hN : Hd lh' lh.length hb := ⟨_, cbt, hcN, heb⟩
      have hL : Hd lh' (lh.length + 1) ha := ⟨_, kat, hlf, hea⟩
      rw [htk']
      unfold SortedKids
      by_cases e : ha < hb
      · rw [if_pos e]
        exact List.pairwise_cons.mpr ⟨fun y hy => by
          rw [List.mem_singleton] at hy; subst hy; exact ⟨ha, hb, hL, hN, e⟩, List.pairwise_singleton _ _⟩
      · rw [if_neg e]
        exact List.pairwise_cons.mpr ⟨fun y hy => by
          rw [List.mem_singleton] at hy; subst hy; exact ⟨hb, ha, hN, hL, by omega⟩, List.pairwise_singleton _ _⟩
    · exact (hok.sorted c ch hc).transfer (fun x _ c0 h => hheads x c0 h)
    · exact List.Pairwise.nil
    · exact (hok.sorted id n h3).transfer (fun x _ c0 h => hheads x c0 h)
  · -- LOk.term
    intro id n hn ht
    rcases hcls id n hn with ⟨rfl, rfl⟩ | ⟨rfl, rfl⟩ | ⟨rfl, rfl⟩ | ⟨h1, h2, h3⟩
    · cases ht
    · rw [hfN]; exact hok.term c ch hc ht
    · rw [hfL]
      refine ⟨by rw [List.length_append]; omega, ?_⟩
      obtain ⟨d, hd1, hd2⟩ := hdata
      exact ⟨d, hd1, hd2⟩
    · rw [hfold id h1 h2]; exact hok.term id n h3 ht
  · -- LOk.mono
    intro id n x nx hn hx hnx
    rcases hcls id n hn with ⟨rfl, rfl⟩ | ⟨rfl, rfl⟩ | ⟨rfl, rfl⟩ | ⟨h1, h2, h3⟩
    · rcases htkmem x hx with rfl | rfl
      · rw [hcN] at hnx; cases hnx; exact Nat.le_refl _
      · rw [hlf] at hnx; cases hnx; exact Nat.zero_le _
    · have hx' : x ∈ ch.kids := hx
      obtain ⟨nxo, g1, _, _⟩ := hok.kid c ch x hc hx'
      rw [hdyekeep x nxo nx g1 hnx]
      exact hok.mono c ch x nxo hc hx' g1
    · simp [lleaf] at hx
    · obtain ⟨nxo, g1, _, _⟩ := hok.kid id n x h3 hx
      rw [hdyekeep x nxo nx g1 hnx]
      exact hok.mono id n x nxo h3 hx g1
  · intro id h
    by_cases e : id = c
    · subst e; rw [hfc, hP]
      exact (List.prefix_append_right_inj _).mpr (List.take_prefix _ _)
    · rw [hfold id h e]; exact List.prefix_refl _
  · intro id s h1 h2 h3 h4
    have hidc : id ≠ c := by
      intro e
      subst e
      rw [hfc, hP] at h2
      have := congrArg List.length h2
      simp at this; omega
    exact huniv s.length id s (Nat.le_refl _) h3 h1 hidc h4
  · -- hit
    have hcur' : lh'[cur]? = some cn := by rw [hold cur hcurlt hcc]; exact hcur
    obtain ⟨x0, as, bs, e1, e2⟩ := lcp_pos_head (a := ch.key) (b := k) (by omega)
    subst e2
    have hsame : ∀ y ∈ ch.kids, lh'[y]? = lh[y]? ∧ ∀ t, look lh' y t = look lh y t := by
      intro y hy
      obtain ⟨y1, y2⟩ := hckids y hy
      refine ⟨hold y y1 y2, fun t => look_below hok y1 ?_ t⟩
      intro z hz hpfx
      apply hold z hz
      intro e
      exact not_below_kid hok hc hy (by rw [e]; exact Nat.le_refl _) hpfx
    have hcs : ch.key.length ≤ (x0 :: bs).length := by
      have := hok.depth c ch hc
      rw [hP, List.length_append] at this; omega
    rw [look_step hcur']
    rcases scanL_transfer (lh' := lh') (fun x _ c0 h => hheads x c0 h)
      (scanL_cases x0 bs cn.kids 0 (hok.kidsValid hcur)) with
      ⟨r1, _⟩ | ⟨i', r1, _⟩ | ⟨i', c', ch1, ch1', ct, ct', _, h1, h2, h3, h4, r1, r2⟩
    · rw [hscan] at r1; cases r1
    · rw [hscan] at r1; cases r1
    · rw [hscan] at r1
      have hcc' : c' = c := by injection r1 with _ a _; exact a.symm
      subst hcc'
      rw [hc] at h1; cases h1
      cases r1
      rw [hc'] at h2; cases h2
      rw [r2]
      have := (LA_split_parent (lh' := lh') (TC := c') (k := x0 :: bs) hc hj0 hj1
        hj2 hcN rfl rfl rfl hlf rfl htk hc' rfl rfl
        hsame (x0 :: bs) rfl hcs i i).1
      rw [if_pos rfl] at this
      exact this
  · intro y hy hnp
    have hyc : y ≠ c := by
      intro e
      rw [e, hP] at hnp
      exact hnp (List.prefix_append _ _)
    exact ⟨hold y hy hyc, hfold y hy hyc⟩
  · exact ⟨cn, cn, hcur, by rw [hold cur hcurlt hcc]; exact hcur, rfl, hcurfull⟩
  · -- shape
    refine ⟨fun _ => c, ?_⟩
    intro id n' hn
    rcases hcls id n' hn with ⟨rfl, rfl⟩ | ⟨rfl, rfl⟩ | ⟨rfl, rfl⟩ | ⟨h1, h2, h3⟩
    · refine ⟨ch, by rw [spo, if_pos hclt]; exact hc, Or.inl rfl, ?_⟩
      intro x hx
      right
      rcases htkmem x hx with rfl | rfl
      · exact ⟨Nat.le_refl _, by rw [spo, if_pos hclt]⟩
      · exact ⟨by omega, by rw [spo, if_pos hclt]⟩
    · refine ⟨ch, by rw [spo, if_neg (Nat.lt_irrefl _)]; exact hc, Or.inl rfl, ?_⟩
      intro x hx
      left
      exact ⟨(hckids x hx).1, hx⟩
    · refine ⟨ch, by rw [spo, if_neg (by omega)]; exact hc, Or.inr ⟨rfl, by omega⟩, ?_⟩
      intro x hx; simp [lleaf] at hx
    · refine ⟨n', by rw [spo, if_pos h1]; exact h3, Or.inl rfl, ?_⟩
      intro x hx
      left
      obtain ⟨nx, g1, _, _⟩ := hok.kid id n' x h3 hx
      exact ⟨valid_lt g1, hx⟩


theorem two_some {a b : Nat} {as bs : Key} (x y : Nat) : ∃ tk, two (a :: as) (b :: bs) x y = some tk := ⟨_, rfl⟩

/-- **`insertL` (the read-through cache insertion), for fixed-length keys**: it succeeds (no panic, none of the
    "proper prefix" shapes), keeps the heap well-formed and satisfies `InsPost` -/
theorem insertL_spec {L : Nat} {E : Enc L} : ∀ (fuel : Nat) (lh : LHeap) (full : Nat → Key) (cur : Nat) (key : Key) (data : Option Data),
    LOk E lh full → (∃ cn, lh[cur]? = some cn) → (full cur).length + key.length = L → key ≠ [] → key.length < fuel →
    look lh cur key = .ok none → (∃ d, data = some d ∧ E.enc d.addr = full cur ++ key) →
    ∃ lh' full', insertL fuel lh cur key data = some lh' ∧ InsPost E lh full cur key data lh' full'
  | 0, _, _, _, _, _, _, _, _, _, hf, _, _ => by omega
  | f + 1, lh, full, cur, key, data, hok, ⟨cn, hcur⟩, hlen, hne, hf, hmiss, hdata => by
    cases key with
    | nil => exact absurd rfl hne
    | cons k0 kt =>
    unfold insertL
    rw [hcur]
    simp only
    cases scanL_cases k0 kt cn.kids 0 (hok.kidsValid hcur) with
    | none h e =>
      rw [e]
      simp only
      exact ⟨_, _, rfl, ins_leaf_post hok hcur (pre := cn.kids) (post := []) (by simp) h (Or.inl rfl) hlen data hdata⟩
    | before pre c post ch c0 ct hk hp h1 h2 h3 e =>
      rw [e]
      simp only
      have hi : ¬ (0 + pre.length > cn.kids.length) := by rw [hk]; simp
      rw [if_neg hi]
      have hins : insAt cn.kids (0 + pre.length) lh.length = pre ++ lh.length :: c :: post := by
        rw [hk]; unfold insAt; simp
      rw [hins]
      exact ⟨_, _, rfl, ins_leaf_post hok hcur hk hp (Or.inr ⟨c, ch, c0, ct, post, rfl, h1, h2, h3⟩) hlen data hdata⟩
    | hit pre c post ch ct hk hp h1 h2 e =>
      rw [e]
      simp only
      rw [h1]
      simp only
      have hcmem : c ∈ cn.kids := by rw [hk]; simp
      obtain ⟨nc, g1, g2, g3⟩ := hok.kid cur cn c hcur hcmem
      rw [h1] at g1; cases g1
      have hcd := hok.depth c ch h1
      rw [g3, List.length_append] at hcd
      have hle1 := lcp_le_left ch.key (k0 :: kt)
      have hle2 := lcp_le_right ch.key (k0 :: kt)
      have hmiss' := hmiss
      rw [look_step hcur, e] at hmiss'
      simp only [desc1, h1] at hmiss'
      by_cases t1 : lcp ch.key (k0 :: kt) = min ch.key.length (k0 :: kt).length
      · rw [if_pos t1] at hmiss' ⊢
        by_cases t2 : (k0 :: kt).length = ch.key.length
        · rw [if_pos t2] at hmiss'; cases hmiss'
        · rw [if_neg t2] at hmiss' ⊢
          have t3 : (k0 :: kt).length > ch.key.length := by omega
          rw [if_pos t3] at hmiss' ⊢
          have hj : lcp ch.key (k0 :: kt) = ch.key.length := by omega
          have hpre : ch.key = (k0 :: kt).take ch.key.length := lcp_eq_left hj
          have hK : full c ++ (k0 :: kt).drop (lcp ch.key (k0 :: kt)) = full cur ++ k0 :: kt := by
            rw [g3, hj, List.append_assoc]
            congr 1
            conv => rhs; rw [← List.take_append_drop ch.key.length (k0 :: kt)]
            rw [← hpre]
          have hpos : 0 < ch.key.length := List.length_pos_iff.mpr g2
          obtain ⟨lh', full', r1, r2⟩ := insertL_spec f lh full c ((k0 :: kt).drop (lcp ch.key (k0 :: kt))) data hok
            ⟨ch, h1⟩ (by rw [g3, List.length_append, List.length_drop, hj]; omega)
            (by intro h0; have := congrArg List.length h0; rw [List.length_drop] at this
                simp only [List.length_nil] at this; omega)
            (by rw [List.length_drop]; omega) hmiss' (by rw [hK]; exact hdata)
          refine ⟨lh', full', r1, ?_⟩
          have hcurnot : ¬ (full c <+: full cur) := by
            intro h; have := h.length_le; rw [g3, List.length_append] at this; omega
          have hcurlt := valid_lt hcur
          obtain ⟨l1, l2⟩ := r2.loc cur hcurlt hcurnot
          obtain ⟨n0, n0', q1, q2, q3, q4⟩ := r2.curkey
          rw [h1] at q1; cases q1
          refine ⟨r2.ok, r2.len, r2.pfx, ?_, ?_, ?_, ⟨cn, cn, hcur, by rw [l1]; exact hcur, rfl, l2⟩, r2.heads, r2.str⟩
          · intro id s a1 a2 a3 a4
            rw [← hK]; exact r2.sem id s a1 a2 a3 a4
          · -- hit: the lookup from `cur` still goes through `c`
            have hcur' : lh'[cur]? = some cn := by rw [l1]; exact hcur
            rw [look_step hcur']
            rcases scanL_transfer (lh' := lh') (fun x _ c0 h => r2.heads x c0 h)
              (scanL_cases k0 kt cn.kids 0 (hok.kidsValid hcur)) with
              ⟨r1', _⟩ | ⟨i', r1', _⟩ | ⟨i', c', ch1, ch1', ct1, ct1', _, a1, a2, a3, a4, r1', r2'⟩
            · rw [e] at r1'; cases r1'
            · rw [e] at r1'; cases r1'
            · rw [e] at r1'
              have hcc' : c' = c := by injection r1' with _ a _; exact a.symm
              subst hcc'
              rw [h1] at a1; cases a1
              rw [q2] at a2; cases a2
              rw [r2', q3]
              simp only [desc1, q2, q3]
              rw [if_pos t1, if_neg t2, if_pos t3]
              exact r2.hit
          · intro y hy hnp
            apply r2.loc y hy
            intro h
            exact hnp (by rw [g3] at h; exact (List.prefix_append _ _).trans h)
      · rw [if_neg t1]
        have hj1 : lcp ch.key (k0 :: kt) < ch.key.length := by omega
        have hj2 : lcp ch.key (k0 :: kt) < (k0 :: kt).length := by omega
        obtain ⟨b, a, cbt, kat, eb, ea, hab⟩ := lcp_mismatch ch.key (k0 :: kt) hj1 hj2
        obtain ⟨tk, htk⟩ : ∃ tk, two ((k0 :: kt).drop (lcp ch.key (k0 :: kt))) (ch.key.drop (lcp ch.key (k0 :: kt)))
            (lh.length + 1) lh.length = some tk := by rw [ea, eb]; exact two_some _ _
        rw [htk]
        simp only
        exact ⟨_, _, rfl, ins_split_post hok hcur h1 hcmem e hlen hj1 hj2 htk data hdata⟩

end LemoProofs.CowHeapL

/-
  C09 (heap refinement, part 1): the *logical* heap machine.

  `LemoModel.CowTrie` keeps Go's memory explicit (children slices over backing arrays with capacity).
  For the repaired `put` every backing array is owned by exactly one node, so a heap can be read as a
  list of logical nodes `LN` whose children are plain id lists.  This file defines that reading
  (`findL`, `insertL`, `putL` — the same algorithms, same ids, same in-place mutation and sharing of
  NODES between tries, but no arrays).  `CowHeapAbs.lean` proves that the array-level model
  simulates it; the ownership / isolation proofs are then done on logical heaps.

  `none` results of `insertL`/`putL` stand for "outside the supported fragment": a Go panic, a dangling
  id, or one of the two "one key is a proper prefix of the other" shapes (unreachable for fixed-length
  keys — proved in `CowHeapIns/Put`).
-/
import LemoModel.CowTrie
namespace LemoProofs.CowHeapL
open LemoModel.CowTrie

structure LN where
  key : Key
  dye : Nat
  data : Option Data
  terminal : Bool
  kids : List Nat
  deriving Repr, DecidableEq

abbrev LHeap := List LN

def lleaf (key : Key) (dye : Nat) (d : Option Data) : LN := ⟨key, dye, d, true, []⟩

def insAt (ks : List Nat) (pos x : Nat) : List Nat := ks.take pos ++ x :: ks.drop pos

def two (sub childSub : Key) (node childNode : Nat) : Option (List Nat) :=
  match sub, childSub with
  | s0 :: _, c0 :: _ => some (if s0 < c0 then [node, childNode] else [childNode, node])
  | _, _ => none

def scanL (lh : LHeap) (key : Key) : List Nat → Nat → Hit
  | [], _ => .none
  | c :: cs, i =>
    match lh[c]? with
    | none => .stuck
    | some ch =>
      let j := lcp ch.key key
      if j = 0 then
        match key, ch.key with
        | k0 :: _, c0 :: _ => if k0 < c0 then .before i else scanL lh key cs (i + 1)
        | _, _ => .panic
      else .at i c j

/-- `find`, returning the matching node instead of its data -/
def findL : Nat → LHeap → Nat → Key → Res (Option LN)
  | 0, _, _, _ => .stuck
  | fuel + 1, lh, cur, key =>
    match lh[cur]? with
    | none => .stuck
    | some n =>
      match scanL lh key n.kids 0 with
      | .none => .ok none
      | .before _ => .ok none
      | .panic => .panic
      | .stuck => .stuck
      | .at _ c j =>
        match lh[c]? with
        | none => .stuck
        | some ch =>
          if j = min ch.key.length key.length then
            if key.length = ch.key.length then .ok (some ch)
            else if key.length > ch.key.length then findL fuel lh c (key.drop j)
            else .ok none
          else .ok none

/-- what `find` hands out for the node found -/
def dataOf (o : Option LN) : Option Data := o.bind (fun ch => if ch.terminal then ch.data else none)

def insertL : Nat → LHeap → Nat → Key → Option Data → Option LHeap
  | 0, _, _, _, _ => none
  | fuel + 1, lh, cur, key, data =>
    match lh[cur]? with
    | none => none
    | some cn =>
      match scanL lh key cn.kids 0 with
      | .panic => none
      | .stuck => none
      | .none => some ((lh ++ [lleaf key 0 data]).set cur { cn with kids := cn.kids ++ [lh.length] })
      | .before i =>
        if i > cn.kids.length then none
        else some ((lh ++ [lleaf key 0 data]).set cur { cn with kids := insAt cn.kids i lh.length })
      | .at _ c j =>
        match lh[c]? with
        | none => none
        | some ch =>
          if j = min ch.key.length key.length then
            if key.length = ch.key.length then
              if ch.terminal then some lh else some (lh.set c { ch with terminal := true, data := data })
            else if key.length > ch.key.length then insertL fuel lh c (key.drop j) data
            else none
          else
            match two (key.drop j) (ch.key.drop j) (lh.length + 1) lh.length with
            | none => none
            | some tk =>
              some ((lh ++ [{ ch with key := ch.key.drop j }, lleaf (key.drop j) 0 data]).set c
                { ch with key := ch.key.take j, terminal := false, kids := tk })

def replaceL (lh : LHeap) (cur i x dye : Nat) : Option (LHeap × Option Nat) :=
  match lh[cur]? with
  | none => none
  | some cn =>
    if i < cn.kids.length then
      if cn.dye = dye then some (lh.set cur { cn with kids := cn.kids.set i x }, none)
      else some (lh ++ [{ cn with dye := dye, kids := cn.kids.set i x }], some lh.length)
    else none

/-- the repaired `put` (`putG true`) on logical heaps -/
def putL : Nat → LHeap → Nat → Key → Option Data → Nat → Option (LHeap × Option Nat)
  | 0, _, _, _, _, _ => none
  | fuel + 1, lh, cur, key, data, dye =>
    match lh[cur]? with
    | none => none
    | some cn =>
      match scanL lh key cn.kids 0 with
      | .panic => none
      | .stuck => none
      | .none =>
        if cn.dye = dye then
          some ((lh ++ [lleaf key dye data]).set cur { cn with kids := cn.kids ++ [lh.length] }, none)
        else
          some (lh ++ [lleaf key dye data, { cn with dye := dye, kids := cn.kids ++ [lh.length] }], some (lh.length + 1))
      | .before i =>
        if i > cn.kids.length then none
        else if cn.dye = dye then
          some ((lh ++ [lleaf key dye data]).set cur { cn with kids := insAt cn.kids i lh.length }, none)
        else
          some (lh ++ [lleaf key dye data, { cn with dye := dye, kids := insAt cn.kids i lh.length }], some (lh.length + 1))
      | .at i c j =>
        match lh[c]? with
        | none => none
        | some ch =>
          if j = min ch.key.length key.length then
            if key.length = ch.key.length then
              if ch.dye = dye then some (lh, none)
              else replaceL (lh ++ [{ ch with dye := dye, data := data, terminal := true }]) cur i lh.length dye
            else if key.length > ch.key.length then
              match putL fuel lh c (key.drop j) data dye with
              | none => none
              | some (lh1, none) => some (lh1, none)
              | some (lh1, some res) => replaceL lh1 cur i res dye
            else none
          else
            match two (key.drop j) (ch.key.drop j) (lh.length + 1) lh.length with
            | none => none
            | some tk =>
              replaceL (lh ++ [{ ch with key := ch.key.drop j }, lleaf (key.drop j) dye data,
                  { ch with key := ch.key.take j, dye := dye, terminal := false, kids := tk }])
                cur i (lh.length + 2) dye

def mapRes {α β : Type} (f : α → β) : Res α → Res β
  | .ok a => .ok (f a)
  | .panic => .panic
  | .stuck => .stuck

/-- what a lookup observes of the node it finds -/
structure Ent where
  dye : Nat
  terminal : Bool
  data : Option Data
  deriving DecidableEq, Repr

def LN.ent (n : LN) : Ent := ⟨n.dye, n.terminal, n.data⟩

def findE (f : Nat) (lh : LHeap) (id : Nat) (s : Key) : Res (Option Ent) :=
  mapRes (Option.map LN.ent) (findL f lh id s)

/-- fixed-length, injective key encoding (`Address.Hex()`) -/
structure Enc (L : Nat) where
  enc : Nat → Key
  inj : ∀ a b, enc a = enc b → a = b
  len : ∀ k, (enc k).length = L
  pos : 0 < L

def putTopL (lh : LHeap) (root : Nat) (key : Key) (data : Option Data) (dye : Nat) : Option (LHeap × Nat) :=
  match putL (key.length + 1) lh root key data dye with
  | none => none
  | some (lh1, none) => some (lh1, root)
  | some (lh1, some r) => some (lh1, r)

end LemoProofs.CowHeapL

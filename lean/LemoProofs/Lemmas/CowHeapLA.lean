/-
  C09 (heap refinement, part 5): local analysis lemmas — how one level of a lookup changes when a leaf is
  added among a node's children, when a child is replaced by a node with the same first symbol, and when
  a child is split.  Shared by the proofs about `insertL` (read-through cache) and `putL`.
-/
import LemoProofs.Lemmas.CowHeapLog
set_option linter.unusedSimpArgs false
set_option linter.unusedVariables false
namespace LemoProofs.CowHeapL
open LemoModel.CowTrie

/-- what a lookup result shows to the caller -/
def entR (r : Res (Option LN)) : Res (Option Ent) := mapRes (Option.map LN.ent) r

theorem Hd_congr {lh lh' : LHeap} {x c0 : Nat} (h : (lh'[x]?).map (·.key) = (lh[x]?).map (·.key))
    (hd : Hd lh x c0) : Hd lh' x c0 := by
  obtain ⟨ch, ct, h1, h2⟩ := hd
  rw [h1] at h
  cases h4 : lh'[x]? with
  | none => rw [h4] at h; cases h
  | some ch' =>
    rw [h4] at h
    simp only [Option.map_some, Option.some.injEq] at h
    exact ⟨ch', ct, h4, h.trans h2⟩

/-- descending from a scan result only needs the children's records and lookups -/
theorem desc1_congr {lh lh' : LHeap} (s : Key) (r : Hit)
    (h : ∀ i c j, r = .at i c j → lh'[c]? = lh[c]? ∧ ∀ t, look lh' c t = look lh c t) :
    desc1 lh' s r = desc1 lh s r := by
  cases r with
  | none => rfl
  | before i => rfl
  | panic => rfl
  | stuck => rfl
  | «at» i c j =>
    obtain ⟨h1, h2⟩ := h i c j rfl
    simp only [desc1, h1, h2]

/-- transfer of a scan to a heap in which every child keeps its first symbol -/
theorem scanL_transfer {lh lh' : LHeap} {k0 : Nat} {kt : Key} {ks : List Nat} {i : Nat}
    (hh : ∀ x ∈ ks, ∀ c0, Hd lh x c0 → Hd lh' x c0) (r : ScanRes lh k0 kt ks i) :
    (scanL lh (k0 :: kt) ks i = .none ∧ scanL lh' (k0 :: kt) ks i = .none) ∨
    (∃ i', scanL lh (k0 :: kt) ks i = .before i' ∧ scanL lh' (k0 :: kt) ks i = .before i') ∨
    (∃ i' c ch ch' ct ct', c ∈ ks ∧ lh[c]? = some ch ∧ lh'[c]? = some ch' ∧ ch.key = k0 :: ct ∧ ch'.key = k0 :: ct' ∧
      scanL lh (k0 :: kt) ks i = .at i' c (lcp ch.key (k0 :: kt)) ∧
      scanL lh' (k0 :: kt) ks i = .at i' c (lcp ch'.key (k0 :: kt))) := by
  have lt' : ∀ x ∈ ks, HdLt lh k0 x → HdLt lh' k0 x := by
    intro x hx ⟨c0, h1, h2⟩
    exact ⟨c0, hh x hx c0 h1, h2⟩
  cases r with
  | none h e =>
    left
    exact ⟨e, scanL_all_lt kt ks i (fun x hx => lt' x hx (h x hx))⟩
  | hit pre c post ch ct hk hp h1 h2 e =>
    right; right
    have hc : c ∈ ks := by rw [hk]; simp
    obtain ⟨ch', ct', g1, g2⟩ := hh c hc k0 ⟨ch, ct, h1, h2⟩
    refine ⟨i + pre.length, c, ch, ch', ct, ct', hc, h1, g1, h2, g2, e, ?_⟩
    rw [hk, scanL_pass kt pre _ i (fun x hx => lt' x (by rw [hk]; simp [hx]) (hp x hx))]
    exact (scanL_cons_eq kt post _ g1 g2).1
  | before pre c post ch c0 ct hk hp h1 h2 h3 e =>
    right; left
    have hc : c ∈ ks := by rw [hk]; simp
    obtain ⟨ch', ct', g1, g2⟩ := hh c hc c0 ⟨ch, ct, h1, h2⟩
    refine ⟨i + pre.length, e, ?_⟩
    rw [hk, scanL_pass kt pre _ i (fun x hx => lt' x (by rw [hk]; simp [hx]) (hp x hx))]
    exact scanL_cons_gt kt post _ g1 g2 h3


theorem kidsValid_append_left {lh : LHeap} {a b : List Nat} (h : KidsValid lh (a ++ b)) : KidsValid lh a :=
  fun x hx => h x (List.mem_append_left _ hx)

theorem kidsValid_append_right {lh : LHeap} {a b : List Nat} (h : KidsValid lh (a ++ b)) : KidsValid lh b :=
  fun x hx => h x (List.mem_append_right _ hx)

/-- a scan over children that all keep their records -/
theorem scanL_same {lh lh' : LHeap} (s : Key) (ks : List Nat) (i : Nat) (h : ∀ x ∈ ks, lh'[x]? = lh[x]?) :
    scanL lh' s ks i = scanL lh s ks i :=
  scanL_congr s ks i (fun x hx => by rw [h x hx])

/-- **adding a leaf** with key `k0 :: kt` among the children `pre ++ post` of a node, at the position
    the scan for that key reports -/
theorem LA_leaf {lh lh' : LHeap} {k0 : Nat} {kt : Key} {pre post : List Nat} {nid : Nat} {lf : LN}
    (hv : KidsValid lh (pre ++ post))
    (hpre : ∀ x ∈ pre, HdLt lh k0 x)
    (hpost : post = [] ∨ ∃ c ch c0 ct rest, post = c :: rest ∧ lh[c]? = some ch ∧ ch.key = c0 :: ct ∧ k0 < c0)
    (hsame : ∀ x ∈ pre ++ post, lh'[x]? = lh[x]? ∧ ∀ t, look lh' x t = look lh x t)
    (hnid : lh'[nid]? = some lf) (hlf : lf.key = k0 :: kt)
    (s : Key) (hs : s.length = (k0 :: kt).length) :
    desc1 lh' s (scanL lh' s (pre ++ nid :: post) 0) =
      (if s = k0 :: kt then .ok (some lf) else desc1 lh s (scanL lh s (pre ++ post) 0)) ∧
    (s = k0 :: kt → desc1 lh s (scanL lh s (pre ++ post) 0) = .ok none) := by
  cases s with
  | nil => simp at hs
  | cons s0 st =>
  have hsp : ∀ x ∈ pre, lh'[x]? = lh[x]? := fun x hx => (hsame x (List.mem_append_left _ hx)).1
  have hspo : ∀ x ∈ post, lh'[x]? = lh[x]? := fun x hx => (hsame x (List.mem_append_right _ hx)).1
  -- the old lookup of the new key misses
  have hmiss : desc1 lh (k0 :: kt) (scanL lh (k0 :: kt) (pre ++ post) 0) = .ok none := by
    rw [scanL_pass kt pre post 0 hpre]
    rcases hpost with rfl | ⟨c, ch, c0, ct, rest, rfl, h1, h2, h3⟩
    · rfl
    · rw [scanL_cons_gt kt rest _ h1 h2 h3]; rfl
  refine ⟨?_, fun e => by rw [e]; exact hmiss⟩
  rw [scanL_append, scanL_append, scanL_same _ pre 0 hsp]
  cases scanL_cases s0 st pre 0 (kidsValid_append_left hv) with
  | hit p c q ch ct hk hp h1 h2 e =>
    rw [e]
    simp only
    have hne : ¬ (s0 :: st = k0 :: kt) := by
      intro heq
      rw [heq, scanL_all_lt kt pre 0 hpre] at e; cases e
    rw [if_neg hne]
    apply desc1_congr
    intro i c' j hr
    cases hr
    exact hsame c (List.mem_append_left _ (by rw [hk]; simp))
  | before p c q ch c0 ct hk hp h1 h2 h3 e =>
    rw [e]
    simp only
    have hne : ¬ (s0 :: st = k0 :: kt) := by
      intro heq
      rw [heq, scanL_all_lt kt pre 0 hpre] at e; cases e
    rw [if_neg hne]
    rfl
  | none hlt e =>
    rw [e]
    simp only
    have hposteq : ∀ i, desc1 lh' (s0 :: st) (scanL lh' (s0 :: st) post i) =
        desc1 lh (s0 :: st) (scanL lh (s0 :: st) post (0 + pre.length)) := by
      intro i
      rw [scanL_same _ post i hspo, desc1_scan_index _ post i (0 + pre.length)]
      apply desc1_congr
      intro i' c' j hr
      exact hsame c' (List.mem_append_right _ (scanL_at_mem hr))
    by_cases h1 : s0 < k0
    · have hne : ¬ (s0 :: st = k0 :: kt) := by
        intro heq; cases heq; omega
      rw [if_neg hne, scanL_cons_gt st post _ hnid hlf h1]
      rcases hpost with rfl | ⟨c, ch, c0, ct, rest, rfl, g1, g2, g3⟩
      · rfl
      · rw [scanL_cons_gt st rest _ g1 g2 (by omega)]; rfl
    · by_cases h2 : s0 = k0
      · subst h2
        obtain ⟨e1, _⟩ := scanL_cons_eq st post (0 + pre.length) hnid hlf
        rw [e1]
        simp only [desc1, hnid]
        have hlen : (s0 :: st).length = lf.key.length := by rw [hlf]; exact hs
        by_cases heq : s0 :: st = s0 :: kt
        · rw [if_pos heq, hlf, ← heq, lcp_self]
          simp
        · rw [if_neg heq]
          have hj : lcp lf.key (s0 :: st) ≠ min lf.key.length (s0 :: st).length := by
            intro hj
            rw [hlen, Nat.min_self] at hj
            exact heq ((eq_of_lcp_full hj hlen.symm).symm.trans hlf)
          rw [if_neg hj]
          rcases hpost with rfl | ⟨c, ch, c0, ct, rest, rfl, g1, g2, g3⟩
          · rfl
          · rw [scanL_cons_gt st rest _ g1 g2 g3]
      · have hne : ¬ (s0 :: st = k0 :: kt) := by
          intro heq; cases heq; exact h2 rfl
        rw [if_neg hne, scanL_cons_lt st post _ ⟨k0, ⟨lf, kt, hnid, hlf⟩, by omega⟩]
        exact hposteq _


theorem entR_ok_some (n : LN) : entR (.ok (some n)) = .ok (some n.ent) := rfl
theorem entR_ok_none : entR (.ok none) = .ok none := rfl

/-- a copy of node `c` (same children) answers every lookup like `c` did -/
theorem look_copy {lh lh' : LHeap} {c cN : Nat} {ch cNr : LN} (hc : lh[c]? = some ch) (hcN : lh'[cN]? = some cNr)
    (hk : cNr.kids = ch.kids)
    (hsame : ∀ x ∈ ch.kids, lh'[x]? = lh[x]? ∧ ∀ t, look lh' x t = look lh x t) (t : Key) :
    look lh' cN t = look lh c t := by
  rw [look_step hcN, look_step hc, hk, scanL_same t ch.kids 0 (fun x hx => (hsame x hx).1)]
  apply desc1_congr
  intro i c' j hr
  exact hsame c' (scanL_at_mem hr)

/-- **splitting a child**: below the node that replaces child `c` (key `ck`, split at `j = lcp ck k`) hang a
    copy `cN` of `c` with key `ck.drop j` and a leaf `lf` with key `k.drop j`.  For a key `s` that matches the
    first `j` symbols, the lookup continues like the old lookup into `c` — except for `k` itself. -/
theorem LA_split {lh lh' : LHeap} {c cN lf : Nat} {ch cNr lfr : LN} {k : Key} {tk : List Nat}
    (hc : lh[c]? = some ch)
    (hj0 : 0 < lcp ch.key k) (hj1 : lcp ch.key k < ch.key.length) (hj2 : lcp ch.key k < k.length)
    (hcN : lh'[cN]? = some cNr) (hcNk : cNr.key = ch.key.drop (lcp ch.key k)) (hcNkids : cNr.kids = ch.kids)
    (hcNe : cNr.ent = ch.ent)
    (hlf : lh'[lf]? = some lfr) (hlfk : lfr.key = k.drop (lcp ch.key k))
    (htk : two (k.drop (lcp ch.key k)) (ch.key.drop (lcp ch.key k)) lf cN = some tk)
    (hsame : ∀ x ∈ ch.kids, lh'[x]? = lh[x]? ∧ ∀ t, look lh' x t = look lh x t)
    (s : Key) (hs : s.length = k.length) (hcs : ch.key.length ≤ s.length) (hjs : lcp ch.key k ≤ lcp ch.key s) (i : Nat) :
    entR (desc1 lh' (s.drop (lcp ch.key k)) (scanL lh' (s.drop (lcp ch.key k)) tk 0)) =
      (if s = k then .ok (some lfr.ent) else entR (desc1 lh s (.at i c (lcp ch.key s)))) ∧
    (s = k → desc1 lh s (.at i c (lcp ch.key s)) = .ok none) := by
  obtain ⟨b, a, cbt, kat, eb, ea, hab⟩ := lcp_mismatch ch.key k hj1 hj2
  generalize hj : lcp ch.key k = j at *
  have hmissk : s = k → desc1 lh s (.at i c (lcp ch.key s)) = .ok none := by
    intro e
    subst e
    simp only [desc1, hc]
    have : lcp ch.key s ≠ min ch.key.length s.length := by rw [hj]; omega
    rw [if_neg this]
  refine ⟨?_, hmissk⟩
  have hs'len : (s.drop j).length = s.length - j := by simp
  have hcNr : cNr.key = b :: cbt := hcNk.trans eb
  have hlfr : lfr.key = a :: kat := hlfk.trans ea
  have htk' : tk = if a < b then [lf, cN] else [cN, lf] := by
    rw [ea, eb] at htk
    simp only [two, Option.some.injEq] at htk
    exact htk.symm
  cases hs' : s.drop j with
  | nil => rw [hs'] at hs'len; simp at hs'len; omega
  | cons s0 st =>
  by_cases hgt : j < lcp ch.key s
  · -- the key follows `ck` beyond the split point: it goes to the copy of `c`
    have hne : s ≠ k := by
      intro e; rw [e, hj] at hgt; omega
    rw [if_neg hne]
    have hl : lcp (ch.key.drop j) (s.drop j) = lcp ch.key s - j := lcp_drop j _ _ (by omega)
    have hs0 : s0 = b := by
      obtain ⟨x, as, bs, e1, e2⟩ := lcp_pos_head (a := ch.key.drop j) (b := s.drop j) (by omega)
      rw [eb] at e1; rw [hs'] at e2
      cases e1; cases e2; rfl
    subst hs0
    have hscan : ∃ i', scanL lh' (s0 :: st) tk 0 = .at i' cN (lcp cNr.key (s0 :: st)) := by
      rw [htk']
      by_cases hlt : a < s0
      · rw [if_pos hlt, scanL_cons_lt st _ 0 ⟨a, ⟨lfr, kat, hlf, hlfr⟩, hlt⟩]
        exact ⟨_, (scanL_cons_eq st [] _ hcN hcNr).1⟩
      · rw [if_neg hlt]
        exact ⟨_, (scanL_cons_eq st [lf] _ hcN hcNr).1⟩
    obtain ⟨i', hscan⟩ := hscan
    rw [hscan]
    have hjj : lcp cNr.key (s0 :: st) = lcp ch.key s - j := by rw [hcNk, ← hs', hl]
    simp only [desc1, hcN, hc]
    have hklen : cNr.key.length = ch.key.length - j := by rw [hcNk]; simp
    have hstlen : (s0 :: st).length = s.length - j := by rw [← hs']; exact hs'len
    have hle1 := lcp_le_left ch.key s
    have hle2 := lcp_le_right ch.key s
    by_cases t1 : lcp ch.key s = min ch.key.length s.length
    · have t1' : lcp cNr.key (s0 :: st) = min cNr.key.length (s0 :: st).length := by
        rw [hjj, hklen, hstlen]; omega
      rw [if_pos t1, if_pos t1']
      by_cases t2 : s.length = ch.key.length
      · have t2' : (s0 :: st).length = cNr.key.length := by rw [hklen, hstlen]; omega
        rw [if_pos t2, if_pos t2', entR_ok_some, entR_ok_some, hcNe]
      · have t2' : ¬ (s0 :: st).length = cNr.key.length := by rw [hklen, hstlen]; omega
        rw [if_neg t2, if_neg t2']
        have t3 : s.length > ch.key.length := by omega
        have t3' : (s0 :: st).length > cNr.key.length := by rw [hklen, hstlen]; omega
        rw [if_pos t3, if_pos t3']
        have hd : (s0 :: st).drop (lcp cNr.key (s0 :: st)) = s.drop (lcp ch.key s) := by
          rw [hjj, ← hs', List.drop_drop]; congr 1; omega
        rw [hd, look_copy hc hcN hcNkids hsame]
    · have t1' : ¬ lcp cNr.key (s0 :: st) = min cNr.key.length (s0 :: st).length := by
        rw [hjj, hklen, hstlen]; omega
      rw [if_neg t1, if_neg t1']
  · -- the key leaves `ck` exactly at the split point
    have hjeq : lcp ch.key s = j := by omega
    have hold : desc1 lh s (.at i c (lcp ch.key s)) = .ok none := by
      simp only [desc1, hc]
      have : lcp ch.key s ≠ min ch.key.length s.length := by rw [hjeq]; omega
      rw [if_neg this]
    have hs0b : s0 ≠ b := by
      obtain ⟨x, y, as, bs, e1, e2, hxy⟩ := lcp_mismatch ch.key s (by omega) (by omega)
      rw [hjeq, eb] at e1; rw [hjeq, hs'] at e2
      cases e1; cases e2; exact fun e => hxy e.symm
    by_cases hs0a : s0 = a
    · subst hs0a
      have hscan : ∃ i', scanL lh' (s0 :: st) tk 0 = .at i' lf (lcp lfr.key (s0 :: st)) := by
        rw [htk']
        by_cases hlt : s0 < b
        · rw [if_pos hlt]
          exact ⟨_, (scanL_cons_eq st [cN] _ hlf hlfr).1⟩
        · rw [if_neg hlt, scanL_cons_lt st _ 0 ⟨b, ⟨cNr, cbt, hcN, hcNr⟩, by omega⟩]
          exact ⟨_, (scanL_cons_eq st [] _ hlf hlfr).1⟩
      obtain ⟨i', hscan⟩ := hscan
      rw [hscan]
      have hlflen : lfr.key.length = (s0 :: st).length := by
        rw [hlfk, ← hs', hs'len]; simp; omega
      by_cases heq : s = k
      · rw [if_pos heq]
        simp only [desc1, hlf]
        have : lfr.key = s0 :: st := by rw [hlfk, ← hs', heq]
        rw [this, lcp_self]
        simp [entR_ok_some]
      · rw [if_neg heq, hold]
        simp only [desc1, hlf]
        have hne : lcp lfr.key (s0 :: st) ≠ min lfr.key.length (s0 :: st).length := by
          intro e
          rw [hlflen, Nat.min_self, ← hlflen] at e
          have e2 := eq_of_lcp_full e hlflen
          apply heq
          have t1 := take_lcp ch.key s
          have t2 := take_lcp ch.key k
          rw [hjeq] at t1; rw [hj] at t2
          rw [← List.take_append_drop j s, ← List.take_append_drop j k, ← t1, ← t2, hs', ← e2, hlfk]
        rw [if_neg hne]
    · have hne : s ≠ k := by
        intro e
        rw [e, ea] at hs'
        cases hs'; exact hs0a rfl
      rw [if_neg hne, hold]
      have hv : KidsValid lh' tk := by
        intro x hx
        rw [htk'] at hx
        have : x = lf ∨ x = cN := by
          split at hx <;> simp at hx <;> omega
        rcases this with rfl | rfl
        · exact ⟨a, lfr, kat, hlf, hlfr⟩
        · exact ⟨b, cNr, cbt, hcN, hcNr⟩
      cases scanL_cases s0 st tk 0 hv with
      | none h e => rw [e]; rfl
      | before p x q xh c0 ct hk hp h1 h2 h3 e => rw [e]; rfl
      | hit p x q xh ct hk hp h1 h2 e =>
        exfalso
        have hx : x ∈ tk := by rw [hk]; simp
        rw [htk'] at hx
        have : x = lf ∨ x = cN := by
          split at hx <;> simp at hx <;> omega
        rcases this with rfl | rfl
        · rw [hlf] at h1; cases h1; rw [hlfr] at h2; cases h2; exact hs0a rfl
        · rw [hcN] at h1; cases h1; rw [hcNr] at h2; cases h2; exact hs0b rfl


/-- the same, seen from the parent: the child `c` was replaced by (or turned into) the node `TC` with key
    `ck.take j` and the two children of `LA_split` -/
theorem LA_split_parent {lh lh' : LHeap} {c cN lf TC : Nat} {ch cNr lfr tcr : LN} {k : Key} {tk : List Nat}
    (hc : lh[c]? = some ch)
    (hj0 : 0 < lcp ch.key k) (hj1 : lcp ch.key k < ch.key.length) (hj2 : lcp ch.key k < k.length)
    (hcN : lh'[cN]? = some cNr) (hcNk : cNr.key = ch.key.drop (lcp ch.key k)) (hcNkids : cNr.kids = ch.kids)
    (hcNe : cNr.ent = ch.ent)
    (hlf : lh'[lf]? = some lfr) (hlfk : lfr.key = k.drop (lcp ch.key k))
    (htk : two (k.drop (lcp ch.key k)) (ch.key.drop (lcp ch.key k)) lf cN = some tk)
    (hTC : lh'[TC]? = some tcr) (hTCk : tcr.key = ch.key.take (lcp ch.key k)) (hTCkids : tcr.kids = tk)
    (hsame : ∀ x ∈ ch.kids, lh'[x]? = lh[x]? ∧ ∀ t, look lh' x t = look lh x t)
    (s : Key) (hs : s.length = k.length) (hcs : ch.key.length ≤ s.length) (i i' : Nat) :
    entR (desc1 lh' s (.at i' TC (lcp tcr.key s))) =
      (if s = k then .ok (some lfr.ent) else entR (desc1 lh s (.at i c (lcp ch.key s)))) ∧
    (s = k → desc1 lh s (.at i c (lcp ch.key s)) = .ok none) := by
  have hlen : tcr.key.length = lcp ch.key k := by rw [hTCk]; simp; omega
  have hl : lcp tcr.key s = min (lcp ch.key k) (lcp ch.key s) := by rw [hTCk, lcp_take]
  by_cases hjs : lcp ch.key k ≤ lcp ch.key s
  · obtain ⟨g1, g2⟩ := LA_split hc hj0 hj1 hj2 hcN hcNk hcNkids hcNe hlf hlfk htk hsame s hs hcs hjs i
    refine ⟨?_, g2⟩
    have e1 : lcp tcr.key s = min tcr.key.length s.length := by rw [hl, hlen]; omega
    have e2 : ¬ s.length = tcr.key.length := by rw [hlen]; omega
    have e3 : s.length > tcr.key.length := by rw [hlen]; omega
    have this : lcp tcr.key s = lcp ch.key k := by rw [hl]; omega
    have eL : desc1 lh' s (.at i' TC (lcp tcr.key s)) = look lh' TC (s.drop (lcp ch.key k)) := by
      simp only [desc1, hTC]
      rw [if_pos e1, if_neg e2, if_pos e3, this]
    rw [eL, look_step hTC, hTCkids]
    exact g1
  · have hne : s ≠ k := by
      intro e; rw [e] at hjs; omega
    refine ⟨?_, fun e => absurd e hne⟩
    rw [if_neg hne]
    simp only [desc1, hTC, hc]
    have e1 : ¬ lcp tcr.key s = min tcr.key.length s.length := by rw [hl, hlen]; omega
    have e2 : ¬ lcp ch.key s = min ch.key.length s.length := by omega
    rw [if_neg e1, if_neg e2]


/-- scanning and descending agree in two heaps in which every child keeps its first symbol and the children
    starting with the looked-up symbol keep their records and lookups -/
theorem desc_scan_transfer {lh lh' : LHeap} {s0 : Nat} {st : Key} {ks : List Nat} (i : Nat)
    (hv : KidsValid lh ks)
    (hsame : ∀ y ∈ ks, ∀ c0, Hd lh y c0 → Hd lh' y c0 ∧
      (c0 = s0 → lh'[y]? = lh[y]? ∧ ∀ t, look lh' y t = look lh y t)) :
    desc1 lh' (s0 :: st) (scanL lh' (s0 :: st) ks i) = desc1 lh (s0 :: st) (scanL lh (s0 :: st) ks i) := by
  rcases scanL_transfer (lh' := lh') (fun x hx c0 h => (hsame x hx c0 h).1) (scanL_cases s0 st ks i hv) with
    ⟨e1, e2⟩ | ⟨i', e1, e2⟩ | ⟨i', c, ch, ch', ct, ct', hc, h1, h2, h3, h4, e1, e2⟩
  · rw [e1, e2]; rfl
  · rw [e1, e2]; rfl
  · obtain ⟨g1, g2⟩ := (hsame c hc s0 ⟨ch, ct, h1, h3⟩).2 rfl
    rw [e1, e2]
    have : ch' = ch := by rw [h1, h2] at g1; cases g1; rfl
    subst this
    simp only [desc1, h1, h2, g2]

/-- **replacing a child**: child `c` (first symbol `k0`, reached by the scan for keys starting with `k0`) is
    replaced by — or turns into — a node `x` whose key starts with the same symbol -/
theorem LA_at {lh lh' : LHeap} {k0 : Nat} {pre post : List Nat} {c x : Nat} {ch xh : LN} {ct xt : Key}
    (hv : KidsValid lh (pre ++ c :: post))
    (hpre : ∀ y ∈ pre, HdLt lh k0 y)
    (hc : lh[c]? = some ch) (hck : ch.key = k0 :: ct)
    (hx : lh'[x]? = some xh) (hxk : xh.key = k0 :: xt)
    (hsame : ∀ y ∈ pre ++ post, ∀ c0, Hd lh y c0 → Hd lh' y c0 ∧
      (c0 ≠ k0 → lh'[y]? = lh[y]? ∧ ∀ t, look lh' y t = look lh y t))
    (s0 : Nat) (st : Key) :
    (s0 = k0 → scanL lh' (s0 :: st) (pre ++ x :: post) 0 = .at (0 + pre.length) x (lcp xh.key (s0 :: st)) ∧
               scanL lh (s0 :: st) (pre ++ c :: post) 0 = .at (0 + pre.length) c (lcp ch.key (s0 :: st))) ∧
    (s0 ≠ k0 → desc1 lh' (s0 :: st) (scanL lh' (s0 :: st) (pre ++ x :: post) 0) =
               desc1 lh (s0 :: st) (scanL lh (s0 :: st) (pre ++ c :: post) 0)) := by
  have hpre' : ∀ y ∈ pre, HdLt lh' k0 y := by
    intro y hy
    obtain ⟨c0, h1, h2⟩ := hpre y hy
    exact ⟨c0, (hsame y (List.mem_append_left _ hy) c0 h1).1, h2⟩
  constructor
  · intro e
    subst e
    rw [scanL_pass st pre _ 0 hpre', scanL_pass st pre _ 0 hpre]
    exact ⟨(scanL_cons_eq st post _ hx hxk).1, (scanL_cons_eq st post _ hc hck).1⟩
  · intro hne
    have hvpre : KidsValid lh pre := kidsValid_append_left hv
    have hvpost : KidsValid lh post := fun y hy => hv y (by simp [hy])
    have hsame' : ∀ y ∈ pre ++ post, ∀ c0, Hd lh y c0 → Hd lh' y c0 ∧
        (c0 = s0 → lh'[y]? = lh[y]? ∧ ∀ t, look lh' y t = look lh y t) := by
      intro y hy c0 h
      obtain ⟨g1, g2⟩ := hsame y hy c0 h
      exact ⟨g1, fun e => g2 (by rw [e]; exact hne)⟩
    have tpre := fun i => desc_scan_transfer (st := st) i hvpre (fun y hy => hsame' y (List.mem_append_left _ hy))
    have tpost := fun i => desc_scan_transfer (st := st) i hvpost (fun y hy => hsame' y (List.mem_append_right _ hy))
    -- the scan over `pre` gives the same kind of result in both heaps
    rcases scanL_transfer (lh' := lh') (fun y hy c0 h => (hsame y (List.mem_append_left _ hy) c0 h).1)
      (scanL_cases s0 st pre 0 hvpre) with ⟨e1, e2⟩ | ⟨i', e1, e2⟩ | ⟨i', c', ch1, ch1', ct1, ct1', hc', h1, h2, h3, h4, e1, e2⟩
    · rw [scanL_append, scanL_append, e1, e2]
      simp only
      by_cases hlt : s0 < k0
      · rw [scanL_cons_gt st post _ hx hxk hlt, scanL_cons_gt st post _ hc hck hlt]; rfl
      · rw [scanL_cons_lt st post _ ⟨k0, ⟨xh, xt, hx, hxk⟩, by omega⟩,
          scanL_cons_lt st post _ ⟨k0, ⟨ch, ct, hc, hck⟩, by omega⟩]
        exact tpost _
    · rw [scanL_append, scanL_append, e1, e2]; rfl
    · have := tpre 0
      rw [scanL_append, scanL_append]
      rw [e1, e2] at this ⊢
      exact this

end LemoProofs.CowHeapL

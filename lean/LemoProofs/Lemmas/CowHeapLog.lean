/-
  C09 (heap refinement, part 4): basic facts about logical heaps — `lcp`, `scanL`, one-step unfolding of
  `findL`, the well-formedness invariant `LOk` (ghost absolute prefix `full`, fixed key length `L`) and the
  frame lemma for `findL` over sets of nodes closed under children.
-/
import LemoProofs.Lemmas.CowHeapL
set_option linter.unusedSimpArgs false
set_option linter.unusedVariables false
namespace LemoProofs.CowHeapL
open LemoModel.CowTrie

/-! ### lcp -/

theorem lcp_le_left : ∀ (a b : Key), lcp a b ≤ a.length
  | [], _ => by simp [lcp]
  | _ :: _, [] => by simp [lcp]
  | x :: as, y :: bs => by
    unfold lcp; split
    · have := lcp_le_left as bs; simp; omega
    · simp

theorem lcp_le_right : ∀ (a b : Key), lcp a b ≤ b.length
  | [], _ => by simp [lcp]
  | _ :: _, [] => by simp [lcp]
  | x :: as, y :: bs => by
    unfold lcp; split
    · have := lcp_le_right as bs; simp; omega
    · simp

theorem lcp_self : ∀ (a : Key), lcp a a = a.length
  | [] => rfl
  | x :: as => by simp [lcp, lcp_self as]

theorem lcp_comm : ∀ (a b : Key), lcp a b = lcp b a
  | [], [] => rfl
  | [], _ :: _ => rfl
  | _ :: _, [] => rfl
  | x :: as, y :: bs => by
    unfold lcp
    by_cases e : x = y
    · simp [e, lcp_comm as bs]
    · have : ¬ y = x := fun h => e h.symm
      simp [e, this]

theorem take_lcp : ∀ (a b : Key), a.take (lcp a b) = b.take (lcp a b)
  | [], _ => by simp [lcp]
  | _ :: _, [] => by simp [lcp]
  | x :: as, y :: bs => by
    unfold lcp; split
    · rename_i e; simp [e, take_lcp as bs]
    · simp

theorem lcp_eq_left {a b : Key} (h : lcp a b = a.length) : a = b.take a.length := by
  have := take_lcp a b
  rw [h] at this
  simpa using this

theorem eq_of_lcp_full {a b : Key} (h : lcp a b = a.length) (hl : a.length = b.length) : a = b := by
  have := lcp_eq_left h
  rw [hl] at this
  simpa using this

theorem lcp_zero_iff {x y : Nat} {as bs : Key} : lcp (x :: as) (y :: bs) = 0 ↔ x ≠ y := by
  unfold lcp
  by_cases e : x = y <;> simp [e]

theorem lcp_pos_head {a b : Key} (h : 0 < lcp a b) : ∃ x as bs, a = x :: as ∧ b = x :: bs := by
  cases a with
  | nil => simp [lcp] at h
  | cons x as =>
    cases b with
    | nil => simp [lcp] at h
    | cons y bs =>
      by_cases e : x = y
      · subst e; exact ⟨x, as, bs, rfl, rfl⟩
      · have := (lcp_zero_iff (as := as) (bs := bs)).mpr e; omega

theorem lcp_take : ∀ (j : Nat) (a b : Key), lcp (a.take j) b = min j (lcp a b)
  | 0, a, b => by cases b <;> simp [lcp]
  | j + 1, [], b => by simp [lcp]
  | j + 1, _ :: _, [] => by simp [lcp]
  | j + 1, x :: as, y :: bs => by
    simp only [List.take_succ_cons]
    unfold lcp
    by_cases e : x = y
    · simp only [e, if_true, lcp_take j as bs]; omega
    · simp [e]

theorem lcp_drop : ∀ (j : Nat) (a b : Key), j ≤ lcp a b → lcp (a.drop j) (b.drop j) = lcp a b - j
  | 0, a, b, _ => by simp
  | j + 1, [], b, h => by simp [lcp] at h
  | j + 1, _ :: _, [], h => by simp [lcp] at h
  | j + 1, x :: as, y :: bs, h => by
    have hl : lcp (x :: as) (y :: bs) = if x = y then lcp as bs + 1 else 0 := by rw [lcp]
    rw [hl] at h ⊢
    by_cases e : x = y
    · simp only [e, if_true] at h ⊢
      simp only [List.drop_succ_cons]
      rw [lcp_drop j as bs (by omega)]; omega
    · simp [e] at h

/-- at the first mismatch both keys continue with different symbols -/
theorem lcp_mismatch : ∀ (a b : Key), lcp a b < a.length → lcp a b < b.length →
    ∃ x y as bs, a.drop (lcp a b) = x :: as ∧ b.drop (lcp a b) = y :: bs ∧ x ≠ y
  | [], _, h, _ => by simp at h
  | _ :: _, [], _, h => by simp at h
  | x :: as, y :: bs, h1, h2 => by
    unfold lcp at h1 h2 ⊢
    by_cases e : x = y
    · simp only [e, if_true] at h1 h2 ⊢
      simp only [List.length_cons] at h1 h2
      obtain ⟨p, q, r, s, e1, e2, e3⟩ := lcp_mismatch as bs (by omega) (by omega)
      exact ⟨p, q, r, s, by simpa using e1, by simpa using e2, e3⟩
    · simp only [e, if_false]
      exact ⟨x, y, as, bs, rfl, rfl, e⟩


/-! ### scanL: the first child whose first symbol is ≥ the key's first symbol -/

/-- child `x` exists and its key starts with `c0` -/
def Hd (lh : LHeap) (x c0 : Nat) : Prop := ∃ ch ct, lh[x]? = some ch ∧ ch.key = c0 :: ct

def HdLt (lh : LHeap) (k0 x : Nat) : Prop := ∃ c0, Hd lh x c0 ∧ c0 < k0

theorem scanL_cons_lt {lh : LHeap} {k0 x : Nat} (kt : Key) (cs : List Nat) (i : Nat) (h : HdLt lh k0 x) :
    scanL lh (k0 :: kt) (x :: cs) i = scanL lh (k0 :: kt) cs (i + 1) := by
  obtain ⟨c0, ⟨ch, ct, h1, h2⟩, h3⟩ := h
  have hne : c0 ≠ k0 := by omega
  have hnl : ¬ k0 < c0 := by omega
  rw [scanL, h1]
  simp only [h2, lcp_zero_iff.mpr hne, if_true, hnl, if_false]

theorem scanL_cons_eq {lh : LHeap} {k0 x : Nat} {ch : LN} {ct : Key} (kt : Key) (cs : List Nat) (i : Nat)
    (h1 : lh[x]? = some ch) (h2 : ch.key = k0 :: ct) :
    scanL lh (k0 :: kt) (x :: cs) i = .at i x (lcp ch.key (k0 :: kt)) ∧ 0 < lcp ch.key (k0 :: kt) := by
  have hpos : lcp ch.key (k0 :: kt) ≠ 0 := by
    rw [h2]; unfold lcp; simp
  refine ⟨?_, by omega⟩
  rw [scanL, h1]
  simp only [hpos, if_false]

theorem scanL_cons_gt {lh : LHeap} {k0 x c0 : Nat} {ch : LN} {ct : Key} (kt : Key) (cs : List Nat) (i : Nat)
    (h1 : lh[x]? = some ch) (h2 : ch.key = c0 :: ct) (h3 : k0 < c0) :
    scanL lh (k0 :: kt) (x :: cs) i = .before i := by
  have hne : c0 ≠ k0 := by omega
  rw [scanL, h1]
  simp only [h2, lcp_zero_iff.mpr hne, if_true, h3]

theorem scanL_pass {lh : LHeap} {k0 : Nat} (kt : Key) : ∀ (pre rest : List Nat) (i : Nat),
    (∀ x ∈ pre, HdLt lh k0 x) → scanL lh (k0 :: kt) (pre ++ rest) i = scanL lh (k0 :: kt) rest (i + pre.length)
  | [], rest, i, _ => by simp
  | x :: pre, rest, i, h => by
    rw [List.cons_append, scanL_cons_lt kt _ i (h x List.mem_cons_self),
      scanL_pass kt pre rest (i + 1) (fun y hy => h y (List.mem_cons_of_mem _ hy))]
    simp only [List.length_cons]
    congr 1; omega

theorem scanL_all_lt {lh : LHeap} {k0 : Nat} (kt : Key) (ks : List Nat) (i : Nat)
    (h : ∀ x ∈ ks, HdLt lh k0 x) : scanL lh (k0 :: kt) ks i = .none := by
  have := scanL_pass kt ks [] i h
  rw [List.append_nil] at this
  rw [this]; rfl

/-- every child exists and has a nonempty key -/
def KidsValid (lh : LHeap) (ks : List Nat) : Prop := ∀ x ∈ ks, ∃ c0, Hd lh x c0

inductive ScanRes (lh : LHeap) (k0 : Nat) (kt : Key) (ks : List Nat) (i : Nat) : Prop where
  | none (h : ∀ x ∈ ks, HdLt lh k0 x) (e : scanL lh (k0 :: kt) ks i = .none)
  | hit (pre : List Nat) (c : Nat) (post : List Nat) (ch : LN) (ct : Key) (hk : ks = pre ++ c :: post)
      (hp : ∀ x ∈ pre, HdLt lh k0 x) (h1 : lh[c]? = some ch) (h2 : ch.key = k0 :: ct)
      (e : scanL lh (k0 :: kt) ks i = .at (i + pre.length) c (lcp ch.key (k0 :: kt)))
  | before (pre : List Nat) (c : Nat) (post : List Nat) (ch : LN) (c0 : Nat) (ct : Key) (hk : ks = pre ++ c :: post)
      (hp : ∀ x ∈ pre, HdLt lh k0 x) (h1 : lh[c]? = some ch) (h2 : ch.key = c0 :: ct) (h3 : k0 < c0)
      (e : scanL lh (k0 :: kt) ks i = .before (i + pre.length))

theorem scanL_cases {lh : LHeap} (k0 : Nat) (kt : Key) : ∀ (ks : List Nat) (i : Nat), KidsValid lh ks →
    ScanRes lh k0 kt ks i
  | [], i, _ => .none (fun _ h => by cases h) rfl
  | x :: cs, i, hv => by
    obtain ⟨c0, ch, ct, h1, h2⟩ := hv x List.mem_cons_self
    have hv' : KidsValid lh cs := fun y hy => hv y (List.mem_cons_of_mem _ hy)
    by_cases e1 : c0 < k0
    · have hx : HdLt lh k0 x := ⟨c0, ⟨ch, ct, h1, h2⟩, e1⟩
      have hs := scanL_cons_lt kt cs i hx
      cases scanL_cases k0 kt cs (i + 1) hv' with
      | none h e => exact .none (fun y hy => by
          rcases List.mem_cons.mp hy with rfl | hy
          · exact hx
          · exact h y hy) (hs.trans e)
      | hit pre c post ch' ct' hk hp g1 g2 e =>
        refine .hit (x :: pre) c post ch' ct' (by rw [hk]; rfl) (fun y hy => by
          rcases List.mem_cons.mp hy with rfl | hy
          · exact hx
          · exact hp y hy) g1 g2 ?_
        rw [hs, e]; simp only [List.length_cons]; congr 1; omega
      | before pre c post ch' c0' ct' hk hp g1 g2 g3 e =>
        refine .before (x :: pre) c post ch' c0' ct' (by rw [hk]; rfl) (fun y hy => by
          rcases List.mem_cons.mp hy with rfl | hy
          · exact hx
          · exact hp y hy) g1 g2 g3 ?_
        rw [hs, e]; simp only [List.length_cons]; congr 1; omega
    · by_cases e2 : c0 = k0
      · subst e2
        exact .hit [] x cs ch ct rfl (fun _ h => by cases h) h1 h2 (scanL_cons_eq kt cs i h1 h2).1
      · exact .before [] x cs ch c0 ct rfl (fun _ h => by cases h) h1 h2 (by omega) (scanL_cons_gt kt cs i h1 h2 (by omega))

/-- `scanL` only looks at the children's keys -/
theorem scanL_congr {lh lh' : LHeap} (key : Key) : ∀ (ks : List Nat) (i : Nat),
    (∀ x ∈ ks, (lh'[x]?).map (·.key) = (lh[x]?).map (·.key)) → scanL lh' key ks i = scanL lh key ks i
  | [], _, _ => rfl
  | x :: cs, i, h => by
    have hx := h x List.mem_cons_self
    have ih := scanL_congr key cs (i + 1) (fun y hy => h y (List.mem_cons_of_mem _ hy))
    unfold scanL
    cases h1 : lh[x]? with
    | none =>
      rw [h1] at hx
      cases h2 : lh'[x]? with
      | none => rfl
      | some _ => rw [h2] at hx; cases hx
    | some ch =>
      rw [h1] at hx
      cases h2 : lh'[x]? with
      | none => rw [h2] at hx; cases hx
      | some ch' =>
        rw [h2] at hx
        simp only [Option.map_some, Option.some.injEq] at hx
        simp only [hx, ih]

theorem HdLt_congr {lh lh' : LHeap} {k0 x : Nat} (h : (lh'[x]?).map (·.key) = (lh[x]?).map (·.key))
    (hl : HdLt lh k0 x) : HdLt lh' k0 x := by
  obtain ⟨c0, ⟨ch, ct, h1, h2⟩, h3⟩ := hl
  rw [h1] at h
  cases h4 : lh'[x]? with
  | none => rw [h4] at h; cases h
  | some ch' =>
    rw [h4] at h
    simp only [Option.map_some, Option.some.injEq] at h
    exact ⟨c0, ⟨ch', ct, h4, h.trans h2⟩, h3⟩

/-! ### one step of `findL` -/

def descend (f : Nat) (lh : LHeap) (key : Key) : Hit → Res (Option LN)
  | .none => .ok none
  | .before _ => .ok none
  | .panic => .panic
  | .stuck => .stuck
  | .at _ c j =>
    match lh[c]? with
    | none => .stuck
    | some ch =>
      if j = min ch.key.length key.length then
        if key.length = ch.key.length then .ok (some ch)
        else if key.length > ch.key.length then findL f lh c (key.drop j)
        else .ok none
      else .ok none

theorem findL_succ {lh : LHeap} {cur : Nat} {n : LN} (h : lh[cur]? = some n) (f : Nat) (key : Key) :
    findL (f + 1) lh cur key = descend f lh key (scanL lh key n.kids 0) := by
  rw [findL, h]
  simp only
  cases scanL lh key n.kids 0 <;> rfl


theorem scanL_at_mem {lh : LHeap} {key : Key} : ∀ {ks : List Nat} {i i' c j : Nat},
    scanL lh key ks i = .at i' c j → c ∈ ks
  | [], _, _, _, _, h => by simp [scanL] at h
  | x :: cs, i, i', c, j, h => by
    unfold scanL at h
    split at h
    · cases h
    · simp only at h
      split at h
      · split at h
        · split at h
          · cases h
          · exact List.mem_cons_of_mem _ (scanL_at_mem h)
        · cases h
      · cases h; exact List.mem_cons_self

/-! ### well-formed logical heaps -/

/-- strictly increasing first symbols -/
def SortedKids (lh : LHeap) (ks : List Nat) : Prop :=
  ks.Pairwise (fun x y => ∃ a b, Hd lh x a ∧ Hd lh y b ∧ a < b)

theorem SortedKids.transfer {lh lh' : LHeap} {ks : List Nat} (h : SortedKids lh ks)
    (hh : ∀ x ∈ ks, ∀ c0, Hd lh x c0 → Hd lh' x c0) : SortedKids lh' ks := by
  unfold SortedKids at *
  induction ks with
  | nil => exact List.Pairwise.nil
  | cons x ks ih =>
    rw [List.pairwise_cons] at h ⊢
    refine ⟨?_, ih h.2 (fun y hy => hh y (List.mem_cons_of_mem _ hy))⟩
    intro y hy
    obtain ⟨a, b, h1, h2, h3⟩ := h.1 y hy
    exact ⟨a, b, hh x List.mem_cons_self a h1, hh y (List.mem_cons_of_mem _ hy) b h2, h3⟩

theorem Hd_unique {lh : LHeap} {x a b : Nat} (h1 : Hd lh x a) (h2 : Hd lh x b) : a = b := by
  obtain ⟨ch, ct, e1, e2⟩ := h1
  obtain ⟨ch', ct', e3, e4⟩ := h2
  rw [e1] at e3; cases e3
  rw [e2] at e4; cases e4; rfl

/-- inserting a child with first symbol `k0` between children with smaller symbols and children the first of which
    has a larger symbol -/
theorem SortedKids.insert {lh : LHeap} {pre post : List Nat} {x k0 : Nat} (h : SortedKids lh (pre ++ post))
    (hx : Hd lh x k0) (hpre : ∀ y ∈ pre, HdLt lh k0 y)
    (hpost : post = [] ∨ ∃ c ch c0 ct rest, post = c :: rest ∧ lh[c]? = some ch ∧ ch.key = c0 :: ct ∧ k0 < c0) :
    SortedKids lh (pre ++ x :: post) := by
  unfold SortedKids at *
  rw [List.pairwise_append] at h ⊢
  obtain ⟨h1, h2, h3⟩ := h
  have hxpost : ∀ y ∈ post, ∃ a b, Hd lh x a ∧ Hd lh y b ∧ a < b := by
    intro y hy
    rcases hpost with rfl | ⟨c, ch, c0, ct, rest, rfl, q1, q2, q3⟩
    · cases hy
    · have hc : Hd lh c c0 := ⟨ch, ct, q1, q2⟩
      rcases List.mem_cons.mp hy with rfl | hy'
      · exact ⟨k0, c0, hx, hc, q3⟩
      · rw [List.pairwise_cons] at h2
        obtain ⟨a, b, g1, g2, g3⟩ := h2.1 y hy'
        have := Hd_unique g1 hc
        exact ⟨k0, b, hx, g2, by omega⟩
  refine ⟨h1, ?_, ?_⟩
  · rw [List.pairwise_cons]; exact ⟨hxpost, h2⟩
  · intro y hy z hz
    rcases List.mem_cons.mp hz with rfl | hz'
    · obtain ⟨c0, g1, g2⟩ := hpre y hy
      exact ⟨c0, k0, g1, hx, g2⟩
    · exact h3 y hy z hz'

/-- replacing a child by one with the same first symbol -/
theorem SortedKids.replace {lh : LHeap} {pre post : List Nat} {c x k0 : Nat} (h : SortedKids lh (pre ++ c :: post))
    (hc : Hd lh c k0) (hx : Hd lh x k0) : SortedKids lh (pre ++ x :: post) := by
  unfold SortedKids at *
  rw [List.pairwise_append] at h ⊢
  obtain ⟨h1, h2, h3⟩ := h
  rw [List.pairwise_cons] at h2 ⊢
  refine ⟨h1, ⟨?_, h2.2⟩, ?_⟩
  · intro y hy
    obtain ⟨a, b, g1, g2, g3⟩ := h2.1 y hy
    have := Hd_unique g1 hc
    exact ⟨k0, b, hx, g2, by omega⟩
  · intro y hy z hz
    rcases List.mem_cons.mp hz with rfl | hz'
    · obtain ⟨a, b, g1, g2, g3⟩ := h3 y hy c List.mem_cons_self
      have := Hd_unique g2 hc
      exact ⟨a, k0, g1, hx, by omega⟩
    · exact h3 y hy z (List.mem_cons_of_mem _ hz')

/-- `full id` is the absolute key prefix at which node `id` sits — the same in every trie that shares
    the node; all keys have length `L` -/
structure LOk {L : Nat} (E : Enc L) (lh : LHeap) (full : Nat → Key) : Prop where
  kid : ∀ (id : Nat) (n : LN) (c : Nat), lh[id]? = some n → c ∈ n.kids →
      ∃ nc, lh[c]? = some nc ∧ nc.key ≠ [] ∧ full c = full id ++ nc.key
  depth : ∀ (id : Nat) (n : LN), lh[id]? = some n → (full id).length ≤ L
  /-- the children of every node are ordered by strictly increasing first symbol (a proper radix trie) -/
  sorted : ∀ (id : Nat) (n : LN), lh[id]? = some n → SortedKids lh n.kids
  /-- terminal nodes sit at full depth and carry the account whose key is their absolute position -/
  term : ∀ (id : Nat) (n : LN), lh[id]? = some n → n.terminal = true →
      (full id).length = L ∧ ∃ d, n.data = some d ∧ E.enc d.addr = full id
  /-- dyes do not increase downwards -/
  mono : ∀ (id : Nat) (n : LN) (c : Nat) (nc : LN), lh[id]? = some n → c ∈ n.kids → lh[c]? = some nc → nc.dye ≤ n.dye

theorem LOk.kidsValid {L : Nat} {E : Enc L} {lh : LHeap} {full : Nat → Key} (hok : LOk E lh full) {id : Nat} {n : LN}
    (hn : lh[id]? = some n) : KidsValid lh n.kids := by
  intro x hx
  obtain ⟨nc, h1, h2, _⟩ := hok.kid id n x hn hx
  cases hk : nc.key with
  | nil => exact absurd hk h2
  | cons c0 ct => exact ⟨c0, nc, ct, h1, hk⟩

/-- lookups that start inside a set of nodes closed under children only depend on those nodes -/
theorem findL_frame {lh lh' : LHeap} (Q : Nat → Prop)
    (hclosed : ∀ (id : Nat) (n : LN) (c : Nat), Q id → lh[id]? = some n → c ∈ n.kids → Q c)
    (hsame : ∀ id, Q id → lh'[id]? = lh[id]?) :
    ∀ (f id : Nat) (s : Key), Q id → findL f lh' id s = findL f lh id s
  | 0, _, _, _ => rfl
  | f + 1, id, s, hq => by
    unfold findL
    rw [hsame id hq]
    cases hn : lh[id]? with
    | none => rfl
    | some n =>
      simp only
      have hsc : scanL lh' s n.kids 0 = scanL lh s n.kids 0 :=
        scanL_congr s n.kids 0 (fun x hx => by rw [hsame x (hclosed id n x hq hn hx)])
      rw [hsc]
      cases hh : scanL lh s n.kids 0 with
      | none => rfl
      | before i => rfl
      | panic => rfl
      | stuck => rfl
      | «at» i c j =>
        simp only
        have hqc : Q c := hclosed id n c hq hn (scanL_at_mem hh)
        rw [hsame c hqc]
        cases hc : lh[c]? with
        | none => rfl
        | some ch =>
          simp only
          rw [findL_frame Q hclosed hsame f c (s.drop j) hqc]

theorem findE_frame {lh lh' : LHeap} (Q : Nat → Prop)
    (hclosed : ∀ (id : Nat) (n : LN) (c : Nat), Q id → lh[id]? = some n → c ∈ n.kids → Q c)
    (hsame : ∀ id, Q id → lh'[id]? = lh[id]?) (f id : Nat) (s : Key) (hq : Q id) :
    findE f lh' id s = findE f lh id s := by
  unfold findE; rw [findL_frame Q hclosed hsame f id s hq]


/-! ### fuel independence, canonical lookup -/

theorem scanL_at_pos {lh : LHeap} {key : Key} : ∀ {ks : List Nat} {i i' c j : Nat},
    scanL lh key ks i = .at i' c j → 0 < j
  | [], _, _, _, _, h => by simp [scanL] at h
  | x :: cs, i, i', c, j, h => by
    unfold scanL at h
    split at h
    · cases h
    · simp only at h
      split at h
      · split at h
        · split at h
          · cases h
          · exact scanL_at_pos h
        · cases h
      · rename_i hne
        cases h; omega

theorem findL_fuel {lh : LHeap} : ∀ (f f' id : Nat) (s : Key), s.length < f → s.length < f' →
    findL f lh id s = findL f' lh id s
  | 0, _, _, _, h, _ => by omega
  | _ + 1, 0, _, _, _, h => by omega
  | f + 1, f' + 1, id, s, h1, h2 => by
    unfold findL
    cases hn : lh[id]? with
    | none => rfl
    | some n =>
      simp only
      cases hh : scanL lh s n.kids 0 with
      | none => rfl
      | before i => rfl
      | panic => rfl
      | stuck => rfl
      | «at» i c j =>
        simp only
        have hj := scanL_at_pos hh
        cases hc : lh[c]? with
        | none => rfl
        | some ch =>
          simp only
          by_cases e1 : j = min ch.key.length s.length
          · simp only [e1, if_true]
            by_cases e2 : s.length = ch.key.length
            · simp only [e2, if_true]
            · simp only [e2, if_false]
              by_cases e3 : s.length > ch.key.length
              · simp only [e3, if_true]
                have : (s.drop (min ch.key.length s.length)).length < s.length := by
                  simp only [List.length_drop]; omega
                exact findL_fuel f f' c _ (by omega) (by omega)
              · simp only [e3, if_false]
          · simp only [e1, if_false]

/-- lookup with the canonical fuel -/
def look (lh : LHeap) (id : Nat) (s : Key) : Res (Option LN) := findL (s.length + 1) lh id s

theorem findL_eq_look {lh : LHeap} {f id : Nat} {s : Key} (h : s.length < f) : findL f lh id s = look lh id s :=
  findL_fuel f (s.length + 1) id s h (Nat.lt_succ_self _)

def desc1 (lh : LHeap) (key : Key) : Hit → Res (Option LN)
  | .none => .ok none
  | .before _ => .ok none
  | .panic => .panic
  | .stuck => .stuck
  | .at _ c j =>
    match lh[c]? with
    | none => .stuck
    | some ch =>
      if j = min ch.key.length key.length then
        if key.length = ch.key.length then .ok (some ch)
        else if key.length > ch.key.length then look lh c (key.drop j)
        else .ok none
      else .ok none

theorem look_step {lh : LHeap} {id : Nat} {n : LN} (h : lh[id]? = some n) (s : Key) :
    look lh id s = desc1 lh s (scanL lh s n.kids 0) := by
  unfold look
  rw [findL_succ h]
  cases hh : scanL lh s n.kids 0 with
  | none => rfl
  | before i => rfl
  | panic => rfl
  | stuck => rfl
  | «at» i c j =>
    have hj := scanL_at_pos hh
    simp only [descend, desc1]
    cases hc : lh[c]? with
    | none => rfl
    | some ch =>
      simp only
      by_cases e1 : j = min ch.key.length s.length
      · simp only [e1, if_true]
        by_cases e2 : s.length = ch.key.length
        · simp only [e2, if_true]
        · simp only [e2, if_false]
          by_cases e3 : s.length > ch.key.length
          · simp only [e3, if_true]
            apply findL_eq_look
            simp only [List.length_drop]; omega
          · simp only [e3, if_false]
      · simp only [e1, if_false]

theorem look_none {lh : LHeap} {id : Nat} (h : lh[id]? = none) (s : Key) : look lh id s = .stuck := by
  unfold look findL; rw [h]

theorem look_frame {lh lh' : LHeap} (Q : Nat → Prop)
    (hclosed : ∀ (id : Nat) (n : LN) (c : Nat), Q id → lh[id]? = some n → c ∈ n.kids → Q c)
    (hsame : ∀ id, Q id → lh'[id]? = lh[id]?) (id : Nat) (s : Key) (hq : Q id) :
    look lh' id s = look lh id s :=
  findL_frame Q hclosed hsame _ id s hq

theorem scanL_append {lh : LHeap} (key : Key) : ∀ (a b : List Nat) (i : Nat),
    scanL lh key (a ++ b) i = match scanL lh key a i with
      | .none => scanL lh key b (i + a.length)
      | r => r
  | [], b, i => by simp [scanL]
  | x :: a, b, i => by
    rw [List.cons_append, scanL, scanL]
    cases hx : lh[x]? with
    | none => rfl
    | some ch =>
      simp only
      have ih := scanL_append (lh := lh) key a b (i + 1)
      have hi : i + 1 + a.length = i + (a.length + 1) := by omega
      rw [hi] at ih
      by_cases e : lcp ch.key key = 0
      · simp only [e, if_true]
        split
        · split
          · rfl
          · rw [ih]
            simp only [List.length_cons]
        · rfl
      · simp only [e, if_false]

/-- `desc1` does not look at the position reported by the scan -/
theorem desc1_scan_index {lh lhs : LHeap} (key : Key) : ∀ (ks : List Nat) (i i' : Nat),
    desc1 lh key (scanL lhs key ks i) = desc1 lh key (scanL lhs key ks i')
  | [], _, _ => rfl
  | x :: cs, i, i' => by
    unfold scanL
    cases hx : lhs[x]? with
    | none => rfl
    | some ch =>
      simp only
      have ih := desc1_scan_index (lh := lh) (lhs := lhs) key cs (i + 1) (i' + 1)
      by_cases e : lcp ch.key key = 0
      · simp only [e, if_true]
        split
        · split
          · rfl
          · exact ih
        · rfl
      · simp only [e, if_false]
        rfl

end LemoProofs.CowHeapL

/-
  C09 (heap refinement, part 4): basic facts about logical heaps — `lcp`, `scanL`, one-step unfolding of
  `findL`, the well-formedness invariant `LOk` (ghost absolute prefix `full`, fixed key length `L`) and the
  frame lemma for `findL` over sets of nodes closed under children.
-/
import LemoProofs.Lemmas.CowHeapL
set_option linter.unusedSimpArgs false
set_option linter.unusedVariables false
namespace LemoProofs.CowHeapL
open LemoModel.CowTrie

/-! ### lcp -/

theorem lcp_le_left : ∀ (a b : Key), lcp a b ≤ a.length
  | [], _ => by simp [lcp]
  | _ :: _, [] => by simp [lcp]
  | x :: as, y :: bs => by
    unfold lcp; split
    · have := lcp_le_left as bs; simp; omega
    · simp

theorem lcp_le_right : ∀ (a b : Key), lcp a b ≤ b.length
  | [], _ => by simp [lcp]
  | _ :: _, [] => by simp [lcp]
  | x :: as, y :: bs => by
    unfold lcp; split
    · have := lcp_le_right as bs; simp; omega
    · simp

theorem lcp_self : ∀ (a : Key), lcp a a = a.length
  | [] => rfl
  | x :: as => by simp [lcp, lcp_self as]

theorem lcp_comm : ∀ (a b : Key), lcp a b = lcp b a
  | [], [] => rfl
  | [], _ :: _ => rfl
  | _ :: _, [] => rfl
  | x :: as, y :: bs => by
    unfold lcp
    by_cases e : x = y
    · simp [e, lcp_comm as bs]
    · have : ¬ y = x := fun h => e h.symm
      simp [e, this]

theorem take_lcp : ∀ (a b : Key), a.take (lcp a b) = b.take (lcp a b)
  | [], _ => by simp [lcp]
  | _ :: _, [] => by simp [lcp]
  | x :: as, y :: bs => by
    unfold lcp; split
    · rename_i e; simp [e, take_lcp as bs]
    · simp

theorem lcp_eq_left {a b : Key} (h : lcp a b = a.length) : a = b.take a.length := by
  have := take_lcp a b
  rw [h] at this
  simpa using this

theorem eq_of_lcp_full {a b : Key} (h : lcp a b = a.length) (hl : a.length = b.length) : a = b := by
  have := lcp_eq_left h
  rw [hl] at this
  simpa using this

theorem lcp_zero_iff {x y : Nat} {as bs : Key} : lcp (x :: as) (y :: bs) = 0 ↔ x ≠ y := by
  unfold lcp
  by_cases e : x = y <;> simp [e]

theorem lcp_pos_head {a b : Key} (h : 0 < lcp a b) : ∃ x as bs, a = x :: as ∧ b = x :: bs := by
  cases a with
  | nil => simp [lcp] at h
  | cons x as =>
    cases b with
    | nil => simp [lcp] at h
    | cons y bs =>
      by_cases e : x = y
      · subst e; exact ⟨x, as, bs, rfl, rfl⟩
      · have := (lcp_zero_iff (as := as) (bs := bs)).mpr e; omega

theorem lcp_take : ∀ (j : Nat) (a b : Key), lcp (a.take j) b = min j (lcp a b)
  | 0, a, b => by cases b <;> simp [lcp]
  | j + 1, [], b => by simp [lcp]
  | j + 1, _ :: _, [] => by simp [lcp]
  | j + 1, x :: as, y :: bs => by
    simp only [List.take_succ_cons]
    unfold lcp
    by_cases e : x = y
    · simp only [e, if_true, lcp_take j as bs]; omega
    · simp [e]

theorem lcp_drop : ∀ (j : Nat) (a b : Key), j ≤ lcp a b → lcp (a.drop j) (b.drop j) = lcp a b - j
  | 0, a, b, _ => by simp
  | j + 1, [], b, h => by simp [lcp] at h
  | j + 1, _ :: _, [], h => by simp [lcp] at h
  | j + 1, x :: as, y :: bs, h => by
    have hl : lcp (x :: as) (y :: bs) = if x = y then lcp as bs + 1 else 0 := by rw [lcp]
    rw [hl] at h ⊢
    by_cases e : x = y
    · simp only [e, if_true] at h ⊢
      simp only [List.drop_succ_cons]
      rw [lcp_drop j as bs (by omega)]; omega
    · simp [e] at h

/-- at the first mismatch both keys continue with different symbols -/
theorem lcp_mismatch : ∀ (a b : Key), lcp a b < a.length → lcp a b < b.length →
    ∃ x y as bs, a.drop (lcp a b) = x :: as ∧ b.drop (lcp a b) = y :: bs ∧ x ≠ y
  | [], _, h, _ => by simp at h
  | _ :: _, [], _, h => by simp at h
  | x :: as, y :: bs, h1, h2 => by
    unfold lcp at h1 h2 ⊢
    by_cases e : x = y
    · simp only [e, if_true] at h1 h2 ⊢
      simp only [List.length_cons] at h1 h2
      obtain ⟨p, q, r, s, e1, e2, e3⟩ := lcp_mismatch as bs (by omega) (by omega)
      exact ⟨p, q, r, s, by simpa using e1, by simpa using e2, e3⟩
    · simp only [e, if_false]
      exact ⟨x, y, as, bs, rfl, rfl, e⟩

end LemoProofs.CowHeapL

/-
  C09 (heap refinement, part 7): the repaired `put` (`putL`) on logical heaps: path copying by dye.
  Only nodes that lie on the search path AND carry the writer's dye are mutated in place; everything else
  the new root reaches is either an untouched old node or a fresh node.
-/
import LemoProofs.Lemmas.CowHeapIns
set_option linter.unusedSimpArgs false
set_option linter.unusedVariables false
namespace LemoProofs.CowHeapL
open LemoModel.CowTrie

/-- the entry a `put` with dye `d` leaves for its key, given the entry found before: a node already carrying
    the dye is kept as it is (the second `Put` of a block for the same key is dropped by the code) -/
def putEnt (d : Nat) (data : Option Data) : Res (Option Ent) → Res (Option Ent)
  | .ok (some e) => if e.dye = d then .ok (some e) else .ok (some ⟨d, true, data⟩)
  | .ok none => .ok (some ⟨d, true, data⟩)
  | r => r

structure PutPost {L : Nat} (E : Enc L) (lh : LHeap) (full : Nat → Key) (P : Nat → Prop) (cur : Nat) (key : Key)
    (data : Option Data) (d : Nat) (lh' : LHeap) (res : Option Nat) (full' : Nat → Key) : Prop where
  ok : LOk E lh' full'
  len : lh.length ≤ lh'.length
  fsame : ∀ id, id < lh.length → full' id = full id
  /-- an old node is untouched, or it lies at/below `cur`, is in `P`, carries the dye `d` and only its children changed -/
  old : ∀ id n, lh[id]? = some n → lh'[id]? = some n ∨
      (P id ∧ n.dye = d ∧ full cur <+: full id ∧ ∃ n', lh'[id]? = some n' ∧ n'.key = n.key ∧ n'.dye = n.dye ∧
        n'.data = n.data ∧ n'.terminal = n.terminal ∧ ∀ c ∈ n'.kids, c < lh.length → P c)
  new : ∀ id n', lh.length ≤ id → lh'[id]? = some n' →
      (n'.dye = d ∨ ∃ p np, P p ∧ lh[p]? = some np ∧ n'.dye = np.dye) ∧ ∀ c ∈ n'.kids, c < lh.length → P c
  root : ∀ t, res = some t → lh.length ≤ t ∧ ∃ n nt, lh[cur]? = some n ∧ lh'[t]? = some nt ∧ nt.key = n.key ∧
      full' t = full cur ∧ nt.dye = d
  sem : ∀ s, s.length = key.length →
      entR (look lh' (res.getD cur) s) = if s = key then putEnt d data (entR (look lh cur s)) else entR (look lh cur s)

/-! ### prefixes -/

theorem prefix_heads {A Z as bs : Key} {a b : Nat} (h1 : A ++ a :: as <+: Z) (h2 : A ++ b :: bs <+: Z) : a = b := by
  obtain ⟨t1, e1⟩ := h1
  obtain ⟨t2, e2⟩ := h2
  rw [← e2] at e1
  simp only [List.append_assoc] at e1
  have := List.append_cancel_left e1
  simp only [List.cons_append] at this
  injection this

/-- below a sibling with a different first symbol there is nothing at or below `c`, nor `cur` itself -/
theorem sibling_sep {L : Nat} {E : Enc L} {lh : LHeap} {full : Nat → Key} (hok : LOk E lh full) {cur c y : Nat} {cn ch ny : LN}
    {k0 c0 : Nat} {ct yt : Key}
    (hcur : lh[cur]? = some cn) (hcm : c ∈ cn.kids) (hym : y ∈ cn.kids) (hc : lh[c]? = some ch) (hy : lh[y]? = some ny)
    (hck : ch.key = k0 :: ct) (hyk : ny.key = c0 :: yt) (hne : c0 ≠ k0) (z : Nat) (hz : full y <+: full z) :
    z ≠ cur ∧ ¬ (full c <+: full z) := by
  obtain ⟨nc, g1, _, g3⟩ := hok.kid cur cn c hcur hcm
  obtain ⟨ny', q1, _, q3⟩ := hok.kid cur cn y hcur hym
  rw [hc] at g1; cases g1
  rw [hy] at q1; cases q1
  constructor
  · intro e
    have := hz.length_le
    rw [e, q3, List.length_append, hyk] at this
    simp at this
    omega
  · intro h
    rw [g3, hck] at h
    rw [q3, hyk] at hz
    exact hne (prefix_heads hz h)


/-- **the lookup from the new root, one level**: the root `r'` has `cur`'s children with the child `c` (hit by
    the scan for keys starting with `k0`) replaced by `x`; old nodes other than `cur` and those at/below `c` are
    untouched; the descent through `x` is specified by `E` -/
theorem edge_sem {L : Nat} {E : Enc L} {lh lh' : LHeap} {full : Nat → Key} (hok : LOk E lh full)
    {cur r' c x : Nat} {cn rn' ch xh : LN} {k0 : Nat} {kt ct xt : Key} {pre post : List Nat} {d : Nat} {data : Option Data}
    (hcur : lh[cur]? = some cn) (hkids : cn.kids = pre ++ c :: post) (hpre : ∀ y ∈ pre, HdLt lh k0 y)
    (hc : lh[c]? = some ch) (hck : ch.key = k0 :: ct)
    (hr' : lh'[r']? = some rn') (hkids' : rn'.kids = pre ++ x :: post)
    (hx : lh'[x]? = some xh) (hxk : xh.key = k0 :: xt)
    (hkeep : ∀ (y : Nat) (ny : LN), lh[y]? = some ny → ∃ ny' : LN, lh'[y]? = some ny' ∧ ny'.key = ny.key)
    (hunt : ∀ z, z < lh.length → z ≠ cur → ¬ (full c <+: full z) → lh'[z]? = lh[z]?)
    (EH : ∀ s : Key, s.length = (k0 :: kt).length → ∀ i i',
      entR (desc1 lh' s (.at i' x (lcp xh.key s))) =
        if s = k0 :: kt then putEnt d data (entR (desc1 lh s (.at i c (lcp ch.key s))))
        else entR (desc1 lh s (.at i c (lcp ch.key s)))) :
    ∀ s : Key, s.length = (k0 :: kt).length →
      entR (look lh' r' s) = if s = k0 :: kt then putEnt d data (entR (look lh cur s)) else entR (look lh cur s) := by
  intro s hs
  cases s with
  | nil => simp at hs
  | cons s0 st =>
  have hcm : c ∈ cn.kids := by rw [hkids]; simp
  have hsame : ∀ y ∈ pre ++ post, ∀ c0, Hd lh y c0 → Hd lh' y c0 ∧
      (c0 ≠ k0 → lh'[y]? = lh[y]? ∧ ∀ t, look lh' y t = look lh y t) := by
    intro y hy c0 ⟨ny, yt, h1, h2⟩
    obtain ⟨ny', g1, g2⟩ := hkeep y ny h1
    refine ⟨⟨ny', yt, g1, g2.trans h2⟩, fun hne => ?_⟩
    have hym : y ∈ cn.kids := by
      rw [hkids]; simp only [List.mem_append, List.mem_cons] at hy ⊢
      rcases hy with h | h
      · exact Or.inl h
      · exact Or.inr (Or.inr h)
    have hylt := valid_lt h1
    have sep := fun z hz => sibling_sep hok hcur hcm hym hc h1 hck h2 hne z hz
    refine ⟨?_, fun t => look_below hok hylt ?_ t⟩
    · obtain ⟨a, b⟩ := sep y (List.prefix_refl _)
      exact hunt y hylt a b
    · intro z hz hpfx
      obtain ⟨a, b⟩ := sep z hpfx
      exact hunt z hz a b
  obtain ⟨A, B⟩ := LA_at (lh' := lh') (by rw [← hkids]; exact hok.kidsValid hcur) hpre hc hck hx hxk hsame s0 st
  rw [look_step hr', look_step hcur, hkids', hkids]
  by_cases e : s0 = k0
  · obtain ⟨a1, a2⟩ := A e
    rw [a1, a2]
    exact EH (s0 :: st) hs _ _
  · have hne : ¬ (s0 :: st = k0 :: kt) := by
      intro h; cases h; exact e rfl
    rw [if_neg hne, B e]


/-! ### the last step of every branch of `put`: give `cur` (in place) or a clone of `cur` a new children list -/

structure Mid {L : Nat} (E : Enc L) (lh : LHeap) (full : Nat → Key) (P : Nat → Prop) (below : Key) (d : Nat)
    (lh1 : LHeap) (full1 : Nat → Key) : Prop where
  ok : LOk E lh1 full1
  len : lh.length ≤ lh1.length
  fsame : ∀ id, id < lh.length → full1 id = full id
  old : ∀ id n, lh[id]? = some n → lh1[id]? = some n ∨
      (P id ∧ n.dye = d ∧ below <+: full id ∧ ∃ n', lh1[id]? = some n' ∧ n'.key = n.key ∧ n'.dye = n.dye ∧
        n'.data = n.data ∧ n'.terminal = n.terminal ∧ ∀ c ∈ n'.kids, c < lh.length → P c)
  new : ∀ id n', lh.length ≤ id → lh1[id]? = some n' →
      (n'.dye = d ∨ ∃ p np, P p ∧ lh[p]? = some np ∧ n'.dye = np.dye) ∧ ∀ c ∈ n'.kids, c < lh.length → P c

def fin (lh1 : LHeap) (cur : Nat) (cn : LN) (kids' : List Nat) (d : Nat) : LHeap × Option Nat :=
  if cn.dye = d then (lh1.set cur { cn with kids := kids' }, none)
  else (lh1 ++ [{ cn with dye := d, kids := kids' }], some lh1.length)

def finFull (lh1 : LHeap) (full1 : Nat → Key) (cur : Nat) (cn : LN) (d : Nat) : Nat → Key :=
  if cn.dye = d then full1 else fun id => if id = lh1.length then full1 cur else full1 id

theorem Mid.keepkey {L : Nat} {E : Enc L} {lh : LHeap} {full : Nat → Key} {P : Nat → Prop} {below : Key} {d : Nat}
    {lh1 : LHeap} {full1 : Nat → Key} (m : Mid E lh full P below d lh1 full1) (y : Nat) (ny : LN)
    (h : lh[y]? = some ny) : ∃ ny' : LN, lh1[y]? = some ny' ∧ ny'.key = ny.key ∧ ny'.ent = ny.ent := by
  rcases m.old y ny h with h1 | ⟨_, _, _, n', h1, h2, h3, h4, h5, _⟩
  · exact ⟨ny, h1, rfl, rfl⟩
  · exact ⟨n', h1, h2, by simp [LN.ent, h3, h4, h5]⟩

theorem fin_mid {L : Nat} {E : Enc L} {lh : LHeap} {full : Nat → Key} {P : Nat → Prop} {below : Key} {d : Nat}
    {lh1 : LHeap} {full1 : Nat → Key} (m : Mid E lh full P below d lh1 full1) {cur : Nat} {cn : LN}
    (hcur : lh[cur]? = some cn) (hcur1 : lh1[cur]? = some cn) (hP : P cur) (hbelow : full cur <+: below)
    (kids' : List Nat)
    (KC : ∀ c ∈ kids', ∃ nc, lh1[c]? = some nc ∧ nc.key ≠ [] ∧ full1 c = full cur ++ nc.key ∧ (c < lh.length → P c) ∧
      nc.dye ≤ d)
    (hsorted : SortedKids lh1 kids') :
    Mid E lh full P (full cur) d (fin lh1 cur cn kids' d).1 (finFull lh1 full1 cur cn d) ∧
    (∀ t, (fin lh1 cur cn kids' d).2 = some t → lh.length ≤ t ∧ ∃ nt, (fin lh1 cur cn kids' d).1[t]? = some nt ∧
      nt.key = cn.key ∧ finFull lh1 full1 cur cn d t = full cur ∧ nt.dye = d) ∧
    -- the new root and the rest of the heap
    (∃ rn', (fin lh1 cur cn kids' d).1[((fin lh1 cur cn kids' d).2).getD cur]? = some rn' ∧ rn'.kids = kids') ∧
    (∀ z, z < lh1.length → z ≠ cur → (fin lh1 cur cn kids' d).1[z]? = lh1[z]?) := by
  have hcurlt := valid_lt hcur
  have hcurlt1 := valid_lt hcur1
  have hfc : full1 cur = full cur := m.fsame cur hcurlt
  have hlen := m.len
  by_cases hd : cn.dye = d
  · -- in place
    have e1 : fin lh1 cur cn kids' d = (lh1.set cur { cn with kids := kids' }, none) := by simp [fin, hd]
    have e2 : finFull lh1 full1 cur cn d = full1 := by simp [finFull, hd]
    rw [e1, e2]
    have hset : ∀ z, z ≠ cur → (lh1.set cur { cn with kids := kids' })[z]? = lh1[z]? := by
      intro z hz; rw [List.getElem?_set]; simp [Ne.symm hz]
    have hsetc : (lh1.set cur { cn with kids := kids' })[cur]? = some { cn with kids := kids' } := by
      rw [List.getElem?_set]; simp [hcurlt1]
    have hkey : ∀ (z : Nat) (nz : LN), lh1[z]? = some nz → ∃ nz' : LN, (lh1.set cur { cn with kids := kids' })[z]? = some nz' ∧
        nz'.key = nz.key := by
      intro z nz hz
      by_cases e : z = cur
      · subst e; rw [hcur1] at hz; cases hz; exact ⟨_, hsetc, rfl⟩
      · exact ⟨nz, by rw [hset z e]; exact hz, rfl⟩
    have hheads : ∀ x c0, Hd lh1 x c0 → Hd (lh1.set cur { cn with kids := kids' }) x c0 := by
      intro x c0 ⟨nx, ct, h1, h2⟩
      obtain ⟨nx', q1, q2⟩ := hkey x nx h1
      exact ⟨nx', ct, q1, q2.trans h2⟩
    have hkidne : ∀ c ∈ kids', c ≠ cur := by
      intro c hc e
      obtain ⟨nc, _, g2, g3, _⟩ := KC c hc
      have := congrArg List.length g3
      rw [e, hfc, List.length_append] at this
      have : 0 < nc.key.length := List.length_pos_iff.mpr g2
      omega
    refine ⟨⟨⟨?_, ?_, ?_, ?_, ?_⟩, (by simpa using hlen), m.fsame, ?_, ?_⟩, (fun t h => by cases h), ⟨_, hsetc, rfl⟩, fun z _ hz => hset z hz⟩
    · intro id n c hn hc
      by_cases e : id = cur
      · subst e
        rw [hsetc] at hn; cases hn
        obtain ⟨nc, g1, g2, g3, _⟩ := KC c hc
        obtain ⟨nc', q1, q2⟩ := hkey c nc g1
        exact ⟨nc', q1, by rw [q2]; exact g2, by rw [g3, hfc, q2]⟩
      · rw [hset id e] at hn
        obtain ⟨nc, g1, g2, g3⟩ := m.ok.kid id n c hn hc
        obtain ⟨nc', q1, q2⟩ := hkey c nc g1
        exact ⟨nc', q1, by rw [q2]; exact g2, by rw [g3, q2]⟩
    · intro id n hn
      by_cases e : id = cur
      · subst e; exact m.ok.depth id cn hcur1
      · rw [hset id e] at hn; exact m.ok.depth id n hn
    · -- sorted
      intro id n hn
      by_cases e : id = cur
      · subst e; rw [hsetc] at hn; cases hn
        exact hsorted.transfer (fun x _ c0 h => hheads x c0 h)
      · rw [hset id e] at hn
        exact (m.ok.sorted id n hn).transfer (fun x _ c0 h => hheads x c0 h)
    · -- term
      intro id n hn ht
      by_cases e : id = cur
      · subst e; rw [hsetc] at hn; cases hn
        exact m.ok.term id cn hcur1 ht
      · rw [hset id e] at hn; exact m.ok.term id n hn ht
    · -- mono
      intro id n c nc hn hc hnc
      by_cases e : id = cur
      · subst e; rw [hsetc] at hn; cases hn
        obtain ⟨nc1, g1, _, _, _, g5⟩ := KC c hc
        rw [hset c (hkidne c hc), g1] at hnc; cases hnc
        show nc.dye ≤ cn.dye
        omega
      · rw [hset id e] at hn
        by_cases e2 : c = cur
        · subst e2; rw [hsetc] at hnc; cases hnc
          exact m.ok.mono id n c cn hn hc hcur1
        · rw [hset c e2] at hnc; exact m.ok.mono id n c nc hn hc hnc
    · intro id n hn
      by_cases e : id = cur
      · subst e
        rw [hcur] at hn; cases hn
        right
        refine ⟨hP, hd, List.prefix_refl _, _, hsetc, rfl, rfl, rfl, rfl, ?_⟩
        intro c hc hlt
        obtain ⟨_, _, _, _, g4, _⟩ := KC c hc
        exact g4 hlt
      · rcases m.old id n hn with h1 | ⟨a1, a2, a3, n', a4, a5⟩
        · left; rw [hset id e]; exact h1
        · right; exact ⟨a1, a2, hbelow.trans a3, n', by rw [hset id e]; exact a4, a5⟩
    · intro id n' hid hn
      have e : id ≠ cur := by omega
      rw [hset id e] at hn
      exact m.new id n' hid hn
  · -- a clone of `cur`
    have e1 : fin lh1 cur cn kids' d = (lh1 ++ [{ cn with dye := d, kids := kids' }], some lh1.length) := by
      simp [fin, hd]
    have e2 : finFull lh1 full1 cur cn d = fun id => if id = lh1.length then full1 cur else full1 id := by
      simp [finFull, hd]
    rw [e1, e2]
    have happ : ∀ z, z < lh1.length → (lh1 ++ [{ cn with dye := d, kids := kids' }])[z]? = lh1[z]? := by
      intro z hz; rw [List.getElem?_append_left hz]
    have hnewt : (lh1 ++ [({ cn with dye := d, kids := kids' } : LN)])[lh1.length]? = some { cn with dye := d, kids := kids' } := by
      simp
    have hcls : ∀ z nz, (lh1 ++ [({ cn with dye := d, kids := kids' } : LN)])[z]? = some nz →
        (z < lh1.length ∧ lh1[z]? = some nz) ∨ (z = lh1.length ∧ nz = { cn with dye := d, kids := kids' }) := by
      intro z nz hz
      by_cases a : z < lh1.length
      · rw [happ z a] at hz; exact Or.inl ⟨a, hz⟩
      · by_cases b : z = lh1.length
        · subst b; rw [hnewt] at hz; cases hz; exact Or.inr ⟨rfl, rfl⟩
        · rw [List.getElem?_eq_none (by simp; omega)] at hz; cases hz
    have hff : ∀ z, z < lh1.length → (if z = lh1.length then full1 cur else full1 z) = full1 z := by
      intro z hz; rw [if_neg (by omega)]
    have hheads : ∀ x c0, Hd lh1 x c0 → Hd (lh1 ++ [({ cn with dye := d, kids := kids' } : LN)]) x c0 := by
      intro x c0 ⟨nx, ct, h1, h2⟩
      exact ⟨nx, ct, by rw [happ x (valid_lt h1)]; exact h1, h2⟩
    refine ⟨⟨⟨?_, ?_, ?_, ?_, ?_⟩, (by simp; omega), ?_, ?_, ?_⟩, ?_, ⟨_, hnewt, rfl⟩, fun z hz _ => happ z hz⟩
    · intro id n c hn hc
      rcases hcls id n hn with ⟨a, b⟩ | ⟨rfl, rfl⟩
      · obtain ⟨nc, g1, g2, g3⟩ := m.ok.kid id n c b hc
        have hclt := valid_lt g1
        exact ⟨nc, by rw [happ c hclt]; exact g1, g2, by rw [hff c hclt, hff id a, g3]⟩
      · obtain ⟨nc, g1, g2, g3, _⟩ := KC c hc
        have hclt := valid_lt g1
        refine ⟨nc, by rw [happ c hclt]; exact g1, g2, ?_⟩
        simp only [if_true]
        rw [hff c hclt, g3, hfc]
    · intro id n hn
      rcases hcls id n hn with ⟨a, b⟩ | ⟨rfl, rfl⟩
      · rw [hff id a]; exact m.ok.depth id n b
      · simp only [if_true]; exact m.ok.depth cur cn hcur1
    · -- sorted
      intro id n hn
      rcases hcls id n hn with ⟨a, b⟩ | ⟨rfl, rfl⟩
      · exact (m.ok.sorted id n b).transfer (fun x _ c0 h => hheads x c0 h)
      · exact hsorted.transfer (fun x _ c0 h => hheads x c0 h)
    · -- term
      intro id n hn ht
      rcases hcls id n hn with ⟨a, b⟩ | ⟨rfl, rfl⟩
      · rw [hff id a]; exact m.ok.term id n b ht
      · simp only [if_true]; exact m.ok.term cur cn hcur1 ht
    · -- mono
      intro id n c nc hn hc hnc
      rcases hcls id n hn with ⟨a, b⟩ | ⟨rfl, rfl⟩
      · obtain ⟨nc1, g1, _, _⟩ := m.ok.kid id n c b hc
        rw [happ c (valid_lt g1), g1] at hnc; cases hnc
        exact m.ok.mono id n c nc b hc g1
      · obtain ⟨nc1, g1, _, _, _, g5⟩ := KC c hc
        rw [happ c (valid_lt g1), g1] at hnc; cases hnc
        exact g5
    · intro id hid
      rw [hff id (by omega)]; exact m.fsame id hid
    · intro id n hn
      have hidlt := valid_lt hn
      rcases m.old id n hn with h1 | ⟨a1, a2, a3, n', a4, a5⟩
      · left; rw [happ id (by omega)]; exact h1
      · right; exact ⟨a1, a2, hbelow.trans a3, n', by rw [happ id (by omega)]; exact a4, a5⟩
    · intro id n' hid hn
      rcases hcls id n' hn with ⟨a, b⟩ | ⟨rfl, rfl⟩
      · exact m.new id n' hid b
      · refine ⟨Or.inl rfl, ?_⟩
        intro c hc hlt
        obtain ⟨_, _, _, _, g4, _⟩ := KC c hc
        exact g4 hlt
    · intro t ht
      simp only [Option.some.injEq] at ht
      subst ht
      refine ⟨hlen, _, hnewt, rfl, ?_, rfl⟩
      simp only [if_true]
      exact hfc


/-- pure allocation of new nodes -/
theorem mid_append {L : Nat} {E : Enc L} {lh : LHeap} {full : Nat → Key} (hok : LOk E lh full) (P : Nat → Prop) (below : Key) (d : Nat)
    (news : List LN) (full1 : Nat → Key) (hf : ∀ id, id < lh.length → full1 id = full id)
    (hnew : ∀ id nn, lh.length ≤ id → (lh ++ news)[id]? = some nn →
      (full1 id).length ≤ L ∧ (nn.dye = d ∨ ∃ p np, P p ∧ lh[p]? = some np ∧ nn.dye = np.dye) ∧
      SortedKids (lh ++ news) nn.kids ∧
      (nn.terminal = true → (full1 id).length = L ∧ ∃ dd, nn.data = some dd ∧ E.enc dd.addr = full1 id) ∧
      ∀ c ∈ nn.kids, ∃ nc, (lh ++ news)[c]? = some nc ∧ nc.key ≠ [] ∧ full1 c = full1 id ++ nc.key ∧ (c < lh.length → P c) ∧
        nc.dye ≤ nn.dye) :
    Mid E lh full P below d (lh ++ news) full1 := by
  have hold : ∀ z, z < lh.length → (lh ++ news)[z]? = lh[z]? := fun z hz => List.getElem?_append_left hz
  have hheads : ∀ x c0, Hd lh x c0 → Hd (lh ++ news) x c0 := by
    intro x c0 ⟨nx, ct, h1, h2⟩
    exact ⟨nx, ct, by rw [hold x (valid_lt h1)]; exact h1, h2⟩
  refine ⟨⟨?_, ?_, ?_, ?_, ?_⟩, by simp, hf, ?_, ?_⟩
  · intro id n c hn hc
    by_cases a : id < lh.length
    · rw [hold id a] at hn
      obtain ⟨nc, g1, g2, g3⟩ := hok.kid id n c hn hc
      have hclt := valid_lt g1
      exact ⟨nc, by rw [hold c hclt]; exact g1, g2, by rw [hf c hclt, hf id a, g3]⟩
    · obtain ⟨_, _, _, _, h3⟩ := hnew id n (by omega) hn
      obtain ⟨nc, g1, g2, g3, _⟩ := h3 c hc
      exact ⟨nc, g1, g2, g3⟩
  · intro id n hn
    by_cases a : id < lh.length
    · rw [hold id a] at hn; rw [hf id a]; exact hok.depth id n hn
    · exact (hnew id n (by omega) hn).1
  · intro id n hn
    by_cases a : id < lh.length
    · rw [hold id a] at hn
      exact (hok.sorted id n hn).transfer (fun x _ c0 h => hheads x c0 h)
    · exact (hnew id n (by omega) hn).2.2.1
  · intro id n hn ht
    by_cases a : id < lh.length
    · rw [hold id a] at hn; rw [hf id a]; exact hok.term id n hn ht
    · exact (hnew id n (by omega) hn).2.2.2.1 ht
  · intro id n c nc hn hc hnc
    by_cases a : id < lh.length
    · rw [hold id a] at hn
      obtain ⟨nc1, g1, _, _⟩ := hok.kid id n c hn hc
      rw [hold c (valid_lt g1), g1] at hnc; cases hnc
      exact hok.mono id n c nc hn hc g1
    · obtain ⟨nc1, g1, _, _, _, g5⟩ := (hnew id n (by omega) hn).2.2.2.2 c hc
      rw [g1] at hnc; cases hnc
      exact g5
  · intro id n hn
    left; rw [hold id (valid_lt hn)]; exact hn
  · intro id n' hid hn
    obtain ⟨_, h2, _, _, h3⟩ := hnew id n' hid hn
    refine ⟨h2, ?_⟩
    intro c hc hlt
    obtain ⟨_, _, _, _, g4, _⟩ := h3 c hc
    exact g4 hlt

theorem replaceL_fin {lh1 : LHeap} {cur i x d : Nat} {cn : LN} (hcur : lh1[cur]? = some cn) (hi : i < cn.kids.length) :
    replaceL lh1 cur i x d = some (fin lh1 cur cn (cn.kids.set i x) d) := by
  unfold replaceL fin
  rw [hcur]
  simp only [hi, if_true]
  split <;> rfl

theorem Mid.toPost {L : Nat} {E : Enc L} {lh : LHeap} {full : Nat → Key} {P : Nat → Prop} {cur : Nat} {key : Key} {data : Option Data}
    {d : Nat} {lh' : LHeap} {res : Option Nat} {full' : Nat → Key} {cn : LN} (hcur : lh[cur]? = some cn)
    (m : Mid E lh full P (full cur) d lh' full')
    (hroot : ∀ t, res = some t → lh.length ≤ t ∧ ∃ nt, lh'[t]? = some nt ∧ nt.key = cn.key ∧ full' t = full cur ∧ nt.dye = d)
    (hsem : ∀ s : Key, s.length = key.length →
      entR (look lh' (res.getD cur) s) = if s = key then putEnt d data (entR (look lh cur s)) else entR (look lh cur s)) :
    PutPost E lh full P cur key data d lh' res full' :=
  ⟨m.ok, m.len, m.fsame, m.old, m.new, fun t ht => by
    obtain ⟨a, nt, b, c, e⟩ := hroot t ht
    exact ⟨a, cn, nt, hcur, b, c, e⟩, hsem⟩


theorem putEnt_none (d : Nat) (data : Option Data) : putEnt d data (.ok none) = .ok (some ⟨d, true, data⟩) := rfl

theorem get_app_new0 {α : Type} (lh : List α) (a : α) (rest : List α) : (lh ++ a :: rest)[lh.length]? = some a := by grind
theorem get_app_new1 {α : Type} (lh : List α) (a b : α) (rest : List α) : (lh ++ a :: b :: rest)[lh.length + 1]? = some b := by grind
theorem get_app_new2 {α : Type} (lh : List α) (a b c : α) (rest : List α) :
    (lh ++ a :: b :: c :: rest)[lh.length + 2]? = some c := by grind

/-- old children of `cur` are admissible children of the new root -/
theorem KC_old {L : Nat} {E : Enc L} {lh lh1 : LHeap} {full full1 : Nat → Key} {P : Nat → Prop} (hok : LOk E lh full)
    (hclosed : ∀ (id : Nat) (n : LN) (c : Nat), P id → lh[id]? = some n → c ∈ n.kids → P c)
    {d : Nat} (hbound : ∀ (id : Nat) (n : LN), P id → lh[id]? = some n → n.dye ≤ d)
    {cur : Nat} {cn : LN} (hcur : lh[cur]? = some cn) (hP : P cur)
    (hkeep : ∀ (y : Nat) (ny : LN), lh[y]? = some ny → ∃ ny' : LN, lh1[y]? = some ny' ∧ ny'.key = ny.key ∧ ny'.dye = ny.dye)
    (hf : ∀ id, id < lh.length → full1 id = full id) {c : Nat} (hc : c ∈ cn.kids) :
    ∃ nc, lh1[c]? = some nc ∧ nc.key ≠ [] ∧ full1 c = full cur ++ nc.key ∧ (c < lh.length → P c) ∧ nc.dye ≤ d := by
  obtain ⟨nc, g1, g2, g3⟩ := hok.kid cur cn c hcur hc
  obtain ⟨nc', q1, q2, q3⟩ := hkeep c nc g1
  have hPc := hclosed cur cn c hP hcur hc
  exact ⟨nc', q1, by rw [q2]; exact g2, by rw [hf c (valid_lt g1), g3, q2], fun _ => hPc,
    by rw [q3]; exact hbound c nc hPc g1⟩

/-- the branches "no child shares a symbol with the key": a new leaf among the children of `cur` / of its clone -/
theorem put_leaf_post {L : Nat} {E : Enc L} {lh : LHeap} {full : Nat → Key} {P : Nat → Prop} (hok : LOk E lh full)
    (hclosed : ∀ (id : Nat) (n : LN) (c : Nat), P id → lh[id]? = some n → c ∈ n.kids → P c)
    {cur : Nat} {cn : LN} (hcur : lh[cur]? = some cn) (hP : P cur)
    {k0 : Nat} {kt : Key} {pre post : List Nat} (hkids : cn.kids = pre ++ post)
    (hpre : ∀ x ∈ pre, HdLt lh k0 x)
    (hpost : post = [] ∨ ∃ c ch c0 ct rest, post = c :: rest ∧ lh[c]? = some ch ∧ ch.key = c0 :: ct ∧ k0 < c0)
    (hlen : (full cur).length + (k0 :: kt).length = L) (data : Option Data) (d : Nat)
    (hbound : ∀ (id : Nat) (n : LN), P id → lh[id]? = some n → n.dye ≤ d)
    (hdata : ∃ dd, data = some dd ∧ E.enc dd.addr = full cur ++ k0 :: kt) :
    ∃ full', PutPost E lh full P cur (k0 :: kt) data d
      (fin (lh ++ [lleaf (k0 :: kt) d data]) cur cn (pre ++ lh.length :: post) d).1
      (fin (lh ++ [lleaf (k0 :: kt) d data]) cur cn (pre ++ lh.length :: post) d).2 full' := by
  have hcurlt := valid_lt hcur
  let full1 : Nat → Key := fun id => if id = lh.length then full cur ++ k0 :: kt else full id
  have hf1 : ∀ id, id < lh.length → full1 id = full id := by
    intro id h; show (if id = lh.length then _ else _) = _; rw [if_neg (by omega)]
  have hnew1 : (lh ++ [lleaf (k0 :: kt) d data])[lh.length]? = some (lleaf (k0 :: kt) d data) := get_app_new0 _ _ _
  have hold1 : ∀ z, z < lh.length → (lh ++ [lleaf (k0 :: kt) d data])[z]? = lh[z]? :=
    fun z hz => List.getElem?_append_left hz
  have m1 : Mid E lh full P (full cur) d (lh ++ [lleaf (k0 :: kt) d data]) full1 := by
    apply mid_append hok P (full cur) d _ full1 hf1
    intro id nn hid hnn
    have : id = lh.length := by
      by_cases e : id = lh.length
      · exact e
      · rw [List.getElem?_eq_none (by simp; omega)] at hnn; cases hnn
    subst this
    rw [hnew1] at hnn; cases hnn
    have hfn : full1 lh.length = full cur ++ k0 :: kt := by
      show (if lh.length = lh.length then _ else _ : Key) = _
      rw [if_pos rfl]
    refine ⟨?_, Or.inl rfl, List.Pairwise.nil, ?_, ?_⟩
    · rw [hfn, List.length_append]; omega
    · intro _
      rw [hfn]
      refine ⟨by rw [List.length_append]; omega, ?_⟩
      obtain ⟨dd, h1, h2⟩ := hdata
      exact ⟨dd, h1, h2⟩
    · intro c hc; simp [lleaf] at hc
  have hcur1 : (lh ++ [lleaf (k0 :: kt) d data])[cur]? = some cn := by rw [hold1 cur hcurlt]; exact hcur
  have KC : ∀ c ∈ pre ++ lh.length :: post, ∃ nc, (lh ++ [lleaf (k0 :: kt) d data])[c]? = some nc ∧ nc.key ≠ [] ∧
      full1 c = full cur ++ nc.key ∧ (c < lh.length → P c) ∧ nc.dye ≤ d := by
    intro c hc
    by_cases e : c = lh.length
    · subst e
      refine ⟨_, hnew1, by simp [lleaf], ?_, fun h => absurd h (Nat.lt_irrefl _), Nat.le_refl _⟩
      show (if lh.length = lh.length then _ else _ : Key) = _
      rw [if_pos rfl]; rfl
    · have hc' : c ∈ cn.kids := by
        rw [hkids]; simp only [List.mem_append, List.mem_cons] at hc ⊢
        rcases hc with h | h | h
        · exact Or.inl h
        · exact absurd h e
        · exact Or.inr h
      exact KC_old hok hclosed hbound hcur hP (fun y ny hy => ⟨ny, by rw [hold1 y (valid_lt hy)]; exact hy, rfl, rfl⟩) hf1 hc'
  have hheads1 : ∀ x c0, Hd lh x c0 → Hd (lh ++ [lleaf (k0 :: kt) d data]) x c0 := by
    intro x c0 ⟨nx, ct, h1, h2⟩
    exact ⟨nx, ct, by rw [hold1 x (valid_lt h1)]; exact h1, h2⟩
  have hsorted : SortedKids (lh ++ [lleaf (k0 :: kt) d data]) (pre ++ lh.length :: post) := by
    have h0 := (hok.sorted cur cn hcur).transfer (lh' := lh ++ [lleaf (k0 :: kt) d data]) (fun x _ c0 h => hheads1 x c0 h)
    rw [hkids] at h0
    apply h0.insert ⟨_, kt, hnew1, rfl⟩
    · intro y hy
      obtain ⟨c0, g1, g2⟩ := hpre y hy
      exact ⟨c0, hheads1 y c0 g1, g2⟩
    · rcases hpost with h | ⟨c, ch, c0, ct, rest, q0, q1, q2, q3⟩
      · exact Or.inl h
      · exact Or.inr ⟨c, ch, c0, ct, rest, q0, by rw [hold1 c (valid_lt q1)]; exact q1, q2, q3⟩
  obtain ⟨m2, hroot, ⟨rn', hr1, hr2⟩, hrest⟩ := fin_mid m1 hcur hcur1 hP (List.prefix_refl _) _ KC hsorted
  refine ⟨_, m2.toPost hcur hroot ?_⟩
  -- semantics
  generalize fin (lh ++ [lleaf (k0 :: kt) d data]) cur cn (pre ++ lh.length :: post) d = fr at *
  obtain ⟨lh', res⟩ := fr
  simp only at m2 hroot hr1 hr2 hrest ⊢
  have hlen1 : (lh ++ [lleaf (k0 :: kt) d data]).length = lh.length + 1 := by simp
  have hsame : ∀ x ∈ pre ++ post, lh'[x]? = lh[x]? ∧ ∀ t, look lh' x t = look lh x t := by
    intro x hx
    have hxk : x ∈ cn.kids := by rw [hkids]; exact hx
    obtain ⟨nc, g1, g2, g3⟩ := hok.kid cur cn x hcur hxk
    have hxlt := valid_lt g1
    have hxm : x ≠ cur := by
      intro e; have := kid_full_longer hok hcur hxk; rw [e] at this; omega
    refine ⟨by rw [hrest x (by omega) hxm, hold1 x hxlt], fun t => look_below hok hxlt ?_ t⟩
    intro y hy hpfx
    have hyc : y ≠ cur := by
      intro e
      exact not_below_kid hok hcur hxk (by rw [e]; exact Nat.le_refl _) hpfx
    rw [hrest y (by omega) hyc, hold1 y hy]
  have hnid : lh'[lh.length]? = some (lleaf (k0 :: kt) d data) := by
    rw [hrest lh.length (by omega) (by omega), hnew1]
  intro s hs
  obtain ⟨g1, g2⟩ := LA_leaf (lh' := lh') (by rw [← hkids]; exact hok.kidsValid hcur) hpre hpost hsame hnid rfl s hs
  rw [look_step hr1, hr2, g1, look_step hcur, hkids]
  by_cases e : s = k0 :: kt
  · rw [if_pos e, if_pos e, g2 e, entR_ok_none, putEnt_none]; rfl
  · rw [if_neg e, if_neg e]


/-- the branches that replace the child `c` of `cur` by a new node `x` (clone with the new data, result of the
    recursive call, or the upper half of a split) -/
theorem put_replace_post {L : Nat} {E : Enc L} {lh lh1 : LHeap} {full full1 : Nat → Key} {P : Nat → Prop} (hok : LOk E lh full)
    (hclosed : ∀ (id : Nat) (n : LN) (c : Nat), P id → lh[id]? = some n → c ∈ n.kids → P c)
    {cur c x : Nat} {cn ch xh : LN} (hcur : lh[cur]? = some cn) (hP : P cur)
    {k0 : Nat} {kt ct xt : Key} {pre post : List Nat} (hkids : cn.kids = pre ++ c :: post)
    (hpre : ∀ y ∈ pre, HdLt lh k0 y) (hc : lh[c]? = some ch) (hck : ch.key = k0 :: ct)
    {d : Nat} {data : Option Data}
    (m1 : Mid E lh full P (full c) d lh1 full1) (hcur1 : lh1[cur]? = some cn)
    (hx1 : lh1[x]? = some xh) (hxk : xh.key = k0 :: xt) (hxf : full1 x = full cur ++ xh.key) (hxnew : lh.length ≤ x)
    (hbound : ∀ (id : Nat) (n : LN), P id → lh[id]? = some n → n.dye ≤ d) (hxd : xh.dye ≤ d)
    (E1 : ∀ s : Key, s.length = (k0 :: kt).length → ∀ i i',
      entR (desc1 lh1 s (.at i' x (lcp xh.key s))) =
        if s = k0 :: kt then putEnt d data (entR (desc1 lh s (.at i c (lcp ch.key s))))
        else entR (desc1 lh s (.at i c (lcp ch.key s)))) :
    ∃ full', PutPost E lh full P cur (k0 :: kt) data d
      (fin lh1 cur cn (pre ++ x :: post) d).1 (fin lh1 cur cn (pre ++ x :: post) d).2 full' := by
  have hcurlt := valid_lt hcur
  have hcm : c ∈ cn.kids := by rw [hkids]; simp
  obtain ⟨nc0, q1, _, hfc⟩ := hok.kid cur cn c hcur hcm
  rw [hc] at q1; cases q1
  have hbelow : full cur <+: full c := by rw [hfc]; exact List.prefix_append _ _
  have hkeep1 : ∀ (y : Nat) (ny : LN), lh[y]? = some ny → ∃ ny' : LN, lh1[y]? = some ny' ∧ ny'.key = ny.key ∧ ny'.dye = ny.dye := by
    intro y ny hy
    obtain ⟨ny', a, b, c'⟩ := m1.keepkey y ny hy
    exact ⟨ny', a, b, congrArg Ent.dye c'⟩
  have hheads1 : ∀ y c0, Hd lh y c0 → Hd lh1 y c0 := by
    intro y c0 ⟨ny, ct', h1, h2⟩
    obtain ⟨ny', a, b, _⟩ := hkeep1 y ny h1
    exact ⟨ny', ct', a, b.trans h2⟩
  have hsorted : SortedKids lh1 (pre ++ x :: post) := by
    have h0 := (hok.sorted cur cn hcur).transfer (lh' := lh1) (fun y _ c0 h => hheads1 y c0 h)
    rw [hkids] at h0
    exact h0.replace (hheads1 c k0 ⟨ch, ct, hc, hck⟩) ⟨xh, xt, hx1, hxk⟩
  have KC : ∀ y ∈ pre ++ x :: post, ∃ nc, lh1[y]? = some nc ∧ nc.key ≠ [] ∧
      full1 y = full cur ++ nc.key ∧ (y < lh.length → P y) ∧ nc.dye ≤ d := by
    intro y hy
    by_cases e : y = x
    · subst e
      exact ⟨xh, hx1, by rw [hxk]; simp, hxf, fun h => by omega, hxd⟩
    · have hy' : y ∈ cn.kids := by
        rw [hkids]; simp only [List.mem_append, List.mem_cons] at hy ⊢
        rcases hy with h | h | h
        · exact Or.inl h
        · exact absurd h e
        · exact Or.inr (Or.inr h)
      exact KC_old hok hclosed hbound hcur hP hkeep1 m1.fsame hy'
  obtain ⟨m2, hroot, ⟨rn', hr1, hr2⟩, hrest⟩ := fin_mid m1 hcur hcur1 hP hbelow _ KC hsorted
  refine ⟨_, m2.toPost hcur hroot ?_⟩
  generalize fin lh1 cur cn (pre ++ x :: post) d = fr at *
  obtain ⟨lh', res⟩ := fr
  simp only at m2 hroot hr1 hr2 hrest ⊢
  have hxlt1 := valid_lt hx1
  have hxcur : x ≠ cur := by omega
  have hx' : lh'[x]? = some xh := by rw [hrest x hxlt1 hxcur]; exact hx1
  have hlookx : ∀ t, look lh' x t = look lh1 x t := by
    intro t
    apply look_below m1.ok hxlt1
    intro z hz hpfx
    apply hrest z hz
    intro e
    have := hpfx.length_le
    rw [e, hxf, m1.fsame cur hcurlt, List.length_append, hxk] at this
    simp at this; omega
  have hkeep : ∀ (y : Nat) (ny : LN), lh[y]? = some ny → ∃ ny' : LN, lh'[y]? = some ny' ∧ ny'.key = ny.key := by
    intro y ny hy
    obtain ⟨ny', a, b, _⟩ := m2.keepkey y ny hy
    exact ⟨ny', a, b⟩
  have hunt : ∀ z, z < lh.length → z ≠ cur → ¬ (full c <+: full z) → lh'[z]? = lh[z]? := by
    intro z hz hzc hnb
    rw [hrest z (by have := m1.len; omega) hzc]
    cases hzn : lh[z]? with
    | none => rw [List.getElem?_eq_none_iff] at hzn; omega
    | some nz =>
      rcases m1.old z nz hzn with h | ⟨_, _, h, _⟩
      · exact h
      · exact absurd h hnb
  apply edge_sem hok hcur hkids hpre hc hck hr1 hr2 hx' hxk hkeep hunt
  intro s hs i i'
  rw [← E1 s hs i i']
  congr 1
  apply desc1_congr
  intro a b j hr
  cases hr
  exact ⟨by rw [hx', hx1], hlookx⟩


theorem look_append {L : Nat} {E : Enc L} {lh : LHeap} {full : Nat → Key} (hok : LOk E lh full) (news : List LN) {y : Nat}
    (hy : y < lh.length) (t : Key) : look (lh ++ news) y t = look lh y t := by
  apply look_frame (fun z => z < lh.length)
  · intro id n c _ hn hc
    obtain ⟨nc, g1, _, _⟩ := hok.kid id n c hn hc
    exact valid_lt g1
  · intro z hz; exact List.getElem?_append_left hz
  · exact hy

/-- E for the duplicate-key branch -/
theorem E_dup {lh lh1 : LHeap} {c x : Nat} {ch : LN} {key : Key} {d : Nat} {data : Option Data}
    (hc : lh[c]? = some ch) (hx : lh1[x]? = some { ch with dye := d, data := data, terminal := true })
    (hlen : key.length = ch.key.length) (hj : lcp ch.key key = ch.key.length) (hd : ch.dye ≠ d)
    (s : Key) (hs : s.length = key.length) (i i' : Nat) :
    entR (desc1 lh1 s (.at i' x (lcp ({ ch with dye := d, data := data, terminal := true } : LN).key s))) =
      if s = key then putEnt d data (entR (desc1 lh s (.at i c (lcp ch.key s))))
      else entR (desc1 lh s (.at i c (lcp ch.key s))) := by
  have hkey : ch.key = key := eq_of_lcp_full hj hlen.symm
  simp only [desc1, hx, hc]
  by_cases e : s = key
  · rw [if_pos e]
    subst e
    have : lcp ch.key s = min ch.key.length s.length := by rw [hj]; omega
    rw [if_pos this, if_pos hlen, if_pos this, if_pos hlen]
    simp only [entR_ok_some, putEnt, LN.ent, hd, if_false]
  · rw [if_neg e]
    have : ¬ lcp ch.key s = min ch.key.length s.length := by
      intro h
      have h' : lcp ch.key s = ch.key.length := by omega
      exact e ((eq_of_lcp_full h' (by omega)).symm.trans hkey)
    rw [if_neg this, if_neg this]

/-- E for the recursive branch, from the specification of the recursive call -/
theorem E_rec {lh lh1 : LHeap} {c x : Nat} {ch xh : LN} {key : Key} {d : Nat} {data : Option Data}
    (hc : lh[c]? = some ch) (hx : lh1[x]? = some xh) (hxk : xh.key = ch.key)
    (hlen : key.length > ch.key.length) (hj : lcp ch.key key = ch.key.length)
    (hsem : ∀ s' : Key, s'.length = (key.drop ch.key.length).length →
      entR (look lh1 x s') = if s' = key.drop ch.key.length then putEnt d data (entR (look lh c s'))
        else entR (look lh c s'))
    (s : Key) (hs : s.length = key.length) (i i' : Nat) :
    entR (desc1 lh1 s (.at i' x (lcp xh.key s))) =
      if s = key then putEnt d data (entR (desc1 lh s (.at i c (lcp ch.key s))))
      else entR (desc1 lh s (.at i c (lcp ch.key s))) := by
  have hkey : ch.key = key.take ch.key.length := lcp_eq_left hj
  simp only [desc1, hx, hc, hxk]
  have hne : ¬ s.length = ch.key.length := by omega
  have hgt : s.length > ch.key.length := by omega
  by_cases t1 : lcp ch.key s = min ch.key.length s.length
  · have hjs : lcp ch.key s = ch.key.length := by omega
    have hsk : ch.key = s.take ch.key.length := lcp_eq_left hjs
    rw [if_pos t1, if_neg hne, if_pos hgt, if_pos t1, if_neg hne, if_pos hgt, hjs]
    have := hsem (s.drop ch.key.length) (by simp; omega)
    rw [this]
    have hiff : s.drop ch.key.length = key.drop ch.key.length ↔ s = key := by
      constructor
      · intro h
        rw [← List.take_append_drop ch.key.length s, ← List.take_append_drop ch.key.length key, h, ← hsk, ← hkey]
      · intro h; rw [h]
    by_cases e : s = key
    · rw [if_pos e, if_pos (hiff.mpr e)]
    · rw [if_neg e, if_neg (fun h => e (hiff.mp h))]
  · have hne' : s ≠ key := by
      intro e; rw [e, hj] at t1; omega
    rw [if_neg t1, if_neg hne', if_neg t1]


theorem fin_leaf_eq (lh : LHeap) (lf : LN) (cur : Nat) (cn : LN) (kids' : List Nat) (d : Nat) :
    (if cn.dye = d then some ((lh ++ [lf]).set cur { cn with kids := kids' }, (none : Option Nat))
      else some (lh ++ [lf, { cn with dye := d, kids := kids' }], some (lh.length + 1))) =
    some (fin (lh ++ [lf]) cur cn kids' d) := by
  unfold fin
  split
  · rfl
  · simp

/-- the recursive branch when the recursive call worked in place (returned nil): nothing else changes -/
theorem put_recnone_post {L : Nat} {E : Enc L} {lh lh1 : LHeap} {full full1 : Nat → Key} {P : Nat → Prop} (hok : LOk E lh full)
    {cur c : Nat} {cn ch : LN} (hcur : lh[cur]? = some cn)
    {k0 : Nat} {kt ct : Key} {pre post : List Nat} (hkids : cn.kids = pre ++ c :: post)
    (hpre : ∀ y ∈ pre, HdLt lh k0 y) (hc : lh[c]? = some ch) (hck : ch.key = k0 :: ct)
    {d : Nat} {data : Option Data}
    (hlen : (k0 :: kt).length > ch.key.length) (hj : lcp ch.key (k0 :: kt) = ch.key.length)
    (inner : PutPost E lh full P c ((k0 :: kt).drop ch.key.length) data d lh1 none full1) :
    PutPost E lh full P cur (k0 :: kt) data d lh1 none full1 := by
  have hcurlt := valid_lt hcur
  have hcm : c ∈ cn.kids := by rw [hkids]; simp
  obtain ⟨nc0, q1, _, hfc⟩ := hok.kid cur cn c hcur hcm
  rw [hc] at q1; cases q1
  have hbelow : full cur <+: full c := by rw [hfc]; exact List.prefix_append _ _
  have hcurnot : ¬ (full c <+: full cur) := by
    intro h; have := h.length_le; rw [hfc, List.length_append, hck] at this; simp at this; omega
  have hcur1 : lh1[cur]? = some cn := by
    rcases inner.old cur cn hcur with h | ⟨_, _, h, _⟩
    · exact h
    · exact absurd h hcurnot
  have hkeep : ∀ (y : Nat) (ny : LN), lh[y]? = some ny → ∃ ny' : LN, lh1[y]? = some ny' ∧ ny'.key = ny.key := by
    intro y ny hy
    rcases inner.old y ny hy with h | ⟨_, _, _, n', h1, h2, _⟩
    · exact ⟨ny, h, rfl⟩
    · exact ⟨n', h1, h2⟩
  obtain ⟨xh, hx1, hxk⟩ := hkeep c ch hc
  refine ⟨inner.ok, inner.len, inner.fsame, ?_, inner.new, (fun t h => by cases h), ?_⟩
  · intro id n hn
    rcases inner.old id n hn with h | ⟨a1, a2, a3, a4⟩
    · exact Or.inl h
    · exact Or.inr ⟨a1, a2, hbelow.trans a3, a4⟩
  · have hunt : ∀ z, z < lh.length → z ≠ cur → ¬ (full c <+: full z) → lh1[z]? = lh[z]? := by
      intro z hz _ hnb
      cases hzn : lh[z]? with
      | none => rw [List.getElem?_eq_none_iff] at hzn; omega
      | some nz =>
        rcases inner.old z nz hzn with h | ⟨_, _, h, _⟩
        · exact h
        · exact absurd h hnb
    show ∀ s : Key, s.length = (k0 :: kt).length → entR (look lh1 cur s) = _
    apply edge_sem hok hcur hkids hpre hc hck hcur1 hkids hx1 (hxk.trans hck) hkeep hunt
    intro s hs i i'
    exact E_rec hc hx1 hxk hlen hj inner.sem s hs i i'

/-- **the repaired `put` on logical heaps, for fixed-length keys**: it succeeds and satisfies `PutPost` -/
theorem putL_spec {L : Nat} {E : Enc L} {P : Nat → Prop} : ∀ (fuel : Nat) (lh : LHeap) (full : Nat → Key) (cur : Nat) (key : Key)
    (data : Option Data) (d : Nat), LOk E lh full →
    (∀ (id : Nat) (n : LN) (c : Nat), P id → lh[id]? = some n → c ∈ n.kids → P c) → P cur →
    (∃ cn, lh[cur]? = some cn) → (full cur).length + key.length = L → key ≠ [] → key.length < fuel →
    (∀ (id : Nat) (n : LN), P id → lh[id]? = some n → n.dye ≤ d) →
    (∃ dd, data = some dd ∧ E.enc dd.addr = full cur ++ key) →
    ∃ lh' res full', putL fuel lh cur key data d = some (lh', res) ∧ PutPost E lh full P cur key data d lh' res full'
  | 0, _, _, _, _, _, _, _, _, _, _, _, _, hf, _, _ => by omega
  | f + 1, lh, full, cur, key, data, d, hok, hclosed, hP, ⟨cn, hcur⟩, hlen, hne, hf, hbound, hdata => by
    cases key with
    | nil => exact absurd rfl hne
    | cons k0 kt =>
    unfold putL
    rw [hcur]
    simp only
    cases scanL_cases k0 kt cn.kids 0 (hok.kidsValid hcur) with
    | none h e =>
      rw [e]
      simp only
      rw [fin_leaf_eq]
      obtain ⟨full', hp⟩ := put_leaf_post hok hclosed hcur hP (pre := cn.kids) (post := []) (by simp) h (Or.inl rfl)
        hlen data d hbound hdata
      exact ⟨_, _, full', rfl, hp⟩
    | before pre c post ch c0 ct hk hp h1 h2 h3 e =>
      rw [e]
      simp only
      have hi : ¬ (0 + pre.length > cn.kids.length) := by rw [hk]; simp
      rw [if_neg hi, fin_leaf_eq]
      have hins : insAt cn.kids (0 + pre.length) lh.length = pre ++ lh.length :: c :: post := by
        rw [hk]; unfold insAt; simp
      rw [hins]
      obtain ⟨full', hpp⟩ := put_leaf_post hok hclosed hcur hP hk hp
        (Or.inr ⟨c, ch, c0, ct, post, rfl, h1, h2, h3⟩) hlen data d hbound hdata
      exact ⟨_, _, full', rfl, hpp⟩
    | hit pre c post ch ct hk hp h1 h2 e =>
      rw [e]
      simp only
      rw [h1]
      simp only
      have hcm : c ∈ cn.kids := by rw [hk]; simp
      obtain ⟨nc, g1, g2, g3⟩ := hok.kid cur cn c hcur hcm
      rw [h1] at g1; cases g1
      have hcd := hok.depth c ch h1
      rw [g3, List.length_append] at hcd
      have hle1 := lcp_le_left ch.key (k0 :: kt)
      have hle2 := lcp_le_right ch.key (k0 :: kt)
      have hPc : P c := hclosed cur cn c hP hcur hcm
      have hi : 0 + pre.length < cn.kids.length := by rw [hk]; simp
      have hset : cn.kids.set (0 + pre.length) = fun x => pre ++ x :: post := by
        funext x; rw [hk]; simp
      have hcurlt := valid_lt hcur
      have hclt := valid_lt h1
      by_cases t1 : lcp ch.key (k0 :: kt) = min ch.key.length (k0 :: kt).length
      · rw [if_pos t1]
        by_cases t2 : (k0 :: kt).length = ch.key.length
        · rw [if_pos t2]
          by_cases t3 : ch.dye = d
          · -- same key, same dye: dropped
            rw [if_pos t3]
            refine ⟨lh, none, full, rfl, hok, Nat.le_refl _, fun _ _ => rfl, fun id n hn => Or.inl hn, ?_, (fun t h => by cases h), ?_⟩
            · intro id n' hid hn
              rw [List.getElem?_eq_none (by omega)] at hn; cases hn
            · intro s hs
              show entR (look lh cur s) = _
              by_cases es : s = k0 :: kt
              · rw [if_pos es, es, look_step hcur, e]
                simp only [desc1, h1]
                rw [if_pos t1, if_pos t2]
                simp only [entR_ok_some, putEnt, LN.ent, t3, if_true]
              · rw [if_neg es]
          · -- same key, other dye: clone with the new data
            rw [if_neg t3]
            have hcur1 : (lh ++ [({ ch with dye := d, data := data, terminal := true } : LN)])[cur]? = some cn := by
              rw [List.getElem?_append_left hcurlt]; exact hcur
            rw [replaceL_fin hcur1 hi, hset]
            have hx1 : (lh ++ [({ ch with dye := d, data := data, terminal := true } : LN)])[lh.length]? =
                some { ch with dye := d, data := data, terminal := true } := get_app_new0 _ _ _
            let full1 : Nat → Key := fun id => if id = lh.length then full c else full id
            have hf1 : ∀ id, id < lh.length → full1 id = full id := by
              intro id h; show (if id = lh.length then _ else _) = _; rw [if_neg (by omega)]
            have m1 : Mid E lh full P (full c) d (lh ++ [({ ch with dye := d, data := data, terminal := true } : LN)]) full1 := by
              apply mid_append hok P (full c) d _ full1 hf1
              intro id nn hid hnn
              have : id = lh.length := by
                by_cases e : id = lh.length
                · exact e
                · rw [List.getElem?_eq_none (by simp; omega)] at hnn; cases hnn
              subst this
              rw [hx1] at hnn; cases hnn
              have hfx : full1 lh.length = full c := by
                show (if lh.length = lh.length then _ else _) = _; rw [if_pos rfl]
              have hkeyeq : ch.key = k0 :: kt := eq_of_lcp_full (by omega) t2.symm
              refine ⟨?_, Or.inl rfl, ?_, ?_, ?_⟩
              · rw [hfx]; exact hok.depth c ch h1
              · exact (hok.sorted c ch h1).transfer (fun y _ c0 ⟨ny, ct', q1, q2⟩ =>
                  ⟨ny, ct', by rw [List.getElem?_append_left (valid_lt q1)]; exact q1, q2⟩)
              · intro _
                rw [hfx, g3]
                refine ⟨by rw [List.length_append]; omega, ?_⟩
                obtain ⟨dd, e1, e2⟩ := hdata
                exact ⟨dd, e1, by rw [e2, hkeyeq]⟩
              · intro y hy
                obtain ⟨ny, q1, q2, q3⟩ := hok.kid c ch y h1 hy
                have hylt := valid_lt q1
                exact ⟨ny, by rw [List.getElem?_append_left hylt]; exact q1, q2, by rw [hfx, hf1 y hylt, q3],
                  fun _ => hclosed c ch y hPc h1 hy,
                  Nat.le_trans (hok.mono c ch y ny h1 hy q1) (hbound c ch hPc h1)⟩
            have hxf : full1 lh.length = full cur ++ ({ ch with dye := d, data := data, terminal := true } : LN).key := by
              show (if lh.length = lh.length then _ else _) = _; rw [if_pos rfl, g3]
            obtain ⟨full', hpp⟩ := put_replace_post (kt := kt) (data := data) hok hclosed hcur hP hk hp h1 h2 m1 hcur1 hx1 h2 hxf
              (Nat.le_refl _) hbound (Nat.le_refl _) (fun s hs i i' => E_dup h1 hx1 t2 (by omega) t3 s hs i i')
            exact ⟨_, _, full', rfl, hpp⟩
        · rw [if_neg t2]
          have t3 : (k0 :: kt).length > ch.key.length := by omega
          rw [if_pos t3]
          have hj : lcp ch.key (k0 :: kt) = ch.key.length := by omega
          have hpos : 0 < ch.key.length := List.length_pos_iff.mpr g2
          rw [hj]
          obtain ⟨lh1, r1, full1, p1, p2⟩ := putL_spec (P := P) f lh full c ((k0 :: kt).drop ch.key.length) data d hok hclosed hPc
            ⟨ch, h1⟩ (by rw [g3, List.length_append, List.length_drop]; omega)
            (by intro h0; have := congrArg List.length h0; rw [List.length_drop] at this
                simp only [List.length_nil] at this; omega)
            (by rw [List.length_drop]; omega) hbound
            (by
              have hpre : ch.key = (k0 :: kt).take ch.key.length := lcp_eq_left hj
              obtain ⟨dd, e1, e2⟩ := hdata
              refine ⟨dd, e1, ?_⟩
              rw [e2, g3, List.append_assoc]
              congr 1
              conv => lhs; rw [← List.take_append_drop ch.key.length (k0 :: kt)]
              rw [← hpre])
          rw [p1]
          cases r1 with
          | none =>
            simp only
            exact ⟨lh1, none, full1, rfl, put_recnone_post hok hcur hk hp h1 h2 t3 hj p2⟩
          | some x =>
            simp only
            have hcurnot : ¬ (full c <+: full cur) := by
              intro h; have := h.length_le; rw [g3, List.length_append] at this; omega
            have hcur1 : lh1[cur]? = some cn := by
              rcases p2.old cur cn hcur with h | ⟨_, _, h, _⟩
              · exact h
              · exact absurd h hcurnot
            rw [replaceL_fin hcur1 hi, hset]
            obtain ⟨hxnew, n0, xh, q1, hx1, hxk, hxf, hxd⟩ := p2.root x rfl
            rw [h1] at q1; cases q1
            have m1 : Mid E lh full P (full c) d lh1 full1 := ⟨p2.ok, p2.len, p2.fsame, p2.old, p2.new⟩
            obtain ⟨full', hpp⟩ := put_replace_post (kt := kt) (data := data) hok hclosed hcur hP hk hp h1 h2 m1 hcur1 hx1
              (hxk.trans h2) (by rw [hxf, g3, hxk]) hxnew hbound (by omega)
              (fun s hs i i' => E_rec h1 hx1 hxk t3 hj p2.sem s hs i i')
            exact ⟨_, _, full', rfl, hpp⟩
      · -- split
        rw [if_neg t1]
        have hj1 : lcp ch.key (k0 :: kt) < ch.key.length := by omega
        have hj2 : lcp ch.key (k0 :: kt) < (k0 :: kt).length := by omega
        obtain ⟨b, a, cbt, kat, eb, ea, hab⟩ := lcp_mismatch ch.key (k0 :: kt) hj1 hj2
        obtain ⟨tk, htk⟩ : ∃ tk, two ((k0 :: kt).drop (lcp ch.key (k0 :: kt))) (ch.key.drop (lcp ch.key (k0 :: kt)))
            (lh.length + 1) lh.length = some tk := by rw [ea, eb]; exact two_some _ _
        rw [htk]
        simp only
        have hj0 : 0 < lcp ch.key (k0 :: kt) := scanL_at_pos e
        generalize hjj : lcp ch.key (k0 :: kt) = j at *
        have hlh1 : ∀ z, z < lh.length → (lh ++ [({ ch with key := ch.key.drop j } : LN), lleaf ((k0 :: kt).drop j) d data,
            { ch with key := ch.key.take j, dye := d, terminal := false, kids := tk }])[z]? = lh[z]? :=
          fun z hz => List.getElem?_append_left hz
        have hcN := get_app_new0 lh ({ ch with key := ch.key.drop j } : LN) [lleaf ((k0 :: kt).drop j) d data,
            { ch with key := ch.key.take j, dye := d, terminal := false, kids := tk }]
        have hlf := get_app_new1 lh ({ ch with key := ch.key.drop j } : LN) (lleaf ((k0 :: kt).drop j) d data)
            [{ ch with key := ch.key.take j, dye := d, terminal := false, kids := tk }]
        have hTC := get_app_new2 lh ({ ch with key := ch.key.drop j } : LN) (lleaf ((k0 :: kt).drop j) d data)
            ({ ch with key := ch.key.take j, dye := d, terminal := false, kids := tk } : LN) []
        generalize hlh1e : lh ++ [({ ch with key := ch.key.drop j } : LN), lleaf ((k0 :: kt).drop j) d data,
            { ch with key := ch.key.take j, dye := d, terminal := false, kids := tk }] = lh1 at *
        have hlen1 : lh1.length = lh.length + 3 := by rw [← hlh1e]; simp
        have hcur1 : lh1[cur]? = some cn := by rw [hlh1 cur hcurlt]; exact hcur
        rw [replaceL_fin hcur1 hi, hset]
        have htkmem : ∀ x ∈ tk, x = lh.length ∨ x = lh.length + 1 := by
          intro x hx
          rw [ea, eb] at htk
          simp only [two, Option.some.injEq] at htk
          rw [← htk] at hx
          split at hx <;> simp at hx <;> omega
        have htake : ch.key.take j = (k0 :: kt).take j := by rw [← hjj]; exact take_lcp ch.key (k0 :: kt)
        let full1 : Nat → Key := fun id => if id = lh.length then full c else if id = lh.length + 1 then full cur ++ k0 :: kt
          else if id = lh.length + 2 then full cur ++ ch.key.take j else full id
        have hf1 : ∀ id, id < lh.length → full1 id = full id := by
          intro id h
          show (if id = lh.length then _ else if id = lh.length + 1 then _ else if id = lh.length + 2 then _ else _) = _
          rw [if_neg (by omega), if_neg (by omega), if_neg (by omega)]
        have hfN : full1 lh.length = full c := by
          show (if lh.length = lh.length then _ else _) = _; rw [if_pos rfl]
        have hfL : full1 (lh.length + 1) = full cur ++ k0 :: kt := by
          show (if lh.length + 1 = lh.length then _ else if lh.length + 1 = lh.length + 1 then _ else _) = _
          rw [if_neg (by omega), if_pos rfl]
        have hfT : full1 (lh.length + 2) = full cur ++ ch.key.take j := by
          show (if lh.length + 2 = lh.length then _ else if lh.length + 2 = lh.length + 1 then _
            else if lh.length + 2 = lh.length + 2 then _ else _) = _
          rw [if_neg (by omega), if_neg (by omega), if_pos rfl]
        have m1 : Mid E lh full P (full c) d lh1 full1 := by
          rw [← hlh1e]
          apply mid_append hok P (full c) d _ full1 hf1
          rw [hlh1e]
          intro id nn hid hnn
          have hcases : id = lh.length ∨ id = lh.length + 1 ∨ id = lh.length + 2 := by
            by_cases e : id < lh.length + 3
            · omega
            · rw [List.getElem?_eq_none (by omega)] at hnn; cases hnn
          have hheads1 : ∀ y c0, Hd lh y c0 → Hd lh1 y c0 := by
            intro y c0 ⟨ny, ct', q1, q2⟩
            exact ⟨ny, ct', by rw [hlh1 y (valid_lt q1)]; exact q1, q2⟩
          rcases hcases with rfl | rfl | rfl
          · rw [hcN] at hnn; cases hnn
            refine ⟨by rw [hfN]; exact hok.depth c ch h1, Or.inr ⟨c, ch, hPc, h1, rfl⟩,
              (hok.sorted c ch h1).transfer (fun y _ c0 h => hheads1 y c0 h), ?_, ?_⟩
            · intro ht; rw [hfN]; exact hok.term c ch h1 ht
            intro y hy
            have hy' : y ∈ ch.kids := hy
            obtain ⟨ny, q1, q2, q3⟩ := hok.kid c ch y h1 hy'
            have hylt := valid_lt q1
            exact ⟨ny, by rw [hlh1 y hylt]; exact q1, q2, by rw [hfN, hf1 y hylt, q3],
              fun _ => hclosed c ch y hPc h1 hy', hok.mono c ch y ny h1 hy' q1⟩
          · rw [hlf] at hnn; cases hnn
            refine ⟨by rw [hfL, List.length_append]; omega, Or.inl rfl, List.Pairwise.nil, ?_, ?_⟩
            · intro _
              rw [hfL]
              refine ⟨by rw [List.length_append]; omega, ?_⟩
              obtain ⟨dd, e1, e2⟩ := hdata
              exact ⟨dd, e1, e2⟩
            intro y hy; simp [lleaf] at hy
          · rw [hTC] at hnn; cases hnn
            have hsortk : SortedKids lh1 tk := by
              have hN : Hd lh1 lh.length b := ⟨_, cbt, hcN, eb⟩
              have hLf : Hd lh1 (lh.length + 1) a := ⟨_, kat, hlf, ea⟩
              have htk2 := htk
              rw [ea, eb] at htk2
              simp only [two, Option.some.injEq] at htk2
              rw [← htk2]
              unfold SortedKids
              by_cases e : a < b
              · rw [if_pos e]
                exact List.pairwise_cons.mpr ⟨fun y hy => by
                  rw [List.mem_singleton] at hy; subst hy; exact ⟨a, b, hLf, hN, e⟩, List.pairwise_singleton _ _⟩
              · rw [if_neg e]
                exact List.pairwise_cons.mpr ⟨fun y hy => by
                  rw [List.mem_singleton] at hy; subst hy; exact ⟨b, a, hN, hLf, by omega⟩, List.pairwise_singleton _ _⟩
            refine ⟨by rw [hfT, List.length_append, List.length_take]; omega, Or.inl rfl, hsortk,
              (fun ht => by cases ht), ?_⟩
            intro y hy
            rcases htkmem y hy with rfl | rfl
            · refine ⟨_, hcN, ?_, ?_, fun h => absurd h (Nat.lt_irrefl _), hbound c ch hPc h1⟩
              · show ch.key.drop j ≠ []
                intro h0
                have := congrArg List.length h0
                rw [List.length_drop] at this
                simp only [List.length_nil] at this; omega
              · rw [hfN, hfT, g3, List.append_assoc]
                show _ = full cur ++ (ch.key.take j ++ ch.key.drop j)
                rw [List.take_append_drop]
            · refine ⟨_, hlf, ?_, ?_, fun h => by omega, Nat.le_refl _⟩
              · show (k0 :: kt).drop j ≠ []
                intro h0
                have := congrArg List.length h0
                rw [List.length_drop] at this
                simp only [List.length_nil] at this; omega
              · rw [hfL, hfT, List.append_assoc, htake]
                show _ = full cur ++ ((k0 :: kt).take j ++ (k0 :: kt).drop j)
                rw [List.take_append_drop]
        obtain ⟨xt, hxt⟩ : ∃ xt, ch.key.take j = k0 :: xt := by
          rw [h2]; exact head_take hj0
        have hsame : ∀ y ∈ ch.kids, lh1[y]? = lh[y]? ∧ ∀ t, look lh1 y t = look lh y t := by
          intro y hy
          obtain ⟨ny, q1, _, _⟩ := hok.kid c ch y h1 hy
          have hylt := valid_lt q1
          exact ⟨hlh1 y hylt, fun t => by rw [← hlh1e]; exact look_append hok _ hylt t⟩
        obtain ⟨full', hpp⟩ := put_replace_post (kt := kt) (data := data) hok hclosed hcur hP hk hp h1 h2 m1 hcur1 hTC
          hxt hfT (by omega) hbound (Nat.le_refl _) (by
            intro s hs i i'
            obtain ⟨r1, r2⟩ := LA_split_parent (lh' := lh1) (TC := lh.length + 2) (k := k0 :: kt) h1
              (by rw [hjj]; exact hj0) (by rw [hjj]; exact hj1) (by rw [hjj]; exact hj2) hcN (by rw [hjj]) rfl rfl hlf
              (by rw [hjj]; rfl) (by rw [hjj]; exact htk) hTC (by rw [hjj]) rfl hsame s hs (by omega) i i'
            rw [r1]
            by_cases es : s = k0 :: kt
            · rw [if_pos es, if_pos es, r2 es, entR_ok_none, putEnt_none]; rfl
            · rw [if_neg es, if_neg es])
        exact ⟨_, _, full', rfl, hpp⟩

end LemoProofs.CowHeapL

/-
  C09 (heap refinement, part 7): the repaired `put` (`putL`) on logical heaps: path copying by dye.
  Only nodes that lie on the search path AND carry the writer's dye are mutated in place; everything else
  the new root reaches is either an untouched old node or a fresh node.
-/
import LemoProofs.Lemmas.CowHeapIns
set_option linter.unusedSimpArgs false
set_option linter.unusedVariables false
namespace LemoProofs.CowHeapL
open LemoModel.CowTrie

/-- the entry a `put` with dye `d` leaves for its key, given the entry found before: a node already carrying
    the dye is kept as it is (the second `Put` of a block for the same key is dropped by the code) -/
def putEnt (d : Nat) (data : Option Data) : Res (Option Ent) → Res (Option Ent)
  | .ok (some e) => if e.dye = d then .ok (some e) else .ok (some ⟨d, true, data⟩)
  | .ok none => .ok (some ⟨d, true, data⟩)
  | r => r

structure PutPost (L : Nat) (lh : LHeap) (full : Nat → Key) (P : Nat → Prop) (cur : Nat) (key : Key)
    (data : Option Data) (d : Nat) (lh' : LHeap) (res : Option Nat) (full' : Nat → Key) : Prop where
  ok : LOk L lh' full'
  len : lh.length ≤ lh'.length
  fsame : ∀ id, id < lh.length → full' id = full id
  /-- an old node is untouched, or it lies at/below `cur`, is in `P`, carries the dye `d` and only its children changed -/
  old : ∀ id n, lh[id]? = some n → lh'[id]? = some n ∨
      (P id ∧ n.dye = d ∧ full cur <+: full id ∧ ∃ n', lh'[id]? = some n' ∧ n'.key = n.key ∧ n'.dye = n.dye ∧
        n'.data = n.data ∧ n'.terminal = n.terminal ∧ ∀ c ∈ n'.kids, c < lh.length → P c)
  new : ∀ id n', lh.length ≤ id → lh'[id]? = some n' →
      (n'.dye = d ∨ ∃ p np, P p ∧ lh[p]? = some np ∧ n'.dye = np.dye) ∧ ∀ c ∈ n'.kids, c < lh.length → P c
  root : ∀ t, res = some t → lh.length ≤ t ∧ ∃ n nt, lh[cur]? = some n ∧ lh'[t]? = some nt ∧ nt.key = n.key ∧
      full' t = full cur
  sem : ∀ s, s.length = key.length →
      entR (look lh' (res.getD cur) s) = if s = key then putEnt d data (entR (look lh cur s)) else entR (look lh cur s)

/-! ### prefixes -/

theorem prefix_heads {A Z as bs : Key} {a b : Nat} (h1 : A ++ a :: as <+: Z) (h2 : A ++ b :: bs <+: Z) : a = b := by
  obtain ⟨t1, e1⟩ := h1
  obtain ⟨t2, e2⟩ := h2
  rw [← e2] at e1
  simp only [List.append_assoc] at e1
  have := List.append_cancel_left e1
  simp only [List.cons_append] at this
  injection this

/-- below a sibling with a different first symbol there is nothing at or below `c`, nor `cur` itself -/
theorem sibling_sep {L : Nat} {lh : LHeap} {full : Nat → Key} (hok : LOk L lh full) {cur c y : Nat} {cn ch ny : LN}
    {k0 c0 : Nat} {ct yt : Key}
    (hcur : lh[cur]? = some cn) (hcm : c ∈ cn.kids) (hym : y ∈ cn.kids) (hc : lh[c]? = some ch) (hy : lh[y]? = some ny)
    (hck : ch.key = k0 :: ct) (hyk : ny.key = c0 :: yt) (hne : c0 ≠ k0) (z : Nat) (hz : full y <+: full z) :
    z ≠ cur ∧ ¬ (full c <+: full z) := by
  obtain ⟨nc, g1, _, g3⟩ := hok.kid cur cn c hcur hcm
  obtain ⟨ny', q1, _, q3⟩ := hok.kid cur cn y hcur hym
  rw [hc] at g1; cases g1
  rw [hy] at q1; cases q1
  constructor
  · intro e
    have := hz.length_le
    rw [e, q3, List.length_append, hyk] at this
    simp at this
    omega
  · intro h
    rw [g3, hck] at h
    rw [q3, hyk] at hz
    exact hne (prefix_heads hz h)


/-- **the lookup from the new root, one level**: the root `r'` has `cur`'s children with the child `c` (hit by
    the scan for keys starting with `k0`) replaced by `x`; old nodes other than `cur` and those at/below `c` are
    untouched; the descent through `x` is specified by `E` -/
theorem edge_sem {L : Nat} {lh lh' : LHeap} {full : Nat → Key} (hok : LOk L lh full)
    {cur r' c x : Nat} {cn rn' ch xh : LN} {k0 : Nat} {kt ct xt : Key} {pre post : List Nat} {d : Nat} {data : Option Data}
    (hcur : lh[cur]? = some cn) (hkids : cn.kids = pre ++ c :: post) (hpre : ∀ y ∈ pre, HdLt lh k0 y)
    (hc : lh[c]? = some ch) (hck : ch.key = k0 :: ct)
    (hr' : lh'[r']? = some rn') (hkids' : rn'.kids = pre ++ x :: post)
    (hx : lh'[x]? = some xh) (hxk : xh.key = k0 :: xt)
    (hkeep : ∀ (y : Nat) (ny : LN), lh[y]? = some ny → ∃ ny' : LN, lh'[y]? = some ny' ∧ ny'.key = ny.key)
    (hunt : ∀ z, z < lh.length → z ≠ cur → ¬ (full c <+: full z) → lh'[z]? = lh[z]?)
    (E : ∀ s : Key, s.length = (k0 :: kt).length → ∀ i i',
      entR (desc1 lh' s (.at i' x (lcp xh.key s))) =
        if s = k0 :: kt then putEnt d data (entR (desc1 lh s (.at i c (lcp ch.key s))))
        else entR (desc1 lh s (.at i c (lcp ch.key s)))) :
    ∀ s : Key, s.length = (k0 :: kt).length →
      entR (look lh' r' s) = if s = k0 :: kt then putEnt d data (entR (look lh cur s)) else entR (look lh cur s) := by
  intro s hs
  cases s with
  | nil => simp at hs
  | cons s0 st =>
  have hcm : c ∈ cn.kids := by rw [hkids]; simp
  have hsame : ∀ y ∈ pre ++ post, ∀ c0, Hd lh y c0 → Hd lh' y c0 ∧
      (c0 ≠ k0 → lh'[y]? = lh[y]? ∧ ∀ t, look lh' y t = look lh y t) := by
    intro y hy c0 ⟨ny, yt, h1, h2⟩
    obtain ⟨ny', g1, g2⟩ := hkeep y ny h1
    refine ⟨⟨ny', yt, g1, g2.trans h2⟩, fun hne => ?_⟩
    have hym : y ∈ cn.kids := by
      rw [hkids]; simp only [List.mem_append, List.mem_cons] at hy ⊢
      rcases hy with h | h
      · exact Or.inl h
      · exact Or.inr (Or.inr h)
    have hylt := valid_lt h1
    have sep := fun z hz => sibling_sep hok hcur hcm hym hc h1 hck h2 hne z hz
    refine ⟨?_, fun t => look_below hok hylt ?_ t⟩
    · obtain ⟨a, b⟩ := sep y (List.prefix_refl _)
      exact hunt y hylt a b
    · intro z hz hpfx
      obtain ⟨a, b⟩ := sep z hpfx
      exact hunt z hz a b
  obtain ⟨A, B⟩ := LA_at (lh' := lh') (by rw [← hkids]; exact hok.kidsValid hcur) hpre hc hck hx hxk hsame s0 st
  rw [look_step hr', look_step hcur, hkids', hkids]
  by_cases e : s0 = k0
  · obtain ⟨a1, a2⟩ := A e
    rw [a1, a2]
    exact E (s0 :: st) hs _ _
  · have hne : ¬ (s0 :: st = k0 :: kt) := by
      intro h; cases h; exact e rfl
    rw [if_neg hne, B e]

end LemoProofs.CowHeapL

/-
  C09 (heap refinement, part 9): many tries in one heap.  The refinement relation `Rel` between a logical
  heap with one root per unconfirmed block (+ the stable root) and the abstract copy-on-write machine
  `LemoModel.CowSpec`, and its preservation by every operation.

  Ghost state: `full` (absolute prefix of every node) and `vis id o` — an over-approximation of "node `id`
  is reachable from the root of `o`" (`o = none`: the stable trie, `some l`: block `l`), closed under children.
  The ownership invariant (`excl`): a node that carries the height of a block `l` that can see it is visible
  to somebody else only if `l` has a child — so a block that is still a leaf owns the nodes it mutates in place.
-/
import LemoProofs.Lemmas.CowHeapPut
import LemoProofs.Lemmas.CowHeapTree
set_option linter.unusedSimpArgs false
set_option linter.unusedVariables false
namespace LemoProofs.CowHeapL
open LemoModel.CowTrie LemoModel.CowSpec LemoProofs.CowSpecL

/-- fixed-length, injective key encoding (`Address.Hex()`) -/
structure Enc (L : Nat) where
  enc : Nat → Key
  inj : ∀ a b, enc a = enc b → a = b
  len : ∀ k, (enc k).length = L
  pos : 0 < L

structure CSt where
  lh : LHeap
  sroot : Nat
  roots : Nat → Option Nat

/-- the trie `GetActDatabase(l)` hands out: the block's, else LastConfirm's -/
def CSt.rootOf (c : CSt) (l : Nat) : Nat := (c.roots l).getD c.sroot

def entOf (k : Nat) (e : Entry) : Ent := ⟨e.dye, true, some ⟨k, e.val⟩⟩

/-- the lookup result `r` shows exactly the table entry `te` -/
def TblRel (k : Nat) (te : Option Entry) (r : Res (Option LN)) : Prop := entR r = .ok (te.map (entOf k))

def hOf (a : ASt) : Option Nat → Nat
  | none => a.sh
  | some l => match findB a.blocks l with
    | some b => b.height
    | none => 0

structure Rel {L : Nat} (E : Enc L) (c : CSt) (a : ASt) (full : Nat → Key) (vis : Nat → Option Nat → Prop) : Prop where
  inv : CInv a
  ok : LOk L c.lh full
  live : ∀ l, (c.roots l).isSome ↔ (findB a.blocks l).isSome
  sroot : c.sroot < c.lh.length ∧ full c.sroot = [] ∧ vis c.sroot none
  root : ∀ l r, c.roots l = some r → r < c.lh.length ∧ full r = [] ∧ vis r (some l)
  closed : ∀ (id : Nat) (n : LN) (x : Nat) (o : Option Nat), vis id o → c.lh[id]? = some n → x ∈ n.kids → vis x o
  vlive : ∀ id l, vis id (some l) → (findB a.blocks l).isSome
  dye : ∀ (id : Nat) (n : LN) (o : Option Nat), vis id o → c.lh[id]? = some n → n.dye ≤ hOf a o
  /-- ownership -/
  excl : ∀ (id : Nat) (n : LN) (l : Nat) (b : ABlk) (o : Option Nat), vis id (some l) → c.lh[id]? = some n →
      findB a.blocks l = some b → n.dye = b.height → vis id o → o ≠ some l → hasChild a.blocks l = true
  tbl : ∀ l r b, c.roots l = some r → findB a.blocks l = some b → ∀ k, TblRel k (b.tbl k) (look c.lh r (E.enc k))
  stbl : ∀ k, TblRel k (a.stbl k) (look c.lh c.sroot (E.enc k))

/-- the view of any label, as a table lookup -/
theorem Rel.view {L : Nat} {E : Enc L} {c : CSt} {a : ASt} {full : Nat → Key} {vis : Nat → Option Nat → Prop}
    (h : Rel E c a full vis) (l k : Nat) : TblRel k (tblOf a l k) (look c.lh (c.rootOf l) (E.enc k)) := by
  unfold tblOf CSt.rootOf
  cases hf : findB a.blocks l with
  | some b =>
    have := (h.live l).mpr (by rw [hf]; rfl)
    cases hr : c.roots l with
    | none => rw [hr] at this; cases this
    | some r => exact h.tbl l r b hr hf k
  | none =>
    cases hr : c.roots l with
    | none => exact h.stbl k
    | some r =>
      have := (h.live l).mp (by rw [hr]; rfl)
      rw [hf] at this; cases this

/-! ### SetBlock -/

def cSetBlock (c : CSt) (l p : Nat) : CSt :=
  { c with roots := fun x => if x = l then some (c.rootOf p) else c.roots x }

/-- the owner under which `p`'s trie is visible -/
def clab (a : ASt) (p : Nat) : Option Nat := if (findB a.blocks p).isSome then some p else none

theorem Rel.rootOf_spec {L : Nat} {E : Enc L} {c : CSt} {a : ASt} {full : Nat → Key} {vis : Nat → Option Nat → Prop}
    (h : Rel E c a full vis) (p : Nat) :
    c.rootOf p < c.lh.length ∧ full (c.rootOf p) = [] ∧ vis (c.rootOf p) (clab a p) := by
  unfold CSt.rootOf clab
  cases hr : c.roots p with
  | none =>
    have : ¬ (findB a.blocks p).isSome := fun x => by
      have := (h.live p).mpr x; rw [hr] at this; cases this
    simp only [Option.getD_none, this]
    exact h.sroot
  | some r =>
    have : (findB a.blocks p).isSome := (h.live p).mp (by rw [hr]; rfl)
    simp only [Option.getD_some, this, if_true]
    exact h.root p r hr

end LemoProofs.CowHeapL

/-
  C09 (heap refinement, part 9): many tries in one heap.  The refinement relation `Rel` between a logical
  heap with one root per unconfirmed block (+ the stable root) and the abstract copy-on-write machine
  `LemoModel.CowSpec`, and its preservation by every operation.

  Ghost state: `full` (absolute prefix of every node) and `vis id o` — an over-approximation of "node `id`
  is reachable from the root of `o`" (`o = none`: the stable trie, `some l`: block `l`), closed under children.
  The ownership invariant (`excl`): a node that carries the height of a block `l` that can see it is visible
  to somebody else only if `l` has a child — so a block that is still a leaf owns the nodes it mutates in place.
-/
import LemoProofs.Lemmas.CowHeapPut
import LemoProofs.Lemmas.CowHeapTree
set_option linter.unusedSimpArgs false
set_option linter.unusedVariables false
namespace LemoProofs.CowHeapL
open LemoModel.CowTrie LemoModel.CowSpec LemoProofs.CowSpecL

structure CSt where
  lh : LHeap
  sroot : Nat
  roots : Nat → Option Nat

/-- the trie `GetActDatabase(l)` hands out: the block's, else LastConfirm's -/
def CSt.rootOf (c : CSt) (l : Nat) : Nat := (c.roots l).getD c.sroot

def entOf (k : Nat) (e : Entry) : Ent := ⟨e.dye, true, some ⟨k, e.val⟩⟩

/-- the lookup result `r` shows exactly the table entry `te` -/
def TblRel (k : Nat) (te : Option Entry) (r : Res (Option LN)) : Prop := entR r = .ok (te.map (entOf k))

def hOf (a : ASt) : Option Nat → Nat
  | none => a.sh
  | some l => match findB a.blocks l with
    | some b => b.height
    | none => 0

structure Rel {L : Nat} (E : Enc L) (c : CSt) (a : ASt) (full : Nat → Key) (vis : Nat → Option Nat → Prop) : Prop where
  inv : CInv a
  ok : LOk E c.lh full
  live : ∀ l, (c.roots l).isSome ↔ (findB a.blocks l).isSome
  sroot : c.sroot < c.lh.length ∧ full c.sroot = [] ∧ vis c.sroot none
  root : ∀ l r, c.roots l = some r → r < c.lh.length ∧ full r = [] ∧ vis r (some l)
  closed : ∀ (id : Nat) (n : LN) (x : Nat) (o : Option Nat), vis id o → c.lh[id]? = some n → x ∈ n.kids → vis x o
  vlive : ∀ id l, vis id (some l) → (findB a.blocks l).isSome
  dye : ∀ (id : Nat) (n : LN) (o : Option Nat), vis id o → c.lh[id]? = some n → n.dye ≤ hOf a o
  /-- ownership -/
  excl : ∀ (id : Nat) (n : LN) (l : Nat) (b : ABlk) (o : Option Nat), vis id (some l) → c.lh[id]? = some n →
      findB a.blocks l = some b → n.dye = b.height → vis id o → o ≠ some l → hasChild a.blocks l = true
  tbl : ∀ l r b, c.roots l = some r → findB a.blocks l = some b → ∀ k, TblRel k (b.tbl k) (look c.lh r (E.enc k))
  stbl : ∀ k, TblRel k (a.stbl k) (look c.lh c.sroot (E.enc k))

/-- the view of any label, as a table lookup -/
theorem Rel.view {L : Nat} {E : Enc L} {c : CSt} {a : ASt} {full : Nat → Key} {vis : Nat → Option Nat → Prop}
    (h : Rel E c a full vis) (l k : Nat) : TblRel k (tblOf a l k) (look c.lh (c.rootOf l) (E.enc k)) := by
  unfold tblOf CSt.rootOf
  cases hf : findB a.blocks l with
  | some b =>
    have := (h.live l).mpr (by rw [hf]; rfl)
    cases hr : c.roots l with
    | none => rw [hr] at this; cases this
    | some r => exact h.tbl l r b hr hf k
  | none =>
    cases hr : c.roots l with
    | none => exact h.stbl k
    | some r =>
      have := (h.live l).mp (by rw [hr]; rfl)
      rw [hf] at this; cases this

/-! ### SetBlock -/

def cSetBlock (c : CSt) (l p : Nat) : CSt :=
  { c with roots := fun x => if x = l then some (c.rootOf p) else c.roots x }

/-- the owner under which `p`'s trie is visible -/
def clab (a : ASt) (p : Nat) : Option Nat := if (findB a.blocks p).isSome then some p else none

theorem Rel.rootOf_spec {L : Nat} {E : Enc L} {c : CSt} {a : ASt} {full : Nat → Key} {vis : Nat → Option Nat → Prop}
    (h : Rel E c a full vis) (p : Nat) :
    c.rootOf p < c.lh.length ∧ full (c.rootOf p) = [] ∧ vis (c.rootOf p) (clab a p) := by
  unfold CSt.rootOf clab
  cases hr : c.roots p with
  | none =>
    have : ¬ (findB a.blocks p).isSome := fun x => by
      have := (h.live p).mpr x; rw [hr] at this; cases this
    simp only [Option.getD_none, this]
    exact h.sroot
  | some r =>
    have : (findB a.blocks p).isSome := (h.live p).mp (by rw [hr]; rfl)
    simp only [Option.getD_some, this, if_true]
    exact h.root p r hr


theorem aSetBlock_eq {a a' : ASt} {l p h : Nat} (hwf : WF a.sl a.sh a.blocks) (hs : aSetBlock a l p h = some a') :
    l ≠ a.sl ∧ findB a.blocks l = none ∧
    a' = { a with blocks := { label := l, height := h, parent := p, tbl := tblOf a p, writes := fun _ => none } :: a.blocks } ∧
    h = hOf a (clab a p) + 1 := by
  unfold aSetBlock at hs
  split at hs
  · cases hs
  · rename_i hg
    have h1 : l ≠ a.sl := fun e => hg (Or.inl e)
    have h2 : findB a.blocks l = none := by
      cases hf : findB a.blocks l with
      | none => rfl
      | some b => exact absurd (Or.inr (by simp [hf])) hg
    refine ⟨h1, h2, ?_⟩
    split at hs
    · rename_i hp
      split at hs
      · rename_i hh
        cases hs
        have hn : findB a.blocks p = none := by
          rw [hp]; exact findB_none_of (wf_label_ne hwf)
        refine ⟨?_, ?_⟩
        · simp only [tblOf, hn]
        · simp only [clab, hn, hOf]; exact hh
      · cases hs
    · split at hs
      · rename_i pb hf
        split at hs
        · rename_i hh
          cases hs
          refine ⟨?_, ?_⟩
          · simp only [tblOf, hf]
          · simp only [clab, hf, hOf, Option.isSome_some, if_true]; exact hh
        · cases hs
      · cases hs

theorem rel_setBlock {L : Nat} {E : Enc L} {c : CSt} {a a' : ASt} {full : Nat → Key} {vis : Nat → Option Nat → Prop}
    (hr : Rel E c a full vis) {l p h : Nat} (hs : aSetBlock a l p h = some a') :
    ∃ vis', Rel E (cSetBlock c l p) a' full vis' := by
  obtain ⟨hlsl, hfresh, ha', hh⟩ := aSetBlock_eq hr.inv.wf hs
  have hinv' : CInv a' := inv_setBlock hr.inv hs
  obtain ⟨rp1, rp2, rp3⟩ := hr.rootOf_spec p
  have hblocks : a'.blocks = { label := l, height := h, parent := p, tbl := tblOf a p, writes := fun _ => none } :: a.blocks := by
    rw [ha']
  have hsh : a'.sh = a.sh := by rw [ha']
  have hstbl : a'.stbl = a.stbl := by rw [ha']
  have hfind : ∀ x, findB a'.blocks x =
      if l = x then some { label := l, height := h, parent := p, tbl := tblOf a p, writes := fun _ => none }
      else findB a.blocks x := by
    intro x; rw [hblocks, findB]
  have hnovis : ∀ id, ¬ vis id (some l) := by
    intro id hv
    have := hr.vlive id l hv
    rw [hfresh] at this; cases this
  refine ⟨fun id o => vis id o ∨ (o = some l ∧ vis id (clab a p)), hinv', hr.ok, ?_, ?_, ?_, ?_, ?_, ?_, ?_, ?_, ?_⟩
  · intro x
    show (if x = l then some (c.rootOf p) else c.roots x).isSome ↔ _
    rw [hfind]
    by_cases e : x = l
    · subst e; simp
    · have : ¬ l = x := fun h => e h.symm
      simp only [e, this, if_false]; exact hr.live x
  · exact ⟨hr.sroot.1, hr.sroot.2.1, Or.inl hr.sroot.2.2⟩
  · intro x r hx
    have hx' : (if x = l then some (c.rootOf p) else c.roots x) = some r := hx
    by_cases e : x = l
    · subst e
      simp only [if_true, Option.some.injEq] at hx'
      subst hx'
      exact ⟨rp1, rp2, Or.inr ⟨rfl, rp3⟩⟩
    · simp only [e, if_false] at hx'
      obtain ⟨a1, a2, a3⟩ := hr.root x r hx'
      exact ⟨a1, a2, Or.inl a3⟩
  · intro id n x o hv hn hx
    rcases hv with hv | ⟨rfl, hv⟩
    · exact Or.inl (hr.closed id n x o hv hn hx)
    · exact Or.inr ⟨rfl, hr.closed id n x _ hv hn hx⟩
  · intro id l2 hv
    rw [hfind]
    by_cases e : l = l2
    · simp [e]
    · simp only [e, if_false]
      rcases hv with hv | ⟨h1, _⟩
      · exact hr.vlive id l2 hv
      · cases h1; exact absurd rfl e
  · intro id n o hv hn
    have hOfold : ∀ o', o' ≠ some l → hOf a' o' = hOf a o' := by
      intro o' ho
      cases o' with
      | none => exact hsh
      | some x =>
        have : ¬ l = x := fun e => ho (by rw [e])
        simp only [hOf, hfind, this, if_false]
    rcases hv with hv | ⟨rfl, hv⟩
    · have : o ≠ some l := fun e => hnovis id (e ▸ hv)
      rw [hOfold o this]; exact hr.dye id n o hv hn
    · have := hr.dye id n _ hv hn
      simp only [hOf, hfind, if_true]
      omega
  · intro id n l2 b o hv hn hb hd hvo hne
    rw [hblocks, hasChild_cons]
    rw [hfind] at hb
    by_cases e : l = l2
    · -- the new block: it can only see nodes of its parent's trie, whose dyes are smaller than its height
      subst e
      simp only [if_true, Option.some.injEq] at hb
      subst hb
      exfalso
      rcases hv with hv | ⟨_, hv⟩
      · exact hnovis id hv
      · have := hr.dye id n _ hv hn
        simp only at hd
        omega
    · simp only [e, if_false] at hb
      have hv2 : vis id (some l2) := by
        rcases hv with hv | ⟨h1, _⟩
        · exact hv
        · cases h1; exact absurd rfl e
      rcases hvo with hvo | ⟨rfl, hvo⟩
      · rw [hr.excl id n l2 b o hv2 hn hb hd hvo hne]; simp
      · by_cases ep : clab a p = some l2
        · have : p = l2 := by
            unfold clab at ep
            split at ep
            · cases ep; rfl
            · cases ep
          simp [this]
        · rw [hr.excl id n l2 b _ hv2 hn hb hd hvo ep]; simp
  · intro x r b hx hb k
    have hx' : (if x = l then some (c.rootOf p) else c.roots x) = some r := hx
    rw [hfind] at hb
    by_cases e : x = l
    · subst e
      simp only [if_true, Option.some.injEq] at hx' hb
      subst hx'; subst hb
      exact hr.view p k
    · have : ¬ l = x := fun h => e h.symm
      simp only [e, this, if_false] at hx' hb
      exact hr.tbl x r b hx' hb k
  · rw [hstbl]; exact hr.stbl


/-! ### SetStableBlock (one commit step): the heap is untouched, roots are dropped -/

def cStable (c : CSt) (a' : ASt) (l : Nat) : CSt :=
  { c with sroot := c.rootOf l, roots := fun x => if (findB a'.blocks x).isSome then c.roots x else none }

theorem rel_stable {L : Nat} {E : Enc L} {c : CSt} {a a' : ASt} {full : Nat → Key} {vis : Nat → Option Nat → Prop}
    (hr : Rel E c a full vis) {l : Nat} (hs : aStable a l = some a') :
    ∃ vis', Rel E (cStable c a' l) a' full vis' := by
  have hinv' : CInv a' := inv_stable hr.inv hs
  obtain ⟨b, hf, hp, ha'⟩ := aStable_eq hs
  have hblocks : a'.blocks = prune l a.blocks := by rw [ha']
  have hsh : a'.sh = b.height := by rw [ha']
  have hsl : a'.sl = l := by rw [ha']
  have hstbl : a'.stbl = b.tbl := by rw [ha']
  have hwf' : WF l b.height (prune l a.blocks) := by
    have := hinv'.wf; rw [hblocks, hsl, hsh] at this; exact this
  have hfp : ∀ x bx, findB a'.blocks x = some bx ↔ findB a.blocks x = some bx ∧ x ≠ l ∧ desc a.blocks l x = true := by
    intro x bx; rw [hblocks]; exact findB_prune hr.inv.wf hwf' x bx
  have hsurv : ∀ x, (findB a'.blocks x).isSome → ∃ bx, findB a'.blocks x = some bx ∧ findB a.blocks x = some bx ∧
      x ≠ l ∧ desc a.blocks l x = true := by
    intro x hx
    cases hfx : findB a'.blocks x with
    | none => rw [hfx] at hx; cases hx
    | some bx =>
      obtain ⟨a1, a2, a3⟩ := (hfp x bx).mp hfx
      exact ⟨bx, rfl, a1, a2, a3⟩
  have hrl : ∃ rl, c.roots l = some rl := by
    have := (hr.live l).mpr (by rw [hf]; rfl)
    cases h : c.roots l with
    | none => rw [h] at this; cases this
    | some r => exact ⟨r, rfl⟩
  obtain ⟨rl, hrl⟩ := hrl
  have hrootOf : c.rootOf l = rl := by simp [CSt.rootOf, hrl]
  obtain ⟨r1, r2, r3⟩ := hr.root l rl hrl
  refine ⟨fun id o => match o with
      | none => vis id (some l)
      | some x => (findB a'.blocks x).isSome ∧ vis id (some x),
    hinv', hr.ok, ?_, ?_, ?_, ?_, ?_, ?_, ?_, ?_, ?_⟩
  · intro x
    show (if (findB a'.blocks x).isSome then c.roots x else none).isSome ↔ _
    by_cases e : (findB a'.blocks x).isSome
    · simp only [e, if_true, iff_true]
      obtain ⟨bx, _, a1, _⟩ := hsurv x e
      exact (hr.live x).mpr (by rw [a1]; rfl)
    · simp only [e, if_false]; simp
  · show c.rootOf l < _ ∧ full (c.rootOf l) = [] ∧ vis (c.rootOf l) (some l)
    rw [hrootOf]; exact ⟨r1, r2, r3⟩
  · intro x r hx
    have hx' : (if (findB a'.blocks x).isSome then c.roots x else none) = some r := hx
    by_cases e : (findB a'.blocks x).isSome
    · simp only [e, if_true] at hx'
      obtain ⟨a1, a2, a3⟩ := hr.root x r hx'
      exact ⟨a1, a2, e, a3⟩
    · simp only [e, if_false] at hx'; cases hx'
  · intro id n x o hv hn hx
    cases o with
    | none => exact hr.closed id n x _ hv hn hx
    | some y => exact ⟨hv.1, hr.closed id n x _ hv.2 hn hx⟩
  · intro id x hv; exact hv.1
  · intro id n o hv hn
    cases o with
    | none =>
      have := hr.dye id n _ hv hn
      simp only [hOf, hf] at this
      show n.dye ≤ a'.sh
      rw [hsh]; exact this
    | some y =>
      obtain ⟨by', q1, q2, _⟩ := hsurv y hv.1
      have := hr.dye id n _ hv.2 hn
      simp only [hOf, q1, q2] at this ⊢
      exact this
  · intro id n x bx o hv hn hb hd hvo hne
    obtain ⟨q1, q2, q3⟩ := (hfp x bx).mp hb
    rw [hblocks]
    apply hasChild_prune hr.inv.wf q3
    cases o with
    | none =>
      exact hr.excl id n x bx (some l) hv.2 hn q1 hd hvo (by intro e; cases e; exact q2 rfl)
    | some y =>
      exact hr.excl id n x bx (some y) hv.2 hn q1 hd hvo.2 hne
  · intro x r bx hx hb k
    have hx' : (if (findB a'.blocks x).isSome then c.roots x else none) = some r := hx
    obtain ⟨q1, _, _⟩ := (hfp x bx).mp hb
    have e : (findB a'.blocks x).isSome := by rw [hb]; rfl
    simp only [e, if_true] at hx'
    exact hr.tbl x r bx hx' q1 k
  · intro k
    show TblRel k (a'.stbl k) (look c.lh (c.rootOf l) (E.enc k))
    rw [hstbl, hrootOf]
    exact hr.tbl l rl b hrl hf k


/-! ### Put -/

def cPut {L : Nat} (E : Enc L) (c : CSt) (l k v d : Nat) : Option CSt :=
  match c.roots l with
  | none => none
  | some r =>
    match putTopL c.lh r (E.enc k) (some ⟨k, v⟩) d with
    | none => none
    | some (lh', r') => some { c with lh := lh', roots := fun x => if x = l then some r' else c.roots x }

theorem putEnt_tbl (k v d : Nat) (t : Nat → Option Entry) :
    putEnt d (some ⟨k, v⟩) (.ok ((t k).map (entOf k))) = .ok ((putT t k v d k).map (entOf k)) := by
  unfold putT
  cases h : t k with
  | none => simp [putEnt, setT, entOf]
  | some e =>
    by_cases hd : e.dye = d
    · subst hd
      simp [putEnt, entOf, h]
    · simp [putEnt, entOf, hd, setT]

theorem rel_put {L : Nat} {E : Enc L} {c : CSt} {a a' : ASt} {full : Nat → Key} {vis : Nat → Option Nat → Prop}
    (hr : Rel E c a full vis) {l k v : Nat} {b : ABlk} (hs : aPut a l k v = some a') (hb : findB a.blocks l = some b) :
    ∃ c' full' vis', cPut E c l k v b.height = some c' ∧ Rel E c' a' full' vis' := by
  have hinv' : CInv a' := inv_put hr.inv hs
  obtain ⟨b0, hf, hleaf, _, ha'⟩ := aPut_eq hs
  rw [hb] at hf; cases hf
  have hblocks : a'.blocks = updB a.blocks l (putF k v) := by rw [ha']
  have hsh : a'.sh = a.sh := by rw [ha']
  have hstbl : a'.stbl = a.stbl := by rw [ha']
  have hfind : ∀ x, findB a'.blocks x = (findB a.blocks x).map (fun y => if y.label = l then putF k v y else y) := by
    intro x; rw [hblocks]; exact findB_updB a.blocks l (putF k v) (fun _ => rfl) x
  have hhc : ∀ x, hasChild a'.blocks x = hasChild a.blocks x := by
    intro x; rw [hblocks]; exact hasChild_updB a.blocks l (putF k v) (fun _ => rfl) x
  have hOfeq : ∀ o, hOf a' o = hOf a o := by
    intro o
    cases o with
    | none => exact hsh
    | some x =>
      simp only [hOf, hfind]
      cases findB a.blocks x with
      | none => rfl
      | some y =>
        simp only [Option.map_some]
        split <;> rfl
  obtain ⟨r, hrl⟩ : ∃ r, c.roots l = some r := by
    have := (hr.live l).mpr (by rw [hb]; rfl)
    cases h : c.roots l with
    | none => rw [h] at this; cases this
    | some r => exact ⟨r, rfl⟩
  obtain ⟨r1, r2, r3⟩ := hr.root l r hrl
  obtain ⟨cn, hcn⟩ : ∃ cn, c.lh[r]? = some cn := ⟨c.lh[r], by rw [List.getElem?_eq_getElem r1]⟩
  have hkne : E.enc k ≠ [] := by
    intro h0; have h1 := E.len k; rw [h0] at h1; have := E.pos; simp only [List.length_nil] at h1; omega
  obtain ⟨lh', res, full', hput, hpp⟩ := putL_spec (E := E) (P := fun id => vis id (some l)) ((E.enc k).length + 1) c.lh full r (E.enc k)
    (some ⟨k, v⟩) b.height hr.ok (fun id n x hv hn hx => hr.closed id n x _ hv hn hx) r3 ⟨cn, hcn⟩
    (by rw [r2, E.len]; simp) hkne (Nat.lt_succ_self _)
    (fun id n hv hn => by have := hr.dye id n _ hv hn; simpa [hOf, hb] using this)
    ⟨⟨k, v⟩, rfl, by rw [r2]; rfl⟩
  -- the writer owns what it mutates
  have hown : ∀ (id : Nat) (n : LN) (o : Option Nat), c.lh[id]? = some n → vis id (some l) → n.dye = b.height → vis id o → o = some l := by
    intro id n o hn hv hd hvo
    by_cases e : o = some l
    · exact e
    · have := hr.excl id n l b o hv hn hb hd hvo e
      rw [hleaf] at this; cases this
  have hcput : cPut E c l k v b.height = some { c with lh := lh', roots := fun x => if x = l then some (res.getD r) else c.roots x } := by
    unfold cPut putTopL
    rw [hrl]
    simp only
    rw [hput]
    cases res <;> rfl
  refine ⟨_, full', fun id o => (id < c.lh.length ∧ vis id o) ∨ (c.lh.length ≤ id ∧ o = some l), hcput, ?_⟩
  have hlen := hpp.len
  have hgetold : ∀ id, id < c.lh.length → ∃ n, c.lh[id]? = some n := fun id h => ⟨c.lh[id], by rw [List.getElem?_eq_getElem h]⟩
  have hroot' : res.getD r < lh'.length ∧ full' (res.getD r) = [] ∧
      ((res.getD r < c.lh.length ∧ vis (res.getD r) (some l)) ∨ (c.lh.length ≤ res.getD r ∧ some l = some l)) := by
    cases hres : res with
    | none =>
      simp only [Option.getD_none]
      exact ⟨by omega, by rw [hpp.fsame r r1]; exact r2, Or.inl ⟨r1, r3⟩⟩
    | some t =>
      simp only [Option.getD_some]
      obtain ⟨a1, n, nt, _, a3, _, a5, _⟩ := hpp.root t hres
      exact ⟨valid_lt a3, by rw [a5]; exact r2, Or.inr ⟨a1, by simp⟩⟩
  -- frame for the other views
  have hframe : ∀ (o : Option Nat) (rx : Nat), o ≠ some l → rx < c.lh.length → vis rx o → ∀ t, look lh' rx t = look c.lh rx t := by
    intro o rx ho hrx hv t
    apply look_frame (fun id => id < c.lh.length ∧ vis id o)
    · intro id n x ⟨_, h2⟩ hn hx
      obtain ⟨nc, g1, _, _⟩ := hr.ok.kid id n x hn hx
      exact ⟨valid_lt g1, hr.closed id n x o h2 hn hx⟩
    · intro id ⟨h1, h2⟩
      obtain ⟨n, hn⟩ := hgetold id h1
      rcases hpp.old id n hn with h | ⟨q1, q2, _⟩
      · rw [h, hn]
      · exact absurd (hown id n o hn q1 q2 h2) ho
    · exact ⟨hrx, hv⟩
  refine ⟨hinv', hpp.ok, ?_, ?_, ?_, ?_, ?_, ?_, ?_, ?_, ?_⟩
  · intro x
    show (if x = l then some (res.getD r) else c.roots x).isSome ↔ _
    rw [hfind]
    by_cases e : x = l
    · subst e; simp [hb]
    · simp only [e, if_false, Option.isSome_map]; exact hr.live x
  · have h1 := hr.sroot.1
    exact ⟨show c.sroot < lh'.length by omega, by rw [hpp.fsame _ hr.sroot.1]; exact hr.sroot.2.1, Or.inl ⟨hr.sroot.1, hr.sroot.2.2⟩⟩
  · intro x rx hx
    have hx' : (if x = l then some (res.getD r) else c.roots x) = some rx := hx
    by_cases e : x = l
    · subst e
      simp only [if_true, Option.some.injEq] at hx'
      subst hx'
      exact hroot'
    · simp only [e, if_false] at hx'
      obtain ⟨a1, a2, a3⟩ := hr.root x rx hx'
      exact ⟨show rx < lh'.length by omega, by rw [hpp.fsame rx a1]; exact a2, Or.inl ⟨a1, a3⟩⟩
  · -- closed
    intro id n' x o hv hn' hx
    have hxcase : ∀ (ox : Option Nat), (x < c.lh.length → vis x ox) → (c.lh.length ≤ x → ox = some l) →
        (x < c.lh.length ∧ vis x ox) ∨ (c.lh.length ≤ x ∧ ox = some l) := by
      intro ox h1 h2
      by_cases e : x < c.lh.length
      · exact Or.inl ⟨e, h1 e⟩
      · exact Or.inr ⟨by omega, h2 (by omega)⟩
    rcases hv with ⟨hid, hv⟩ | ⟨hid, rfl⟩
    · obtain ⟨n, hn⟩ := hgetold id hid
      rcases hpp.old id n hn with h | ⟨q1, q2, _, n'', q4, _, _, _, _, q9⟩
      · rw [h] at hn'; cases hn'
        obtain ⟨nc, g1, _, _⟩ := hr.ok.kid id n' x hn hx
        exact Or.inl ⟨valid_lt g1, hr.closed id n' x o hv hn hx⟩
      · rw [q4] at hn'; cases hn'
        have ho := hown id n o hn q1 q2 hv
        subst ho
        exact hxcase _ (fun h => q9 x hx h) (fun _ => rfl)
    · obtain ⟨_, q2⟩ := hpp.new id n' hid hn'
      exact hxcase _ (fun h => q2 x hx h) (fun _ => rfl)
  · intro id x hv
    rw [hfind, Option.isSome_map]
    rcases hv with ⟨_, hv⟩ | ⟨_, h⟩
    · exact hr.vlive id x hv
    · cases h; rw [hb]; rfl
  · intro id n' o hv hn'
    rw [hOfeq]
    rcases hv with ⟨hid, hv⟩ | ⟨hid, rfl⟩
    · obtain ⟨n, hn⟩ := hgetold id hid
      rcases hpp.old id n hn with h | ⟨_, _, _, n'', q4, _, q6, _⟩
      · rw [h] at hn'; cases hn'; exact hr.dye id n' o hv hn
      · rw [q4] at hn'; cases hn'; rw [q6]; exact hr.dye id n o hv hn
    · obtain ⟨q1, _⟩ := hpp.new id n' hid hn'
      rcases q1 with q1 | ⟨p, np, q2, q3, q4⟩
      · rw [q1]; simp only [hOf, hb]; exact Nat.le_refl _
      · rw [q4]; exact hr.dye p np _ q2 q3
  · intro id n' x bx' o hv hn' hbx' hd hvo hne
    rw [hhc]
    rcases hv with ⟨hid, hv⟩ | ⟨hid, h⟩
    · rcases hvo with ⟨_, hvo⟩ | ⟨hid2, _⟩
      · obtain ⟨n, hn⟩ := hgetold id hid
        rw [hfind] at hbx'
        cases hbx : findB a.blocks x with
        | none => rw [hbx] at hbx'; cases hbx'
        | some bx =>
          rw [hbx] at hbx'
          simp only [Option.map_some, Option.some.injEq] at hbx'
          have hht : bx'.height = bx.height := by rw [← hbx']; split <;> rfl
          have hdy : n'.dye = n.dye := by
            rcases hpp.old id n hn with h | ⟨_, _, _, n'', q4, _, q6, _⟩
            · rw [h] at hn'; cases hn'; rfl
            · rw [q4] at hn'; cases hn'; exact q6
          exact hr.excl id n x bx o hv hn hbx (by rw [← hdy, hd, hht]) hvo hne
      · omega
    · cases h
      rcases hvo with ⟨hid2, _⟩ | ⟨_, h2⟩
      · omega
      · exact absurd h2 hne
  · -- tables
    intro x rx bx' hx hbx' k'
    have hx' : (if x = l then some (res.getD r) else c.roots x) = some rx := hx
    rw [hfind] at hbx'
    by_cases e : x = l
    · subst e
      simp only [if_true, Option.some.injEq] at hx'
      subst hx'
      rw [hb] at hbx'
      simp only [Option.map_some, Option.some.injEq] at hbx'
      have hbl : b.label = x := (findB_some hb).2
      rw [if_pos hbl] at hbx'
      subst hbx'
      have hold := hr.tbl x r b hrl hb k'
      unfold TblRel at hold ⊢
      have := hpp.sem (E.enc k') (by rw [E.len, E.len])
      show entR (look lh' (res.getD r) (E.enc k')) = _
      rw [this, hold]
      show _ = Res.ok ((putT b.tbl k v b.height k').map (entOf k'))
      by_cases ek : k' = k
      · subst ek
        rw [if_pos rfl]
        exact putEnt_tbl k' v b.height b.tbl
      · have : E.enc k' ≠ E.enc k := fun h => ek (E.inj _ _ h)
        rw [if_neg this, putT_other _ _ _ _ _ ek]
    · simp only [e, if_false] at hx'
      cases hbx : findB a.blocks x with
      | none => rw [hbx] at hbx'; cases hbx'
      | some bx =>
        rw [hbx] at hbx'
        simp only [Option.map_some, Option.some.injEq] at hbx'
        have hbl : bx.label = x := (findB_some hbx).2
        have : ¬ bx.label = l := by rw [hbl]; exact e
        rw [if_neg this] at hbx'
        subst hbx'
        obtain ⟨a1, a2, a3⟩ := hr.root x rx hx'
        unfold TblRel
        show entR (look lh' rx (E.enc k')) = _
        rw [hframe (some x) rx (by intro h; cases h; exact e rfl) a1 a3]
        exact hr.tbl x rx bx hx' hbx k'
  · intro k'
    rw [hstbl]
    unfold TblRel
    show entR (look lh' c.sroot (E.enc k')) = _
    rw [hframe none c.sroot (by intro h; cases h) hr.sroot.1 hr.sroot.2.2]
    exact hr.stbl k'


/-! ### Get (with the read-through insertion) -/

def cGet {L : Nat} (E : Enc L) (c : CSt) (l k : Nat) (disk : Option Nat) : Option (CSt × Option Nat) :=
  match look c.lh (c.rootOf l) (E.enc k) with
  | .ok o =>
    match dataOf o with
    | some d => some (c, some d.val)
    | none =>
      match disk with
      | none => some (c, none)
      | some v =>
        match insertL ((E.enc k).length + 1) c.lh (c.rootOf l) (E.enc k) (some ⟨k, v⟩) with
        | none => none
        | some lh' => some ({ c with lh := lh' }, some v)
  | _ => none

theorem entR_ok {r : Res (Option LN)} {x : Option Ent} (h : entR r = .ok x) : ∃ o, r = .ok o ∧ o.map LN.ent = x := by
  cases r with
  | ok o => exact ⟨o, rfl, by simpa [entR, mapRes] using h⟩
  | panic => cases h
  | stuck => cases h

theorem findB_label_mem {bs : List ABlk} {x : Nat} {b : ABlk} (h : findB bs x = some b) : x ∈ bs.map (·.label) := by
  obtain ⟨h1, h2⟩ := findB_some h
  exact List.mem_map.mpr ⟨b, h1, h2⟩

theorem rel_get {L : Nat} {E : Enc L} {c : CSt} {a : ASt} {full : Nat → Key} {vis : Nat → Option Nat → Prop}
    (hr : Rel E c a full vis) (l k : Nat) :
    ∃ c' sharers full' vis', cGet E c l k (a.disk k) = some (c', (aGet a l k sharers).2) ∧
      Rel E c' (aGet a l k sharers).1 full' vis' := by
  have hview := hr.view l k
  obtain ⟨o, ho, hoe⟩ := entR_ok hview
  obtain ⟨rr1, rr2, rr3⟩ := hr.rootOf_spec l
  cases hte : tblOf a l k with
  | some e =>
    -- hit: nothing changes
    rw [hte] at hoe
    refine ⟨c, [], full, vis, ?_, ?_⟩
    · unfold cGet aGet
      rw [ho, hte]
      cases o with
      | none => cases hoe
      | some n =>
        simp only [Option.map_some, Option.some.injEq] at hoe
        have h1 : n.terminal = true := congrArg Ent.terminal hoe
        have h2 : n.data = some ⟨k, e.val⟩ := congrArg Ent.data hoe
        simp [dataOf, h1, h2]
    · unfold aGet; rw [hte]; exact hr
  | none =>
    rw [hte] at hoe
    have hon : o = none := by cases o with
      | none => rfl
      | some n => cases hoe
    subst hon
    cases hd : a.disk k with
    | none =>
      refine ⟨c, [], full, vis, ?_, ?_⟩
      · unfold cGet aGet
        rw [ho, hte, hd]; rfl
      · unfold aGet; rw [hte]
        simp only
        rw [cache_fold_none _ _ hd]; exact hr
    | some v =>
      obtain ⟨cn, hcn⟩ : ∃ cn, c.lh[c.rootOf l]? = some cn := ⟨c.lh[c.rootOf l], by rw [List.getElem?_eq_getElem rr1]⟩
      have hkne : E.enc k ≠ [] := by
        intro h0; have h1 := E.len k; rw [h0] at h1; have := E.pos; simp only [List.length_nil] at h1; omega
      obtain ⟨lh', full', hins, hpp⟩ := insertL_spec (E := E) ((E.enc k).length + 1) c.lh full (c.rootOf l) (E.enc k)
        (some ⟨k, v⟩) hr.ok ⟨cn, hcn⟩ (by rw [rr2, E.len]; simp) hkne (Nat.lt_succ_self _) ho
        ⟨⟨k, v⟩, rfl, by rw [rr2]; rfl⟩
      have hK : full (c.rootOf l) ++ E.enc k = E.enc k := by rw [rr2]; rfl
      obtain ⟨sp, hstr⟩ := hpp.str
      -- the views that gain the cached entry
      let Changed : Nat → Prop := fun x =>
        entR (look lh' (c.rootOf x) (E.enc k)) ≠ entR (look c.lh (c.rootOf x) (E.enc k))
      obtain ⟨sh1, hsh1⟩ : ∃ s : List Nat, ∀ x, x ∈ s ↔ (x ∈ a.blocks.map (·.label) ∧ Changed x) := by
        classical
        exact ⟨(a.blocks.map (·.label)).filter (fun x => decide (Changed x)), fun x => by simp⟩
      obtain ⟨sh2, hsh2⟩ : ∃ s : List Nat, ∀ x, x ∈ s ↔ (x = a.sl ∧ Changed a.sl) := by
        classical
        by_cases e : Changed a.sl
        · exact ⟨[a.sl], fun x => by simp [e]⟩
        · exact ⟨[], fun x => by simp [e]⟩
      have hslnl : findB a.blocks a.sl = none := findB_none_of (wf_label_ne hr.inv.wf)
      have heff := cache_fold_eff (l :: (sh1 ++ sh2)) a hd
      have haget : aGet a l k (sh1 ++ sh2) = ((l :: (sh1 ++ sh2)).foldl (fun s c => aCache s k c) a, a.disk k) := by
        unfold aGet; rw [hte]
      generalize ha'' : (l :: (sh1 ++ sh2)).foldl (fun s c => aCache s k c) a = a'' at heff haget
      have hinv'' : CInv a'' := by
        have := inv_get hr.inv l k (sh1 ++ sh2)
        rw [haget] at this; exact this
      refine ⟨{ c with lh := lh' }, sh1 ++ sh2, full', fun id o => vis (spo c.lh.length sp id) o, ?_, ?_⟩
      · unfold cGet
        rw [ho]
        simp only [dataOf, Option.bind_none, hd, hins, haget]
      rw [haget]
      show Rel E { c with lh := lh' } a'' full' _
      have hlive : ∀ x, (findB a''.blocks x).isSome ↔ (findB a.blocks x).isSome := by
        intro x; rw [heff.blk x, Option.isSome_map]
      have hOfeq : ∀ o, hOf a'' o = hOf a o := by
        intro o
        cases o with
        | none => exact heff.sh
        | some x =>
          simp only [hOf, heff.blk x]
          cases findB a.blocks x with
          | none => rfl
          | some y =>
            simp only [Option.map_some]
            split
            · exact cacheF_height k v y
            · rfl
      have hspo_old : ∀ id, id < c.lh.length → spo c.lh.length sp id = id := by
        intro id h; simp [spo, h]
      have hfullroot : ∀ rx, rx < c.lh.length → full rx = [] → full' rx = [] := by
        intro rx h1 h2
        have := hpp.pfx rx h1
        rw [h2] at this; exact List.eq_nil_of_prefix_nil this
      -- how a root's view changes
      have hrootsem : ∀ rx, rx < c.lh.length → full rx = [] → ∀ k',
          (k' ≠ k → entR (look lh' rx (E.enc k')) = entR (look c.lh rx (E.enc k'))) ∧
          (entR (look lh' rx (E.enc k)) ≠ entR (look c.lh rx (E.enc k)) →
            look c.lh rx (E.enc k) = .ok none ∧ entR (look lh' rx (E.enc k)) = .ok (some ⟨0, true, some ⟨k, v⟩⟩)) := by
        intro rx h1 h2 k'
        have hsem := fun kk => hpp.sem rx (E.enc kk) h1 (by rw [hfullroot rx h1 h2, h2])
          (by intro h0; have h3 := E.len kk; rw [h0] at h3; have := E.pos; simp only [List.length_nil] at h3; omega)
          (by rw [h2, E.len]; simp)
        constructor
        · intro hne
          rcases hsem k' with h | ⟨_, h, _⟩
          · exact h
          · rw [hK, h2] at h
            exact absurd (E.inj _ _ h) hne
        · intro hch
          rcases hsem k with h | ⟨q1, _, q3⟩
          · exact absurd h hch
          · exact ⟨q1, q3⟩
      have htblcases : ∀ (t : Nat → Option Entry) (rx : Nat), rx < c.lh.length → full rx = [] →
          (∀ k', TblRel k' (t k') (look c.lh rx (E.enc k'))) →
          (∀ k', TblRel k' (t k') (look lh' rx (E.enc k')) ∨ ¬ (entR (look lh' rx (E.enc k)) = entR (look c.lh rx (E.enc k)))) ∧
          ((entR (look lh' rx (E.enc k)) ≠ entR (look c.lh rx (E.enc k)) ∨
              (t k = none ∧ entR (look lh' rx (E.enc k)) = .ok (some ⟨0, true, some ⟨k, v⟩⟩))) →
            ∀ k', TblRel k' (cacheS k v t k') (look lh' rx (E.enc k'))) := by
        intro t rx h1 h2 hold
        constructor
        · intro k'
          by_cases e : entR (look lh' rx (E.enc k)) = entR (look c.lh rx (E.enc k))
          · left
            unfold TblRel
            by_cases ek : k' = k
            · subst ek; rw [e]; exact hold k'
            · rw [(hrootsem rx h1 h2 k').1 ek]; exact hold k'
          · exact Or.inr e
        · intro hch k'
          unfold TblRel cacheS
          by_cases ek : k' = k
          · subst ek
            have : t k' = none ∧ entR (look lh' rx (E.enc k')) = .ok (some ⟨0, true, some ⟨k', v⟩⟩) := by
              rcases hch with hch | hch
              · obtain ⟨q1, q3⟩ := (hrootsem rx h1 h2 k').2 hch
                refine ⟨?_, q3⟩
                have := hold k'
                unfold TblRel at this
                rw [q1] at this
                cases htk : t k' with
                | none => rfl
                | some e => rw [htk] at this; cases this
              · exact hch
            rw [this.2]
            simp [this.1, entOf]
          · have : ¬ (k' = k ∧ t k = none) := fun h => ek h.1
            rw [if_neg this, (hrootsem rx h1 h2 k').1 ek]
            exact hold k'
      refine ⟨hinv'', hpp.ok, ?_, ?_, ?_, ?_, ?_, ?_, ?_, ?_, ?_⟩
      · intro x; rw [hlive]; exact hr.live x
      · have h1 := hr.sroot.1
        refine ⟨show c.sroot < lh'.length by have := hpp.len; omega, hfullroot _ h1 hr.sroot.2.1, ?_⟩
        show vis (spo c.lh.length sp c.sroot) none
        rw [hspo_old _ h1]; exact hr.sroot.2.2
      · intro x rx hx
        obtain ⟨a1, a2, a3⟩ := hr.root x rx hx
        refine ⟨show rx < lh'.length by have := hpp.len; omega, hfullroot _ a1 a2, ?_⟩
        show vis (spo c.lh.length sp rx) (some x)
        rw [hspo_old _ a1]; exact a3
      · intro id n' x o hv hn' hx
        obtain ⟨np, q1, _, q3⟩ := hstr id n' hn'
        show vis (spo c.lh.length sp x) o
        rcases q3 x hx with ⟨h1, h2⟩ | ⟨h1, h2⟩
        · rw [hspo_old x h1]; exact hr.closed _ np x o hv q1 h2
        · have : spo c.lh.length sp x = sp x := by simp [spo]; omega
          rw [this, h2]; exact hv
      · intro id x hv
        rw [hlive]; exact hr.vlive _ x hv
      · intro id n' o hv hn'
        rw [hOfeq]
        obtain ⟨np, q1, q2, _⟩ := hstr id n' hn'
        rcases q2 with q2 | ⟨q2, _⟩
        · rw [q2]; exact hr.dye _ np o hv q1
        · rw [q2]; exact Nat.zero_le _
      · intro id n' x bx'' o hv hn' hbx hdy hvo hne
        rw [heff.hc]
        obtain ⟨np, q1, q2, _⟩ := hstr id n' hn'
        rw [heff.blk x] at hbx
        cases hbx0 : findB a.blocks x with
        | none => rw [hbx0] at hbx; cases hbx
        | some bx =>
          rw [hbx0] at hbx
          simp only [Option.map_some, Option.some.injEq] at hbx
          have hht : bx''.height = bx.height := by
            rw [← hbx]; split
            · exact cacheF_height k v bx
            · rfl
          rcases q2 with q2 | ⟨q2, _⟩
          · exact hr.excl _ np x bx o hv q1 hbx0 (by rw [← q2, hdy, hht]) hvo hne
          · exfalso
            have := wf_height hr.inv.wf bx (findB_some hbx0).1
            omega
      · -- tables of the live blocks
        intro x rx bx'' hx hbx k'
        show TblRel k' (bx''.tbl k') (look lh' rx (E.enc k'))
        obtain ⟨a1, a2, a3⟩ := hr.root x rx hx
        rw [heff.blk x] at hbx
        cases hbx0 : findB a.blocks x with
        | none => rw [hbx0] at hbx; cases hbx
        | some bx =>
          rw [hbx0] at hbx
          simp only [Option.map_some, Option.some.injEq] at hbx
          have hx' : c.roots x = some rx := hx
          have hrootx : c.rootOf x = rx := by simp [CSt.rootOf, hx']
          obtain ⟨T1, T2⟩ := htblcases bx.tbl rx a1 a2 (hr.tbl x rx bx hx hbx0)
          by_cases hmem : x ∈ l :: (sh1 ++ sh2)
          · rw [if_pos hmem] at hbx
            subst hbx
            rw [cacheF_tbl]
            apply T2
            rcases List.mem_cons.mp hmem with rfl | hmem'
            · right
              have : tblOf a x k = bx.tbl k := by simp [tblOf, hbx0]
              rw [this] at hte
              refine ⟨hte, ?_⟩
              have := hpp.hit
              rw [hrootx] at this; exact this
            · left
              rcases List.mem_append.mp hmem' with h | h
              · have := ((hsh1 x).mp h).2
                show entR (look lh' rx (E.enc k)) ≠ _
                rw [← hrootx]; exact this
              · have := ((hsh2 x).mp h).1
                rw [this, hslnl] at hbx0; cases hbx0
          · rw [if_neg hmem] at hbx
            subst hbx
            rcases T1 k' with h | h
            · exact h
            · exfalso
              apply hmem
              apply List.mem_cons_of_mem
              apply List.mem_append_left
              rw [hsh1]
              refine ⟨findB_label_mem hbx0, ?_⟩
              show entR (look lh' (c.rootOf x) (E.enc k)) ≠ _
              rw [hrootx]; exact h
      · -- the stable table
        intro k'
        show TblRel k' (a''.stbl k') (look lh' c.sroot (E.enc k'))
        obtain ⟨T1, T2⟩ := htblcases a.stbl c.sroot hr.sroot.1 hr.sroot.2.1 hr.stbl
        have hrootnl : ∀ x, findB a.blocks x = none → c.rootOf x = c.sroot := by
          intro x hx
          have : c.roots x = none := by
            cases h : c.roots x with
            | none => rfl
            | some r =>
              have := (hr.live x).mp (by rw [h]; rfl)
              rw [hx] at this; cases this
          simp [CSt.rootOf, this]
        by_cases hex : ∃ y ∈ l :: (sh1 ++ sh2), findB a.blocks y = none
        · rw [heff.st1 hex]
          apply T2
          obtain ⟨y, hy, hyn⟩ := hex
          rcases List.mem_cons.mp hy with rfl | hy'
          · right
            have : tblOf a y k = a.stbl k := by simp [tblOf, hyn]
            rw [this] at hte
            refine ⟨hte, ?_⟩
            have := hpp.hit
            rw [hrootnl y hyn] at this; exact this
          · left
            rcases List.mem_append.mp hy' with h | h
            · obtain ⟨h1, _⟩ := (hsh1 y).mp h
              obtain ⟨b0, hb0, hb1⟩ := List.mem_map.mp h1
              have := findB_of_mem hr.inv.wf b0 hb0
              rw [hb1, hyn] at this; cases this
            · have := ((hsh2 y).mp h).2
              show entR (look lh' c.sroot (E.enc k)) ≠ _
              rw [← hrootnl a.sl hslnl]; exact this
        · rw [heff.st0 hex]
          rcases T1 k' with h | h
          · exact h
          · exfalso
            apply hex
            refine ⟨a.sl, ?_, hslnl⟩
            apply List.mem_cons_of_mem
            apply List.mem_append_right
            rw [hsh2]
            refine ⟨rfl, ?_⟩
            show entR (look lh' (c.rootOf a.sl) (E.enc k)) ≠ _
            rw [hrootnl a.sl hslnl]; exact h

end LemoProofs.CowHeapL

/-
  C09 (heap refinement, part 3): `find`, `insert` and the repaired `put` of the array-level heap model
  are simulated by `findL`, `insertL`, `putL` on `labs h`, and preserve the ownership invariant `HOk`.
-/
import LemoProofs.Lemmas.CowHeapAbs
set_option linter.unusedSimpArgs false
set_option linter.unusedVariables false
namespace LemoProofs.CowHeapL
open LemoModel.CowTrie

@[simp] theorem bind_ok {α β : Type} (a : α) (f : α → Res β) : (Res.ok a >>= f) = f a := rfl
@[simp] theorem bind_panic {α β : Type} (f : α → Res β) : ((Res.panic : Res α) >>= f) = Res.panic := rfl
@[simp] theorem bind_stuck {α β : Type} (f : α → Res β) : ((Res.stuck : Res α) >>= f) = Res.stuck := rfl

theorem scan_sim (h : Heap) (key : Key) : ∀ (ks : List Nat) (i : Nat), scan h key ks i = scanL (labs h) key ks i
  | [], _ => rfl
  | c :: cs, i => by
    unfold scan scanL
    rw [labs_get]
    cases hc : h.nodes[c]? with
    | none => rfl
    | some ch =>
      simp only [Option.map_some]
      have : (absN h.arrs ch).key = ch.key := rfl
      rw [this, scan_sim h key cs (i + 1)]
      rfl

theorem find_sim {h : Heap} (hok : HOk h) : ∀ (fuel cur : Nat) (key : Key),
    find fuel h cur key = mapRes dataOf (findL fuel (labs h) cur key)
  | 0, _, _ => rfl
  | fuel + 1, cur, key => by
    unfold find findL getNode
    rw [labs_get]
    cases hn : h.nodes[cur]? with
    | none => rfl
    | some n =>
      simp only [Option.map_some, bind_ok]
      rw [hok.kids hn, bind_ok, scan_sim]
      have : (absN h.arrs n).kids = kidsD h.arrs n := rfl
      rw [this]
      cases hsc : scanL (labs h) key (kidsD h.arrs n) 0 with
      | none => rfl
      | before i => rfl
      | panic => rfl
      | stuck => rfl
      | «at» i c j =>
        simp only
        rw [labs_get]
        cases hc : h.nodes[c]? with
        | none => rfl
        | some ch =>
          simp only [Option.map_some, bind_ok]
          have e1 : (absN h.arrs ch).key = ch.key := rfl
          rw [e1]
          by_cases h1 : j = min ch.key.length key.length
          · simp only [h1, if_true]
            by_cases h2 : key.length = ch.key.length
            · simp only [h2, if_true]
              rfl
            · simp only [h2, if_false]
              by_cases h3 : key.length > ch.key.length
              · simp only [h3, if_true]
                rw [← h1]
                exact find_sim hok fuel c (key.drop j)
              · simp only [h3, if_false]; rfl
          · simp only [h1, if_false]; rfl


theorem node_lt {h : Heap} {id : Nat} {n : Node} (hn : h.nodes[id]? = some n) : id < h.nodes.length := by
  by_cases x : id < h.nodes.length
  · exact x
  · rw [List.getElem?_eq_none (by omega)] at hn; cases hn

theorem insert_sim : ∀ (fuel : Nat) {h : Heap} (hok : HOk h) (cur : Nat) (key : Key) (data : Option Data) (lh' : LHeap),
    insertL fuel (labs h) cur key data = some lh' →
    ∃ h', LemoModel.CowTrie.insert fuel h cur key data = .ok h' ∧ HOk h' ∧ labs h' = lh'
  | 0, _, _, _, _, _, _, hl => by cases hl
  | fuel + 1, h, hok, cur, key, data, lh', hl => by
    unfold insertL at hl
    unfold LemoModel.CowTrie.insert getNode
    rw [labs_get] at hl
    cases hn : h.nodes[cur]? with
    | none => rw [hn] at hl; cases hl
    | some cn =>
      rw [hn] at hl
      simp only [Option.map_some, bind_ok] at hl ⊢
      rw [hok.kids hn, bind_ok, scan_sim]
      have ek : (absN h.arrs cn).kids = kidsD h.arrs cn := rfl
      rw [ek] at hl
      have hcur := node_lt hn
      cases hsc : scanL (labs h) key (kidsD h.arrs cn) 0 with
      | panic => rw [hsc] at hl; cases hl
      | stuck => rw [hsc] at hl; cases hl
      | none =>
        rw [hsc] at hl
        simp only [Option.some.injEq] at hl ⊢
        obtain ⟨a1, a2, a3⟩ := C_leaf hok key 0 data
        have hn1 : (allocNode h (leaf key 0 data)).1.nodes[cur]? = some cn := by
          show (h.nodes ++ [leaf key 0 data])[cur]? = some cn
          rw [List.getElem?_append_left hcur]; exact hn
        obtain ⟨b1, b2⟩ := C_append a1 hn1 (allocNode h (leaf key 0 data)).2 cn
        refine ⟨_, rfl, b1, ?_⟩
        rw [b2, a2, a3, ← hl]
        rfl
      | before i =>
        rw [hsc] at hl
        simp only at hl ⊢
        by_cases hi : i > (kidsD h.arrs cn).length
        · simp only [hi, if_true] at hl; cases hl
        · simp only [hi, if_false, Option.some.injEq] at hl
          obtain ⟨a1, a2, a3⟩ := C_leaf hok key 0 data
          have hn1 : (allocNode h (leaf key 0 data)).1.nodes[cur]? = some cn := by
            show (h.nodes ++ [leaf key 0 data])[cur]? = some cn
            rw [List.getElem?_append_left hcur]; exact hn
          obtain ⟨h2, a, e, b⟩ := C_insert a1 hn1 i (allocNode h (leaf key 0 data)).2 (by
            show i ≤ (kidsD h.arrs cn).length
            omega)
          obtain ⟨b1, b2⟩ := b cn
          refine ⟨setNode h2 cur { cn with arr := a, len := cn.len + 1 }, ?_, b1, ?_⟩
          · show (sliceInsert (allocNode h (leaf key 0 data)).1 cn.arr cn.len i (allocNode h (leaf key 0 data)).2 >>= _) = _
            rw [e]; rfl
          · rw [b2, a2, a3, ← hl]
            rfl
      | «at» i c j =>
        rw [hsc] at hl
        simp only at hl ⊢
        rw [labs_get] at hl
        cases hc : h.nodes[c]? with
        | none => rw [hc] at hl; cases hl
        | some ch =>
          rw [hc] at hl
          simp only [Option.map_some, bind_ok] at hl ⊢
          have e1 : (absN h.arrs ch).key = ch.key := rfl
          have e2 : (absN h.arrs ch).terminal = ch.terminal := rfl
          rw [e1] at hl
          by_cases h1 : j = min ch.key.length key.length
          · simp only [h1, if_true] at hl ⊢
            by_cases h2 : key.length = ch.key.length
            · simp only [h2, if_true] at hl ⊢
              rw [e2] at hl
              cases h3 : ch.terminal with
              | true =>
                rw [h3] at hl
                simp only [if_true, Option.some.injEq] at hl ⊢
                exact ⟨h, rfl, hok, hl⟩
              | false =>
                rw [h3] at hl
                simp only [Bool.false_eq_true, if_false, Option.some.injEq] at hl ⊢
                obtain ⟨b1, b2⟩ := C_setRec hok hc { ch with terminal := true, data := data }
                refine ⟨_, rfl, b1, ?_⟩
                rw [b2, ← hl]; rfl
            · simp only [h2, if_false] at hl ⊢
              by_cases h3 : key.length > ch.key.length
              · simp only [h3, if_true] at hl ⊢
                rw [← h1] at hl ⊢
                exact insert_sim fuel hok c (key.drop j) data lh' hl
              · simp only [h3, if_false] at hl; cases hl
          · simp only [h1, if_false] at hl ⊢
            rw [labs_length] at hl
            cases ht : two (key.drop j) (ch.key.drop j) (h.nodes.length + 1) h.nodes.length with
            | none => rw [ht] at hl; cases hl
            | some tk =>
              rw [ht] at hl
              simp only [Option.some.injEq] at hl
              obtain ⟨h3, a, e, b⟩ := C_move hok hc
                { key := ch.key.drop j, dye := ch.dye, terminal := ch.terminal, data := ch.data, arr := ch.arr, len := ch.len }
                ⟨rfl, rfl⟩ (key.drop j) data (x := (allocNode (allocNode h
                  { key := ch.key.drop j, dye := ch.dye, terminal := ch.terminal, data := ch.data, arr := ch.arr, len := ch.len }).1
                  (leaf (key.drop j) 0 data)).2) (y := (allocNode h
                  { key := ch.key.drop j, dye := ch.dye, terminal := ch.terminal, data := ch.data, arr := ch.arr, len := ch.len }).2)
                  (by simpa [allocNode] using ht)
              obtain ⟨b1, b2⟩ := b { ch with key := ch.key.take j, terminal := false }
              refine ⟨setNode h3 c { ch with key := ch.key.take j, terminal := false, arr := a, len := 2 }, ?_, b1, ?_⟩
              · show (twoKids _ (key.drop j) (ch.key.drop j) _ _ >>= _) = _
                rw [e]; rfl
              · rw [b2, ← hl]; rfl


theorem set_last {α : Type} (l : List α) (a b : α) : (l ++ [a]).set l.length b = l ++ [b] := by
  rw [List.set_append_right _ _ (Nat.le_refl _)]
  simp

theorem set_set_same {α : Type} (l : List α) (i : Nat) (a b : α) : (l.set i a).set i b = l.set i b := by
  simp

theorem replace_sim {h : Heap} (hok : HOk h) (cur i x dye : Nat) (lh' : LHeap) (res : Option Nat)
    (hl : replaceL (labs h) cur i x dye = some (lh', res)) :
    ∃ h', replaceChild h cur i x dye = .ok (h', res) ∧ HOk h' ∧ labs h' = lh' := by
  unfold replaceL at hl
  unfold replaceChild getNode
  rw [labs_get] at hl
  cases hn : h.nodes[cur]? with
  | none => rw [hn] at hl; cases hl
  | some cn =>
    rw [hn] at hl
    simp only [Option.map_some, bind_ok] at hl ⊢
    have ek : (absN h.arrs cn).kids = kidsD h.arrs cn := rfl
    have ed : (absN h.arrs cn).dye = cn.dye := rfl
    rw [ek, ed] at hl
    have hlen : (kidsD h.arrs cn).length = cn.len := (hok.slice hn).2
    by_cases hi : i < (kidsD h.arrs cn).length
    · simp only [hi, if_true] at hl
      have hi' : i < cn.len := by omega
      by_cases hd : cn.dye = dye
      · subst hd
        simp only [if_true, Option.some.injEq, Prod.mk.injEq] at hl ⊢
        obtain ⟨hl1, hl2⟩ := hl
        simp only [hi', if_true]
        obtain ⟨b1, b2⟩ := C_setCell hok hn i x hi'
        subst hl2
        refine ⟨_, rfl, b1, ?_⟩
        rw [b2, ← hl1]; rfl
      · simp only [hd, if_false, Option.some.injEq, Prod.mk.injEq] at hl ⊢
        obtain ⟨hl1, hl2⟩ := hl
        obtain ⟨h1, c1, c2, c3⟩ := C_cloneNode hok hn
        rw [c1, bind_ok]
        simp only
        have hget : (labs h1)[(labs h).length]? = some (absN h.arrs cn) := by
          rw [c3]; simp
        obtain ⟨tn, t1, t2⟩ := nodes_of_labs hget
        rw [t1]
        simp only [bind_ok]
        have tk : kidsD h1.arrs tn = kidsD h.arrs cn := congrArg LN.kids t2
        have tlen : tn.len = cn.len := by rw [← (c2.slice t1).2, tk, hlen]
        have hi2 : i < tn.len := by omega
        simp only [hi2, if_true]
        obtain ⟨d1, d2⟩ := C_setRec c2 t1 { tn with dye := dye }
        have t1' : (setNode h1 (labs h).length { tn with dye := dye }).nodes[(labs h).length]? = some { tn with dye := dye } := by
          show (h1.nodes.set _ _)[_]? = _
          rw [List.getElem?_set]
          simp [node_lt t1]
        obtain ⟨f1, f2⟩ := C_setCell d1 t1' i x hi2
        subst hl2
        refine ⟨_, rfl, f1, ?_⟩
        rw [f2, d2, c3, set_set_same, set_last, ← hl1]
        congr 1
        show [(⟨tn.key, dye, tn.data, tn.terminal, (kidsD h1.arrs tn).set i x⟩ : LN)] = _
        rw [tk, ← t2]
        rfl
    · simp only [hi, if_false] at hl; cases hl


theorem C_cloneGet {h : Heap} (hok : HOk h) {id : Nat} {n : Node} (hn : h.nodes[id]? = some n) :
    ∃ h1 tn, cloneNode h id = .ok (h1, (labs h).length) ∧ HOk h1 ∧ labs h1 = labs h ++ [absN h.arrs n] ∧
      h1.nodes[(labs h).length]? = some tn ∧ absN h1.arrs tn = absN h.arrs n := by
  obtain ⟨h1, c1, c2, c3⟩ := C_cloneNode hok hn
  have hget : (labs h1)[(labs h).length]? = some (absN h.arrs n) := by
    rw [c3]; simp
  obtain ⟨tn, t1, t2⟩ := nodes_of_labs hget
  exact ⟨h1, tn, c1, c2, c3, t1, t2⟩

theorem get_alloc_old {h : Heap} {id : Nat} {n : Node} (hn : h.nodes[id]? = some n) (x : Node) :
    (allocNode h x).1.nodes[id]? = some n := by
  show (h.nodes ++ [x])[id]? = some n
  rw [List.getElem?_append_left (node_lt hn)]; exact hn

theorem put_sim : ∀ (fuel : Nat) {h : Heap} (hok : HOk h) (cur : Nat) (key : Key) (data : Option Data) (dye : Nat)
    (lh' : LHeap) (res : Option Nat),
    putL fuel (labs h) cur key data dye = some (lh', res) →
    ∃ h', putG true fuel h cur key data dye = .ok (h', res) ∧ HOk h' ∧ labs h' = lh'
  | 0, _, _, _, _, _, _, _, _, hl => by cases hl
  | fuel + 1, h, hok, cur, key, data, dye, lh', res, hl => by
    unfold putL at hl
    unfold putG getNode
    rw [labs_get] at hl
    cases hn : h.nodes[cur]? with
    | none => rw [hn] at hl; cases hl
    | some cn =>
      rw [hn] at hl
      simp only [Option.map_some, bind_ok] at hl ⊢
      rw [hok.kids hn, bind_ok, scan_sim]
      have ek : (absN h.arrs cn).kids = kidsD h.arrs cn := rfl
      have ed : (absN h.arrs cn).dye = cn.dye := rfl
      rw [ek, ed] at hl
      have hcur := node_lt hn
      cases hsc : scanL (labs h) key (kidsD h.arrs cn) 0 with
      | panic => rw [hsc] at hl; cases hl
      | stuck => rw [hsc] at hl; cases hl
      | none =>
        rw [hsc] at hl
        simp only at hl ⊢
        obtain ⟨a1, a2, a3⟩ := C_leaf hok key dye data
        have hn1 := get_alloc_old hn (leaf key dye data)
        by_cases hd : cn.dye = dye
        · subst hd
          simp only [if_true, Option.some.injEq, Prod.mk.injEq] at hl ⊢
          obtain ⟨hl1, hl2⟩ := hl
          subst hl2
          obtain ⟨b1, b2⟩ := C_append a1 hn1 (allocNode h (leaf key cn.dye data)).2 cn
          refine ⟨_, rfl, b1, ?_⟩
          rw [b2, a2, a3, ← hl1]
          rfl
        · simp only [hd, if_false, Option.some.injEq, Prod.mk.injEq] at hl ⊢
          obtain ⟨hl1, hl2⟩ := hl
          subst hl2
          obtain ⟨h2, tn, c1, c2, c3, c4, c5⟩ := C_cloneGet a1 hn1
          rw [c1, bind_ok]
          simp only
          rw [c4]
          simp only [bind_ok]
          obtain ⟨b1, b2⟩ := C_append c2 c4 (allocNode h (leaf key dye data)).2 { tn with dye := dye }
          have e3 : (labs (allocNode h (leaf key dye data)).1).length = (labs h).length + 1 := by rw [a2]; simp
          refine ⟨_, ?_, b1, ?_⟩
          · rw [e3]
          · rw [b2, c3, a2, a3, ← hl1]
            rw [set_last, List.append_assoc]
            have k1 : kidsD h2.arrs tn = kidsD h.arrs cn := congrArg LN.kids c5
            have k2 : tn.key = cn.key := congrArg LN.key c5
            have k3 : tn.data = cn.data := congrArg LN.data c5
            have k4 : tn.terminal = cn.terminal := congrArg LN.terminal c5
            dsimp only
            rw [k1, k2, k3, k4]
            rfl
      | before i =>
        rw [hsc] at hl
        simp only at hl ⊢
        by_cases hi : i > (kidsD h.arrs cn).length
        · simp only [hi, if_true] at hl; cases hl
        · simp only [hi, if_false] at hl
          obtain ⟨a1, a2, a3⟩ := C_leaf hok key dye data
          have hn1 := get_alloc_old hn (leaf key dye data)
          by_cases hd : cn.dye = dye
          · subst hd
            simp only [if_true, Option.some.injEq, Prod.mk.injEq] at hl ⊢
            obtain ⟨hl1, hl2⟩ := hl
            subst hl2
            obtain ⟨h2, a, e, b⟩ := C_insert a1 hn1 i (allocNode h (leaf key cn.dye data)).2 (by
              show i ≤ (kidsD h.arrs cn).length
              omega)
            obtain ⟨b1, b2⟩ := b cn
            refine ⟨setNode h2 cur { cn with arr := a, len := cn.len + 1 }, ?_, b1, ?_⟩
            · show (sliceInsert (allocNode h (leaf key cn.dye data)).1 cn.arr cn.len i (allocNode h (leaf key cn.dye data)).2 >>= _) = _
              rw [e]; rfl
            · rw [b2, a2, a3, ← hl1]
              rfl
          · simp only [hd, if_false, Option.some.injEq, Prod.mk.injEq] at hl ⊢
            obtain ⟨hl1, hl2⟩ := hl
            subst hl2
            obtain ⟨h2, tn, c1, c2, c3, c4, c5⟩ := C_cloneGet a1 hn1
            rw [c1, bind_ok]
            simp only
            rw [c4]
            simp only [bind_ok]
            have k1 : kidsD h2.arrs tn = kidsD h.arrs cn := congrArg LN.kids c5
            have k2 : tn.key = cn.key := congrArg LN.key c5
            have k3 : tn.data = cn.data := congrArg LN.data c5
            have k4 : tn.terminal = cn.terminal := congrArg LN.terminal c5
            obtain ⟨h3, a, e, b⟩ := C_insert c2 c4 i (allocNode h (leaf key dye data)).2 (by
              rw [k1]; omega)
            obtain ⟨b1, b2⟩ := b { tn with dye := dye }
            have e3 : (labs (allocNode h (leaf key dye data)).1).length = (labs h).length + 1 := by rw [a2]; simp
            refine ⟨setNode h3 (labs (allocNode h (leaf key dye data)).1).length { tn with arr := a, len := tn.len + 1, dye := dye }, ?_, b1, ?_⟩
            · rw [e, bind_ok, e3]
            · rw [b2, c3, a2, a3, ← hl1]
              rw [set_last, List.append_assoc]
              dsimp only
              rw [k1, k2, k3, k4]
              rfl
      | «at» i c j =>
        rw [hsc] at hl
        simp only at hl ⊢
        rw [labs_get] at hl
        cases hc : h.nodes[c]? with
        | none => rw [hc] at hl; cases hl
        | some ch =>
          rw [hc] at hl
          simp only [Option.map_some, bind_ok] at hl ⊢
          have e1 : (absN h.arrs ch).key = ch.key := rfl
          have e2 : (absN h.arrs ch).dye = ch.dye := rfl
          rw [e1] at hl
          by_cases h1 : j = min ch.key.length key.length
          · simp only [h1, if_true] at hl ⊢
            by_cases h2 : key.length = ch.key.length
            · simp only [h2, if_true] at hl ⊢
              rw [e2] at hl
              by_cases h3 : ch.dye = dye
              · simp only [h3, if_true, Option.some.injEq, Prod.mk.injEq] at hl ⊢
                obtain ⟨hl1, hl2⟩ := hl
                subst hl2
                exact ⟨h, rfl, hok, hl1⟩
              · simp only [h3, if_false] at hl ⊢
                obtain ⟨h1', tcn, c1, c2, c3, c4, c5⟩ := C_cloneGet hok hc
                rw [c1, bind_ok]
                simp only
                rw [c4]
                simp only [bind_ok]
                obtain ⟨d1, d2⟩ := C_setRec c2 c4 { tcn with dye := dye, data := data, terminal := true }
                have k1 : kidsD h1'.arrs tcn = kidsD h.arrs ch := congrArg LN.kids c5
                have k2 : tcn.key = ch.key := congrArg LN.key c5
                have hl' : replaceL (labs (setNode h1' (labs h).length
                    { tcn with dye := dye, data := data, terminal := true })) cur i (labs h).length dye = some (lh', res) := by
                  rw [← hl]
                  congr 1
                  show labs (setNode h1' (labs h).length { tcn with dye := dye, data := data, terminal := true, arr := tcn.arr, len := tcn.len }) = _
                  rw [d2, c3, set_last]
                  dsimp only
                  rw [k1, k2]
                  rfl
                exact replace_sim d1 cur i (labs h).length dye lh' res hl'
            · simp only [h2, if_false] at hl ⊢
              by_cases h3 : key.length > ch.key.length
              · simp only [h3, if_true] at hl ⊢
                rw [← h1] at hl ⊢
                cases hp : putL fuel (labs h) c (key.drop j) data dye with
                | none => rw [hp] at hl; cases hl
                | some pr =>
                  obtain ⟨lh1, r1⟩ := pr
                  rw [hp] at hl
                  obtain ⟨h1', p1, p2, p3⟩ := put_sim fuel hok c (key.drop j) data dye lh1 r1 hp
                  rw [p1, bind_ok]
                  cases r1 with
                  | none =>
                    simp only [Option.some.injEq, Prod.mk.injEq] at hl ⊢
                    obtain ⟨hl1, hl2⟩ := hl
                    subst hl2
                    exact ⟨h1', rfl, p2, p3.trans hl1⟩
                  | some rr =>
                    simp only at hl ⊢
                    rw [← p3] at hl
                    exact replace_sim p2 cur i rr dye lh' res hl
              · simp only [h3, if_false] at hl; cases hl
          · simp only [h1, if_false, if_true] at hl ⊢
            cases ht : two (key.drop j) (ch.key.drop j) ((labs h).length + 1) (labs h).length with
            | none => rw [ht] at hl; cases hl
            | some tk =>
              rw [ht] at hl
              simp only at hl
              obtain ⟨s1a, s1b, s1c⟩ := C_clone hok hc
                { key := ch.key.drop j, dye := ch.dye, terminal := ch.terminal, data := ch.data, arr := 0, len := 0 }
              dsimp only at s1a s1b s1c
              obtain ⟨s2a, s2b, s2c⟩ := C_leaf s1a (key.drop j) dye data
              have hcp : (copySlice h ch.arr ch.len).1.nodes = h.nodes := (copySlice_spec (arrs_pos hok) (hok.slice hc)).1
              have hc0 : (copySlice h ch.arr ch.len).1.nodes[c]? = some ch := by rw [hcp]; exact hc
              have hc2 := get_alloc_old (get_alloc_old hc0
                { key := ch.key.drop j, dye := ch.dye, terminal := ch.terminal, data := ch.data,
                  arr := (copySlice h ch.arr ch.len).2.1, len := (copySlice h ch.arr ch.len).2.2 }) (leaf (key.drop j) dye data)
              obtain ⟨H3, tcn, c1, c2, c3, c4, c5⟩ := C_cloneGet s2a hc2
              have ht' : two (key.drop j) (ch.key.drop j)
                  (allocNode (allocNode (copySlice h ch.arr ch.len).1
                    { key := ch.key.drop j, dye := ch.dye, terminal := ch.terminal, data := ch.data,
                      arr := (copySlice h ch.arr ch.len).2.1, len := (copySlice h ch.arr ch.len).2.2 }).1 (leaf (key.drop j) dye data)).2
                  (allocNode (copySlice h ch.arr ch.len).1
                    { key := ch.key.drop j, dye := ch.dye, terminal := ch.terminal, data := ch.data,
                      arr := (copySlice h ch.arr ch.len).2.1, len := (copySlice h ch.arr ch.len).2.2 }).2 = some tk := by
                rw [s2c, s1c, s1b]
                simpa using ht
              obtain ⟨H4, a, e, b⟩ := C_two c2 c4 ht'
              obtain ⟨b1, b2⟩ := b { tcn with key := ch.key.take j, dye := dye, terminal := false }
              have elen : (labs (allocNode (allocNode (copySlice h ch.arr ch.len).1
                    { key := ch.key.drop j, dye := ch.dye, terminal := ch.terminal, data := ch.data,
                      arr := (copySlice h ch.arr ch.len).2.1, len := (copySlice h ch.arr ch.len).2.2 }).1 (leaf (key.drop j) dye data)).1).length
                  = (labs h).length + 2 := by rw [s2b, s1b]; simp
              have k3 : tcn.data = ch.data := congrArg LN.data c5
              rw [elen] at b1 b2
              dsimp only at b1 b2
              have hl' : replaceL (labs (setNode H4 ((labs h).length + 2)
                  { tcn with key := ch.key.take j, dye := dye, terminal := false, arr := a, len := 2 }))
                  cur i ((labs h).length + 2) dye = some (lh', res) := by
                rw [← hl]
                congr 1
                rw [b2, c3, s2b, s1b]
                have : (labs h ++ [(⟨ch.key.drop j, ch.dye, ch.data, ch.terminal, kidsD h.arrs ch⟩ : LN)] ++
                    [lleaf (key.drop j) dye data]).length = (labs h).length + 2 := by simp
                rw [← this, set_last]
                rw [k3]
                simp only [List.append_assoc, List.cons_append, List.nil_append]
                rfl
              obtain ⟨h', r1, r2, r3⟩ := replace_sim b1 cur i ((labs h).length + 2) dye lh' res hl'
              refine ⟨h', ?_, r2, r3⟩
              rw [← r1]
              clear r1 r2 r3 hl' hl b1 b2
              rw [c1, bind_ok]
              simp only
              rw [c4]
              simp only [bind_ok]
              rw [e, bind_ok, elen]


/-! ### the top-level entry points -/

def findTopL (lh : LHeap) (root : Nat) (key : Key) : Res (Option LN) :=
  if key.length = 0 then .ok none else findL (key.length + 1) lh root key

theorem findTop_sim {h : Heap} (hok : HOk h) (root : Nat) (key : Key) :
    findTop h root key = mapRes dataOf (findTopL (labs h) root key) := by
  unfold findTop findTopL
  split
  · rfl
  · exact find_sim hok _ _ _

theorem putTop_sim {h : Heap} (hok : HOk h) (root : Nat) (key : Key) (data : Option Data) (dye : Nat)
    (lh' : LHeap) (r : Nat) (hl : putTopL (labs h) root key data dye = some (lh', r)) :
    ∃ h', putTopFixed h root key data dye = .ok (h', r) ∧ HOk h' ∧ labs h' = lh' := by
  unfold putTopL at hl
  unfold putTopFixed putTopG
  cases hp : putL (key.length + 1) (labs h) root key data dye with
  | none => rw [hp] at hl; cases hl
  | some pr =>
    obtain ⟨lh1, r1⟩ := pr
    rw [hp] at hl
    obtain ⟨h1, p1, p2, p3⟩ := put_sim _ hok root key data dye lh1 r1 hp
    rw [p1, bind_ok]
    cases r1 with
    | none =>
      simp only [Option.some.injEq, Prod.mk.injEq] at hl ⊢
      obtain ⟨hl1, hl2⟩ := hl
      subst hl2
      exact ⟨h1, rfl, p2, p3.trans hl1⟩
    | some rr =>
      simp only [Option.some.injEq, Prod.mk.injEq] at hl ⊢
      obtain ⟨hl1, hl2⟩ := hl
      subst hl2
      exact ⟨h1, rfl, p2, p3.trans hl1⟩

theorem HOk_empty : HOk Heap.empty where
  arr0 := rfl
  node := fun id n hn => by simp [Heap.empty] at hn
  own := fun i j ni nj hi => by simp [Heap.empty] at hi

theorem labs_empty : labs Heap.empty = [] := rfl

theorem newTrie_sim {h : Heap} (hok : HOk h) :
    HOk (newTrie h).1 ∧ labs (newTrie h).1 = labs h ++ [⟨[], 0, none, false, []⟩] ∧ (newTrie h).2 = (labs h).length := by
  have := HOk_alloc hok rfl (Nat.le_refl _) (fun _ _ => rfl)
    { key := [], dye := 0, data := none, terminal := false, arr := 0, len := 0 } []
    ⟨by simp, rfl⟩ (fun _ _ _ _ => rfl) (arrs_pos hok)
  rw [labs_length]
  exact this

end LemoProofs.CowHeapL

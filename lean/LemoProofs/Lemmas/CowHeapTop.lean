/-
  C09 (heap refinement, part 10): the array-level heap model `LemoModel.CowTrie` (repaired `put`), with one
  root per unconfirmed block, refines the abstract machine.  `HRel` = memory ownership `HOk` on the heap +
  the logical refinement relation `Rel` on its reading `labs`.
-/
import LemoProofs.Lemmas.CowHeapRel
import LemoProofs.Lemmas.CowHeapSim
set_option linter.unusedSimpArgs false
set_option linter.unusedVariables false
namespace LemoProofs.CowHeapL
open LemoModel.CowTrie LemoModel.CowSpec LemoProofs.CowSpecL

/-- heap-level state: the Go heap, `LastConfirm`'s trie root, the trie root of every unconfirmed block -/
structure HSt where
  heap : Heap
  sroot : Nat
  roots : Nat → Option Nat

def HSt.rootOf (s : HSt) (l : Nat) : Nat := (s.roots l).getD s.sroot

def HSt.abs (s : HSt) : CSt := ⟨labs s.heap, s.sroot, s.roots⟩

def dataK (k : Nat) (v : Nat) : Data := ⟨k, v⟩

/-- `SetBlock`: the child's `AccountTrieDB` is created over the parent's root (`NewActDatabase(parent.trie)`) -/
def hSetBlock (s : HSt) (l p : Nat) : HSt :=
  { s with roots := fun x => if x = l then some (s.rootOf p) else s.roots x }

/-- `GetActDatabase(l).Put(account, dye)`, by the model's `putTopFixed` -/
def hPut {L : Nat} (E : Enc L) (s : HSt) (l k v d : Nat) : Option HSt :=
  match s.roots l with
  | none => none
  | some r =>
    match putTopFixed s.heap r (E.enc k) (some (dataK k v)) d with
    | .ok (h', r') => some { s with heap := h', roots := fun x => if x = l then some r' else s.roots x }
    | _ => none

/-- `GetActDatabase(l).Get(address)`, by the model's `getTop` (with its read-through `insert`) -/
def hGet {L : Nat} (E : Enc L) (s : HSt) (l k : Nat) (disk : Option Nat) : Option (HSt × Option Nat) :=
  match getTop s.heap (s.rootOf l) (E.enc k) (disk.map (dataK k)) with
  | .ok (h', d) => some ({ s with heap := h' }, d.map (·.val))
  | _ => none

/-- one commit step of `SetStableBlock`: LastConfirm's trie becomes `l`'s, the roots of the pruned blocks are dropped -/
def hStable (s : HSt) (a' : ASt) (l : Nat) : HSt :=
  { s with sroot := s.rootOf l, roots := fun x => if (findB a'.blocks x).isSome then s.roots x else none }

/-- **the refinement invariant on heaps** -/
def HRel {L : Nat} (E : Enc L) (s : HSt) (a : ASt) : Prop :=
  HOk s.heap ∧ ∃ full vis, Rel E s.abs a full vis

theorem hrel_setBlock {L : Nat} {E : Enc L} {s : HSt} {a a' : ASt} (hr : HRel E s a) {l p h : Nat}
    (hs : aSetBlock a l p h = some a') : HRel E (hSetBlock s l p) a' := by
  obtain ⟨h1, full, vis, h2⟩ := hr
  obtain ⟨vis', h3⟩ := rel_setBlock h2 hs
  exact ⟨h1, full, vis', h3⟩

theorem hrel_stable {L : Nat} {E : Enc L} {s : HSt} {a a' : ASt} (hr : HRel E s a) {l : Nat}
    (hs : aStable a l = some a') : HRel E (hStable s a' l) a' := by
  obtain ⟨h1, full, vis, h2⟩ := hr
  obtain ⟨vis', h3⟩ := rel_stable h2 hs
  exact ⟨h1, full, vis', h3⟩

theorem hrel_put {L : Nat} {E : Enc L} {s : HSt} {a a' : ASt} (hr : HRel E s a) {l k v : Nat} {b : ABlk}
    (hs : aPut a l k v = some a') (hb : findB a.blocks l = some b) :
    ∃ s', hPut E s l k v b.height = some s' ∧ HRel E s' a' := by
  obtain ⟨h1, full, vis, h2⟩ := hr
  obtain ⟨c', full', vis', h3, h4⟩ := rel_put h2 hs hb
  unfold cPut at h3
  have hroots : s.abs.roots = s.roots := rfl
  have hlh : s.abs.lh = labs s.heap := rfl
  rw [hroots, hlh] at h3
  unfold hPut
  cases hrl : s.roots l with
  | none => rw [hrl] at h3; cases h3
  | some r =>
    rw [hrl] at h3
    simp only at h3 ⊢
    cases hp : putTopL (labs s.heap) r (E.enc k) (some ⟨k, v⟩) b.height with
    | none => rw [hp] at h3; cases h3
    | some pr =>
      obtain ⟨lh', r'⟩ := pr
      rw [hp] at h3
      simp only [Option.some.injEq] at h3
      obtain ⟨hh, p1, p2, p3⟩ := putTop_sim h1 r (E.enc k) (some ⟨k, v⟩) b.height lh' r' hp
      show ∃ s', (match putTopFixed s.heap r (E.enc k) (some ⟨k, v⟩) b.height with
        | .ok (h', r') => some { s with heap := h', roots := fun x => if x = l then some r' else s.roots x }
        | _ => none) = some s' ∧ _
      rw [p1]
      refine ⟨_, rfl, p2, full', vis', ?_⟩
      rw [← h3] at h4
      show Rel E ⟨labs hh, s.sroot, _⟩ a' full' vis'
      rw [p3]; exact h4

theorem hGet_sim {L : Nat} {E : Enc L} {s : HSt} (h1 : HOk s.heap) {l k : Nat} {disk : Option Nat} {c' : CSt}
    {val : Option Nat} (h3 : cGet E s.abs l k disk = some (c', val)) :
    ∃ s', hGet E s l k disk = some (s', val) ∧ HOk s'.heap ∧ s'.abs = c' := by
  have hkpos : (E.enc k).length ≠ 0 := by rw [E.len]; exact Nat.pos_iff_ne_zero.mp E.pos
  have hft : findTop s.heap (s.rootOf l) (E.enc k) = mapRes dataOf (look (labs s.heap) (s.rootOf l) (E.enc k)) := by
    rw [findTop_sim h1]
    unfold findTopL look
    rw [if_neg hkpos]
  unfold cGet at h3
  have e1 : s.abs.lh = labs s.heap := rfl
  have e2 : s.abs.rootOf l = s.rootOf l := rfl
  rw [e1, e2] at h3
  unfold hGet getTop
  rw [hft]
  cases hlk : look (labs s.heap) (s.rootOf l) (E.enc k) with
  | panic => rw [hlk] at h3; cases h3
  | stuck => rw [hlk] at h3; cases h3
  | ok o =>
    rw [hlk] at h3
    simp only [mapRes, bind_ok] at h3 ⊢
    cases hdo : dataOf o with
    | some d =>
      rw [hdo] at h3
      simp only [Option.some.injEq, Prod.mk.injEq] at h3
      obtain ⟨q1, q2⟩ := h3
      exact ⟨s, by simp [q2], h1, q1⟩
    | none =>
      rw [hdo] at h3
      simp only at h3 ⊢
      cases disk with
      | none =>
        simp only [Option.some.injEq, Prod.mk.injEq] at h3
        obtain ⟨q1, q2⟩ := h3
        subst q2
        exact ⟨s, rfl, h1, q1⟩
      | some v =>
        simp only at h3
        cases hi : insertL ((E.enc k).length + 1) (labs s.heap) (s.rootOf l) (E.enc k) (some ⟨k, v⟩) with
        | none => rw [hi] at h3; cases h3
        | some lh' =>
          rw [hi] at h3
          simp only [Option.some.injEq, Prod.mk.injEq] at h3
          obtain ⟨q1, q2⟩ := h3
          obtain ⟨hh, p1, p2, p3⟩ := insert_sim _ h1 (s.rootOf l) (E.enc k) (some ⟨k, v⟩) lh' hi
          refine ⟨{ s with heap := hh }, ?_, p2, ?_⟩
          · simp only [Option.map_some, dataK]
            rw [p1, bind_ok]
            simp [q2]
          · rw [← q1]
            show (⟨labs hh, s.sroot, s.roots⟩ : CSt) = _
            rw [p3]; rfl

theorem hrel_get {L : Nat} {E : Enc L} {s : HSt} {a : ASt} (hr : HRel E s a) (l k : Nat) :
    ∃ s' sharers, hGet E s l k (a.disk k) = some (s', (aGet a l k sharers).2) ∧ HRel E s' (aGet a l k sharers).1 := by
  obtain ⟨h1, full, vis, h2⟩ := hr
  obtain ⟨c', sharers, full', vis', h3, h4⟩ := rel_get h2 l k
  obtain ⟨s', q1, q2, q3⟩ := hGet_sim h1 h3
  exact ⟨s', sharers, q1, q2, full', vis', by rw [q3]; exact h4⟩


/-! ### the initial state -/

def hinit : HSt := ⟨(newTrie Heap.empty).1, (newTrie Heap.empty).2, fun _ => none⟩

theorem hrel_init {L : Nat} (E : Enc L) (sl sh : Nat) (disk : Nat → Option Nat) : HRel E hinit (init sl sh disk) := by
  obtain ⟨h1, h2, h3⟩ := newTrie_sim HOk_empty
  rw [labs_empty] at h2 h3
  simp only [List.nil_append, List.length_nil] at h2 h3
  refine ⟨h1, fun _ => [], fun id o => id = 0 ∧ o = none, ?_⟩
  have hlh : hinit.abs.lh = [⟨[], 0, none, false, []⟩] := h2
  have hsr : hinit.abs.sroot = 0 := h3
  have hget : ∀ id n, hinit.abs.lh[id]? = some n → id = 0 ∧ n = ⟨[], 0, none, false, []⟩ := by
    intro id n hn
    rw [hlh] at hn
    cases id with
    | zero => simp at hn; exact ⟨rfl, hn.symm⟩
    | succ j => simp at hn
  refine ⟨⟨trivial, fun b hb => by simp [init] at hb, fun b hb => by simp [init] at hb, fun k e he => by simp [init] at he⟩,
    ⟨?_, fun _ _ _ => Nat.zero_le _, ?_, ?_, ?_⟩, ?_, ?_, ?_, ?_, ?_, ?_, ?_, ?_, ?_⟩
  · intro id n c hn hc
    obtain ⟨_, rfl⟩ := hget id n hn
    cases hc
  · intro id n hn
    obtain ⟨_, rfl⟩ := hget id n hn
    exact List.Pairwise.nil
  · intro id n hn ht
    obtain ⟨_, rfl⟩ := hget id n hn
    cases ht
  · intro id n c nc hn hc
    obtain ⟨_, rfl⟩ := hget id n hn
    cases hc
  · intro l; show (none : Option Nat).isSome ↔ (findB [] l).isSome; simp [findB]
  · rw [hsr, hlh]; exact ⟨by simp, rfl, rfl, rfl⟩
  · intro l r hr; cases hr
  · intro id n x o _ hn hx
    obtain ⟨_, rfl⟩ := hget id n hn
    cases hx
  · intro id l hv; cases hv.2
  · intro id n o hv hn
    obtain ⟨_, rfl⟩ := hget id n hn
    exact Nat.zero_le _
  · intro id n l b o hv; cases hv.2
  · intro l r b hr; cases hr
  · intro k
    unfold TblRel
    have hr0 : hinit.abs.lh[hinit.abs.sroot]? = some ⟨[], 0, none, false, []⟩ := by rw [hsr, hlh]; rfl
    rw [look_step hr0]
    rfl

/-! ### what every view shows -/

theorem data_of_tbl {k : Nat} {te : Option Entry} {r : Res (Option LN)} (h : TblRel k te r) :
    mapRes dataOf r = .ok (te.map (fun e => dataK k e.val)) := by
  obtain ⟨o, rfl, ho⟩ := entR_ok h
  cases te with
  | none =>
    cases o with
    | none => rfl
    | some n => cases ho
  | some e =>
    cases o with
    | none => cases ho
    | some n =>
      simp only [Option.map_some, Option.some.injEq] at ho
      have h1 : n.terminal = true := congrArg Ent.terminal ho
      have h2 : n.data = some ⟨k, e.val⟩ := congrArg Ent.data ho
      simp [mapRes, dataOf, h1, h2, dataK]

/-- `GetTrie().Find` through the trie of ANY label is the abstract table lookup -/
theorem hrel_find {L : Nat} {E : Enc L} {s : HSt} {a : ASt} (hr : HRel E s a) (l k : Nat) :
    findTop s.heap (s.rootOf l) (E.enc k) = .ok ((tblOf a l k).map (fun e => dataK k e.val)) := by
  obtain ⟨h1, full, vis, h2⟩ := hr
  have hkpos : (E.enc k).length ≠ 0 := by rw [E.len]; exact Nat.pos_iff_ne_zero.mp E.pos
  rw [findTop_sim h1]
  unfold findTopL
  rw [if_neg hkpos]
  exact data_of_tbl (h2.view l k)

/-- what `Get` would return through the trie of any label (`Find`, else the persisted value) is `eff` -/
theorem hrel_peek {L : Nat} {E : Enc L} {s : HSt} {a : ASt} (hr : HRel E s a) (l k : Nat) :
    peekTop s.heap (s.rootOf l) (E.enc k) ((a.disk k).map (dataK k)) = .ok ((eff a l k).map (dataK k)) := by
  unfold peekTop
  rw [hrel_find hr l k, bind_ok]
  unfold eff
  cases tblOf a l k with
  | none => rfl
  | some e => rfl

/-! ### runs -/

/-- heap-level operations (no ghost sharer sets) -/
inductive COp where
  | setBlock (l p h : Nat)
  | put (l k v : Nat)
  | get (l k : Nat)
  | stable (l : Nat)

def eraseOp : Op → COp
  | .setBlock l p h => .setBlock l p h
  | .put l k v => .put l k v
  | .get l k _ => .get l k
  | .stable l => .stable l

def COp.fill : COp → List Nat → Op
  | .setBlock l p h, _ => .setBlock l p h
  | .put l k v, _ => .put l k v
  | .get l k, sh => .get l k sh
  | .stable l, _ => .stable l

theorem erase_fill (c : COp) (sh : List Nat) : eraseOp (c.fill sh) = c := by cases c <;> rfl

/-- one operation on the heap; the abstract state supplies only the control decisions (guards, the writer's
    height, the persisted value, which blocks survive a stabilisation) -/
def hstep {L : Nat} (E : Enc L) (s : HSt) (a : ASt) : COp → Option HSt
  | .setBlock l p h =>
    match aSetBlock a l p h with
    | some _ => some (hSetBlock s l p)
    | none => some s
  | .put l k v =>
    match aPut a l k v, findB a.blocks l with
    | some _, some b => hPut E s l k v b.height
    | _, _ => some s
  | .get l k => (hGet E s l k (a.disk k)).map (·.1)
  | .stable l =>
    match aStable a l with
    | some a' => some (hStable s a' l)
    | none => some s

theorem hstep_refines {L : Nat} {E : Enc L} {s : HSt} {a : ASt} (hr : HRel E s a) (cop : COp) :
    ∃ s' sharers, hstep E s a cop = some s' ∧ HRel E s' (stepOp a (cop.fill sharers)) := by
  cases cop with
  | setBlock l p h =>
    cases hs : aSetBlock a l p h with
    | none =>
      refine ⟨s, [], by simp [hstep, hs], ?_⟩
      show HRel E s ((aSetBlock a l p h).getD a)
      rw [hs]; exact hr
    | some a' =>
      refine ⟨hSetBlock s l p, [], by simp [hstep, hs], ?_⟩
      show HRel E _ ((aSetBlock a l p h).getD a)
      rw [hs]; exact hrel_setBlock hr hs
  | put l k v =>
    cases hs : aPut a l k v with
    | none =>
      refine ⟨s, [], by simp [hstep, hs], ?_⟩
      show HRel E s ((aPut a l k v).getD a)
      rw [hs]; exact hr
    | some a' =>
      obtain ⟨b, hb, _, _, _⟩ := aPut_eq hs
      obtain ⟨s', q1, q2⟩ := hrel_put hr hs hb
      refine ⟨s', [], by simp [hstep, hs, hb, q1], ?_⟩
      show HRel E _ ((aPut a l k v).getD a)
      rw [hs]; exact q2
  | get l k =>
    obtain ⟨s', sharers, q1, q2⟩ := hrel_get hr l k
    exact ⟨s', sharers, by simp [hstep, q1], q2⟩
  | stable l =>
    cases hs : aStable a l with
    | none =>
      refine ⟨s, [], by simp [hstep, hs], ?_⟩
      show HRel E s ((aStable a l).getD a)
      rw [hs]; exact hr
    | some a' =>
      refine ⟨hStable s a' l, [], by simp [hstep, hs], ?_⟩
      show HRel E _ ((aStable a l).getD a)
      rw [hs]; exact hrel_stable hr hs

/-- run the heap machine alongside an abstract run (whose `get`s carry the ghost sharer sets) -/
def hrun {L : Nat} (E : Enc L) : HSt → ASt → List Op → Option HSt
  | s, _, [] => some s
  | s, a, op :: ops =>
    match hstep E s a (eraseOp op) with
    | none => none
    | some s1 => hrun E s1 (stepOp a op) ops

/-- **refinement of runs**: for every sequence of heap-level operations there are sharer sets for its reads such
    that the heap run never fails (no Go panic, no stuck state) and ends in a state related to the abstract run -/
theorem hrun_refines {L : Nat} {E : Enc L} : ∀ (cops : List COp) {s : HSt} {a : ASt}, HRel E s a →
    ∃ ops, ops.map eraseOp = cops ∧ ∃ s', hrun E s a ops = some s' ∧ HRel E s' (run a ops)
  | [], s, a, hr => ⟨[], rfl, s, rfl, hr⟩
  | cop :: cops, s, a, hr => by
    obtain ⟨s1, sharers, q1, q2⟩ := hstep_refines hr cop
    obtain ⟨ops, e1, s', e2, e3⟩ := hrun_refines cops q2
    refine ⟨cop.fill sharers :: ops, by simp [erase_fill, e1], s', ?_, ?_⟩
    · show (match hstep E s a (eraseOp (cop.fill sharers)) with
        | none => none
        | some s1 => hrun E s1 (stepOp a (cop.fill sharers)) ops) = some s'
      rw [erase_fill, q1]; exact e2
    · exact e3

end LemoProofs.CowHeapL

/-
  C09 (heap refinement, part 8): facts about the abstract machine `LemoModel.CowSpec` needed by the
  refinement: lookups of blocks after each operation, children under pruning, the effect of a fold of
  cache placements.
-/
import LemoProofs.Lemmas.CowSpecPrune
set_option linter.unusedSimpArgs false
set_option linter.unusedVariables false
namespace LemoProofs.CowSpecL
open LemoModel.CowSpec

theorem findB_updB (bs : List ABlk) (l : Nat) (f : ABlk → ABlk) (hf : ∀ b, (f b).label = b.label) (x : Nat) :
    findB (updB bs l f) x = (findB bs x).map (fun b => if b.label = l then f b else b) := by
  induction bs with
  | nil => rfl
  | cons y older ih =>
    unfold updB at *
    simp only [List.map_cons]
    unfold findB
    have : (if y.label = l then f y else y).label = y.label := by split; exact hf y; rfl
    rw [this]
    by_cases e : y.label = x
    · simp [e]
    · simp only [e, if_false]; exact ih

theorem hasChild_cons (b : ABlk) (bs : List ABlk) (l : Nat) :
    hasChild (b :: bs) l = ((b.parent == l) || hasChild bs l) := by
  simp [hasChild]

theorem hasChild_of_mem {bs : List ABlk} {l : Nat} {z : ABlk} (hz : z ∈ bs) (hp : z.parent = l) : hasChild bs l = true := by
  unfold hasChild
  exact List.any_eq_true.mpr ⟨z, hz, by simp [hp]⟩

theorem mem_of_hasChild {bs : List ABlk} {l : Nat} (h : hasChild bs l = true) : ∃ z ∈ bs, z.parent = l := by
  unfold hasChild at h
  obtain ⟨z, hz, hp⟩ := List.any_eq_true.mp h
  exact ⟨z, hz, by simpa using hp⟩

theorem hasChild_updB (bs : List ABlk) (l : Nat) (f : ABlk → ABlk) (hf : ∀ b, (f b).parent = b.parent) (x : Nat) :
    hasChild (updB bs l f) x = hasChild bs x := by
  induction bs with
  | nil => rfl
  | cons y older ih =>
    unfold updB at *
    simp only [List.map_cons]
    rw [hasChild_cons, hasChild_cons, ih]
    have : (if y.label = l then f y else y).parent = y.parent := by split; exact hf y; rfl
    rw [this]

/-- a child of a descendant of `l` is a descendant of `l` -/
theorem desc_child {sl sh l : Nat} : ∀ {bs : List ABlk}, WF sl sh bs → ∀ {x : Nat} (z : ABlk), z ∈ bs → z.parent = x →
    (x = l ∨ desc bs l x = true) → desc bs l z.label = true
  | [], _, _, _, hz, _, _ => by cases hz
  | y :: older, hwf, x, z, hz, hzp, hx => by
    have hwf0 := hwf
    obtain ⟨h1, h2, h3, h4⟩ := hwf
    unfold desc
    rcases List.mem_cons.mp hz with rfl | hz'
    · simp only [if_true]
      rcases hx with rfl | hx
      · simp [hzp]
      · -- x is older than z
        unfold desc at hx
        have hne : z.label ≠ x := by
          rcases h4 with ⟨a, _⟩ | ⟨p, hp, hpl, _⟩
          · rw [← hzp, a]; exact h2
          · rw [← hzp, ← hpl]; exact fun e => h3 p hp e.symm
        simp only [hne, if_false] at hx
        rw [hzp, hx]; simp
    · have hne : y.label ≠ z.label := fun e => h3 z hz' e.symm
      simp only [hne, if_false]
      apply desc_child h1 z hz' hzp
      rcases hx with rfl | hx
      · exact Or.inl rfl
      · right
        unfold desc at hx
        by_cases e : y.label = x
        · -- then z (older) would have the newer y as parent
          exfalso
          rcases wf_parent_cases h1 z hz' with a | ⟨p, hp, hpl⟩
          · rw [hzp, ← e] at a; exact h2 a
          · rw [hzp, ← e] at hpl; exact h3 p hp hpl
        · simp only [e, if_false] at hx; exact hx

theorem findB_prune {sl sh sl' sh' l : Nat} {bs : List ABlk} (hwf : WF sl sh bs) (hwf' : WF sl' sh' (prune l bs))
    (x : Nat) (b : ABlk) :
    findB (prune l bs) x = some b ↔ findB bs x = some b ∧ x ≠ l ∧ desc bs l x = true := by
  constructor
  · intro h
    obtain ⟨hb, hbl⟩ := findB_some h
    obtain ⟨h1, h2, h3⟩ := (mem_prune_iff hwf b).mp hb
    rw [hbl] at h2 h3
    exact ⟨by rw [← hbl]; exact findB_of_mem hwf b h1, h2, h3⟩
  · rintro ⟨h1, h2, h3⟩
    obtain ⟨hb, hbl⟩ := findB_some h1
    have := mem_prune hwf b hb (by rw [hbl]; exact h2) (by rw [hbl]; exact h3)
    rw [← hbl]; exact findB_of_mem hwf' b this

theorem hasChild_prune {sl sh l x : Nat} {bs : List ABlk} (hwf : WF sl sh bs) (hx : desc bs l x = true)
    (h : hasChild bs x = true) : hasChild (prune l bs) x = true := by
  obtain ⟨z, hz, hp⟩ := mem_of_hasChild h
  have hd := desc_child hwf z hz hp (Or.inr hx)
  have hzl : z.label ≠ l := by
    intro e
    -- l would descend from itself
    have hdd : desc bs l l = true := by rw [e] at hd; exact hd
    clear hd hx h hp hz e
    induction bs with
    | nil => cases hdd
    | cons y older ih =>
      have hwf0 := hwf
      obtain ⟨h1, h2, h3, h4⟩ := hwf
      unfold desc at hdd
      by_cases e : y.label = l
      · simp only [e, if_true] at hdd
        rcases Bool.or_eq_true _ _ |>.mp hdd with q | q
        · have : y.parent = l := by simpa using q
          rcases h4 with ⟨a, _⟩ | ⟨p, hp, hpl, _⟩
          · rw [this] at a; rw [← e] at a; exact h2 a
          · rw [this, ← e] at hpl; exact h3 p hp hpl
        · exact desc_label_ne hwf0 q e
      · simp only [e, if_false] at hdd; exact ih h1 hdd
  exact hasChild_of_mem (mem_prune hwf z hz hzl hd) hp


/-! ### a fold of cache placements -/

def cacheS (k v : Nat) (t : Nat → Option Entry) : Nat → Option Entry :=
  fun k' => if k' = k ∧ t k = none then some ⟨v, 0⟩ else t k'

theorem cacheS_idem (k v : Nat) (t : Nat → Option Entry) : cacheS k v (cacheS k v t) = cacheS k v t := by
  funext k'
  unfold cacheS
  by_cases e : k' = k
  · subst e
    cases h : t k' <;> simp [h]
  · simp [e]

theorem cacheF_tbl (k v : Nat) (b : ABlk) : (cacheF k v b).tbl = cacheS k v b.tbl := by
  unfold cacheF cacheS
  cases h : b.tbl k with
  | none =>
    funext k'
    simp only [setT, h, and_true]
  | some e =>
    funext k'
    simp [h]

theorem cacheF_idem (k v : Nat) (b : ABlk) : cacheF k v (cacheF k v b) = cacheF k v b := by
  unfold cacheF
  cases h : b.tbl k with
  | none => simp [setT]
  | some e => simp [h]

structure CacheEff (k v : Nat) (cs : List Nat) (a a' : ASt) : Prop where
  sl : a'.sl = a.sl
  sh : a'.sh = a.sh
  disk : a'.disk = a.disk
  blk : ∀ x, findB a'.blocks x = (findB a.blocks x).map (fun b => if x ∈ cs then cacheF k v b else b)
  st1 : (∃ c ∈ cs, findB a.blocks c = none) → a'.stbl = cacheS k v a.stbl
  st0 : (¬ ∃ c ∈ cs, findB a.blocks c = none) → a'.stbl = a.stbl
  hc : ∀ x, hasChild a'.blocks x = hasChild a.blocks x

theorem CacheEff.nil (k v : Nat) (a : ASt) : CacheEff k v [] a a where
  sl := rfl
  sh := rfl
  disk := rfl
  blk := fun x => by cases findB a.blocks x <;> simp
  st1 := fun ⟨c, hc, _⟩ => by cases hc
  st0 := fun _ => rfl
  hc := fun _ => rfl

theorem aCache_eff {a : ASt} {k v : Nat} (hd : a.disk k = some v) (c : Nat) : CacheEff k v [c] a (aCache a k c) := by
  unfold aCache
  rw [hd]
  simp only
  cases hf : findB a.blocks c with
  | some bc =>
    simp only
    refine ⟨rfl, rfl, rfl, ?_, ?_, fun _ => rfl, ?_⟩
    · intro x
      show findB (updB a.blocks c (cacheF k v)) x = _
      rw [findB_updB _ _ _ (cacheF_label k v)]
      cases hx : findB a.blocks x with
      | none => rfl
      | some bx =>
        obtain ⟨_, hl⟩ := findB_some hx
        simp only [Option.map_some, List.mem_singleton, hl]
    · rintro ⟨c', hc', hn⟩
      simp only [List.mem_singleton] at hc'
      subst hc'
      rw [hf] at hn; cases hn
    · intro x
      show hasChild (updB a.blocks c _) x = _
      apply hasChild_updB
      intro b; split <;> rfl
  | none =>
    simp only
    have hblk : ∀ x, findB a.blocks x = (findB a.blocks x).map (fun b => if x ∈ [c] then cacheF k v b else b) := by
      intro x
      cases hx : findB a.blocks x with
      | none => rfl
      | some bx =>
        have : x ≠ c := by intro e; rw [e, hf] at hx; cases hx
        simp [this]
    cases hs : a.stbl k with
    | none =>
      simp only
      refine ⟨rfl, rfl, rfl, hblk, ?_, ?_, fun _ => rfl⟩
      · intro _
        show setT a.stbl k ⟨v, 0⟩ = _
        funext k'
        simp only [setT, cacheS, hs, and_true]
      · intro h; exact absurd ⟨c, List.mem_singleton.mpr rfl, hf⟩ h
    | some e =>
      simp only
      refine ⟨rfl, rfl, rfl, hblk, ?_, fun _ => rfl, fun _ => rfl⟩
      intro _
      funext k'
      simp [cacheS, hs]

theorem CacheEff.trans {k v : Nat} {cs1 cs2 : List Nat} {a a1 a2 : ASt} (h1 : CacheEff k v cs1 a a1)
    (h2 : CacheEff k v cs2 a1 a2) : CacheEff k v (cs1 ++ cs2) a a2 := by
  have hlive : ∀ x, findB a1.blocks x = none ↔ findB a.blocks x = none := by
    intro x; rw [h1.blk x]; cases findB a.blocks x <;> simp
  refine ⟨h2.sl.trans h1.sl, h2.sh.trans h1.sh, h2.disk.trans h1.disk, ?_, ?_, ?_, fun x => (h2.hc x).trans (h1.hc x)⟩
  · intro x
    rw [h2.blk x, h1.blk x]
    cases findB a.blocks x with
    | none => rfl
    | some b =>
      simp only [Option.map_some, List.mem_append]
      by_cases e1 : x ∈ cs1 <;> by_cases e2 : x ∈ cs2 <;> simp [e1, e2, cacheF_idem]
  · rintro ⟨c, hc, hn⟩
    by_cases e2 : ∃ c ∈ cs2, findB a1.blocks c = none
    · rw [h2.st1 e2]
      by_cases e1 : ∃ c ∈ cs1, findB a.blocks c = none
      · rw [h1.st1 e1, cacheS_idem]
      · rw [h1.st0 e1]
    · rw [h2.st0 e2]
      apply h1.st1
      rcases List.mem_append.mp hc with h | h
      · exact ⟨c, h, hn⟩
      · exact absurd ⟨c, h, (hlive c).mpr hn⟩ e2
  · intro hno
    have e1 : ¬ ∃ c ∈ cs1, findB a.blocks c = none := fun ⟨c, hc, hn⟩ => hno ⟨c, List.mem_append_left _ hc, hn⟩
    have e2 : ¬ ∃ c ∈ cs2, findB a1.blocks c = none :=
      fun ⟨c, hc, hn⟩ => hno ⟨c, List.mem_append_right _ hc, (hlive c).mp hn⟩
    rw [h2.st0 e2, h1.st0 e1]

theorem cache_fold_eff {k v : Nat} : ∀ (cs : List Nat) (a : ASt), a.disk k = some v →
    CacheEff k v cs a (cs.foldl (fun s c => aCache s k c) a)
  | [], a, _ => CacheEff.nil k v a
  | c :: cs, a, hd => by
    have h1 := aCache_eff hd c
    have hd1 : (aCache a k c).disk k = some v := by rw [h1.disk]; exact hd
    have h2 := cache_fold_eff cs (aCache a k c) hd1
    exact h1.trans h2

theorem cache_fold_none {k : Nat} : ∀ (cs : List Nat) (a : ASt), a.disk k = none →
    cs.foldl (fun s c => aCache s k c) a = a
  | [], _, _ => rfl
  | c :: cs, a, hd => by
    have : aCache a k c = a := by unfold aCache; rw [hd]
    simp only [List.foldl_cons, this]
    exact cache_fold_none cs a hd

end LemoProofs.CowSpecL

/-
  C09 (heap refinement, part 8): facts about the abstract machine `LemoModel.CowSpec` needed by the
  refinement: lookups of blocks after each operation, children under pruning, the effect of a fold of
  cache placements.
-/
import LemoProofs.Lemmas.CowSpecPrune
set_option linter.unusedSimpArgs false
set_option linter.unusedVariables false
namespace LemoProofs.CowSpecL
open LemoModel.CowSpec

theorem findB_updB (bs : List ABlk) (l : Nat) (f : ABlk → ABlk) (hf : ∀ b, (f b).label = b.label) (x : Nat) :
    findB (updB bs l f) x = (findB bs x).map (fun b => if b.label = l then f b else b) := by
  induction bs with
  | nil => rfl
  | cons y older ih =>
    unfold updB at *
    simp only [List.map_cons]
    unfold findB
    have : (if y.label = l then f y else y).label = y.label := by split; exact hf y; rfl
    rw [this]
    by_cases e : y.label = x
    · simp [e]
    · simp only [e, if_false]; exact ih

theorem hasChild_cons (b : ABlk) (bs : List ABlk) (l : Nat) :
    hasChild (b :: bs) l = ((b.parent == l) || hasChild bs l) := by
  simp [hasChild]

theorem hasChild_of_mem {bs : List ABlk} {l : Nat} {z : ABlk} (hz : z ∈ bs) (hp : z.parent = l) : hasChild bs l = true := by
  unfold hasChild
  exact List.any_eq_true.mpr ⟨z, hz, by simp [hp]⟩

theorem mem_of_hasChild {bs : List ABlk} {l : Nat} (h : hasChild bs l = true) : ∃ z ∈ bs, z.parent = l := by
  unfold hasChild at h
  obtain ⟨z, hz, hp⟩ := List.any_eq_true.mp h
  exact ⟨z, hz, by simpa using hp⟩

theorem hasChild_updB (bs : List ABlk) (l : Nat) (f : ABlk → ABlk) (hf : ∀ b, (f b).parent = b.parent) (x : Nat) :
    hasChild (updB bs l f) x = hasChild bs x := by
  induction bs with
  | nil => rfl
  | cons y older ih =>
    unfold updB at *
    simp only [List.map_cons]
    rw [hasChild_cons, hasChild_cons, ih]
    have : (if y.label = l then f y else y).parent = y.parent := by split; exact hf y; rfl
    rw [this]

/-- a child of a descendant of `l` is a descendant of `l` -/
theorem desc_child {sl sh l : Nat} : ∀ {bs : List ABlk}, WF sl sh bs → ∀ {x : Nat} (z : ABlk), z ∈ bs → z.parent = x →
    (x = l ∨ desc bs l x = true) → desc bs l z.label = true
  | [], _, _, _, hz, _, _ => by cases hz
  | y :: older, hwf, x, z, hz, hzp, hx => by
    have hwf0 := hwf
    obtain ⟨h1, h2, h3, h4⟩ := hwf
    unfold desc
    rcases List.mem_cons.mp hz with rfl | hz'
    · simp only [if_true]
      rcases hx with rfl | hx
      · simp [hzp]
      · -- x is older than z
        unfold desc at hx
        have hne : z.label ≠ x := by
          rcases h4 with ⟨a, _⟩ | ⟨p, hp, hpl, _⟩
          · rw [← hzp, a]; exact h2
          · rw [← hzp, ← hpl]; exact fun e => h3 p hp e.symm
        simp only [hne, if_false] at hx
        rw [hzp, hx]; simp
    · have hne : y.label ≠ z.label := fun e => h3 z hz' e.symm
      simp only [hne, if_false]
      apply desc_child h1 z hz' hzp
      rcases hx with rfl | hx
      · exact Or.inl rfl
      · right
        unfold desc at hx
        by_cases e : y.label = x
        · -- then z (older) would have the newer y as parent
          exfalso
          rcases wf_parent_cases h1 z hz' with a | ⟨p, hp, hpl⟩
          · rw [hzp, ← e] at a; exact h2 a
          · rw [hzp, ← e] at hpl; exact h3 p hp hpl
        · simp only [e, if_false] at hx; exact hx

theorem findB_prune {sl sh sl' sh' l : Nat} {bs : List ABlk} (hwf : WF sl sh bs) (hwf' : WF sl' sh' (prune l bs))
    (x : Nat) (b : ABlk) :
    findB (prune l bs) x = some b ↔ findB bs x = some b ∧ x ≠ l ∧ desc bs l x = true := by
  constructor
  · intro h
    obtain ⟨hb, hbl⟩ := findB_some h
    obtain ⟨h1, h2, h3⟩ := (mem_prune_iff hwf b).mp hb
    rw [hbl] at h2 h3
    exact ⟨by rw [← hbl]; exact findB_of_mem hwf b h1, h2, h3⟩
  · rintro ⟨h1, h2, h3⟩
    obtain ⟨hb, hbl⟩ := findB_some h1
    have := mem_prune hwf b hb (by rw [hbl]; exact h2) (by rw [hbl]; exact h3)
    rw [← hbl]; exact findB_of_mem hwf' b this

theorem hasChild_prune {sl sh l x : Nat} {bs : List ABlk} (hwf : WF sl sh bs) (hx : desc bs l x = true)
    (h : hasChild bs x = true) : hasChild (prune l bs) x = true := by
  obtain ⟨z, hz, hp⟩ := mem_of_hasChild h
  have hd := desc_child hwf z hz hp (Or.inr hx)
  have hzl : z.label ≠ l := by
    intro e
    -- l would descend from itself
    have hdd : desc bs l l = true := by rw [e] at hd; exact hd
    clear hd hx h hp hz e
    induction bs with
    | nil => cases hdd
    | cons y older ih =>
      have hwf0 := hwf
      obtain ⟨h1, h2, h3, h4⟩ := hwf
      unfold desc at hdd
      by_cases e : y.label = l
      · simp only [e, if_true] at hdd
        rcases Bool.or_eq_true _ _ |>.mp hdd with q | q
        · have : y.parent = l := by simpa using q
          rcases h4 with ⟨a, _⟩ | ⟨p, hp, hpl, _⟩
          · rw [this] at a; rw [← e] at a; exact h2 a
          · rw [this, ← e] at hpl; exact h3 p hp hpl
        · exact desc_label_ne hwf0 q e
      · simp only [e, if_false] at hdd; exact ih h1 hdd
  exact hasChild_of_mem (mem_prune hwf z hz hzl hd) hp


/-! ### a fold of cache placements -/

def cacheS (k v : Nat) (t : Nat → Option Entry) : Nat → Option Entry :=
  fun k' => if k' = k ∧ t k = none then some ⟨v, 0⟩ else t k'

theorem cacheS_idem (k v : Nat) (t : Nat → Option Entry) : cacheS k v (cacheS k v t) = cacheS k v t := by
  funext k'
  unfold cacheS
  by_cases e : k' = k
  · subst e
    cases h : t k' <;> simp [h]
  · simp [e]

theorem cacheF_tbl (k v : Nat) (b : ABlk) : (cacheF k v b).tbl = cacheS k v b.tbl := by
  unfold cacheF cacheS
  cases h : b.tbl k with
  | none =>
    funext k'
    simp only [setT, h, and_true]
  | some e =>
    funext k'
    simp [h]

theorem cacheF_idem (k v : Nat) (b : ABlk) : cacheF k v (cacheF k v b) = cacheF k v b := by
  unfold cacheF
  cases h : b.tbl k with
  | none => simp [setT]
  | some e => simp [h]

structure CacheEff (k v : Nat) (cs : List Nat) (a a' : ASt) : Prop where
  sl : a'.sl = a.sl
  sh : a'.sh = a.sh
  disk : a'.disk = a.disk
  blk : ∀ x, findB a'.blocks x = (findB a.blocks x).map (fun b => if x ∈ cs then cacheF k v b else b)
  st1 : (∃ c ∈ cs, findB a.blocks c = none) → a'.stbl = cacheS k v a.stbl
  st0 : (¬ ∃ c ∈ cs, findB a.blocks c = none) → a'.stbl = a.stbl
  hc : ∀ x, hasChild a'.blocks x = hasChild a.blocks x
  lbl : a'.blocks.map (·.label) = a.blocks.map (·.label)

theorem updB_labels (bs : List ABlk) (l : Nat) (f : ABlk → ABlk) (hf : ∀ b, (f b).label = b.label) :
    (updB bs l f).map (·.label) = bs.map (·.label) := by
  unfold updB
  rw [List.map_map]
  apply List.map_congr_left
  intro b _
  simp only [Function.comp]
  split
  · exact hf b
  · rfl

theorem CacheEff.nil (k v : Nat) (a : ASt) : CacheEff k v [] a a where
  sl := rfl
  sh := rfl
  disk := rfl
  blk := fun x => by cases findB a.blocks x <;> simp
  st1 := fun ⟨c, hc, _⟩ => by cases hc
  st0 := fun _ => rfl
  hc := fun _ => rfl
  lbl := rfl

theorem aCache_eff {a : ASt} {k v : Nat} (hd : a.disk k = some v) (c : Nat) : CacheEff k v [c] a (aCache a k c) := by
  unfold aCache
  rw [hd]
  simp only
  cases hf : findB a.blocks c with
  | some bc =>
    simp only
    refine ⟨rfl, rfl, rfl, ?_, ?_, fun _ => rfl, ?_, updB_labels a.blocks c (cacheF k v) (cacheF_label k v)⟩
    · intro x
      show findB (updB a.blocks c (cacheF k v)) x = _
      rw [findB_updB _ _ _ (cacheF_label k v)]
      cases hx : findB a.blocks x with
      | none => rfl
      | some bx =>
        obtain ⟨_, hl⟩ := findB_some hx
        simp only [Option.map_some, List.mem_singleton, hl]
    · rintro ⟨c', hc', hn⟩
      simp only [List.mem_singleton] at hc'
      subst hc'
      rw [hf] at hn; cases hn
    · intro x
      show hasChild (updB a.blocks c _) x = _
      apply hasChild_updB
      intro b; split <;> rfl
  | none =>
    simp only
    have hblk : ∀ x, findB a.blocks x = (findB a.blocks x).map (fun b => if x ∈ [c] then cacheF k v b else b) := by
      intro x
      cases hx : findB a.blocks x with
      | none => rfl
      | some bx =>
        have : x ≠ c := by intro e; rw [e, hf] at hx; cases hx
        simp [this]
    cases hs : a.stbl k with
    | none =>
      simp only
      refine ⟨rfl, rfl, rfl, hblk, ?_, ?_, fun _ => rfl, rfl⟩
      · intro _
        show setT a.stbl k ⟨v, 0⟩ = _
        funext k'
        simp only [setT, cacheS, hs, and_true]
      · intro h; exact absurd ⟨c, List.mem_singleton.mpr rfl, hf⟩ h
    | some e =>
      simp only
      refine ⟨rfl, rfl, rfl, hblk, ?_, fun _ => rfl, fun _ => rfl, rfl⟩
      intro _
      funext k'
      simp [cacheS, hs]

theorem CacheEff.trans {k v : Nat} {cs1 cs2 : List Nat} {a a1 a2 : ASt} (h1 : CacheEff k v cs1 a a1)
    (h2 : CacheEff k v cs2 a1 a2) : CacheEff k v (cs1 ++ cs2) a a2 := by
  have hlive : ∀ x, findB a1.blocks x = none ↔ findB a.blocks x = none := by
    intro x; rw [h1.blk x]; cases findB a.blocks x <;> simp
  refine ⟨h2.sl.trans h1.sl, h2.sh.trans h1.sh, h2.disk.trans h1.disk, ?_, ?_, ?_, fun x => (h2.hc x).trans (h1.hc x),
    h2.lbl.trans h1.lbl⟩
  · intro x
    rw [h2.blk x, h1.blk x]
    cases findB a.blocks x with
    | none => rfl
    | some b =>
      simp only [Option.map_some, List.mem_append]
      by_cases e1 : x ∈ cs1 <;> by_cases e2 : x ∈ cs2 <;> simp [e1, e2, cacheF_idem]
  · rintro ⟨c, hc, hn⟩
    by_cases e2 : ∃ c ∈ cs2, findB a1.blocks c = none
    · rw [h2.st1 e2]
      by_cases e1 : ∃ c ∈ cs1, findB a.blocks c = none
      · rw [h1.st1 e1, cacheS_idem]
      · rw [h1.st0 e1]
    · rw [h2.st0 e2]
      apply h1.st1
      rcases List.mem_append.mp hc with h | h
      · exact ⟨c, h, hn⟩
      · exact absurd ⟨c, h, (hlive c).mpr hn⟩ e2
  · intro hno
    have e1 : ¬ ∃ c ∈ cs1, findB a.blocks c = none := fun ⟨c, hc, hn⟩ => hno ⟨c, List.mem_append_left _ hc, hn⟩
    have e2 : ¬ ∃ c ∈ cs2, findB a1.blocks c = none :=
      fun ⟨c, hc, hn⟩ => hno ⟨c, List.mem_append_right _ hc, (hlive c).mp hn⟩
    rw [h2.st0 e2, h1.st0 e1]

theorem cache_fold_eff {k v : Nat} : ∀ (cs : List Nat) (a : ASt), a.disk k = some v →
    CacheEff k v cs a (cs.foldl (fun s c => aCache s k c) a)
  | [], a, _ => CacheEff.nil k v a
  | c :: cs, a, hd => by
    have h1 := aCache_eff hd c
    have hd1 : (aCache a k c).disk k = some v := by rw [h1.disk]; exact hd
    have h2 := cache_fold_eff cs (aCache a k c) hd1
    exact h1.trans h2

theorem cache_fold_none {k : Nat} : ∀ (cs : List Nat) (a : ASt), a.disk k = none →
    cs.foldl (fun s c => aCache s k c) a = a
  | [], _, _ => rfl
  | c :: cs, a, hd => by
    have : aCache a k c = a := by unfold aCache; rw [hd]
    simp only [List.foldl_cons, this]
    exact cache_fold_none cs a hd


/-! ### ancestors, chains, pruning as a filter (for the walk-based pruning of the driver's model) -/

theorem desc_cons_older {sl sh : Nat} {y : ABlk} {older : List ABlk} (hwf : WF sl sh (y :: older)) {e : Nat} {z : ABlk}
    (hz : z ∈ older) : desc (y :: older) e z.label = desc older e z.label := by
  obtain ⟨_, _, h3, _⟩ := hwf
  have : y.label ≠ z.label := fun e' => h3 z hz e'.symm
  rw [desc]; simp only [this, if_false]

theorem desc_cons_of_older {sl sh : Nat} {y : ABlk} {older : List ABlk} (hwf : WF sl sh (y :: older)) {e p : Nat}
    (h : desc older e p = true) : desc (y :: older) e p = true := by
  obtain ⟨z, hz, hzl⟩ := desc_label h
  rw [← hzl, desc_cons_older hwf hz, hzl]; exact h

theorem desc_unfold {sl sh e : Nat} : ∀ {bs : List ABlk}, WF sl sh bs → ∀ {x : Nat}, desc bs e x = true →
    ∃ z ∈ bs, z.label = x ∧ (z.parent = e ∨ desc bs e z.parent = true)
  | [], _, _, h => by cases h
  | y :: older, hwf, x, h => by
    have hwf0 := hwf
    obtain ⟨h1, _, _, _⟩ := hwf
    rw [desc] at h
    by_cases hy : y.label = x
    · simp only [hy, if_true] at h
      refine ⟨y, List.mem_cons_self, hy, ?_⟩
      rcases Bool.or_eq_true _ _ |>.mp h with q | q
      · exact Or.inl (by simpa using q)
      · exact Or.inr (desc_cons_of_older hwf0 q)
    · simp only [hy, if_false] at h
      obtain ⟨z, hz, hzl, hzp⟩ := desc_unfold h1 h
      refine ⟨z, List.mem_cons_of_mem _ hz, hzl, ?_⟩
      rcases hzp with q | q
      · exact Or.inl q
      · exact Or.inr (desc_cons_of_older hwf0 q)

theorem desc_sl_false {sl sh e : Nat} {bs : List ABlk} (hwf : WF sl sh bs) : desc bs e sl = false := by
  cases h : desc bs e sl with
  | false => rfl
  | true =>
    obtain ⟨z, hz, hzl⟩ := desc_label h
    exact absurd hzl (wf_label_ne hwf z hz)

theorem wf_parent_height {sl sh : Nat} : ∀ {bs : List ABlk}, WF sl sh bs → ∀ z ∈ bs,
    (z.parent = sl ∧ z.height = sh + 1) ∨ ∃ p ∈ bs, p.label = z.parent ∧ z.height = p.height + 1
  | [], _, _, hz => by cases hz
  | y :: older, h, z, hz => by
    obtain ⟨h1, _, _, h4⟩ := h
    rcases List.mem_cons.mp hz with rfl | hz
    · rcases h4 with ⟨a, b⟩ | ⟨p, hp, hpl, hh⟩
      · left; exact ⟨a, b⟩
      · right; exact ⟨p, List.mem_cons_of_mem _ hp, hpl, hh⟩
    · rcases wf_parent_height h1 z hz with a | ⟨p, hp, hpl, hh⟩
      · left; exact a
      · right; exact ⟨p, List.mem_cons_of_mem _ hp, hpl, hh⟩

theorem height_bound {sl sh : Nat} : ∀ {bs : List ABlk}, WF sl sh bs → ∀ z ∈ bs, z.height ≤ sh + bs.length
  | [], _, _, hz => by cases hz
  | y :: older, h, z, hz => by
    obtain ⟨h1, _, _, h4⟩ := h
    simp only [List.length_cons]
    rcases List.mem_cons.mp hz with rfl | hz
    · rcases h4 with ⟨_, b⟩ | ⟨p, hp, _, hh⟩
      · omega
      · have := height_bound h1 p hp; omega
    · have := height_bound h1 z hz; omega

/-- `x` lies below `top` through a chain of at most `n` blocks none of which is `ex` (the shape of `Walk`) -/
inductive AB (bs : List ABlk) (ex : Nat) : Nat → Nat → Nat → Prop where
  | here {top n : Nat} (z : ABlk) : z ∈ bs → z.parent = top → z.label ≠ ex → AB bs ex top (n + 1) z.label
  | there {top n x : Nat} (b0 : ABlk) : b0 ∈ bs → b0.parent = top → b0.label ≠ ex → AB bs ex b0.label n x →
      AB bs ex top (n + 1) x

theorem AB.ext {bs : List ABlk} {ex top n y : Nat} (h : AB bs ex top n y) (z : ABlk) (hz : z ∈ bs) (hp : z.parent = y)
    (hne : z.label ≠ ex) : AB bs ex top (n + 1) z.label := by
  induction h with
  | here z0 h1 h2 h3 => exact AB.there z0 h1 h2 h3 (AB.here z hz hp hne)
  | there b0 h1 h2 h3 _ ih => exact AB.there b0 h1 h2 h3 (ih hp)

theorem AB.avoids {sl sh : Nat} {bs : List ABlk} (hwf : WF sl sh bs) {ex top n x : Nat} (h : AB bs ex top n x)
    (hex : ex ≠ sl) : (top = sl ∨ (top ≠ ex ∧ desc bs ex top = false)) → x ≠ ex ∧ desc bs ex x = false := by
  have key : ∀ (t : Nat) (z : ABlk), z ∈ bs → z.parent = t → z.label ≠ ex →
      (t = sl ∨ (t ≠ ex ∧ desc bs ex t = false)) → desc bs ex z.label = false := by
    intro t z hz hp hne ht
    cases hd : desc bs ex z.label with
    | false => rfl
    | true =>
      exfalso
      obtain ⟨z', hz', hzl, hzp⟩ := desc_unfold hwf hd
      have : z' = z := by
        have a := findB_of_mem hwf z' hz'
        have b := findB_of_mem hwf z hz
        rw [hzl, b] at a; cases a; rfl
      subst this
      rw [hp] at hzp
      rcases ht with rfl | ⟨t1, t2⟩
      · rcases hzp with q | q
        · exact hex q.symm
        · rw [desc_sl_false hwf] at q; cases q
      · rcases hzp with q | q
        · exact t1 q
        · rw [t2] at q; cases q
  induction h with
  | here z h1 h2 h3 => intro ht; exact ⟨h3, key _ z h1 h2 h3 ht⟩
  | there b0 h1 h2 h3 _ ih => intro ht; exact ih (Or.inr ⟨h3, key _ b0 h1 h2 h3 ht⟩)

theorem AB.of_not_desc {sl sh : Nat} {bs : List ABlk} (hwf : WF sl sh bs) {ex : Nat} : ∀ (d : Nat) (z : ABlk), z ∈ bs →
    z.height = sh + d → z.label ≠ ex → desc bs ex z.label = false → AB bs ex sl d z.label
  | 0, z, hz, hh, _, _ => by have := wf_height hwf z hz; omega
  | d + 1, z, hz, hh, hne, hnd => by
    rcases wf_parent_height hwf z hz with ⟨hp, _⟩ | ⟨p, hp, hpl, hph⟩
    · exact AB.here z hz hp hne
    · have hpne : p.label ≠ ex := by
        intro e
        have := desc_child hwf z hz hpl.symm (Or.inl e)
        rw [hnd] at this; cases this
      have hpnd : desc bs ex p.label = false := by
        cases hd : desc bs ex p.label with
        | false => rfl
        | true =>
          have := desc_child hwf z hz hpl.symm (Or.inr hd)
          rw [hnd] at this; cases this
      have := AB.of_not_desc hwf d p hp (by omega) hpne hpnd
      exact this.ext z hz hpl.symm hne

theorem prune_eq_filter {sl sh l : Nat} : ∀ {bs : List ABlk}, WF sl sh bs →
    prune l bs = bs.filter (fun y => decide (y.label ≠ l) && desc bs l y.label)
  | [], _ => rfl
  | y :: older, hwf => by
    have hwf0 := hwf
    obtain ⟨h1, _, _, _⟩ := hwf
    have ih := prune_eq_filter (l := l) h1
    have hold : older.filter (fun z => decide (z.label ≠ l) && desc (y :: older) l z.label) =
        older.filter (fun z => decide (z.label ≠ l) && desc older l z.label) := by
      apply List.filter_congr
      intro z hz
      rw [desc_cons_older hwf0 hz]
    have hy : desc (y :: older) l y.label = ((y.parent == l) || desc older l y.parent) := by
      rw [desc]; simp
    rw [prune, List.filter_cons, hy, hold, ← ih]
    by_cases hc : y.label ≠ l ∧ ((y.parent == l) || desc older l y.parent) = true
    · rw [if_pos hc]
      simp only [hc.1, hc.2, ne_eq, not_false_eq_true, decide_true, Bool.and_self, if_true]
    · rw [if_neg hc]
      have : (decide (y.label ≠ l) && ((y.parent == l) || desc older l y.parent)) = false := by
        cases h1 : decide (y.label ≠ l) <;> cases h2 : ((y.parent == l) || desc older l y.parent) <;> simp_all
      rw [this]; simp


theorem desc_ne {sl sh l : Nat} : ∀ {bs : List ABlk}, WF sl sh bs → ∀ {x : Nat}, desc bs l x = true → x ≠ l
  | [], _, _, h => by cases h
  | y :: older, hwf, x, h => by
    intro e
    subst e
    have hwf0 := hwf
    obtain ⟨h1, h2, h3, h4⟩ := hwf
    unfold desc at h
    by_cases e : y.label = x
    · simp only [e, if_true] at h
      rcases Bool.or_eq_true _ _ |>.mp h with q | q
      · have : y.parent = x := by simpa using q
        rcases h4 with ⟨a, _⟩ | ⟨p, hp, hpl, _⟩
        · rw [this] at a; rw [← e] at a; exact h2 a
        · rw [this, ← e] at hpl; exact h3 p hp hpl
      · exact desc_label_ne hwf0 q e
    · simp only [e, if_false] at h; exact desc_ne h1 h rfl

/-- a sequence of stabilisation steps each of which the abstract machine accepts (the committed path) -/
def StableChain : ASt → List Nat → Prop
  | _, [] => True
  | a, c :: cs => ∃ a1, aStable a c = some a1 ∧ StableChain a1 cs

theorem run_stable_cons (a : ASt) (c : Nat) (cs : List Nat) {a1 : ASt} (h : aStable a c = some a1) :
    run a ((c :: cs).map Op.stable) = run a1 (cs.map Op.stable) := by
  unfold run
  simp only [List.map_cons, List.foldl_cons]
  show List.foldl stepOp ((aStable a c).getD a) _ = _
  rw [h]; rfl

end LemoProofs.CowSpecL

/-
  C09 (heap refinement, part 13): the machine the DRIVER executes — `LemoModel.UTree` (`openDb`, `setBlock`,
  `putAcct true`, `getAcct`, `setStable`) — refines the abstract machine.  `URel u a`: the heap-level refinement
  `HRel` for the heap/roots carried by `u`, plus matching stable block, labels, heights, parents and disk.
-/
import LemoProofs.Lemmas.CowHeapUTree
import LemoProofs.Lemmas.CowHeapColl
set_option linter.unusedSimpArgs false
set_option linter.unusedVariables false
namespace LemoProofs.CowHeapL
open LemoModel.CowTrie LemoModel.CowSpec LemoProofs.CowSpecL LemoModel.UTree

/-- the heap-level state carried by a state of the driver's model -/
def hsOf (u : St) : HSt := ⟨u.heap, u.stableRoot, fun l => (findBlk u l).map (·.root)⟩

theorem corr_hsOf (u : St) : Corr u (hsOf u) := ⟨rfl, rfl, fun _ => rfl⟩

theorem hsOf_of_corr {u : St} {s : HSt} (h : Corr u s) : hsOf u = s := by
  obtain ⟨c1, c2, c3⟩ := h
  cases s with
  | mk hp sr rt =>
    simp only at c1 c2 c3
    unfold hsOf
    congr 1
    funext l; exact (c3 l).symm

def bmeta (b : Blk) : Nat × Option Nat := (b.height, b.parent)
def ameta (b : ABlk) : Nat × Option Nat := (b.height, some b.parent)

structure URel {L : Nat} (E : Enc L) (u : St) (a : ASt) : Prop where
  hrel : HRel E (hsOf u) a
  stable : u.stable = some (a.sl, a.sh)
  /-- the stable block is in the block store -/
  comm : ∃ c ∈ u.committed, c.1 = a.sl
  /-- the same unconfirmed labels, with the same heights and parents -/
  blks : ∀ l, (findBlk u l).map bmeta = (findB a.blocks l).map ameta
  /-- labels of unconfirmed blocks are distinct -/
  self : ∀ b ∈ u.blocks, findBlk u b.label = some b
  disk : ∀ k, u.disk.lookup k = a.disk k
  /-- the same blocks in the same (reversed: append vs. cons) order -/
  ord : u.blocks.map (·.label) = (a.blocks.map (·.label)).reverse

theorem URel.cinv {L : Nat} {E : Enc L} {u : St} {a : ASt} (h : URel E u a) : CInv a := by
  obtain ⟨_, _, _, r⟩ := h.hrel; exact r.inv

theorem URel.live_iff {L : Nat} {E : Enc L} {u : St} {a : ASt} (h : URel E u a) (l : Nat) :
    (findBlk u l).isSome ↔ (findB a.blocks l).isSome := by
  have := congrArg Option.isSome (h.blks l)
  simp only [Option.isSome_map] at this
  rw [this]

theorem URel.blk {L : Nat} {E : Enc L} {u : St} {a : ASt} (h : URel E u a) {l : Nat} {b : ABlk}
    (hb : findB a.blocks l = some b) : ∃ ub, findBlk u l = some ub ∧ ub.height = b.height ∧ ub.parent = some b.parent := by
  have := h.blks l
  rw [hb] at this
  cases hu : findBlk u l with
  | none => rw [hu] at this; cases this
  | some ub =>
    rw [hu] at this
    simp only [Option.map_some, Option.some.injEq, bmeta, ameta, Prod.mk.injEq] at this
    exact ⟨ub, rfl, this.1, this.2⟩

theorem URel.ablk {L : Nat} {E : Enc L} {u : St} {a : ASt} (h : URel E u a) {l : Nat} {ub : Blk}
    (hb : findBlk u l = some ub) : ∃ b, findB a.blocks l = some b ∧ ub.height = b.height ∧ ub.parent = some b.parent := by
  have := h.blks l
  rw [hb] at this
  cases hu : findB a.blocks l with
  | none => rw [hu] at this; cases this
  | some b =>
    rw [hu] at this
    simp only [Option.map_some, Option.some.injEq, bmeta, ameta, Prod.mk.injEq] at this
    exact ⟨b, rfl, this.1, this.2⟩

/-! ### open (a database with a stable block) -/

theorem urel_open {L : Nat} (E : Enc L) (cm dk : List (Nat × Nat)) (sl sh : Nat) (hc : ∃ c ∈ cm, c.1 = sl) :
    URel E (openDb cm dk (some (sl, sh))) (init sl sh (fun k => dk.lookup k)) := by
  have e : hsOf (openDb cm dk (some (sl, sh))) = hinit := rfl
  exact ⟨by rw [e]; exact hrel_init E sl sh _, rfl, hc, fun l => rfl, (fun b hb => by cases hb), fun _ => rfl, rfl⟩

/-- a restart: what survives is the persisted part -/
theorem urel_reopen {L : Nat} {E : Enc L} {u : St} {a : ASt} (h : URel E u a) :
    URel E u.reopen (init a.sl a.sh a.disk) := by
  have e : hsOf u.reopen = hinit := rfl
  refine ⟨by rw [e]; exact hrel_init E _ _ _, ?_, h.comm, fun l => rfl, (fun b hb => by cases hb), h.disk, rfl⟩
  show u.stable = _
  exact h.stable


/-! ### SetBlock -/

theorem setBlock_ok_form {u u' : St} {l p h sl sh : Nat} (hst : u.stable = some (sl, sh))
    (hs : setBlock u l (some p) h = .ok u') :
    findBlk u l = none ∧ (u.committed.any (fun c => c.1 == l)) = false ∧
    ∃ r, u' = { u with blocks := u.blocks ++ [{ label := l, height := h, parent := some p, root := r }] } ∧
      ((findBlk u p = none ∧ sl = p ∧ sh + 1 = h) ∨ (∃ pb, findBlk u p = some pb ∧ pb.height + 1 = h)) := by
  unfold setBlock at hs
  split at hs
  · cases hs
  · rename_i hfresh
    have hfl : findBlk u l = none := by
      cases hf : findBlk u l with
      | none => rfl
      | some b => simp [hf] at hfresh
    have hcm : (u.committed.any (fun c => c.1 == l)) = false := by
      cases hh : u.committed.any (fun c => c.1 == l) with
      | false => rfl
      | true => simp [hh] at hfresh
    refine ⟨hfl, hcm, ?_⟩
    rw [hst] at hs
    simp only at hs
    split at hs
    · cases hs
    · split at hs
      · cases hs
      · cases hfp : findBlk u p with
        | none =>
          rw [hfp] at hs
          simp only at hs
          split at hs
          · cases hs
          · rename_i h1
            split at hs
            · cases hs
            · rename_i h2
              cases hs
              exact ⟨_, by rw [hst], Or.inl ⟨rfl, by simpa using h1, by simpa using h2⟩⟩
        | some pb =>
          rw [hfp] at hs
          simp only at hs
          split at hs
          · cases hs
          · rename_i h1
            cases hs
            exact ⟨_, by rw [hst], Or.inr ⟨pb, rfl, by simpa using h1⟩⟩

theorem findBlk_append_new (u : St) (nb : Blk) (x : Nat) :
    findBlk { u with blocks := u.blocks ++ [nb] } x =
      match findBlk u x with
      | some b => some b
      | none => if nb.label = x then some nb else none := by
  unfold findBlk
  simp only [List.find?_append]
  cases u.blocks.find? (fun b => b.label == x) with
  | some b => rfl
  | none =>
    simp only [Option.none_or, List.find?_cons, List.find?_nil]
    by_cases e : nb.label = x
    · simp [e]
    · have : (nb.label == x) = false := by simpa using e
      simp [e, this]

/-- **SetBlock of the driver's model refines `aSetBlock`**: whenever the model accepts a block (with a parent),
    the abstract machine accepts it, and the relation is kept -/
theorem urel_setBlock {L : Nat} {E : Enc L} {u u' : St} {a : ASt} (hr : URel E u a) {l p h : Nat}
    (hs : setBlock u l (some p) h = .ok u') : ∃ a', aSetBlock a l p h = some a' ∧ URel E u' a' := by
  obtain ⟨hfl, hcm, r, hu', hpar⟩ := setBlock_ok_form hr.stable hs
  have hinv := hr.cinv
  have hlsl : l ≠ a.sl := by
    intro e
    obtain ⟨c, hc1, hc2⟩ := hr.comm
    have : (u.committed.any (fun c => c.1 == l)) = true := List.any_eq_true.mpr ⟨c, hc1, by simp [hc2, e]⟩
    rw [hcm] at this; cases this
  have hnl : findB a.blocks l = none := by
    cases hf : findB a.blocks l with
    | none => rfl
    | some b =>
      obtain ⟨ub, q, _⟩ := hr.blk hf
      rw [hfl] at q; cases q
  have hacc : ∃ a', aSetBlock a l p h = some a' := by
    unfold aSetBlock
    have hg : ¬ (l = a.sl ∨ (findB a.blocks l).isSome = true) := by
      rintro (e | e)
      · exact hlsl e
      · rw [hnl] at e; cases e
    rw [if_neg hg]
    rcases hpar with ⟨h1, h2, h3⟩ | ⟨pb, h1, h2⟩
    · rw [if_pos h2.symm, if_pos h3.symm]; exact ⟨_, rfl⟩
    · obtain ⟨b, q1, q2, _⟩ := hr.ablk h1
      have hpsl : p ≠ a.sl := by
        intro e
        have := wf_label_ne hinv.wf b (findB_some q1).1
        exact this ((findB_some q1).2.trans e)
      rw [if_neg hpsl, q1]
      simp only
      rw [if_pos (by omega)]; exact ⟨_, rfl⟩
  obtain ⟨a', ha'⟩ := hacc
  refine ⟨a', ha', ?_⟩
  obtain ⟨_, _, ha'eq, _⟩ := aSetBlock_eq hinv.wf ha'
  have hc' := setBlock_is_hSetBlock (corr_hsOf u) hs
  have hblocks : a'.blocks = { label := l, height := h, parent := p, tbl := tblOf a p, writes := fun _ => none } :: a.blocks := by
    rw [ha'eq]
  refine ⟨?_, ?_, ?_, ?_, ?_, ?_, ?_⟩
  · rw [hsOf_of_corr hc']; exact hrel_setBlock hr.hrel ha'
  · rw [hu', ha'eq]; exact hr.stable
  · rw [hu', ha'eq]; exact hr.comm
  · intro x
    rw [hu', findBlk_append_new, hblocks, findB]
    by_cases e : l = x
    · subst e
      simp only [hfl, if_true]
      rfl
    · have := hr.blks x
      cases hfx : findBlk u x with
      | none => simp only [hfx, e, if_false] at this ⊢; exact this
      | some b => simp only [hfx, e, if_false] at this ⊢; exact this
  · intro b hb
    rw [hu'] at hb ⊢
    rw [findBlk_append_new]
    have hb' : b ∈ u.blocks ++ [{ label := l, height := h, parent := some p, root := r }] := hb
    rcases List.mem_append.mp hb' with h1 | h1
    · rw [hr.self b h1]
    · rw [List.mem_singleton] at h1
      subst h1
      simp only [hfl, if_true]
  · intro k
    rw [hu', ha'eq]; exact hr.disk k
  · rw [hu', hblocks]
    simp only [List.map_append, List.map_cons, List.map_nil, List.reverse_cons]
    rw [hr.ord]

/-! ### Put -/

theorem findBlk_setRoot (u : St) (l r x : Nat) :
    findBlk (setRoot u l r) x = (findBlk u x).map (fun b => if b.label == l then { b with root := r } else b) := by
  unfold findBlk setRoot
  simp only
  apply find_map_pres
  intro b0; split <;> rfl

theorem putAcct_form {u u' : St} {l addr val : Nat} {key : Key} {b : Blk} (hb : findBlk u l = some b)
    (hp : putAcct true u l key addr val = .ok u') : ∃ h' r', u' = setRoot { u with heap := h' } l r' := by
  unfold putAcct actDb at hp
  rw [hb] at hp
  simp only at hp
  cases hput : putTopG true u.heap b.root key (some { addr := addr, val := val }) b.height with
  | panic => rw [hput] at hp; cases hp
  | stuck => rw [hput] at hp; cases hp
  | ok pr =>
    obtain ⟨h', r'⟩ := pr
    rw [hput] at hp
    simp only [bind_ok, Res.ok.injEq] at hp
    exact ⟨h', r', hp.symm⟩

/-- **Put of the driver's model** (`GetActDatabase(l).Put(account, height(l))` with the repaired `put`) under the
    usage guards of `aPut` (the block is unconfirmed, has no child yet, has not written the key before) -/
theorem urel_put {L : Nat} {E : Enc L} {u : St} {a a' : ASt} (hr : URel E u a) {l k v : Nat}
    (hs : aPut a l k v = some a') : ∃ u', putAcct true u l (E.enc k) k v = .ok u' ∧ URel E u' a' := by
  obtain ⟨b, hb, _, _, ha'⟩ := aPut_eq hs
  obtain ⟨ub, hub, hh, _⟩ := hr.blk hb
  obtain ⟨s', q1, q2⟩ := hrel_put hr.hrel hs hb
  rw [← hh] at q1
  obtain ⟨u', p1, p2⟩ := putAcct_is_hPut (corr_hsOf u) hub q1
  refine ⟨u', p1, ?_⟩
  obtain ⟨h', r', hu'⟩ := putAcct_form hub p1
  have hfind : ∀ x, findBlk u' x = (findBlk u x).map (fun b => if b.label == l then { b with root := r' } else b) := by
    intro x; rw [hu', findBlk_setRoot]; rfl
  have hblocks : a'.blocks = updB a.blocks l (putF k v) := by rw [ha']
  refine ⟨by rw [hsOf_of_corr p2]; exact q2, ?_, ?_, ?_, ?_, ?_, ?_⟩
  · rw [hu', ha']; exact hr.stable
  · rw [hu', ha']; exact hr.comm
  · intro x
    rw [hfind, hblocks, findB_updB a.blocks l (putF k v) (fun _ => rfl) x, Option.map_map, Option.map_map]
    have := hr.blks x
    cases h1 : findBlk u x <;> cases h2 : findB a.blocks x <;> rw [h1, h2] at this <;> simp only [Option.map_some, Option.map_none] at this ⊢
    · cases this
    · cases this
    · simp only [Option.some.injEq] at this ⊢
      rename_i b1 b2
      have e1 : bmeta (if b1.label == l then { b1 with root := r' } else b1) = bmeta b1 := by split <;> rfl
      have e2 : ameta (if b2.label = l then putF k v b2 else b2) = ameta b2 := by split <;> rfl
      show bmeta _ = ameta _
      rw [e1, e2]; exact this
  · intro b' hb'
    rw [hu'] at hb'
    have hb'' : b' ∈ u.blocks.map (fun b => if b.label == l then { b with root := r' } else b) := hb'
    obtain ⟨b0, hb0, rfl⟩ := List.mem_map.mp hb''
    have hl : (if b0.label == l then { b0 with root := r' } else b0).label = b0.label := by split <;> rfl
    rw [hl, hfind, hr.self b0 hb0]; rfl
  · intro k'
    rw [hu', ha']; exact hr.disk k'
  · rw [hblocks, updB_labels a.blocks l (putF k v) (fun _ => rfl), ← hr.ord, hu']
    show (u.blocks.map (fun b => if b.label == l then { b with root := r' } else b)).map (·.label) = _
    rw [List.map_map]
    apply List.map_congr_left
    intro b0 _
    simp only [Function.comp]
    split <;> rfl

/-! ### Get -/

theorem aGet_frame (a : ASt) (l k : Nat) (sharers : List Nat) :
    (aGet a l k sharers).1.sl = a.sl ∧ (aGet a l k sharers).1.sh = a.sh ∧ (aGet a l k sharers).1.disk = a.disk ∧
    (∀ x, (findB (aGet a l k sharers).1.blocks x).map ameta = (findB a.blocks x).map ameta) ∧
    (aGet a l k sharers).1.blocks.map (·.label) = a.blocks.map (·.label) := by
  unfold aGet
  split
  · exact ⟨rfl, rfl, rfl, fun _ => rfl, rfl⟩
  · simp only
    cases hd : a.disk k with
    | none => rw [cache_fold_none _ _ hd]; exact ⟨rfl, rfl, rfl, fun _ => rfl, rfl⟩
    | some v =>
      have h := cache_fold_eff (l :: sharers) a hd
      refine ⟨h.sl, h.sh, h.disk, ?_, h.lbl⟩
      intro x
      rw [h.blk x, Option.map_map]
      cases findB a.blocks x with
      | none => rfl
      | some b =>
        simp only [Option.map_some, Function.comp, Option.some.injEq]
        split
        · unfold ameta; rw [cacheF_height, cacheF_parent]
        · rfl

/-- **Get of the driver's model** through any label whose trie the model hands out (an unconfirmed block, or a
    block of the block store: LastConfirm's trie): returns the specified view; the relation is kept for the sharer
    set "labels whose view gains the cached entry" -/
theorem urel_get {L : Nat} {E : Enc L} {u : St} {a : ASt} (hr : URel E u a) (l k : Nat)
    (hl : (findBlk u l).isSome ∨ ∃ c ∈ u.committed, c.1 = l) :
    ∃ u' sharers, getAcct u l (E.enc k) k = .ok (u', (aGet a l k sharers).2) ∧ URel E u' (aGet a l k sharers).1 := by
  obtain ⟨s', sharers, q1, q2⟩ := hrel_get hr.hrel l k
  rw [← hr.disk k] at q1
  have hroot : rootOf u l = .ok ((hsOf u).rootOf l) := by
    cases hf : findBlk u l with
    | some b => exact rootOf_live (corr_hsOf u) hf
    | none =>
      rcases hl with h | ⟨c, hc1, hc2⟩
      · rw [hf] at h; cases h
      · cases hfind : u.committed.find? (fun c => c.1 == l) with
        | none =>
          have := List.find?_eq_none.mp hfind c hc1
          simp [hc2] at this
        | some cm => exact rootOf_committed (corr_hsOf u) hf hfind
  obtain ⟨u', p1, p2⟩ := getAcct_is_hGet (corr_hsOf u) hroot q1
  refine ⟨u', sharers, p1, ?_⟩
  -- getAcct only replaces the heap
  have hu' : ∃ h', u' = { u with heap := h' } := by
    unfold getAcct at p1
    rw [hroot, bind_ok] at p1
    cases hg : getTop u.heap ((hsOf u).rootOf l) (E.enc k) (diskGet u k) with
    | panic => rw [hg] at p1; cases p1
    | stuck => rw [hg] at p1; cases p1
    | ok pr =>
      obtain ⟨h', d⟩ := pr
      rw [hg] at p1
      simp only [bind_ok, Res.ok.injEq, Prod.mk.injEq] at p1
      exact ⟨h', p1.1.symm⟩
  obtain ⟨h', hu'⟩ := hu'
  obtain ⟨f1, f2, f3, f4, f5⟩ := aGet_frame a l k sharers
  refine ⟨by rw [hsOf_of_corr p2]; exact q2, ?_, ?_, ?_, ?_, ?_, by rw [f5, hu']; exact hr.ord⟩
  · rw [hu', f1, f2]; exact hr.stable
  · rw [hu', f1]; exact hr.comm
  · intro x; rw [f4 x, hu']; exact hr.blks x
  · intro b hb; rw [hu'] at hb ⊢; exact hr.self b hb
  · intro k'; rw [hu', f3]; exact hr.disk k'

/-- for any other label `GetActDatabase` panics in Go and in the model; nothing changes -/
theorem getAcct_unknown {u : St} {l addr : Nat} {key : Key} (h1 : findBlk u l = none)
    (h2 : ∀ c ∈ u.committed, c.1 ≠ l) : getAcct u l key addr = .panic := by
  unfold getAcct rootOf actDb
  rw [h1]
  have : u.committed.find? (fun c => c.1 == l) = none := by
    apply List.find?_eq_none.mpr
    intro c hc; simpa using h2 c hc
  rw [this]; rfl

end LemoProofs.CowHeapL

/-
  C09 (heap refinement, part 14): `SetStableBlock` of the driver's model — `pathTo` (CollectToParent), per path block
  `commitOne` = `Collect(height)` on the heap + batch write + `Walk`-based pruning — refines the ITERATED abstract
  stabilisation step along the path.
-/
import LemoProofs.Lemmas.CowHeapURel
set_option linter.unusedSimpArgs false
set_option linter.unusedVariables false
namespace LemoProofs.CowHeapL
open LemoModel.CowTrie LemoModel.CowSpec LemoProofs.CowSpecL LemoModel.UTree

theorem findBlk_some {u : St} {l : Nat} {b : Blk} (h : findBlk u l = some b) : b ∈ u.blocks ∧ b.label = l := by
  unfold findBlk at h
  exact ⟨List.mem_of_find?_eq_some h, by simpa using List.find?_some h⟩

/-! ### the batch write of the collected accounts -/

theorem lookup_foldl_cons (k : Nat) : ∀ (ds : List Data) (disk : List (Nat × Nat)),
    (∀ d ∈ ds, ∀ d' ∈ ds, d.addr = k → d'.addr = k → d.val = d'.val) →
    (ds.foldl (fun acc d => (d.addr, d.val) :: acc) disk).lookup k =
      match ds.find? (fun d => d.addr == k) with
      | some d => some d.val
      | none => disk.lookup k
  | [], disk, _ => rfl
  | d :: ds, disk, hu => by
    rw [List.foldl_cons, lookup_foldl_cons k ds _ (fun x hx y hy => hu x (List.mem_cons_of_mem _ hx) y (List.mem_cons_of_mem _ hy)),
      List.find?_cons]
    by_cases e : d.addr = k
    · have e' : (d.addr == k) = true := by simpa using e
      rw [e']
      simp only
      cases hf : ds.find? (fun d => d.addr == k) with
      | none =>
        simp only
        rw [List.lookup_cons]
        have : (k == d.addr) = true := by simpa using e.symm
        rw [this]
      | some d' =>
        simp only
        have h1 := List.mem_of_find?_eq_some hf
        have h2 : d'.addr = k := by simpa using List.find?_some hf
        rw [hu d' (List.mem_cons_of_mem _ h1) d List.mem_cons_self h2 e]
    · have e' : (d.addr == k) = false := by simpa using e
      rw [e']
      simp only
      cases hf : ds.find? (fun d => d.addr == k) with
      | none =>
        simp only
        rw [List.lookup_cons]
        have : (k == d.addr) = false := by simpa using fun h => e h.symm
        rw [this]
      | some d' => rfl

/-- the persisted accounts after writing `Collect(h)`: `persist` of the abstract machine -/
theorem lookup_diskPut {disk : List (Nat × Nat)} {ds : List Data} {adisk : Nat → Option Nat} {t : Nat → Option Entry} {h : Nat}
    (hd : ∀ k, disk.lookup k = adisk k) (hds : ∀ d : Data, d ∈ ds ↔ t d.addr = some ⟨d.val, h⟩) (k : Nat) :
    (diskPut disk ds).lookup k = persist adisk t h k := by
  unfold diskPut persist
  rw [lookup_foldl_cons k ds disk (by
    intro d hd1 d' hd2 e1 e2
    have a1 := (hds d).mp hd1
    have a2 := (hds d').mp hd2
    rw [e1] at a1; rw [e2, a1] at a2
    simp only [Option.some.injEq, Entry.mk.injEq] at a2
    exact a2.1)]
  cases hf : ds.find? (fun d => d.addr == k) with
  | some d =>
    simp only
    have h1 := List.mem_of_find?_eq_some hf
    have h2 : d.addr = k := by simpa using List.find?_some hf
    have := (hds d).mp h1
    rw [h2] at this
    rw [this]; simp
  | none =>
    simp only
    rw [hd k]
    cases ht : t k with
    | none => rfl
    | some e =>
      by_cases he : e.dye = h
      · exfalso
        have : (⟨k, e.val⟩ : Data) ∈ ds := (hds ⟨k, e.val⟩).mpr (by rw [ht, ← he])
        have := List.find?_eq_none.mp hf _ this
        simp at this
      · simp [he]

/-! ### Walk -/

theorem AB.mono {bs : List ABlk} {ex top n x : Nat} (h : AB bs ex top n x) : ∀ {m : Nat}, n ≤ m → AB bs ex top m x := by
  induction h with
  | here z h1 h2 h3 =>
    intro m hm
    cases m with
    | zero => omega
    | succ m => exact AB.here z h1 h2 h3
  | there b0 h1 h2 h3 _ ih =>
    intro m hm
    cases m with
    | zero => omega
    | succ m => exact AB.there b0 h1 h2 h3 (ih (by omega))

theorem URel.of_mem {L : Nat} {E : Enc L} {u : St} {a : ASt} (hr : URel E u a) {b : Blk} (hb : b ∈ u.blocks) :
    ∃ ab, findB a.blocks b.label = some ab ∧ ab ∈ a.blocks ∧ ab.label = b.label ∧ b.height = ab.height ∧
      b.parent = some ab.parent := by
  obtain ⟨ab, h1, h2, h3⟩ := hr.ablk (hr.self b hb)
  exact ⟨ab, h1, (findB_some h1).1, (findB_some h1).2, h2, h3⟩

theorem URel.of_amem {L : Nat} {E : Enc L} {u : St} {a : ASt} (hr : URel E u a) {ab : ABlk} (hb : ab ∈ a.blocks) :
    ∃ b, b ∈ u.blocks ∧ b.label = ab.label ∧ b.height = ab.height ∧ b.parent = some ab.parent := by
  obtain ⟨b, h1, h2, h3⟩ := hr.blk (findB_of_mem hr.cinv.wf ab hb)
  exact ⟨b, (findBlk_some h1).1, (findBlk_some h1).2, h2, h3⟩

theorem walk_mem {L : Nat} {E : Enc L} {u : St} {a : ASt} (hr : URel E u a) (ex : Nat) : ∀ (f top : Nat) (z : Blk),
    z ∈ walk f u.blocks (some top) (some ex) ↔ z ∈ u.blocks ∧ AB a.blocks ex top f z.label
  | 0, top, z => by
    simp only [walk, List.not_mem_nil, false_iff]
    rintro ⟨_, h⟩; cases h
  | f + 1, top, z => by
    rw [walk, List.mem_flatMap]
    constructor
    · rintro ⟨b0, hb0, hz⟩
      rw [List.mem_filter] at hb0
      obtain ⟨hb0m, hb0c⟩ := hb0
      simp only [Bool.and_eq_true, beq_iff_eq, bne_iff_ne, ne_eq, Option.some.injEq] at hb0c
      obtain ⟨ab0, _, q2, q3, _, q5⟩ := hr.of_mem hb0m
      have hp : ab0.parent = top := by rw [q5] at hb0c; simpa using hb0c.1
      have hne : ab0.label ≠ ex := by rw [q3]; exact hb0c.2
      rcases List.mem_cons.mp hz with rfl | hz'
      · refine ⟨hb0m, ?_⟩
        rw [← q3]; exact AB.here ab0 q2 hp hne
      · obtain ⟨h1, h2⟩ := (walk_mem hr ex f b0.label z).mp hz'
        refine ⟨h1, ?_⟩
        rw [← q3] at h2
        exact AB.there ab0 q2 hp hne h2
    · rintro ⟨hz, hab⟩
      generalize hzl : z.label = zl at hab
      cases hab with
      | here az h1 h2 h3 =>
        obtain ⟨ub, g1, g2, _, g4⟩ := hr.of_amem h1
        have : ub = z := by
          have e1 := hr.self ub g1
          have e2 := hr.self z hz
          rw [g2, ← hzl, e2] at e1; cases e1; rfl
        subst this
        refine ⟨ub, ?_, List.mem_cons_self⟩
        rw [List.mem_filter]
        refine ⟨hz, ?_⟩
        simp only [Bool.and_eq_true, beq_iff_eq, bne_iff_ne, ne_eq, Option.some.injEq]
        exact ⟨by rw [g4, h2], by rw [g2]; exact h3⟩
      | there ab0 h1 h2 h3 h4 =>
        obtain ⟨ub0, g1, g2, _, g4⟩ := hr.of_amem h1
        refine ⟨ub0, ?_, List.mem_cons_of_mem _ ?_⟩
        · rw [List.mem_filter]
          refine ⟨g1, ?_⟩
          simp only [Bool.and_eq_true, beq_iff_eq, bne_iff_ne, ne_eq, Option.some.injEq]
          exact ⟨by rw [g4, h2], by rw [g2]; exact h3⟩
        · rw [g2]
          exact (walk_mem hr ex f ab0.label z).mpr ⟨hz, by rw [hzl]; exact h4⟩


theorem URel.stableLabel {L : Nat} {E : Enc L} {u : St} {a : ASt} (hr : URel E u a) : stableLabel u = some a.sl := by
  unfold LemoModel.UTree.stableLabel; rw [hr.stable]; rfl

theorem URel.len {L : Nat} {E : Enc L} {u : St} {a : ASt} (hr : URel E u a) : u.blocks.length = a.blocks.length := by
  have := congrArg List.length hr.ord
  simpa using this

/-- which blocks `clear` keeps when `l` (a child of the stable block) is committed: the strict descendants of `l` -/
theorem keep_iff {L : Nat} {E : Enc L} {u : St} {a : ASt} (hr : URel E u a) {l : Nat} {ab : ABlk}
    (hab : findB a.blocks l = some ab) {x : Blk} (hx : x ∈ u.blocks) :
    (!(((walk (u.blocks.length + 1) u.blocks (stableLabel u) (some l)).map (·.label)).contains x.label) && x.label != l) =
      (decide (x.label ≠ l) && desc a.blocks l x.label) := by
  have hwf := hr.cinv.wf
  have hlsl : l ≠ a.sl := by
    rw [← (findB_some hab).2]; exact wf_label_ne hwf ab (findB_some hab).1
  obtain ⟨ax, _, q2, q3, _, _⟩ := hr.of_mem hx
  have hwalk : (((walk (u.blocks.length + 1) u.blocks (stableLabel u) (some l)).map (·.label)).contains x.label) = true ↔
      (x.label ≠ l ∧ desc a.blocks l x.label = false) := by
    rw [List.contains_iff_mem, List.mem_map, hr.stableLabel]
    constructor
    · rintro ⟨z, hz, hzl⟩
      obtain ⟨h1, h2⟩ := (walk_mem hr l _ a.sl z).mp hz
      rw [hzl] at h2
      exact h2.avoids hwf hlsl (Or.inl rfl)
    · rintro ⟨h1, h2⟩
      refine ⟨x, ?_, rfl⟩
      apply (walk_mem hr l _ a.sl x).mpr
      refine ⟨hx, ?_⟩
      have hh := wf_height hwf ax q2
      have hb := height_bound hwf ax q2
      have := AB.of_not_desc hwf (ax.height - a.sh) ax q2 (by omega) (by rw [q3]; exact h1) (by rw [q3]; exact h2)
      rw [q3] at this
      exact AB.mono this (by rw [hr.len]; omega)
  by_cases h1 : x.label = l
  · have : (x.label != l) = false := by simpa using h1
    simp [h1]
  · have e1 : (x.label != l) = true := by simpa using h1
    have e2 : decide (x.label ≠ l) = true := by simpa using h1
    cases hd : desc a.blocks l x.label with
    | true =>
      have hc : (((walk (u.blocks.length + 1) u.blocks (stableLabel u) (some l)).map (·.label)).contains x.label) = false := by
        cases hcc : ((walk (u.blocks.length + 1) u.blocks (stableLabel u) (some l)).map (·.label)).contains x.label with
        | false => rfl
        | true => have := (hwalk.mp hcc).2; rw [hd] at this; cases this
      rw [hc, e1, e2]; rfl
    | false =>
      have hc : (((walk (u.blocks.length + 1) u.blocks (stableLabel u) (some l)).map (·.label)).contains x.label) = true :=
        hwalk.mpr ⟨h1, hd⟩
      rw [hc, e1, e2]; rfl

theorem findBlk_filter (u : St) (q : Nat → Bool) (x : Nat) :
    (u.blocks.filter (fun b => q b.label)).find? (fun b => b.label == x) =
      if q x then findBlk u x else none := by
  unfold findBlk
  induction u.blocks with
  | nil => simp
  | cons b bs ih =>
    rw [List.filter_cons]
    by_cases hb : b.label = x
    · subst hb
      cases hq : q b.label with
      | true => simp [hq]
      | false =>
        simp only [hq, Bool.false_eq_true, if_false] at ih ⊢
        rw [ih]
    · have hbe : (b.label == x) = false := by simpa using hb
      cases hq : q b.label with
      | true => simp only [if_true, List.find?_cons, hbe]; exact ih
      | false => simp only [Bool.false_eq_true, if_false, List.find?_cons, hbe]; exact ih

/-- the state `commitOne` produces -/
def commitSt (u : St) (b : Blk) (ds : List Data) : St :=
  { u with
    disk := diskPut u.disk ds
    committed := u.committed ++ [(b.label, b.height)]
    stable := some (b.label, b.height)
    stableRoot := b.root
    blocks := u.blocks.filter (fun x =>
      !(((walk (u.blocks.length + 1) u.blocks (stableLabel u) (some b.label)).map (·.label)).contains x.label) &&
        x.label != b.label) }

theorem commitOne_eq {u : St} {b : Blk} {ds : List Data} (h : collectTop u.heap b.root b.height = .ok ds) :
    commitOne u b = .ok (commitSt u b ds,
      (walk (u.blocks.length + 1) u.blocks (stableLabel u) (some b.label)).map (·.label)) := by
  unfold commitOne
  rw [h, bind_ok]
  rfl

/-- **one `commit` iteration** of `SetStableBlock` on the driver's model (`Collect` on the heap, batch write, `Walk`
    pruning) is the abstract stabilisation step -/
theorem urel_commitOne {L : Nat} {E : Enc L} {u : St} {a : ASt} (hr : URel E u a) {b : Blk} (hb : b ∈ u.blocks)
    {ab : ABlk} (hab : findB a.blocks b.label = some ab) (hpar : ab.parent = a.sl) :
    ∃ u' rm a', commitOne u b = .ok (u', rm) ∧ aStable a b.label = some a' ∧ URel E u' a' ∧
      u'.blocks = u.blocks.filter (fun x => decide (x.label ≠ b.label) && desc a.blocks b.label x.label) ∧
      u'.heap = u.heap := by
  have hself := hr.self b hb
  obtain ⟨ub, hub, hh, _⟩ := hr.blk hab
  rw [hself] at hub; cases hub
  -- Collect
  have hroot : (hsOf u).roots b.label = some b.root := by show (findBlk u b.label).map _ = _; rw [hself]; rfl
  obtain ⟨h1, full, vis, h2⟩ := hr.hrel
  obtain ⟨ds, hds1, hds2⟩ := rel_collect h2 hroot hab
  have hcoll : collectTop u.heap b.root b.height = .ok ds := by
    show collectTop (hsOf u).heap b.root b.height = _
    rw [collectTop_sim h1 b.root b.height, hh]; exact hds1
  -- the abstract step
  have hast : aStable a b.label = some (⟨b.label, ab.height, ab.tbl, prune b.label a.blocks,
      persist a.disk ab.tbl ab.height⟩ : ASt) := by
    unfold aStable
    rw [hab]
    simp only
    rw [if_neg (by simpa using hpar)]
  have hfilt : u.blocks.filter (fun x => !(((walk (u.blocks.length + 1) u.blocks (stableLabel u) (some b.label)).map
      (·.label)).contains x.label) && x.label != b.label) =
      u.blocks.filter (fun x => decide (x.label ≠ b.label) && desc a.blocks b.label x.label) := by
    apply List.filter_congr
    intro x hx
    exact keep_iff hr hab hx
  refine ⟨_, _, _, commitOne_eq hcoll, hast, ?_, ?_, rfl⟩
  · -- the relation
    have hrel' := hrel_stable hr.hrel hast
    generalize ha' : (⟨b.label, ab.height, ab.tbl, prune b.label a.blocks,
      persist a.disk ab.tbl ab.height⟩ : ASt) = a' at hrel' hast
    have hblocks : a'.blocks = prune b.label a.blocks := by rw [← ha']
    have hinv' : CInv a' := inv_stable hr.cinv hast
    have hwf' : WF b.label ab.height (prune b.label a.blocks) := by
      have := hinv'.wf; rw [← ha'] at this; exact this
    have hfp : ∀ x bx, findB a'.blocks x = some bx ↔ findB a.blocks x = some bx ∧ x ≠ b.label ∧ desc a.blocks b.label x = true := by
      intro x bx; rw [hblocks]; exact findB_prune hr.cinv.wf hwf' x bx
    have hfind' : ∀ x, findBlk (commitSt u b ds) x =
        if (decide (x ≠ b.label) && desc a.blocks b.label x) then findBlk u x else none := by
      intro x
      show List.find? _ (u.blocks.filter _) = _
      rw [hfilt]
      exact findBlk_filter u (fun y => decide (y ≠ b.label) && desc a.blocks b.label y) x
    have hkeepsome : ∀ x, (decide (x ≠ b.label) && desc a.blocks b.label x) = true → (findB a.blocks x).isSome →
        (findB a'.blocks x).isSome := by
      intro x hk hs
      cases hf : findB a.blocks x with
      | none => rw [hf] at hs; cases hs
      | some bx =>
        simp only [Bool.and_eq_true, decide_eq_true_eq] at hk
        rw [(hfp x bx).mpr ⟨hf, hk.1, hk.2⟩]; rfl
    refine ⟨?_, ?_, ?_, ?_, ?_, ?_, ?_⟩
    · -- HRel
      have : hsOf (commitSt u b ds) = hStable (hsOf u) a' b.label := by
        unfold hsOf hStable
        congr 1
        · show b.root = (hsOf u).rootOf b.label
          unfold HSt.rootOf; rw [hroot]; rfl
        · funext x
          simp only
          rw [hfind']
          by_cases hk : (decide (x ≠ b.label) && desc a.blocks b.label x) = true
          · rw [if_pos hk]
            cases hfx : findBlk u x with
            | none =>
              simp only [Option.map_none]
              split <;> rfl
            | some bx =>
              have := hkeepsome x hk ((hr.live_iff x).mp (by rw [hfx]; rfl))
              rw [if_pos this]
          · rw [if_neg hk]
            have : ¬ (findB a'.blocks x).isSome = true := by
              intro hs
              cases hf : findB a'.blocks x with
              | none => rw [hf] at hs; cases hs
              | some bx =>
                obtain ⟨_, q2, q3⟩ := (hfp x bx).mp hf
                apply hk
                simp [q2, q3]
            rw [if_neg this]; rfl
      rw [this]; exact hrel'
    · show some (b.label, b.height) = some (a'.sl, a'.sh)
      rw [← ha', hh]
    · refine ⟨(b.label, b.height), ?_, ?_⟩
      · show (b.label, b.height) ∈ u.committed ++ [(b.label, b.height)]
        simp
      · rw [← ha']
    · intro x
      rw [hfind']
      by_cases hk : (decide (x ≠ b.label) && desc a.blocks b.label x) = true
      · rw [if_pos hk]
        have := hr.blks x
        cases hfa : findB a.blocks x with
        | none =>
          rw [hfa] at this
          cases hfa' : findB a'.blocks x with
          | none => rw [this]
          | some bx => have := ((hfp x bx).mp hfa').1; rw [hfa] at this; cases this
        | some bx =>
          simp only [Bool.and_eq_true, decide_eq_true_eq] at hk
          rw [(hfp x bx).mpr ⟨hfa, hk.1, hk.2⟩, ← hfa]; exact this
      · rw [if_neg hk]
        cases hfa' : findB a'.blocks x with
        | none => rfl
        | some bx =>
          obtain ⟨_, q2, q3⟩ := (hfp x bx).mp hfa'
          exfalso; apply hk; simp [q2, q3]
    · intro x hx
      have hx' : x ∈ u.blocks.filter (fun x => !(((walk (u.blocks.length + 1) u.blocks (stableLabel u) (some b.label)).map
          (·.label)).contains x.label) && x.label != b.label) := hx
      rw [hfilt, List.mem_filter] at hx'
      rw [hfind', if_pos hx'.2]
      exact hr.self x hx'.1
    · intro k
      show (diskPut u.disk ds).lookup k = a'.disk k
      rw [← ha']
      exact lookup_diskPut hr.disk hds2 k
    · show (u.blocks.filter _).map (·.label) = _
      rw [hfilt, hblocks, prune_eq_filter hr.cinv.wf]
      have e1 : (u.blocks.filter (fun x => decide (x.label ≠ b.label) && desc a.blocks b.label x.label)).map (·.label) =
          (u.blocks.map (·.label)).filter (fun y => decide (y ≠ b.label) && desc a.blocks b.label y) := by
        rw [List.filter_map]; rfl
      have e2 : (a.blocks.filter (fun y => decide (y.label ≠ b.label) && desc a.blocks b.label y.label)).map (·.label) =
          (a.blocks.map (·.label)).filter (fun y => decide (y ≠ b.label) && desc a.blocks b.label y) := by
        rw [List.filter_map]; rfl
      rw [e1, e2, hr.ord, List.filter_reverse]
  · show u.blocks.filter _ = _
    exact hfilt


/-! ### the committed path -/

/-- `cs` (oldest first) is a chain of unconfirmed blocks hanging below the label `top` -/
def ChainU (u : St) : Nat → List Blk → Prop
  | _, [] => True
  | top, c :: cs => c ∈ u.blocks ∧ c.parent = some top ∧ ChainU u c.label cs

def lastLabel : Nat → List Blk → Nat
  | top, [] => top
  | _, c :: cs => lastLabel c.label cs

theorem chain_snoc {u : St} : ∀ {top : Nat} {ys : List Blk} {b : Blk}, ChainU u top ys → b ∈ u.blocks →
    b.parent = some (lastLabel top ys) → ChainU u top (ys ++ [b]) ∧ lastLabel top (ys ++ [b]) = b.label
  | _, [], b, _, h1, h2 => ⟨⟨h1, h2, trivial⟩, rfl⟩
  | _, c :: cs, b, ⟨g1, g2, g3⟩, h1, h2 => by
    obtain ⟨q1, q2⟩ := chain_snoc (top := c.label) g3 h1 h2
    exact ⟨⟨g1, g2, q1⟩, q2⟩

theorem chain_desc {L : Nat} {E : Enc L} {u : St} {a : ASt} (hr : URel E u a) (c0 : Nat) : ∀ {t : Nat} {cs : List Blk},
    ChainU u t cs → (t = c0 ∨ desc a.blocks c0 t = true) → ∀ x ∈ cs, desc a.blocks c0 x.label = true
  | _, [], _, _, _, hx => by cases hx
  | t, c :: cs, ⟨g1, g2, g3⟩, ht, x, hx => by
    obtain ⟨ac, _, q2, q3, _, q5⟩ := hr.of_mem g1
    have hp : ac.parent = t := by rw [q5] at g2; simpa using g2
    have hc : desc a.blocks c0 c.label = true := by
      rw [← q3]; exact desc_child hr.cinv.wf ac q2 hp ht
    rcases List.mem_cons.mp hx with rfl | hx'
    · exact hc
    · exact chain_desc hr c0 g3 (Or.inr hc) x hx'

theorem chain_transfer {u u1 : St} : ∀ {t : Nat} {cs : List Blk}, ChainU u t cs → (∀ x ∈ cs, x ∈ u1.blocks) → ChainU u1 t cs
  | _, [], _, _ => trivial
  | _, c :: cs, ⟨_, g2, g3⟩, h => ⟨h c List.mem_cons_self, g2, chain_transfer g3 (fun x hx => h x (List.mem_cons_of_mem _ hx))⟩

/-- `CollectToParent`: the path from `l` up to (excluding) the stable block, newest first; reversed it is a chain below
    the stable block that ends in `l` -/
theorem pathTo_chain {L : Nat} {E : Enc L} {u : St} {a : ASt} (hr : URel E u a) : ∀ (d f l : Nat) (b : Blk),
    findBlk u l = some b → b.height = a.sh + d → d ≤ f →
    ChainU u a.sl (pathTo f u l).reverse ∧ lastLabel a.sl (pathTo f u l).reverse = l ∧ pathTo f u l ≠ []
  | 0, _, l, b, hb, hh, _ => by
    obtain ⟨ab, h1, h2, _⟩ := hr.ablk hb
    have := wf_height hr.cinv.wf ab (findB_some h1).1
    omega
  | d + 1, 0, _, _, _, _, hf => by omega
  | d + 1, f + 1, l, b, hb, hh, hf => by
    obtain ⟨hbm, hbl⟩ := findBlk_some hb
    obtain ⟨ab, h1, h2, h3⟩ := hr.ablk hb
    have habm := (findB_some h1).1
    unfold pathTo
    rw [hb]
    simp only
    rcases wf_parent_height hr.cinv.wf ab habm with ⟨hp, _⟩ | ⟨pa, hpa, hpl, hph⟩
    · have hl : isLast u b.parent = true := by
        unfold isLast; rw [hr.stableLabel, h3, hp]; simp
      rw [if_pos hl]
      simp only [List.reverse_cons, List.reverse_nil, List.nil_append]
      exact ⟨⟨hbm, by rw [h3, hp], trivial⟩, hbl, by simp⟩
    · have hpsl : pa.label ≠ a.sl := wf_label_ne hr.cinv.wf pa hpa
      have hl : ¬ isLast u b.parent = true := by
        unfold isLast; rw [hr.stableLabel, h3, ← hpl]; simpa using hpsl
      rw [if_neg hl, h3]
      simp only
      obtain ⟨pb, g1, g2, _⟩ := hr.blk (findB_of_mem hr.cinv.wf pa hpa)
      rw [hpl] at g1
      obtain ⟨q1, q2, q3⟩ := pathTo_chain hr d f ab.parent pb g1 (by omega) (by omega)
      rw [List.reverse_cons]
      obtain ⟨r1, r2⟩ := chain_snoc q1 hbm (by rw [q2]; exact h3)
      exact ⟨r1, by rw [r2]; exact hbl, by simp⟩

/-- committing a chain block by block -/
theorem commit_chain {L : Nat} {E : Enc L} (F : St × List Nat → Blk → Res (St × List Nat))
    (hF : ∀ acc b, F acc b = (commitOne acc.1 b >>= fun p => Res.ok (p.1, acc.2 ++ p.2))) :
    ∀ (cs : List Blk) (u : St) (a : ASt) (rm0 : List Nat), URel E u a → ChainU u a.sl cs →
    ∃ u' rm, cs.foldlM F (u, rm0) = .ok (u', rm) ∧ URel E u' (run a (cs.map (fun c => Op.stable c.label))) ∧
      StableChain a (cs.map (·.label)) ∧ u'.heap = u.heap
  | [], u, a, rm0, hr, _ => ⟨u, rm0, rfl, hr, trivial, rfl⟩
  | c :: cs, u, a, rm0, hr, ⟨g1, g2, g3⟩ => by
    obtain ⟨ac, q1, q2, q3, _, q5⟩ := hr.of_mem g1
    have hp : ac.parent = a.sl := by rw [q5] at g2; simpa using g2
    obtain ⟨u1, rm1, a1, e1, e2, e3, e4, e5⟩ := urel_commitOne hr g1 q1 hp
    have ha1sl : a1.sl = c.label := by
      obtain ⟨b', _, _, rfl⟩ := aStable_eq e2; rfl
    have hchain1 : ChainU u1 a1.sl cs := by
      rw [ha1sl]
      apply chain_transfer g3
      intro x hx
      rw [e4, List.mem_filter]
      have hd := chain_desc hr c.label g3 (Or.inl rfl) x hx
      have hxm : x ∈ u.blocks := by
        clear hd
        revert hx
        generalize c.label = t at g3
        induction cs generalizing t with
        | nil => intro hx; cases hx
        | cons y ys ih =>
          intro hx
          obtain ⟨a1', _, a3'⟩ := g3
          rcases List.mem_cons.mp hx with rfl | hx'
          · exact a1'
          · exact ih _ a3' hx'
      refine ⟨hxm, ?_⟩
      have := desc_ne hr.cinv.wf hd
      simp [this, hd]
    obtain ⟨u', rm, f1, f2, f3, f4⟩ := commit_chain F hF cs u1 a1 (rm0 ++ rm1) e3 hchain1
    refine ⟨u', rm, ?_, ?_, ⟨a1, e2, f3⟩, by rw [f4, e5]⟩
    · rw [List.foldlM_cons, hF, e1, bind_ok, bind_ok]; exact f1
    · have : run a ((c :: cs).map (fun c => Op.stable c.label)) = run a1 (cs.map (fun c => Op.stable c.label)) := by
        have h0 := run_stable_cons a c.label (cs.map (·.label)) e2
        simp only [List.map_map, List.map_cons] at h0 ⊢
        exact h0
      rw [this]; exact f2

/-- **`SetStableBlock` of the driver's model**: for an unconfirmed block it commits the whole path from the old
    stable block, and the result is related to the abstract machine after the corresponding stabilisation steps -/
theorem urel_setStable {L : Nat} {E : Enc L} {u : St} {a : ASt} (hr : URel E u a) {l : Nat} {b : Blk}
    (hb : findBlk u l = some b) :
    ∃ u' rm cs, setStable u l = .ok (some (u', rm)) ∧ URel E u' (run a (cs.map Op.stable)) ∧ StableChain a cs ∧
      cs ≠ [] ∧ cs.getLast? = some l ∧ u'.heap = u.heap := by
  obtain ⟨ab, h1, h2, _⟩ := hr.ablk hb
  have hhb := height_bound hr.cinv.wf ab (findB_some h1).1
  have hhl := wf_height hr.cinv.wf ab (findB_some h1).1
  obtain ⟨q1, q2, q3⟩ := pathTo_chain hr (ab.height - a.sh) (u.blocks.length + 1) l b hb (by omega)
    (by rw [hr.len]; omega)
  obtain ⟨u', rm, f1, f2, f3, f4⟩ := commit_chain (E := E)
    (fun (acc : St × List Nat) b => do
        let (s1, rm) ← commitOne acc.1 b
        .ok (s1, acc.2 ++ rm)) (fun acc b => rfl) (pathTo (u.blocks.length + 1) u l).reverse u a [] hr q1
  refine ⟨u', rm, (pathTo (u.blocks.length + 1) u l).reverse.map (·.label), ?_, ?_, f3, ?_, ?_, f4⟩
  · unfold setStable
    rw [hb]
    simp only
    rw [f1]
  · simp only [List.map_map]; exact f2
  · intro h0
    apply q3
    have := congrArg List.length h0
    simp at this
    exact List.eq_nil_of_length_eq_zero (by simpa using this)
  · -- the last committed block is `l`
    have hlast : ∀ (t : Nat) (ys : List Blk), ys ≠ [] → (ys.map (·.label)).getLast? = some (lastLabel t ys) := by
      intro t ys
      induction ys generalizing t with
      | nil => intro h; exact absurd rfl h
      | cons y ys ih =>
        intro _
        cases ys with
        | nil => rfl
        | cons z zs =>
          have := ih y.label (by simp)
          simp only [List.map_cons, lastLabel] at this ⊢
          rw [List.getLast?_cons_cons]; exact this
    rw [hlast a.sl _ (by intro h0; apply q3; simpa using h0), q2]

/-- for a label that is not unconfirmed `SetStableBlock` answers ErrArgInvalid and changes nothing -/
theorem setStable_unknown {u : St} {l : Nat} (h : findBlk u l = none) : setStable u l = .ok none := by
  unfold setStable; rw [h]

end LemoProofs.CowHeapL

/-
  C09 (heap refinement, part 11): the operations of the driver's model `LemoModel.UTree` (`setBlock`,
  `putAcct true`, `getAcct`) ARE the heap-level operations `hSetBlock` / `hPut` / `hGet` of `CowHeapTop.lean`
  under the obvious correspondence of states (same heap, same stable root, root of label = root of the block).
-/
import LemoProofs.Lemmas.CowHeapTop
import LemoModel.UTree
set_option linter.unusedSimpArgs false
set_option linter.unusedVariables false
namespace LemoProofs.CowHeapL
open LemoModel.CowTrie LemoModel.UTree

/-- the unconfirmed-tree state `u` of the driver's model carries the heap-level state `s` -/
def Corr (u : St) (s : HSt) : Prop :=
  u.heap = s.heap ∧ u.stableRoot = s.sroot ∧ ∀ l, s.roots l = (findBlk u l).map (·.root)

theorem find_map_pres (f : Blk → Blk) (p : Blk → Bool) (h : ∀ b, p (f b) = p b) (bs : List Blk) :
    (bs.map f).find? p = (bs.find? p).map f := by
  induction bs with
  | nil => rfl
  | cons b bs ih =>
    simp only [List.map_cons, List.find?_cons, h]
    cases p b <;> simp [ih]

/-- `GetActDatabase(l).Put` of the driver's model, for an unconfirmed block `l`, is `hPut` -/
theorem putAcct_is_hPut {L : Nat} {E : Enc L} {u : St} {s s' : HSt} (hc : Corr u s) {l k v : Nat} {b : Blk}
    (hb : findBlk u l = some b) (hp : hPut E s l k v b.height = some s') :
    ∃ u', putAcct true u l (E.enc k) k v = .ok u' ∧ Corr u' s' := by
  obtain ⟨c1, c2, c3⟩ := hc
  unfold hPut at hp
  rw [c3 l, hb] at hp
  simp only [Option.map_some] at hp
  unfold putAcct actDb
  rw [hb]
  simp only
  rw [c1]
  show ∃ u', (putTopFixed s.heap b.root (E.enc k) (some (dataK k v)) b.height >>= _) = _ ∧ _
  cases hput : putTopFixed s.heap b.root (E.enc k) (some (dataK k v)) b.height with
  | panic => rw [hput] at hp; cases hp
  | stuck => rw [hput] at hp; cases hp
  | ok pr =>
    obtain ⟨h', r'⟩ := pr
    rw [hput] at hp
    simp only [Option.some.injEq] at hp
    subst hp
    refine ⟨_, rfl, rfl, c2, ?_⟩
    intro x
    show (if x = l then some r' else s.roots x) = (findBlk (setRoot { u with heap := h' } l r') x).map (·.root)
    have hfm : findBlk (setRoot { u with heap := h' } l r') x =
        (findBlk u x).map (fun b => if b.label == l then { b with root := r' } else b) := by
      unfold findBlk setRoot
      simp only
      apply find_map_pres
      intro b0; split <;> rfl
    rw [hfm, c3 x]
    cases hfx : findBlk u x with
    | none =>
      have : x ≠ l := by intro e; rw [e, hb] at hfx; cases hfx
      simp [this]
    | some bx =>
      have hbl : bx.label = x := by
        unfold findBlk at hfx
        have := List.find?_some hfx
        simpa using this
      by_cases e : x = l
      · simp [e, hbl]
      · have : ¬ bx.label = l := by rw [hbl]; exact e
        simp [e, this]

/-- the trie the driver's model hands out for an unconfirmed block is the heap-level `rootOf` -/
theorem rootOf_live {u : St} {s : HSt} (hc : Corr u s) {l : Nat} {b : Blk} (hb : findBlk u l = some b) :
    rootOf u l = .ok (s.rootOf l) := by
  unfold rootOf actDb HSt.rootOf
  rw [hb, hc.2.2 l, hb]; rfl

/-- … and for a label that is not unconfirmed but in the block store it is LastConfirm's -/
theorem rootOf_committed {u : St} {s : HSt} (hc : Corr u s) {l : Nat} (hb : findBlk u l = none) {cm : Nat × Nat}
    (hcm : u.committed.find? (fun c => c.1 == l) = some cm) : rootOf u l = .ok (s.rootOf l) := by
  unfold rootOf actDb HSt.rootOf
  rw [hb, hcm, hc.2.2 l, hb, hc.2.1]; rfl

/-- `GetActDatabase(l).Get` of the driver's model is `hGet` (for any label whose trie the model hands out) -/
theorem getAcct_is_hGet {L : Nat} {E : Enc L} {u : St} {s s' : HSt} (hc : Corr u s) {l k : Nat} {val : Option Nat}
    (hroot : rootOf u l = .ok (s.rootOf l)) (hg : hGet E s l k (u.disk.lookup k) = some (s', val)) :
    ∃ u', getAcct u l (E.enc k) k = .ok (u', val) ∧ Corr u' s' := by
  obtain ⟨c1, c2, c3⟩ := hc
  unfold hGet at hg
  unfold getAcct
  rw [hroot, bind_ok, c1]
  have hd : diskGet u k = (u.disk.lookup k).map (dataK k) := by
    unfold diskGet dataK
    cases u.disk.lookup k <;> rfl
  rw [hd]
  cases hget : getTop s.heap (s.rootOf l) (E.enc k) ((u.disk.lookup k).map (dataK k)) with
  | panic => rw [hget] at hg; cases hg
  | stuck => rw [hget] at hg; cases hg
  | ok pr =>
    obtain ⟨h', d⟩ := pr
    rw [hget] at hg
    simp only [Option.some.injEq, Prod.mk.injEq] at hg
    obtain ⟨g1, g2⟩ := hg
    subst g1
    rw [bind_ok]
    refine ⟨{ u with heap := h' }, ?_, rfl, c2, c3⟩
    rw [← g2]

/-- `SetBlock` of the driver's model (when it accepts a block with a parent) is `hSetBlock` -/
theorem setBlock_is_hSetBlock {u u' : St} {s : HSt} (hc : Corr u s) {l p h : Nat}
    (hs : setBlock u l (some p) h = .ok u') : Corr u' (hSetBlock s l p) := by
  obtain ⟨c1, c2, c3⟩ := hc
  unfold setBlock at hs
  split at hs
  · cases hs
  · rename_i hfresh
    have hfl : findBlk u l = none := by
      cases hf : findBlk u l with
      | none => rfl
      | some b => simp [hf] at hfresh
    have key : ∀ (r : Nat), r = s.rootOf p →
        Corr { u with blocks := u.blocks ++ [{ label := l, height := h, parent := some p, root := r }] } (hSetBlock s l p) := by
      intro r hr
      refine ⟨c1, c2, ?_⟩
      intro x
      show (if x = l then some (s.rootOf p) else s.roots x) = _
      unfold findBlk
      simp only [List.find?_append]
      by_cases e : x = l
      · subst e
        unfold findBlk at hfl
        simp [hfl, hr]
      · have : (l == x) = false := by simpa using fun h => e h.symm
        rw [c3 x]
        unfold findBlk
        cases u.blocks.find? (fun b => b.label == x) with
        | none => simp [e, this]
        | some b => simp [e]
    split at hs
    · split at hs
      · cases hs
      · rename_i hcnd
        simp at hcnd
    · rename_i sl sh _
      split at hs
      · cases hs
      · split at hs
        · cases hs
        · simp only at hs
          cases hfp : findBlk u p with
          | none =>
            rw [hfp] at hs
            simp only at hs
            split at hs
            · cases hs
            · split at hs
              · cases hs
              · cases hs
                apply key
                unfold HSt.rootOf
                rw [c3 p, hfp]; exact c2
          | some pb =>
            rw [hfp] at hs
            simp only at hs
            split at hs
            · cases hs
            · cases hs
              apply key
              unfold HSt.rootOf
              rw [c3 p, hfp]; rfl

end LemoProofs.CowHeapL

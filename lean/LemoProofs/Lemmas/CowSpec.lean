/-
  Helper lemmas for C09 (abstract copy-on-write machine `LemoModel.CowSpec`).
-/
import LemoModel.CowSpec
namespace LemoProofs.CowSpecL
open LemoModel.CowSpec

/-- the unconfirmed blocks form a tree below the stable block: labels are distinct and differ from
    the stable label, every parent is the stable block or an OLDER unconfirmed block, heights step by 1 -/
def WF (sl sh : Nat) : List ABlk → Prop
  | [] => True
  | b :: older => WF sl sh older ∧ b.label ≠ sl ∧ (∀ x ∈ older, x.label ≠ b.label) ∧
      ((b.parent = sl ∧ b.height = sh + 1) ∨ (∃ p ∈ older, p.label = b.parent ∧ b.height = p.height + 1))

/-- the invariant tying every table to the specification -/
structure CInv (s : ASt) : Prop where
  wf : WF s.sl s.sh s.blocks
  J1 : ∀ b ∈ s.blocks, ∀ k h v, specWriter s.blocks b.label k = some (h, v) → b.tbl k = some ⟨v, h⟩
  J2 : ∀ b ∈ s.blocks, ∀ k, specWriter s.blocks b.label k = none →
        ∀ e, b.tbl k = some e → s.disk k = some e.val ∧ e.dye ≤ s.sh
  S : ∀ k e, s.stbl k = some e → s.disk k = some e.val ∧ e.dye ≤ s.sh

/-! ### lists of blocks -/

theorem wf_label_ne {sl sh : Nat} : ∀ {bs : List ABlk}, WF sl sh bs → ∀ x ∈ bs, x.label ≠ sl
  | [], _, _, hx => by cases hx
  | b :: older, h, x, hx => by
    obtain ⟨h1, h2, _, _⟩ := h
    rcases List.mem_cons.mp hx with rfl | hx
    · exact h2
    · exact wf_label_ne h1 x hx

theorem wf_height {sl sh : Nat} : ∀ {bs : List ABlk}, WF sl sh bs → ∀ x ∈ bs, sh < x.height
  | [], _, _, hx => by cases hx
  | b :: older, h, x, hx => by
    obtain ⟨h1, _, _, h4⟩ := h
    rcases List.mem_cons.mp hx with rfl | hx
    · rcases h4 with ⟨_, hh⟩ | ⟨p, hp, _, hh⟩
      · omega
      · have := wf_height h1 p hp; omega
    · exact wf_height h1 x hx

theorem findB_some {bs : List ABlk} {l : Nat} {b : ABlk} : findB bs l = some b → b ∈ bs ∧ b.label = l := by
  induction bs with
  | nil => intro h; cases h
  | cons y older ih =>
    intro h
    unfold findB at h
    split at h
    · cases h; exact ⟨List.mem_cons_self, by assumption⟩
    · obtain ⟨h1, h2⟩ := ih h; exact ⟨List.mem_cons_of_mem _ h1, h2⟩

theorem findB_none {bs : List ABlk} {l : Nat} : findB bs l = none → ∀ x ∈ bs, x.label ≠ l := by
  induction bs with
  | nil => intro _ x hx; cases hx
  | cons y older ih =>
    intro h x hx
    unfold findB at h
    split at h
    · cases h
    · rcases List.mem_cons.mp hx with rfl | hx
      · assumption
      · exact ih h x hx

theorem findB_none_of {bs : List ABlk} {l : Nat} : (∀ x ∈ bs, x.label ≠ l) → findB bs l = none := by
  induction bs with
  | nil => intro _; rfl
  | cons y older ih =>
    intro h
    unfold findB
    have := h y List.mem_cons_self
    simp only [this, if_false]
    exact ih (fun x hx => h x (List.mem_cons_of_mem _ hx))

theorem findB_of_mem {sl sh : Nat} : ∀ {bs : List ABlk}, WF sl sh bs → ∀ b ∈ bs, findB bs b.label = some b
  | [], _, _, hb => by cases hb
  | y :: older, h, b, hb => by
    obtain ⟨h1, _, h3, _⟩ := h
    unfold findB
    rcases List.mem_cons.mp hb with rfl | hb
    · simp
    · have : y.label ≠ b.label := fun e => h3 b hb e.symm
      simp only [this, if_false]
      exact findB_of_mem h1 b hb

/-! ### specWriter -/

theorem sw_none_of_not_label {bs : List ABlk} {l : Nat} (k : Nat) :
    (∀ x ∈ bs, x.label ≠ l) → specWriter bs l k = none := by
  induction bs with
  | nil => intro _; rfl
  | cons y older ih =>
    intro h
    unfold specWriter
    have := h y List.mem_cons_self
    simp only [this, if_false]
    exact ih (fun x hx => h x (List.mem_cons_of_mem _ hx))

/-- a writer found by the specification is a real unconfirmed block: above the stable height, not above
    the asking block, and at the asking block's own height only if it IS that block -/
theorem sw_bounds {sl sh : Nat} : ∀ {bs : List ABlk}, WF sl sh bs → ∀ {l k h v : Nat},
    specWriter bs l k = some (h, v) →
    sh < h ∧ ∀ b ∈ bs, b.label = l → h ≤ b.height ∧ (h = b.height → b.writes k = some v)
  | [], _, _, _, _, _, hs => by cases hs
  | y :: older, hwf, l, k, h, v, hs => by
    obtain ⟨h1, h2, h3, h4⟩ := hwf
    unfold specWriter at hs
    by_cases hyl : y.label = l
    · simp only [hyl, if_true] at hs
      have only_y : ∀ b ∈ y :: older, b.label = l → b = y := by
        intro b hb hbl
        rcases List.mem_cons.mp hb with rfl | hb
        · rfl
        · exact absurd (hbl.trans hyl.symm) (h3 b hb)
      cases hw : y.writes k with
      | some v' =>
        rw [hw] at hs
        simp only [Option.some.injEq, Prod.mk.injEq] at hs
        obtain ⟨rfl, rfl⟩ := hs
        refine ⟨wf_height (sl := sl) (bs := y :: older) ⟨h1, h2, h3, h4⟩ y List.mem_cons_self, ?_⟩
        intro b hb hbl
        rw [only_y b hb hbl]
        exact ⟨Nat.le_refl _, fun _ => hw⟩
      | none =>
        rw [hw] at hs
        simp only at hs
        rcases h4 with ⟨hp, _⟩ | ⟨p, hp, hpl, hh⟩
        · rw [hp, sw_none_of_not_label k (wf_label_ne h1)] at hs; cases hs
        · obtain ⟨ha, hb⟩ := sw_bounds h1 hs
          refine ⟨ha, ?_⟩
          intro b hb' hbl
          rw [only_y b hb' hbl]
          have := (hb p hp hpl).1
          exact ⟨by omega, fun e => by omega⟩
    · simp only [hyl, if_false] at hs
      obtain ⟨ha, hb⟩ := sw_bounds h1 hs
      refine ⟨ha, ?_⟩
      intro b hb' hbl
      rcases List.mem_cons.mp hb' with rfl | hb'
      · exact absurd hbl hyl
      · exact hb b hb' hbl

theorem sw_of_writes {sl sh : Nat} : ∀ {bs : List ABlk}, WF sl sh bs → ∀ b ∈ bs, ∀ {k v : Nat},
    b.writes k = some v → specWriter bs b.label k = some (b.height, v)
  | [], _, _, hb, _, _, _ => by cases hb
  | y :: older, hwf, b, hb, k, v, hw => by
    obtain ⟨h1, _, h3, _⟩ := hwf
    unfold specWriter
    rcases List.mem_cons.mp hb with rfl | hb
    · simp [hw]
    · have : y.label ≠ b.label := fun e => h3 b hb e.symm
      simp only [this, if_false]
      exact sw_of_writes h1 b hb hw

/-- for a child of the stable block the specification only looks at the block's own writes -/
theorem sw_child_of_stable {sl sh : Nat} : ∀ {bs : List ABlk}, WF sl sh bs → ∀ b ∈ bs, b.parent = sl →
    ∀ k, specWriter bs b.label k = (b.writes k).map (fun v => (b.height, v))
  | [], _, _, hb, _, _ => by cases hb
  | y :: older, hwf, b, hb, hp, k => by
    obtain ⟨h1, _, h3, _⟩ := hwf
    unfold specWriter
    rcases List.mem_cons.mp hb with rfl | hb
    · simp only [if_true]
      cases hw : b.writes k with
      | some v => simp
      | none => simp only [Option.map_none]; rw [hp]; exact sw_none_of_not_label k (wf_label_ne h1)
    · have : y.label ≠ b.label := fun e => h3 b hb e.symm
      simp only [this, if_false]
      exact sw_child_of_stable h1 b hb hp k

/-- the specification depends only on labels, parents, heights and write sets -/
theorem sw_map_congr (g : ABlk → ABlk)
    (hl : ∀ b, (g b).label = b.label) (hp : ∀ b, (g b).parent = b.parent)
    (hh : ∀ b, (g b).height = b.height) (hw : ∀ b, (g b).writes = b.writes) :
    ∀ (bs : List ABlk) (l k : Nat), specWriter (bs.map g) l k = specWriter bs l k
  | [], _, _ => rfl
  | y :: older, l, k => by
    simp only [List.map_cons]
    unfold specWriter
    rw [hl, hp, hh, hw, sw_map_congr g hl hp hh hw older, sw_map_congr g hl hp hh hw older]

theorem wf_map (g : ABlk → ABlk)
    (hl : ∀ b, (g b).label = b.label) (hp : ∀ b, (g b).parent = b.parent)
    (hh : ∀ b, (g b).height = b.height) {sl sh : Nat} :
    ∀ {bs : List ABlk}, WF sl sh bs → WF sl sh (bs.map g)
  | [], _ => trivial
  | y :: older, h => by
    obtain ⟨h1, h2, h3, h4⟩ := h
    simp only [List.map_cons]
    refine ⟨wf_map g hl hp hh h1, by rw [hl]; exact h2, ?_, ?_⟩
    · intro x hx
      obtain ⟨x0, hx0, rfl⟩ := List.mem_map.mp hx
      rw [hl, hl]; exact h3 x0 hx0
    · rcases h4 with ⟨a, b⟩ | ⟨p, hp', hpl, hph⟩
      · left; rw [hp, hh]; exact ⟨a, b⟩
      · right; exact ⟨g p, List.mem_map.mpr ⟨p, hp', rfl⟩, by rw [hl, hp]; exact hpl, by rw [hh, hh]; exact hph⟩

/-- writes of a block that nobody descends from are invisible to every other block -/
theorem sw_updB_other (f : ABlk → ABlk) (l : Nat)
    (hl : ∀ b, (f b).label = b.label) (hp : ∀ b, (f b).parent = b.parent) (hh : ∀ b, (f b).height = b.height) :
    ∀ (bs : List ABlk), (∀ y ∈ bs, y.parent ≠ l) → ∀ (l' k : Nat), l' ≠ l →
      specWriter (updB bs l f) l' k = specWriter bs l' k
  | [], _, _, _, _ => rfl
  | y :: older, hleaf, l', k, hne => by
    have ih := sw_updB_other f l hl hp hh older (fun z hz => hleaf z (List.mem_cons_of_mem _ hz))
    unfold updB at *
    simp only [List.map_cons]
    by_cases hy : y.label = l
    · simp only [hy, if_true]
      unfold specWriter
      have : (f y).label ≠ l' := by rw [hl, hy]; exact fun e => hne e.symm
      have h2 : y.label ≠ l' := by rw [hy]; exact fun e => hne e.symm
      simp only [this, h2, if_false]
      exact ih l' k hne
    · simp only [hy, if_false]
      unfold specWriter
      by_cases hyl : y.label = l'
      · simp only [hyl, if_true]
        cases y.writes k with
        | some v => rfl
        | none => exact ih y.parent k (hleaf y List.mem_cons_self)
      · simp only [hyl, if_false]
        exact ih l' k hne

theorem mem_updB {bs : List ABlk} {l : Nat} {f : ABlk → ABlk} {b' : ABlk} :
    b' ∈ updB bs l f ↔ ∃ b ∈ bs, b' = if b.label = l then f b else b := by
  unfold updB
  rw [List.mem_map]
  constructor
  · rintro ⟨b, hb, rfl⟩; exact ⟨b, hb, rfl⟩
  · rintro ⟨b, hb, rfl⟩; exact ⟨b, hb, rfl⟩

theorem updB_eq_map (bs : List ABlk) (l : Nat) (f : ABlk → ABlk) :
    updB bs l f = bs.map (fun b => if b.label = l then f b else b) := rfl

theorem putT_same (t : Nat → Option Entry) (k v d : Nat) (h : ∀ e, t k = some e → e.dye ≠ d) :
    putT t k v d k = some ⟨v, d⟩ := by
  unfold putT
  cases ht : t k with
  | none => simp [setT]
  | some e => simp [h e ht, setT]

theorem putT_other (t : Nat → Option Entry) (k v d k' : Nat) (h : k' ≠ k) : putT t k v d k' = t k' := by
  unfold putT
  cases t k with
  | none => simp [setT, h]
  | some e =>
    by_cases he : e.dye = d
    · simp [he]
    · simp [he, setT, h]

end LemoProofs.CowSpecL

/-
  C09: every operation of the abstract copy-on-write machine preserves the invariant `CInv`.
-/
import LemoProofs.Lemmas.CowSpec
namespace LemoProofs.CowSpecL
open LemoModel.CowSpec

/-! ### SetBlock -/

theorem inv_setBlock {s s' : ASt} {l p h : Nat} (hi : CInv s) (hs : aSetBlock s l p h = some s') : CInv s' := by
  unfold aSetBlock at hs
  split at hs
  · cases hs
  · rename_i hguard
    have hlsl : l ≠ s.sl := fun e => hguard (Or.inl e)
    have hfresh : ∀ x ∈ s.blocks, x.label ≠ l := by
      apply findB_none
      cases hf : findB s.blocks l with
      | none => rfl
      | some b => exact absurd (Or.inr (by simp [hf])) hguard
    -- common part: a new block whose table `t` satisfies the J-clauses of its parent
    have build : ∀ (t : Nat → Option Entry),
        ((p = s.sl ∧ h = s.sh + 1) ∨ (∃ pb ∈ s.blocks, pb.label = p ∧ h = pb.height + 1)) →
        (∀ k h' v, specWriter s.blocks p k = some (h', v) → t k = some ⟨v, h'⟩) →
        (∀ k, specWriter s.blocks p k = none → ∀ e, t k = some e → s.disk k = some e.val ∧ e.dye ≤ s.sh) →
        CInv { s with blocks := { label := l, height := h, parent := p, tbl := t, writes := fun _ => none } :: s.blocks } := by
      intro t hpar h1 h2
      have swnew : ∀ k, specWriter ({ label := l, height := h, parent := p, tbl := t, writes := fun _ => none } :: s.blocks) l k
          = specWriter s.blocks p k := by
        intro k; simp [specWriter]
      have swold : ∀ b ∈ s.blocks, ∀ k,
          specWriter ({ label := l, height := h, parent := p, tbl := t, writes := fun _ => none } :: s.blocks) b.label k
          = specWriter s.blocks b.label k := by
        intro b hb k
        have : l ≠ b.label := fun e => hfresh b hb e.symm
        simp [specWriter, this]
      refine ⟨⟨hi.wf, hlsl, hfresh, hpar⟩, ?_, ?_, hi.S⟩
      · intro b hb k h' v hsw
        rcases List.mem_cons.mp hb with rfl | hb
        · rw [swnew] at hsw; exact h1 k h' v hsw
        · rw [swold b hb] at hsw; exact hi.J1 b hb k h' v hsw
      · intro b hb k hsw
        rcases List.mem_cons.mp hb with rfl | hb
        · rw [swnew] at hsw; exact h2 k hsw
        · rw [swold b hb] at hsw; exact hi.J2 b hb k hsw
    split at hs
    · rename_i hp
      split at hs
      · rename_i hh
        cases hs
        apply build s.stbl (Or.inl ⟨hp, hh⟩)
        · intro k h' v hsw
          rw [hp, sw_none_of_not_label k (wf_label_ne hi.wf)] at hsw; cases hsw
        · intro k _ e he; exact hi.S k e he
      · cases hs
    · split at hs
      · rename_i pb hf
        obtain ⟨hpb, hpl⟩ := findB_some hf
        split at hs
        · rename_i hh
          cases hs
          apply build pb.tbl (Or.inr ⟨pb, hpb, hpl, hh⟩)
          · intro k h' v hsw; rw [← hpl] at hsw; exact hi.J1 pb hpb k h' v hsw
          · intro k hsw; rw [← hpl] at hsw; exact hi.J2 pb hpb k hsw
        · cases hs
      · cases hs

/-! ### Put -/

def putF (k v : Nat) (b : ABlk) : ABlk :=
  { b with tbl := putT b.tbl k v b.height, writes := fun k' => if k' = k then some v else b.writes k' }

theorem aPut_eq {s s' : ASt} {l k v : Nat} (hs : aPut s l k v = some s') :
    ∃ b, findB s.blocks l = some b ∧ hasChild s.blocks l = false ∧ b.writes k = none ∧
      s' = { s with blocks := updB s.blocks l (putF k v) } := by
  unfold aPut at hs
  split at hs
  · cases hs
  · rename_i b hf
    split at hs
    · cases hs
    · rename_i hc
      split at hs
      · cases hs
      · rename_i hw
        cases hs
        refine ⟨b, hf, by simpa using hc, ?_, rfl⟩
        cases hbw : b.writes k with
        | none => rfl
        | some _ => simp [hbw] at hw

theorem leaf_of_hasChild {bs : List ABlk} {l : Nat} (h : hasChild bs l = false) : ∀ y ∈ bs, y.parent ≠ l := by
  intro y hy e
  unfold hasChild at h
  have : bs.any (fun b => b.parent == l) = true := List.any_eq_true.mpr ⟨y, hy, by simp [e]⟩
  rw [this] at h; cases h

/-- the specification after a (guarded) put: only (l, k) changes -/
theorem sw_put {sl sh : Nat} (l k v : Nat) : ∀ {bs : List ABlk}, WF sl sh bs → (∀ y ∈ bs, y.parent ≠ l) →
    ∀ b ∈ bs, b.label = l → ∀ l' k',
    specWriter (updB bs l (putF k v)) l' k' =
      if l' = l ∧ k' = k then some (b.height, v) else specWriter bs l' k' := by
  intro bs hwf hleaf b hb hbl l' k'
  by_cases hl' : l' = l
  · subst hl'
    induction bs with
    | nil => cases hb
    | cons y older ih =>
      obtain ⟨h1, _, h3, _⟩ := hwf
      rw [updB_eq_map]; simp only [List.map_cons]; rw [← updB_eq_map]
      by_cases hy : y.label = l'
      · have hby : b = y := by
          rcases List.mem_cons.mp hb with rfl | hb'
          · rfl
          · exact absurd (hbl.trans hy.symm) (h3 b hb')
        subst hby
        simp only [hy, if_true]
        unfold specWriter
        simp only [putF, hy, if_true]
        by_cases hk : k' = k
        · simp [hk]
        · simp only [hk, if_false, and_false]
          cases b.writes k' with
          | some w => rfl
          | none =>
            exact sw_updB_other (putF k v) l' (fun _ => rfl) (fun _ => rfl) (fun _ => rfl) older
              (fun z hz => hleaf z (List.mem_cons_of_mem _ hz)) b.parent k' (hleaf b List.mem_cons_self)
      · simp only [hy, if_false]
        have hb' : b ∈ older := by
          rcases List.mem_cons.mp hb with rfl | hb'
          · exact absurd hbl hy
          · exact hb'
        unfold specWriter
        simp only [hy, if_false]
        have := ih h1 hb' (fun z hz => hleaf z (List.mem_cons_of_mem _ hz))
        simpa using this
  · have : ¬ (l' = l ∧ k' = k) := fun h => hl' h.1
    simp only [this, if_false]
    exact sw_updB_other (putF k v) l (fun _ => rfl) (fun _ => rfl) (fun _ => rfl) bs hleaf l' k' hl'

theorem inv_put {s s' : ASt} {l k v : Nat} (hi : CInv s) (hs : aPut s l k v = some s') : CInv s' := by
  obtain ⟨b, hf, hc, hw, rfl⟩ := aPut_eq hs
  obtain ⟨hb, hbl⟩ := findB_some hf
  have hleaf := leaf_of_hasChild hc
  have hsw := fun l' k' => sw_put (sl := s.sl) (sh := s.sh) l k v hi.wf hleaf b hb hbl l' k'
  have hwf' : WF s.sl s.sh (updB s.blocks l (putF k v)) := by
    rw [updB_eq_map]
    exact wf_map _ (fun b => by split <;> rfl) (fun b => by split <;> rfl) (fun b => by split <;> rfl) hi.wf
  -- the old entry for k (if any) does not carry b's dye: the put really writes
  have hdye : ∀ e, b.tbl k = some e → e.dye ≠ b.height := by
    intro e he
    cases hsp : specWriter s.blocks b.label k with
    | some hv =>
      obtain ⟨h0, v0⟩ := hv
      have := hi.J1 b hb k h0 v0 hsp
      rw [he] at this
      cases this
      intro e0
      have := ((sw_bounds hi.wf hsp).2 b hb rfl).2 e0
      rw [hw] at this; cases this
    | none =>
      have := (hi.J2 b hb k hsp e he).2
      have := wf_height hi.wf b hb
      omega
  have labF : ∀ x : ABlk, (if x.label = l then putF k v x else x).label = x.label := by
    intro x; split <;> rfl
  have tblF : ∀ (x : ABlk) (k' : Nat), (if x.label = l then putF k v x else x).tbl k' =
      if x.label = l then putT x.tbl k v x.height k' else x.tbl k' := by
    intro x k'; split <;> rfl
  refine ⟨hwf', ?_, ?_, hi.S⟩
  · intro b' hb' k' h' v' hsp
    obtain ⟨x, hx, rfl⟩ := mem_updB.mp hb'
    rw [labF, hsw] at hsp
    rw [tblF]
    by_cases hxl : x.label = l
    · have hxb : x = b := by
        have := findB_of_mem hi.wf x hx; rw [hxl, hf] at this; cases this; rfl
      subst hxb
      simp only [hxl, if_true]
      by_cases hk : k' = k
      · simp only [hxl, hk, and_self, if_true, Option.some.injEq, Prod.mk.injEq] at hsp
        obtain ⟨h1, h2⟩ := hsp
        rw [hk, ← h1, ← h2]
        exact putT_same _ _ _ _ hdye
      · simp only [hk, and_false, if_false] at hsp
        rw [putT_other _ _ _ _ _ hk]
        exact hi.J1 x hx k' h' v' hsp
    · simp only [hxl, false_and, if_false] at hsp ⊢
      exact hi.J1 x hx k' h' v' hsp
  · intro b' hb' k' hsp
    obtain ⟨x, hx, rfl⟩ := mem_updB.mp hb'
    rw [labF, hsw] at hsp
    rw [tblF]
    by_cases hxl : x.label = l
    · have hxb : x = b := by
        have := findB_of_mem hi.wf x hx; rw [hxl, hf] at this; cases this; rfl
      subst hxb
      simp only [hxl, if_true]
      by_cases hk : k' = k
      · simp only [hxl, hk, and_self, if_true] at hsp
        cases hsp
      · simp only [hk, and_false, if_false] at hsp
        rw [putT_other _ _ _ _ _ hk]
        exact hi.J2 x hx k' hsp
    · simp only [hxl, false_and, if_false] at hsp ⊢
      exact hi.J2 x hx k' hsp

/-! ### the read-through cache -/

def cacheF (k v : Nat) (b : ABlk) : ABlk :=
  match b.tbl k with
  | none => { b with tbl := setT b.tbl k ⟨v, 0⟩ }
  | some _ => b

theorem cacheF_label (k v : Nat) (b : ABlk) : (cacheF k v b).label = b.label := by unfold cacheF; split <;> rfl
theorem cacheF_parent (k v : Nat) (b : ABlk) : (cacheF k v b).parent = b.parent := by unfold cacheF; split <;> rfl
theorem cacheF_height (k v : Nat) (b : ABlk) : (cacheF k v b).height = b.height := by unfold cacheF; split <;> rfl
theorem cacheF_writes (k v : Nat) (b : ABlk) : (cacheF k v b).writes = b.writes := by unfold cacheF; split <;> rfl

theorem aCache_cases (s : ASt) (k c : Nat) :
    aCache s k c = s ∨
    (∃ v, s.disk k = some v ∧ aCache s k c = { s with blocks := updB s.blocks c (cacheF k v) }) ∨
    (∃ v, s.disk k = some v ∧ s.stbl k = none ∧ aCache s k c = { s with stbl := setT s.stbl k ⟨v, 0⟩ }) := by
  unfold aCache
  cases hd : s.disk k with
  | none => left; rfl
  | some v =>
    simp only
    cases hf : findB s.blocks c with
    | some b => right; left; exact ⟨v, rfl, rfl⟩
    | none =>
      simp only
      cases hs : s.stbl k with
      | none => right; right; exact ⟨v, rfl, rfl, rfl⟩
      | some e => left; rfl

theorem aCache_frame (s : ASt) (k c : Nat) :
    (aCache s k c).disk = s.disk ∧ (aCache s k c).sl = s.sl ∧ (aCache s k c).sh = s.sh ∧
    (∀ l k', specWriter (aCache s k c).blocks l k' = specWriter s.blocks l k') := by
  rcases aCache_cases s k c with h | ⟨v, _, h⟩ | ⟨v, _, _, h⟩
  · rw [h]; exact ⟨rfl, rfl, rfl, fun _ _ => rfl⟩
  · rw [h]
    refine ⟨rfl, rfl, rfl, ?_⟩
    intro l k'
    show specWriter (updB s.blocks c (cacheF k v)) l k' = _
    rw [updB_eq_map]
    exact sw_map_congr _ (fun b => by split; exact cacheF_label k v b; rfl)
      (fun b => by split; exact cacheF_parent k v b; rfl)
      (fun b => by split; exact cacheF_height k v b; rfl)
      (fun b => by split; exact cacheF_writes k v b; rfl) s.blocks l k'
  · rw [h]; exact ⟨rfl, rfl, rfl, fun _ _ => rfl⟩

theorem inv_cache {s : ASt} (hi : CInv s) (k c : Nat) : CInv (aCache s k c) := by
  rcases aCache_cases s k c with h | ⟨v, hd, h⟩ | ⟨v, hd, hst, h⟩
  · rw [h]; exact hi
  · rw [h]
    have hswm : ∀ l k', specWriter (updB s.blocks c (cacheF k v)) l k' = specWriter s.blocks l k' := by
      intro l k'
      rw [updB_eq_map]
      exact sw_map_congr _ (fun b => by split; exact cacheF_label k v b; rfl)
        (fun b => by split; exact cacheF_parent k v b; rfl)
        (fun b => by split; exact cacheF_height k v b; rfl)
        (fun b => by split; exact cacheF_writes k v b; rfl) s.blocks l k'
    have hwf' : WF s.sl s.sh (updB s.blocks c (cacheF k v)) := by
      rw [updB_eq_map]
      exact wf_map _ (fun b => by split; exact cacheF_label k v b; rfl)
        (fun b => by split; exact cacheF_parent k v b; rfl)
        (fun b => by split; exact cacheF_height k v b; rfl) hi.wf
    -- table of a possibly-updated block
    have tbl_cases : ∀ x : ABlk, ∀ k' e, (if x.label = c then cacheF k v x else x).tbl k' = some e →
        x.tbl k' = some e ∨ (x.tbl k = none ∧ k' = k ∧ e = ⟨v, 0⟩) := by
      intro x k' e he
      by_cases hx : x.label = c
      · simp only [hx, if_true] at he
        unfold cacheF at he
        split at he
        · rename_i hnone
          simp only [setT] at he
          by_cases hk : k' = k
          · simp only [hk, if_true, Option.some.injEq] at he
            right; exact ⟨hnone, hk, he.symm⟩
          · simp only [hk, if_false] at he; left; exact he
        · left; exact he
      · simp only [hx, if_false] at he; left; exact he
    have lab : ∀ x : ABlk, (if x.label = c then cacheF k v x else x).label = x.label := by
      intro x; split; exact cacheF_label k v x; rfl
    refine ⟨hwf', ?_, ?_, hi.S⟩
    · intro b' hb' k' h' v' hsp
      obtain ⟨x, hx, rfl⟩ := mem_updB.mp hb'
      rw [lab, hswm] at hsp
      have old := hi.J1 x hx k' h' v' hsp
      by_cases hxc : x.label = c
      · simp only [hxc, if_true]
        unfold cacheF
        split
        · rename_i hnone
          simp only [setT]
          by_cases hk : k' = k
          · subst hk; rw [hnone] at old; cases old
          · simp only [hk, if_false]; exact old
        · exact old
      · simp only [hxc, if_false]; exact old
    · intro b' hb' k' hsp e he
      obtain ⟨x, hx, rfl⟩ := mem_updB.mp hb'
      rw [lab, hswm] at hsp
      rcases tbl_cases x k' e he with h0 | ⟨_, rfl, rfl⟩
      · exact hi.J2 x hx k' hsp e h0
      · exact ⟨hd, Nat.zero_le _⟩
  · rw [h]
    refine ⟨hi.wf, hi.J1, hi.J2, ?_⟩
    intro k' e he
    simp only [setT] at he
    by_cases hk : k' = k
    · simp only [hk, if_true, Option.some.injEq] at he
      subst he; subst hk; exact ⟨hd, Nat.zero_le _⟩
    · simp only [hk, if_false] at he; exact hi.S k' e he

theorem inv_cache_fold {s : ASt} (hi : CInv s) (k : Nat) (cs : List Nat) :
    CInv (cs.foldl (fun s c => aCache s k c) s) := by
  induction cs generalizing s with
  | nil => exact hi
  | cons c cs ih => exact ih (inv_cache hi k c)

theorem cache_fold_frame (s : ASt) (k : Nat) (cs : List Nat) :
    (cs.foldl (fun s c => aCache s k c) s).disk = s.disk ∧
    (∀ l k', specWriter (cs.foldl (fun s c => aCache s k c) s).blocks l k' = specWriter s.blocks l k') := by
  induction cs generalizing s with
  | nil => exact ⟨rfl, fun _ _ => rfl⟩
  | cons c cs ih =>
    obtain ⟨h1, h2⟩ := ih (aCache s k c)
    obtain ⟨f1, _, _, f4⟩ := aCache_frame s k c
    exact ⟨h1.trans f1, fun l k' => (h2 l k').trans (f4 l k')⟩

theorem inv_get {s : ASt} (hi : CInv s) (l k : Nat) (sharers : List Nat) : CInv (aGet s l k sharers).1 := by
  unfold aGet
  split
  · exact hi
  · exact inv_cache_fold hi k (l :: sharers)

end LemoProofs.CowSpecL

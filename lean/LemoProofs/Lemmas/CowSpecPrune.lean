/-
  C09: the stabilisation step of the abstract machine (persist Collect, prune) preserves `CInv`,
  prunes exactly, keeps the survivors' views, and persists the new stable block's view.
-/
import LemoProofs.Lemmas.CowSpecInv
namespace LemoProofs.CowSpecL
open LemoModel.CowSpec

/-- the specification's search, stopped when it would step onto `stop` -/
def swStop (stop : Nat) : List ABlk → Nat → Nat → Option (Nat × Nat)
  | [], _, _ => none
  | y :: older, x, k =>
    if y.label = x then
      match y.writes k with
      | some v => some (y.height, v)
      | none => if y.parent = stop then none else swStop stop older y.parent k
    else swStop stop older x k

theorem desc_parent {l : Nat} : ∀ {bs : List ABlk} {x : Nat}, desc bs l x = true → ∃ z ∈ bs, z.parent = l
  | [], _, h => by cases h
  | y :: older, x, h => by
    unfold desc at h
    split at h
    · rcases Bool.or_eq_true _ _ |>.mp h with h1 | h1
      · exact ⟨y, List.mem_cons_self, by simpa using h1⟩
      · obtain ⟨z, hz, hp⟩ := desc_parent h1; exact ⟨z, List.mem_cons_of_mem _ hz, hp⟩
    · obtain ⟨z, hz, hp⟩ := desc_parent h; exact ⟨z, List.mem_cons_of_mem _ hz, hp⟩

theorem desc_label {l : Nat} : ∀ {bs : List ABlk} {x : Nat}, desc bs l x = true → ∃ z ∈ bs, z.label = x
  | [], _, h => by cases h
  | y :: older, x, h => by
    unfold desc at h
    split at h
    · exact ⟨y, List.mem_cons_self, by assumption⟩
    · obtain ⟨z, hz, hp⟩ := desc_label h; exact ⟨z, List.mem_cons_of_mem _ hz, hp⟩

theorem wf_parent_cases {sl sh : Nat} : ∀ {bs : List ABlk}, WF sl sh bs → ∀ z ∈ bs,
    z.parent = sl ∨ ∃ p ∈ bs, p.label = z.parent
  | [], _, _, hz => by cases hz
  | y :: older, h, z, hz => by
    obtain ⟨h1, _, _, h4⟩ := h
    rcases List.mem_cons.mp hz with rfl | hz
    · rcases h4 with ⟨a, _⟩ | ⟨p, hp, hpl, _⟩
      · left; exact a
      · right; exact ⟨p, List.mem_cons_of_mem _ hp, hpl⟩
    · rcases wf_parent_cases h1 z hz with a | ⟨p, hp, hpl⟩
      · left; exact a
      · right; exact ⟨p, List.mem_cons_of_mem _ hp, hpl⟩

/-- descendants are newer than their ancestors: nothing older than `y` descends from `y` -/
theorem desc_label_ne {sl sh l x : Nat} {y : ABlk} {older : List ABlk} (hwf : WF sl sh (y :: older))
    (hd : desc older l x = true) : y.label ≠ l := by
  obtain ⟨h1, h2, h3, _⟩ := hwf
  obtain ⟨z, hz, hzp⟩ := desc_parent hd
  rcases wf_parent_cases h1 z hz with a | ⟨p, hp, hpl⟩
  · rw [← hzp, a]; exact h2
  · rw [← hzp, ← hpl]; exact fun e => h3 p hp e.symm

theorem prune_sub {l : Nat} : ∀ {bs : List ABlk} {x : ABlk}, x ∈ prune l bs → x ∈ bs
  | [], _, h => by cases h
  | y :: older, x, h => by
    unfold prune at h
    split at h
    · rcases List.mem_cons.mp h with rfl | h
      · exact List.mem_cons_self
      · exact List.mem_cons_of_mem _ (prune_sub h)
    · exact List.mem_cons_of_mem _ (prune_sub h)

theorem prune_label_ne {l : Nat} : ∀ {bs : List ABlk} {x : ABlk}, x ∈ prune l bs → x.label ≠ l
  | [], _, h => by cases h
  | y :: older, x, h => by
    unfold prune at h
    split at h
    · rename_i hc
      rcases List.mem_cons.mp h with rfl | h
      · exact hc.1
      · exact prune_label_ne h
    · exact prune_label_ne h

theorem mem_prune {sl sh l : Nat} : ∀ {bs : List ABlk}, WF sl sh bs → ∀ p ∈ bs, p.label ≠ l →
    desc bs l p.label = true → p ∈ prune l bs
  | [], _, _, hp, _, _ => by cases hp
  | y :: older, hwf, p, hp, hpl, hd => by
    obtain ⟨h1, _, h3, _⟩ := hwf
    unfold prune
    rcases List.mem_cons.mp hp with rfl | hp
    · unfold desc at hd
      simp only [if_true] at hd
      simp only [hd, ne_eq, hpl, not_false_eq_true, and_self, if_true]
      exact List.mem_cons_self
    · have hne : y.label ≠ p.label := fun e => h3 p hp e.symm
      unfold desc at hd
      simp only [hne, if_false] at hd
      have := mem_prune h1 p hp hpl hd
      split
      · exact List.mem_cons_of_mem _ this
      · exact this

theorem mem_prune_iff {sl sh l : Nat} {bs : List ABlk} (hwf : WF sl sh bs) (x : ABlk) :
    x ∈ prune l bs ↔ x ∈ bs ∧ x.label ≠ l ∧ desc bs l x.label = true := by
  constructor
  · intro h
    refine ⟨prune_sub h, prune_label_ne h, ?_⟩
    induction bs with
    | nil => cases h
    | cons y older ih =>
      obtain ⟨h1, _, h3, _⟩ := hwf
      unfold prune at h
      split at h
      · rename_i hc
        rcases List.mem_cons.mp h with rfl | h
        · unfold desc; simp only [if_true]; exact hc.2
        · have hx := prune_sub h
          have hne : y.label ≠ x.label := fun e => h3 x hx e.symm
          unfold desc; simp only [hne, if_false]; exact ih h1 h
      · have hx := prune_sub h
        have hne : y.label ≠ x.label := fun e => h3 x hx e.symm
        unfold desc; simp only [hne, if_false]; exact ih h1 h
  · rintro ⟨h1, h2, h3⟩; exact mem_prune hwf x h1 h2 h3

theorem wf_prune {sl sh l hl : Nat} (hlsl : l ≠ sl) : ∀ {bs : List ABlk}, WF sl sh bs →
    (∀ b ∈ bs, b.label = l → b.height = hl) → WF l hl (prune l bs)
  | [], _, _ => trivial
  | y :: older, hwf, hh => by
    have hwf0 := hwf
    obtain ⟨h1, h2, h3, h4⟩ := hwf
    have ih := wf_prune hlsl h1 (fun b hb => hh b (List.mem_cons_of_mem _ hb))
    unfold prune
    split
    · rename_i hc
      refine ⟨ih, hc.1, fun x hx => h3 x (prune_sub hx), ?_⟩
      by_cases hyp : y.parent = l
      · left
        refine ⟨hyp, ?_⟩
        rcases h4 with ⟨a, _⟩ | ⟨p, hp, hpl, hph⟩
        · exact absurd (hyp.symm.trans a) hlsl
        · rw [hph, hh p (List.mem_cons_of_mem _ hp) (hpl.trans hyp)]
      · right
        have hd : desc older l y.parent = true := by
          have := hc.2
          simpa [hyp] using this
        rcases h4 with ⟨a, _⟩ | ⟨p, hp, hpl, hph⟩
        · obtain ⟨z, hz, hzl⟩ := desc_label hd
          exact absurd (hzl.trans a) (wf_label_ne h1 z hz)
        · refine ⟨p, mem_prune h1 p hp (by rw [hpl]; exact hyp) (by rw [hpl]; exact hd), hpl, hph⟩
    · exact ih

theorem specWriter_cons_eq {y : ABlk} {older : List ABlk} {l : Nat} (k : Nat) (h : y.label = l) :
    specWriter (y :: older) l k =
      match y.writes k with
      | some v => some (y.height, v)
      | none => specWriter older y.parent k := by
  rw [specWriter, if_pos h]
  try (cases y.writes k <;> rfl)

theorem specWriter_cons_ne {y : ABlk} {older : List ABlk} {l : Nat} (k : Nat) (h : y.label ≠ l) :
    specWriter (y :: older) l k = specWriter older l k := by
  simp [specWriter, h]

theorem swStop_cons_eq {stop : Nat} {y : ABlk} {older : List ABlk} {l : Nat} (k : Nat) (h : y.label = l) :
    swStop stop (y :: older) l k =
      match y.writes k with
      | some v => some (y.height, v)
      | none => if y.parent = stop then none else swStop stop older y.parent k := by
  rw [swStop, if_pos h]
  try (cases y.writes k <;> rfl)

theorem swStop_cons_ne {stop : Nat} {y : ABlk} {older : List ABlk} {l : Nat} (k : Nat) (h : y.label ≠ l) :
    swStop stop (y :: older) l k = swStop stop older l k := by
  simp [swStop, h]

theorem prune_cons_keep {l : Nat} {y : ABlk} {older : List ABlk}
    (h : y.label ≠ l ∧ ((y.parent == l) || desc older l y.parent) = true) :
    prune l (y :: older) = y :: prune l older := by
  rw [prune, if_pos h]

theorem prune_cons_drop {l : Nat} {y : ABlk} {older : List ABlk}
    (h : ¬ (y.label ≠ l ∧ ((y.parent == l) || desc older l y.parent) = true)) :
    prune l (y :: older) = prune l older := by
  rw [prune, if_neg h]

/-- Claim A: on the pruned list the specification search is the stopped search on the full list -/
theorem sw_prune {l : Nat} (k : Nat) : ∀ {bs : List ABlk} {x : Nat}, desc bs l x = true → x ≠ l →
    specWriter (prune l bs) x k = swStop l bs x k
  | [], _, h, _ => by cases h
  | y :: older, x, hd, hx => by
    unfold desc at hd
    by_cases hy : y.label = x
    · simp only [hy, if_true] at hd
      have hkeep : y.label ≠ l ∧ ((y.parent == l) || desc older l y.parent) = true := ⟨by rw [hy]; exact hx, hd⟩
      rw [prune_cons_keep hkeep, specWriter_cons_eq k hy, swStop_cons_eq k hy]
      cases y.writes k with
      | some v => rfl
      | none =>
        simp only
        by_cases hp : y.parent = l
        · rw [if_pos hp, hp]
          exact sw_none_of_not_label k (fun z hz => prune_label_ne hz)
        · rw [if_neg hp]
          have : desc older l y.parent = true := by simpa [hp] using hd
          exact sw_prune k this hp
    · simp only [hy, if_false] at hd
      have ih := sw_prune k hd hx
      rw [swStop_cons_ne k hy]
      by_cases hc : y.label ≠ l ∧ ((y.parent == l) || desc older l y.parent) = true
      · rw [prune_cons_keep hc, specWriter_cons_ne k hy]; exact ih
      · rw [prune_cons_drop hc]; exact ih

/-- Claim B: the full search = the stopped search, continued from `l` when it stopped -/
theorem sw_split {sl sh l : Nat} (k : Nat) : ∀ {bs : List ABlk}, WF sl sh bs → ∀ {x : Nat}, desc bs l x = true →
    specWriter bs x k = match swStop l bs x k with
      | some r => some r
      | none => specWriter bs l k
  | [], _, _, h => by cases h
  | y :: older, hwf, x, hd => by
    have hwf0 := hwf
    obtain ⟨h1, h2, h3, h4⟩ := hwf
    unfold desc at hd
    by_cases hy : y.label = x
    · simp only [hy, if_true] at hd
      -- y is not l: its parent is the stable block or an older block
      have hyl : y.label ≠ l := by
        by_cases hp : y.parent = l
        · rcases h4 with ⟨a, _⟩ | ⟨p, hp', hpl, _⟩
          · rw [← hp, a]; exact h2
          · rw [← hp, ← hpl]; exact fun e => h3 p hp' e.symm
        · have : desc older l y.parent = true := by simpa [hp] using hd
          exact desc_label_ne hwf0 this
      rw [specWriter_cons_ne k hyl, specWriter_cons_eq k hy, swStop_cons_eq k hy]
      cases y.writes k with
      | some v => rfl
      | none =>
        simp only
        by_cases hp : y.parent = l
        · rw [if_pos hp, hp]
        · rw [if_neg hp]
          have : desc older l y.parent = true := by simpa [hp] using hd
          exact sw_split k h1 this
    · simp only [hy, if_false] at hd
      have hyl : y.label ≠ l := desc_label_ne hwf0 hd
      rw [specWriter_cons_ne k hyl, specWriter_cons_ne k hy, swStop_cons_ne k hy]
      exact sw_split k h1 hd

/-! ### the stabilisation step -/

theorem aStable_eq {s s' : ASt} {l : Nat} (hs : aStable s l = some s') :
    ∃ b, findB s.blocks l = some b ∧ b.parent = s.sl ∧
      s' = { sl := l, sh := b.height, stbl := b.tbl, disk := persist s.disk b.tbl b.height, blocks := prune l s.blocks } := by
  unfold aStable at hs
  split at hs
  · cases hs
  · rename_i b hf
    split at hs
    · cases hs
    · rename_i hp
      cases hs
      exact ⟨b, hf, by simpa using hp, rfl⟩

/-- **persisted = view of the new stable block**, key by key -/
theorem persist_eq_view {s : ASt} (hi : CInv s) {b : ABlk} (hb : b ∈ s.blocks) (hp : b.parent = s.sl) (k : Nat) :
    persist s.disk b.tbl b.height k = specView s b.label k := by
  unfold persist specView
  rw [sw_child_of_stable hi.wf b hb hp k]
  cases hw : b.writes k with
  | some v =>
    have := hi.J1 b hb k b.height v (sw_of_writes hi.wf b hb hw)
    simp [this]
  | none =>
    have hsw : specWriter s.blocks b.label k = none := by
      rw [sw_child_of_stable hi.wf b hb hp k, hw]; rfl
    simp only [Option.map_none]
    cases ht : b.tbl k with
    | none => rfl
    | some e =>
      have := (hi.J2 b hb k hsw e ht).2
      have hh := wf_height hi.wf b hb
      have : e.dye ≠ b.height := by omega
      simp [this]

theorem inv_stable {s s' : ASt} {l : Nat} (hi : CInv s) (hs : aStable s l = some s') : CInv s' := by
  obtain ⟨b, hf, hp, rfl⟩ := aStable_eq hs
  obtain ⟨hb, hbl⟩ := findB_some hf
  have hlsl : l ≠ s.sl := by rw [← hbl]; exact wf_label_ne hi.wf b hb
  have hbh := wf_height hi.wf b hb
  have hpv := fun k => persist_eq_view hi hb hp k
  have hswl : ∀ k, specWriter s.blocks l k = (b.writes k).map (fun v => (b.height, v)) := by
    intro k; rw [← hbl]; exact sw_child_of_stable hi.wf b hb hp k
  have hwf' : WF l b.height (prune l s.blocks) := by
    apply wf_prune hlsl hi.wf
    intro b' hb' hbl'
    have := findB_of_mem hi.wf b' hb'; rw [hbl', hf] at this; cases this; rfl
  -- the new stable table agrees with the new disk
  have hS : ∀ k e, b.tbl k = some e → persist s.disk b.tbl b.height k = some e.val ∧ e.dye ≤ b.height := by
    intro k e he
    cases hw : b.writes k with
    | some v =>
      have := hi.J1 b hb k b.height v (sw_of_writes hi.wf b hb hw)
      rw [he] at this; cases this
      simp [persist, he]
    | none =>
      have hsw : specWriter s.blocks b.label k = none := by rw [hbl, hswl, hw]; rfl
      obtain ⟨h1, h2⟩ := hi.J2 b hb k hsw e he
      have : e.dye ≠ b.height := by omega
      simp only [persist, he, this, if_false]
      exact ⟨h1, by omega⟩
  refine ⟨hwf', ?_, ?_, hS⟩
  · intro x hx k h' v' hsp
    obtain ⟨hxm, hxl, hxd⟩ := (mem_prune_iff hi.wf x).mp hx
    change specWriter (prune l s.blocks) x.label k = some (h', v') at hsp
    rw [sw_prune k hxd hxl] at hsp
    have := sw_split k hi.wf hxd
    rw [hsp] at this
    exact hi.J1 x hxm k h' v' this
  · intro x hx k hsp e he
    obtain ⟨hxm, hxl, hxd⟩ := (mem_prune_iff hi.wf x).mp hx
    change specWriter (prune l s.blocks) x.label k = none at hsp
    rw [sw_prune k hxd hxl] at hsp
    have hfull := sw_split k hi.wf hxd
    rw [hsp] at hfull
    simp only at hfull
    rw [hswl] at hfull
    show persist s.disk b.tbl b.height k = some e.val ∧ e.dye ≤ b.height
    cases hw : b.writes k with
    | some v =>
      rw [hw] at hfull
      have hx1 := hi.J1 x hxm k b.height v hfull
      rw [he] at hx1; cases hx1
      have hb1 := hi.J1 b hb k b.height v (sw_of_writes hi.wf b hb hw)
      simp [persist, hb1]
    | none =>
      rw [hw] at hfull
      obtain ⟨h1, h2⟩ := hi.J2 x hxm k hfull e he
      refine ⟨?_, by omega⟩
      rw [hpv k]
      unfold specView
      rw [hbl, hswl, hw]
      exact h1

/-- survivors keep their specified views (w.r.t. the new disk and the pruned tree) -/
theorem specView_stable {s s' : ASt} {l : Nat} (hi : CInv s) (hs : aStable s l = some s')
    (x : ABlk) (hx : x ∈ s'.blocks) (k : Nat) : specView s' x.label k = specView s x.label k := by
  obtain ⟨b, hf, hp, rfl⟩ := aStable_eq hs
  obtain ⟨hb, hbl⟩ := findB_some hf
  obtain ⟨hxm, hxl, hxd⟩ := (mem_prune_iff hi.wf x).mp hx
  unfold specView
  show (match specWriter (prune l s.blocks) x.label k with
      | some (_, v) => some v
      | none => persist s.disk b.tbl b.height k) = _
  rw [sw_prune k hxd hxl]
  have hfull := sw_split k hi.wf hxd
  cases hst : swStop l s.blocks x.label k with
  | some r =>
    rw [hst] at hfull; rw [hfull]
  | none =>
    rw [hst] at hfull
    simp only at hfull ⊢
    rw [hfull, persist_eq_view hi hb hp k, hbl]
    rfl

end LemoProofs.CowSpecL

/-
  C16 helper lemmas about the memory fee (`LemoModel.EvmGas`).
-/
import LemoModel.EvmGas
namespace LemoProofs.EvmGasLemmas
open LemoModel LemoModel.Evm LemoModel.EvmGas

theorem memFee_mono (P : Params) {a b : Nat} (h : a ≤ b) : memFee P a ≤ memFee P b := by
  unfold memFee
  exact Nat.add_le_add (Nat.mul_le_mul_right _ h) (Nat.div_le_div_right (Nat.mul_le_mul h h))

theorem memCharge_add (P : Params) (cur new : Nat) :
    memCharge P cur new + memFee P cur = memFee P (max new cur) := by
  unfold memCharge
  split
  · rename_i h
    have := memFee_mono P (Nat.le_of_lt h)
    rw [Nat.max_eq_left (Nat.le_of_lt h)]
    omega
  · rename_i h
    rw [Nat.max_eq_right (by omega)]
    omega

/-- the charges of a whole sequence of memory requests telescope -/
theorem memChargeAll_add (P : Params) (cur : Nat) (ns : List Nat) :
    memChargeAll P cur ns + memFee P cur = memFee P (ns.foldl (fun acc n => max n acc) cur) := by
  induction ns generalizing cur with
  | nil => simp [memChargeAll]
  | cons n ns ih =>
    simp only [memChargeAll, List.foldl_cons]
    have h1 := memCharge_add P cur n
    have h2 := ih (max n cur)
    omega

end LemoProofs.EvmGasLemmas

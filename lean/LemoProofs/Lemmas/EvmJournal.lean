/-
  C16 helper lemmas: the journal side of `LemoModel.Evm` — every live frame's snapshot is a
  prefix of the current journal, nested in stack order (`Chain`), and this is preserved by
  every transition.
-/
import LemoModel.Evm
import LemoProofs.Lemmas.EvmShape
namespace LemoProofs.EvmJournal
open LemoModel LemoModel.Evm LemoProofs.EvmShape

/-- `Chain j fs`: the journal recorded at the snapshot of the innermost frame is a prefix of the
    current journal `j`, its snapshot id is that journal's length, and the same holds one level
    down relative to the innermost frame's snapshot journal. -/
def Chain : List Entry → List Frame → Prop
  | _, [] => True
  | j, f :: r => f.entry <+: j ∧ f.snap = f.entry.length ∧ Chain f.entry r

theorem chain_mono {j j' : List Entry} {fs : List Frame} (h : j <+: j') : Chain j fs → Chain j' fs := by
  cases fs with
  | nil => intro _; trivial
  | cons f r => intro ⟨h1, h2, h3⟩; exact ⟨h1.trans h, h2, h3⟩

theorem chain_addGas {j : List Entry} {fs : List Frame} (g : Nat) (h : Chain j fs) : Chain j (addGas fs g) := by
  cases fs with
  | nil => trivial
  | cons f r => exact h

theorem take_snap {f : Frame} {j : List Entry} (h1 : f.entry <+: j) (h2 : f.snap = f.entry.length) :
    j.take f.snap = f.entry := by
  rw [h2]; exact (List.prefix_iff_eq_take.mp h1).symm

theorem depositRes_of_ne_ok (P : Params) (k : Kind) (res : Res) (g r : Nat) (h : res ≠ .ok) :
    depositRes P k res g r = res := by
  unfold depositRes
  rw [if_neg (by intro hh; exact h hh.2)]

/-- journal after a frame that did not end normally: truncated to its snapshot, plus the platform event -/
theorem finishFrame_journal_notok (P : Params) (m : Machine) (f : Frame) (rest : List Frame) (res : Res) (g r : Nat)
    (h : res ≠ .ok) :
    (finishFrame P m f rest res g r).journal = m.journal.take f.snap ++ failEvents f.kind res := by
  unfold finishFrame
  simp only [depositRes_of_ne_ok P f.kind res g r h]
  cases res <;> simp_all

theorem finishFrame_frames_notok (P : Params) (m : Machine) (f : Frame) (rest : List Frame) (res : Res) (g r : Nat)
    (h : res ≠ .ok) :
    (finishFrame P m f rest res g r).frames = addGas rest (if res = .failed then 0 else g) := by
  unfold finishFrame depositGas
  simp only [depositRes_of_ne_ok P f.kind res g r h]
  cases res <;> simp_all

/-- general form: whatever the run's outcome `res`, if the outcome after CREATE's code deposit
    (`depositRes`) is not `ok`, the journal is truncated to the snapshot -/
theorem finishFrame_journal_fail (P : Params) (m : Machine) (f : Frame) (rest : List Frame) (res : Res) (g r : Nat)
    (h : depositRes P f.kind res g r ≠ .ok) :
    (finishFrame P m f rest res g r).journal =
      m.journal.take f.snap ++ failEvents f.kind (depositRes P f.kind res g r) := by
  unfold finishFrame
  simp only []
  rw [if_neg h, if_neg (by intro hh; exact h hh.2.2)]

theorem finishFrame_frames_fail (P : Params) (m : Machine) (f : Frame) (rest : List Frame) (res : Res) (g r : Nat)
    (h : depositRes P f.kind res g r ≠ .ok) :
    (finishFrame P m f rest res g r).frames =
      addGas rest (if depositRes P f.kind res g r = .failed then 0 else g) := by
  have h0 : (finishFrame P m f rest res g r).frames =
      addGas rest (if depositRes P f.kind res g r = .failed then 0 else depositGas P f.kind res g r) := rfl
  rw [h0]
  by_cases hf : depositRes P f.kind res g r = .failed
  · rw [if_pos hf, if_pos hf]
  · rw [if_neg hf, if_neg hf]
    unfold depositGas
    rw [if_neg (by intro hh; exact h hh.2.2)]

/-- the snapshot journal of the finished frame is a prefix of the journal afterwards -/
theorem finishFrame_prefix (P : Params) (m : Machine) (f : Frame) (rest : List Frame) (res : Res) (g r : Nat)
    (h1 : f.entry <+: m.journal) (h2 : f.snap = f.entry.length) :
    f.entry <+: (finishFrame P m f rest res g r).journal := by
  unfold finishFrame
  simp only []
  refine List.IsPrefix.trans ?_ (List.prefix_append _ _)
  by_cases hr : depositRes P f.kind res g r = .ok
  · rw [if_pos hr]
    split
    · exact h1.trans (List.prefix_append _ _)
    · exact h1
  · rw [if_neg hr, if_neg (by intro hh; exact hr hh.2.2), take_snap h1 h2]
    exact List.prefix_refl _

theorem finishFrame_chain (P : Params) (m : Machine) (f : Frame) (rest : List Frame) (res : Res) (g r : Nat)
    (hc : Chain m.journal (f :: rest)) :
    Chain (finishFrame P m f rest res g r).journal (finishFrame P m f rest res g r).frames := by
  obtain ⟨h1, h2, h3⟩ := hc
  have hp := finishFrame_prefix P m f rest res g r h1 h2
  have : (finishFrame P m f rest res g r).frames = addGas rest _ := rfl
  rw [this]
  exact chain_addGas _ (chain_mono hp h3)

theorem runCallee_chain (P : Params) (m' : Machine) (f : Frame) (parents : List Frame) (gas : Nat) (callee : Callee)
    (hc : Chain m'.journal (f :: parents)) :
    Chain (runCallee P m' f parents gas callee).journal (runCallee P m' f parents gas callee).frames := by
  unfold runCallee
  split
  · exact hc
  · split
    · exact finishFrame_chain _ _ _ _ _ _ _ hc
    · split
      · exact finishFrame_chain _ _ _ _ _ _ _ hc
      · split
        · exact finishFrame_chain _ _ _ _ _ _ _ (chain_mono (List.prefix_append _ _) hc)
        · exact finishFrame_chain _ _ _ _ _ _ _ hc
  · exact finishFrame_chain _ _ _ _ _ _ _ hc

theorem transferJournal_prefix (k : Kind) (v : Bool) (j : List Entry) : j <+: transferJournal k v j := by
  unfold transferJournal
  split
  · exact List.prefix_append _ _
  · exact List.prefix_refl _

theorem giveBack_chain (m : Machine) (res : Res) (g : Nat) (hc : Chain m.journal m.frames) :
    Chain (giveBack m res g).journal (giveBack m res g).frames := chain_addGas _ hc

theorem enter_chain (P : Params) (m : Machine) (k : Kind) (gas : Nat) (value canT : Bool) (callee : Callee)
    (hc : Chain m.journal m.frames) :
    Chain (enter P m k gas value canT callee).journal (enter P m k gas value canT callee).frames := by
  have hnew : ∀ k' ro, Chain (transferJournal k' value m.journal) (newFrame m k' gas :: m.frames) →
      Chain ({ m with journal := transferJournal k' value m.journal, readOnly := ro } : Machine).journal
        (newFrame m k' gas :: m.frames) := fun _ _ h => h
  have hfr : ∀ k', Chain (transferJournal k' value m.journal) (newFrame m k' gas :: m.frames) :=
    fun k' => ⟨transferJournal_prefix _ _ _, rfl, hc⟩
  unfold enter
  split
  · exact giveBack_chain _ _ _ hc
  · split
    · exact giveBack_chain _ _ _ hc
    · split
      · unfold enterCreate
        split
        · exact giveBack_chain _ _ _ hc
        · exact runCallee_chain P _ _ _ _ _ (hfr .create)
      · unfold enterCall
        split
        · exact giveBack_chain _ _ _ hc
        · split
          · exact giveBack_chain _ _ _ hc
          · exact runCallee_chain P _ _ _ _ _ (hfr k)

/-- the chain of snapshots is preserved by every interpreter step -/
theorem step_chain (T : Table) (m : Machine) (c : Choice) (hc : Chain m.journal m.frames) :
    Chain (step T m c).journal (step T m c).frames := by
  cases hm : m.frames with
  | nil => unfold step; rw [hm]; simp only []; rw [hm]; trivial
  | cons f rest =>
    rw [hm] at hc
    unfold step
    rw [hm]
    simp only []
    cases hp : pre T m.readOnly f.gas c with
    | error e => exact finishFrame_chain _ _ _ _ _ _ _ hc
    | ok r =>
      obtain ⟨g, child⟩ := r
      simp only []
      cases hk : T.kindOf c.op with
      | none =>
        simp only []
        have hc1 : Chain (if (T.info c.op).writes then m.journal ++ c.wtags.map Entry.write else m.journal) (f :: rest) := by
          split
          · exact chain_mono (List.prefix_append _ _) hc
          · exact hc
        split
        · exact finishFrame_chain _ _ _ _ _ _ _ hc
        · split
          · exact finishFrame_chain _ { m with journal := _ } _ _ _ _ _ hc1
          · split
            · exact finishFrame_chain _ { m with journal := _ } _ _ _ _ _ hc1
            · exact hc1
      | some k =>
        simp only []
        exact enter_chain T.params { m with frames := { f with gas := g } :: rest } k child c.value c.canTransfer c.callee hc

theorem begin_chain (T : Table) (k : Kind) (gas : Nat) (value canT : Bool) (callee : Callee) :
    Chain (begin T k gas value canT callee).journal (begin T k gas value canT callee).frames :=
  enter_chain T.params Machine.init k gas value canT callee trivial

end LemoProofs.EvmJournal

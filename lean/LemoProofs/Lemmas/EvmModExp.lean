/-
  C16 helper lemmas for the MODEXP length model (`LemoModel.ModExp`).
-/
import LemoModel.ModExp
namespace LemoProofs.EvmModExp
open LemoModel.ModExp

theorem mult_ge (x : Nat) : x ≤ mult x := by
  unfold mult
  split
  · exact Nat.le_mul_self x
  · split
    · generalize x * x / 4 = t; omega
    · generalize x * x / 16 = t; omega

theorem padAlloc_le (p s : Nat) : padAlloc p s ≤ s := by
  unfold padAlloc; split <;> omega

theorem adj_ge (expLen hb : Nat) : (if expLen > 32 then 8 * (expLen - 32) else 0) ≤ adjExpLen expLen hb := by
  unfold adjExpLen; omega

/-- the uncapped price dominates both operand lengths and (up to 32) the exponent length -/
theorem price_ge (baseLen expLen modLen hb : Nat) (hx : 1 ≤ max modLen baseLen) :
    max modLen baseLen ≤ mult (max modLen baseLen) * max (adjExpLen expLen hb) 1 ∧
    expLen ≤ mult (max modLen baseLen) * max (adjExpLen expLen hb) 1 + 32 := by
  have h1 := mult_ge (max modLen baseLen)
  have h2 : 1 ≤ max (adjExpLen expLen hb) 1 := Nat.le_max_right _ _
  have h3 : mult (max modLen baseLen) ≤ mult (max modLen baseLen) * max (adjExpLen expLen hb) 1 :=
    Nat.le_mul_of_pos_right _ h2
  have h4 : max (adjExpLen expLen hb) 1 ≤ mult (max modLen baseLen) * max (adjExpLen expLen hb) 1 :=
    Nat.le_mul_of_pos_left _ (by omega)
  have h5 := adj_ge expLen hb
  have h6 : adjExpLen expLen hb ≤ max (adjExpLen expLen hb) 1 := Nat.le_max_left _ _
  refine ⟨by omega, ?_⟩
  by_cases h : expLen > 32
  · rw [if_pos h] at h5; omega
  · omega

/-- every size handed to `make` by the guarded `Run` is bounded by the gas charged -/
theorem alloc_le_gas (baseLen expLen modLen dlen hb a : Nat)
    (ha : a ∈ (run true baseLen expLen modLen dlen).allocs) :
    a ≤ 20 * requiredGas baseLen expLen modLen dlen hb + 64 := by
  unfold run at ha
  simp only [] at ha
  split at ha
  · simp at ha
  · rename_i hne
    have hb1 : baseLen % u64 ≤ baseLen := Nat.mod_le _ _
    have he1 : expLen % u64 ≤ expLen := Nat.mod_le _ _
    have hm1 : modLen % u64 ≤ modLen := Nat.mod_le _ _
    have hbu : baseLen % u64 < u64 := Nat.mod_lt _ (by decide)
    have heu : expLen % u64 < u64 := Nat.mod_lt _ (by decide)
    have hmu : modLen % u64 < u64 := Nat.mod_lt _ (by decide)
    have hx : 1 ≤ max modLen baseLen := by
      by_cases h1 : baseLen % u64 = 0
      · by_cases h2 : modLen % u64 = 0
        · exact absurd ⟨trivial, h1, h2⟩ hne
        · have : 1 ≤ modLen := by omega
          exact Nat.le_trans this (Nat.le_max_left _ _)
      · have : 1 ≤ baseLen := by omega
        exact Nat.le_trans this (Nat.le_max_right _ _)
    have hxb : baseLen ≤ max modLen baseLen := Nat.le_max_right _ _
    have hxm : modLen ≤ max modLen baseLen := Nat.le_max_left _ _
    -- a is bounded by one of the three truncated lengths
    have hsz : a ≤ baseLen % u64 ∨ a ≤ expLen % u64 ∨ a ≤ modLen % u64 := by
      simp only [List.mem_cons, List.not_mem_nil, or_false] at ha
      rcases ha with h | h | h | h
      · exact .inl (h ▸ padAlloc_le _ _)
      · exact .inr (.inl (h ▸ padAlloc_le _ _))
      · exact .inr (.inr (h ▸ padAlloc_le _ _))
      · exact .inr (.inr (h ▸ padAlloc_le _ _))
    unfold requiredGas
    simp only []
    generalize (if dlen ≤ baseLen then 0 else hb) = hb'
    obtain ⟨hp1, hp2⟩ := price_ge baseLen expLen modLen hb' hx
    generalize mult (max modLen baseLen) * max (adjExpLen expLen hb') 1 = P at hp1 hp2 ⊢
    split
    · -- capped at MaxUint64: every truncated length is below 2^64
      unfold u64 at *
      omega
    · omega

/-- …and under an affordable price no `getData` slice expression wraps around -/
theorem no_wrap_of_gas (baseLen expLen modLen dlen hb G : Nat)
    (hG : requiredGas baseLen expLen modLen dlen hb ≤ G) (hsmall : 40 * G + 200 + dlen < u64) :
    (run true baseLen expLen modLen dlen).slicePanic = false := by
  unfold run
  simp only []
  split
  · rfl
  · rename_i hne
    have hb1 : baseLen % u64 ≤ baseLen := Nat.mod_le _ _
    have he1 : expLen % u64 ≤ expLen := Nat.mod_le _ _
    have hm1 : modLen % u64 ≤ modLen := Nat.mod_le _ _
    have hx : 1 ≤ max modLen baseLen := by
      by_cases h1 : baseLen % u64 = 0
      · by_cases h2 : modLen % u64 = 0
        · exact absurd ⟨trivial, h1, h2⟩ hne
        · have : 1 ≤ modLen := by omega
          exact Nat.le_trans this (Nat.le_max_left _ _)
      · have : 1 ≤ baseLen := by omega
        exact Nat.le_trans this (Nat.le_max_right _ _)
    have hxb : baseLen ≤ max modLen baseLen := Nat.le_max_right _ _
    have hxm : modLen ≤ max modLen baseLen := Nat.le_max_left _ _
    unfold requiredGas at hG
    simp only [] at hG
    generalize (if dlen ≤ baseLen then 0 else hb) = hb' at hG
    obtain ⟨hp1, hp2⟩ := price_ge baseLen expLen modLen hb' hx
    generalize mult (max modLen baseLen) * max (adjExpLen expLen hb') 1 = P at hp1 hp2 hG
    have hP : P ≤ 20 * G + 19 := by
      split at hG
      · unfold u64 at *; omega
      · omega
    have hmin1 : min 0 dlen ≤ dlen := Nat.min_le_right _ _
    have hmin2 : min (baseLen % u64) dlen ≤ dlen := Nat.min_le_right _ _
    have hmin3 : min ((baseLen % u64 + expLen % u64) % u64) dlen ≤ dlen := Nat.min_le_right _ _
    simp only [wraps, Bool.or_eq_false_iff, decide_eq_false_iff_not, Nat.not_le]
    refine ⟨⟨?_, ?_⟩, ?_⟩ <;> omega

end LemoProofs.EvmModExp

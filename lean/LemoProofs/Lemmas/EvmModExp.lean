/-
  C16 helper lemmas for the MODEXP length model (`LemoModel.ModExp`).
-/
import LemoModel.ModExp
namespace LemoProofs.EvmModExp
open LemoModel.ModExp

theorem mult_ge (x : Nat) : x ≤ mult x := by
  unfold mult
  split
  · exact Nat.le_mul_self x
  · split
    · generalize x * x / 4 = t; omega
    · generalize x * x / 16 = t; omega

theorem padAlloc_le (p s : Nat) : padAlloc p s ≤ s := by
  unfold padAlloc; split <;> omega

theorem adj_ge (expLen hb : Nat) : (if expLen > 32 then 8 * (expLen - 32) else 0) ≤ adjExpLen expLen hb := by
  unfold adjExpLen; omega

/-- the uncapped price dominates both operand lengths and (up to 32) the exponent length -/
theorem price_ge (baseLen expLen modLen hb : Nat) (hx : 1 ≤ max modLen baseLen) :
    max modLen baseLen ≤ mult (max modLen baseLen) * max (adjExpLen expLen hb) 1 ∧
    expLen ≤ mult (max modLen baseLen) * max (adjExpLen expLen hb) 1 + 32 := by
  have h1 := mult_ge (max modLen baseLen)
  have h2 : 1 ≤ max (adjExpLen expLen hb) 1 := Nat.le_max_right _ _
  have h3 : mult (max modLen baseLen) ≤ mult (max modLen baseLen) * max (adjExpLen expLen hb) 1 :=
    Nat.le_mul_of_pos_right _ h2
  have h4 : max (adjExpLen expLen hb) 1 ≤ mult (max modLen baseLen) * max (adjExpLen expLen hb) 1 :=
    Nat.le_mul_of_pos_left _ (by omega)
  have h5 := adj_ge expLen hb
  have h6 : adjExpLen expLen hb ≤ max (adjExpLen expLen hb) 1 := Nat.le_max_left _ _
  refine ⟨by omega, ?_⟩
  by_cases h : expLen > 32
  · rw [if_pos h] at h5; omega
  · omega

end LemoProofs.EvmModExp

/-
  C16 helper lemmas: how `finishFrame`, `giveBack`, `enter`, `pre` and `step` of
  `LemoModel.Evm` change the frame stack (gas, depth) — the "shape" of a step.
-/
import LemoModel.Evm
namespace LemoProofs.EvmShape
open LemoModel LemoModel.Evm

theorem sumGas_addGas_le (r : List Frame) (g : Nat) : sumGas (addGas r g) ≤ sumGas r + g := by
  cases r with
  | nil => simp [addGas, sumGas]
  | cons p r => simp [addGas, sumGas]; omega

theorem length_addGas (r : List Frame) (g : Nat) : (addGas r g).length = r.length := by
  cases r <;> simp [addGas]

theorem addGas_cons (p : Frame) (r : List Frame) (g : Nat) :
    addGas (p :: r) g = { p with gas := p.gas + g } :: r := rfl

/-! ### finishFrame -/

theorem depositGas_le (P : Params) (k : Kind) (res : Res) (g r : Nat) : depositGas P k res g r ≤ g := by
  unfold depositGas; split <;> omega

/-- a finished frame hands back at most the gas it had -/
theorem finishFrame_frames (P : Params) (m : Machine) (f : Frame) (rest : List Frame) (res : Res) (g r : Nat) :
    ∃ g' res', g' ≤ g ∧ (finishFrame P m f rest res g r).frames = addGas rest g' ∧
      (finishFrame P m f rest res g r).result = (if rest.isEmpty then some (res', g') else none) := by
  refine ⟨if depositRes P f.kind res g r = .failed then 0 else depositGas P f.kind res g r,
          depositRes P f.kind res g r, ?_, rfl, rfl⟩
  split
  · omega
  · exact depositGas_le ..

/-! ### the shape of `enter` -/

/-- `enter` either returns at most `gas` to the caller's stack, or pushes a frame holding `gas` -/
theorem enter_shape (P : Params) (m : Machine) (k : Kind) (gas : Nat) (value canT : Bool) (callee : Callee) :
    (∃ x res, x ≤ gas ∧ (enter P m k gas value canT callee).frames = addGas m.frames x ∧
        (enter P m k gas value canT callee).result = (if m.frames.isEmpty then some (res, x) else none)) ∨
    (∃ cf : Frame, cf.gas = gas ∧ cf.supplied = gas ∧ cf.kind = k ∧
        (enter P m k gas value canT callee).frames = cf :: m.frames ∧
        (enter P m k gas value canT callee).result = m.result ∧
        m.frames.length ≤ P.callCreateDepth) := by
  unfold enter
  split
  · exact .inl ⟨gas, .failed, Nat.le_refl _, rfl, rfl⟩
  · rename_i hd
    split
    · exact .inl ⟨gas, .failed, Nat.le_refl _, rfl, rfl⟩
    · split
      · -- create
        split
        · exact .inl ⟨0, .failed, Nat.zero_le _, rfl, rfl⟩
        · split
          · exact .inr ⟨_, rfl, rfl, rfl, rfl, rfl, by omega⟩
          · obtain ⟨g', res', h1, h2, h3⟩ := finishFrame_frames P
              { m with journal := m.journal ++ [.transfer value, .transfer value] }
              { kind := .create, gas := gas, snap := m.journal.length, setRO := false, supplied := gas, entry := m.journal }
              m.frames .ok gas 0
            exact .inl ⟨g', res', h1, h2, h3⟩
      · split
        · exact .inl ⟨gas, .failed, Nat.le_refl _, rfl, rfl⟩
        · split
          · exact .inl ⟨gas, .ok, Nat.le_refl _, rfl, rfl⟩
          · split
            · exact .inr ⟨_, rfl, rfl, rfl, rfl, rfl, by omega⟩
            · split
              · obtain ⟨g', res', h1, h2, h3⟩ := finishFrame_frames P _ _ m.frames .failed 0 0
                exact .inl ⟨g', res', by omega, h2, h3⟩
              · split
                · obtain ⟨g', res', h1, h2, h3⟩ := finishFrame_frames P _ _ m.frames .ok (gas - _) 0
                  exact .inl ⟨g', res', by omega, h2, h3⟩
                · obtain ⟨g', res', h1, h2, h3⟩ := finishFrame_frames P _ _ m.frames .failed (gas - _) 0
                  exact .inl ⟨g', res', by omega, h2, h3⟩
            · obtain ⟨g', res', h1, h2, h3⟩ := finishFrame_frames P _ _ m.frames .ok gas 0
              exact .inl ⟨g', res', h1, h2, h3⟩

end LemoProofs.EvmShape

/-
  C16 helper lemmas: how `finishFrame`, `giveBack`, `enter`, `pre` and `step` of
  `LemoModel.Evm` change the frame stack (gas, depth) — the "shape" of a step.
-/
import LemoModel.Evm
namespace LemoProofs.EvmShape
open LemoModel LemoModel.Evm

theorem sumGas_addGas_le (r : List Frame) (g : Nat) : sumGas (addGas r g) ≤ sumGas r + g := by
  cases r with
  | nil => simp [addGas, sumGas]
  | cons p r => simp [addGas, sumGas]; omega

theorem length_addGas (r : List Frame) (g : Nat) : (addGas r g).length = r.length := by
  cases r <;> simp [addGas]

theorem addGas_cons (p : Frame) (r : List Frame) (g : Nat) :
    addGas (p :: r) g = { p with gas := p.gas + g } :: r := rfl

/-! ### finishFrame -/

theorem depositGas_le (P : Params) (k : Kind) (res : Res) (g r : Nat) : depositGas P k res g r ≤ g := by
  unfold depositGas; split <;> omega

/-- a finished frame hands back at most the gas it had -/
theorem finishFrame_frames (P : Params) (m : Machine) (f : Frame) (rest : List Frame) (res : Res) (g r : Nat) :
    ∃ g' res', g' ≤ g ∧ (finishFrame P m f rest res g r).frames = addGas rest g' ∧
      (finishFrame P m f rest res g r).result = (if rest.isEmpty then some (res', g') else none) := by
  refine ⟨if depositRes P f.kind res g r = .failed then 0 else depositGas P f.kind res g r,
          depositRes P f.kind res g r, ?_, rfl, rfl⟩
  split
  · omega
  · exact depositGas_le ..

/-! ### the shape of `enter` -/

/-- outcome of entering a callee on top of `parents`: gas handed back, or a new frame -/
def EnterShape (_P : Params) (parents : List Frame) (oldResult : Option (Res × Nat)) (k : Kind) (gas : Nat) (m' : Machine) : Prop :=
  (∃ x res, x ≤ gas ∧ m'.frames = addGas parents x ∧
      m'.result = (if parents.isEmpty then some (res, x) else none)) ∨
  (∃ cf : Frame, cf.gas = gas ∧ cf.supplied = gas ∧ cf.kind = k ∧ m'.frames = cf :: parents ∧ m'.result = oldResult)

theorem giveBack_shape (P : Params) (m : Machine) (k : Kind) (res : Res) (x gas : Nat) (h : x ≤ gas) :
    EnterShape P m.frames m.result k gas (giveBack m res x) :=
  .inl ⟨x, res, h, rfl, rfl⟩

theorem finish_shape (P : Params) (m' : Machine) (f : Frame) (parents : List Frame) (old : Option (Res × Nat))
    (k : Kind) (res : Res) (g r gas : Nat) (h : g ≤ gas) :
    EnterShape P parents old k gas (finishFrame P m' f parents res g r) := by
  obtain ⟨g', res', h1, h2, h3⟩ := finishFrame_frames P m' f parents res g r
  exact .inl ⟨g', res', by omega, h2, h3⟩

theorem runCallee_shape (P : Params) (m' : Machine) (f : Frame) (parents : List Frame) (gas : Nat) (callee : Callee)
    (k : Kind) (hg : f.gas = gas) (hs : f.supplied = gas) (hk : f.kind = k) :
    EnterShape P parents m'.result k gas (runCallee P m' f parents gas callee) := by
  unfold runCallee
  split
  · exact .inr ⟨f, hg, hs, hk, rfl, rfl⟩
  · split
    · exact finish_shape _ _ _ _ _ _ _ _ _ _ (Nat.zero_le _)
    · split
      · exact finish_shape _ _ _ _ _ _ _ _ _ _ (Nat.zero_le _)
      · split
        · exact finish_shape _ _ _ _ _ _ _ _ _ _ (Nat.sub_le _ _)
        · exact finish_shape _ _ _ _ _ _ _ _ _ _ (Nat.sub_le _ _)
  · exact finish_shape _ _ _ _ _ _ _ _ _ _ (Nat.le_refl _)

theorem enter_shape (P : Params) (m : Machine) (k : Kind) (gas : Nat) (value canT : Bool) (callee : Callee) :
    EnterShape P m.frames m.result k gas (enter P m k gas value canT callee) := by
  unfold enter
  split
  · exact giveBack_shape _ _ _ _ _ _ (Nat.le_refl _)
  · split
    · exact giveBack_shape _ _ _ _ _ _ (Nat.le_refl _)
    · split
      · rename_i hk
        subst hk
        unfold enterCreate
        split
        · exact giveBack_shape _ _ _ _ _ _ (Nat.zero_le _)
        · exact runCallee_shape P _ _ _ _ _ _ rfl rfl rfl
      · unfold enterCall
        split
        · exact giveBack_shape _ _ _ _ _ _ (Nat.le_refl _)
        · split
          · exact giveBack_shape _ _ _ _ _ _ (Nat.le_refl _)
          · exact runCallee_shape P _ _ _ _ _ _ rfl rfl rfl

/-- a frame is only pushed when the depth check passed -/
theorem enter_push_depth (P : Params) (m : Machine) (k : Kind) (gas : Nat) (value canT : Bool) (callee : Callee)
    (h : (enter P m k gas value canT callee).frames.length = m.frames.length + 1) :
    m.frames.length ≤ P.callCreateDepth := by
  unfold enter at h
  split at h
  · simp [giveBack, length_addGas] at h
  · omega

/-! ### `pre`: what passing the checks implies -/

/-- facts established by the checks before the gas stage -/
theorem pre_ok_valid (T : Table) (ro : Bool) (gas : Nat) (c : Choice) (r : Nat × Nat)
    (h : pre T ro gas c = .ok r) :
    (T.info c.op).valid = true ∧ (T.info c.op).minStack ≤ c.stackLen ∧ c.stackLen ≤ (T.info c.op).maxStack ∧
    (ro = true → (T.info c.op).writes = false ∧ ¬ (c.op = T.params.opCall ∧ c.value = true)) := by
  unfold pre at h
  simp only [] at h
  split at h; · cases h
  split at h; · cases h
  split at h; · cases h
  split at h; · cases h
  rename_i h1 h2 h3 h4
  refine ⟨by simpa using h1, by omega, by omega, ?_⟩
  intro hro
  subst hro
  simp only [true_and, not_or] at h4
  exact ⟨by simpa using h4.1, by simpa using h4.2⟩

/-- a plain (non-call) instruction: gas never grows; strictly shrinks unless the instruction ends the frame -/
theorem pre_ok_plain (T : Table) (hT : T.WF) (ro : Bool) (gas : Nat) (c : Choice) (g child : Nat)
    (h : pre T ro gas c = .ok (g, child)) (hk : T.kindOf c.op = none) :
    child = 0 ∧ g ≤ gas ∧
    (((T.info c.op).halts = false ∧ (T.info c.op).reverts = false) → g + 1 ≤ gas) := by
  have hv := (pre_ok_valid T ro gas c _ h).1
  unfold pre at h
  simp only [] at h
  split at h; · cases h
  split at h; · cases h
  split at h; · cases h
  split at h; · cases h
  split at h; · cases h
  split at h; · cases h
  rw [hk] at h
  simp only [] at h
  split at h; · cases h
  rename_i hc
  simp only [Except.ok.injEq, Prod.mk.injEq] at h
  obtain ⟨h1, h2⟩ := h
  refine ⟨h2.symm, by omega, ?_⟩
  intro hh
  have := hT.cost_pos c.op hv (.inr hh)
  omega

/-- the gas stage of a call: what it returns when it succeeds -/
theorem preCall_ok (P : Params) (minGas gas : Nat) (wv : Bool) (extra req g child : Nat)
    (h : preCall P minGas gas wv extra req = .ok (g, child)) :
    ∃ temp, callGas P gas (minGas + (if wv then P.callValueTransferGas else 0) + extra) req = some temp ∧
      minGas + (if wv then P.callValueTransferGas else 0) + extra + temp ≤ gas ∧
      g = gas - (minGas + (if wv then P.callValueTransferGas else 0) + extra + temp) ∧
      child = temp + (if wv then P.callStipend else 0) := by
  unfold preCall at h
  simp only [] at h
  generalize minGas + (if wv then P.callValueTransferGas else 0) + extra = base at h ⊢
  generalize (if wv = true then P.callStipend else 0) = st at h ⊢
  split at h
  · cases h
  · rename_i temp ht
    split at h; · cases h
    split at h; · cases h
    simp only [Except.ok.injEq, Prod.mk.injEq] at h
    exact ⟨temp, ht, by omega, h.1.symm, h.2.symm⟩

/-- a call-type instruction: what stays in the caller plus what the callee gets is strictly less
    than what the caller had -/
theorem pre_ok_call (T : Table) (hT : T.WF) (ro : Bool) (gas : Nat) (c : Choice) (g child : Nat) (k : Kind)
    (h : pre T ro gas c = .ok (g, child)) (hk : T.kindOf c.op = some k) :
    g + child + 1 ≤ gas := by
  have hv := (pre_ok_valid T ro gas c _ h).1
  have hpos := hT.cost_pos c.op hv (.inl (by rw [hk]; simp))
  have hst := hT.stipend
  unfold pre at h
  simp only [] at h
  split at h; · cases h
  split at h; · cases h
  split at h; · cases h
  split at h; · cases h
  split at h; · cases h
  split at h; · cases h
  rw [hk] at h
  cases k with
  | create =>
    simp only [] at h
    split at h; · cases h
    simp only [Except.ok.injEq, Prod.mk.injEq] at h
    obtain ⟨h1, h2⟩ := h
    omega
  | call | callCode | delegateCall | staticCall | asset =>
    simp only [] at h
    obtain ⟨temp, _, h2, h3, h4⟩ := preCall_ok _ _ _ _ _ _ _ _ h
    split at h2 <;> simp_all <;> omega

/-! ### the shape of a step -/

/-- the three ways one interpreter step changes the frame stack `f :: rest` -/
inductive Shape (P : Params) (m : Machine) (f : Frame) (rest : List Frame) (m' : Machine) : Prop
  /-- the frame ends and hands `g ≤ f.gas` back to its caller (or to the outside) -/
  | pop (g : Nat) (res : Res) (h : g ≤ f.gas) (hf : m'.frames = addGas rest g)
        (hr : m'.result = if rest.isEmpty then some (res, g) else none)
  /-- the frame continues with strictly less gas -/
  | cont (g : Nat) (h : g + 1 ≤ f.gas) (hf : m'.frames = { f with gas := g } :: rest)
        (hr : m'.result = none ∨ m'.result = m.result)
  /-- a callee frame is pushed: its gas plus what the caller keeps is strictly less than before,
      and the depth check passed -/
  | push (g : Nat) (cf : Frame) (h : cf.gas + g + 1 ≤ f.gas) (hs : cf.supplied = cf.gas)
        (hd : rest.length + 1 ≤ P.callCreateDepth) (hf : m'.frames = cf :: { f with gas := g } :: rest)
        (hr : m'.result = m.result)

theorem step_shape (T : Table) (hT : T.WF) (m : Machine) (c : Choice) (f : Frame) (rest : List Frame)
    (hm : m.frames = f :: rest) : Shape T.params m f rest (step T m c) := by
  unfold step
  rw [hm]
  simp only []
  cases hp : pre T m.readOnly f.gas c with
  | error e =>
    simp only []
    obtain ⟨g', res', h1, h2, h3⟩ := finishFrame_frames T.params m f rest .failed 0 0
    exact .pop g' res' (by omega) h2 h3
  | ok r =>
    obtain ⟨g, child⟩ := r
    simp only []
    cases hk : T.kindOf c.op with
    | none =>
      obtain ⟨_, hg, hlt⟩ := pre_ok_plain T hT _ _ _ _ _ hp hk
      simp only []
      split
      · obtain ⟨g', res', h1, h2, h3⟩ := finishFrame_frames T.params m f rest .failed 0 0
        exact .pop g' res' (by omega) h2 h3
      · split
        · obtain ⟨g', res', h1, h2, h3⟩ := finishFrame_frames T.params
            { m with journal := if (T.info c.op).writes then m.journal ++ c.wtags.map .write else m.journal }
            f rest .reverted g 0
          exact .pop g' res' (by omega) h2 h3
        · split
          · obtain ⟨g', res', h1, h2, h3⟩ := finishFrame_frames T.params
              { m with journal := if (T.info c.op).writes then m.journal ++ c.wtags.map .write else m.journal }
              f rest .ok g c.retLen
            exact .pop g' res' (by omega) h2 h3
          · rename_i hr hh
            have := hlt ⟨by simpa using hh, by simpa using hr⟩
            exact .cont g this rfl (.inr rfl)
    | some k =>
      have hb := pre_ok_call T hT _ _ _ _ _ k hp hk
      simp only []
      have hs := enter_shape T.params { m with frames := { f with gas := g } :: rest } k child c.value c.canTransfer c.callee
      rcases hs with ⟨x, res, hx, hf, hr⟩ | ⟨cf, hg, hsup, _, hf, hr⟩
      · refine .cont (g + x) (by omega) ?_ (.inl ?_)
        · rw [hf]; rfl
        · rw [hr]; rfl
      · have hd := enter_push_depth T.params { m with frames := { f with gas := g } :: rest } k child c.value c.canTransfer c.callee
          (by rw [hf]; simp)
        refine .push g cf (by omega) (by omega) (by simpa using hd) hf hr

end LemoProofs.EvmShape

/-
  C16 helper lemmas: read-only (static) execution of `LemoModel.Evm`.
  * `ROInv`: the readOnly flag is on exactly while the StaticCall frame that switched it on is
    live, and no CREATE frame sits above that frame.
  * `BenExt j j'`: `j'` is a truncation of `j` followed only by benign entries (the two no-op
    balance logs of a zero-value `evm.Transfer`, the platform's TopicRunFail event).
-/
import LemoModel.Evm
import LemoProofs.Lemmas.EvmShape
import LemoProofs.Lemmas.EvmJournal
namespace LemoProofs.EvmStatic
open LemoModel LemoModel.Evm LemoProofs.EvmShape LemoProofs.EvmJournal

/-! ### benign extensions -/

/-- entries that do not change any account attribute: the balance logs of a transfer of 0 and the
    platform's failure event -/
def Benign : Entry → Prop
  | .transfer false => True
  | .event true => True
  | _ => False

def AllB (l : List Entry) : Prop := ∀ e ∈ l, Benign e

theorem allB_nil : AllB [] := by intro e he; cases he

theorem allB_append {a b : List Entry} (ha : AllB a) (hb : AllB b) : AllB (a ++ b) := by
  intro e he
  rcases List.mem_append.mp he with h | h
  · exact ha e h
  · exact hb e h

theorem allB_take {a : List Entry} (n : Nat) (ha : AllB a) : AllB (a.take n) :=
  fun e he => ha e (List.mem_of_mem_take he)

/-- `j'` is `j` followed by benign entries -/
def BenApp (j j' : List Entry) : Prop := ∃ ext, j' = j ++ ext ∧ AllB ext

/-- `j'` is `j`, or `j` truncated to exactly the snapshot `s`, followed by benign entries -/
def BenStep (s : Nat) (j j' : List Entry) : Prop := ∃ ext, (j' = j ++ ext ∨ j' = j.take s ++ ext) ∧ AllB ext

theorem benApp_refl (j : List Entry) : BenApp j j := ⟨[], by simp, allB_nil⟩

theorem benStep_refl (s : Nat) (j : List Entry) : BenStep s j j := ⟨[], .inl (by simp), allB_nil⟩

theorem benStep_of_app {s : Nat} {j j' : List Entry} (h : BenApp j j') : BenStep s j j' := by
  obtain ⟨ext, h1, h2⟩ := h; exact ⟨ext, .inl h1, h2⟩

theorem failEvents_benign (k : Kind) (res : Res) (hk : k ≠ .create) : AllB (failEvents k res) := by
  intro e he
  cases k <;> cases res <;> simp [failEvents] at he <;> first | (subst he; trivial) | exact absurd rfl hk

theorem failEvents_ok_noncreate (k : Kind) (hk : k ≠ .create) : failEvents k .ok = [] := by
  cases k <;> first | rfl | exact absurd rfl hk

theorem depositRes_noncreate (P : Params) (k : Kind) (res : Res) (g r : Nat) (hk : k ≠ .create) :
    depositRes P k res g r = res := by
  unfold depositRes
  rw [if_neg (by intro hh; exact hk hh.1)]

/-- a finished non-CREATE frame leaves the journal it found, or that journal truncated to the
    frame's own snapshot, followed by benign entries only -/
theorem finishFrame_benStep (P : Params) (m : Machine) (f : Frame) (rest : List Frame) (res : Res) (g r : Nat)
    (hk : f.kind ≠ .create) : BenStep f.snap m.journal (finishFrame P m f rest res g r).journal := by
  by_cases hres : res = .ok
  · subst hres
    have : (finishFrame P m f rest .ok g r).journal = m.journal ++ failEvents f.kind .ok := by
      unfold finishFrame
      simp only [depositRes_noncreate P f.kind .ok g r hk]
      simp [hk]
    rw [this, failEvents_ok_noncreate f.kind hk, List.append_nil]
    exact benStep_refl _ _
  · rw [finishFrame_journal_notok P m f rest res g r hres]
    exact ⟨_, .inr rfl, failEvents_benign f.kind res hk⟩

/-- a callee entered on a fresh frame (snapshot = the caller's journal `j0`, journal already
    extended by the benign `tr`) that returns without leaving a frame only appends benign entries
    to `j0` -/
theorem runCallee_benApp (P : Params) (hg : P.guardPre = true) (m' : Machine) (f : Frame) (parents : List Frame)
    (gas : Nat) (callee : Callee) (j0 tr : List Entry) (hj : m'.journal = j0 ++ tr) (htr : AllB tr)
    (hs : f.snap = j0.length) (hro : m'.readOnly = true) (hk : f.kind ≠ .create) :
    BenApp j0 (runCallee P m' f parents gas callee).journal := by
  have fin : ∀ (res : Res) (g r : Nat), BenApp j0 (finishFrame P m' f parents res g r).journal := by
    intro res g r
    obtain ⟨ext, h1, h2⟩ := finishFrame_benStep P m' f parents res g r hk
    rcases h1 with h1 | h1
    · exact ⟨tr ++ ext, by rw [h1, hj, List.append_assoc], allB_append htr h2⟩
    · refine ⟨ext, ?_, h2⟩
      rw [h1, hj, hs]; simp
  unfold runCallee
  split
  · exact ⟨tr, hj, htr⟩
  · rename_i addr req ok w
    split
    · exact fin _ _ _
    · rename_i hng
      have hnw : addr ∉ P.writingPre := fun hh => hng ⟨hg, hro, hh⟩
      split
      · exact fin _ _ _
      · split
        · have hm : ({ m' with journal := m'.journal ++ List.map Entry.write [] } : Machine) = m' := by
            simp
          rw [hm]; exact fin _ _ _
        · exact fin _ _ _
  · exact fin _ _ _

theorem transferJournal_benign (k : Kind) (value : Bool) (j : List Entry) (hk : k ≠ .create) (hv : k = .call → value = false) :
    ∃ tr, transferJournal k value j = j ++ tr ∧ AllB tr := by
  unfold transferJournal
  split
  · rename_i h
    rcases h with h | h
    · rw [hv h]
      exact ⟨_, rfl, by intro e he; simp at he; subst he; trivial⟩
    · exact absurd h hk
  · exact ⟨[], by simp, allB_nil⟩

/-- entering any callee under readOnly only appends benign entries to the caller's journal
    (no truncation: the callee's snapshot is the caller's journal) -/
theorem enter_benApp (P : Params) (hg : P.guardPre = true) (m : Machine) (k : Kind) (gas : Nat) (value canT : Bool)
    (callee : Callee) (hro : m.readOnly = true) (hk : k ≠ .create) (hv : k = .call → value = false) :
    BenApp m.journal (enter P m k gas value canT callee).journal := by
  unfold enter
  split
  · exact benApp_refl _
  · split
    · exact benApp_refl _
    · unfold enterCall
      split
      · exact benApp_refl _
      · split
        · exact benApp_refl _
        · obtain ⟨tr, h1, h2⟩ := transferJournal_benign k value m.journal hk hv
          exact runCallee_benApp P hg
            { m with journal := transferJournal k value m.journal, readOnly := m.readOnly || decide (k = .staticCall) }
            (newFrame m k gas) m.frames gas callee m.journal tr h1 h2 rfl (by simp [hro]) hk

theorem kindOf_create (T : Table) (op : Nat) (h : T.kindOf op = some .create) : op = T.params.opCreate := by
  unfold Table.kindOf at h
  split at h; · cases h
  split at h; · cases h
  split at h; · cases h
  split at h; · cases h
  split at h
  · assumption
  · cases h

theorem kindOf_call (T : Table) (op : Nat) (h : T.kindOf op = some .call) : op = T.params.opCall := by
  unfold Table.kindOf at h
  split at h
  · assumption
  · split at h; · cases h
    split at h; · cases h
    split at h; · cases h
    split at h; · cases h
    cases h

/-- one step under readOnly, innermost frame `f` not a CREATE frame: the journal afterwards is the old
    one, or the old one truncated to exactly `f`'s snapshot, followed by benign entries only -/
theorem step_benStep (T : Table) (hg : T.params.guardPre = true) (hcw : (T.info T.params.opCreate).writes = true)
    (m : Machine) (c : Choice) (f : Frame) (rest : List Frame) (hm : m.frames = f :: rest)
    (hro : m.readOnly = true) (hk : f.kind ≠ .create) : BenStep f.snap m.journal (step T m c).journal := by
  unfold step
  rw [hm]
  simp only []
  cases hp : pre T m.readOnly f.gas c with
  | error e => exact finishFrame_benStep _ _ _ _ _ _ _ hk
  | ok r =>
    obtain ⟨g, child⟩ := r
    simp only []
    have hv := (pre_ok_valid T m.readOnly f.gas c _ hp).2.2.2 hro
    cases hkk : T.kindOf c.op with
    | none =>
      simp only [hv.1, Bool.false_eq_true, if_false]
      split
      · exact finishFrame_benStep _ _ _ _ _ _ _ hk
      · split
        · exact finishFrame_benStep _ { m with journal := m.journal } _ _ _ _ _ hk
        · split
          · exact finishFrame_benStep _ { m with journal := m.journal } _ _ _ _ _ hk
          · exact benStep_refl _ _
    | some k =>
      simp only []
      have hkc : k ≠ .create := by
        intro hh
        rw [hh] at hkk
        rw [kindOf_create T c.op hkk, hcw] at hv
        cases hv.1
      have hval : k = .call → c.value = false := by
        intro hh
        rw [hh] at hkk
        have := hv.2
        rw [kindOf_call T c.op hkk] at this
        cases hcv : c.value with
        | false => rfl
        | true => exact absurd ⟨rfl, hcv⟩ this
      exact benStep_of_app (enter_benApp T.params hg { m with frames := { f with gas := g } :: rest } k child c.value c.canTransfer c.callee hro hkc hval)

/-! ### the readOnly invariant -/

def ROInv : Bool → List Frame → Prop
  | ro, [] => ro = false
  | ro, f :: r =>
    if f.setRO = true then ro = true ∧ f.kind ≠ .create ∧ ROInv false r
    else (ro = true → f.kind ≠ .create) ∧ ROInv ro r

theorem roInv_addGas {ro : Bool} {fs : List Frame} (g : Nat) (h : ROInv ro fs) : ROInv ro (addGas fs g) := by
  cases fs with
  | nil => exact h
  | cons f r => exact h

theorem roInv_cons_set {ro : Bool} {f : Frame} {r : List Frame} (hs : f.setRO = true)
    (h1 : ro = true) (h2 : f.kind ≠ .create) (h3 : ROInv false r) : ROInv ro (f :: r) := by
  unfold ROInv; rw [if_pos hs]; exact ⟨h1, h2, h3⟩

theorem roInv_cons_unset {ro : Bool} {f : Frame} {r : List Frame} (hs : f.setRO = false)
    (h1 : ro = true → f.kind ≠ .create) (h2 : ROInv ro r) : ROInv ro (f :: r) := by
  unfold ROInv; rw [if_neg (by rw [hs]; simp)]; exact ⟨h1, h2⟩

theorem roInv_top {f : Frame} {r : List Frame} (h : ROInv true (f :: r)) : f.kind ≠ .create := by
  unfold ROInv at h
  split at h
  · exact h.2.1
  · exact h.1 rfl

theorem finishFrame_roInv (P : Params) (m : Machine) (f : Frame) (rest : List Frame) (res : Res) (g r : Nat)
    (h : ROInv m.readOnly (f :: rest)) :
    ROInv (finishFrame P m f rest res g r).readOnly (finishFrame P m f rest res g r).frames := by
  have hf : (finishFrame P m f rest res g r).frames = addGas rest _ := rfl
  have hr : (finishFrame P m f rest res g r).readOnly = if f.setRO then false else m.readOnly := rfl
  rw [hf, hr]
  unfold ROInv at h
  split at h
  · rename_i hs; rw [if_pos hs]; exact roInv_addGas _ h.2.2
  · rename_i hs; rw [if_neg hs]; exact roInv_addGas _ h.2

theorem runCallee_roInv (P : Params) (m' : Machine) (f : Frame) (parents : List Frame) (gas : Nat) (callee : Callee)
    (h : ROInv m'.readOnly (f :: parents)) :
    ROInv (runCallee P m' f parents gas callee).readOnly (runCallee P m' f parents gas callee).frames := by
  unfold runCallee
  split
  · exact h
  · split
    · exact finishFrame_roInv _ _ _ _ _ _ _ h
    · split
      · exact finishFrame_roInv _ _ _ _ _ _ _ h
      · split
        · exact finishFrame_roInv _ { m' with journal := _ } _ _ _ _ _ h
        · exact finishFrame_roInv _ _ _ _ _ _ _ h
  · exact finishFrame_roInv _ _ _ _ _ _ _ h

theorem enter_roInv (P : Params) (m : Machine) (k : Kind) (gas : Nat) (value canT : Bool) (callee : Callee)
    (h : ROInv m.readOnly m.frames) (hc : k = .create → m.readOnly = false) :
    ROInv (enter P m k gas value canT callee).readOnly (enter P m k gas value canT callee).frames := by
  unfold enter
  split
  · exact roInv_addGas _ h
  · split
    · exact roInv_addGas _ h
    · split
      · rename_i hk
        have hro := hc hk
        unfold enterCreate
        split
        · exact roInv_addGas _ h
        · apply runCallee_roInv
          show ROInv m.readOnly (newFrame m .create gas :: m.frames)
          exact roInv_cons_unset (by simp [newFrame]) (by rw [hro]; intro hh; cases hh) h
      · rename_i hk
        unfold enterCall
        split
        · exact roInv_addGas _ h
        · split
          · exact roInv_addGas _ h
          · apply runCallee_roInv
            show ROInv (m.readOnly || decide (k = .staticCall)) (newFrame m k gas :: m.frames)
            have hkind : (newFrame m k gas).kind = k := rfl
            by_cases hs : k = .staticCall
            · cases hro : m.readOnly with
              | false =>
                rw [hro] at h
                exact roInv_cons_set (by simp [newFrame, hs, hro]) (by simp [hs]) (by rw [hkind]; exact hk) h
              | true =>
                rw [hro] at h
                exact roInv_cons_unset (by simp [newFrame, hro]) (fun _ => by rw [hkind]; exact hk) (by simpa using h)
            · have : (m.readOnly || decide (k = .staticCall)) = m.readOnly := by simp [hs]
              rw [this]
              exact roInv_cons_unset (by simp [newFrame, hs]) (fun _ => by rw [hkind]; exact hk) h

theorem step_roInv (T : Table) (hcw : (T.info T.params.opCreate).writes = true) (m : Machine) (c : Choice)
    (h : ROInv m.readOnly m.frames) : ROInv (step T m c).readOnly (step T m c).frames := by
  cases hm : m.frames with
  | nil => unfold step; rw [hm]; simp only []; rw [hm] at h ⊢; exact h
  | cons f rest =>
    rw [hm] at h
    unfold step
    rw [hm]
    simp only []
    cases hp : pre T m.readOnly f.gas c with
    | error e => exact finishFrame_roInv _ _ _ _ _ _ _ h
    | ok r =>
      obtain ⟨g, child⟩ := r
      simp only []
      cases hkk : T.kindOf c.op with
      | none =>
        simp only []
        split
        · exact finishFrame_roInv _ _ _ _ _ _ _ h
        · split
          · exact finishFrame_roInv _ { m with journal := _ } _ _ _ _ _ h
          · split
            · exact finishFrame_roInv _ { m with journal := _ } _ _ _ _ _ h
            · exact h
      | some k =>
        simp only []
        apply enter_roInv T.params { m with frames := { f with gas := g } :: rest } k child c.value c.canTransfer c.callee h
        intro hk
        cases hro : m.readOnly with
        | false => rfl
        | true =>
          have hv := (pre_ok_valid T m.readOnly f.gas c _ hp).2.2.2 hro
          rw [hk] at hkk
          rw [kindOf_create T c.op hkk, hcw] at hv
          cases hv.1

theorem begin_roInv (T : Table) (k : Kind) (gas : Nat) (value canT : Bool) (callee : Callee) :
    ROInv (begin T k gas value canT callee).readOnly (begin T k gas value canT callee).frames :=
  enter_roInv T.params Machine.init k gas value canT callee rfl (fun _ => rfl)

/-! ### the journal of a static call -/

theorem roInv_unique {a b : Bool} {fs : List Frame} (ha : ROInv a fs) (hb : ROInv b fs) : a = b := by
  induction fs with
  | nil => unfold ROInv at ha hb; rw [ha, hb]
  | cons f r ih =>
    unfold ROInv at ha hb
    split at ha
    · rename_i hs; rw [if_pos hs] at hb; rw [ha.1, hb.1]
    · rename_i hs; rw [if_neg hs] at hb; exact ih ha.2 hb.2

theorem roInv_of_addGas {ro : Bool} {fs : List Frame} (g : Nat) (h : ROInv ro (addGas fs g)) : ROInv ro fs := by
  cases fs with
  | nil => exact h
  | cons f r => exact h

theorem chain_all_prefix {j : List Entry} {fs : List Frame} (h : Chain j fs) : ∀ s ∈ fs, s.entry <+: j := by
  induction fs generalizing j with
  | nil => intro s hs; cases hs
  | cons f r ih =>
    intro s hs
    obtain ⟨h1, _, h3⟩ := h
    cases hs with
    | head => exact h1
    | tail _ hs' => exact (ih h3 s hs').trans h1

theorem chain_entry_len {j : List Entry} {f : Frame} {rest : List Frame} (h : Chain j (f :: rest)) :
    ∀ s ∈ f :: rest, s.entry.length ≤ f.snap := by
  intro s hs
  obtain ⟨_, h2, h3⟩ := h
  rw [h2]
  cases hs with
  | head => exact Nat.le_refl _
  | tail _ hs' => exact (chain_all_prefix h3 s hs').length_le

/-- `SInv j fs`: relative to the innermost frame that switched readOnly on (the live StaticCall),
    the journal `j` is that frame's snapshot journal followed by benign entries only -/
def SInv : List Entry → List Frame → Prop
  | _, [] => True
  | j, f :: r => if f.setRO = true then ∃ ben, j = f.entry ++ ben ∧ AllB ben else SInv j r

theorem sinv_addGas {j : List Entry} {fs : List Frame} (g : Nat) (h : SInv j fs) : SInv j (addGas fs g) := by
  cases fs with
  | nil => trivial
  | cons f r => exact h

theorem sinv_app {j j' : List Entry} {fs : List Frame} (h : SInv j fs) (hb : BenApp j j') : SInv j' fs := by
  obtain ⟨ext, h1, h2⟩ := hb
  induction fs with
  | nil => trivial
  | cons f r ih =>
    unfold SInv at h ⊢
    split
    · rename_i hs
      rw [if_pos hs] at h
      obtain ⟨ben, hj, hben⟩ := h
      exact ⟨ben ++ ext, by rw [h1, hj, List.append_assoc], allB_append hben h2⟩
    · rename_i hs
      rw [if_neg hs] at h
      exact ih h

theorem sinv_take {j ext : List Entry} {fs : List Frame} (lo : Nat) (h : SInv j fs)
    (hlo : ∀ s ∈ fs, s.entry.length ≤ lo) (hext : AllB ext) : SInv (j.take lo ++ ext) fs := by
  induction fs with
  | nil => trivial
  | cons f r ih =>
    unfold SInv at h ⊢
    split
    · rename_i hs
      rw [if_pos hs] at h
      obtain ⟨ben, hj, hben⟩ := h
      have hl := hlo f (List.mem_cons_self)
      refine ⟨ben.take (lo - f.entry.length) ++ ext, ?_, allB_append (allB_take _ hben) hext⟩
      rw [hj, List.take_append, List.take_of_length_le hl, List.append_assoc]
    · rename_i hs
      rw [if_neg hs] at h
      exact ih h (fun s hs' => hlo s (List.mem_cons_of_mem _ hs'))

theorem sinv_benStep {j j' : List Entry} {fs : List Frame} (lo : Nat) (h : SInv j fs)
    (hlo : ∀ s ∈ fs, s.entry.length ≤ lo) (hb : BenStep lo j j') : SInv j' fs := by
  obtain ⟨ext, h1, h2⟩ := hb
  rcases h1 with h1 | h1
  · exact sinv_app h ⟨ext, h1, h2⟩
  · rw [h1]; exact sinv_take lo h hlo h2

/-- the three invariants together -/
structure Inv (m : Machine) : Prop where
  chain : Chain m.journal m.frames
  ro : ROInv m.readOnly m.frames
  stat : m.readOnly = true → SInv m.journal m.frames

theorem finishFrame_sinv (P : Params) (m : Machine) (f : Frame) (rest : List Frame) (res : Res) (g r : Nat)
    (hc : Chain m.journal (f :: rest)) (hr : ROInv m.readOnly (f :: rest))
    (hs : m.readOnly = true → SInv m.journal (f :: rest))
    (hro' : (finishFrame P m f rest res g r).readOnly = true) :
    SInv (finishFrame P m f rest res g r).journal (finishFrame P m f rest res g r).frames := by
  have hrd : (finishFrame P m f rest res g r).readOnly = if f.setRO then false else m.readOnly := rfl
  have hfr : (finishFrame P m f rest res g r).frames = addGas rest _ := rfl
  rw [hrd] at hro'
  by_cases hset : f.setRO = true
  · rw [if_pos hset] at hro'; cases hro'
  · rw [if_neg hset] at hro'
    have hk : f.kind ≠ .create := by rw [hro'] at hr; exact roInv_top hr
    have h1 := hs hro'
    unfold SInv at h1
    rw [if_neg hset] at h1
    rw [hfr]
    apply sinv_addGas
    exact sinv_benStep f.snap h1 (fun s hs' => chain_entry_len hc s (List.mem_cons_of_mem _ hs'))
      (finishFrame_benStep P m f rest res g r hk)

theorem runCallee_cases (P : Params) (m' : Machine) (f : Frame) (parents : List Frame) (gas : Nat) (callee : Callee) :
    ((runCallee P m' f parents gas callee).readOnly = m'.readOnly ∧
      (runCallee P m' f parents gas callee).frames = f :: parents ∧
      (runCallee P m' f parents gas callee).journal = m'.journal) ∨
    (runCallee P m' f parents gas callee).readOnly = (if f.setRO then false else m'.readOnly) := by
  unfold runCallee
  split
  · exact .inl ⟨rfl, rfl, rfl⟩
  · split
    · exact .inr rfl
    · split
      · exact .inr rfl
      · split
        · exact .inr rfl
        · exact .inr rfl
  · exact .inr rfl

/-- entering a callee: if readOnly is on afterwards, the static-call journal invariant holds -/
theorem runCallee_sinv (P : Params) (hg : P.guardPre = true) (m : Machine) (k : Kind) (gas : Nat) (value : Bool)
    (callee : Callee) (hs : m.readOnly = true → SInv m.journal m.frames)
    (hkv : m.readOnly = true → k ≠ .create ∧ (k = .call → value = false))
    (hro' : (runCallee P { m with journal := transferJournal k value m.journal, readOnly := m.readOnly || decide (k = .staticCall) }
              (newFrame m k gas) m.frames gas callee).readOnly = true) :
    SInv (runCallee P { m with journal := transferJournal k value m.journal, readOnly := m.readOnly || decide (k = .staticCall) }
              (newFrame m k gas) m.frames gas callee).journal
         (runCallee P { m with journal := transferJournal k value m.journal, readOnly := m.readOnly || decide (k = .staticCall) }
              (newFrame m k gas) m.frames gas callee).frames := by
  by_cases hro : m.readOnly = true
  · -- already read-only: only benign entries are appended
    obtain ⟨hkc, hv⟩ := hkv hro
    obtain ⟨tr, h1, h2⟩ := transferJournal_benign k value m.journal hkc hv
    have happ := runCallee_benApp P hg
      { m with journal := transferJournal k value m.journal, readOnly := m.readOnly || decide (k = .staticCall) }
      (newFrame m k gas) m.frames gas callee m.journal tr h1 h2 rfl (by simp [hro]) hkc
    have hset : (newFrame m k gas).setRO = false := by simp [newFrame, hro]
    rcases runCallee_shape P { m with journal := transferJournal k value m.journal, readOnly := m.readOnly || decide (k = .staticCall) }
        (newFrame m k gas) m.frames gas callee k rfl rfl rfl with ⟨x, res, _, hf, _⟩ | ⟨cf, _, _, _, hf, _⟩
    · rw [hf]; exact sinv_addGas _ (sinv_app (hs hro) happ)
    · -- the pushed frame is `newFrame`, which did not switch readOnly on
      have hcf : (runCallee P { m with journal := transferJournal k value m.journal, readOnly := m.readOnly || decide (k = .staticCall) }
              (newFrame m k gas) m.frames gas callee).frames = newFrame m k gas :: m.frames := by
        revert hf
        unfold runCallee
        split
        · intro _; rfl
        · split
          · intro hf; have := congrArg List.length hf; simp [finishFrame, length_addGas] at this
          · split
            · intro hf; have := congrArg List.length hf; simp [finishFrame, length_addGas] at this
            · split
              · intro hf; have := congrArg List.length hf; simp [finishFrame, length_addGas] at this
              · intro hf; have := congrArg List.length hf; simp [finishFrame, length_addGas] at this
        · intro hf; have := congrArg List.length hf; simp [finishFrame, length_addGas] at this
      rw [hcf]
      unfold SInv
      rw [if_neg (by rw [hset]; simp)]
      exact sinv_app (hs hro) happ
  · -- readOnly was off: it can only be on afterwards if a StaticCall frame was pushed
    have hrof : m.readOnly = false := by cases h : m.readOnly <;> simp_all
    rcases runCallee_cases P { m with journal := transferJournal k value m.journal, readOnly := m.readOnly || decide (k = .staticCall) }
        (newFrame m k gas) m.frames gas callee with ⟨h1, h2, h3⟩ | h1
    · rw [h1] at hro'
      have hk : k = .staticCall := by simpa [hrof] using hro'
      subst hk
      rw [h2, h3]
      show SInv (transferJournal .staticCall value m.journal) (newFrame m .staticCall gas :: m.frames)
      unfold SInv
      rw [if_pos (by simp [newFrame, hrof])]
      exact ⟨[], by simp [transferJournal, newFrame], allB_nil⟩
    · rw [h1] at hro'
      exfalso
      by_cases hk : k = .staticCall <;> simp [newFrame, hrof, hk] at hro'

theorem enter_sinv (P : Params) (hg : P.guardPre = true) (m : Machine) (k : Kind) (gas : Nat) (value canT : Bool)
    (callee : Callee) (hs : m.readOnly = true → SInv m.journal m.frames)
    (hkv : m.readOnly = true → k ≠ .create ∧ (k = .call → value = false))
    (hro' : (enter P m k gas value canT callee).readOnly = true) :
    SInv (enter P m k gas value canT callee).journal (enter P m k gas value canT callee).frames := by
  have back : ∀ res g, (giveBack m res g).readOnly = true → SInv (giveBack m res g).journal (giveBack m res g).frames :=
    fun res g h => sinv_addGas _ (hs h)
  revert hro'
  unfold enter
  split
  · exact back _ _
  · split
    · exact back _ _
    · split
      · rename_i hk
        have hrof : m.readOnly = false := by
          cases h : m.readOnly with
          | false => rfl
          | true => exact absurd hk (hkv h).1
        unfold enterCreate
        split
        · exact back _ _
        · intro hro'
          exfalso
          rcases runCallee_cases P { m with journal := transferJournal .create value m.journal } (newFrame m .create gas)
              m.frames gas (if callee = .code then .code else .empty) with ⟨h1, _, _⟩ | h1
          · rw [h1] at hro'; simp [hrof] at hro'
          · rw [h1] at hro'; simp [newFrame, hrof] at hro'
      · unfold enterCall
        split
        · exact back _ _
        · split
          · exact back _ _
          · exact runCallee_sinv P hg m k gas value callee hs hkv

/-- the static-call journal invariant is preserved by every interpreter step -/
theorem step_sinv (T : Table) (hg : T.params.guardPre = true) (hcw : (T.info T.params.opCreate).writes = true)
    (m : Machine) (c : Choice) (hi : Inv m) (hro' : (step T m c).readOnly = true) :
    SInv (step T m c).journal (step T m c).frames := by
  obtain ⟨hc, hr, hs⟩ := hi
  cases hm : m.frames with
  | nil =>
    have : step T m c = m := by unfold step; rw [hm]
    rw [this] at hro' ⊢
    exact hs hro'
  | cons f rest =>
    rw [hm] at hc hr hs
    revert hro'
    unfold step
    rw [hm]
    simp only []
    cases hp : pre T m.readOnly f.gas c with
    | error e => exact finishFrame_sinv _ _ _ _ _ _ _ hc hr hs
    | ok r =>
      obtain ⟨g, child⟩ := r
      simp only []
      have hv := (pre_ok_valid T m.readOnly f.gas c _ hp).2.2.2
      cases hkk : T.kindOf c.op with
      | none =>
        simp only []
        have hc1 : Chain (if (T.info c.op).writes then m.journal ++ c.wtags.map Entry.write else m.journal) (f :: rest) := by
          split
          · exact chain_mono (List.prefix_append _ _) hc
          · exact hc
        have hs1 : m.readOnly = true →
            SInv (if (T.info c.op).writes then m.journal ++ c.wtags.map Entry.write else m.journal) (f :: rest) := by
          intro h
          rw [(hv h).1]
          exact hs h
        split
        · exact finishFrame_sinv _ _ _ _ _ _ _ hc hr hs
        · split
          · exact finishFrame_sinv _ { m with journal := _ } _ _ _ _ _ hc1 hr hs1
          · split
            · exact finishFrame_sinv _ { m with journal := _ } _ _ _ _ _ hc1 hr hs1
            · exact hs1
      | some k =>
        simp only []
        apply enter_sinv T.params hg { m with frames := { f with gas := g } :: rest } k child c.value c.canTransfer c.callee hs
        intro hro
        have hv' := hv hro
        constructor
        · intro hh
          rw [hh] at hkk
          rw [kindOf_create T c.op hkk, hcw] at hv'
          cases hv'.1
        · intro hh
          rw [hh] at hkk
          have := hv'.2
          rw [kindOf_call T c.op hkk] at this
          cases hcv : c.value with
          | false => rfl
          | true => exact absurd ⟨rfl, hcv⟩ this

theorem step_inv (T : Table) (hg : T.params.guardPre = true) (hcw : (T.info T.params.opCreate).writes = true)
    (m : Machine) (c : Choice) (hi : Inv m) : Inv (step T m c) :=
  ⟨step_chain T m c hi.chain, step_roInv T hcw m c hi.ro, step_sinv T hg hcw m c hi⟩

theorem init_inv : Inv Machine.init := ⟨trivial, rfl, fun h => by cases h⟩

theorem begin_inv (T : Table) (hg : T.params.guardPre = true) (k : Kind) (gas : Nat) (value canT : Bool) (callee : Callee) :
    Inv (begin T k gas value canT callee) :=
  ⟨begin_chain T k gas value canT callee, begin_roInv T k gas value canT callee,
   enter_sinv T.params hg Machine.init k gas value canT callee (fun h => by cases h) (fun h => by cases h)⟩

end LemoProofs.EvmStatic

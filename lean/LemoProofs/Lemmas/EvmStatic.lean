/-
  C16 helper lemmas: read-only (static) execution of `LemoModel.Evm`.
  * `ROInv`: the readOnly flag is on exactly while the StaticCall frame that switched it on is
    live, and no CREATE frame sits above that frame.
  * `BenExt j j'`: `j'` is a truncation of `j` followed only by benign entries (the two no-op
    balance logs of a zero-value `evm.Transfer`, the platform's TopicRunFail event).
-/
import LemoModel.Evm
import LemoProofs.Lemmas.EvmShape
import LemoProofs.Lemmas.EvmJournal
namespace LemoProofs.EvmStatic
open LemoModel LemoModel.Evm LemoProofs.EvmShape LemoProofs.EvmJournal

/-! ### benign extensions -/

/-- entries that do not change any account attribute: the balance logs of a transfer of 0 and the
    platform's failure event -/
def Benign : Entry → Prop
  | .transfer false => True
  | .event true => True
  | _ => False

def BenExt (j j' : List Entry) : Prop := ∃ n ext, j' = j.take n ++ ext ∧ ∀ e ∈ ext, Benign e

theorem benExt_refl (j : List Entry) : BenExt j j :=
  ⟨j.length, [], by simp, by intro e he; cases he⟩

theorem benExt_take (j : List Entry) (n : Nat) (ext : List Entry) (h : ∀ e ∈ ext, Benign e) :
    BenExt j (j.take n ++ ext) := ⟨n, ext, rfl, h⟩

theorem benExt_of_append {j tr j'' : List Entry} (htr : ∀ e ∈ tr, Benign e) (h : BenExt (j ++ tr) j'') : BenExt j j'' := by
  obtain ⟨n, ext, h1, h2⟩ := h
  refine ⟨n, tr.take (n - j.length) ++ ext, ?_, ?_⟩
  · rw [h1, List.take_append, List.append_assoc]
  · intro e he
    rcases List.mem_append.mp he with he | he
    · exact htr e (List.mem_of_mem_take he)
    · exact h2 e he

theorem failEvents_benign (k : Kind) (res : Res) (hk : k ≠ .create) : ∀ e ∈ failEvents k res, Benign e := by
  intro e he
  cases k <;> cases res <;> simp [failEvents] at he <;> first | (subst he; trivial) | exact absurd rfl hk

theorem failEvents_ok_noncreate (k : Kind) (hk : k ≠ .create) : failEvents k .ok = [] := by
  cases k <;> first | rfl | exact absurd rfl hk

theorem depositRes_noncreate (P : Params) (k : Kind) (res : Res) (g r : Nat) (hk : k ≠ .create) :
    depositRes P k res g r = res := by
  unfold depositRes
  rw [if_neg (by intro hh; exact hk hh.1)]

/-- a finished non-CREATE frame leaves a benign extension of the journal it started from -/
theorem finishFrame_benExt (P : Params) (m : Machine) (f : Frame) (rest : List Frame) (res : Res) (g r : Nat)
    (hk : f.kind ≠ .create) : BenExt m.journal (finishFrame P m f rest res g r).journal := by
  by_cases hres : res = .ok
  · subst hres
    have : (finishFrame P m f rest .ok g r).journal = m.journal ++ failEvents f.kind .ok := by
      unfold finishFrame
      simp only [depositRes_noncreate P f.kind .ok g r hk]
      simp [hk]
    rw [this, failEvents_ok_noncreate f.kind hk, List.append_nil]
    exact benExt_refl _
  · rw [finishFrame_journal_notok P m f rest res g r hres]
    exact benExt_take _ _ _ (failEvents_benign f.kind res hk)

theorem runCallee_benExt (P : Params) (hg : P.guardPre = true) (m' : Machine) (f : Frame) (parents : List Frame)
    (gas : Nat) (callee : Callee) (hro : m'.readOnly = true) (hk : f.kind ≠ .create) :
    BenExt m'.journal (runCallee P m' f parents gas callee).journal := by
  unfold runCallee
  split
  · exact benExt_refl _
  · rename_i addr req ok w
    split
    · exact finishFrame_benExt _ _ _ _ _ _ _ hk
    · rename_i hng
      have hnw : addr ∉ P.writingPre := fun hh => hng ⟨hg, hro, hh⟩
      split
      · exact finishFrame_benExt _ _ _ _ _ _ _ hk
      · split
        · have := finishFrame_benExt P { m' with journal := m'.journal ++ List.replicate (if addr ∈ P.writingPre then w else 0) .write }
            f parents .ok (gas - req) 0 hk
          simpa [hnw] using this
        · exact finishFrame_benExt _ _ _ _ _ _ _ hk
  · exact finishFrame_benExt _ _ _ _ _ _ _ hk

theorem transferJournal_benign (k : Kind) (value : Bool) (j : List Entry) (hk : k ≠ .create) (hv : k = .call → value = false) :
    ∃ tr, transferJournal k value j = j ++ tr ∧ ∀ e ∈ tr, Benign e := by
  unfold transferJournal
  split
  · rename_i h
    rcases h with h | h
    · rw [hv h]
      exact ⟨_, rfl, by intro e he; simp at he; subst he; trivial⟩
    · exact absurd h hk
  · exact ⟨[], by simp, by intro e he; cases he⟩

theorem enter_benExt (P : Params) (hg : P.guardPre = true) (m : Machine) (k : Kind) (gas : Nat) (value canT : Bool)
    (callee : Callee) (hro : m.readOnly = true) (hk : k ≠ .create) (hv : k = .call → value = false) :
    BenExt m.journal (enter P m k gas value canT callee).journal := by
  unfold enter
  split
  · exact benExt_refl _
  · split
    · exact benExt_refl _
    · unfold enterCall
      split
      · exact benExt_refl _
      · split
        · exact benExt_refl _
        · obtain ⟨tr, h1, h2⟩ := transferJournal_benign k value m.journal hk hv
          have := runCallee_benExt P hg
            { m with journal := transferJournal k value m.journal, readOnly := m.readOnly || decide (k = .staticCall) }
            (newFrame m k gas) m.frames gas callee (by simp [hro]) hk
          simp only [h1] at this ⊢
          exact benExt_of_append h2 this

theorem kindOf_create (T : Table) (op : Nat) (h : T.kindOf op = some .create) : op = T.params.opCreate := by
  unfold Table.kindOf at h
  split at h; · cases h
  split at h; · cases h
  split at h; · cases h
  split at h; · cases h
  split at h
  · assumption
  · cases h

theorem kindOf_call (T : Table) (op : Nat) (h : T.kindOf op = some .call) : op = T.params.opCall := by
  unfold Table.kindOf at h
  split at h
  · assumption
  · split at h; · cases h
    split at h; · cases h
    split at h; · cases h
    split at h; · cases h
    cases h

/-- one step under readOnly, innermost frame not a CREATE frame -/
theorem step_benExt (T : Table) (hg : T.params.guardPre = true) (hcw : (T.info T.params.opCreate).writes = true)
    (m : Machine) (c : Choice) (f : Frame) (rest : List Frame) (hm : m.frames = f :: rest)
    (hro : m.readOnly = true) (hk : f.kind ≠ .create) : BenExt m.journal (step T m c).journal := by
  unfold step
  rw [hm]
  simp only []
  cases hp : pre T m.readOnly f.gas c with
  | error e => exact finishFrame_benExt _ _ _ _ _ _ _ hk
  | ok r =>
    obtain ⟨g, child⟩ := r
    simp only []
    have hv := (pre_ok_valid T m.readOnly f.gas c _ hp).2.2.2 hro
    cases hkk : T.kindOf c.op with
    | none =>
      simp only [hv.1, Bool.false_eq_true, if_false]
      split
      · exact finishFrame_benExt _ _ _ _ _ _ _ hk
      · split
        · exact finishFrame_benExt _ { m with journal := m.journal } _ _ _ _ _ hk
        · split
          · exact finishFrame_benExt _ { m with journal := m.journal } _ _ _ _ _ hk
          · exact benExt_refl _
    | some k =>
      simp only []
      have hkc : k ≠ .create := by
        intro hh
        rw [hh] at hkk
        rw [kindOf_create T c.op hkk, hcw] at hv
        cases hv.1
      have hval : k = .call → c.value = false := by
        intro hh
        rw [hh] at hkk
        have := hv.2
        rw [kindOf_call T c.op hkk] at this
        cases hcv : c.value with
        | false => rfl
        | true => exact absurd ⟨rfl, hcv⟩ this
      exact enter_benExt T.params hg { m with frames := { f with gas := g } :: rest } k child c.value c.canTransfer c.callee hro hkc hval

/-! ### the readOnly invariant -/

def ROInv : Bool → List Frame → Prop
  | ro, [] => ro = false
  | ro, f :: r =>
    if f.setRO = true then ro = true ∧ f.kind ≠ .create ∧ ROInv false r
    else (ro = true → f.kind ≠ .create) ∧ ROInv ro r

theorem roInv_addGas {ro : Bool} {fs : List Frame} (g : Nat) (h : ROInv ro fs) : ROInv ro (addGas fs g) := by
  cases fs with
  | nil => exact h
  | cons f r => exact h

theorem roInv_cons_set {ro : Bool} {f : Frame} {r : List Frame} (hs : f.setRO = true)
    (h1 : ro = true) (h2 : f.kind ≠ .create) (h3 : ROInv false r) : ROInv ro (f :: r) := by
  unfold ROInv; rw [if_pos hs]; exact ⟨h1, h2, h3⟩

theorem roInv_cons_unset {ro : Bool} {f : Frame} {r : List Frame} (hs : f.setRO = false)
    (h1 : ro = true → f.kind ≠ .create) (h2 : ROInv ro r) : ROInv ro (f :: r) := by
  unfold ROInv; rw [if_neg (by rw [hs]; simp)]; exact ⟨h1, h2⟩

theorem roInv_top {f : Frame} {r : List Frame} (h : ROInv true (f :: r)) : f.kind ≠ .create := by
  unfold ROInv at h
  split at h
  · exact h.2.1
  · exact h.1 rfl

theorem finishFrame_roInv (P : Params) (m : Machine) (f : Frame) (rest : List Frame) (res : Res) (g r : Nat)
    (h : ROInv m.readOnly (f :: rest)) :
    ROInv (finishFrame P m f rest res g r).readOnly (finishFrame P m f rest res g r).frames := by
  have hf : (finishFrame P m f rest res g r).frames = addGas rest _ := rfl
  have hr : (finishFrame P m f rest res g r).readOnly = if f.setRO then false else m.readOnly := rfl
  rw [hf, hr]
  unfold ROInv at h
  split at h
  · rename_i hs; rw [if_pos hs]; exact roInv_addGas _ h.2.2
  · rename_i hs; rw [if_neg hs]; exact roInv_addGas _ h.2

theorem runCallee_roInv (P : Params) (m' : Machine) (f : Frame) (parents : List Frame) (gas : Nat) (callee : Callee)
    (h : ROInv m'.readOnly (f :: parents)) :
    ROInv (runCallee P m' f parents gas callee).readOnly (runCallee P m' f parents gas callee).frames := by
  unfold runCallee
  split
  · exact h
  · split
    · exact finishFrame_roInv _ _ _ _ _ _ _ h
    · split
      · exact finishFrame_roInv _ _ _ _ _ _ _ h
      · split
        · exact finishFrame_roInv _ { m' with journal := _ } _ _ _ _ _ h
        · exact finishFrame_roInv _ _ _ _ _ _ _ h
  · exact finishFrame_roInv _ _ _ _ _ _ _ h

theorem enter_roInv (P : Params) (m : Machine) (k : Kind) (gas : Nat) (value canT : Bool) (callee : Callee)
    (h : ROInv m.readOnly m.frames) (hc : k = .create → m.readOnly = false) :
    ROInv (enter P m k gas value canT callee).readOnly (enter P m k gas value canT callee).frames := by
  unfold enter
  split
  · exact roInv_addGas _ h
  · split
    · exact roInv_addGas _ h
    · split
      · rename_i hk
        have hro := hc hk
        unfold enterCreate
        split
        · exact roInv_addGas _ h
        · apply runCallee_roInv
          show ROInv m.readOnly (newFrame m .create gas :: m.frames)
          exact roInv_cons_unset (by simp [newFrame]) (by rw [hro]; intro hh; cases hh) h
      · rename_i hk
        unfold enterCall
        split
        · exact roInv_addGas _ h
        · split
          · exact roInv_addGas _ h
          · apply runCallee_roInv
            show ROInv (m.readOnly || decide (k = .staticCall)) (newFrame m k gas :: m.frames)
            have hkind : (newFrame m k gas).kind = k := rfl
            by_cases hs : k = .staticCall
            · cases hro : m.readOnly with
              | false =>
                rw [hro] at h
                exact roInv_cons_set (by simp [newFrame, hs, hro]) (by simp [hs]) (by rw [hkind]; exact hk) h
              | true =>
                rw [hro] at h
                exact roInv_cons_unset (by simp [newFrame, hro]) (fun _ => by rw [hkind]; exact hk) (by simpa using h)
            · have : (m.readOnly || decide (k = .staticCall)) = m.readOnly := by simp [hs]
              rw [this]
              exact roInv_cons_unset (by simp [newFrame, hs]) (fun _ => by rw [hkind]; exact hk) h

theorem step_roInv (T : Table) (hcw : (T.info T.params.opCreate).writes = true) (m : Machine) (c : Choice)
    (h : ROInv m.readOnly m.frames) : ROInv (step T m c).readOnly (step T m c).frames := by
  cases hm : m.frames with
  | nil => unfold step; rw [hm]; simp only []; rw [hm] at h ⊢; exact h
  | cons f rest =>
    rw [hm] at h
    unfold step
    rw [hm]
    simp only []
    cases hp : pre T m.readOnly f.gas c with
    | error e => exact finishFrame_roInv _ _ _ _ _ _ _ h
    | ok r =>
      obtain ⟨g, child⟩ := r
      simp only []
      cases hkk : T.kindOf c.op with
      | none =>
        simp only []
        split
        · exact finishFrame_roInv _ _ _ _ _ _ _ h
        · split
          · exact finishFrame_roInv _ { m with journal := _ } _ _ _ _ _ h
          · split
            · exact finishFrame_roInv _ { m with journal := _ } _ _ _ _ _ h
            · exact h
      | some k =>
        simp only []
        apply enter_roInv T.params { m with frames := { f with gas := g } :: rest } k child c.value c.canTransfer c.callee h
        intro hk
        cases hro : m.readOnly with
        | false => rfl
        | true =>
          have hv := (pre_ok_valid T m.readOnly f.gas c _ hp).2.2.2 hro
          rw [hk] at hkk
          rw [kindOf_create T c.op hkk, hcw] at hv
          cases hv.1

theorem begin_roInv (T : Table) (k : Kind) (gas : Nat) (value canT : Bool) (callee : Callee) :
    ROInv (begin T k gas value canT callee).readOnly (begin T k gas value canT callee).frames :=
  enter_roInv T.params Machine.init k gas value canT callee rfl (fun _ => rfl)

end LemoProofs.EvmStatic

/-
  Helper lemmas for C05Evm: `upd`, sums over a duplicate-free address list, and the journal — whatever a frame did,
  `RevertToSnapshot` of the snapshot taken at its entry gives back the state of the entry (balances, suicided flags and
  the journal itself).
-/
import LemoModel.EvmValue
namespace LemoProofs.EvmValueJournal
open LemoModel.EvmValue

/-! ### upd -/

theorem upd_same {β : Type} (f : Nat → β) (k : Nat) (v : β) : upd f k v k = v := by simp [upd]

theorem upd_other {β : Type} (f : Nat → β) (k x : Nat) (v : β) (h : x ≠ k) : upd f k v x = f x := by simp [upd, h]

theorem upd_upd_old {β : Type} (f : Nat → β) (k : Nat) (v : β) : upd (upd f k v) k (f k) = f := by
  funext x
  by_cases h : x = k
  · subst h; simp [upd]
  · simp [upd, h]

theorem upd_self {β : Type} (f : Nat → β) (k : Nat) : upd f k (f k) = f := by
  funext x
  by_cases h : x = k
  · subst h; simp [upd]
  · simp [upd, h]

/-! ### sums -/

theorem sumBal_nil (bal : Nat → Int) : sumBal bal [] = 0 := by simp [sumBal]

theorem sumBal_cons (bal : Nat → Int) (a : Nat) (U : List Nat) : sumBal bal (a :: U) = bal a + sumBal bal U := by
  simp [sumBal]

theorem sumBal_upd_notin (bal : Nat → Int) (a : Nat) (v : Int) : ∀ U, a ∉ U → sumBal (upd bal a v) U = sumBal bal U := by
  intro U
  induction U with
  | nil => intro _; simp [sumBal_nil]
  | cons b U ih =>
    intro h
    have hb : b ≠ a := fun e => h (by rw [e]; exact List.mem_cons_self)
    rw [sumBal_cons, sumBal_cons, upd_other _ _ _ _ hb, ih (fun hh => h (List.mem_cons_of_mem _ hh))]

/-- writing one balance moves the sum by exactly the difference -/
theorem sumBal_upd (bal : Nat → Int) (a : Nat) (v : Int) : ∀ U, U.Nodup → a ∈ U →
    sumBal (upd bal a v) U = sumBal bal U + (v - bal a) := by
  intro U
  induction U with
  | nil => intro _ h; cases h
  | cons b U ih =>
    intro hn hm
    have ⟨hb, hn'⟩ := List.nodup_cons.mp hn
    rw [sumBal_cons, sumBal_cons]
    by_cases e : b = a
    · subst e
      rw [upd_same, sumBal_upd_notin bal b v U hb]; omega
    · have : a ∈ U := by
        rcases List.mem_cons.mp hm with h | h
        · exact absurd h.symm e
        · exact h
      rw [upd_other _ _ _ _ e, ih hn' this]; omega

theorem setBal_bal (s : St) (a : Nat) (v : Int) : (setBal s a v).bal = upd s.bal a v := rfl
theorem setBal_dead (s : St) (a : Nat) (v : Int) : (setBal s a v).dead = s.dead := rfl
theorem setBal_log (s : St) (a : Nat) (v : Int) : (setBal s a v).log = ⟨a, s.bal a, false⟩ :: s.log := rfl

theorem sumBal_setBal (s : St) (a : Nat) (v : Int) (U : List Nat) (hn : U.Nodup) (ha : a ∈ U) :
    sumBal (setBal s a v).bal U = sumBal s.bal U + (v - s.bal a) := by
  rw [setBal_bal]; exact sumBal_upd s.bal a v U hn ha

/-- `Transfer` conserves the sum (sender = recipient included) -/
theorem sumBal_transfer (s : St) (a b : Nat) (v : Int) (U : List Nat) (hn : U.Nodup) (ha : a ∈ U) (hb : b ∈ U) :
    sumBal (transfer s a b v).bal U = sumBal s.bal U := by
  unfold transfer
  simp only
  rw [sumBal_setBal _ b _ U hn hb, sumBal_setBal s a _ U hn ha]
  omega

theorem transfer_dead (s : St) (a b : Nat) (v : Int) : (transfer s a b v).dead = s.dead := rfl

/-- a transfer of nothing changes no balance -/
theorem transfer_zero_bal (s : St) (a b : Nat) : (transfer s a b 0).bal = s.bal := by
  unfold transfer
  simp only [setBal_bal, Int.sub_zero, Int.add_zero]
  rw [upd_self s.bal a]
  exact upd_self s.bal b

/-- self-destruct moves the sum by exactly what it reports as destroyed -/
theorem sumBal_suicide (s : St) (self b : Nat) (U : List Nat) (hn : U.Nodup) (hs : self ∈ U) (hb : b ∈ U) :
    sumBal (suicide s self b).1.bal U = sumBal s.bal U - (suicide s self b).2 := by
  unfold suicide
  by_cases hd : s.dead self = true
  · simp [hd]
  · simp only [hd, Bool.false_eq_true, if_false]
    rw [sumBal_upd _ self 0 U hn hs, sumBal_setBal s b _ U hn hb, setBal_bal]
    by_cases e : b = self
    · subst e; rw [upd_same]; simp; omega
    · rw [upd_other _ _ _ _ (fun h => e h.symm)]; simp [e]; omega

/-! ### the journal -/

/-- `s'` was reached from `s` by journalled writes only: every snapshot of `s` still reverts to what it reverted to -/
def Reach (s s' : St) : Prop :=
  s.log.length ≤ s'.log.length ∧ ∀ n, n ≤ s.log.length → revertTo n s' = revertTo n s

theorem Reach.refl (s : St) : Reach s s := ⟨Nat.le_refl _, fun _ _ => rfl⟩

theorem Reach.trans {a b c : St} (h1 : Reach a b) (h2 : Reach b c) : Reach a c :=
  ⟨Nat.le_trans h1.1 h2.1, fun n hn => by rw [h2.2 n (Nat.le_trans hn h1.1), h1.2 n hn]⟩

/-- reverting to a snapshot that is not older than the journal is the identity -/
theorem revertTo_ge (s : St) (n : Nat) (h : s.log.length ≤ n) : revertTo n s = s := by
  unfold revertTo
  cases hl : s.log with
  | nil =>
    simp only [revertGo]
    cases s; simp_all
  | cons e l =>
    have : l.length < n := by rw [hl] at h; simp at h; omega
    simp only [revertGo, this, if_true]
    cases s; simp_all

/-- one pushed entry whose undo gives back the old cells -/
theorem revertTo_push (bal : Nat → Int) (dead : Nat → Bool) (e : Entry) (l : List Entry) (n : Nat) (h : n ≤ l.length) :
    revertTo n { bal := bal, dead := dead, log := e :: l } =
      revertTo n { bal := upd bal e.addr e.old, dead := (if e.suicide then upd dead e.addr false else dead), log := l } := by
  unfold revertTo
  have : ¬ l.length < n := by omega
  simp only [revertGo, this, if_false]

theorem Reach.of_setBal (s : St) (a : Nat) (v : Int) : Reach s (setBal s a v) := by
  refine ⟨by rw [setBal_log]; simp, fun n hn => ?_⟩
  unfold setBal
  rw [revertTo_push _ _ _ _ n hn]
  simp only [Bool.false_eq_true, if_false]
  rw [upd_upd_old]

theorem Reach.of_transfer (s : St) (a b : Nat) (v : Int) : Reach s (transfer s a b v) := by
  unfold transfer
  exact Reach.trans (Reach.of_setBal s a _) (Reach.of_setBal _ b _)

theorem Reach.of_suicide (s : St) (self b : Nat) : Reach s (suicide s self b).1 := by
  unfold suicide
  by_cases hd : s.dead self = true
  · simp only [hd, if_true]; exact Reach.refl s
  · simp only [hd, Bool.false_eq_true, if_false]
    refine Reach.trans (Reach.of_setBal s b (s.bal b + s.bal self)) ⟨Nat.le_succ _, fun n hn => ?_⟩
    rw [revertTo_push _ _ _ _ n hn]
    simp only [if_true]
    rw [upd_upd_old]
    have hd' : (setBal s b (s.bal b + s.bal self)).dead self = false := by
      rw [setBal_dead]; simpa using hd
    have : upd (upd (setBal s b (s.bal b + s.bal self)).dead self true) self false = (setBal s b (s.bal b + s.bal self)).dead := by
      rw [← hd', upd_upd_old]
    rw [this]

/-- the point of the journal: reverting to the snapshot taken at `s` gives `s` back -/
theorem Reach.revert {s s' : St} (h : Reach s s') : revertTo s.log.length s' = s := by
  rw [h.2 _ (Nat.le_refl _)]; exact revertTo_ge s _ (Nat.le_refl _)

end LemoProofs.EvmValueJournal

/-
  Helper lemmas for C15 (LemoModel.Frame): the segmented reader is the flat reader,
  simulation of the parser along a reader morphism, PKCS5 unpadding facts.
-/
import LemoModel.Frame
namespace LemoProofs.FrameLemmas
open LemoModel.Frame

/-! ### readers -/

/-- every successful `readFull n` returns exactly `n` bytes -/
def Lawful {σ : Type} (R : Reader σ) : Prop :=
  ∀ n st g st', R.readFull n st = some (g, st') → g.length = n

/-- `f` maps connection states of `R1` to states of `R2` and commutes with `readFull` -/
def Sim {σ τ : Type} (R1 : Reader σ) (R2 : Reader τ) (f : σ → τ) : Prop :=
  ∀ n st, (R1.readFull n st).map (fun p => (p.1, f p.2)) = R2.readFull n (f st)

theorem flat_lawful : Lawful flat := by
  intro n st g st' h
  simp only [flat, flatRead] at h
  split at h
  · cases h
  · cases h
    rw [List.length_take]; omega

/-- `io.ReadFull` over segments reads exactly what it would read from the concatenation -/
theorem chunkRead_spec : ∀ (cs : List Bytes) (n : Nat),
    (chunkRead n cs).map (fun p => (p.1, p.2.flatten)) = flatRead n cs.flatten := by
  intro cs
  induction cs with
  | nil =>
    intro n
    cases n with
    | zero => simp [chunkRead, flatRead]
    | succ k => simp [chunkRead, flatRead]
  | cons c cs ih =>
    intro n
    unfold chunkRead
    by_cases hn : n = 0
    · subst hn
      simp [flatRead]
    · simp only [hn, if_false]
      by_cases hc : c.length ≤ n
      · simp only [hc, if_true]
        have := ih (n - c.length)
        simp only [List.flatten_cons]
        generalize cs.flatten = F at this ⊢
        cases hr : chunkRead (n - c.length) cs with
        | none =>
          rw [hr] at this
          simp only [Option.map_none, flatRead] at this
          have hlt : F.length < n - c.length := by
            by_cases h : F.length < n - c.length
            · exact h
            · rw [if_neg h] at this; cases this
          have h2 : (c ++ F).length < n := by rw [List.length_append]; omega
          simp only [Option.map_none, flatRead, if_pos h2]
        | some p =>
          obtain ⟨g, r⟩ := p
          rw [hr] at this
          simp only [Option.map_some, flatRead] at this
          have hge : ¬ F.length < n - c.length := by
            intro h; rw [if_pos h] at this; cases this
          rw [if_neg hge] at this
          simp only [Option.some.injEq, Prod.mk.injEq] at this
          obtain ⟨hg, hrr⟩ := this
          have h2 : ¬ (c ++ F).length < n := by rw [List.length_append]; omega
          simp only [Option.map_some, flatRead, if_neg h2, Option.some.injEq, Prod.mk.injEq]
          constructor
          · rw [List.take_append, List.take_of_length_le hc, hg]
          · rw [List.drop_append, List.drop_of_length_le hc, hrr]; simp
      · simp only [hc, if_false, Option.map_some, flatRead, List.flatten_cons]
        generalize cs.flatten = F
        have h2 : ¬ (c ++ F).length < n := by rw [List.length_append]; omega
        simp only [if_neg h2, Option.some.injEq, Prod.mk.injEq]
        have h0 : n - c.length = 0 := by omega
        constructor
        · rw [List.take_append, h0]; simp
        · rw [List.drop_append, h0]; simp

theorem chunked_sim : Sim chunked flat List.flatten := by
  intro n st
  exact chunkRead_spec st n

theorem chunked_lawful : Lawful chunked := by
  intro n st g st' h
  have := chunkRead_spec st n
  simp only [chunked] at h
  rw [h] at this
  simp only [Option.map_some] at this
  exact flat_lawful n st.flatten g st'.flatten this.symm

/-! ### the parser commutes with reader morphisms -/

section sim
variable {σ τ : Type} {R1 : Reader σ} {R2 : Reader τ} {f : σ → τ}

theorem sim_none (hs : Sim R1 R2 f) {n : Nat} {st : σ} (h : R1.readFull n st = none) :
    R2.readFull n (f st) = none := by
  have := hs n st; rw [h] at this; exact this.symm

theorem sim_some (hs : Sim R1 R2 f) {n : Nat} {st st' : σ} {g : Bytes}
    (h : R1.readFull n st = some (g, st')) : R2.readFull n (f st) = some (g, f st') := by
  have := hs n st; rw [h] at this; exact this.symm

theorem readConn_sim (hs : Sim R1 R2 f) (cfg : Cfg) (st : σ) :
    (readConn R1 cfg st).mapSt f = readConn R2 cfg (f st) := by
  unfold readConn
  cases h6 : R1.readFull 6 st with
  | none => rw [sim_none hs h6]; rfl
  | some p =>
    obtain ⟨hd, st1⟩ := p
    rw [sim_some hs h6]
    simp only
    split
    · rfl
    · split
      · rfl
      · split
        · rfl
        · cases hl : R1.readFull (be32 (hd.getD 2 0) (hd.getD 3 0) (hd.getD 4 0) (hd.getD 5 0)) st1 with
          | none => rw [sim_none hs hl]; rfl
          | some q =>
            obtain ⟨c, st2⟩ := q
            rw [sim_some hs hl]; rfl

/-- lock-step outcomes -/
def Outcome.mapSt {σ τ : Type} (f : σ → τ) : Outcome σ → Outcome τ
  | .needMore => .needMore
  | .err e => .err e
  | .panic s => .panic s
  | .heartbeat st => .heartbeat (f st)
  | .deliver c p st => .deliver c p (f st)

theorem frameStepWith_sim (hs : Sim R1 R2 f) (h : Bytes → Handled) (da : Bytes → Nat) (cfg : Cfg) (st : σ) :
    Outcome.mapSt f (frameStepWith h da R1 cfg st).out = (frameStepWith h da R2 cfg (f st)).out ∧
    (frameStepWith h da R1 cfg st).alloc = (frameStepWith h da R2 cfg (f st)).alloc := by
  unfold frameStepWith
  rw [← readConn_sim hs cfg st]
  cases readConn R1 cfg st with
  | needMore a => exact ⟨rfl, rfl⟩
  | err e a => exact ⟨rfl, rfl⟩
  | content c st' a =>
    simp only [ReadRes.mapSt]
    cases h c <;> exact ⟨rfl, rfl⟩

theorem runWith_sim (hs : Sim R1 R2 f) (h : Bytes → Handled) (cfg : Cfg) :
    ∀ (fuel : Nat) (st : σ), runWith h R1 cfg fuel st = runWith h R2 cfg fuel (f st) := by
  intro fuel
  induction fuel with
  | zero => intro st; rfl
  | succ k ih =>
    intro st
    unfold runWith
    have := (frameStepWith_sim hs h (fun c => c.length) cfg st).1
    rw [← this]
    cases (frameStepWith h (fun c => c.length) R1 cfg st).out with
    | needMore => rfl
    | err e => rfl
    | panic s => rfl
    | heartbeat st' => simp only [Outcome.mapSt]; rw [ih st']
    | deliver c p st' => simp only [Outcome.mapSt]; rw [ih st']

theorem runAllocWith_sim (hs : Sim R1 R2 f) (h : Bytes → Handled) (da : Bytes → Nat) (cfg : Cfg) :
    ∀ (fuel : Nat) (st : σ), runAllocWith h da R1 cfg fuel st = runAllocWith h da R2 cfg fuel (f st) := by
  intro fuel
  induction fuel with
  | zero => intro st; rfl
  | succ k ih =>
    intro st
    unfold runAllocWith
    have h1 := (frameStepWith_sim hs h da cfg st).1
    have h2 := (frameStepWith_sim hs h da cfg st).2
    rw [← h1, ← h2]
    cases (frameStepWith h da R1 cfg st).out with
    | needMore => rfl
    | err e => rfl
    | panic s => rfl
    | heartbeat st' => simp only [Outcome.mapSt]; rw [ih st']
    | deliver c p st' => simp only [Outcome.mapSt]; rw [ih st']

theorem hsStepWith_sim (hs : Sim R1 R2 f) (o : Bytes → HsOut × Nat) (lim : Nat) (st : σ) :
    hsStepWith o lim R1 st = hsStepWith o lim R2 (f st) := by
  unfold hsStepWith
  cases h2 : R1.readFull 2 st with
  | none => rw [sim_none hs h2]
  | some p =>
    obtain ⟨pp, st1⟩ := p
    rw [sim_some hs h2]
    simp only
    split
    · rfl
    · cases h4 : R1.readFull 4 st1 with
      | none => rw [sim_none hs h4]
      | some q =>
        obtain ⟨l, st2⟩ := q
        rw [sim_some hs h4]
        simp only
        split
        · rfl
        · cases hl : R1.readFull (be32 (l.getD 0 0) (l.getD 1 0) (l.getD 2 0) (l.getD 3 0)) st2 with
          | none => rw [sim_none hs hl]
          | some r =>
            obtain ⟨c, st3⟩ := r
            rw [sim_some hs hl]

end sim

/-! ### PKCS5UnPadding -/

/-- a successful unpadding strips at least one byte and returns a prefix -/
theorem unpad_some {d o : Bytes} (h : unpad d = some o) :
    ∃ k, k < d.length ∧ o = d.take k := by
  unfold unpad at h
  split at h
  · cases h
  · rename_i p hp
    simp only at h
    split at h
    · cases h
    · rename_i hc
      split at h
      · cases h
        refine ⟨d.length - p.toNat, ?_, rfl⟩
        have hne : d ≠ [] := by
          intro hd; subst hd; simp at hp
        have : 0 < d.length := List.length_pos_iff.mpr hne
        omega
      · cases h

theorem unpad_length_lt {d o : Bytes} (h : unpad d = some o) : o.length < d.length := by
  obtain ⟨k, hk, rfl⟩ := unpad_some h
  rw [List.length_take]; omega

theorem getD_take {d : Bytes} {k i : Nat} (h : i < k) : (d.take k).getD i 0 = d.getD i 0 := by
  simp [List.getD_eq_getElem?_getD, h]

theorem codeOf_unpad {d o : Bytes} (h : unpad d = some o) (h4 : 4 ≤ o.length) : codeOf o = codeOf d := by
  obtain ⟨k, hk, rfl⟩ := unpad_some h
  have : 4 ≤ k := by rw [List.length_take] at h4; omega
  unfold codeOf
  rw [getD_take (by omega), getD_take (by omega), getD_take (by omega), getD_take (by omega)]

theorem codeOf_take4 (d : Bytes) : codeOf (d.take 4) = codeOf d := by
  unfold codeOf
  rw [getD_take (by omega), getD_take (by omega), getD_take (by omega), getD_take (by omega)]

theorem flatRead_some {n : Nat} {s g r : Bytes} (h : flatRead n s = some (g, r)) :
    g.length = n ∧ s.length = n + r.length := by
  unfold flatRead at h
  split at h
  · cases h
  · cases h
    rw [List.length_take, List.length_drop]; omega

/-- on a flat stream a delivered content accounts for exactly the bytes it consumed -/
theorem readConn_flat_content {cfg : Cfg} {s c rest : Bytes} {a : Nat}
    (h : readConn flat cfg s = .content c rest a) :
    s.length = 6 + c.length + rest.length ∧ a = 6 + c.length ∧ c.length ≤ cfg.maxLen := by
  unfold readConn at h
  cases h6 : flat.readFull 6 s with
  | none => rw [h6] at h; cases h
  | some q =>
    obtain ⟨hd, s1⟩ := q
    rw [h6] at h
    simp only at h
    split at h
    · cases h
    · split at h
      · cases h
      · split at h
        · cases h
        · rename_i hmax
          cases hl : flat.readFull (be32 (hd.getD 2 0) (hd.getD 3 0) (hd.getD 4 0) (hd.getD 5 0)) s1 with
          | none => rw [hl] at h; cases h
          | some r =>
            obtain ⟨c', s2⟩ := r
            rw [hl] at h
            cases h
            have a1 := flatRead_some (show flatRead 6 s = some (hd, s1) from h6)
            have a2 := flatRead_some (show flatRead _ s1 = some (c, rest) from hl)
            omega

end LemoProofs.FrameLemmas

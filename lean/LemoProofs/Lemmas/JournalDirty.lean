/-
  Helper lemmas for C07's pending-write layer (LemoModel.JournalDirty):
  sorted key sets, one write followed by its undo gives the dirty sets back, chains of such steps.
-/
import LemoProofs.Lemmas.JournalStep
import LemoModel.JournalDirty
namespace LemoProofs.JournalDirtyL
open LemoModel.Journal LemoModel.JournalDirty LemoProofs.JournalStep

/-! ### sorted duplicate-free key lists -/

def Sorted (l : List Nat) : Prop := l.Pairwise (· < ·)

theorem sorted_nil : Sorted [] := List.Pairwise.nil

theorem mem_ins (k x : Nat) (l : List Nat) : x ∈ ins k l ↔ x = k ∨ x ∈ l := by
  induction l with
  | nil => simp [ins]
  | cons y ys ih =>
    unfold ins
    by_cases h1 : k < y
    · simp [h1]
    · by_cases h2 : k = y
      · subst h2; simp
      · simp only [h1, h2, if_false, List.mem_cons, ih]
        constructor
        · rintro (h | h | h)
          · exact Or.inr (Or.inl h)
          · exact Or.inl h
          · exact Or.inr (Or.inr h)
        · rintro (h | h | h)
          · exact Or.inr (Or.inl h)
          · exact Or.inl h
          · exact Or.inr (Or.inr h)

theorem sorted_ins (k : Nat) (l : List Nat) (h : Sorted l) : Sorted (ins k l) := by
  induction l with
  | nil => simp [ins, Sorted]
  | cons y ys ih =>
    have hy : ∀ z ∈ ys, y < z := (List.pairwise_cons.mp h).1
    have hys : Sorted ys := (List.pairwise_cons.mp h).2
    unfold ins
    by_cases h1 : k < y
    · simp only [h1, if_true]
      refine List.pairwise_cons.mpr ⟨?_, h⟩
      intro z hz
      rcases List.mem_cons.mp hz with e | e
      · rw [e]; exact h1
      · exact Nat.lt_trans h1 (hy z e)
    · by_cases h2 : k = y
      · subst h2; simp only [Nat.lt_irrefl, if_false, if_true]; exact h
      · simp only [h1, h2, if_false]
        refine List.pairwise_cons.mpr ⟨?_, ih hys⟩
        intro z hz
        rcases (mem_ins k z ys).mp hz with e | e
        · rw [e]; omega
        · exact hy z e

theorem mem_del (k x : Nat) (l : List Nat) : x ∈ del k l ↔ x ∈ l ∧ x ≠ k := by
  simp [del]

theorem sorted_del (k : Nat) (l : List Nat) (h : Sorted l) : Sorted (del k l) :=
  List.Pairwise.filter _ h

theorem del_of_not_mem (k : Nat) (l : List Nat) (h : k ∉ l) : del k l = l := by
  unfold del
  rw [List.filter_eq_self]
  intro a ha
  have : a ≠ k := fun e => h (e ▸ ha)
  simpa using this

theorem ins_of_mem (k : Nat) (l : List Nat) (hs : Sorted l) (h : k ∈ l) : ins k l = l := by
  induction l with
  | nil => cases h
  | cons y ys ih =>
    have hy : ∀ z ∈ ys, y < z := (List.pairwise_cons.mp hs).1
    have hys : Sorted ys := (List.pairwise_cons.mp hs).2
    unfold ins
    by_cases h2 : k = y
    · subst h2; simp
    · have hk : k ∈ ys := by
        rcases List.mem_cons.mp h with e | e
        · exact absurd e h2
        · exact e
      have h1 : ¬ k < y := by have := hy k hk; omega
      simp only [h1, h2, if_false, ih hys hk]

theorem ins_lt_all (k : Nat) (l : List Nat) (h : ∀ z ∈ l, k < z) : ins k l = k :: l := by
  cases l with
  | nil => rfl
  | cons y ys =>
    unfold ins
    have : k < y := h y (by simp)
    simp [this]

theorem del_ins_of_not_mem (k : Nat) (l : List Nat) (h : k ∉ l) : del k (ins k l) = l := by
  induction l with
  | nil => simp [ins, del]
  | cons y ys ih =>
    have hne : k ≠ y := fun e => h (by simp [e])
    have hk : k ∉ ys := fun e => h (by simp [e])
    unfold ins
    by_cases h1 : k < y
    · simp only [h1, if_true]
      have : del k (k :: y :: ys) = del k (y :: ys) := by simp [del]
      rw [this, del_of_not_mem k _ h]
    · simp only [h1, hne, if_false]
      have : del k (y :: ins k ys) = y :: del k (ins k ys) := by
        have hy : (y != k) = true := by simpa using (Ne.symm hne)
        simp [del, hy]
      rw [this, ih hk]

theorem ins_del_of_mem (k : Nat) (l : List Nat) (hs : Sorted l) (h : k ∈ l) : ins k (del k l) = l := by
  induction l with
  | nil => cases h
  | cons y ys ih =>
    have hy : ∀ z ∈ ys, y < z := (List.pairwise_cons.mp hs).1
    have hys : Sorted ys := (List.pairwise_cons.mp hs).2
    by_cases h2 : k = y
    · subst h2
      have hk : k ∉ ys := fun e => by have := hy k e; omega
      have : del k (k :: ys) = ys := by
        have : del k (k :: ys) = del k ys := by simp [del]
        rw [this, del_of_not_mem k ys hk]
      rw [this, ins_lt_all k ys hy]
    · have hk : k ∈ ys := by
        rcases List.mem_cons.mp h with e | e
        · exact absurd e h2
        · exact e
      have hlt : y < k := hy k hk
      have : del k (y :: ys) = y :: del k ys := by
        have hy' : (y != k) = true := by simpa using (Ne.symm h2)
        simp [del, hy']
      rw [this]
      unfold ins
      have h1 : ¬ k < y := by omega
      simp only [h1, h2, if_false, ih hys hk]

theorem contains_iff (k : Nat) (l : List Nat) : l.contains k = true ↔ k ∈ l := by simp

/-! ### the four sets of an account -/

def SortedD (d : Dirty) : Prop := Sorted d.s ∧ Sorted d.ac ∧ Sorted d.ai ∧ Sorted d.e

theorem sortedD_empty : SortedD {} := ⟨sorted_nil, sorted_nil, sorted_nil, sorted_nil⟩

/-- **the guard of dirty-exactness** (decided on the account as it is before the write): the asset-code family restores
    through `SetAssetCode(code, old)`, which queues a write iff the asset existed — exact iff "exists" and "is queued"
    agree for the slot, i.e. the asset is not one that sits committed and untouched in the trie. Every write to contract
    storage, asset ids and equities is exact (OldClean / RevertState). `SetSuicide` resets three caches. -/
def DirtyOk (a : Acct) (d : Dirty) : Write → Bool
  | .assetCode k _ => (a.getAssetCode k).isSome == d.ac.contains k
  | .assetCodeState c _ _ => d.ac.contains c
  | .assetCodeSupply c _ => d.ac.contains c
  | .suicide => false
  | _ => true

theorem dirty_eta (d : Dirty) : ({ s := d.s, ac := d.ac, ai := d.ai, e := d.e } : Dirty) = d := by cases d; rfl

theorem contains_false (k : Nat) (l : List Nat) (h : k ∉ l) : l.contains k = false := by
  cases hc : l.contains k with
  | false => rfl
  | true => exact absurd ((contains_iff k l).mp hc) h

/-- **one step, dirty sets**: a journalled write followed by its `Undo` (current code) gives back the four
    pending-write sets exactly. -/
theorem dirty_write_undo_exact (a a' : Acct) (d : Dirty) (w : Write) (u : Undo)
    (hs : SortedD d) (hok : DirtyOk a d w = true) (h : applyWrite a w = .ok a' u) :
    undoDirty1 true (dirtyWrite d a w).1 u (dirtyWrite d a w).2.clean = d := by
  obtain ⟨hs1, hs2, hs3, hs4⟩ := hs
  cases w with
  | suicide => simp [DirtyOk] at hok
  | balance v => simp only [applyWrite, WRes.ok.injEq] at h; obtain ⟨_, rfl⟩ := h; rfl
  | votes v => simp only [applyWrite, WRes.ok.injEq] at h; obtain ⟨_, rfl⟩ := h; rfl
  | voteFor v => simp only [applyWrite, WRes.ok.injEq] at h; obtain ⟨_, rfl⟩ := h; rfl
  | signers v => simp only [applyWrite, WRes.ok.injEq] at h; obtain ⟨_, rfl⟩ := h; rfl
  | candidate p => simp only [applyWrite, WRes.ok.injEq] at h; obtain ⟨_, rfl⟩ := h; rfl
  | candidateState k v => simp only [applyWrite, WRes.ok.injEq] at h; obtain ⟨_, rfl⟩ := h; rfl
  | code id => simp only [applyWrite, WRes.ok.injEq] at h; obtain ⟨_, rfl⟩ := h; rfl
  | event => simp only [applyWrite, WRes.ok.injEq] at h; obtain ⟨_, rfl⟩ := h; rfl
  | storage k v =>
    simp only [applyWrite, WRes.ok.injEq] at h; obtain ⟨_, rfl⟩ := h
    by_cases hk : k ∈ d.s
    · have hc : d.s.contains k = true := (contains_iff k d.s).mpr hk
      simp only [dirtyWrite, undoDirty1, hc, Bool.not_true, Bool.and_false, Bool.false_eq_true, if_false,
        ins_of_mem k d.s hs1 hk]
    · have hc : d.s.contains k = false := contains_false k d.s hk
      simp only [dirtyWrite, undoDirty1, hc, Bool.not_false, Bool.and_self, if_true, del_ins_of_not_mem k d.s hk]
  | assetId k v =>
    simp only [applyWrite, WRes.ok.injEq] at h; obtain ⟨_, rfl⟩ := h
    by_cases hk : k ∈ d.ai
    · have hc : d.ai.contains k = true := (contains_iff k d.ai).mpr hk
      simp only [dirtyWrite, undoDirty1, hc, Bool.not_true, Bool.and_false, Bool.false_eq_true, if_false,
        ins_of_mem k d.ai hs3 hk]
    · have hc : d.ai.contains k = false := contains_false k d.ai hk
      simp only [dirtyWrite, undoDirty1, hc, Bool.not_false, Bool.and_self, if_true, del_ins_of_not_mem k d.ai hk]
  | equity k v =>
    simp only [applyWrite, WRes.ok.injEq] at h; obtain ⟨_, rfl⟩ := h
    by_cases hk : k ∈ d.e
    · have hc : d.e.contains k = true := (contains_iff k d.e).mpr hk
      simp only [dirtyWrite, undoDirty1, hc, Bool.not_true, Bool.and_false, Bool.false_eq_true, if_false,
        ins_of_mem k d.e hs4 hk]
    · have hc : d.e.contains k = false := contains_false k d.e hk
      simp only [dirtyWrite, undoDirty1, hc, Bool.not_false, Bool.and_self, if_true, del_ins_of_not_mem k d.e hk]
  | assetCode k v =>
    simp only [applyWrite, WRes.ok.injEq] at h; obtain ⟨_, rfl⟩ := h
    simp only [DirtyOk, beq_iff_eq] at hok
    simp only [dirtyWrite, undoDirty1]
    cases hq : a.getAssetCode k with
    | none =>
      have hk : k ∉ d.ac := by
        intro hm
        have := (contains_iff k d.ac).mpr hm
        rw [hq, this] at hok; cases hok
      cases v with
      | none => simp only [del_of_not_mem k d.ac hk]
      | some as => simp only [del_ins_of_not_mem k d.ac hk]
    | some q =>
      have hk : k ∈ d.ac := by
        rw [hq] at hok
        exact (contains_iff k d.ac).mp hok.symm
      cases v with
      | none => simp only [ins_del_of_mem k d.ac hs2 hk]
      | some as => simp only [ins_of_mem k d.ac hs2 hk]
  | assetCodeState c key v =>
    simp only [DirtyOk] at hok
    have hk : c ∈ d.ac := (contains_iff c d.ac).mp hok
    simp only [applyWrite] at h
    cases hq : a.getAssetCode c with
    | none => simp [hq] at h
    | some as =>
      simp only [hq, WRes.ok.injEq] at h; obtain ⟨_, rfl⟩ := h
      simp only [dirtyWrite, undoDirty1, ins_of_mem c d.ac hs2 hk]
  | assetCodeSupply c v =>
    simp only [DirtyOk] at hok
    have hk : c ∈ d.ac := (contains_iff c d.ac).mp hok
    simp only [applyWrite] at h
    cases hq : a.getAssetCode c with
    | none => simp [hq] at h
    | some as =>
      simp only [hq, WRes.ok.injEq] at h; obtain ⟨_, rfl⟩ := h
      simp only [dirtyWrite, undoDirty1, ins_of_mem c d.ac hs2 hk]

/-- the raw setters keep the key lists sorted -/
theorem sortedD_dirtyWrite (a : Acct) (d : Dirty) (w : Write) (hs : SortedD d) : SortedD (dirtyWrite d a w).1 := by
  obtain ⟨h1, h2, h3, h4⟩ := hs
  cases w <;> simp only [dirtyWrite]
  all_goals first
    | exact ⟨h1, h2, h3, h4⟩
    | exact ⟨sorted_ins _ _ h1, h2, h3, h4⟩
    | exact ⟨h1, sorted_ins _ _ h2, h3, h4⟩
    | exact ⟨h1, h2, sorted_ins _ _ h3, h4⟩
    | exact ⟨h1, h2, h3, sorted_ins _ _ h4⟩
    | exact ⟨sorted_nil, sorted_nil, sorted_nil, h4⟩
    | skip
  · rename_i k v
    cases v with
    | none => exact ⟨h1, sorted_del _ _ h2, h3, h4⟩
    | some as => exact ⟨h1, sorted_ins _ _ h2, h3, h4⟩

/-- so does every undo, whatever the flags -/
theorem sortedD_undoDirty1 (x : Bool) (d : Dirty) (u : Undo) (c : Bool) (hs : SortedD d) : SortedD (undoDirty1 x d u c) := by
  obtain ⟨h1, h2, h3, h4⟩ := hs
  cases u <;> simp only [undoDirty1]
  all_goals first
    | exact ⟨h1, h2, h3, h4⟩
    | exact ⟨h1, sorted_ins _ _ h2, h3, h4⟩
    | exact ⟨sorted_nil, h2, h3, h4⟩
    | skip
  · split
    · exact ⟨sorted_del _ _ h1, h2, h3, h4⟩
    · exact ⟨sorted_ins _ _ h1, h2, h3, h4⟩
  · split
    · exact ⟨h1, h2, sorted_del _ _ h3, h4⟩
    · exact ⟨h1, h2, sorted_ins _ _ h3, h4⟩
  · split
    · exact ⟨h1, h2, h3, sorted_del _ _ h4⟩
    · exact ⟨h1, h2, h3, sorted_ins _ _ h4⟩
  · rename_i k o
    cases o with
    | none => exact ⟨h1, sorted_del _ _ h2, h3, h4⟩
    | some as => exact ⟨h1, sorted_ins _ _ h2, h3, h4⟩

theorem sortedD_undoDirty (x : Bool) (ls : List (Log × Side)) :
    ∀ (D : Nat → Dirty), (∀ i, SortedD (D i)) → ∀ i, SortedD (undoDirty x ls D i) := by
  induction ls with
  | nil => intro D h; exact h
  | cons p rest ih =>
    intro D h
    obtain ⟨l, sd⟩ := p
    unfold undoDirty
    apply ih
    intro i
    by_cases hi : i = l.addr
    · subst hi; rw [upd_same]; exact sortedD_undoDirty1 _ _ _ _ (h _)
    · rw [upd_other _ _ _ _ hi]; exact h i

/-! ### chains of dirty-exact steps -/

/-- the journal entry `(l, sd)` took the dirty sets from `D` to `E`, and its undo takes them back -/
def StepDirty (D : Nat → Dirty) (l : Log) (sd : Side) (E : Nat → Dirty) : Prop :=
  ∃ d', E = upd D l.addr d' ∧ undoDirty1 true d' l.undo sd.clean = D l.addr

inductive DChain : (Nat → Dirty) → List (Log × Side) → (Nat → Dirty) → Prop
  | nil (D) : DChain D [] D
  | snoc {D M E ls l sd} : DChain D ls M → StepDirty M l sd E → DChain D (ls ++ [(l, sd)]) E

/-- **undo loop, dirty sets**: undoing a chain newest-first ends exactly in the dirty sets it started from. -/
theorem undoDirty_chain {D E : Nat → Dirty} {ls : List (Log × Side)} (h : DChain D ls E) :
    undoDirty true ls.reverse E = D := by
  induction h with
  | nil => rfl
  | @snoc M E ls l sd _ hstep ih =>
    obtain ⟨d', rfl, hu⟩ := hstep
    rw [List.reverse_append, List.reverse_singleton, List.singleton_append]
    unfold undoDirty
    simp only [upd_same, hu, upd_upd_self]
    exact ih

theorem dchain_split {D E : Nat → Dirty} {L : List (Log × Side)} (h : DChain D L E) :
    ∀ l1 l2, L = l1 ++ l2 → ∃ M, DChain D l1 M ∧ DChain M l2 E := by
  induction h with
  | nil =>
    intro l1 l2 e
    have : l1 = [] ∧ l2 = [] := by simpa using e.symm
    obtain ⟨rfl, rfl⟩ := this
    exact ⟨_, .nil _, .nil _⟩
  | @snoc M E ls l sd hr hw ih =>
    intro l1 l2 e
    rcases List.eq_nil_or_concat l2 with rfl | ⟨l2', x, rfl⟩
    · simp only [List.append_nil] at e
      subst e
      exact ⟨E, .snoc hr hw, .nil _⟩
    · rw [List.concat_eq_append, ← List.append_assoc] at e
      have := List.append_inj' e rfl
      obtain ⟨e1, e2⟩ := this
      simp only [List.cons.injEq, and_true] at e2
      subst e2
      obtain ⟨M', h1, h2⟩ := ih l1 l2' e1
      exact ⟨M', h1, by rw [List.concat_eq_append]; exact .snoc h2 hw⟩

end LemoProofs.JournalDirtyL

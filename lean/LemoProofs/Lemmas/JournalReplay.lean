/-
  Helper lemmas for C07: a journal that honestly records exact writes can be undone back to any
  earlier point, and the version check of RevertToSnapshot never fires.
-/
import LemoProofs.Lemmas.JournalStep
namespace LemoProofs.JournalReplay
open LemoModel.Journal LemoProofs.JournalStep

/-- per-account invariants: trie/cache coherence for DelState and `base version ≤ counter`. -/
def Good (A : Nat → Acct) : Prop :=
  ∀ i, WFA (A i) ∧ ∀ t, (A i).baseVer t ≤ (A i).nextVer t

/-- one journalled exact write, at the level of the account map: `l` is the log it pushed. -/
def WStep (A : Nat → Acct) (l : Log) (B : Nat → Acct) : Prop :=
  ∃ w a', ExactW w = true ∧ applyWrite (A l.addr) w = .ok a' l.undo ∧ l.ty = w.ty ∧
    l.ver = (A l.addr).nextVer w.ty + 1 ∧ B = upd A l.addr (bumpVer a' w.ty).1

/-- the journal segment `ls` is an honest record of exact writes leading from `A` to `B`. -/
inductive Replayable : (Nat → Acct) → List Log → (Nat → Acct) → Prop
  | nil (A) : Replayable A [] A
  | snoc {A M B ls l} : Replayable A ls M → WStep M l B → Replayable A (ls ++ [l]) B

/-! frame properties of `applyWrite` -/
theorem applyWrite_frame (a a' : Acct) (w : Write) (u : Undo) (hx : ExactW w = true)
    (h : applyWrite a w = .ok a' u) :
    a'.baseVer = a.baseVer ∧ a'.nextVer = a.nextVer ∧ a'.com = a.com ∧ a'.acRoot = a.acRoot := by
  cases w <;> simp only [applyWrite, ExactW] at h hx
  all_goals first
    | (cases hx; done)
    | (simp only [WRes.ok.injEq] at h; obtain ⟨rfl, _⟩ := h; simp [Acct.setAssetCodeRaw]; done)
    | skip
  · rename_i k v
    simp only [WRes.ok.injEq] at h; obtain ⟨rfl, _⟩ := h
    cases v <;> simp [Acct.setAssetCodeRaw]
  · rename_i c key v
    cases hq : a.getAssetCode c with
    | none => simp [hq] at h
    | some as => simp only [hq, WRes.ok.injEq] at h; obtain ⟨rfl, _⟩ := h; simp [Acct.setAssetCodeRaw]
  · rename_i c v
    cases hq : a.getAssetCode c with
    | none => simp [hq] at h
    | some as => simp only [hq, WRes.ok.injEq] at h; obtain ⟨rfl, _⟩ := h; simp [Acct.setAssetCodeRaw]

theorem setAssetCodeRaw_wfa (a : Acct) (k : Nat) (v : Option Asset) (h : WFA a) : WFA (a.setAssetCodeRaw k v) := by
  intro x hx
  cases v with
  | none =>
    simp only [Acct.setAssetCodeRaw] at hx ⊢
    by_cases hk : x = k
    · subst hk; simp only [upd_same] at hx; exact hx
    · rw [upd_other _ _ _ _ hk] at hx; exact h x hx
  | some as =>
    simp only [Acct.setAssetCodeRaw] at hx ⊢
    by_cases hk : x = k
    · subst hk; simp [upd_same] at hx
    · rw [upd_other _ _ _ _ hk] at hx; exact h x hx

theorem applyWrite_wfa (a a' : Acct) (w : Write) (u : Undo) (hx : ExactW w = true) (hw : WFA a)
    (h : applyWrite a w = .ok a' u) : WFA a' := by
  cases w <;> simp only [applyWrite, ExactW] at h hx
  all_goals first
    | (cases hx; done)
    | (simp only [WRes.ok.injEq] at h; obtain ⟨rfl, _⟩ := h; exact hw; done)
    | skip
  · simp only [WRes.ok.injEq] at h; obtain ⟨rfl, _⟩ := h; exact setAssetCodeRaw_wfa _ _ _ hw
  · rename_i c key v
    cases hq : a.getAssetCode c with
    | none => simp [hq] at h
    | some as => simp only [hq, WRes.ok.injEq] at h; obtain ⟨rfl, _⟩ := h; exact setAssetCodeRaw_wfa _ _ _ hw
  · rename_i c v
    cases hq : a.getAssetCode c with
    | none => simp [hq] at h
    | some as => simp only [hq, WRes.ok.injEq] at h; obtain ⟨rfl, _⟩ := h; exact setAssetCodeRaw_wfa _ _ _ hw

theorem bumpVer_wfa (a : Acct) (t : Nat) (h : WFA a) : WFA (bumpVer a t).1 := h

theorem wstep_good {A B : Nat → Acct} {l : Log} (hg : Good A) (h : WStep A l B) : Good B := by
  obtain ⟨w, a', hx, haw, _, _, rfl⟩ := h
  obtain ⟨hb, hn, _, _⟩ := applyWrite_frame _ _ _ _ hx haw
  intro i
  by_cases hi : i = l.addr
  · subst hi
    simp only [upd_same]
    refine ⟨bumpVer_wfa _ _ (applyWrite_wfa _ _ _ _ hx (hg _).1 haw), ?_⟩
    intro t
    simp only [bumpVer, hb, hn]
    by_cases ht : t = w.ty
    · subst ht; rw [upd_same]; have := (hg l.addr).2 w.ty; omega
    · rw [upd_other _ _ _ _ ht]; exact (hg l.addr).2 t
  · rw [upd_other _ _ _ _ hi]; exact hg i

theorem replayable_good {A B : Nat → Acct} {ls : List Log} (hg : Good A) (h : Replayable A ls B) : Good B := by
  induction h with
  | nil => exact hg
  | snoc _ hw ih => exact wstep_good ih hw

theorem replayable_trans {A M B : Nat → Acct} {l1 l2 : List Log}
    (h1 : Replayable A l1 M) (h2 : Replayable M l2 B) : Replayable A (l1 ++ l2) B := by
  induction h2 with
  | nil => simpa using h1
  | snoc _ hw ih => rw [← List.append_assoc]; exact .snoc ih hw

theorem replayable_split {A B : Nat → Acct} {L : List Log} (h : Replayable A L B) :
    ∀ l1 l2, L = l1 ++ l2 → ∃ M, Replayable A l1 M ∧ Replayable M l2 B := by
  induction h with
  | nil =>
    intro l1 l2 e
    have : l1 = [] ∧ l2 = [] := by simpa using e.symm
    obtain ⟨rfl, rfl⟩ := this
    exact ⟨_, .nil _, .nil _⟩
  | @snoc M B ls l hr hw ih =>
    intro l1 l2 e
    rcases List.eq_nil_or_concat l2 with rfl | ⟨l2', x, rfl⟩
    · simp only [List.append_nil] at e
      subst e
      exact ⟨B, .snoc hr hw, .nil _⟩
    · rw [List.concat_eq_append, ← List.append_assoc] at e
      have := List.append_inj' e rfl
      obtain ⟨e1, e2⟩ := this
      simp only [List.cons.injEq, and_true] at e2
      subst e2
      obtain ⟨M', h1, h2⟩ := ih l1 l2' e1
      exact ⟨M', h1, by rw [List.concat_eq_append]; exact .snoc h2 hw⟩

/-! the `lastVersions` map -/
def LastOK (last : Last) (A : Nat → Acct) : Prop :=
  ∀ i t v, last.get (i, t) = some v → v = (A i).nextVer t + 1

theorem last_get_cons (e : (Nat × Nat) × Nat) (l : Last) (k : Nat × Nat) :
    Last.get (e :: l) k = if e.1 == k then some e.2 else Last.get l k := by
  unfold Last.get
  simp only [List.find?_cons]
  by_cases h : e.1 == k <;> simp [h]

/-- **undo loop**: from `B`, undoing an honest journal segment newest-first never trips the version
    check, never gets an error from `Undo`, and ends exactly in `A`. -/
theorem undoLoop_replay {A B : Nat → Acct} {ls : List Log} (h : Replayable A ls B) :
    ∀ last, Good A → LastOK last B → undoLoop true true ls.reverse B last = some A := by
  induction h with
  | nil => intro last _ _; simp [undoLoop]
  | @snoc M B ls l hr hw ih =>
    intro last hg hl
    have hgM : Good M := replayable_good hg hr
    obtain ⟨w, a', hx, haw, hty, hver, rfl⟩ := hw
    obtain ⟨hb, hn, _, _⟩ := applyWrite_frame _ _ _ _ hx haw
    rw [List.reverse_append, List.reverse_singleton, List.singleton_append]
    unfold undoLoop
    simp only [upd_same]
    -- the version check
    have hbase : (bumpVer a' w.ty).1.baseVer l.ty < l.ver := by
      simp only [bumpVer, hb, hty, hver]
      have := (hgM l.addr).2 w.ty; omega
    have hlast : verOK (last.get (l.addr, l.ty)) l.ver = true := by
      cases hq : last.get (l.addr, l.ty) with
      | none => rfl
      | some lv =>
        have := hl _ _ _ hq
        simp only [upd_same, bumpVer, hn, hty, upd_same] at this
        simp only [verOK, beq_iff_eq]; omega
    simp only [hlast, hbase, decide_true, Bool.and_self, Bool.not_true, Bool.false_eq_true, if_false]
    obtain ⟨c, hc, hrestore⟩ := write_undo_exact true (M l.addr) a' w l.undo hx (hgM _).1 rfl haw
    rw [hc]
    simp only [if_true]
    have hver' : l.ver - 1 = (bumpVer a' w.ty).2 - 1 := by
      simp only [bumpVer, hn, hver]
    rw [hty, hver', hrestore, upd_upd_self]
    apply ih _ hg
    -- LastOK for the extended map, against M
    intro i t v hv
    rw [last_get_cons] at hv
    by_cases hk : ((l.addr, w.ty) == (i, t)) = true
    · simp only [hk, if_true, Option.some.injEq] at hv
      have : l.addr = i ∧ w.ty = t := by simpa using hk
      obtain ⟨rfl, rfl⟩ := this
      omega
    · simp only [hk, Bool.false_eq_true, if_false] at hv
      have := hl _ _ _ hv
      rw [this]
      by_cases hi : i = l.addr
      · subst hi
        have ht : t ≠ w.ty := by
          intro e; subst e; simp at hk
        simp only [upd_same, bumpVer, hn, upd_other _ _ _ _ ht]
      · rw [upd_other _ _ _ _ hi]

end LemoProofs.JournalReplay

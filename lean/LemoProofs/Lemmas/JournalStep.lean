/-
  Helper lemmas for C07: one write followed by its undo (with the counter given back) is the identity.
-/
import LemoModel.Journal
namespace LemoProofs.JournalStep
open LemoModel.Journal

theorem upd_upd_self {β : Type} (f : Nat → β) (k : Nat) (v : β) : upd (upd f k v) k (f k) = f := by
  funext x; unfold upd; split <;> simp_all

theorem upd_upd_eq {β : Type} (f : Nat → β) (k : Nat) (v w : β) (h : f k = w) : upd (upd f k v) k w = f := by
  subst h; exact upd_upd_self f k v

theorem upd_same {β : Type} (f : Nat → β) (k : Nat) (v : β) : upd f k v k = v := by simp [upd]

theorem upd_other {β : Type} (f : Nat → β) (k x : Nat) (v : β) (h : x ≠ k) : upd f k v x = f x := by
  simp [upd, h]

/-- the writes whose undo is exact on every modelled attribute (`SetCode` and `SetSuicide` are not). -/
def ExactW : Write → Bool
  | .code _ => false
  | .suicide => false
  | _ => true

/-- cache/trie coherence needed by `DelState`: an asset the getter does not see is not in the committed trie either. -/
def WFA (a : Acct) : Prop :=
  ∀ k, a.assetCode k = none → (if a.acRoot then a.com.assetCode k else none) = none

theorem setProfile_get (as : Asset) (key v : Nat) :
    setAssetProfile (setAssetProfile as key v) key (getAssetProfile as key) = as := by
  unfold setAssetProfile getAssetProfile
  by_cases h1 : key = 1
  · simp [h1]
  · by_cases h2 : key = 2
    · simp [h1, h2]
    · simp [h1, h2]

theorem acct_assetCode_restore (a : Acct) (k : Nat) (X Y : Option Asset) (h : Y = a.assetCode k) :
    ({ a with assetCode := upd (upd a.assetCode k X) k Y } : Acct) = a := by
  subst h; rw [upd_upd_self]

/-- **one step**: a journalled write followed by `Undo` and the counter restore gives back the account, exactly. -/
theorem write_undo_exact (en : Bool) (a a' : Acct) (w : Write) (u : Undo)
    (hx : ExactW w = true) (hwf : WFA a) (hen : en = true) (h : applyWrite a w = .ok a' u) :
    ∃ c, applyUndo en (bumpVer a' w.ty).1 u = .ok c ∧
      { c with nextVer := upd c.nextVer w.ty ((bumpVer a' w.ty).2 - 1) } = a := by
  subst hen
  cases w with
  | code id => simp [ExactW] at hx
  | suicide => simp [ExactW] at hx
  | balance v =>
    simp only [applyWrite, WRes.ok.injEq] at h; obtain ⟨rfl, rfl⟩ := h
    refine ⟨_, rfl, ?_⟩
    simp only [bumpVer, Nat.add_sub_cancel, upd_upd_self]
  | votes v =>
    simp only [applyWrite, WRes.ok.injEq] at h; obtain ⟨rfl, rfl⟩ := h
    refine ⟨_, rfl, ?_⟩
    simp only [bumpVer, Nat.add_sub_cancel, upd_upd_self]
  | voteFor v =>
    simp only [applyWrite, WRes.ok.injEq] at h; obtain ⟨rfl, rfl⟩ := h
    refine ⟨_, rfl, ?_⟩
    simp only [bumpVer, Nat.add_sub_cancel, upd_upd_self]
  | signers v =>
    simp only [applyWrite, WRes.ok.injEq] at h; obtain ⟨rfl, rfl⟩ := h
    refine ⟨_, rfl, ?_⟩
    simp only [bumpVer, Nat.add_sub_cancel, upd_upd_self]
  | storage k v =>
    simp only [applyWrite, WRes.ok.injEq] at h; obtain ⟨rfl, rfl⟩ := h
    refine ⟨_, rfl, ?_⟩
    simp only [bumpVer, Nat.add_sub_cancel, upd_upd_self, Acct.getStorage]
  | assetId k v =>
    simp only [applyWrite, WRes.ok.injEq] at h; obtain ⟨rfl, rfl⟩ := h
    refine ⟨_, rfl, ?_⟩
    simp only [bumpVer, Nat.add_sub_cancel, upd_upd_self, Acct.getAssetId]
  | equity k v =>
    simp only [applyWrite, WRes.ok.injEq] at h; obtain ⟨rfl, rfl⟩ := h
    simp only [Acct.getEquity, bumpVer, applyUndo]
    cases hq : a.equity k with
    | none => exact ⟨_, rfl, by simp only [Nat.add_sub_cancel, upd_upd_self, ← hq]⟩
    | some q => exact ⟨_, rfl, by simp only [Nat.add_sub_cancel, upd_upd_self, ← hq]⟩
  | candidate p =>
    simp only [applyWrite, WRes.ok.injEq] at h; obtain ⟨rfl, rfl⟩ := h
    refine ⟨_, rfl, ?_⟩
    simp only [bumpVer, Nat.add_sub_cancel, upd_upd_self]
  | candidateState k v =>
    simp only [applyWrite, WRes.ok.injEq] at h; obtain ⟨rfl, rfl⟩ := h
    refine ⟨_, rfl, ?_⟩
    simp only [bumpVer, Nat.add_sub_cancel, upd_upd_self]
  | event =>
    simp only [applyWrite, WRes.ok.injEq] at h; obtain ⟨rfl, rfl⟩ := h
    refine ⟨_, rfl, ?_⟩
    simp only [bumpVer, Nat.add_sub_cancel, upd_upd_self]
  | assetCode k v =>
    simp only [applyWrite, WRes.ok.injEq] at h; obtain ⟨rfl, rfl⟩ := h
    simp only [Acct.getAssetCode, bumpVer, applyUndo]
    refine ⟨_, rfl, ?_⟩
    cases hq : a.assetCode k with
    | none =>
      have h1 := hwf k hq
      cases v with
      | none =>
        simp only [Acct.setAssetCodeRaw, Nat.add_sub_cancel, upd_upd_self]
        exact acct_assetCode_restore a k _ _ (by rw [hq]; exact h1)
      | some as =>
        simp only [Acct.setAssetCodeRaw, Nat.add_sub_cancel, upd_upd_self]
        exact acct_assetCode_restore a k _ _ (by rw [hq]; exact h1)
    | some q =>
      cases v with
      | none =>
        simp only [Acct.setAssetCodeRaw, Nat.add_sub_cancel, upd_upd_self]
        exact acct_assetCode_restore a k _ _ hq.symm
      | some as =>
        simp only [Acct.setAssetCodeRaw, Nat.add_sub_cancel, upd_upd_self]
        exact acct_assetCode_restore a k _ _ hq.symm
  | assetCodeState c key v =>
    simp only [applyWrite, Acct.getAssetCode] at h
    cases hq : a.assetCode c with
    | none => simp only [hq] at h; cases h
    | some as =>
      simp only [hq, WRes.ok.injEq] at h; obtain ⟨rfl, rfl⟩ := h
      simp only [bumpVer, applyUndo, Acct.getAssetCode, Acct.setAssetCodeRaw, upd_same, setProfile_get]
      refine ⟨_, rfl, ?_⟩
      simp only [Nat.add_sub_cancel, upd_upd_self]
      exact acct_assetCode_restore a c _ _ hq.symm
  | assetCodeSupply c v =>
    simp only [applyWrite, Acct.getAssetCode] at h
    cases hq : a.assetCode c with
    | none => simp only [hq] at h; cases h
    | some as =>
      simp only [hq, WRes.ok.injEq] at h; obtain ⟨rfl, rfl⟩ := h
      simp only [bumpVer, applyUndo, Acct.getAssetCode, Acct.setAssetCodeRaw, upd_same]
      refine ⟨_, rfl, ?_⟩
      simp only [Nat.add_sub_cancel, upd_upd_self]
      exact acct_assetCode_restore a c _ _ hq.symm

end LemoProofs.JournalStep

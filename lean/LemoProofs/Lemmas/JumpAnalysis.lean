/-
  C16 — lemmas about the jump-destination analysis model (LemoModel/JumpAnalysis.lean).
  Bit-level facts about bytes are finite tables checked by `decide` (64 rows each); everything
  else is by induction.
-/
import LemoModel.JumpAnalysis
namespace LemoProofs.Lemmas.JumpAnalysis
open LemoModel.JumpAnalysis

/-! ### bytes -/

theorem and_or_distrib (b m t : UInt8) : (b ||| m) &&& t = (b &&& t) ||| (m &&& t) := by
  apply UInt8.eq_of_toBitVec_eq
  simp only [UInt8.toBitVec_and, UInt8.toBitVec_or]
  ext i
  simp [Bool.and_or_distrib_right]

theorem or_ne_zero (x y : UInt8) : ((x ||| y) != 0) = ((x != 0) || (y != 0)) := by
  rw [Bool.eq_iff_iff]
  simp only [bne_iff_ne, ne_eq, Bool.or_eq_true, UInt8.or_eq_zero_iff]
  by_cases hx : x = 0 <;> by_cases hy : y = 0 <;> simp [hx, hy]

theorem tbl1 : ∀ a b : Fin 8, ((((0x80 : UInt8) >>> UInt8.ofNat a.val) &&& ((0x80 : UInt8) >>> UInt8.ofNat b.val)) != 0) = decide (b.val = a.val) := by decide
theorem tblLo : ∀ a b : Fin 8, ((((0xFF : UInt8) >>> UInt8.ofNat a.val) &&& ((0x80 : UInt8) >>> UInt8.ofNat b.val)) != 0) = decide (a.val ≤ b.val) := by decide
theorem tblHi : ∀ a b : Fin 8, (((~~~ ((0xFF : UInt8) >>> UInt8.ofNat a.val)) &&& ((0x80 : UInt8) >>> UInt8.ofNat b.val)) != 0) = decide (b.val < a.val) := by decide

theorem mask1_and (pos j : Nat) : ((mask1 pos &&& mask1 j) != 0) = decide (j % 8 = pos % 8) :=
  tbl1 ⟨pos % 8, Nat.mod_lt _ (by decide)⟩ ⟨j % 8, Nat.mod_lt _ (by decide)⟩
theorem maskLo_and (pos j : Nat) : ((maskLo pos &&& mask1 j) != 0) = decide (pos % 8 ≤ j % 8) :=
  tblLo ⟨pos % 8, Nat.mod_lt _ (by decide)⟩ ⟨j % 8, Nat.mod_lt _ (by decide)⟩
theorem maskHi_and (pos j : Nat) : ((maskHi pos &&& mask1 j) != 0) = decide (j % 8 < pos % 8) :=
  tblHi ⟨pos % 8, Nat.mod_lt _ (by decide)⟩ ⟨j % 8, Nat.mod_lt _ (by decide)⟩

/-! ### bitvec.set / set8 -/

theorem orAt_spec {bits : Bits} {i : Nat} {m : UInt8} (h : i < bits.length) :
    ∃ b', orAt bits i m = some b' ∧ b'.length = bits.length ∧
      ∀ j, bit b' j = (bit bits j || (decide (j / 8 = i) && ((m &&& mask1 j) != 0))) := by
  unfold orAt
  rw [List.getElem?_eq_getElem h]
  refine ⟨_, rfl, by simp, ?_⟩
  intro j
  unfold bit
  rw [List.getElem?_set]
  by_cases hj : i = j / 8
  · subst hj
    simp only [h, if_true]
    rw [List.getElem?_eq_getElem h]
    simp [and_or_distrib, or_ne_zero]
  · have : ¬ (j / 8 = i) := fun e => hj e.symm
    simp [hj, this]

theorem orAt_none {bits : Bits} {i : Nat} {m : UInt8} (h : bits.length ≤ i) : orAt bits i m = none := by
  unfold orAt
  rw [List.getElem?_eq_none h]

theorem set1_spec {bits : Bits} {pos : Nat} (h : pos / 8 < bits.length) :
    ∃ b', set1 bits pos = some b' ∧ b'.length = bits.length ∧
      ∀ j, bit b' j = (bit bits j || decide (j = pos)) := by
  obtain ⟨b', h1, h2, h3⟩ := orAt_spec (m := mask1 pos) h
  refine ⟨b', h1, h2, ?_⟩
  intro j
  rw [h3 j, mask1_and]
  congr 1
  rw [Bool.eq_iff_iff]
  simp only [Bool.and_eq_true, decide_eq_true_eq]
  omega

theorem set8_spec {bits : Bits} {pos : Nat} (h : pos / 8 + 1 < bits.length) :
    ∃ b', set8 bits pos = some b' ∧ b'.length = bits.length ∧
      ∀ j, bit b' j = (bit bits j || decide (pos ≤ j ∧ j < pos + 8)) := by
  obtain ⟨b1, h1, h2, h3⟩ := orAt_spec (bits := bits) (i := pos / 8) (m := maskLo pos) (by omega)
  obtain ⟨b2, k1, k2, k3⟩ := orAt_spec (bits := b1) (i := pos / 8 + 1) (m := maskHi pos) (by omega)
  refine ⟨b2, ?_, by omega, ?_⟩
  · unfold set8; rw [h1]; exact k1
  · intro j
    rw [k3 j, h3 j, maskLo_and, maskHi_and, Bool.or_assoc]
    congr 1
    rw [Bool.eq_iff_iff]
    simp only [Bool.or_eq_true, Bool.and_eq_true, decide_eq_true_eq]
    omega

/-- with too short a vector `set8` panics (second index) -/
theorem set8_none {bits : Bits} {pos : Nat} (h : bits.length ≤ pos / 8 + 1) : set8 bits pos = none := by
  unfold set8
  cases h1 : orAt bits (pos / 8) (maskLo pos) with
  | none => rfl
  | some b =>
    have hl : b.length = bits.length := by
      unfold orAt at h1
      cases hb : bits[pos / 8]? with
      | none => rw [hb] at h1; cases h1
      | some x => rw [hb] at h1; cases h1; simp
    exact orAt_none (by omega)

/-! ### the two inner loops -/

theorem loop8_add (bits : Bits) (pc n : Nat) :
    loop8 bits pc (n + 8) = (match set8 bits pc with
      | some b => loop8 b (pc + 8) n
      | none => none) := by
  rw [loop8] <;> rfl

theorem loop8_small (bits : Bits) (pc n : Nat) (h : n < 8) : loop8 bits pc n = some (bits, pc, n) := by
  rcases n with _|_|_|_|_|_|_|_|n
  all_goals first | rfl | omega

theorem loop8_spec : ∀ (n : Nat) (bits : Bits) (pc : Nat), (pc + n) / 8 < bits.length →
    ∃ b', loop8 bits pc n = some (b', pc + 8 * (n / 8), n % 8) ∧ b'.length = bits.length ∧
      ∀ j, bit b' j = (bit bits j || decide (pc ≤ j ∧ j < pc + 8 * (n / 8))) := by
  intro n
  induction n using Nat.strongRecOn with
  | _ n ih =>
    intro bits pc h
    by_cases hn : n < 8
    · refine ⟨bits, ?_, rfl, ?_⟩
      · rw [loop8_small _ _ _ hn]
        have h1 : n / 8 = 0 := by omega
        have h2 : n % 8 = n := by omega
        rw [h1, h2, Nat.mul_zero, Nat.add_zero]
      · intro j
        have h1 : n / 8 = 0 := by omega
        rw [h1]
        have : decide (pc ≤ j ∧ j < pc + 8 * 0) = false := by
          rw [decide_eq_false_iff_not]; omega
        rw [this, Bool.or_false]
    · obtain ⟨m, rfl⟩ : ∃ m, n = m + 8 := ⟨n - 8, by omega⟩
      obtain ⟨b1, h1, h2, h3⟩ := set8_spec (bits := bits) (pos := pc) (by omega)
      obtain ⟨b2, k1, k2, k3⟩ := ih m (by omega) b1 (pc + 8) (by rw [h2]; omega)
      refine ⟨b2, ?_, by omega, ?_⟩
      · rw [loop8_add, h1]
        simp only
        rw [k1]
        have e1 : (m + 8) / 8 = m / 8 + 1 := by omega
        have e2 : (m + 8) % 8 = m % 8 := by omega
        rw [e1, e2]
        have e3 : pc + 8 + 8 * (m / 8) = pc + 8 * (m / 8 + 1) := by omega
        rw [e3]
      · intro j
        rw [k3 j, h3 j, Bool.or_assoc]
        congr 1
        rw [Bool.eq_iff_iff]
        simp only [Bool.or_eq_true, decide_eq_true_eq]
        omega

theorem loop1_spec : ∀ (n : Nat) (bits : Bits) (pc : Nat), (pc + n) / 8 < bits.length →
    ∃ b', loop1 bits pc n = some (b', pc + n) ∧ b'.length = bits.length ∧
      ∀ j, bit b' j = (bit bits j || decide (pc ≤ j ∧ j < pc + n)) := by
  intro n
  induction n with
  | zero =>
    intro bits pc _
    refine ⟨bits, rfl, rfl, ?_⟩
    intro j
    have : decide (pc ≤ j ∧ j < pc + 0) = false := by
      rw [decide_eq_false_iff_not]; omega
    rw [this, Bool.or_false]
  | succ n ih =>
    intro bits pc h
    obtain ⟨b1, h1, h2, h3⟩ := set1_spec (bits := bits) (pos := pc) (by omega)
    obtain ⟨b2, k1, k2, k3⟩ := ih b1 (pc + 1) (by rw [h2]; omega)
    refine ⟨b2, ?_, by omega, ?_⟩
    · rw [loop1, h1]
      simp only
      rw [k1]
      have : pc + 1 + n = pc + (n + 1) := by omega
      rw [this]
    · intro j
      rw [k3 j, h3 j, Bool.or_assoc]
      congr 1
      rw [Bool.eq_iff_iff]
      simp only [Bool.or_eq_true, decide_eq_true_eq]
      omega

/-! ### one outer iteration -/

theorem numbits_le {op : UInt8} (h : isPush op = true) : 1 ≤ numbits op ∧ numbits op ≤ 32 := by
  unfold isPush at h
  simp only [Bool.and_eq_true, decide_eq_true_eq] at h
  have h1 := UInt8.le_iff_toNat_le.mp h.1
  have h2 := UInt8.le_iff_toNat_le.mp h.2
  unfold numbits
  have e1 : PUSH1.toNat = 96 := by decide
  have e2 : PUSH32.toNat = 127 := by decide
  omega

theorem pushLen_le (op : UInt8) : pushLen op ≤ 32 := by
  unfold pushLen
  by_cases h : isPush op = true
  · simp [h, (numbits_le h).2]
  · simp [h]

theorem stepOp_spec {bits : Bits} {pc : Nat} {op : UInt8} (h : (pc + 1 + pushLen op) / 8 < bits.length) :
    ∃ b', stepOp bits pc op = some (b', pc + 1 + pushLen op) ∧ b'.length = bits.length ∧
      ∀ j, bit b' j = (bit bits j || decide (pc + 1 ≤ j ∧ j < pc + 1 + pushLen op)) := by
  unfold stepOp
  by_cases hp : isPush op = true
  · have hpl : pushLen op = numbits op := by unfold pushLen; simp [hp]
    rw [hpl] at h ⊢
    simp only [hp, if_true]
    obtain ⟨b1, h1, h2, h3⟩ := loop8_spec (numbits op) bits (pc + 1) h
    obtain ⟨b2, k1, k2, k3⟩ := loop1_spec (numbits op % 8) b1 (pc + 1 + 8 * (numbits op / 8)) (by rw [h2]; omega)
    refine ⟨b2, ?_, by omega, ?_⟩
    · rw [h1]
      simp only
      rw [k1]
      have : pc + 1 + 8 * (numbits op / 8) + numbits op % 8 = pc + 1 + numbits op := by omega
      rw [this]
    · intro j
      rw [k3 j, h3 j, Bool.or_assoc]
      congr 1
      rw [Bool.eq_iff_iff]
      simp only [Bool.or_eq_true, decide_eq_true_eq]
      omega
  · have hpl : pushLen op = 0 := by unfold pushLen; simp [hp]
    rw [hpl]
    simp only [hp]
    refine ⟨bits, by simp, rfl, ?_⟩
    intro j
    have : decide (pc + 1 ≤ j ∧ j < pc + 1 + 0) = false := by
      rw [decide_eq_false_iff_not]; omega
    rw [this, Bool.or_false]

/-! ### the structural specification -/

theorem walk_length : ∀ (l : Code) (k : Nat), (walk l k).length = l.length := by
  intro l
  induction l with
  | nil => intro k; rfl
  | cons op rest ih =>
    intro k
    cases k with
    | zero => simp [walk, ih]
    | succ k => simp [walk, ih]

theorem walk_getD : ∀ (l : Code) (k i : Nat), i < l.length →
    (walk l k).getD i false = if i < k then true else (walk (l.drop k) 0).getD (i - k) false := by
  intro l
  induction l with
  | nil => intro k i h; simp at h
  | cons op rest ih =>
    intro k i h
    cases k with
    | zero => simp
    | succ k =>
      cases i with
      | zero => simp [walk]
      | succ i =>
        have h' : i < rest.length := by simpa using h
        have := ih k i h'
        simp only [walk, List.getD_cons_succ, List.drop_succ_cons, Nat.add_lt_add_iff_right, Nat.add_sub_add_right]
        exact this

/-! ### the outer loop -/

theorem scan_spec (code : Code) : ∀ (fuel pc : Nat) (bits : Bits),
    code.length ≤ pc + fuel → (code.length + 32) / 8 < bits.length →
    ∃ b', scan code fuel pc bits = some b' ∧ b'.length = bits.length ∧
      ∀ j, j < code.length →
        bit b' j = (bit bits j || (decide (pc ≤ j) && (walk (code.drop pc) 0).getD (j - pc) false)) := by
  intro fuel
  induction fuel with
  | zero =>
    intro pc bits hf _
    have hpc : code.length ≤ pc := by omega
    refine ⟨bits, ?_, rfl, ?_⟩
    · unfold scan; rw [List.getElem?_eq_none hpc]
    · intro j hj
      have : decide (pc ≤ j) = false := by rw [decide_eq_false_iff_not]; omega
      rw [this, Bool.false_and, Bool.or_false]
  | succ fuel ih =>
    intro pc bits hf hb
    by_cases hpc : code.length ≤ pc
    · refine ⟨bits, ?_, rfl, ?_⟩
      · unfold scan; rw [List.getElem?_eq_none hpc]
      · intro j hj
        have : decide (pc ≤ j) = false := by rw [decide_eq_false_iff_not]; omega
        rw [this, Bool.false_and, Bool.or_false]
    · have hlt : pc < code.length := by omega
      have hop : code[pc]? = some code[pc] := List.getElem?_eq_getElem hlt
      have hpl := pushLen_le code[pc]
      obtain ⟨b1, h1, h2, h3⟩ := stepOp_spec (bits := bits) (pc := pc) (op := code[pc]) (by omega)
      obtain ⟨b2, k1, k2, k3⟩ := ih (pc + 1 + pushLen code[pc]) b1 (by omega) (by rw [h2]; exact hb)
      refine ⟨b2, ?_, by omega, ?_⟩
      · rw [scan, hop]
        simp only
        rw [h1]
        exact k1
      · intro j hj
        rw [k3 j hj, h3 j, Bool.or_assoc]
        congr 1
        -- the specification side: unfold one opcode
        have hdrop : code.drop pc = code[pc] :: code.drop (pc + 1) := List.drop_eq_getElem_cons hlt
        rw [hdrop]
        by_cases hjp : j < pc
        · have e1 : decide (pc ≤ j) = false := by rw [decide_eq_false_iff_not]; omega
          have e2 : decide (pc + 1 ≤ j ∧ j < pc + 1 + pushLen code[pc]) = false := by
            rw [decide_eq_false_iff_not]; omega
          have e3 : decide (pc + 1 + pushLen code[pc] ≤ j) = false := by
            rw [decide_eq_false_iff_not]; omega
          rw [e1, e2, e3]; rfl
        · by_cases hje : j = pc
          · subst hje
            have e2 : decide (j + 1 ≤ j ∧ j < j + 1 + pushLen code[j]) = false := by
              rw [decide_eq_false_iff_not]; omega
            have e3 : decide (j + 1 + pushLen code[j] ≤ j) = false := by
              rw [decide_eq_false_iff_not]; omega
            rw [e2, e3, Nat.sub_self]
            simp [walk]
          · obtain ⟨i, rfl⟩ : ∃ i, j = pc + 1 + i := ⟨j - pc - 1, by omega⟩
            have e0 : pc + 1 + i - pc = i + 1 := by omega
            have e1 : decide (pc ≤ pc + 1 + i) = true := by rw [decide_eq_true_iff]; omega
            rw [e0, e1, Bool.true_and]
            simp only [walk, List.getD_cons_succ]
            have hi : i < (code.drop (pc + 1)).length := by rw [List.length_drop]; omega
            rw [walk_getD _ _ _ hi, List.drop_drop]
            by_cases hik : i < pushLen code[pc]
            · have e2 : decide (pc + 1 ≤ pc + 1 + i ∧ pc + 1 + i < pc + 1 + pushLen code[pc]) = true := by
                rw [decide_eq_true_iff]; omega
              rw [e2, if_pos hik]; rfl
            · have e2 : decide (pc + 1 ≤ pc + 1 + i ∧ pc + 1 + i < pc + 1 + pushLen code[pc]) = false := by
                rw [decide_eq_false_iff_not]; omega
              have e3 : decide (pc + 1 + pushLen code[pc] ≤ pc + 1 + i) = true := by
                rw [decide_eq_true_iff]; omega
              have e4 : pc + 1 + i - (pc + 1 + pushLen code[pc]) = i - pushLen code[pc] := by omega
              rw [e2, e3, if_neg hik, e4, Bool.false_or, Bool.true_and]

theorem bit_replicate_zero (n j : Nat) : bit (List.replicate n (0 : UInt8)) j = false := by
  unfold bit
  rw [List.getElem?_replicate]
  by_cases h : j / 8 < n <;> simp [h]

/-! ### the slack of the allocation is needed at every length that is a multiple of 8 -/

theorem set8_length {bits b : Bits} {pos : Nat} (h : set8 bits pos = some b) : b.length = bits.length := by
  by_cases hl : pos / 8 + 1 < bits.length
  · obtain ⟨b', h1, h2, _⟩ := set8_spec (bits := bits) (pos := pos) hl
    rw [h1] at h; cases h; exact h2
  · rw [set8_none (by omega)] at h; cases h

theorem loop8_32_none (bits : Bits) (pc : Nat) (h : bits.length ≤ pc / 8 + 4) : loop8 bits pc 32 = none := by
  rw [show (32 : Nat) = 24 + 8 from rfl, loop8_add]
  cases h1 : set8 bits pc with
  | none => rfl
  | some b1 =>
    have l1 := set8_length h1
    simp only
    rw [show (24 : Nat) = 16 + 8 from rfl, loop8_add]
    cases h2 : set8 b1 (pc + 8) with
    | none => rfl
    | some b2 =>
      have l2 := set8_length h2
      simp only
      rw [show (16 : Nat) = 8 + 8 from rfl, loop8_add]
      cases h3 : set8 b2 (pc + 8 + 8) with
      | none => rfl
      | some b3 =>
        have l3 := set8_length h3
        simp only
        rw [show (8 : Nat) = 0 + 8 from rfl, loop8_add, set8_none (by omega)]

/-- a run of STOP bytes followed by PUSH32 as the last byte -/
def stopsThenPush32 (N : Nat) : Code := List.replicate N 0x00 ++ [0x7f]

theorem stops_getElem_lt (N pc : Nat) (h : pc < N) : (stopsThenPush32 N)[pc]? = some 0x00 := by
  unfold stopsThenPush32
  rw [List.getElem?_append_left (by simp; exact h), List.getElem?_replicate, if_pos h]

theorem stops_getElem_last (N : Nat) : (stopsThenPush32 N)[N]? = some 0x7f := by
  unfold stopsThenPush32
  rw [List.getElem?_append_right (by simp)]
  simp

theorem scan_skip_stops (N : Nat) : ∀ (k fuel pc : Nat) (bits : Bits), pc + k = N →
    scan (stopsThenPush32 N) (fuel + k) pc bits = scan (stopsThenPush32 N) fuel N bits := by
  intro k
  induction k with
  | zero => intro fuel pc bits h; have : pc = N := by omega
            subst this; rfl
  | succ k ih =>
    intro fuel pc bits h
    rw [show fuel + (k + 1) = (fuel + k) + 1 from by omega, scan, stops_getElem_lt N pc (by omega)]
    simp only
    have : stepOp bits pc 0x00 = some (bits, pc + 1) := by
      unfold stepOp
      have : isPush 0x00 = false := by decide
      rw [this]; rfl
    rw [this]
    exact ih fuel (pc + 1) bits (by omega)

theorem scan_stops_short (n : Nat) (bits : Bits) (h : bits.length ≤ n + 5) :
    scan (stopsThenPush32 (8 * n + 7)) ((stopsThenPush32 (8 * n + 7)).length) 0 bits = none := by
  have hl : (stopsThenPush32 (8 * n + 7)).length = 1 + (8 * n + 7) := by
    unfold stopsThenPush32; simp; omega
  rw [hl, scan_skip_stops (8 * n + 7) (8 * n + 7) 1 0 bits (by omega), scan, stops_getElem_last]
  simp only
  have : stepOp bits (8 * n + 7) 0x7f = none := by
    unfold stepOp
    have h1 : isPush 0x7f = true := by decide
    have h2 : numbits 0x7f = 32 := by decide
    rw [h1, h2, if_pos rfl, loop8_32_none bits (8 * n + 7 + 1) (by omega)]
  rw [this]

/-! ### slices, padding, copy -/

theorem slice_some {data : List UInt8} {lo hi : Nat} (h1 : lo ≤ hi) (h2 : hi ≤ data.length) :
    slice data lo hi = some ((data.drop lo).take (hi - lo)) := by
  unfold slice; rw [if_pos ⟨h1, h2⟩]

theorem getD_slice (data : List UInt8) (lo n i : Nat) (hi : i < n) :
    ((data.drop lo).take n).getD i 0 = data.getD (lo + i) 0 := by
  simp [List.getD_eq_getElem?_getD, hi]

theorem getD_slice_ge (data : List UInt8) (lo n i : Nat) (hi : n ≤ i) :
    ((data.drop lo).take n).getD i 0 = 0 := by
  rw [List.getD_eq_getElem?_getD, List.getElem?_eq_none (by simp; omega)]; rfl

theorem getD_ge (data : List UInt8) (i : Nat) (hi : data.length ≤ i) : data.getD i 0 = 0 := by
  rw [List.getD_eq_getElem?_getD, List.getElem?_eq_none hi]; rfl

/-! overwrite -/
theorem overwrite_length (l v : List UInt8) (off : Nat) (h : off ≤ l.length) :
    (overwrite l off v).length = l.length := by
  unfold overwrite
  simp only [List.length_append, List.length_take, List.length_drop]
  omega

theorem overwrite_getD (l v : List UInt8) (off i : Nat) (h : off ≤ l.length) (hi : i < l.length) :
    (overwrite l off v).getD i 0 =
      if off ≤ i ∧ i < off + v.length then v.getD (i - off) 0 else l.getD i 0 := by
  unfold overwrite
  simp only [List.getD_eq_getElem?_getD, List.getElem?_append, List.length_take]
  have e1 : min off l.length = off := by omega
  rw [e1]
  by_cases h1 : i < off
  · have : ¬ (off ≤ i ∧ i < off + v.length) := by omega
    simp [h1, this]
  · by_cases h2 : i < off + v.length
    · have c : off ≤ i ∧ i < off + v.length := ⟨by omega, h2⟩
      have h3 : i - off < min (l.length - off) v.length := by omega
      simp [h1, c, h3]
      rw [List.getElem?_eq_getElem (by omega)]; rfl
    · have c : ¬ (off ≤ i ∧ i < off + v.length) := by omega
      have h3 : ¬ i - off < min (l.length - off) v.length := by omega
      simp only [h1, c, h3, if_false]
      rw [List.getElem?_drop]
      congr 2
      omega

theorem rightPad_length (s : List UInt8) (size : Nat) (h : size < i63) (hs : s.length ≤ size) :
    (rightPad s size).length = size := by
  unfold rightPad
  by_cases h1 : size ≥ i63 ∨ size ≤ s.length
  · rw [if_pos h1]; omega
  · rw [if_neg h1]; simp; omega

theorem rightPad_getD (s : List UInt8) (size i : Nat) :
    (rightPad s size).getD i 0 = s.getD i 0 := by
  unfold rightPad
  by_cases h1 : size ≥ i63 ∨ size ≤ s.length
  · rw [if_pos h1]
  · rw [if_neg h1]
    simp only [List.getD_eq_getElem?_getD, List.getElem?_append]
    by_cases hi : i < s.length
    · simp [hi]
    · simp [hi, List.getElem?_replicate]
      have : s[i]? = none := List.getElem?_eq_none (by omega)
      try rw [this]
      by_cases h2 : i - s.length < size - s.length <;> simp [h2]


theorem getDataBig_total (data : List UInt8) (start size : Nat) (hd : data.length < i63) :
    getDataBig data start size =
      some (rightPad ((data.drop (min start data.length)).take
        (min (min start data.length + size) data.length - min start data.length)) (size % u64)) := by
  unfold getDataBig
  have h1 : min start data.length % u64 = min start data.length := Nat.mod_eq_of_lt (by unfold i63 at hd; unfold u64; omega)
  have h2 : min (min start data.length + size) data.length % u64 = min (min start data.length + size) data.length :=
    Nat.mod_eq_of_lt (by unfold i63 at hd; unfold u64; omega)
  simp only [h1, h2]
  rw [slice_some (by omega) (by omega)]

end LemoProofs.Lemmas.JumpAnalysis

/-
  Step lemmas for C11's recorded-deposit theorem (`LemoProofs.C11Deposit`): the invariant `DepInv` — the deposit entry
  RECORDED in the profile of every registered candidate is its entry in the deposit book kept by construction
  (`LemoModel.Ledger.paidStep`), and an unregistered candidate still holds exactly that entry or nothing — is preserved by
  every transaction body of `LemoModel.Ledger`, WHATEVER profile keys a RegisterTx carries, by boxes, by the miner path and
  by `Finalize` (provided no REGISTERED candidate is on the refund list of a reward block).
-/
import LemoProofs.Lemmas.LedgerTally
import LemoModel.LedgerDeposit
namespace LemoProofs.LedgerDeposit
open LemoModel.Ledger LemoProofs.LedgerReward LemoProofs.LedgerTally LemoProofs.C11

/-- **the invariant**: book `paid` against state `s` -/
def DepInv (paid : Nat → Int) (s : St) : Prop :=
  ∀ x, ((s.accts x).isCand = 1 → (s.accts x).deposit = some (paid x)) ∧
       ((s.accts x).isCand = 2 → (s.accts x).deposit = some (paid x) ∨ (s.accts x).deposit = none)

/-- a change that keeps every flag and every deposit entry keeps the invariant -/
theorem DepInv_of_frame (paid : Nat → Int) (s s' : St)
    (h : ∀ y, (s'.accts y).isCand = (s.accts y).isCand ∧ (s'.accts y).deposit = (s.accts y).deposit)
    (hI : DepInv paid s) : DepInv paid s' := by
  intro x
  rw [(h x).1, (h x).2]
  exact hI x

theorem DepInv_setBal (paid : Nat → Int) (s : St) (a : Nat) (v : Int) (hI : DepInv paid s) : DepInv paid (setBal s a v) :=
  DepInv_of_frame paid s _ (fun y => ⟨(setBal_sameButBal s a v y).1.2.2.1, (setBal_sameButBal s a v y).2⟩) hI

theorem DepInv_setBal_iff (paid : Nat → Int) (s : St) (a : Nat) (v : Int) (hI : DepInv paid (setBal s a v)) : DepInv paid s :=
  DepInv_of_frame paid _ s (fun y => ⟨(setBal_sameButBal s a v y).1.2.2.1.symm, (setBal_sameButBal s a v y).2.symm⟩) hI

theorem DepInv_transfer (paid : Nat → Int) (s : St) (a b : Nat) (v : Int) (hI : DepInv paid s) : DepInv paid (transfer s a b v) :=
  DepInv_of_frame paid s _ (fun y => ⟨(transfer_sameButBal s a b v y).1.2.2.1, (transfer_sameButBal s a b v y).2⟩) hI

theorem DepInv_chargeForGas (paid : Nat → Int) (s : St) (m : Nat) (f : Int) (hI : DepInv paid s) : DepInv paid (chargeForGas s m f) :=
  DepInv_of_frame paid s _ (fun y => ⟨(chargeForGas_sameButBal s m f y).1.2.2.1, (chargeForGas_sameButBal s m f y).2⟩) hI

/-- an update of account `fr` alone (and of balances), with the book changed at `fr` alone -/
theorem DepInv_update (paid paid' : Nat → Int) (s s' : St) (fr : Nat) (hu : UpdAt fr s s')
    (hp : ∀ y, y ≠ fr → paid' y = paid y)
    (hfr : ((s'.accts fr).isCand = 1 → (s'.accts fr).deposit = some (paid' fr)) ∧
           ((s'.accts fr).isCand = 2 → (s'.accts fr).deposit = some (paid' fr) ∨ (s'.accts fr).deposit = none))
    (hI : DepInv paid s) : DepInv paid' s' := by
  intro x
  by_cases hx : x = fr
  · subst hx; exact hfr
  · have h := hu.2 x hx
    rw [h.2.2.1, h.2.2.2, hp x hx]
    exact hI x

/-- what a RegisterTx of `fr` (stored flag `ic`) does to the book — `paidStep` for a register tx -/
def regBook (paid : Nat → Int) (ic fr : Nat) (amt : Int) (flag : Nat) : Nat → Int :=
  if ic = 0 then upd paid fr amt
  else if ic = 1 ∧ flag ≠ 2 ∧ amt > 0 then upd paid fr (paid fr + amt)
  else paid

theorem upd_self {β : Type} (f : Nat → β) (k : Nat) (v : β) : upd f k v k = v := by simp [upd]

theorem upd_other {β : Type} (f : Nat → β) (k : Nat) (v : β) (y : Nat) (h : y ≠ k) : upd f k v y = f y := by simp [upd, h]

theorem regBook_other (paid : Nat → Int) (ic fr : Nat) (amt : Int) (flag : Nat) (y : Nat) (h : y ≠ fr) :
    regBook paid ic fr amt flag y = paid y := by
  unfold regBook
  split
  · exact upd_other _ _ _ _ h
  · split
    · exact upd_other _ _ _ _ h
    · rfl

/-- a refund leaves the refunded account's deposit entry empty, every other entry alone -/
theorem refund_deposit_self (c : Ctx) (s : St) (a : Nat) : ((refund c s a).accts a).deposit = none := by
  unfold refund
  split
  · rename_i h; exact h
  · simp [modAcct, upd]

/-- **doRegister_depInv**: a successful RegisterTx — first registration, unregistration (with or without the immediate
    refund), top-up, info update — keeps the invariant with the book advanced by `regBook`: for EVERY tx-supplied profile
    `px` (forged deposit entry, forged node id, any other key), every flag, with or without the flag check. -/
theorem doRegister_depInv (c : Ctx) (paid : Nat → Int) (s s' : St) (fr : Nat) (amt : Int) (flag inc : Nat) (nd : Bool)
    (px : TxProfile) (h : doRegister c s fr amt flag inc nd px = .ok s') (hI : DepInv paid s) :
    DepInv (regBook paid (s.accts fr).isCand fr amt flag) s' := by
  unfold doRegister at h
  simp only [depositAfterOverlay_true] at h
  split at h; · cases h
  split at h
  · -- first registration: the entry is the tx amount, whatever the tx profile says
    rename_i h0
    split at h; · cases h
    split at h; · cases h
    split at h; · cases h
    injection h with h; subst h
    refine DepInv_update paid _ s _ fr ?_ (fun y hy => regBook_other _ _ _ _ _ y hy) ?_ hI
    · apply UpdAt_trans (UpdAt_trans (UpdAt_modAcct fr s _ ?_) (UpdAt_transfer fr _ _ _ _)) (UpdAt_modAcct fr _ _ ?_)
      · intro _; rfl
      · intro _; rfl
    · have hb : regBook paid (s.accts fr).isCand fr amt flag fr = amt := by
        unfold regBook; rw [if_pos h0]; exact upd_self _ _ _
      rw [hb, modAcct_self]
      have hd : ((transfer (modAcct s fr fun a =>
          { a with isCand := flag, deposit := some amt, income := if inc = 0 then fr else inc, isDeputy := nd,
                   prof := builtProfile px }) fr c.p.pool amt).accts fr).deposit = some amt := by
        rw [(transfer_sameForTally _ _ _ _ _).2.2.2, modAcct_self]
      exact ⟨fun _ => hd, fun _ => Or.inl hd⟩
  · split at h; · cases h
    split at h; · cases h
    rename_i hn0 hn2c h1'
    have hs1 : (s.accts fr).isCand = 1 := Decidable.of_not_not h1'
    split at h
    · -- unregistration: the book is untouched; the entry stays, or the refund clears it
      rename_i hf2
      have hbk : regBook paid (s.accts fr).isCand fr amt flag = paid := by
        unfold regBook
        rw [if_neg hn0, if_neg (fun hh => hh.2.1 hf2)]
      rw [hbk]
      have hu0 : UpdAt fr s (modAcct s fr (fun a => { a with isCand := 2, votes := 0 })) :=
        UpdAt_modAcct fr s _ (fun _ => rfl)
      have hd0 : ((modAcct s fr (fun a => { a with isCand := 2, votes := 0 })).accts fr).deposit = some (paid fr) := by
        rw [modAcct_self]; exact (hI fr).1 hs1
      split at h
      · injection h with h; subst h
        exact DepInv_update paid paid s _ fr hu0 (fun _ _ => rfl) ⟨fun _ => hd0, fun _ => Or.inl hd0⟩ hI
      · split at h
        · injection h with h; subst h
          exact DepInv_update paid paid s _ fr hu0 (fun _ _ => rfl) ⟨fun _ => hd0, fun _ => Or.inl hd0⟩ hI
        · injection h with h; subst h
          refine DepInv_update paid paid s _ fr (UpdAt_trans hu0 (UpdAt_refund c fr _)) (fun _ _ => rfl) ?_ hI
          have hc2 : ((refund c (modAcct s fr (fun a => { a with isCand := 2, votes := 0 })) fr).accts fr).isCand = 2 := by
            rw [(refund_frame c _ fr fr).2.2.1, modAcct_self]
          constructor
          · intro hh; rw [hc2] at hh; cases hh
          · intro _; exact Or.inr (refund_deposit_self c _ fr)
    · rename_i hnf2
      split at h
      · -- top-up: the stored entry (the book entry) + the tx amount
        rename_i hpos
        split at h; · cases h
        split at h; · cases h
        rename_i old hdep
        injection h with h; subst h
        have hold : old = paid fr := by
          have := (hI fr).1 hs1
          rw [hdep] at this
          exact Option.some.inj this
        have hb : regBook paid (s.accts fr).isCand fr amt flag fr = paid fr + amt := by
          unfold regBook
          rw [if_neg hn0, if_pos ⟨hs1, hnf2, hpos⟩]; exact upd_self _ _ _
        refine DepInv_update paid _ s _ fr ?_ (fun y hy => regBook_other _ _ _ _ _ y hy) ?_ hI
        · apply UpdAt_trans (UpdAt_transfer fr s _ _ _) (UpdAt_modAcct fr _ _ ?_)
          intro _; rfl
        · rw [hb, modAcct_self, hold]
          exact ⟨fun _ => rfl, fun _ => Or.inl rfl⟩
      · -- info update: entry and book untouched
        rename_i hnpos
        injection h with h; subst h
        have hbk : regBook paid (s.accts fr).isCand fr amt flag = paid := by
          unfold regBook
          rw [if_neg hn0, if_neg (fun hh => hnpos hh.2.2)]
        rw [hbk]
        refine DepInv_update paid paid s _ fr (UpdAt_modAcct fr s _ (fun _ => rfl)) (fun _ _ => rfl) ?_ hI
        rw [modAcct_self]
        have hd := (hI fr).1 hs1
        exact ⟨fun _ => hd, fun _ => Or.inl hd⟩

/-! ### transaction bodies, transactions, boxes, the miner path -/

/-- `paidStep` only reads the sender's stored flag -/
theorem paidStep_congr (paid : Nat → Int) (s1 s2 : St) (tx : Tx)
    (h : (s1.accts tx.sender).isCand = (s2.accts tx.sender).isCand) : paidStep paid (s1, tx) = paidStep paid (s2, tx) := by
  unfold paidStep
  simp only [h]

theorem body_depInv (c : Ctx) (paid : Nat → Int) (s s' : St) (tx : Tx) (ib : Int)
    (h : body c s tx ib = .ok s') (hI : DepInv paid s) : DepInv (paidStep paid (s, tx)) s' := by
  unfold body at h
  unfold paidStep
  cases hk : tx.kind with
  | transfer to v =>
    simp only [hk] at h ⊢
    split at h; · cases h
    split at h
    · injection h with h; subst h; exact hI
    · injection h with h; subst h; exact DepInv_transfer _ _ _ _ _ hI
  | vote cand =>
    simp only [hk] at h ⊢
    obtain ⟨_, _, hy⟩ := doVote_spec c s s' _ _ _ h
    exact DepInv_of_frame paid s s' (fun y => ⟨(hy y).2.2.1, (hy y).2.2.2⟩) hI
  | register amt flag inc nd px =>
    simp only [hk] at h ⊢
    exact doRegister_depInv c paid s s' _ _ _ _ _ _ h hI
  | setSigners tg l tok =>
    simp only [hk] at h ⊢
    unfold doSetSigners at h
    split at h; · cases h
    split at h; · cases h
    split at h; · cases h
    split at h; · cases h
    split at h; · cases h
    split at h; · cases h
    injection h with h; subst h
    refine DepInv_of_frame paid s _ (fun y => ?_) hI
    rw [modAcct_accts]
    by_cases hy : y = tg
    · subst hy; rw [if_pos rfl]; exact ⟨rfl, rfl⟩
    · rw [if_neg hy]; exact ⟨rfl, rfl⟩
  | box => simp [hk] at h
  | other => simp [hk] at h

/-- **applySimple_depInv**: an included non-box tx advances the book by `paidStep` and keeps the invariant -/
theorem applySimple_depInv (c : Ctx) (paid : Nat → Int) (s s' : St) (gp gp' g : Nat) (tx : Tx)
    (h : applySimple c s gp tx = .ok (s', gp', g)) (hI : DepInv paid s) : DepInv (paidStep paid (s, tx)) s' := by
  obtain ⟨sb, hb, hs', _, _⟩ := LemoProofs.LedgerFrame.applySimple_shape c s s' gp gp' g tx h
  subst hs'
  apply DepInv_setBal
  have hc := paidStep_congr paid s (setBal s tx.payer ((s.accts tx.payer).bal - (tx.gasLimit : Int) * tx.gasPrice)) tx
    (setBal_sameButBal s tx.payer _ tx.sender).1.2.2.1.symm
  rw [hc]
  exact body_depInv c paid _ sb tx _ hb (DepInv_setBal _ _ _ _ hI)

theorem applySubs_depInv (c : Ctx) : ∀ (ts : List Tx) (paid : Nat → Int) (s s' : St) (gp gp' g : Nat) (f : Int),
    applySubs c s gp ts = .ok (s', gp', g, f) → DepInv paid s → DepInv (paidAfter paid (execSubs c s gp ts)) s' := by
  intro ts
  induction ts with
  | nil =>
    intro paid s s' gp gp' g f h hI
    simp only [applySubs] at h
    injection h with h; injection h with h1 _
    subst h1; exact hI
  | cons t ts ih =>
    intro paid s s' gp gp' g f h hI
    simp only [applySubs] at h
    simp only [execSubs]
    cases h1 : applySimple c s gp t with
    | error e => simp [h1] at h
    | ok r =>
      obtain ⟨s1, gp1, g1⟩ := r
      simp only [h1] at h ⊢
      cases h2 : applySubs c s1 gp1 ts with
      | error e => simp [h2] at h
      | ok r2 =>
        obtain ⟨s2, gp2, g2, f2⟩ := r2
        simp only [h2] at h
        injection h with h; injection h with a1 _
        subst a1
        simp only [paidAfter, List.foldl_cons]
        exact ih _ s1 s2 gp1 gp2 g2 f2 h2 (applySimple_depInv c paid s s1 gp gp1 g1 t h1 hI)

/-- **applyTx_depInv**: an included tx — a box with all its sub-txs — advances the book over the simple txs it executes -/
theorem applyTx_depInv (c : Ctx) (paid : Nat → Int) (s s' : St) (gp gp' g : Nat) (tx : Tx)
    (h : applyTx c s gp tx = .ok (s', gp', g)) (hI : DepInv paid s) : DepInv (paidAfter paid (execTx c s gp tx)) s' := by
  unfold applyTx at h
  split at h
  · rename_i hk
    unfold execTx
    simp only [hk]
    simp only at h
    split at h; · cases h
    split at h; · cases h
    split at h; · cases h
    split at h; · cases h
    split at h; · cases h
    split at h; · cases h
    rename_i s2 gp2 sg sf hsub
    injection h with h
    injection h with h1 _
    subst h1
    apply DepInv_setBal
    apply DepInv_chargeForGas
    exact applySubs_depInv c tx.subs paid _ s2 _ gp2 sg sf hsub (DepInv_setBal _ _ _ _ hI)
  · rename_i hk
    have hex : execTx c s gp tx = [(s, tx)] := by
      unfold execTx
      cases hk2 : tx.kind with
      | box => exact absurd hk2 (by simpa using hk)
      | transfer _ _ => rfl
      | vote _ => rfl
      | register _ _ _ _ _ => rfl
      | setSigners _ _ _ => rfl
      | other => rfl
    rw [hex]
    simp only [paidAfter, List.foldl_cons, List.foldl_nil]
    exact applySimple_depInv c paid s s' gp gp' g tx h hI

/-- **mine_depInv**: the miner path over ANY candidate list — failing candidates and failing boxes are discarded and leave
    the book alone — keeps the invariant with the book advanced over the executed txs -/
theorem mine_depInv (c : Ctx) : ∀ (txs : List Tx) (paid : Nat → Int) (s : St) (gp : Nat),
    DepInv paid s → DepInv (paidBlock c s gp txs paid) (mine c s gp txs).st := by
  intro txs
  induction txs with
  | nil => intro paid s gp hI; simp only [mine, paidBlock, execBlock, paidAfter, List.foldl_nil]; exact hI
  | cons t ts ih =>
    intro paid s gp hI
    unfold mine
    unfold paidBlock execBlock
    by_cases hg : gp < LemoGen.Gas.OrdinaryTxGas
    · simp only [hg, if_true, paidAfter, List.foldl_nil]; exact hI
    · simp only [hg, if_false]
      cases ha : applyTx c s gp t with
      | error er =>
        obtain ⟨er, gp'⟩ := er
        simp only []
        exact ih paid s gp' hI
      | ok r =>
        obtain ⟨s1, gp1, g1⟩ := r
        simp only []
        have h1 := applyTx_depInv c paid s s1 gp gp1 g1 t ha hI
        have h2 := ih _ s1 gp1 h1
        unfold paidBlock at h2
        simp only [paidAfter, List.foldl_append] at h2 ⊢
        exact h2

/-! ### Finalize -/

theorem refund_deposit_cases (c : Ctx) (s : St) (a x : Nat) :
    ((refund c s a).accts x).deposit = (s.accts x).deposit ∨ ((refund c s a).accts x).deposit = none := by
  by_cases h : x = a
  · subst h; exact Or.inr (refund_deposit_self c s x)
  · exact Or.inl (refund_deposit_other c s a x h)

theorem refundAll_deposit_cases (c : Ctx) : ∀ (l : List Nat) (s : St) (x : Nat),
    ((refundAll c s l).accts x).deposit = (s.accts x).deposit ∨ ((refundAll c s l).accts x).deposit = none := by
  intro l
  induction l with
  | nil => intro s x; exact Or.inl rfl
  | cons a as ih =>
    intro s x
    simp only [refundAll]
    rcases ih (refund c s a) x with h | h
    · rcases refund_deposit_cases c s a x with h2 | h2
      · exact Or.inl (h.trans h2)
      · exact Or.inr (h.trans h2)
    · exact Or.inr h

theorem rewardSteps_deposit_cases (c : Ctx) (s : St) (x : Nat) :
    ((rewardSteps c s).accts x).deposit = (s.accts x).deposit ∨ ((rewardSteps c s).accts x).deposit = none := by
  unfold rewardSteps
  split
  · rcases refundAll_deposit_cases c c.rf.refunds (issueTermReward c s) x with h | h
    · exact Or.inl (h.trans (issueTermReward_frame c s x).2)
    · exact Or.inr h
  · exact Or.inl rfl

/-- the refund clause for every account: no REGISTERED candidate is on the refund list of a reward block
    (`LoadRefundCandidates` returns unregistered candidates only; the list is a trusted input of the model) -/
def NoRegisteredRefund (c : Ctx) (s : St) : Prop :=
  isRewardBlock c = true → ∀ x ∈ c.rf.refunds, (s.accts x).isCand ≠ 1

theorem rewardSteps_depInv (c : Ctx) (paid : Nat → Int) (s : St) (hr : NoRegisteredRefund c s) (hI : DepInv paid s) :
    DepInv paid (rewardSteps c s) := by
  intro x
  have hf := rewardSteps_frame c s x
  rw [hf.2.2.1]
  constructor
  · intro h1
    have hx : ((rewardSteps c s).accts x).deposit = (s.accts x).deposit := by
      by_cases hrb : isRewardBlock c = true
      · exact rewardSteps_deposit_other c s x (fun hm => hr hrb x hm h1)
      · unfold rewardSteps; rw [if_neg hrb]
    rw [hx]; exact (hI x).1 h1
  · intro h2
    rcases rewardSteps_deposit_cases c s x with h | h
    · rw [h]; exact (hI x).2 h2
    · exact Or.inr h

theorem votesByBalance_depInv (c : Ctx) (paid : Nat → Int) (start : Nat → Int) (s : St) (V : List Nat) (hI : DepInv paid s) :
    DepInv paid (votesByBalance c start s V) :=
  DepInv_of_frame paid s _ (fun y => ⟨(votesByBalance_frame c start s V y).2.2.1, (votesByBalance_frame c start s V y).2.2.2⟩) hI

/-- `Finalize` (either order of its steps) keeps the invariant when it refunds no registered candidate -/
theorem finalize_depInv (c : Ctx) (paid : Nat → Int) (start : Nat → Int) (s : St) (V : List Nat)
    (hr : NoRegisteredRefund c s) (hI : DepInv paid s) : DepInv paid (finalize c start s V) := by
  unfold finalize
  split
  · exact votesByBalance_depInv c paid start _ V (rewardSteps_depInv c paid s hr hI)
  · refine rewardSteps_depInv c paid _ ?_ (votesByBalance_depInv c paid start s V hI)
    intro hrb x hx
    rw [(votesByBalance_frame c start s V x).2.2.1]
    exact hr hrb x hx

end LemoProofs.LedgerDeposit

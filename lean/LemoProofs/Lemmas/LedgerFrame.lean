/-
  Frame lemmas for single transactions of `LemoModel.Ledger` (C05 per-account statements, exact box mint):
  which balances / income addresses a transaction body can touch, and the shape of `applySimple`.
-/
import LemoProofs.Lemmas.LedgerReward
namespace LemoProofs.LedgerFrame
open LemoModel.Ledger LemoProofs.LedgerSum LemoProofs.LedgerReward

/-! ### balances -/

theorem transfer_bal_other (s : St) (a b : Nat) (v : Int) (x : Nat) (ha : x ≠ a) (hb : x ≠ b) :
    ((transfer s a b v).accts x).bal = (s.accts x).bal := by
  unfold transfer
  simp only
  rw [setBal_bal, if_neg hb, setBal_bal, if_neg ha]

theorem refund_bal_other (c : Ctx) (s : St) (a x : Nat) (ha : x ≠ a) (hp : x ≠ c.p.pool) :
    ((refund c s a).accts x).bal = (s.accts x).bal := by
  cases hd : (s.accts a).deposit with
  | none => rw [refund_none c s a hd]
  | some d => rw [refund_accts c s a d hd x]; unfold refundAcct; simp [ha, hp]

theorem doVote_bal (c : Ctx) (s s' : St) (v cand : Nat) (ib : Int) (h : doVote c s v cand ib = .ok s') (x : Nat) :
    (s'.accts x).bal = (s.accts x).bal := by
  unfold doVote at h
  simp only at h
  split at h; · cases h
  split at h; · cases h
  injection h with h; subst h
  rw [modAcct_bal _ _ _ (by intro _; rfl)]
  split
  · rfl
  · rw [modAcct_bal _ _ _ (by intro _; rfl)]
    split
    · rw [modAcct_bal _ _ _ (by intro _; rfl)]
    · rfl

theorem doSetSigners_bal (s s' : St) (fr tg : Nat) (l : List (Nat × Nat)) (tok : Bool)
    (h : doSetSigners s fr tg l tok = .ok s') (x : Nat) : (s'.accts x).bal = (s.accts x).bal := by
  unfold doSetSigners at h
  split at h; · cases h
  split at h; · cases h
  split at h; · cases h
  split at h; · cases h
  split at h; · cases h
  split at h; · cases h
  injection h with h; subst h
  exact modAcct_bal _ _ _ (by intro _; rfl) x

theorem doRegister_bal_other (c : Ctx) (s s' : St) (fr : Nat) (amt : Int) (flag inc : Nat) (nd : Bool) (px : TxProfile)
    (h : doRegister c s fr amt flag inc nd px = .ok s') (x : Nat) (hf : x ≠ fr) (hp : x ≠ c.p.pool) :
    (s'.accts x).bal = (s.accts x).bal := by
  unfold doRegister at h
  simp only [depositAfterOverlay_true] at h
  split at h; · cases h
  split at h
  · split at h; · cases h
    split at h; · cases h
    split at h; · cases h
    injection h with h; subst h
    rw [modAcct_bal _ _ _ (by intro _; rfl), transfer_bal_other _ _ _ _ _ hf hp, modAcct_bal _ _ _ (by intro _; rfl)]
  · split at h; · cases h
    split at h; · cases h
    split at h
    · split at h
      · injection h with h; subst h; exact modAcct_bal _ _ _ (by intro _; rfl) x
      · split at h
        · injection h with h; subst h; exact modAcct_bal _ _ _ (by intro _; rfl) x
        · injection h with h; subst h
          rw [refund_bal_other c _ fr x hf hp, modAcct_bal _ _ _ (by intro _; rfl)]
    · split at h
      · split at h; · cases h
        split at h; · cases h
        injection h with h; subst h
        rw [modAcct_bal _ _ _ (by intro _; rfl), transfer_bal_other _ _ _ _ _ hf hp]
      · injection h with h; subst h; exact modAcct_bal _ _ _ (by intro _; rfl) x

/-- the accounts whose BALANCE the body of a non-box tx may change: sender, deposit pool, recipient of a transfer -/
def bodyTouches (c : Ctx) (tx : Tx) : List Nat :=
  tx.sender :: c.p.pool :: (match tx.kind with | .transfer to _ => [to] | _ => [])

theorem body_bal_other (c : Ctx) (s s' : St) (tx : Tx) (ib : Int) (h : body c s tx ib = .ok s') (x : Nat)
    (hx : x ∉ bodyTouches c tx) : (s'.accts x).bal = (s.accts x).bal := by
  have hs : x ≠ tx.sender := fun e => hx (by simp [bodyTouches, e])
  have hp : x ≠ c.p.pool := fun e => hx (by simp [bodyTouches, e])
  unfold body at h
  cases hk : tx.kind with
  | transfer to v =>
    simp only [hk] at h
    have ht : x ≠ to := fun e => hx (by simp [bodyTouches, hk, e])
    split at h; · cases h
    split at h
    · injection h with h; subst h; rfl
    · injection h with h; subst h; exact transfer_bal_other _ _ _ _ _ hs ht
  | vote cand => simp only [hk] at h; exact doVote_bal c s s' _ _ _ h x
  | register amt flag inc nd px => simp only [hk] at h; exact doRegister_bal_other c s s' _ _ _ _ _ _ h x hs hp
  | setSigners tg l tok => simp only [hk] at h; exact doSetSigners_bal s s' _ _ _ _ h x
  | box => simp [hk] at h
  | other => simp [hk] at h

/-- **applySimple_shape**: an included non-box tx is: buy `gasLimit` at `gasPrice` from the payer, run the body with the
    sender's balance before the purchase, give `gasLimit − gasUsed` back to the payer. -/
theorem applySimple_shape (c : Ctx) (s s' : St) (gp gp' g : Nat) (tx : Tx) (h : applySimple c s gp tx = .ok (s', gp', g)) :
    ∃ sb, body c (setBal s tx.payer ((s.accts tx.payer).bal - (tx.gasLimit : Int) * tx.gasPrice)) tx (s.accts tx.sender).bal = .ok sb ∧
      s' = setBal sb tx.payer ((sb.accts tx.payer).bal + ((tx.gasLimit : Int) - (g : Int)) * tx.gasPrice) ∧
      g ≤ tx.gasLimit ∧ (tx.gasLimit : Int) * tx.gasPrice ≤ (s.accts tx.payer).bal := by
  unfold applySimple at h
  simp only at h
  split at h; · cases h
  split at h; · cases h
  rename_i hfee
  split at h; · cases h
  split at h; · cases h
  rename_i ig hig
  split at h; · cases h
  rename_i hgl
  split at h; · cases h
  rename_i sb hb
  injection h with h
  injection h with h1 h2
  injection h2 with _ h3
  subst h1 h3
  refine ⟨sb, hb, ?_, by omega, by omega⟩
  have e : ((tx.gasLimit - ig : Nat) : Int) = (tx.gasLimit : Int) - ((tx.gasLimit - (tx.gasLimit - ig) : Nat) : Int) := by omega
  rw [e]

/-! ### income addresses -/

theorem modAcct_income_other (s : St) (a : Nat) (f : Acct → Acct) (x : Nat) (h : x ≠ a) :
    ((modAcct s a f).accts x).income = (s.accts x).income := by
  unfold modAcct upd; simp [h]

theorem modAcct_income_keep (s : St) (a : Nat) (f : Acct → Acct) (hf : ∀ y, (f y).income = y.income) (x : Nat) :
    ((modAcct s a f).accts x).income = (s.accts x).income := by
  unfold modAcct upd
  by_cases h : x = a
  · subst h; simp [hf]
  · simp [h]

theorem setBal_income (s : St) (a : Nat) (v : Int) (x : Nat) : ((setBal s a v).accts x).income = (s.accts x).income :=
  (setBal_frame s a v x).1.2.2.2.1

theorem transfer_income (s : St) (a b : Nat) (v : Int) (x : Nat) : ((transfer s a b v).accts x).income = (s.accts x).income :=
  (transfer_sameButBal s a b v x).1.2.2.2.1

/-- only the SENDER of a tx can have its income address changed by it (RegisterTx) -/
theorem body_income_other (c : Ctx) (s s' : St) (tx : Tx) (ib : Int) (h : body c s tx ib = .ok s') (x : Nat)
    (hx : x ≠ tx.sender) : (s'.accts x).income = (s.accts x).income := by
  unfold body at h
  cases hk : tx.kind with
  | transfer to v =>
    simp only [hk] at h
    split at h; · cases h
    split at h
    · injection h with h; subst h; rfl
    · injection h with h; subst h; exact transfer_income _ _ _ _ x
  | vote cand =>
    simp only [hk] at h
    unfold doVote at h
    simp only at h
    split at h; · cases h
    split at h; · cases h
    injection h with h; subst h
    rw [modAcct_income_keep _ _ _ (by intro _; rfl)]
    split
    · rfl
    · rw [modAcct_income_keep _ _ _ (by intro _; rfl)]
      split
      · rw [modAcct_income_keep _ _ _ (by intro _; rfl)]
      · rfl
  | register amt flag inc nd px =>
    simp only [hk] at h
    unfold doRegister at h
    simp only [depositAfterOverlay_true] at h
    split at h; · cases h
    split at h
    · split at h; · cases h
      split at h; · cases h
      split at h; · cases h
      injection h with h; subst h
      rw [modAcct_income_other _ _ _ _ hx, transfer_income, modAcct_income_other _ _ _ _ hx]
    · split at h; · cases h
      split at h; · cases h
      split at h
      · split at h
        · injection h with h; subst h; exact modAcct_income_other _ _ _ _ hx
        · split at h
          · injection h with h; subst h; exact modAcct_income_other _ _ _ _ hx
          · injection h with h; subst h
            rw [(refund_frame c _ tx.sender x).2.2.2.1, modAcct_income_other _ _ _ _ hx]
      · split at h
        · split at h; · cases h
          split at h; · cases h
          injection h with h; subst h
          rw [modAcct_income_other _ _ _ _ hx, transfer_income]
        · injection h with h; subst h; exact modAcct_income_other _ _ _ _ hx
  | setSigners tg l tok =>
    simp only [hk] at h
    unfold doSetSigners at h
    split at h; · cases h
    split at h; · cases h
    split at h; · cases h
    split at h; · cases h
    split at h; · cases h
    split at h; · cases h
    injection h with h; subst h
    exact modAcct_income_keep _ _ _ (by intro _; rfl) x
  | box => simp [hk] at h
  | other => simp [hk] at h

theorem applySimple_income_other (c : Ctx) (s s' : St) (gp gp' g : Nat) (tx : Tx)
    (h : applySimple c s gp tx = .ok (s', gp', g)) (x : Nat) (hx : x ≠ tx.sender) :
    (s'.accts x).income = (s.accts x).income := by
  obtain ⟨sb, hb, hs', _, _⟩ := applySimple_shape c s s' gp gp' g tx h
  rw [hs', setBal_income, body_income_other c _ sb tx _ hb x hx, setBal_income]

end LemoProofs.LedgerFrame

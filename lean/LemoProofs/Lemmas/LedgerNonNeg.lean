/-
  C05, "balances never go negative": the ledger invariant
      every balance ≥ 0,  every recorded deposit ≥ 0,  deposits are recorded only inside the universe U,
      Σ_{a∈U} recorded deposit(a) ≤ balance(deposit pool)
  is preserved by every transaction the pool admits (`TxWf`: gas price ≥ 0, value / deposit amount ≥ 0 — what
  VerifyTxBody and the RLP decoder guarantee —, sender and payer are not the deposit pool, whose key nobody has),
  by the miner path over whole candidate lists, by `chargeForGas` and by `Finalize` (salaries ≥ 0, refunds of listed
  accounts).  Go's `SetBalance` panics on a negative value; the model's `setBal` is total: this file shows the total
  function is never used outside Go's domain.
-/
import LemoProofs.Lemmas.LedgerReward
namespace LemoProofs.LedgerNonNeg
open LemoModel.Ledger LemoProofs.LedgerSum LemoProofs.LedgerReward

def depOf (a : Acct) : Int := a.deposit.getD 0

def sumDep (s : St) (U : List Nat) : Int := (U.map fun a => depOf (s.accts a)).sum

structure Inv (pool : Nat) (U : List Nat) (s : St) : Prop where
  bal : ∀ a, 0 ≤ (s.accts a).bal
  dep : ∀ a, 0 ≤ depOf (s.accts a)
  out : ∀ a, a ∉ U → (s.accts a).deposit = none
  pool : sumDep s U ≤ (s.accts pool).bal

theorem sumDep_cons (s : St) (a : Nat) (U : List Nat) : sumDep s (a :: U) = depOf (s.accts a) + sumDep s U := by
  simp [sumDep]

theorem sumDep_congr (s s' : St) : ∀ U, (∀ x ∈ U, depOf (s'.accts x) = depOf (s.accts x)) → sumDep s' U = sumDep s U := by
  intro U
  induction U with
  | nil => intro _; rfl
  | cons b U ih =>
    intro h
    rw [sumDep_cons, sumDep_cons, h b List.mem_cons_self, ih (fun x hx => h x (List.mem_cons_of_mem _ hx))]

/-- changing the record of one account of a duplicate-free list moves the sum by the difference -/
theorem sumDep_update (s s' : St) (a : Nat) (h : ∀ x, x ≠ a → depOf (s'.accts x) = depOf (s.accts x)) :
    ∀ U, U.Nodup → a ∈ U → sumDep s' U = sumDep s U + (depOf (s'.accts a) - depOf (s.accts a)) := by
  intro U
  induction U with
  | nil => intro _ hm; cases hm
  | cons b U ih =>
    intro hn hm
    have ⟨hb, hn'⟩ := List.nodup_cons.mp hn
    rw [sumDep_cons, sumDep_cons]
    by_cases e : b = a
    · subst e
      rw [sumDep_congr s s' U (fun x hx => h x (fun e => hb (e ▸ hx)))]
      omega
    · have : a ∈ U := by
        rcases List.mem_cons.mp hm with h' | h'
        · exact absurd h'.symm e
        · exact h'
      rw [h b e, ih hn' this]; omega

theorem sumDep_nonneg (s : St) (h : ∀ a, 0 ≤ depOf (s.accts a)) (U : List Nat) : 0 ≤ sumDep s U :=
  sum_nonneg (fun a => depOf (s.accts a)) U (fun a _ => h a)

/-- **Inv_step**: a step that changes (balance, deposit record) of ONE account `a ∈ U`, `a ≠ pool`, possibly the pool's
    balance, and nothing else of balances / deposit records, keeps the invariant when `a` stays non-negative and the pool
    gains at least what `a`'s record gains. -/
theorem Inv_step (pool : Nat) (U : List Nat) (hn : U.Nodup) (s s' : St) (a : Nat) (ha : a ∈ U) (hap : a ≠ pool)
    (hI : Inv pool U s)
    (hbal : ∀ x, x ≠ a → x ≠ pool → (s'.accts x).bal = (s.accts x).bal)
    (hdep : ∀ x, x ≠ a → (s'.accts x).deposit = (s.accts x).deposit)
    (ha_bal : 0 ≤ (s'.accts a).bal) (ha_dep : 0 ≤ depOf (s'.accts a))
    (hpool : depOf (s'.accts a) - depOf (s.accts a) ≤ (s'.accts pool).bal - (s.accts pool).bal)
    (hpool0 : 0 ≤ (s'.accts pool).bal) : Inv pool U s' := by
  have hdep' : ∀ x, x ≠ a → depOf (s'.accts x) = depOf (s.accts x) := fun x hx => by unfold depOf; rw [hdep x hx]
  refine ⟨?_, ?_, ?_, ?_⟩
  · intro x
    by_cases e : x = a
    · rw [e]; exact ha_bal
    · by_cases e2 : x = pool
      · rw [e2]; exact hpool0
      · rw [hbal x e e2]; exact hI.bal x
  · intro x
    by_cases e : x = a
    · rw [e]; exact ha_dep
    · rw [hdep' x e]; exact hI.dep x
  · intro x hx
    have e : x ≠ a := fun e => hx (e ▸ ha)
    rw [hdep x e]; exact hI.out x hx
  · rw [sumDep_update s s' a hdep' U hn ha]
    have := hI.pool
    omega

/-- a step that leaves every balance and every deposit record alone -/
theorem Inv_congr (pool : Nat) (U : List Nat) (s s' : St) (hI : Inv pool U s)
    (hbal : ∀ x, (s'.accts x).bal = (s.accts x).bal) (hdep : ∀ x, (s'.accts x).deposit = (s.accts x).deposit) :
    Inv pool U s' := by
  refine ⟨fun x => by rw [hbal]; exact hI.bal x, fun x => by unfold depOf; rw [hdep]; exact hI.dep x,
    fun x hx => by rw [hdep]; exact hI.out x hx, ?_⟩
  rw [sumDep_congr s s' U (fun x _ => by unfold depOf; rw [hdep]), hbal]
  exact hI.pool

theorem Inv_modAcct (pool : Nat) (U : List Nat) (s : St) (a : Nat) (f : Acct → Acct) (hI : Inv pool U s)
    (hb : ∀ x, (f x).bal = x.bal) (hd : ∀ x, (f x).deposit = x.deposit) : Inv pool U (modAcct s a f) := by
  apply Inv_congr pool U s _ hI
  · exact modAcct_bal s a f hb
  · intro x
    unfold modAcct upd
    by_cases h : x = a
    · subst h; simp [hd]
    · simp [h]

/-- **Inv_setBal**: setting a balance to a non-negative value keeps the invariant, provided the deposit pool is never
    lowered this way -/
theorem Inv_setBal (pool : Nat) (U : List Nat) (s : St) (a : Nat) (v : Int) (hI : Inv pool U s) (hv : 0 ≤ v)
    (hp : a = pool → (s.accts pool).bal ≤ v) : Inv pool U (setBal s a v) := by
  have hd : ∀ x, ((setBal s a v).accts x).deposit = (s.accts x).deposit := fun x => (setBal_frame s a v x).2
  refine ⟨?_, fun x => by unfold depOf; rw [hd]; exact hI.dep x, fun x hx => by rw [hd]; exact hI.out x hx, ?_⟩
  · intro x
    rw [setBal_bal]
    split
    · exact hv
    · exact hI.bal x
  · rw [sumDep_congr s _ U (fun x _ => by unfold depOf; rw [hd]), setBal_bal]
    have := hI.pool
    split
    · rename_i e; have := hp e.symm; omega
    · exact this

/-- crediting any account (the pool included) with a non-negative amount -/
theorem Inv_credit (pool : Nat) (U : List Nat) (s : St) (a : Nat) (v : Int) (hI : Inv pool U s) (hv : 0 ≤ v) :
    Inv pool U (setBal s a ((s.accts a).bal + v)) := by
  apply Inv_setBal pool U s a _ hI
  · have := hI.bal a; omega
  · intro e; rw [e]; omega

/-- `Transfer` of a covered non-negative value out of an account that is not the pool -/
theorem Inv_transfer (pool : Nat) (U : List Nat) (s : St) (a b : Nat) (v : Int) (hI : Inv pool U s)
    (hap : a ≠ pool) (hv : 0 ≤ v) (hcov : v ≤ (s.accts a).bal) : Inv pool U (transfer s a b v) := by
  unfold transfer
  simp only
  apply Inv_credit pool U _ b v _ hv
  apply Inv_setBal pool U s a _ hI (by omega)
  intro e; exact absurd e hap

/-! ### `Refund` -/

theorem Inv_refund (c : Ctx) (U : List Nat) (hn : U.Nodup) (s : St) (a : Nat) (hI : Inv c.p.pool U s)
    (ha : a ∈ U) (hap : a ≠ c.p.pool) : Inv c.p.pool U (refund c s a) := by
  cases hd : (s.accts a).deposit with
  | none => rw [refund_none c s a hd]; exact hI
  | some d =>
    have hacc := refund_accts c s a d hd
    have hd0 : 0 ≤ d := by have := hI.dep a; unfold depOf at this; rw [hd] at this; exact this
    have hsum : d ≤ sumDep s U := by
      -- d is one of the non-negative summands
      have h1 := sumDep_update s (modAcct s a (fun x => { x with deposit := none })) a
        (fun x hx => by unfold depOf modAcct upd; simp [hx]) U hn ha
      have h2 : 0 ≤ sumDep (modAcct s a (fun x => { x with deposit := none })) U := by
        apply sumDep_nonneg
        intro x
        unfold depOf modAcct upd
        by_cases e : x = a
        · simp [e]
        · simp only [e, if_false]; exact hI.dep x
      have h3 : depOf ((modAcct s a (fun x => { x with deposit := none })).accts a) = 0 := by
        unfold depOf modAcct upd; simp
      have h4 : depOf (s.accts a) = d := by unfold depOf; rw [hd]; rfl
      omega
    have hpl := hI.pool
    apply Inv_step c.p.pool U hn s (refund c s a) a ha hap hI
    · intro x hx hxp; rw [hacc x]; unfold refundAcct; simp [hx, hxp]
    · intro x hx; rw [hacc x]; unfold refundAcct; simp [hx]
    · rw [hacc a]; unfold refundAcct; simp [hap]; have := hI.bal a; omega
    · rw [hacc a]; unfold refundAcct depOf; simp
    · rw [hacc a, hacc c.p.pool]
      unfold refundAcct depOf
      simp [Ne.symm hap, hd]
      omega
    · rw [hacc c.p.pool]; unfold refundAcct; simp [Ne.symm hap]; omega

theorem Inv_refundAll (c : Ctx) (U : List Nat) (hn : U.Nodup) : ∀ (l : List Nat) (s : St), Inv c.p.pool U s →
    (∀ a ∈ l, a ∈ U ∧ a ≠ c.p.pool) → Inv c.p.pool U (refundAll c s l) := by
  intro l
  induction l with
  | nil => intro s h _; exact h
  | cons a as ih =>
    intro s hI h
    simp only [refundAll]
    exact ih _ (Inv_refund c U hn s a hI (h a List.mem_cons_self).1 (h a List.mem_cons_self).2)
      (fun x hx => h x (List.mem_cons_of_mem _ hx))

/-! ### transactions the pool admits -/

/-- what VerifyTxBody / the decoder guarantee about one transaction, plus: nobody holds the deposit pool's key -/
def TxWf1 (pool : Nat) (U : List Nat) (tx : Tx) : Prop :=
  0 ≤ tx.gasPrice ∧ tx.sender ≠ pool ∧ tx.payer ≠ pool ∧ tx.sender ∈ U ∧
  (match tx.kind with
   | .transfer _ v => 0 ≤ v
   | .register amt _ _ _ _ => 0 ≤ amt
   | _ => True)

def TxWf (pool : Nat) (U : List Nat) (tx : Tx) : Prop :=
  TxWf1 pool U tx ∧ ∀ t ∈ tx.subs, TxWf1 pool U t

theorem doVote_inv (c : Ctx) (U : List Nat) (s s' : St) (v cand : Nat) (ib : Int) (hI : Inv c.p.pool U s)
    (h : doVote c s v cand ib = .ok s') : Inv c.p.pool U s' := by
  unfold doVote at h
  simp only at h
  split at h; · cases h
  split at h; · cases h
  injection h with h; subst h
  refine Inv_modAcct _ _ _ _ _ ?_ ?_ ?_
  · split
    · exact hI
    · refine Inv_modAcct _ _ _ _ _ ?_ ?_ ?_
      · split
        · refine Inv_modAcct _ _ _ _ _ hI ?_ ?_ <;> intro _ <;> rfl
        · exact hI
      · intro _; rfl
      · intro _; rfl
  · intro _; rfl
  · intro _; rfl

theorem doSetSigners_inv (pool : Nat) (U : List Nat) (s s' : St) (fr tg : Nat) (l : List (Nat × Nat)) (tok : Bool)
    (hI : Inv pool U s) (h : doSetSigners s fr tg l tok = .ok s') : Inv pool U s' := by
  unfold doSetSigners at h
  split at h; · cases h
  split at h; · cases h
  split at h; · cases h
  split at h; · cases h
  split at h; · cases h
  split at h; · cases h
  injection h with h; subst h
  refine Inv_modAcct _ _ _ _ _ hI ?_ ?_ <;> intro _ <;> rfl

theorem doRegister_inv (c : Ctx) (U : List Nat) (hn : U.Nodup) (s s' : St) (fr : Nat) (amt : Int) (flag inc : Nat) (nd : Bool) (px : TxProfile)
    (hI : Inv c.p.pool U s) (hf : fr ∈ U) (hfp : fr ≠ c.p.pool) (ha : 0 ≤ amt)
    (h : doRegister c s fr amt flag inc nd px = .ok s') : Inv c.p.pool U s' := by
  have hpf : c.p.pool ≠ fr := Ne.symm hfp
  unfold doRegister at h
  simp only [depositAfterOverlay_true] at h
  split at h; · cases h
  split at h
  · -- first registration (also: again, from the blank-flag state)
    split at h; · cases h
    split at h; · cases h
    split at h; · cases h
    rename_i hbal
    injection h with h; subst h
    have hd0 : 0 ≤ (s.accts fr).deposit.getD 0 := hI.dep fr
    have hpb := hI.bal c.p.pool
    apply Inv_step c.p.pool U hn s _ fr hf hfp hI
    · intro x hx hxp; simp [modAcct, transfer, setBal, upd, hx, hxp]
    · intro x hx
      by_cases hxp : x = c.p.pool
      · subst hxp; simp [modAcct, transfer, setBal, upd, hx, hpf, hfp]
      · simp [modAcct, transfer, setBal, upd, hx, hxp]
    · simp [modAcct, transfer, setBal, upd, hfp, hpf]; omega
    · simp [modAcct, transfer, setBal, upd, hfp, hpf, depOf]; exact ha
    · simp [modAcct, transfer, setBal, upd, hfp, hpf, depOf]; omega
    · simp [modAcct, transfer, setBal, upd, hfp, hpf]; omega
  · split at h; · cases h
    split at h; · cases h
    split at h
    · -- unregister
      have hI2 : Inv c.p.pool U (modAcct s fr (fun a => { a with isCand := 2, votes := 0 })) := by
        refine Inv_modAcct _ _ _ _ _ hI ?_ ?_ <;> intro _ <;> rfl
      split at h
      · injection h with h; subst h; exact hI2
      · split at h
        · injection h with h; subst h; exact hI2
        · injection h with h; subst h
          exact Inv_refund c U hn _ fr hI2 hf hfp
    · -- update
      split at h
      · split at h; · cases h
        rename_i hpos hbal
        split at h; · cases h
        rename_i old hold
        injection h with h; subst h
        have hd0 : 0 ≤ (s.accts fr).deposit.getD 0 := hI.dep fr
        rw [hold] at hd0
        simp only [Option.getD_some] at hd0
        have hpb := hI.bal c.p.pool
        apply Inv_step c.p.pool U hn s _ fr hf hfp hI
        · intro x hx hxp; simp [modAcct, transfer, setBal, upd, hx, hxp]
        · intro x hx
          by_cases hxp : x = c.p.pool
          · subst hxp; simp [modAcct, transfer, setBal, upd, hx, hpf, hfp]
          · simp [modAcct, transfer, setBal, upd, hx, hxp]
        · simp [modAcct, transfer, setBal, upd, hfp, hpf]; omega
        · simp [modAcct, transfer, setBal, upd, hfp, hpf, depOf]; omega
        · simp [modAcct, transfer, setBal, upd, hfp, hpf, depOf, hold]; omega
        · simp [modAcct, transfer, setBal, upd, hfp, hpf]; omega
      · injection h with h; subst h
        refine Inv_modAcct _ _ _ _ _ hI ?_ ?_ <;> intro _ <;> rfl

theorem body_inv (c : Ctx) (U : List Nat) (hn : U.Nodup) (s s' : St) (tx : Tx) (ib : Int) (hI : Inv c.p.pool U s)
    (hw : TxWf1 c.p.pool U tx) (h : body c s tx ib = .ok s') : Inv c.p.pool U s' := by
  obtain ⟨_, hsp, _, hsU, hk⟩ := hw
  unfold body at h
  cases hkind : tx.kind with
  | transfer to v =>
    simp only [hkind] at h hk
    split at h; · cases h
    rename_i hcov
    split at h
    · injection h with h; subst h; exact hI
    · injection h with h; subst h
      exact Inv_transfer _ _ _ _ _ _ hI hsp hk (by omega)
  | vote cand => simp only [hkind] at h; exact doVote_inv c U s s' _ _ _ hI h
  | register amt flag inc nd px =>
    simp only [hkind] at h hk
    exact doRegister_inv c U hn s s' _ _ _ _ _ _ hI hsU hsp hk h
  | setSigners tg l tok => simp only [hkind] at h; exact doSetSigners_inv _ U s s' _ _ _ _ hI h
  | box => simp [hkind] at h
  | other => simp [hkind] at h

/-- **applySimple_inv**: an included non-box tx keeps the invariant — in particular no balance becomes negative -/
theorem applySimple_inv (c : Ctx) (U : List Nat) (hn : U.Nodup) (s s' : St) (gp gp' g : Nat) (tx : Tx)
    (hI : Inv c.p.pool U s) (hw : TxWf1 c.p.pool U tx) (h : applySimple c s gp tx = .ok (s', gp', g)) :
    Inv c.p.pool U s' := by
  have hprice := hw.1
  have hpp := hw.2.2.1
  unfold applySimple at h
  simp only at h
  split at h; · cases h
  split at h; · cases h
  rename_i hfee
  split at h; · cases h
  split at h; · cases h
  split at h; · cases h
  split at h; · cases h
  rename_i sb hb
  injection h with h
  injection h with h1 _
  subst h1
  have h1 : Inv c.p.pool U (setBal s tx.payer ((s.accts tx.payer).bal - (tx.gasLimit : Int) * tx.gasPrice)) :=
    Inv_setBal _ _ _ _ _ hI (by omega) (fun e => absurd e hpp)
  have h2 := body_inv c U hn _ sb tx _ h1 hw hb
  apply Inv_credit _ _ _ _ _ h2
  exact Int.mul_nonneg (Int.natCast_nonneg _) hprice

theorem applySubs_inv (c : Ctx) (U : List Nat) (hn : U.Nodup) : ∀ (ts : List Tx) (s s' : St) (gp gp' g : Nat) (f : Int),
    Inv c.p.pool U s → (∀ t ∈ ts, TxWf1 c.p.pool U t) → applySubs c s gp ts = .ok (s', gp', g, f) →
    Inv c.p.pool U s' ∧ 0 ≤ f := by
  intro ts
  induction ts with
  | nil =>
    intro s s' gp gp' g f hI _ h
    simp only [applySubs] at h
    injection h with h; injection h with h1 h2; injection h2 with _ h3; injection h3 with _ h4
    subst h1 h4; exact ⟨hI, by omega⟩
  | cons t ts ih =>
    intro s s' gp gp' g f hI hw h
    simp only [applySubs] at h
    cases h1 : applySimple c s gp t with
    | error e => simp [h1] at h
    | ok r =>
      obtain ⟨s1, gp1, g1⟩ := r
      simp only [h1] at h
      have hI1 := applySimple_inv c U hn s s1 gp gp1 g1 t hI (hw t List.mem_cons_self) h1
      cases h2 : applySubs c s1 gp1 ts with
      | error e => simp [h2] at h
      | ok r2 =>
        obtain ⟨s2, gp2, g2, f2⟩ := r2
        simp only [h2] at h
        obtain ⟨hI2, hf2⟩ := ih s1 s2 gp1 gp2 g2 f2 hI1 (fun x hx => hw x (List.mem_cons_of_mem _ hx)) h2
        injection h with h; injection h with a1 a2; injection a2 with _ a3; injection a3 with _ a4
        subst a1 a4
        refine ⟨hI2, ?_⟩
        have := Int.mul_nonneg (Int.natCast_nonneg g1) (hw t List.mem_cons_self).1
        omega

theorem chargeForGas_inv (pool : Nat) (U : List Nat) (s : St) (m : Nat) (f : Int) (hI : Inv pool U s) (hf : 0 ≤ f) :
    Inv pool U (chargeForGas s m f) := by
  unfold chargeForGas
  split
  · exact hI
  · simp only
    split
    · exact hI
    · exact Inv_credit _ _ _ _ _ hI hf

/-- **applyTx_inv**: every included tx (boxes with their sub-txs included) keeps the invariant -/
theorem applyTx_inv (c : Ctx) (U : List Nat) (hn : U.Nodup) (s s' : St) (gp gp' g : Nat) (tx : Tx)
    (hI : Inv c.p.pool U s) (hw : TxWf c.p.pool U tx) (h : applyTx c s gp tx = .ok (s', gp', g)) :
    Inv c.p.pool U s' := by
  unfold applyTx at h
  split at h
  · have hprice := hw.1.1
    have hpp := hw.1.2.2.1
    simp only at h
    split at h; · cases h
    split at h; · cases h
    rename_i hfee
    split at h; · cases h
    split at h; · cases h
    split at h; · cases h
    split at h; · cases h
    rename_i s2 gp2 sg sf hsub
    injection h with h
    injection h with h1 _
    subst h1
    have h1 : Inv c.p.pool U (setBal s tx.payer ((s.accts tx.payer).bal - (tx.gasLimit : Int) * tx.gasPrice)) :=
      Inv_setBal _ _ _ _ _ hI (by omega) (fun e => absurd e hpp)
    obtain ⟨h2, hsf⟩ := applySubs_inv c U hn tx.subs _ s2 _ gp2 sg sf h1 hw.2 hsub
    apply Inv_credit _ _ _ _ _ (chargeForGas_inv _ _ _ _ _ h2 hsf)
    exact Int.mul_nonneg (Int.natCast_nonneg _) hprice
  · exact applySimple_inv c U hn s s' gp gp' g tx hI hw.1 h

/-- **mine_inv**: the miner path over any candidate list keeps the invariant, and the fee total is non-negative -/
theorem mine_inv (c : Ctx) (U : List Nat) (hn : U.Nodup) : ∀ (txs : List Tx) (s : St) (gp : Nat),
    Inv c.p.pool U s → (∀ t ∈ txs, TxWf c.p.pool U t) →
    Inv c.p.pool U (mine c s gp txs).st ∧ 0 ≤ (mine c s gp txs).fee := by
  intro txs
  induction txs with
  | nil => intro s gp hI _; simp only [mine]; exact ⟨hI, by omega⟩
  | cons t ts ih =>
    intro s gp hI hw
    have hw' : ∀ x ∈ ts, TxWf c.p.pool U x := fun x hx => hw x (List.mem_cons_of_mem _ hx)
    unfold mine
    by_cases hg : gp < LemoGen.Gas.OrdinaryTxGas
    · simp only [hg, if_true]; exact ⟨hI, by omega⟩
    · simp only [hg, if_false]
      cases ha : applyTx c s gp t with
      | error e =>
        obtain ⟨e, gp'⟩ := e
        simp only []
        exact ih s gp' hI hw'
      | ok r =>
        obtain ⟨s1, gp1, g1⟩ := r
        simp only []
        obtain ⟨h1, h2⟩ := ih s1 gp1 (applyTx_inv c U hn s s1 gp gp1 g1 t hI (hw t List.mem_cons_self) ha) hw'
        refine ⟨h1, ?_⟩
        have := Int.mul_nonneg (Int.natCast_nonneg g1) (hw t List.mem_cons_self).1.1
        omega

/-! ### Finalize -/

theorem Inv_paySalaries (pool : Nat) (U : List Nat) : ∀ (l : List (Nat × Int)) (s : St), Inv pool U s →
    (∀ q ∈ l, 0 ≤ q.2) → Inv pool U (paySalaries s l) := by
  intro l
  induction l with
  | nil => intro s h _; exact h
  | cons q r ih =>
    intro s hI h
    obtain ⟨a, v⟩ := q
    simp only [paySalaries]
    exact ih _ (Inv_credit _ _ _ _ _ hI (h (a, v) List.mem_cons_self)) (fun x hx => h x (List.mem_cons_of_mem _ hx))

/-- the reward facts `Finalize` can meet: precision > 0, no negative votes in a term record, the refund list names
    accounts of the universe other than the pool -/
def RewardWf (c : Ctx) (U : List Nat) : Prop :=
  0 < c.p.rewardPrecision ∧ (∀ n ∈ c.rf.nodes, 0 ≤ n.2) ∧ (∀ a ∈ c.rf.refunds, a ∈ U ∧ a ≠ c.p.pool)

theorem rewardSteps_inv (c : Ctx) (U : List Nat) (hn : U.Nodup) (s : St) (hI : Inv c.p.pool U s) (hw : RewardWf c U) :
    Inv c.p.pool U (rewardSteps c s) := by
  obtain ⟨hp, hv, hr⟩ := hw
  unfold rewardSteps
  split
  · apply Inv_refundAll c U hn _ _ _ hr
    unfold issueTermReward
    split
    · rename_i ht
      apply Inv_paySalaries _ _ _ _ hI
      intro q hq
      unfold divideSalary at hq
      obtain ⟨n, hn', rfl⟩ := List.mem_map.mp hq
      simp only
      apply calcSalary_nonneg c.p hp
      have hnn : 0 ≤ totalVotes c.rf.nodes := by
        unfold totalVotes
        exact sum_nonneg (fun n : Nat × Int => n.2) _ hv
      split
      · exact Int.ediv_nonneg (Int.le_of_lt ht) (by omega)
      · exact Int.ediv_nonneg (Int.mul_nonneg (Int.le_of_lt ht) (hv n hn')) hnn
    · exact hI
  · exact hI

theorem votesByBalance_deposit (c : Ctx) (start : Nat → Int) : ∀ (l : List Nat) (s : St) (x : Nat),
    ((votesByBalance c start s l).accts x).deposit = (s.accts x).deposit ∧
    ((votesByBalance c start s l).accts x).bal = (s.accts x).bal := by
  intro l
  induction l with
  | nil => intro s x; exact ⟨rfl, rfl⟩
  | cons a as ih =>
    intro s x
    unfold votesByBalance
    simp only
    rw [(ih _ x).1, (ih _ x).2]
    split
    · simp only [upd]
      split
      · rename_i hx; rw [hx]; exact ⟨rfl, rfl⟩
      · exact ⟨rfl, rfl⟩
    · exact ⟨rfl, rfl⟩

theorem finalize_inv (c : Ctx) (U : List Nat) (hn : U.Nodup) (start : Nat → Int) (s : St) (addrs : List Nat)
    (hI : Inv c.p.pool U s) (hw : RewardWf c U) : Inv c.p.pool U (finalize c start s addrs) := by
  unfold finalize
  split
  · exact Inv_congr _ _ _ _ (rewardSteps_inv c U hn s hI hw)
      (fun x => (votesByBalance_deposit c start addrs _ x).2) (fun x => (votesByBalance_deposit c start addrs _ x).1)
  · apply rewardSteps_inv c U hn _ _ hw
    exact Inv_congr _ _ _ _ hI
      (fun x => (votesByBalance_deposit c start addrs _ x).2) (fun x => (votesByBalance_deposit c start addrs _ x).1)

/-- **mineBlock_inv**: a whole block — candidate list of admitted txs, any gas limit, the miner's fee, Finalize with term
    reward and refunds at a reward height — keeps the ledger invariant. -/
theorem mineBlock_inv (c : Ctx) (U : List Nat) (hn : U.Nodup) (s : St) (gp : Nat) (txs : List Tx) (addrs : List Nat)
    (hI : Inv c.p.pool U s) (hw : ∀ t ∈ txs, TxWf c.p.pool U t) (hr : RewardWf c U) :
    Inv c.p.pool U (mineBlock c s gp txs addrs).1 := by
  obtain ⟨h1, h2⟩ := mine_inv c U hn txs s gp hI hw
  unfold mineBlock
  simp only
  exact finalize_inv c U hn _ _ addrs (chargeForGas_inv _ _ _ _ _ h1 h2) hr

/-! ### when does the refund loop panic? (order independence of the panic) -/

/-- all listed accounts have a (non-negative) deposit record and are not the pool -/
def RefundListOk (c : Ctx) (s : St) (l : List Nat) : Prop :=
  l.Nodup ∧ ∀ a ∈ l, a ≠ c.p.pool ∧ ∃ d, (s.accts a).deposit = some d ∧ 0 ≤ d

theorem refund_pool_bal (c : Ctx) (s : St) (a : Nat) (d : Int) (hd : (s.accts a).deposit = some d) (hap : a ≠ c.p.pool) :
    ((refund c s a).accts c.p.pool).bal = (s.accts c.p.pool).bal - d := by
  rw [refund_accts c s a d hd]; unfold refundAcct; simp [Ne.symm hap]

/-- **refundPanics_iff**: for a duplicate-free refund list of accounts with recorded non-negative deposits, `Finalize`
    panics in the refund loop iff the pool does not cover the SUM of the listed deposits — whatever the order. -/
theorem refundPanics_iff (c : Ctx) : ∀ (l : List Nat) (s : St), RefundListOk c s l → 0 ≤ (s.accts c.p.pool).bal →
    refundPanics c s l = decide ((s.accts c.p.pool).bal < sumDep s l) := by
  intro l
  induction l with
  | nil => intro s _ hp; simp [refundPanics, sumDep]; exact hp
  | cons a as ih =>
    intro s ⟨hnd, hall⟩ hp0
    obtain ⟨hna, hnd'⟩ := List.nodup_cons.mp hnd
    obtain ⟨hap, d, hd, hd0⟩ := hall a List.mem_cons_self
    have hok' : RefundListOk c (refund c s a) as := by
      refine ⟨hnd', fun x hx => ?_⟩
      obtain ⟨hxp, dx, hdx, hdx0⟩ := hall x (List.mem_cons_of_mem _ hx)
      have hxa : x ≠ a := fun e => hna (e ▸ hx)
      exact ⟨hxp, dx, by rw [refund_deposit_other c s a x hxa]; exact hdx, hdx0⟩
    have hsum : sumDep (refund c s a) as = sumDep s as := by
      apply sumDep_congr
      intro x hx
      have hxa : x ≠ a := fun e => hna (e ▸ hx)
      unfold depOf; rw [refund_deposit_other c s a x hxa]
    have hnn : 0 ≤ sumDep s as := by
      unfold sumDep
      apply sum_nonneg
      intro x hx
      obtain ⟨_, dx, hdx, hdx0⟩ := hall x (List.mem_cons_of_mem _ hx)
      unfold depOf; rw [hdx]; exact hdx0
    simp only [refundPanics, hd]
    have hda : depOf (s.accts a) = d := by unfold depOf; rw [hd]; rfl
    rw [sumDep_cons, hda]
    by_cases h1 : (s.accts c.p.pool).bal < d
    · have : (s.accts c.p.pool).bal < d + sumDep s as := by omega
      simp [h1, this]
    · rw [ih _ hok' (by rw [refund_pool_bal c s a d hd hap]; omega), hsum, refund_pool_bal c s a d hd hap]
      by_cases h2 : (s.accts c.p.pool).bal - d < sumDep s as
      · have : (s.accts c.p.pool).bal < d + sumDep s as := by omega
        simp [h1, h2, this]
      · have : ¬ (s.accts c.p.pool).bal < d + sumDep s as := by omega
        simp [h1, h2, this]

theorem sumDep_perm (s : St) (l1 l2 : List Nat) (h : l1.Perm l2) : sumDep s l1 = sumDep s l2 := by
  induction h with
  | nil => rfl
  | cons x _ ih => rw [sumDep_cons, sumDep_cons, ih]
  | swap x y l => rw [sumDep_cons, sumDep_cons, sumDep_cons, sumDep_cons]; omega
  | trans _ _ ih1 ih2 => rw [ih1, ih2]

/-- **refundPanics_perm**: whether the refund loop panics does not depend on the order of the list either -/
theorem refundPanics_perm (c : Ctx) (s : St) (l1 l2 : List Nat) (h : l1.Perm l2) (hok : RefundListOk c s l1)
    (hp : 0 ≤ (s.accts c.p.pool).bal) : refundPanics c s l1 = refundPanics c s l2 := by
  have hok2 : RefundListOk c s l2 := ⟨h.nodup_iff.mp hok.1, fun a ha => hok.2 a (h.mem_iff.mpr ha)⟩
  rw [refundPanics_iff c l1 s hok hp, refundPanics_iff c l2 s hok2 hp, sumDep_perm s l1 l2 h]

end LemoProofs.LedgerNonNeg

/-
  Helper lemmas for the reward-block part of `LemoModel.Ledger.finalize` (C01 / C05 / C11):
  what `paySalaries`, `refund`, `refundAll`, `issueTermReward`, `rewardSteps` change and what they leave alone,
  and the arithmetic of `calcSalary` / `divideSalary`.
-/
import LemoProofs.Lemmas.LedgerSum
namespace LemoProofs.LedgerReward
open LemoModel.Ledger LemoProofs.LedgerSum

/-! ### frame: the fields other than the balance -/

/-- the part of an account the reward steps never touch -/
def sameButBalDep (a b : Acct) : Prop :=
  a.voteFor = b.voteFor ∧ a.votes = b.votes ∧ a.isCand = b.isCand ∧ a.income = b.income ∧
  a.isDeputy = b.isDeputy ∧ a.signers = b.signers

theorem sameButBalDep_refl (a : Acct) : sameButBalDep a a := ⟨rfl, rfl, rfl, rfl, rfl, rfl⟩

theorem sameButBalDep_trans {a b c : Acct} (h1 : sameButBalDep a b) (h2 : sameButBalDep b c) : sameButBalDep a c :=
  ⟨h1.1.trans h2.1, h1.2.1.trans h2.2.1, h1.2.2.1.trans h2.2.2.1, h1.2.2.2.1.trans h2.2.2.2.1,
   h1.2.2.2.2.1.trans h2.2.2.2.2.1, h1.2.2.2.2.2.trans h2.2.2.2.2.2⟩

theorem setBal_frame (s : St) (a : Nat) (v : Int) (x : Nat) :
    sameButBalDep ((setBal s a v).accts x) (s.accts x) ∧ ((setBal s a v).accts x).deposit = (s.accts x).deposit := by
  unfold setBal upd sameButBalDep
  by_cases h : x = a
  · subst h; simp
  · simp [h]

/-- everything but the balance -/
def sameButBal (a b : Acct) : Prop := sameButBalDep a b ∧ a.deposit = b.deposit

theorem sameButBal_refl (a : Acct) : sameButBal a a := ⟨sameButBalDep_refl a, rfl⟩

theorem sameButBal_trans {a b c : Acct} (h1 : sameButBal a b) (h2 : sameButBal b c) : sameButBal a c :=
  ⟨sameButBalDep_trans h1.1 h2.1, h1.2.trans h2.2⟩

theorem setBal_sameButBal (s : St) (a : Nat) (v : Int) (x : Nat) : sameButBal ((setBal s a v).accts x) (s.accts x) :=
  setBal_frame s a v x

theorem transfer_sameButBal (s : St) (a b : Nat) (v : Int) (x : Nat) : sameButBal ((transfer s a b v).accts x) (s.accts x) := by
  unfold transfer
  exact sameButBal_trans (setBal_sameButBal _ _ _ x) (setBal_sameButBal _ _ _ x)

theorem chargeForGas_sameButBal (s : St) (m : Nat) (f : Int) (x : Nat) : sameButBal ((chargeForGas s m f).accts x) (s.accts x) := by
  unfold chargeForGas
  split
  · exact sameButBal_refl _
  · simp only
    split
    · exact sameButBal_refl _
    · exact setBal_sameButBal _ _ _ x

theorem refund_frame (c : Ctx) (s : St) (a x : Nat) : sameButBalDep ((refund c s a).accts x) (s.accts x) := by
  unfold refund
  split
  · exact sameButBalDep_refl _
  · rename_i d _
    simp only
    have h1 := (setBal_frame s c.p.pool ((s.accts c.p.pool).bal - d) x).1
    have h2 := (setBal_frame (setBal s c.p.pool ((s.accts c.p.pool).bal - d)) a
      (((setBal s c.p.pool ((s.accts c.p.pool).bal - d)).accts a).bal + d) x).1
    refine sameButBalDep_trans ?_ (sameButBalDep_trans h2 h1)
    unfold modAcct upd sameButBalDep
    by_cases h : x = a
    · subst h; simp
    · simp [h]

/-- a refund clears the deposit of the refunded account only -/
theorem refund_deposit_other (c : Ctx) (s : St) (a x : Nat) (h : x ≠ a) :
    ((refund c s a).accts x).deposit = (s.accts x).deposit := by
  unfold refund
  split
  · rfl
  · rename_i d _
    simp only
    have h1 := (setBal_frame s c.p.pool ((s.accts c.p.pool).bal - d) x).2
    have h2 := (setBal_frame (setBal s c.p.pool ((s.accts c.p.pool).bal - d)) a
      (((setBal s c.p.pool ((s.accts c.p.pool).bal - d)).accts a).bal + d) x).2
    rw [← h1, ← h2]
    unfold modAcct upd
    simp [h]

theorem refundAll_frame (c : Ctx) : ∀ (l : List Nat) (s : St) (x : Nat),
    sameButBalDep ((refundAll c s l).accts x) (s.accts x) := by
  intro l
  induction l with
  | nil => intro s x; exact sameButBalDep_refl _
  | cons a as ih =>
    intro s x
    simp only [refundAll]
    exact sameButBalDep_trans (ih (refund c s a) x) (refund_frame c s a x)

theorem refundAll_deposit_other (c : Ctx) : ∀ (l : List Nat) (s : St) (x : Nat), x ∉ l →
    ((refundAll c s l).accts x).deposit = (s.accts x).deposit := by
  intro l
  induction l with
  | nil => intro s x _; rfl
  | cons a as ih =>
    intro s x hx
    simp only [refundAll]
    have hxa : x ≠ a := fun e => hx (by rw [e]; exact List.mem_cons_self)
    rw [ih (refund c s a) x (fun h => hx (List.mem_cons_of_mem _ h)), refund_deposit_other c s a x hxa]

theorem paySalaries_frame : ∀ (l : List (Nat × Int)) (s : St) (x : Nat),
    sameButBalDep ((paySalaries s l).accts x) (s.accts x) ∧ ((paySalaries s l).accts x).deposit = (s.accts x).deposit := by
  intro l
  induction l with
  | nil => intro s x; exact ⟨sameButBalDep_refl _, rfl⟩
  | cons p r ih =>
    intro s x
    obtain ⟨a, v⟩ := p
    simp only [paySalaries]
    have h1 := ih (setBal s a ((s.accts a).bal + v)) x
    have h2 := setBal_frame s a ((s.accts a).bal + v) x
    exact ⟨sameButBalDep_trans h1.1 h2.1, h1.2.trans h2.2⟩

theorem issueTermReward_frame (c : Ctx) (s : St) (x : Nat) :
    sameButBalDep ((issueTermReward c s).accts x) (s.accts x) ∧ ((issueTermReward c s).accts x).deposit = (s.accts x).deposit := by
  unfold issueTermReward
  split
  · exact paySalaries_frame _ s x
  · exact ⟨sameButBalDep_refl _, rfl⟩

/-- **rewardSteps_frame**: term reward and refunds change balances and the deposit entry of the refunded accounts —
    nobody's voteFor, votes, candidacy, income address or signers. -/
theorem rewardSteps_frame (c : Ctx) (s : St) (x : Nat) : sameButBalDep ((rewardSteps c s).accts x) (s.accts x) := by
  unfold rewardSteps
  split
  · exact sameButBalDep_trans (refundAll_frame c _ _ x) (issueTermReward_frame c s x).1
  · exact sameButBalDep_refl _

theorem rewardSteps_deposit_other (c : Ctx) (s : St) (x : Nat) (hx : x ∉ c.rf.refunds) :
    ((rewardSteps c s).accts x).deposit = (s.accts x).deposit := by
  unfold rewardSteps
  split
  · rw [refundAll_deposit_other c _ _ x hx, (issueTermReward_frame c s x).2]
  · rfl

/-! ### sums of balances -/

def salarySum (l : List (Nat × Int)) : Int := (l.map (·.2)).sum

theorem paySalaries_sum (U : List Nat) (hn : U.Nodup) : ∀ (l : List (Nat × Int)) (s : St), (∀ p ∈ l, p.1 ∈ U) →
    sumBal (paySalaries s l) U = sumBal s U + salarySum l := by
  intro l
  induction l with
  | nil => intro s _; simp [paySalaries, salarySum]
  | cons p r ih =>
    intro s h
    obtain ⟨a, v⟩ := p
    have ha : a ∈ U := h (a, v) List.mem_cons_self
    simp only [paySalaries]
    rw [ih _ (fun q hq => h q (List.mem_cons_of_mem _ hq)), sumBal_setBal s a _ U hn ha]
    simp only [salarySum, List.map_cons, List.sum_cons]
    omega

theorem refund_sum (c : Ctx) (s : St) (cand : Nat) (U : List Nat) (hn : U.Nodup)
    (hc : cand ∈ U) (hp : c.p.pool ∈ U) : sumBal (refund c s cand) U = sumBal s U := by
  unfold refund
  split
  · rfl
  · rename_i d _
    simp only
    rw [sumBal_modAcct _ _ _ (by intro _; rfl), sumBal_setBal _ cand _ U hn hc, sumBal_setBal s c.p.pool _ U hn hp]
    by_cases e : cand = c.p.pool
    · rw [e, setBal_bal, if_pos rfl]; omega
    · rw [setBal_bal, if_neg e]; omega

theorem refundAll_sum (c : Ctx) (U : List Nat) (hn : U.Nodup) (hp : c.p.pool ∈ U) : ∀ (l : List Nat) (s : St),
    (∀ a ∈ l, a ∈ U) → sumBal (refundAll c s l) U = sumBal s U := by
  intro l
  induction l with
  | nil => intro s _; rfl
  | cons a as ih =>
    intro s h
    simp only [refundAll]
    rw [ih _ (fun x hx => h x (List.mem_cons_of_mem _ hx)), refund_sum c s a U hn (h a List.mem_cons_self) hp]

/-- the salaries of `DivideSalary` do not depend on the state (only the receivers do) -/
def salaryTotal (p : Params) (total : Int) (nodes : List (Nat × Int)) : Int :=
  (nodes.map fun n => calcSalary p total n.2 (totalVotes nodes) nodes.length).sum

theorem salarySum_divideSalary (p : Params) (s : St) (total : Int) (nodes : List (Nat × Int)) :
    salarySum (divideSalary p s total nodes) = salaryTotal p total nodes := by
  unfold salarySum divideSalary salaryTotal
  rw [List.map_map]
  rfl

/-- what a block mints: the salaries of a reward block with a positive term reward, nothing otherwise -/
def minted (c : Ctx) : Int :=
  if isRewardBlock c = true ∧ c.rf.total > 0 then salaryTotal c.p c.rf.total c.rf.nodes else 0

/-- **rewardSteps_sum**: `issueTermReward` + `refundCandidateDeposit` change the total of all balances by exactly
    the salaries paid: the refunds move deposit pool → candidate and cancel out. -/
theorem rewardSteps_sum (c : Ctx) (s : St) (U : List Nat) (hn : U.Nodup) (hp : c.p.pool ∈ U)
    (hrecv : ∀ n ∈ c.rf.nodes, incomeOf s n.1 ∈ U) (href : ∀ a ∈ c.rf.refunds, a ∈ U) :
    sumBal (rewardSteps c s) U = sumBal s U + minted c := by
  unfold rewardSteps minted
  by_cases hr : isRewardBlock c = true
  · rw [if_pos hr, refundAll_sum c U hn hp _ _ href]
    unfold issueTermReward
    by_cases ht : c.rf.total > 0
    · rw [if_pos ht, if_pos ⟨hr, ht⟩, paySalaries_sum U hn _ s, salarySum_divideSalary]
      intro q hq
      unfold divideSalary at hq
      obtain ⟨n, hn', rfl⟩ := List.mem_map.mp hq
      exact hrecv n hn'
    · rw [if_neg ht, if_neg (fun h => ht h.2)]; omega
  · rw [if_neg hr, if_neg (fun h => hr h.1)]; omega

/-! ### the arithmetic of `calcSalary` -/

theorem calcSalary_le_raw (p : Params) (hp : 0 < p.rewardPrecision) (total votes tv : Int) (n : Nat) :
    calcSalary p total votes tv n ≤ (if tv = 0 then total / (n : Int) else total * votes / tv) := by
  unfold calcSalary
  simp only
  have := Int.emod_nonneg (if tv = 0 then total / (n : Int) else total * votes / tv) (Int.ne_of_gt hp)
  omega

theorem calcSalary_nonneg (p : Params) (hp : 0 < p.rewardPrecision) (total votes tv : Int) (n : Nat)
    (hr : 0 ≤ (if tv = 0 then total / (n : Int) else total * votes / tv)) :
    0 ≤ calcSalary p total votes tv n := by
  unfold calcSalary
  simp only
  generalize (if tv = 0 then total / (n : Int) else total * votes / tv) = r at hr ⊢
  have h1 := Int.emod_def r p.rewardPrecision
  have h2 := Int.ediv_nonneg hr (Int.le_of_lt hp)
  have h3 : 0 ≤ p.rewardPrecision * (r / p.rewardPrecision) := Int.mul_nonneg (Int.le_of_lt hp) h2
  omega

/-- Σ ⌊total·vᵢ/tv⌋ · tv ≤ total · Σ vᵢ -/
theorem floorShares_le (total tv : Int) (htv : 0 < tv) : ∀ l : List (Nat × Int),
    (l.map fun n => total * n.2 / tv).sum * tv ≤ total * (l.map (·.2)).sum := by
  intro l
  induction l with
  | nil => simp
  | cons n r ih =>
    simp only [List.map_cons, List.sum_cons]
    rw [Int.add_mul, Int.mul_add]
    have h1 : total * n.2 / tv * tv ≤ total * n.2 := Int.ediv_mul_le _ (Int.ne_of_gt htv)
    omega

theorem sum_le_sum {α : Type} (f g : α → Int) : ∀ l : List α, (∀ x ∈ l, f x ≤ g x) → (l.map f).sum ≤ (l.map g).sum := by
  intro l
  induction l with
  | nil => intro _; simp
  | cons a r ih =>
    intro h
    simp only [List.map_cons, List.sum_cons]
    have := h a List.mem_cons_self
    have := ih (fun x hx => h x (List.mem_cons_of_mem _ hx))
    omega

theorem sum_const {α : Type} (k : Int) : ∀ l : List α, (l.map fun _ => k).sum = (l.length : Int) * k := by
  intro l
  induction l with
  | nil => simp
  | cons a r ih =>
    simp only [List.map_cons, List.sum_cons, List.length_cons, ih]
    rw [show ((r.length + 1 : Nat) : Int) = (r.length : Int) + 1 by omega, Int.add_mul]
    omega

theorem sum_nonneg {α : Type} (f : α → Int) : ∀ l : List α, (∀ x ∈ l, 0 ≤ f x) → 0 ≤ (l.map f).sum := by
  intro l
  induction l with
  | nil => intro _; simp
  | cons a r ih =>
    intro h
    simp only [List.map_cons, List.sum_cons]
    have := h a List.mem_cons_self
    have := ih (fun x hx => h x (List.mem_cons_of_mem _ hx))
    omega

/-- **salaryTotal_le_total**: the salaries never add up to more than the term reward (non-negative reward and votes,
    positive precision). What is lost to the two roundings (⌊·⌋ of the share, then down to a multiple of the
    precision) is simply not issued: no account receives it. -/
theorem salaryTotal_le_total (p : Params) (hp : 0 < p.rewardPrecision) (total : Int) (ht : 0 ≤ total)
    (nodes : List (Nat × Int)) (hv : ∀ n ∈ nodes, 0 ≤ n.2) : salaryTotal p total nodes ≤ total := by
  unfold salaryTotal
  by_cases htv : totalVotes nodes = 0
  · -- equal shares ⌊total/n⌋
    have h1 : (nodes.map fun n => calcSalary p total n.2 (totalVotes nodes) nodes.length).sum ≤
        (nodes.map fun _ => total / (nodes.length : Int)).sum := by
      apply sum_le_sum
      intro n _
      have := calcSalary_le_raw p hp total n.2 (totalVotes nodes) nodes.length
      rw [if_pos htv] at this
      exact this
    rw [sum_const] at h1
    cases hl : nodes.length with
    | zero => rw [hl] at h1; simp at h1; omega
    | succ k =>
      rw [hl] at h1
      have hk : (0 : Int) < ((k + 1 : Nat) : Int) := by omega
      have h2 : total / ((k + 1 : Nat) : Int) * ((k + 1 : Nat) : Int) ≤ total := Int.ediv_mul_le _ (Int.ne_of_gt hk)
      rw [Int.mul_comm] at h1
      omega
  · have hnn : 0 ≤ totalVotes nodes := by
      unfold totalVotes
      exact sum_nonneg (·.2) nodes hv
    have hpos : 0 < totalVotes nodes := by omega
    have h1 : (nodes.map fun n => calcSalary p total n.2 (totalVotes nodes) nodes.length).sum ≤
        (nodes.map fun n => total * n.2 / totalVotes nodes).sum := by
      apply sum_le_sum
      intro n _
      have := calcSalary_le_raw p hp total n.2 (totalVotes nodes) nodes.length
      rw [if_neg htv] at this
      exact this
    have h2 := floorShares_le total (totalVotes nodes) hpos nodes
    have h3 : (nodes.map (·.2)).sum = totalVotes nodes := rfl
    rw [h3] at h2
    have h4 : (nodes.map fun n => total * n.2 / totalVotes nodes).sum ≤ total :=
      Int.le_of_mul_le_mul_right h2 hpos
    omega

theorem salaryTotal_nonneg (p : Params) (hp : 0 < p.rewardPrecision) (total : Int) (ht : 0 ≤ total)
    (nodes : List (Nat × Int)) (hv : ∀ n ∈ nodes, 0 ≤ n.2) : 0 ≤ salaryTotal p total nodes := by
  unfold salaryTotal
  apply sum_nonneg
  intro n hn
  apply calcSalary_nonneg p hp
  have hnn : 0 ≤ totalVotes nodes := by
    unfold totalVotes
    exact sum_nonneg (·.2) nodes hv
  split
  · exact Int.ediv_nonneg ht (by omega)
  · rename_i htv
    exact Int.ediv_nonneg (Int.mul_nonneg ht (hv n hn)) hnn

/-! ### how much the roundings can withhold -/

theorem calcSalary_ge_raw (p : Params) (hp : 0 < p.rewardPrecision) (total votes tv : Int) (n : Nat) :
    (if tv = 0 then total / (n : Int) else total * votes / tv) - (p.rewardPrecision - 1) ≤ calcSalary p total votes tv n := by
  unfold calcSalary
  simp only
  have := Int.emod_lt_of_pos (if tv = 0 then total / (n : Int) else total * votes / tv) hp
  omega

/-- total·Σvᵢ + n ≤ (Σ⌊total·vᵢ/tv⌋ + n)·tv -/
theorem floorShares_ge (total tv : Int) (htv : 0 < tv) : ∀ l : List (Nat × Int),
    total * (l.map (·.2)).sum + (l.length : Int) ≤ ((l.map fun n => total * n.2 / tv).sum + (l.length : Int)) * tv := by
  intro l
  induction l with
  | nil => simp
  | cons n r ih =>
    simp only [List.map_cons, List.sum_cons, List.length_cons]
    have h1 : total * n.2 < (total * n.2 / tv + 1) * tv := Int.lt_ediv_add_one_mul_self _ htv
    have e1 : ((r.length + 1 : Nat) : Int) = (r.length : Int) + 1 := by omega
    rw [e1, Int.mul_add]
    have e2 : (total * n.2 / tv + (r.map fun n => total * n.2 / tv).sum + ((r.length : Int) + 1)) * tv =
        (total * n.2 / tv + 1) * tv + ((r.map fun n => total * n.2 / tv).sum + (r.length : Int)) * tv := by
      rw [← Int.add_mul]; congr 1; omega
    rw [e2]
    omega

theorem sum_sub_const {α : Type} (f : α → Int) (k : Int) : ∀ l : List α,
    (l.map fun x => f x - k).sum = (l.map f).sum - (l.length : Int) * k := by
  intro l
  induction l with
  | nil => simp
  | cons a r ih =>
    simp only [List.map_cons, List.sum_cons, List.length_cons, ih]
    rw [show ((r.length + 1 : Nat) : Int) = (r.length : Int) + 1 by omega, Int.add_mul]
    omega

/-- **salaryTotal_gt**: the two roundings withhold less than one precision unit (1 LEMO) per node of the term:
    term reward − n · precision < Σ salaries. -/
theorem salaryTotal_gt (p : Params) (hp : 0 < p.rewardPrecision) (total : Int)
    (nodes : List (Nat × Int)) (hne : nodes ≠ []) (hv : ∀ n ∈ nodes, 0 ≤ n.2) :
    total - (nodes.length : Int) * p.rewardPrecision < salaryTotal p total nodes := by
  have hlen : 0 < (nodes.length : Int) := by
    cases nodes with
    | nil => exact absurd rfl hne
    | cons _ _ => simp only [List.length_cons]; omega
  unfold salaryTotal
  by_cases htv : totalVotes nodes = 0
  · have h1 : (nodes.map fun _ => total / (nodes.length : Int) - (p.rewardPrecision - 1)).sum ≤
        (nodes.map fun n => calcSalary p total n.2 (totalVotes nodes) nodes.length).sum := by
      apply sum_le_sum
      intro n _
      have := calcSalary_ge_raw p hp total n.2 (totalVotes nodes) nodes.length
      rw [if_pos htv] at this
      exact this
    rw [sum_const] at h1
    have h2 : total < (total / (nodes.length : Int) + 1) * (nodes.length : Int) := Int.lt_ediv_add_one_mul_self _ hlen
    rw [Int.add_mul] at h2
    have e : (nodes.length : Int) * (total / (nodes.length : Int) - (p.rewardPrecision - 1)) =
        total / (nodes.length : Int) * (nodes.length : Int) - (nodes.length : Int) * p.rewardPrecision + (nodes.length : Int) := by
      rw [Int.mul_sub, Int.mul_sub, Int.mul_comm]; omega
    rw [e] at h1
    omega
  · have hnn : 0 ≤ totalVotes nodes := by
      unfold totalVotes
      exact sum_nonneg (·.2) nodes hv
    have hpos : 0 < totalVotes nodes := by omega
    have h1 : (nodes.map fun n => total * n.2 / totalVotes nodes - (p.rewardPrecision - 1)).sum ≤
        (nodes.map fun n => calcSalary p total n.2 (totalVotes nodes) nodes.length).sum := by
      apply sum_le_sum
      intro n _
      have := calcSalary_ge_raw p hp total n.2 (totalVotes nodes) nodes.length
      rw [if_neg htv] at this
      exact this
    rw [sum_sub_const (fun n : Nat × Int => total * n.2 / totalVotes nodes) (p.rewardPrecision - 1) nodes] at h1
    have h2 := floorShares_ge total (totalVotes nodes) hpos nodes
    have h3 : (nodes.map (·.2)).sum = totalVotes nodes := rfl
    rw [h3] at h2
    have h4 : total * totalVotes nodes <
        ((nodes.map fun n => total * n.2 / totalVotes nodes).sum + (nodes.length : Int)) * totalVotes nodes := by omega
    have h5 : total < (nodes.map fun n => total * n.2 / totalVotes nodes).sum + (nodes.length : Int) :=
      Int.lt_of_mul_lt_mul_right h4 (Int.le_of_lt hpos)
    have e : (nodes.length : Int) * (p.rewardPrecision - 1) = (nodes.length : Int) * p.rewardPrecision - (nodes.length : Int) := by
      rw [Int.mul_sub]; omega
    rw [e] at h1
    omega

/-! ### the order of the refunds is irrelevant -/

/-- what `Refund` of `a` with deposit `d` does to account `x` -/
def refundAcct (pool a : Nat) (d : Int) (x : Nat) (acc : Acct) : Acct :=
  { acc with bal := acc.bal - (if x = pool then d else 0) + (if x = a then d else 0),
             deposit := if x = a then none else acc.deposit }

theorem refund_accts (c : Ctx) (s : St) (a : Nat) (d : Int) (h : (s.accts a).deposit = some d) (x : Nat) :
    (refund c s a).accts x = refundAcct c.p.pool a d x (s.accts x) := by
  unfold refund refundAcct
  rw [h]
  simp only [modAcct, setBal, upd]
  by_cases hxa : x = a
  · subst hxa
    by_cases hxp : x = c.p.pool
    · simp [hxp]
    · simp [hxp]
  · by_cases hxp : x = c.p.pool
    · subst hxp
      simp [hxa]
    · simp [hxa, hxp]

theorem refund_none (c : Ctx) (s : St) (a : Nat) (h : (s.accts a).deposit = none) : refund c s a = s := by
  unfold refund; rw [h]

theorem St_ext (s t : St) (h : ∀ x, s.accts x = t.accts x) : s = t := by
  cases s; cases t
  simp only [St.mk.injEq]
  funext x; exact h x

theorem refundAcct_comm (pool a b : Nat) (da db : Int) (x : Nat) (acc : Acct) :
    refundAcct pool a da x (refundAcct pool b db x acc) = refundAcct pool b db x (refundAcct pool a da x acc) := by
  unfold refundAcct
  simp only [Acct.mk.injEq, true_and, and_true]
  constructor
  · omega
  · by_cases h1 : x = a <;> by_cases h2 : x = b <;> simp [h1, h2]

/-- two refunds commute: the order in which `refundCandidateDeposit` walks the list (it comes out of a Go map) is irrelevant -/
theorem refund_comm (c : Ctx) (s : St) (a b : Nat) :
    refund c (refund c s b) a = refund c (refund c s a) b := by
  by_cases hab : a = b
  · subst hab; rfl
  · have hba : b ≠ a := fun e => hab e.symm
    have dA := refund_deposit_other c s b a hab
    have dB := refund_deposit_other c s a b hba
    cases ha : (s.accts a).deposit with
    | none =>
      rw [ha] at dA
      rw [refund_none c (refund c s b) a dA, refund_none c s a ha]
    | some da =>
      cases hb : (s.accts b).deposit with
      | none =>
        rw [hb] at dB
        rw [refund_none c s b hb, refund_none c (refund c s a) b dB]
      | some db =>
        rw [ha] at dA; rw [hb] at dB
        apply St_ext
        intro x
        rw [refund_accts c _ a da dA, refund_accts c s b db hb, refund_accts c _ b db dB, refund_accts c s a da ha]
        exact refundAcct_comm _ _ _ _ _ _ _

/-- `Refund` reads the context only for the deposit pool's address -/
theorem refundAll_ctx (c c' : Ctx) (h : c.p.pool = c'.p.pool) : ∀ (l : List Nat) (s : St),
    refundAll c s l = refundAll c' s l := by
  intro l
  induction l with
  | nil => intro s; rfl
  | cons a as ih =>
    intro s
    simp only [refundAll]
    have : refund c s a = refund c' s a := by unfold refund; rw [h]
    rw [this, ih]

theorem refundAll_eq_foldl (c : Ctx) : ∀ (l : List Nat) (s : St), refundAll c s l = l.foldl (refund c) s := by
  intro l
  induction l with
  | nil => intro s; rfl
  | cons a as ih => intro s; simp only [refundAll, List.foldl_cons]; exact ih _

theorem refundAll_perm (c : Ctx) (l1 l2 : List Nat) (h : l1.Perm l2) : ∀ s, refundAll c s l1 = refundAll c s l2 := by
  intro s
  rw [refundAll_eq_foldl, refundAll_eq_foldl]
  induction h generalizing s with
  | nil => rfl
  | cons x _ ih => simp only [List.foldl_cons]; exact ih _
  | swap x y l => simp only [List.foldl_cons]; rw [refund_comm]
  | trans _ _ ih1 ih2 => rw [ih1, ih2]

end LemoProofs.LedgerReward

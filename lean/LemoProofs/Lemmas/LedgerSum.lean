/-
  Helper lemmas for C05: sums of balances over a duplicate-free list of addresses.
-/
import LemoModel.Ledger
namespace LemoProofs.LedgerSum
open LemoModel.Ledger

theorem sumBal_nil (s : St) : sumBal s [] = 0 := by simp [sumBal]

theorem sumBal_cons (s : St) (a : Nat) (U : List Nat) : sumBal s (a :: U) = (s.accts a).bal + sumBal s U := by
  simp [sumBal]

/-- a state change that leaves every balance alone leaves every sum alone -/
theorem sumBal_congr (s s' : St) (h : ∀ x, (s'.accts x).bal = (s.accts x).bal) :
    ∀ U, sumBal s' U = sumBal s U := by
  intro U
  induction U with
  | nil => simp [sumBal_nil]
  | cons a U ih => rw [sumBal_cons, sumBal_cons, h a, ih]

theorem setBal_bal (s : St) (a x : Nat) (v : Int) :
    ((setBal s a v).accts x).bal = if x = a then v else (s.accts x).bal := by
  unfold setBal upd
  by_cases h : x = a <;> simp [h]

theorem sumBal_setBal_notin (s : St) (a : Nat) (v : Int) : ∀ U, a ∉ U → sumBal (setBal s a v) U = sumBal s U := by
  intro U
  induction U with
  | nil => intro _; simp [sumBal_nil]
  | cons b U ih =>
    intro h
    have hb : b ≠ a := fun e => h (by rw [e]; exact List.mem_cons_self)
    rw [sumBal_cons, sumBal_cons, setBal_bal, if_neg hb, ih (fun hh => h (List.mem_cons_of_mem _ hh))]

/-- setting one balance moves the sum by exactly the difference -/
theorem sumBal_setBal (s : St) (a : Nat) (v : Int) : ∀ U, U.Nodup → a ∈ U →
    sumBal (setBal s a v) U = sumBal s U + (v - (s.accts a).bal) := by
  intro U
  induction U with
  | nil => intro _ h; cases h
  | cons b U ih =>
    intro hn hm
    have ⟨hb, hn'⟩ := List.nodup_cons.mp hn
    rw [sumBal_cons, sumBal_cons, setBal_bal]
    by_cases e : b = a
    · subst e
      rw [if_pos rfl, sumBal_setBal_notin s b v U hb]; omega
    · have : a ∈ U := by
        rcases List.mem_cons.mp hm with h | h
        · exact absurd h.symm e
        · exact h
      rw [if_neg e, ih hn' this]; omega

/-- `Transfer` conserves the sum -/
theorem sumBal_transfer (s : St) (a b : Nat) (v : Int) (U : List Nat) (hn : U.Nodup) (ha : a ∈ U) (hb : b ∈ U) :
    sumBal (transfer s a b v) U = sumBal s U := by
  unfold transfer
  simp only
  rw [sumBal_setBal _ b _ U hn hb, sumBal_setBal s a _ U hn ha]
  omega

/-- an account update that keeps the balance keeps every balance -/
theorem modAcct_bal (s : St) (a : Nat) (f : Acct → Acct) (hf : ∀ x, (f x).bal = x.bal) (x : Nat) :
    ((modAcct s a f).accts x).bal = (s.accts x).bal := by
  unfold modAcct upd
  by_cases h : x = a
  · subst h; simp [hf]
  · simp [h]


theorem sumBal_modAcct (s : St) (a : Nat) (f : Acct → Acct) (hf : ∀ x, (f x).bal = x.bal) (U : List Nat) :
    sumBal (modAcct s a f) U = sumBal s U :=
  sumBal_congr s _ (modAcct_bal s a f hf) U

end LemoProofs.LedgerSum

/-
  Step lemmas for C11's mixed-block theorem (`LemoProofs.C11Mixed`): the invariant `MidInv` — the tally of candidate `x`
  written with the balances of BLOCK START — is preserved by every transaction body of `LemoModel.Ledger`, a vote tx
  included under the vote clause of the guard (`LemoModel.Ledger.voteClause`).
-/
import LemoProofs.C11
import LemoModel.LedgerGuard
namespace LemoProofs.LedgerTally
open LemoModel.Ledger LemoProofs.C01 LemoProofs.C11 LemoProofs.LedgerReward

/-- the fields of an account the tally reads (everything but balance, income address, deputy flag, signers) -/
def sameForTally (a b : Acct) : Prop :=
  a.voteFor = b.voteFor ∧ a.votes = b.votes ∧ a.isCand = b.isCand ∧ a.deposit = b.deposit

theorem sameForTally_refl (a : Acct) : sameForTally a a := ⟨rfl, rfl, rfl, rfl⟩

theorem sameForTally_trans {a b c : Acct} (h1 : sameForTally a b) (h2 : sameForTally b c) : sameForTally a c :=
  ⟨h1.1.trans h2.1, h1.2.1.trans h2.2.1, h1.2.2.1.trans h2.2.2.1, h1.2.2.2.trans h2.2.2.2⟩

theorem sameForTally_of_sameButBal {a b : Acct} (h : sameButBal a b) : sameForTally a b :=
  ⟨h.1.1, h.1.2.1, h.1.2.2.1, h.2⟩

/-- the votes a deposit is worth (no deposit entry: none) -/
def depVotes (p : Params) (a : Acct) : Int :=
  match a.deposit with
  | some d => d / p.depositRate
  | none => 0

/-- **the invariant through the transactions of a block**, for candidate `x` with tally error `e`:
    while `x` is registered its count is deposit votes + the weights AT BLOCK START (`start`) of the accounts of `V` that
    vote for it now, + `e`; while `x` has never been registered nobody of `V` votes for it (and there is no error yet). -/
def MidInv (p : Params) (start : Nat → Int) (V : List Nat) (x : Nat) (e : Int) (s : St) : Prop :=
  ((s.accts x).isCand = 1 →
     (s.accts x).votes = depVotes p (s.accts x) + voterSum p.voteRate (fun v => (s.accts v).voteFor) start x V + e) ∧
  ((s.accts x).isCand = 0 → (∀ v ∈ V, (s.accts v).voteFor ≠ x) ∧ e = 0)

theorem depVotes_congr (p : Params) (a b : Acct) (h : a.deposit = b.deposit) : depVotes p a = depVotes p b := by
  unfold depVotes; rw [h]

/-- a change that leaves `x`'s tally fields and everybody's voteFor alone keeps the invariant -/
theorem MidInv_of_same (p : Params) (start : Nat → Int) (V : List Nat) (x : Nat) (e : Int) (s s' : St)
    (hvf : ∀ y, (s'.accts y).voteFor = (s.accts y).voteFor) (hx : sameForTally (s'.accts x) (s.accts x))
    (hI : MidInv p start V x e s) : MidInv p start V x e s' := by
  obtain ⟨h1, h2⟩ := hI
  have hvs : voterSum p.voteRate (fun v => (s'.accts v).voteFor) start x V =
      voterSum p.voteRate (fun v => (s.accts v).voteFor) start x V :=
    voterSum_congr _ _ _ _ _ x hvf (fun _ => rfl) V
  constructor
  · intro hc
    rw [hx.2.2.1] at hc
    rw [hx.2.1, depVotes_congr p _ _ hx.2.2.2, hvs]
    exact h1 hc
  · intro hc
    rw [hx.2.2.1] at hc
    obtain ⟨h3, h4⟩ := h2 hc
    exact ⟨fun v hv => by rw [hvf v]; exact h3 v hv, h4⟩

theorem MidInv_of_frame (p : Params) (start : Nat → Int) (V : List Nat) (x : Nat) (e : Int) (s s' : St)
    (h : ∀ y, sameForTally (s'.accts y) (s.accts y)) (hI : MidInv p start V x e s) : MidInv p start V x e s' :=
  MidInv_of_same p start V x e s s' (fun y => (h y).1) (h x) hI

theorem MidInv_setBal (p : Params) (start : Nat → Int) (V : List Nat) (x : Nat) (e : Int) (s : St) (a : Nat) (v : Int)
    (hI : MidInv p start V x e s) : MidInv p start V x e (setBal s a v) :=
  MidInv_of_frame p start V x e s _ (fun y => sameForTally_of_sameButBal (setBal_sameButBal s a v y)) hI

theorem MidInv_setBal_iff (p : Params) (start : Nat → Int) (V : List Nat) (x : Nat) (e : Int) (s : St) (a : Nat) (v : Int)
    (hI : MidInv p start V x e (setBal s a v)) : MidInv p start V x e s := by
  refine MidInv_of_frame p start V x e _ s (fun y => ?_) hI
  have := sameForTally_of_sameButBal (setBal_sameButBal s a v y)
  exact ⟨this.1.symm, this.2.1.symm, this.2.2.1.symm, this.2.2.2.symm⟩

theorem MidInv_transfer (p : Params) (start : Nat → Int) (V : List Nat) (x : Nat) (e : Int) (s : St) (a b : Nat) (v : Int)
    (hI : MidInv p start V x e s) : MidInv p start V x e (transfer s a b v) :=
  MidInv_of_frame p start V x e s _ (fun y => sameForTally_of_sameButBal (transfer_sameButBal s a b v y)) hI

theorem MidInv_chargeForGas (p : Params) (start : Nat → Int) (V : List Nat) (x : Nat) (e : Int) (s : St) (m : Nat) (f : Int)
    (hI : MidInv p start V x e s) : MidInv p start V x e (chargeForGas s m f) :=
  MidInv_of_frame p start V x e s _ (fun y => sameForTally_of_sameButBal (chargeForGas_sameButBal s m f y)) hI

/-! ### voterSum under a change of one voter's voteFor -/

theorem voterSum_congr_mem (rate : Int) (vf vf' : Nat → Nat) (f : Nat → Int) (x : Nat) :
    ∀ V : List Nat, (∀ v ∈ V, vf v = vf' v) → voterSum rate vf f x V = voterSum rate vf' f x V := by
  intro V
  induction V with
  | nil => intro _; rfl
  | cons a as ih =>
    intro h
    simp only [voterSum]
    rw [h a List.mem_cons_self, ih (fun v hv => h v (List.mem_cons_of_mem _ hv))]

theorem voterSum_zero (rate : Int) (vf : Nat → Nat) (f : Nat → Int) (x : Nat) :
    ∀ V : List Nat, (∀ v ∈ V, vf v ≠ x) → voterSum rate vf f x V = 0 := by
  intro V
  induction V with
  | nil => intro _; rfl
  | cons a as ih =>
    intro h
    simp only [voterSum]
    rw [if_neg (h a List.mem_cons_self), ih (fun v hv => h v (List.mem_cons_of_mem _ hv))]
    rfl

/-- one voter `v` changes its voteFor to `cnd`: in a duplicate-free universe the sum for `x` gains `v`'s weight if `cnd = x`
    and loses it if `v` voted for `x` — provided `v` belongs to the universe at all -/
theorem voterSum_upd (rate : Int) (vf : Nat → Nat) (f : Nat → Int) (x v cnd : Nat) :
    ∀ V : List Nat, V.Nodup →
    voterSum rate (fun y => if y = v then cnd else vf y) f x V =
      voterSum rate vf f x V +
        ((if cnd = x then (if v ∈ V then f v / rate else 0) else 0) - (if vf v = x then (if v ∈ V then f v / rate else 0) else 0)) := by
  intro V
  induction V with
  | nil => intro _; simp [voterSum]
  | cons a as ih =>
    intro hn
    have ⟨ha, hn'⟩ := List.nodup_cons.mp hn
    simp only [voterSum]
    by_cases hav : a = v
    · subst hav
      have hrest : voterSum rate (fun y => if y = a then cnd else vf y) f x as = voterSum rate vf f x as := by
        apply voterSum_congr_mem
        intro y hy
        have : y ≠ a := fun e => ha (e ▸ hy)
        simp [this]
      rw [hrest]
      simp only [if_true, List.mem_cons, true_or]
      by_cases h1 : cnd = x <;> by_cases h2 : vf a = x <;> simp [h1, h2] <;> omega
    · rw [ih hn']
      have hne : v ≠ a := fun e => hav e.symm
      simp only [hav, if_false, List.mem_cons, hne, false_or]
      omega

/-! ### the vote tx -/

theorem modAcct_accts (s : St) (a : Nat) (f : Acct → Acct) (y : Nat) :
    (modAcct s a f).accts y = if y = a then f (s.accts a) else s.accts y := by
  unfold modAcct upd
  by_cases h : y = a
  · subst h; simp
  · simp [h]

theorem modAcct_votes_add (s : St) (a : Nat) (k : Int) (y : Nat) :
    ((modAcct s a (fun a => { a with votes := a.votes + k })).accts y).votes = (s.accts y).votes + (if y = a then k else 0) := by
  rw [modAcct_accts]
  by_cases h : y = a
  · subst h; simp
  · simp [h]

theorem modAcct_votes_sub (s : St) (a : Nat) (k : Int) (y : Nat) :
    ((modAcct s a (fun a => { a with votes := a.votes - k })).accts y).votes = (s.accts y).votes - (if y = a then k else 0) := by
  rw [modAcct_accts]
  by_cases h : y = a
  · subst h; simp
  · simp [h]

/-- an update of the vote count only -/
theorem modAcct_votesOnly (s : St) (a : Nat) (f : Acct → Acct)
    (hf : ∀ z, (f z).voteFor = z.voteFor ∧ (f z).isCand = z.isCand ∧ (f z).deposit = z.deposit) (y : Nat) :
    ((modAcct s a f).accts y).voteFor = (s.accts y).voteFor ∧ ((modAcct s a f).accts y).isCand = (s.accts y).isCand ∧
    ((modAcct s a f).accts y).deposit = (s.accts y).deposit := by
  rw [modAcct_accts]
  by_cases h : y = a
  · subst h; simp only [if_true]; exact hf _
  · rw [if_neg h]; exact ⟨rfl, rfl, rfl⟩

/-- what a successful `doVote` adds to the vote count of account `y` -/
def voteDelta (c : Ctx) (s : St) (voter cand : Nat) (ib : Int) (y : Nat) : Int :=
  (if y = cand then movedWeight c ib else 0) -
  (if y = (s.accts voter).voteFor ∧ (s.accts voter).voteFor ≠ 0 ∧ (s.accts (s.accts voter).voteFor).isCand = 1
   then movedWeight c ib else 0)

/-- the state `modifyCandidateVotes` leaves -/
def voteMid (c : Ctx) (s : St) (voter cand : Nat) (ib : Int) : St :=
  if ib / c.p.voteRate ≤ 0 then s
  else
    modAcct (if (s.accts voter).voteFor ≠ 0 ∧ (s.accts (s.accts voter).voteFor).isCand = 1
      then modAcct s (s.accts voter).voteFor (fun a => { a with votes := a.votes - ib / c.p.voteRate }) else s)
      cand (fun a => { a with votes := a.votes + ib / c.p.voteRate })

theorem voteMid_spec (c : Ctx) (s : St) (voter cand : Nat) (ib : Int) (y : Nat) :
    ((voteMid c s voter cand ib).accts y).votes = (s.accts y).votes + voteDelta c s voter cand ib y ∧
    ((voteMid c s voter cand ib).accts y).voteFor = (s.accts y).voteFor ∧
    ((voteMid c s voter cand ib).accts y).isCand = (s.accts y).isCand ∧
    ((voteMid c s voter cand ib).accts y).deposit = (s.accts y).deposit := by
  unfold voteMid voteDelta movedWeight
  by_cases hex : ib / c.p.voteRate ≤ 0
  · rw [if_pos hex, if_pos hex]
    exact ⟨by omega, rfl, rfl, rfl⟩
  · simp only [hex, if_false]
    generalize (s.accts voter).voteFor = old
    by_cases hold : old ≠ 0 ∧ (s.accts old).isCand = 1
    · rw [if_pos hold]
      have k1 := modAcct_votesOnly s old (fun a => { a with votes := a.votes - ib / c.p.voteRate }) (fun _ => ⟨rfl, rfl, rfl⟩) y
      have k2 := modAcct_votesOnly (modAcct s old (fun a => { a with votes := a.votes - ib / c.p.voteRate })) cand
        (fun a => { a with votes := a.votes + ib / c.p.voteRate }) (fun _ => ⟨rfl, rfl, rfl⟩) y
      refine ⟨?_, k2.1.trans k1.1, k2.2.1.trans k1.2.1, k2.2.2.trans k1.2.2⟩
      rw [modAcct_votes_add, modAcct_votes_sub]
      by_cases h1 : y = cand <;> by_cases h2 : y = old <;> simp [h1, h2, hold] <;> omega
    · rw [if_neg hold]
      have k2 := modAcct_votesOnly s cand (fun a => { a with votes := a.votes + ib / c.p.voteRate }) (fun _ => ⟨rfl, rfl, rfl⟩) y
      refine ⟨?_, k2⟩
      rw [modAcct_votes_add]
      have : ¬ (y = old ∧ old ≠ 0 ∧ (s.accts old).isCand = 1) := fun h => hold h.2
      rw [if_neg this]
      omega

/-- **doVote_spec**: a successful vote tx = `voteDelta` added to the counts, the voter's voteFor set; the new candidate's
    flag is neither absent/"" nor "false", and it is not the candidate the voter votes for already -/
theorem doVote_spec (c : Ctx) (s s' : St) (voter cand : Nat) (ib : Int) (h : doVote c s voter cand ib = .ok s') :
    ((s.accts cand).isCand ≠ 0 ∧ (s.accts cand).isCand ≠ 2) ∧ (s.accts voter).voteFor ≠ cand ∧
    ∀ y, (s'.accts y).votes = (s.accts y).votes + voteDelta c s voter cand ib y ∧
         (s'.accts y).voteFor = (if y = voter then cand else (s.accts y).voteFor) ∧
         (s'.accts y).isCand = (s.accts y).isCand ∧ (s'.accts y).deposit = (s.accts y).deposit := by
  unfold doVote at h
  simp only at h
  split at h; · cases h
  rename_i hcand
  split at h; · cases h
  rename_i hnv
  injection h with h
  refine ⟨⟨fun e => hcand (Or.inl e), fun e => hcand (Or.inr e)⟩, hnv, ?_⟩
  intro y
  have hm : s' = modAcct (voteMid c s voter cand ib) voter (fun a => { a with voteFor := cand }) := by
    rw [← h]; rfl
  have k := voteMid_spec c s voter cand ib y
  rw [hm, modAcct_accts]
  by_cases hy : y = voter
  · subst hy
    simp only [if_true]
    exact ⟨k.1, trivial, k.2.2.1, k.2.2.2⟩
  · simp only [hy, if_false]
    exact k

/-- **doVote_midInv**: a successful vote tx keeps the invariant of candidate `x` if — whenever it touches `x` while `x` is
    registered — it moves the weight the voter had at block start -/
theorem doVote_midInv (c : Ctx) (start : Nat → Int) (V : List Nat) (hV : V.Nodup) (x : Nat) (hx0 : x ≠ 0) (e : Int)
    (s s' : St) (voter cand : Nat) (ib : Int) (h : doVote c s voter cand ib = .ok s')
    (hcl : (s.accts x).isCand = 1 → (cand = x ∨ (s.accts voter).voteFor = x) →
      movedWeight c ib = startWeight c start V voter)
    (hI : MidInv c.p start V x e s) : MidInv c.p start V x e s' := by
  obtain ⟨⟨hc0, _⟩, hnv, hy⟩ := doVote_spec c s s' voter cand ib h
  obtain ⟨h1, h2⟩ := hI
  have hvf : (fun v => (s'.accts v).voteFor) = (fun y => if y = voter then cand else (s.accts y).voteFor) := by
    funext y; exact (hy y).2.1
  constructor
  · intro hc
    rw [(hy x).2.2.1] at hc
    rw [(hy x).1, depVotes_congr c.p _ _ (hy x).2.2.2, hvf, voterSum_upd _ _ _ _ _ _ V hV, h1 hc]
    unfold voteDelta
    have hw := hcl hc
    unfold startWeight at hw
    by_cases e1 : cand = x
    · have e2 : (s.accts voter).voteFor ≠ x := fun e => hnv (e.trans e1.symm)
      have e3 : ¬ (x = (s.accts voter).voteFor ∧ (s.accts voter).voteFor ≠ 0 ∧ (s.accts (s.accts voter).voteFor).isCand = 1) :=
        fun hh => e2 hh.1.symm
      rw [if_pos e1.symm, if_neg e3, if_pos e1, if_neg e2, hw (Or.inl e1)]
      omega
    · have e1' : ¬ x = cand := fun e => e1 e.symm
      by_cases e2 : (s.accts voter).voteFor = x
      · have e3 : x = (s.accts voter).voteFor ∧ (s.accts voter).voteFor ≠ 0 ∧ (s.accts (s.accts voter).voteFor).isCand = 1 :=
          ⟨e2.symm, by rw [e2]; exact hx0, by rw [e2]; exact hc⟩
        rw [if_neg e1', if_pos e3, if_neg e1, if_pos e2, hw (Or.inr e2)]
        omega
      · have e3 : ¬ (x = (s.accts voter).voteFor ∧ (s.accts voter).voteFor ≠ 0 ∧ (s.accts (s.accts voter).voteFor).isCand = 1) :=
          fun hh => e2 hh.1.symm
        rw [if_neg e1', if_neg e3, if_neg e1, if_neg e2]
        omega
  · intro hc
    rw [(hy x).2.2.1] at hc
    obtain ⟨h3, h4⟩ := h2 hc
    refine ⟨?_, h4⟩
    intro v hv
    rw [(hy v).2.1]
    by_cases e1 : v = voter
    · rw [if_pos e1]
      intro e2
      rw [e2] at hc0
      exact hc0 hc
    · rw [if_neg e1]; exact h3 v hv

/-! ### the register tx -/

theorem modAcct_self (s : St) (a : Nat) (f : Acct → Acct) : (modAcct s a f).accts a = f (s.accts a) := by
  rw [modAcct_accts, if_pos rfl]

theorem modAcct_other (s : St) (a : Nat) (f : Acct → Acct) (y : Nat) (h : y ≠ a) : (modAcct s a f).accts y = s.accts y := by
  rw [modAcct_accts, if_neg h]

theorem modAcct_vf_keep (s : St) (a : Nat) (f : Acct → Acct) (hf : ∀ z, (f z).voteFor = z.voteFor) (y : Nat) :
    ((modAcct s a f).accts y).voteFor = (s.accts y).voteFor := by
  rw [modAcct_accts]
  by_cases h : y = a
  · subst h; rw [if_pos rfl]; exact hf _
  · rw [if_neg h]

theorem transfer_sameForTally (s : St) (a b : Nat) (v : Int) (y : Nat) : sameForTally ((transfer s a b v).accts y) (s.accts y) :=
  sameForTally_of_sameButBal (transfer_sameButBal s a b v y)

/-- `s'` differs from `s` in account `fr` (and in balances) only, and nobody's voteFor changed -/
def UpdAt (fr : Nat) (s s' : St) : Prop :=
  (∀ y, (s'.accts y).voteFor = (s.accts y).voteFor) ∧ (∀ y, y ≠ fr → sameForTally (s'.accts y) (s.accts y))

theorem UpdAt_refl (fr : Nat) (s : St) : UpdAt fr s s := ⟨fun _ => rfl, fun _ _ => sameForTally_refl _⟩

theorem UpdAt_trans {fr : Nat} {s1 s2 s3 : St} (h1 : UpdAt fr s1 s2) (h2 : UpdAt fr s2 s3) : UpdAt fr s1 s3 :=
  ⟨fun y => (h2.1 y).trans (h1.1 y), fun y hy => sameForTally_trans (h2.2 y hy) (h1.2 y hy)⟩

theorem UpdAt_modAcct (fr : Nat) (s : St) (f : Acct → Acct) (hf : ∀ z, (f z).voteFor = z.voteFor) :
    UpdAt fr s (modAcct s fr f) :=
  ⟨fun y => modAcct_vf_keep s fr f hf y, fun y hy => by rw [modAcct_other _ _ _ _ hy]; exact sameForTally_refl _⟩

theorem UpdAt_transfer (fr : Nat) (s : St) (a b : Nat) (v : Int) : UpdAt fr s (transfer s a b v) :=
  ⟨fun y => (transfer_sameForTally s a b v y).1, fun y _ => transfer_sameForTally s a b v y⟩

theorem UpdAt_refund (c : Ctx) (fr : Nat) (s : St) : UpdAt fr s (refund c s fr) :=
  ⟨fun y => (refund_frame c s fr y).1, fun y hy =>
    ⟨(refund_frame c s fr y).1, (refund_frame c s fr y).2.1, (refund_frame c s fr y).2.2.1, refund_deposit_other c s fr y hy⟩⟩

/-- an update of account `fr` alone: nobody's voteFor changes, the other accounts keep their tally fields -/
theorem MidInv_update (p : Params) (start : Nat → Int) (V : List Nat) (x : Nat) (e : Int) (s s' : St) (fr : Nat)
    (hu : UpdAt fr s s')
    (hfr : x = fr →
      ((s'.accts fr).isCand = 1 → (s'.accts fr).votes =
          depVotes p (s'.accts fr) + voterSum p.voteRate (fun v => (s.accts v).voteFor) start fr V + e) ∧
      ((s'.accts fr).isCand = 0 → (s.accts fr).isCand = 0))
    (hI : MidInv p start V x e s) : MidInv p start V x e s' := by
  obtain ⟨hvf, hoth⟩ := hu
  by_cases hx : x = fr
  · subst hx
    obtain ⟨k1, k2⟩ := hfr rfl
    have hvs : voterSum p.voteRate (fun v => (s'.accts v).voteFor) start x V =
        voterSum p.voteRate (fun v => (s.accts v).voteFor) start x V :=
      voterSum_congr _ _ _ _ _ x hvf (fun _ => rfl) V
    constructor
    · intro hc; rw [hvs]; exact k1 hc
    · intro hc
      obtain ⟨h3, h4⟩ := hI.2 (k2 hc)
      exact ⟨fun v hv => by rw [hvf v]; exact h3 v hv, h4⟩
  · exact MidInv_of_same p start V x e s s' hvf (hoth x hx) hI

/-- **doRegister_midInv**: a successful RegisterTx — first registration, unregistration (with or without the immediate
    refund), top-up, info update — keeps the invariant of every candidate `x`; on the code as it stands (flag check on),
    with a positive deposit rate -/
theorem doRegister_midInv (c : Ctx) (hfc : c.flagCheck = true) (hD : 0 < c.p.depositRate) (start : Nat → Int) (V : List Nat)
    (x : Nat) (e : Int) (s s' : St) (fr : Nat) (amt : Int) (flag inc : Nat) (nd : Bool) (px : TxProfile)
    (h : doRegister c s fr amt flag inc nd px = .ok s') (hI : MidInv c.p start V x e s) : MidInv c.p start V x e s' := by
  unfold doRegister at h
  simp only [depositAfterOverlay_true, hfc, true_and] at h
  split at h; · cases h
  rename_i hvalid
  split at h
  · -- first registration
    rename_i h0
    split at h; · cases h
    rename_i hn2
    split at h; · cases h
    split at h; · cases h
    injection h with h; subst h
    have hflag : flag = 1 := by omega
    subst hflag
    refine MidInv_update c.p start V x e s _ fr ?_ ?_ hI
    · apply UpdAt_trans (UpdAt_trans (UpdAt_modAcct fr s _ ?_) (UpdAt_transfer fr _ _ _ _)) (UpdAt_modAcct fr _ _ ?_)
      · intro _; rfl
      · intro _; rfl
    · intro hx
      subst hx
      rw [modAcct_self]
      constructor
      · intro _
        obtain ⟨h3, h4⟩ := hI.2 h0
        rw [voterSum_zero _ _ _ _ V h3, h4]
        simp only [depVotes]
        rw [(transfer_sameForTally _ _ _ _ _).2.2.2, modAcct_self]
        simp
      · intro hc
        simp only at hc
        rw [(transfer_sameForTally _ _ _ _ _).2.2.1, modAcct_self] at hc
        simp at hc
  · split at h; · cases h
    split at h; · cases h
    rename_i hn0 hn2c h1'
    have hs1 : (s.accts fr).isCand = 1 := Decidable.of_not_not h1'
    split at h
    · -- unregister
      have hu0 : UpdAt fr s (modAcct s fr (fun a => { a with isCand := 2, votes := 0 })) :=
        UpdAt_modAcct fr s _ (fun _ => rfl)
      have key : ∀ s'' : St, UpdAt fr s s'' → (s''.accts fr).isCand = 2 → MidInv c.p start V x e s'' := by
        intro s'' k1 k3
        refine MidInv_update c.p start V x e s s'' fr k1 ?_ hI
        intro _
        rw [k3]
        exact ⟨fun hh => by omega, fun hh => by omega⟩
      have kself : ((modAcct s fr (fun a => { a with isCand := 2, votes := 0 })).accts fr).isCand = 2 := by
        rw [modAcct_self]
      split at h
      · injection h with h; subst h
        exact key _ hu0 kself
      · split at h
        · injection h with h; subst h
          exact key _ hu0 kself
        · injection h with h; subst h
          refine key _ (UpdAt_trans hu0 (UpdAt_refund c fr _)) ?_
          rw [(refund_frame c _ fr fr).2.2.1]; exact kself
    · -- update: the flag is "true"
      rename_i hnf2
      have hflag : flag = 1 := by omega
      subst hflag
      split at h
      · rename_i hpos
        split at h; · cases h
        split at h; · cases h
        rename_i old hdep
        injection h with h; subst h
        refine MidInv_update c.p start V x e s _ fr ?_ ?_ hI
        · apply UpdAt_trans (UpdAt_transfer fr s _ _ _) (UpdAt_modAcct fr _ _ ?_)
          intro _; rfl
        · intro hx
          subst hx
          rw [modAcct_self]
          have ht := transfer_sameForTally s x c.p.pool amt x
          constructor
          · intro _
            simp only [depVotes]
            rw [ht.2.1, hI.1 hs1]
            simp only [depVotes, hdep]
            have hmono : old / c.p.depositRate ≤ (old + amt) / c.p.depositRate := Int.ediv_le_ediv hD (by omega)
            split <;> omega
          · intro hc
            simp at hc
      · injection h with h; subst h
        refine MidInv_update c.p start V x e s _ fr (UpdAt_modAcct fr s _ (fun _ => rfl)) ?_ hI
        intro hx
        subst hx
        rw [modAcct_self]
        constructor
        · intro _
          have := hI.1 hs1
          simp only [depVotes] at this ⊢
          exact this
        · intro hc
          simp at hc

/-! ### transaction bodies, transactions, boxes, the miner path -/

/-- the vote clause as a proposition about a body that runs on state `s` with pre-purchase sender balance `ib` -/
def ClauseAt (c : Ctx) (start : Nat → Int) (V : List Nat) (x : Nat) (s : St) (tx : Tx) (ib : Int) : Prop :=
  ∀ cand, tx.kind = .vote cand → (s.accts x).isCand = 1 → (cand = x ∨ (s.accts tx.sender).voteFor = x) →
    movedWeight c ib = startWeight c start V tx.sender

theorem body_midInv (c : Ctx) (hfc : c.flagCheck = true) (hD : 0 < c.p.depositRate) (start : Nat → Int) (V : List Nat)
    (hV : V.Nodup) (x : Nat) (hx0 : x ≠ 0) (e : Int) (s s' : St) (tx : Tx) (ib : Int)
    (h : body c s tx ib = .ok s') (hcl : ClauseAt c start V x s tx ib)
    (hI : MidInv c.p start V x e s) : MidInv c.p start V x e s' := by
  unfold body at h
  cases hk : tx.kind with
  | transfer to v =>
    simp only [hk] at h
    split at h; · cases h
    split at h
    · injection h with h; subst h; exact hI
    · injection h with h; subst h; exact MidInv_transfer _ _ _ _ _ _ _ _ _ hI
  | vote cand =>
    simp only [hk] at h
    exact doVote_midInv c start V hV x hx0 e s s' _ _ _ h (hcl cand hk) hI
  | register amt flag inc nd px =>
    simp only [hk] at h
    exact doRegister_midInv c hfc hD start V x e s s' _ _ _ _ _ _ h hI
  | setSigners tg l tok =>
    simp only [hk] at h
    unfold doSetSigners at h
    split at h; · cases h
    split at h; · cases h
    split at h; · cases h
    split at h; · cases h
    split at h; · cases h
    split at h; · cases h
    injection h with h; subst h
    refine MidInv_of_frame _ _ _ _ _ s _ (fun y => ?_) hI
    rw [modAcct_accts]
    by_cases hy : y = tg
    · subst hy; rw [if_pos rfl]; exact ⟨rfl, rfl, rfl, rfl⟩
    · rw [if_neg hy]; exact sameForTally_refl _
  | box => simp [hk] at h
  | other => simp [hk] at h

theorem voteClause_clauseAt (c : Ctx) (start : Nat → Int) (V : List Nat) (x : Nat) (s : St) (tx : Tx)
    (h : voteClause c start V x (s, tx) = true) :
    ClauseAt c start V x (setBal s tx.payer ((s.accts tx.payer).bal - (tx.gasLimit : Int) * tx.gasPrice)) tx (s.accts tx.sender).bal := by
  intro cand hk hc hor
  have f := fun y => sameForTally_of_sameButBal (setBal_sameButBal s tx.payer ((s.accts tx.payer).bal - (tx.gasLimit : Int) * tx.gasPrice) y)
  rw [(f x).2.2.1] at hc
  rw [(f tx.sender).1] at hor
  unfold voteClause at h
  simp only [hk] at h
  rw [if_pos ⟨hc, hor⟩] at h
  exact of_decide_eq_true h

/-- **applySimple_midInv**: an included non-box tx that satisfies the vote clause keeps the invariant -/
theorem applySimple_midInv (c : Ctx) (hfc : c.flagCheck = true) (hD : 0 < c.p.depositRate) (start : Nat → Int) (V : List Nat)
    (hV : V.Nodup) (x : Nat) (hx0 : x ≠ 0) (e : Int) (s s' : St) (gp gp' g : Nat) (tx : Tx)
    (h : applySimple c s gp tx = .ok (s', gp', g)) (hcl : voteClause c start V x (s, tx) = true)
    (hI : MidInv c.p start V x e s) : MidInv c.p start V x e s' := by
  obtain ⟨sb, hb, hs', _, _⟩ := LemoProofs.LedgerFrame.applySimple_shape c s s' gp gp' g tx h
  subst hs'
  apply MidInv_setBal
  exact body_midInv c hfc hD start V hV x hx0 e _ sb tx _ hb (voteClause_clauseAt c start V x s tx hcl)
    (MidInv_setBal _ _ _ _ _ _ _ _ hI)

theorem applySubs_midInv (c : Ctx) (hfc : c.flagCheck = true) (hD : 0 < c.p.depositRate) (start : Nat → Int) (V : List Nat)
    (hV : V.Nodup) (x : Nat) (hx0 : x ≠ 0) (e : Int) : ∀ (ts : List Tx) (s s' : St) (gp gp' g : Nat) (f : Int),
    applySubs c s gp ts = .ok (s', gp', g, f) → (execSubs c s gp ts).all (voteClause c start V x) = true →
    MidInv c.p start V x e s → MidInv c.p start V x e s' := by
  intro ts
  induction ts with
  | nil =>
    intro s s' gp gp' g f h _ hI
    simp only [applySubs] at h
    injection h with h; injection h with h1 _
    subst h1; exact hI
  | cons t ts ih =>
    intro s s' gp gp' g f h hcl hI
    simp only [applySubs] at h
    simp only [execSubs] at hcl
    cases h1 : applySimple c s gp t with
    | error e => simp [h1] at h
    | ok r =>
      obtain ⟨s1, gp1, g1⟩ := r
      simp only [h1] at h hcl
      rw [List.all_cons, Bool.and_eq_true] at hcl
      cases h2 : applySubs c s1 gp1 ts with
      | error e => simp [h2] at h
      | ok r2 =>
        obtain ⟨s2, gp2, g2, f2⟩ := r2
        simp only [h2] at h
        injection h with h; injection h with a1 _
        subst a1
        exact ih s1 s2 gp1 gp2 g2 f2 h2 hcl.2
          (applySimple_midInv c hfc hD start V hV x hx0 e s s1 gp gp1 g1 t h1 hcl.1 hI)

/-- **applyTx_midInv**: an included tx — a box with all its sub-txs included — keeps the invariant if every simple tx it
    executes satisfies the vote clause -/
theorem applyTx_midInv (c : Ctx) (hfc : c.flagCheck = true) (hD : 0 < c.p.depositRate) (start : Nat → Int) (V : List Nat)
    (hV : V.Nodup) (x : Nat) (hx0 : x ≠ 0) (e : Int) (s s' : St) (gp gp' g : Nat) (tx : Tx)
    (h : applyTx c s gp tx = .ok (s', gp', g)) (hcl : (execTx c s gp tx).all (voteClause c start V x) = true)
    (hI : MidInv c.p start V x e s) : MidInv c.p start V x e s' := by
  unfold applyTx at h
  unfold execTx at hcl
  split at h
  · rename_i hk
    simp only [hk] at hcl
    simp only at h
    split at h; · cases h
    split at h; · cases h
    split at h; · cases h
    split at h; · cases h
    split at h; · cases h
    split at h; · cases h
    rename_i s2 gp2 sg sf hsub
    injection h with h
    injection h with h1 _
    subst h1
    apply MidInv_setBal
    apply MidInv_chargeForGas
    exact applySubs_midInv c hfc hD start V hV x hx0 e tx.subs _ s2 _ gp2 sg sf hsub hcl (MidInv_setBal _ _ _ _ _ _ _ _ hI)
  · rename_i hk
    have hcl' : voteClause c start V x (s, tx) = true := by
      cases hk2 : tx.kind with
      | box => exact absurd hk2 (by simpa using hk)
      | transfer to v => simp only [hk2, List.all_cons, List.all_nil, Bool.and_true] at hcl; exact hcl
      | vote cand => simp only [hk2, List.all_cons, List.all_nil, Bool.and_true] at hcl; exact hcl
      | register a b c' d px => simp only [hk2, List.all_cons, List.all_nil, Bool.and_true] at hcl; exact hcl
      | setSigners a b c' => simp only [hk2, List.all_cons, List.all_nil, Bool.and_true] at hcl; exact hcl
      | other => simp only [hk2, List.all_cons, List.all_nil, Bool.and_true] at hcl; exact hcl
    exact applySimple_midInv c hfc hD start V hV x hx0 e s s' gp gp' g tx h hcl' hI

/-- **mine_midInv**: the miner path over ANY candidate list — transfers, votes, re-votes, registrations, top-ups,
    unregistrations, signer changes, reimbursed txs, boxes; failing candidates and failing boxes are discarded — keeps the
    invariant if the transactions it executes satisfy the vote clause -/
theorem mine_midInv (c : Ctx) (hfc : c.flagCheck = true) (hD : 0 < c.p.depositRate) (start : Nat → Int) (V : List Nat)
    (hV : V.Nodup) (x : Nat) (hx0 : x ≠ 0) (e : Int) : ∀ (txs : List Tx) (s : St) (gp : Nat),
    (execBlock c s gp txs).all (voteClause c start V x) = true →
    MidInv c.p start V x e s → MidInv c.p start V x e (mine c s gp txs).st := by
  intro txs
  induction txs with
  | nil => intro s gp _ hI; simp only [mine]; exact hI
  | cons t ts ih =>
    intro s gp hcl hI
    unfold mine
    unfold execBlock at hcl
    by_cases hg : gp < LemoGen.Gas.OrdinaryTxGas
    · simp only [hg, if_true]; exact hI
    · simp only [hg, if_false] at hcl ⊢
      cases ha : applyTx c s gp t with
      | error er =>
        obtain ⟨er, gp'⟩ := er
        simp only [ha] at hcl
        simp only []
        exact ih s gp' hcl hI
      | ok r =>
        obtain ⟨s1, gp1, g1⟩ := r
        simp only [ha] at hcl
        simp only []
        rw [List.all_append, Bool.and_eq_true] at hcl
        exact ih s1 gp1 hcl.2 (applyTx_midInv c hfc hD start V hV x hx0 e s s1 gp gp1 g1 t ha hcl.1 hI)

end LemoProofs.LedgerTally

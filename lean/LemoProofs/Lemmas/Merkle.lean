/-
  Helper lemmas for C17 part A (Merkle tree of common/merkle/merkle_tree.go).
  `Built H leaves nodes j`: the array `nodes` after `j` iterations of the loop of `calculateNodes`.
-/
import LemoModel.Merkle
namespace LemoProofs.MerkleLemmas
open LemoModel.Merkle

variable {α : Type}

/-- state of the flat array after `j` loop iterations (offset `2j`) -/
structure Built (H : α → α → α) (leaves nodes : List α) (j : Nat) : Prop where
  len : nodes.length = leaves.length + j
  jlt : j < leaves.length
  leaf : ∀ i, i < leaves.length → nodes[i]? = leaves[i]?
  inner : ∀ k, k < j → ∃ a b, nodes[2 * k]? = some a ∧ nodes[2 * k + 1]? = some b ∧
            nodes[leaves.length + k]? = some (H a b)

theorem calcLoop_built (H : α → α → α) (leaves : List α) :
    ∀ (fuel : Nat) (nodes : List α) (j : Nat), Built H leaves nodes j →
      leaves.length - 1 - j ≤ fuel →
      Built H leaves (calcLoop H fuel nodes (2 * j)) (leaves.length - 1) := by
  intro fuel
  induction fuel with
  | zero =>
    intro nodes j B hf
    have hj : j = leaves.length - 1 := by have := B.jlt; omega
    simpa [calcLoop, hj] using (hj ▸ B)
  | succ fuel ih =>
    intro nodes j B hf
    unfold calcLoop
    by_cases hc : 2 * j + 1 < nodes.length
    · rw [dif_pos hc]
      have hlen := B.len
      have hj1 : j + 1 < leaves.length := by omega
      have e : 2 * j + 2 = 2 * (j + 1) := by omega
      rw [e]
      apply ih
      · refine ⟨by simp [hlen]; omega, hj1, ?_, ?_⟩
        · intro i hi
          rw [List.getElem?_append_left (by omega)]
          exact B.leaf i hi
        · intro k hk
          by_cases hkj : k < j
          · obtain ⟨a, b, ha, hb, hab⟩ := B.inner k hkj
            refine ⟨a, b, ?_, ?_, ?_⟩
            · rw [List.getElem?_append_left (by omega)]; exact ha
            · rw [List.getElem?_append_left (by omega)]; exact hb
            · rw [List.getElem?_append_left (by omega)]; exact hab
          · have hk' : k = j := by omega
            subst hk'
            refine ⟨nodes[2 * k]'(by omega), nodes[2 * k + 1]'hc, ?_, ?_, ?_⟩
            · rw [List.getElem?_append_left (by omega)]; exact List.getElem?_eq_getElem _
            · rw [List.getElem?_append_left (by omega)]; exact List.getElem?_eq_getElem _
            · rw [List.getElem?_append_right (by omega)]
              have : leaves.length + k - nodes.length = 0 := by omega
              rw [this]; rfl
      · omega
    · rw [dif_neg hc]
      have hj : j = leaves.length - 1 := by have := B.jlt; have := B.len; omega
      exact hj ▸ B

theorem calcNodes_nil (H : α → α → α) : calcNodes H ([] : List α) = [] := by
  simp [calcNodes, calcLoop]

/-- the array produced by `calculateNodes` for a non-empty leaf list -/
theorem calcNodes_built (H : α → α → α) (leaves : List α) (hne : 0 < leaves.length) :
    Built H leaves (calcNodes H leaves) (leaves.length - 1) := by
  unfold calcNodes
  have := calcLoop_built H leaves leaves.length leaves 0
    ⟨by simp, hne, fun _ _ => rfl, fun k hk => by omega⟩ (by omega)
  simpa using this

section paths
variable {H : α → α → α} {leaves nodes : List α}

theorem computedRoot_cons (H : α → α → α) (t : α) (s : MNode α) (rest : List (MNode α)) :
    computedRoot H t (s :: rest) = computedRoot H (verifyStep H t s) rest := by
  simp [computedRoot]

/-- every array entry has a path, and hashing the entry up its path gives the last entry -/
theorem findPath_computes (B : Built H leaves nodes (leaves.length - 1)) (r : α)
    (hr : nodes[nodes.length - 1]? = some r) :
    ∀ (fuel j : Nat) (x : α), nodes[j]? = some x → nodes.length - j ≤ fuel →
      ∃ p, findPath nodes leaves.length fuel j = some p ∧ computedRoot H x p = r := by
  intro fuel
  induction fuel with
  | zero =>
    intro j x hx hf
    have : j < nodes.length := by
      rcases Nat.lt_or_ge j nodes.length with h | h
      · exact h
      · rw [List.getElem?_eq_none h] at hx; cases hx
    omega
  | succ fuel ih =>
    intro j x hx hf
    have hjl : j < nodes.length := by
      rcases Nat.lt_or_ge j nodes.length with h | h
      · exact h
      · rw [List.getElem?_eq_none h] at hx; cases hx
    have hlen := B.len
    unfold findPath
    by_cases hlast : j + 1 = nodes.length
    · rw [if_pos hlast, hx]
      refine ⟨_, rfl, ?_⟩
      have : nodes.length - 1 = j := by omega
      rw [this, hx] at hr
      simpa [computedRoot, verifyStep] using hr
    · rw [if_neg hlast]
      have hk : j / 2 < leaves.length - 1 := by omega
      obtain ⟨a, b, ha, hb, hab⟩ := B.inner (j / 2) hk
      by_cases hodd : j % 2 = 1
      · rw [if_pos hodd]
        have e1 : j - 1 = 2 * (j / 2) := by omega
        have e2 : j = 2 * (j / 2) + 1 := by omega
        have hxb : x = b := by
          rw [← e2] at hb; rw [hx] at hb; exact Option.some.inj hb
        obtain ⟨p, hp, hc⟩ := ih (leaves.length + j / 2) (H a b) hab (by omega)
        rw [e1, ha, hp]
        refine ⟨_, rfl, ?_⟩
        rw [computedRoot_cons]
        simpa [verifyStep, hxb] using hc
      · rw [if_neg hodd]
        have e1 : j + 1 = 2 * (j / 2) + 1 := by omega
        have e2 : j = 2 * (j / 2) := by omega
        have hxa : x = a := by
          rw [← e2] at ha; rw [hx] at ha; exact Option.some.inj ha
        obtain ⟨p, hp, hc⟩ := ih (leaves.length + j / 2) (H a b) hab (by omega)
        rw [e1, hb, hp]
        refine ⟨_, rfl, ?_⟩
        rw [computedRoot_cons]
        simpa [verifyStep, hxa] using hc

/-- binding with the position given by the shape (sides) of the path: needs only injectivity of `H`. -/
theorem findPath_binds (B : Built H leaves nodes (leaves.length - 1)) (r : α)
    (hr : nodes[nodes.length - 1]? = some r)
    (hinj : ∀ a b c d, H a b = H c d → a = c ∧ b = d) :
    ∀ (fuel j : Nat) (p : List (MNode α)), j < nodes.length →
      findPath nodes leaves.length fuel j = some p →
      ∀ (sib : List (MNode α)) (t : α), sib.map (·.side) = p.map (·.side) →
        computedRoot H t sib = r → nodes[j]? = some t := by
  intro fuel
  induction fuel with
  | zero => intro j p _ hp; simp [findPath] at hp
  | succ fuel ih =>
    intro j p hjl hp sib t hside hc
    unfold findPath at hp
    by_cases hlast : j + 1 = nodes.length
    · rw [if_pos hlast] at hp
      cases hx : nodes[j]? with
      | none => rw [hx] at hp; cases hp
      | some x =>
        rw [hx] at hp
        have hp' : p = [⟨x, .root⟩] := (Option.some.inj hp).symm
        subst hp'
        have : nodes.length - 1 = j := by omega
        rw [this, hx] at hr
        cases sib with
        | nil => simp at hside
        | cons s sib' =>
          cases sib' with
          | cons _ _ => simp at hside
          | nil =>
            have hs' : s.side = .root := by simpa using hside
            have : computedRoot H t [s] = t := by simp [computedRoot, verifyStep, hs']
            rw [this] at hc
            rw [hc]; exact hr
    · rw [if_neg hlast] at hp
      have hlen := B.len
      have hk : j / 2 < leaves.length - 1 := by omega
      obtain ⟨a, b, ha, hb, hab⟩ := B.inner (j / 2) hk
      by_cases hodd : j % 2 = 1
      · rw [if_pos hodd] at hp
        have e1 : j - 1 = 2 * (j / 2) := by omega
        have e2 : 2 * (j / 2) + 1 = j := by omega
        rw [e1, ha] at hp
        cases hrest : findPath nodes leaves.length fuel (leaves.length + j / 2) with
        | none => rw [hrest] at hp; simp at hp
        | some rest =>
          rw [hrest] at hp
          have hp' : p = ⟨a, .left⟩ :: rest := (Option.some.inj hp).symm
          subst hp'
          cases sib with
          | nil => simp at hside
          | cons s sib' =>
            have hs := hside
            simp only [List.map_cons, List.cons.injEq] at hs
            obtain ⟨hs1, hs2⟩ := hs
            rw [computedRoot_cons] at hc
            have hstep : verifyStep H t s = H s.hash t := by simp [verifyStep, hs1]
            rw [hstep] at hc
            have := ih _ _ (by omega) hrest sib' _ hs2 hc
            rw [hab] at this
            have h2 := (hinj _ _ _ _ (Option.some.inj this)).2
            rw [e2] at hb; rw [hb, h2]
      · rw [if_neg hodd] at hp
        have e1 : j + 1 = 2 * (j / 2) + 1 := by omega
        have e2 : 2 * (j / 2) = j := by omega
        rw [e1, hb] at hp
        cases hrest : findPath nodes leaves.length fuel (leaves.length + j / 2) with
        | none => rw [hrest] at hp; simp at hp
        | some rest =>
          rw [hrest] at hp
          have hp' : p = ⟨b, .right⟩ :: rest := (Option.some.inj hp).symm
          subst hp'
          cases sib with
          | nil => simp at hside
          | cons s sib' =>
            have hs := hside
            simp only [List.map_cons, List.cons.injEq] at hs
            obtain ⟨hs1, hs2⟩ := hs
            rw [computedRoot_cons] at hc
            have hstep : verifyStep H t s = H t s.hash := by simp [verifyStep, hs1]
            rw [hstep] at hc
            have := ih _ _ (by omega) hrest sib' _ hs2 hc
            rw [hab] at this
            have h2 := (hinj _ _ _ _ (Option.some.inj this)).1
            rw [e2] at ha; rw [ha, h2]

/-- without a position: whatever `Verify` accepts is an entry of the array (leaf OR interior node),
    provided no leaf is itself of the form `H a b` (domain separation). -/
theorem accepted_is_entry (B : Built H leaves nodes (leaves.length - 1))
    (hinj : ∀ a b c d, H a b = H c d → a = c ∧ b = d)
    (hsep : ∀ l, l ∈ leaves → ∀ a b, H a b ≠ l) :
    ∀ (sib : List (MNode α)) (t : α), (∃ j : Nat, nodes[j]? = some (computedRoot H t sib)) →
      ∃ j : Nat, nodes[j]? = some t := by
  intro sib
  induction sib with
  | nil => intro t h; simpa [computedRoot] using h
  | cons s rest ih =>
    intro t h
    rw [computedRoot_cons] at h
    obtain ⟨j, hj⟩ := ih _ h
    have hlen := B.len
    have hjl : j < nodes.length := by
      rcases Nat.lt_or_ge j nodes.length with h | h
      · exact h
      · rw [List.getElem?_eq_none h] at hj; cases hj
    -- an entry of the form `H x y` is an interior node and `x`, `y` are its children
    have key : ∀ x y, verifyStep H t s = H x y → ∃ a b, nodes[2 * (j - leaves.length)]? = some a ∧
        nodes[2 * (j - leaves.length) + 1]? = some b ∧ x = a ∧ y = b := by
      intro x y hxy
      rw [hxy] at hj
      by_cases hleaf : j < leaves.length
      · exfalso
        have h1 := B.leaf j hleaf
        rw [hj] at h1
        have hm : H x y ∈ leaves := List.mem_of_getElem? h1.symm
        exact hsep _ hm x y rfl
      · obtain ⟨a, b, ha, hb, hab⟩ := B.inner (j - leaves.length) (by omega)
        have e : leaves.length + (j - leaves.length) = j := by omega
        rw [e, hj] at hab
        obtain ⟨h1, h2⟩ := hinj _ _ _ _ (Option.some.inj hab)
        exact ⟨a, b, ha, hb, h1, h2⟩
    cases hs : s.side with
    | root => exact ⟨j, by simpa [verifyStep, hs] using hj⟩
    | left =>
      obtain ⟨a, b, _, hb, _, h2⟩ := key s.hash t (by simp [verifyStep, hs])
      exact ⟨_, h2 ▸ hb⟩
    | right =>
      obtain ⟨a, b, ha, _, h1, _⟩ := key t s.hash (by simp [verifyStep, hs])
      exact ⟨_, h1 ▸ ha⟩

end paths

/-- two arrays of the same size with the same last entry are equal entry by entry (injective `H`) -/
theorem built_ext {H : α → α → α} {l l' nodes nodes' : List α}
    (B : Built H l nodes (l.length - 1)) (B' : Built H l' nodes' (l'.length - 1))
    (hn : l.length = l'.length)
    (hinj : ∀ a b c d, H a b = H c d → a = c ∧ b = d)
    (hroot : nodes[nodes.length - 1]? = nodes'[nodes.length - 1]?) :
    ∀ (d j : Nat), nodes.length - 1 - j ≤ d → nodes[j]? = nodes'[j]? := by
  have hlen := B.len
  have hlen' := B'.len
  have hj0 := B.jlt
  intro d
  induction d with
  | zero =>
    intro j hj
    by_cases h : j = nodes.length - 1
    · rw [h]; exact hroot
    · rw [List.getElem?_eq_none (by omega), List.getElem?_eq_none (by omega)]
  | succ d ih =>
    intro j hj
    by_cases h : nodes.length - 1 - j ≤ d
    · exact ih j h
    · have hk : j / 2 < l.length - 1 := by omega
      obtain ⟨a, b, ha, hb, hab⟩ := B.inner (j / 2) hk
      obtain ⟨a', b', ha', hb', hab'⟩ := B'.inner (j / 2) (by omega)
      have hp := ih (l.length + j / 2) (by omega)
      rw [← hn] at hab'
      rw [hab, hab'] at hp
      obtain ⟨h1, h2⟩ := hinj _ _ _ _ (Option.some.inj hp)
      by_cases hodd : j % 2 = 1
      · have e : 2 * (j / 2) + 1 = j := by omega
        rw [e] at hb hb'; rw [hb, hb', h2]
      · have e : 2 * (j / 2) = j := by omega
        rw [e] at ha ha'; rw [ha, ha', h1]

/-! ### `indexOf` -/

theorem indexOf_le [DecidableEq α] (src : α) (l : List α) : indexOf src l ≤ l.length := by
  induction l with
  | nil => simp [indexOf]
  | cons x xs ih => simp only [indexOf]; split <;> simp <;> omega

theorem indexOf_get [DecidableEq α] (src : α) (l : List α) (h : indexOf src l ≠ l.length) :
    l[indexOf src l]? = some src := by
  induction l with
  | nil => simp [indexOf] at h
  | cons x xs ih =>
    simp only [indexOf] at h ⊢
    split
    · next hx => simp [hx]
    · next hx =>
      rw [if_neg hx] at h
      simp only [List.length_cons, ne_eq, Nat.add_right_cancel_iff] at h
      simpa using ih h

theorem indexOf_mem [DecidableEq α] (src : α) (l : List α) (h : src ∈ l) :
    indexOf src l ≠ l.length := by
  induction l with
  | nil => cases h
  | cons x xs ih =>
    simp only [indexOf]
    split
    · simp
    · next hx =>
      have : src ∈ xs := by
        cases h with
        | head => exact absurd rfl hx
        | tail _ h => exact h
      simpa using ih this

end LemoProofs.MerkleLemmas

/-
  Helper lemmas for C17 part B (Merkle-Patricia trie of store/trie/trie.go).
-/
import LemoModel.Mpt
namespace LemoProofs.MptLemmas
open LemoModel LemoModel.Mpt

/-! ### hex keys -/

/-- a terminated hex key: nibbles `< 16` followed by exactly one terminator `16` (what `keybytesToHex` yields) -/
inductive TermKey : List Nib → Prop
  | last : TermKey [16]
  | cons (n : Nib) (k : List Nib) : n ≠ 16 → TermKey k → TermKey (n :: k)

/-- a key segment without terminator -/
def NoTerm (k : List Nib) : Prop := ∀ n, n ∈ k → n ≠ 16

theorem noTerm_nil : NoTerm [] := fun _ h => by cases h

theorem noTerm_cons {x : Nib} {k : List Nib} : NoTerm (x :: k) ↔ x ≠ 16 ∧ NoTerm k := by
  constructor
  · intro h
    exact ⟨h x (List.mem_cons_self), fun n hn => h n (List.mem_cons_of_mem _ hn)⟩
  · intro ⟨h1, h2⟩ n hn
    cases hn with
    | head => exact h1
    | tail _ h => exact h2 n h

theorem noTerm_append {a b : List Nib} : NoTerm (a ++ b) ↔ NoTerm a ∧ NoTerm b := by
  constructor
  · intro h
    exact ⟨fun n hn => h n (List.mem_append_left _ hn), fun n hn => h n (List.mem_append_right _ hn)⟩
  · intro ⟨h1, h2⟩ n hn
    rcases List.mem_append.mp hn with h | h
    · exact h1 n h
    · exact h2 n h

theorem term_ne_nil {k : List Nib} (h : TermKey k) : k ≠ [] := by
  cases h <;> simp

theorem term_head16 {r : List Nib} (h : TermKey ((16 : Nib) :: r)) : r = [] := by
  cases h with
  | last => rfl
  | cons _ _ hn _ => exact absurd rfl hn

theorem term_tail {x : Nib} {r : List Nib} (h : TermKey (x :: r)) (hx : x ≠ 16) : TermKey r := by
  cases h with
  | last => exact absurd rfl hx
  | cons _ _ _ hr => exact hr

theorem term_cons_iff {x : Nib} {r : List Nib} :
    TermKey (x :: r) ↔ (x = 16 ∧ r = []) ∨ (x ≠ 16 ∧ TermKey r) := by
  constructor
  · intro h
    by_cases hx : x = 16
    · subst hx; exact Or.inl ⟨rfl, term_head16 h⟩
    · exact Or.inr ⟨hx, term_tail h hx⟩
  · rintro (⟨h1, h2⟩ | ⟨h1, h2⟩)
    · subst h1; subst h2; exact .last
    · exact .cons _ _ h1 h2

theorem term_append {a b : List Nib} (ha : NoTerm a) (hb : TermKey b) : TermKey (a ++ b) := by
  induction a with
  | nil => exact hb
  | cons x a ih =>
    have := noTerm_cons.mp ha
    exact .cons _ _ this.1 (ih this.2)

/-- a terminated key that continues after `a` has no terminator inside `a` -/
theorem term_split {a : List Nib} {x : Nib} {r : List Nib} (h : TermKey (a ++ x :: r)) :
    NoTerm a ∧ TermKey (x :: r) := by
  induction a with
  | nil => exact ⟨noTerm_nil, h⟩
  | cons y a ih =>
    rcases term_cons_iff.mp h with ⟨_, h2⟩ | ⟨h1, h2⟩
    · cases a <;> cases h2
    · have := ih h2
      exact ⟨noTerm_cons.mpr ⟨h1, this.1⟩, this.2⟩

theorem term_suffix {a b : List Nib} (ha : NoTerm a) (h : TermKey (a ++ b)) : TermKey b := by
  induction a with
  | nil => exact h
  | cons x a ih =>
    have hx := noTerm_cons.mp ha
    exact ih hx.2 (term_tail h hx.1)

/-- terminated keys are prefix free -/
theorem term_prefix_eq {a r : List Nib} (ha : TermKey a) (h : TermKey (a ++ r)) : r = [] := by
  induction ha with
  | last => exact term_head16 h
  | cons n k hn _ ih => exact ih (term_tail h hn)

theorem term_noTerm_false {a : List Nib} (ha : TermKey a) (hn : NoTerm a) : False := by
  induction ha with
  | last => exact hn 16 (List.mem_cons_self) rfl
  | cons n k _ _ ih => exact ih (noTerm_cons.mp hn).2

/-! ### splitPrefix / stripPrefix -/

theorem splitPrefix_spec (a b : List Nib) :
    a = (splitPrefix a b).1 ++ (splitPrefix a b).2.1 ∧ b = (splitPrefix a b).1 ++ (splitPrefix a b).2.2 ∧
    (∀ x y xs ys, (splitPrefix a b).2.1 = x :: xs → (splitPrefix a b).2.2 = y :: ys → x ≠ y) := by
  induction a generalizing b with
  | nil => simp [splitPrefix]
  | cons x a ih =>
    cases b with
    | nil => simp [splitPrefix]
    | cons y b =>
      by_cases hxy : x = y
      · subst hxy
        simp only [splitPrefix, if_true]
        obtain ⟨h1, h2, h3⟩ := ih b
        refine ⟨by simp [← h1], by simp [← h2], h3⟩
      · simp only [splitPrefix, if_neg hxy]
        refine ⟨rfl, rfl, ?_⟩
        intro x' y' xs ys h1 h2
        simp only [List.cons.injEq] at h1 h2
        rw [← h1.1, ← h2.1]; exact hxy

theorem stripPrefix_append_self (a r : List Nib) : stripPrefix a (a ++ r) = some r := by
  induction a with
  | nil => simp [stripPrefix]
  | cons x a ih => simp [stripPrefix, ih]

theorem stripPrefix_some {a k r : List Nib} (h : stripPrefix a k = some r) : k = a ++ r := by
  induction a generalizing k with
  | nil => simp [stripPrefix] at h; simp [h]
  | cons x a ih =>
    cases k with
    | nil => simp [stripPrefix] at h
    | cons y k =>
      simp only [stripPrefix] at h
      split at h
      · next hxy => subst hxy; simp [ih h]
      · cases h

theorem stripPrefix_append (a b k : List Nib) :
    stripPrefix (a ++ b) k = (stripPrefix a k).bind (stripPrefix b) := by
  induction a generalizing k with
  | nil => simp [stripPrefix]
  | cons x a ih =>
    cases k with
    | nil => simp [stripPrefix]
    | cons y k =>
      simp only [List.cons_append, stripPrefix]
      split
      · exact ih k
      · simp

theorem stripPrefix_cons_ne {x y : Nib} (a k : List Nib) (h : x ≠ y) : stripPrefix (x :: a) (y :: k) = none := by
  simp [stripPrefix, h]

/-- two terminated keys: one is a prefix of the other only if they are equal -/
theorem stripPrefix_term {k k' r : List Nib} (hk : TermKey k) (hk' : TermKey k')
    (h : stripPrefix k k' = some r) : k' = k ∧ r = [] := by
  have e := stripPrefix_some h
  subst e
  have := term_prefix_eq hk hk'
  subst this
  simp

/-! ### get on short nodes -/

/-- `f` on the rest of `k` after the prefix `p`, `absent` if `p` is not a prefix -/
def onStrip (p k : List Nib) (f : List Nib → GetRes) : GetRes :=
  match stripPrefix p k with
  | none => .absent
  | some r => f r

theorem onStrip_none {p k : List Nib} {f : List Nib → GetRes} (h : stripPrefix p k = none) :
    onStrip p k f = .absent := by simp [onStrip, h]

theorem onStrip_some {p k r : List Nib} {f : List Nib → GetRes} (h : stripPrefix p k = some r) :
    onStrip p k f = f r := by simp [onStrip, h]

theorem onStrip_nil (k : List Nib) (f : List Nib → GetRes) : onStrip [] k f = f k := by
  simp [onStrip, stripPrefix]

theorem onStrip_cons_ne {x y : Nib} (a k : List Nib) (f : List Nib → GetRes) (h : x ≠ y) :
    onStrip (x :: a) (y :: k) f = .absent := by
  simp [onStrip, stripPrefix, h]

theorem onStrip_cons_self (x : Nib) (a k : List Nib) (f : List Nib → GetRes) :
    onStrip (x :: a) (x :: k) f = onStrip a k f := by
  simp [onStrip, stripPrefix]

theorem onStrip_self (a : List Nib) (f : List Nib → GetRes) : onStrip a a f = f [] := by
  have := stripPrefix_append_self a []
  rw [List.append_nil] at this
  simp [onStrip, this]

theorem onStrip_append (a b k : List Nib) (f : List Nib → GetRes) :
    onStrip (a ++ b) k f = onStrip a k (fun r => onStrip b r f) := by
  simp only [onStrip, stripPrefix_append]
  cases stripPrefix a k <;> simp

theorem get_short (K : List Nib) (c : Node) (k : List Nib) :
    Mpt.get (.short K c) k = onStrip K k (Mpt.get c) := by
  simp only [Mpt.get, onStrip]
  cases stripPrefix K k <;> rfl

theorem get_insertNil (b : List Nib) (c : Node) (r : List Nib) :
    Mpt.get (insertNil b c) r = onStrip b r (Mpt.get c) := by
  cases b with
  | nil => simp [insertNil, onStrip_nil]
  | cons x b => simp only [insertNil, get_short]

theorem get_full_cons (ch : Nib → Node) (x : Nib) (r : List Nib) :
    Mpt.get (.full ch) (x :: r) = Mpt.get (ch x) r := by
  simp [Mpt.get]

/-! ### the canonical-shape invariant -/

/-- canonical shape of a trie over terminated keys: leaves carry non-empty values, a short node is
    either a leaf (key ends with the terminator) or an extension in front of a full node, a full node
    has at least two non-nil children and only a value (or nil) in slot 16. -/
inductive Canon : Node → Prop
  | empty : Canon .empty
  | leaf (K : List Nib) (v : Val) : TermKey K → v ≠ [] → Canon (.short K (.value v))
  | ext (K : List Nib) (ch : Nib → Node) : K ≠ [] → NoTerm K → Canon (.full ch) → Canon (.short K (.full ch))
  | full (ch : Nib → Node) : (∀ i, i ≠ 16 → Canon (ch i)) →
      (ch 16 = .empty ∨ ∃ v, v ≠ [] ∧ ch 16 = .value v) →
      (∃ i j, i ≠ j ∧ ch i ≠ .empty ∧ ch j ≠ .empty) → Canon (.full ch)

theorem canon_short_inv {K : List Nib} {c : Node} (h : Canon (.short K c)) :
    (∃ v, c = .value v ∧ TermKey K ∧ v ≠ []) ∨
    (∃ ch, c = .full ch ∧ K ≠ [] ∧ NoTerm K ∧ Canon (.full ch)) := by
  cases h with
  | leaf _ v h1 h2 => exact Or.inl ⟨v, rfl, h1, h2⟩
  | ext _ ch h1 h2 h3 => exact Or.inr ⟨ch, rfl, h1, h2, h3⟩

theorem canon_full_inv {ch : Nib → Node} (h : Canon (.full ch)) :
    (∀ i, i ≠ 16 → Canon (ch i)) ∧ (ch 16 = .empty ∨ ∃ v, v ≠ [] ∧ ch 16 = .value v) ∧
    (∃ i j, i ≠ j ∧ ch i ≠ .empty ∧ ch j ≠ .empty) := by
  cases h with
  | full _ h1 h2 h3 => exact ⟨h1, h2, h3⟩

theorem canon_value_false {v : Val} (h : Canon (.value v)) : False := by cases h

theorem insertNil_ne_empty {b : List Nib} {c : Node} (h : c ≠ .empty) : insertNil b c ≠ .empty := by
  cases b with
  | nil => simpa [insertNil] using h
  | cons x b => simp [insertNil]

theorem get_leaf {K : List Nib} {v : Val} {k' : List Nib} (hK : TermKey K) (hk' : TermKey k') :
    Mpt.get (.short K (.value v)) k' = if k' = K then .found v else .absent := by
  rw [get_short]
  cases h : stripPrefix K k' with
  | none =>
    rw [onStrip_none h]
    have : k' ≠ K := by
      intro e; subst e
      have := stripPrefix_append_self k' []
      simp [h] at this
    simp [this]
  | some r =>
    rw [onStrip_some h]
    have := (stripPrefix_term hK hk' h).1
    simp [this, Mpt.get]

/-- what a child placed below a full node (after the nibble `i`) must look like -/
def SlotOk (i : Nib) (n : Node) : Prop :=
  if i = 16 then (n = .empty ∨ ∃ v, v ≠ [] ∧ n = .value v) else Canon n

theorem canon_full_of_slots {ch : Nib → Node} (h : ∀ i, SlotOk i (ch i))
    (h2 : ∃ i j, i ≠ j ∧ ch i ≠ .empty ∧ ch j ≠ .empty) : Canon (.full ch) := by
  refine .full ch (fun i hi => ?_) ?_ h2
  · have := h i; simpa [SlotOk, hi] using this
  · have := h 16; simpa [SlotOk] using this

theorem slots_of_canon_full {ch : Nib → Node} (h : Canon (.full ch)) (i : Nib) : SlotOk i (ch i) := by
  obtain ⟨h1, h2, _⟩ := canon_full_inv h
  by_cases hi : i = 16
  · subst hi; simpa [SlotOk] using h2
  · simpa [SlotOk, hi] using h1 i hi

/-- the rest `insertNil r c` of a short node `short (cm ++ x :: r) c`, hung below nibble `x` of a full node -/
theorem slot_of_short_rest {cm r : List Nib} {x : Nib} {c : Node} (h : Canon (.short (cm ++ x :: r) c)) :
    SlotOk x (insertNil r c) ∧ insertNil r c ≠ .empty := by
  rcases canon_short_inv h with ⟨v, hc, hK, hv⟩ | ⟨ch, hc, _, hK, hC⟩
  · subst hc
    have hx := (term_split hK).2
    refine ⟨?_, insertNil_ne_empty (by simp)⟩
    by_cases hx16 : x = 16
    · subst hx16
      have := term_head16 hx
      subst this
      simp only [SlotOk, if_true, insertNil]
      exact Or.inr ⟨v, hv, rfl⟩
    · have hr := term_tail hx hx16
      simp only [SlotOk, if_neg hx16]
      cases r with
      | nil => exact absurd rfl (term_ne_nil hr)
      | cons y r => exact .leaf _ _ hr hv
  · subst hc
    have h1 := (noTerm_append.mp hK).2
    have h2 := noTerm_cons.mp h1
    refine ⟨?_, insertNil_ne_empty (by simp)⟩
    simp only [SlotOk, if_neg h2.1]
    cases r with
    | nil => exact hC
    | cons y r => exact .ext _ _ (by simp) h2.2 hC

/-- the branch built by `insert` when the key leaves a short node in the middle -/
theorem branch_spec (cm rk' rK' : List Nib) (kk kn : Nib) (c : Node) (v : Val) (hne : kk ≠ kn)
    (hk : TermKey (cm ++ kk :: rk')) (hK : Canon (.short (cm ++ kn :: rK') c)) (hv : v ≠ []) :
    Canon (insertNil cm (.full (setChild (setChild (fun _ => .empty) kn (insertNil rK' c)) kk
        (insertNil rk' (.value v))))) ∧
    ∀ k', TermKey k' →
      Mpt.get (insertNil cm (.full (setChild (setChild (fun _ => .empty) kn (insertNil rK' c)) kk
        (insertNil rk' (.value v))))) k' =
      if k' = cm ++ kk :: rk' then .found v else Mpt.get (.short (cm ++ kn :: rK') c) k' := by
  obtain ⟨hcm, hkk⟩ := term_split hk
  obtain ⟨hslotK, hneK⟩ := slot_of_short_rest hK
  have hslotk : SlotOk kk (insertNil rk' (.value v)) ∧ insertNil rk' (.value v) ≠ .empty :=
    slot_of_short_rest (cm := cm) (.leaf _ _ hk hv)
  have hbranch : Canon (.full (setChild (setChild (fun _ => .empty) kn (insertNil rK' c)) kk
      (insertNil rk' (.value v)))) := by
    apply canon_full_of_slots
    · intro i
      simp only [setChild]
      by_cases h1 : i = kk
      · subst h1; simpa using hslotk.1
      · by_cases h2 : i = kn
        · subst h2; simpa [h1] using hslotK
        · simp only [if_neg h1, if_neg h2]
          by_cases h16 : i = 16
          · simp [SlotOk, h16]
          · simp only [SlotOk, if_neg h16]; exact .empty
    · refine ⟨kk, kn, hne, ?_, ?_⟩
      · simpa [setChild] using hslotk.2
      · have : kn ≠ kk := fun e => hne e.symm
        simpa [setChild, this] using hneK
  constructor
  · cases cm with
    | nil => simpa [insertNil] using hbranch
    | cons y cm => exact .ext _ _ (by simp) hcm hbranch
  · intro k' hk'
    rw [get_insertNil, get_short, onStrip_append]
    cases hs : stripPrefix cm k' with
    | none =>
      rw [onStrip_none hs, onStrip_none hs]
      have : k' ≠ cm ++ kk :: rk' := by
        intro e; subst e
        rw [stripPrefix_append_self] at hs; cases hs
      simp [this]
    | some r =>
      rw [onStrip_some hs, onStrip_some hs]
      have e := stripPrefix_some hs
      subst e
      cases r with
      | nil =>
        exfalso
        rw [List.append_nil] at hk'
        have := term_prefix_eq hk' hk
        cases this
      | cons x r =>
        rw [get_full_cons]
        simp only [setChild]
        by_cases h1 : x = kk
        · subst h1
          rw [if_pos rfl, get_insertNil]
          have hne' : x ≠ kn := hne
          rw [onStrip_cons_ne _ _ _ (fun e => hne' e.symm)]
          cases hs2 : stripPrefix rk' r with
          | none =>
            rw [onStrip_none hs2]
            have : ¬ (cm ++ x :: r = cm ++ x :: rk') := by
              intro e
              have : r = rk' := by simpa using e
              subst this
              have h3 := stripPrefix_append_self r []
              rw [List.append_nil, hs2] at h3
              cases h3
            simp [this]
          | some r2 =>
            rw [onStrip_some hs2]
            have e2 := stripPrefix_some hs2
            subst e2
            have hk2 : TermKey ((cm ++ x :: rk') ++ r2) := by simpa using hk'
            have := term_prefix_eq hk hk2
            subst this
            simp [Mpt.get]
        · rw [if_neg h1]
          have hkne : ¬ (cm ++ x :: r = cm ++ kk :: rk') := by
            intro e
            have := (List.append_cancel_left e)
            simp only [List.cons.injEq] at this
            exact h1 this.1
          rw [if_neg hkne]
          by_cases h2 : x = kn
          · subst h2
            rw [if_pos rfl, get_insertNil, onStrip_cons_self]
          · rw [if_neg h2, onStrip_cons_ne _ _ _ (fun e => h2 e.symm)]
            simp [Mpt.get]

/-! ### insert -/

theorem insert_spec (n : Node) : ∀ (k : List Nib) (v : Val), Canon n → TermKey k → v ≠ [] →
    ∃ d n', Mpt.insert n k v = some (d, n') ∧ Canon n' ∧ n' ≠ .empty ∧ (d = false → n' = n) ∧
      (∀ ch, n = .full ch → ∃ ch', n' = .full ch') ∧
      (∀ k', TermKey k' → Mpt.get n' k' = if k' = k then .found v else Mpt.get n k') := by
  induction n with
  | empty =>
    intro k v _ hk hv
    cases k with
    | nil => exact absurd rfl (term_ne_nil hk)
    | cons x r =>
      refine ⟨true, .short (x :: r) (.value v), by simp [Mpt.insert], .leaf _ _ hk hv, by simp, by simp,
        (by intro ch h; cases h), ?_⟩
      intro k' hk'
      rw [get_leaf hk hk']; simp [Mpt.get]
  | value old => intro k v hC; exact absurd hC canon_value_false
  | short K c ih =>
    intro k v hC hk hv
    cases k with
    | nil => exact absurd rfl (term_ne_nil hk)
    | cons x r =>
    obtain ⟨e1, e2, e3⟩ := splitPrefix_spec (x :: r) K
    cases hsp : splitPrefix (x :: r) K with
    | mk cm rest =>
    cases rest with
    | mk rk rK =>
    rw [hsp] at e1 e2 e3
    simp only at e1 e2 e3
    cases rK with
    | nil =>
      have eK : cm = K := by simpa using e2.symm
      subst eK
      rcases canon_short_inv hC with ⟨old, hc, hK, hold⟩ | ⟨ch0, hc, hKne, hK, hC0⟩
      · subst hc
        have hk2 : TermKey (cm ++ rk) := e1 ▸ hk
        have := term_prefix_eq hK hk2
        subst this
        have ek : x :: r = cm := by simpa using e1
        have hins : Mpt.insert (.short cm (.value old)) (x :: r) v =
            (if old = v then some (false, .short cm (.value old)) else some (true, .short cm (.value v))) := by
          simp only [Mpt.insert, hsp]
          by_cases h : old = v <;> simp [h]
        by_cases hov : old = v
        · refine ⟨false, _, by rw [hins, if_pos hov], hC, by simp, fun _ => rfl, (by intro ch h; cases h), ?_⟩
          intro k' hk'
          rw [get_leaf hK hk', ek, hov]
          split <;> rfl
        · refine ⟨true, .short cm (.value v), by rw [hins, if_neg hov], .leaf _ _ hK hv, by simp, by simp,
            (by intro ch h; cases h), ?_⟩
          intro k' hk'
          rw [get_leaf hK hk', get_leaf hK hk', ek]
          split <;> simp [*]
      · subst hc
        have hk2 : TermKey (cm ++ rk) := e1 ▸ hk
        have hrk := term_suffix hK hk2
        obtain ⟨d, nn, hi, hCn, hne, hdf, hfull, hget⟩ := ih rk v hC0 hrk hv
        obtain ⟨ch', hch'⟩ := hfull ch0 rfl
        cases d with
        | false =>
          have := hdf rfl
          subst this
          refine ⟨false, .short cm (.full ch0), by simp [Mpt.insert, hsp, hi], hC, by simp, fun _ => rfl,
            (by intro ch h; cases h), ?_⟩
          intro k' hk'
          by_cases hkk : k' = x :: r
          · subst hkk
            rw [if_pos rfl, get_short, e1, onStrip_some (stripPrefix_append_self cm rk)]
            have := hget rk hrk
            simpa using this
          · rw [if_neg hkk]
        | true =>
          subst hch'
          refine ⟨true, .short cm (.full ch'), by simp [Mpt.insert, hsp, hi], .ext _ _ hKne hK hCn, by simp,
            by simp, (by intro ch h; cases h), ?_⟩
          intro k' hk'
          rw [get_short, get_short]
          cases hs : stripPrefix cm k' with
          | none =>
            rw [onStrip_none hs, onStrip_none hs]
            have : k' ≠ x :: r := by
              intro e; subst e
              rw [e1, stripPrefix_append_self] at hs; cases hs
            simp [this]
          | some r2 =>
            rw [onStrip_some hs, onStrip_some hs]
            have e := stripPrefix_some hs
            subst e
            have hr2 := term_suffix hK hk'
            rw [hget r2 hr2, e1]
            by_cases h : r2 = rk
            · subst h; simp
            · have : ¬ (cm ++ r2 = cm ++ rk) := fun e => h (List.append_cancel_left e)
              simp [h, this]
    | cons kn rK' =>
      cases rk with
      | nil =>
        exfalso
        have ek : x :: r = cm := by simpa using e1
        rw [ek] at hk
        rw [e2] at hC
        rcases canon_short_inv hC with ⟨old, _, hK, _⟩ | ⟨ch0, _, _, hK, _⟩
        · have := term_prefix_eq hk hK
          cases this
        · exact term_noTerm_false hk (noTerm_append.mp hK).1
      | cons kk rk' =>
        have hne : kk ≠ kn := e3 kk kn rk' rK' rfl rfl
        subst e2
        have hk2 : TermKey (cm ++ kk :: rk') := e1 ▸ hk
        obtain ⟨hCb, hgetb⟩ := branch_spec cm rk' rK' kk kn c v hne hk2 hC hv
        have hins : Mpt.insert (.short (cm ++ kn :: rK') c) (x :: r) v = some (true, insertNil cm
            (.full (setChild (setChild (fun _ => .empty) kn (insertNil rK' c)) kk (insertNil rk' (.value v))))) := by
          simp only [Mpt.insert, hsp]
          cases cm <;> rfl
        refine ⟨true, _, hins, hCb, insertNil_ne_empty (by simp), by simp, (by intro ch h; cases h), ?_⟩
        intro k' hk'
        rw [hgetb k' hk', e1]
  | full ch ih =>
    intro k v hC hk hv
    cases k with
    | nil => exact absurd rfl (term_ne_nil hk)
    | cons k0 kr =>
    obtain ⟨hch, h16, h2⟩ := canon_full_inv hC
    have hchild : ∃ d nn, Mpt.insert (ch k0) kr v = some (d, nn) ∧ SlotOk k0 nn ∧ nn ≠ .empty ∧
        (d = false → nn = ch k0) ∧
        ∀ r, TermKey (k0 :: r) → Mpt.get nn r = if r = kr then .found v else Mpt.get (ch k0) r := by
      by_cases hk0 : k0 = 16
      · subst hk0
        have := term_head16 hk
        subst this
        have hslot : SlotOk 16 (.value v) := by
          simp only [SlotOk, if_true]; exact Or.inr ⟨v, hv, rfl⟩
        have hg : ∀ r, TermKey ((16 : Nib) :: r) → Mpt.get (.value v) r = if r = [] then .found v else Mpt.get (ch 16) r := by
          intro r hr
          have := term_head16 hr
          subst this
          simp [Mpt.get]
        rcases h16 with h | ⟨old, hold, h⟩
        · exact ⟨true, .value v, by simp [h, Mpt.insert], hslot, by simp, by simp, hg⟩
        · by_cases hov : old = v
          · exact ⟨false, .value v, by simp [h, Mpt.insert, hov], hslot, by simp, fun _ => by rw [h, hov], hg⟩
          · exact ⟨true, .value v, by simp [h, Mpt.insert, hov], hslot, by simp, by simp, hg⟩
      · have hkr := term_tail hk hk0
        obtain ⟨d, nn, hi, hCn, hne, hdf, _, hget⟩ := ih k0 kr v (hch k0 hk0) hkr hv
        refine ⟨d, nn, hi, by simpa [SlotOk, hk0] using hCn, hne, hdf, ?_⟩
        intro r hr
        exact hget r (term_tail hr hk0)
    obtain ⟨d, nn, hi, hslot, hne, hdf, hget⟩ := hchild
    cases d with
    | false =>
      have := hdf rfl
      subst this
      refine ⟨false, .full ch, by simp [Mpt.insert, hi], hC, by simp, fun _ => rfl, fun _ _ => ⟨ch, rfl⟩, ?_⟩
      intro k' hk'
      by_cases hkk : k' = k0 :: kr
      · subst hkk
        rw [if_pos rfl, get_full_cons]
        have := hget kr hk
        simpa using this
      · rw [if_neg hkk]
    | true =>
      refine ⟨true, .full (setChild ch k0 nn), by simp [Mpt.insert, hi], ?_, by simp, by simp,
        fun _ _ => ⟨_, rfl⟩, ?_⟩
      · apply canon_full_of_slots
        · intro i
          simp only [setChild]
          by_cases h : i = k0
          · subst h; simpa using hslot
          · simpa [h] using slots_of_canon_full hC i
        · obtain ⟨i, j, hij, hi', hj'⟩ := h2
          refine ⟨i, j, hij, ?_, ?_⟩ <;> simp only [setChild] <;> split <;> assumption
      · intro k' hk'
        cases k' with
        | nil => exact absurd rfl (term_ne_nil hk')
        | cons x r =>
          rw [get_full_cons, get_full_cons]
          simp only [setChild]
          by_cases h : x = k0
          · subst h
            rw [if_pos rfl, hget r hk']
            by_cases h' : r = kr <;> simp [h']
          · rw [if_neg h]
            have : ¬ (x :: r = k0 :: kr) := by simp [h]
            rw [if_neg this]

/-! ### delete -/

theorem isEmpty_iff (n : Node) : n.isEmpty = true ↔ n = .empty := by
  cases n <;> simp [Node.isEmpty]

theorem mem_nonEmptyIdx (ch : Nib → Node) (i : Nib) : i ∈ nonEmptyIdx ch ↔ ch i ≠ .empty := by
  simp only [nonEmptyIdx, List.mem_filter, List.mem_finRange, true_and]
  cases hc : ch i <;> simp [Node.isEmpty]

theorem nodup_nonEmptyIdx (ch : Nib → Node) : (nonEmptyIdx ch).Nodup :=
  List.Pairwise.filter _ (List.nodup_finRange 17)

/-- the node that `delete` builds from a full node whose children are `ch'` (reduce to a short node
    when a single child is left) -/
def reduceFull (ch' : Nib → Node) : Node :=
  match nonEmptyIdx ch' with
  | [pos] =>
    if pos ≠ 16 then
      match ch' pos with
      | .short ck cv => .short (pos :: ck) cv
      | c => .short [pos] c
    else .short [pos] (ch' pos)
  | _ => .full ch'

theorem reduceFull_spec (ch' : Nib → Node) (hslots : ∀ i, SlotOk i (ch' i)) (hne : ∃ i, ch' i ≠ .empty) :
    Canon (reduceFull ch') ∧ reduceFull ch' ≠ .empty ∧
    ∀ x r, Mpt.get (reduceFull ch') (x :: r) = Mpt.get (ch' x) r := by
  unfold reduceFull
  cases hl : nonEmptyIdx ch' with
  | nil =>
    exfalso
    obtain ⟨i, hi⟩ := hne
    have := (mem_nonEmptyIdx ch' i).mpr hi
    rw [hl] at this; cases this
  | cons pos rest =>
    cases rest with
    | nil =>
      have hpos : ch' pos ≠ .empty := (mem_nonEmptyIdx ch' pos).mp (by rw [hl]; exact List.mem_cons_self)
      have hother : ∀ x, x ≠ pos → ch' x = .empty := by
        intro x hx
        apply Classical.byContradiction
        intro hne'
        have := (mem_nonEmptyIdx ch' x).mpr hne'
        rw [hl] at this
        simp at this
        exact hx this
      have hslot := hslots pos
      simp only
      by_cases h16 : pos = 16
      · subst h16
        simp only [ne_eq, not_true_eq_false, if_false]
        simp only [SlotOk, if_true] at hslot
        rcases hslot with h | ⟨v, hv, h⟩
        · exact absurd h hpos
        · rw [h]
          refine ⟨.leaf _ _ .last hv, by simp, ?_⟩
          intro x r
          rw [get_short]
          by_cases hx : x = 16
          · subst hx; rw [onStrip_cons_self, onStrip_nil, h]
          · rw [onStrip_cons_ne _ _ _ (fun e => hx e.symm), hother x hx]; simp [Mpt.get]
      · simp only [ne_eq, h16, not_false_eq_true, if_true]
        simp only [SlotOk, if_neg h16] at hslot
        cases hc : ch' pos with
        | empty => exact absurd hc hpos
        | value v => rw [hc] at hslot; exact absurd hslot canon_value_false
        | short ck cv =>
          rw [hc] at hslot
          simp only
          refine ⟨?_, by simp, ?_⟩
          · rcases canon_short_inv hslot with ⟨v, hcv, hK, hv⟩ | ⟨ch0, hcv, hKne, hK, hC0⟩
            · subst hcv; exact .leaf _ _ (.cons _ _ h16 hK) hv
            · subst hcv; exact .ext _ _ (by simp) (noTerm_cons.mpr ⟨h16, hK⟩) hC0
          · intro x r
            rw [get_short]
            by_cases hx : x = pos
            · subst hx; rw [onStrip_cons_self, hc, get_short]
            · rw [onStrip_cons_ne _ _ _ (fun e => hx e.symm), hother x hx]; simp [Mpt.get]
        | full ch0 =>
          rw [hc] at hslot
          simp only
          refine ⟨.ext _ _ (by simp) (noTerm_cons.mpr ⟨h16, noTerm_nil⟩) hslot, by simp, ?_⟩
          intro x r
          rw [get_short]
          by_cases hx : x = pos
          · subst hx; rw [onStrip_cons_self, onStrip_nil, hc]
          · rw [onStrip_cons_ne _ _ _ (fun e => hx e.symm), hother x hx]; simp [Mpt.get]
    | cons b rest' =>
      simp only
      have hnd := nodup_nonEmptyIdx ch'
      rw [hl] at hnd
      have hab : pos ≠ b := by
        intro e; subst e
        simp at hnd
      have ha : ch' pos ≠ .empty := (mem_nonEmptyIdx ch' pos).mp (by rw [hl]; simp)
      have hb : ch' b ≠ .empty := (mem_nonEmptyIdx ch' b).mp (by rw [hl]; simp)
      exact ⟨canon_full_of_slots hslots ⟨pos, b, hab, ha, hb⟩, by simp, fun x r => get_full_cons _ _ _⟩

theorem delete_full_eq (ch : Nib → Node) (k0 : Nib) (kr : List Nib) (nn : Node)
    (h : Mpt.delete (ch k0) kr = some (true, nn)) :
    Mpt.delete (.full ch) (k0 :: kr) = some (true, reduceFull (setChild ch k0 nn)) := by
  simp only [Mpt.delete, h, reduceFull]
  cases hl : nonEmptyIdx (setChild ch k0 nn) with
  | nil => rfl
  | cons pos rest =>
    cases rest with
    | cons b r => rfl
    | nil =>
      simp only
      by_cases h16 : pos = 16
      · simp [h16]
      · simp only [ne_eq, h16, not_false_eq_true, if_true]
        cases setChild ch k0 nn pos <;> rfl

theorem delete_short_eq (K : List Nib) (c : Node) (k cm : List Nib) (y : Nib) (rk' : List Nib)
    (hsp : splitPrefix k K = (cm, y :: rk', [])) :
    Mpt.delete (.short K c) k =
      (match Mpt.delete c (y :: rk') with
        | none => none
        | some (false, _) => some (false, .short K c)
        | some (true, child) =>
          match child with
          | .short ck cv => some (true, .short (K ++ ck) cv)
          | _ => some (true, .short K child)) := by
  simp only [Mpt.delete, hsp]
  cases Mpt.delete c (y :: rk') with
  | none => rfl
  | some p =>
    obtain ⟨d, child⟩ := p
    cases d
    · rfl
    · cases child <;> rfl

theorem delete_spec (n : Node) : ∀ (k : List Nib), Canon n → TermKey k →
    ∃ d n', Mpt.delete n k = some (d, n') ∧ Canon n' ∧ (d = false → n' = n) ∧
      (∀ ch, n = .full ch → n' ≠ .empty) ∧
      (∀ k', TermKey k' → Mpt.get n' k' = if k' = k then .absent else Mpt.get n k') := by
  induction n with
  | empty =>
    intro k _ _
    refine ⟨false, .empty, by simp [Mpt.delete], .empty, fun _ => rfl, (by intro ch h; cases h), ?_⟩
    intro k' _
    simp [Mpt.get]
  | value old => intro k hC; exact absurd hC canon_value_false
  | short K c ih =>
    intro k hC hk
    obtain ⟨e1, e2, e3⟩ := splitPrefix_spec k K
    cases hsp : splitPrefix k K with
    | mk cm rest =>
    cases rest with
    | mk rk rK =>
    rw [hsp] at e1 e2 e3
    simp only at e1 e2 e3
    cases rK with
    | cons kn rK' =>
      refine ⟨false, .short K c, by simp [Mpt.delete, hsp], hC, fun _ => rfl, (by intro ch h; cases h), ?_⟩
      intro k' _
      by_cases hkk : k' = k
      · subst hkk
        rw [if_pos rfl, get_short]
        cases hs : stripPrefix K k' with
        | none => rw [onStrip_none hs]
        | some r2 =>
          exfalso
          have e := stripPrefix_some hs
          rw [e2, e1] at e
          have : rk = kn :: (rK' ++ r2) := by
            have := List.append_cancel_left (by simpa using e : cm ++ rk = cm ++ (kn :: (rK' ++ r2)))
            exact this
          exact e3 kn kn (rK' ++ r2) rK' this rfl rfl
      · rw [if_neg hkk]
    | nil =>
      have eK : cm = K := by simpa using e2.symm
      subst eK
      cases rk with
      | nil =>
        have ek : k = cm := by simpa using e1
        subst ek
        rcases canon_short_inv hC with ⟨old, hc, hK, hold⟩ | ⟨ch0, hc, hKne, hK, hC0⟩
        · subst hc
          refine ⟨true, .empty, by simp [Mpt.delete, hsp], .empty, by simp, (by intro ch h; cases h), ?_⟩
          intro k' hk'
          rw [get_leaf hK hk']
          simp [Mpt.get]
        · exact absurd hK (fun h => term_noTerm_false hk h)
      | cons y rk' =>
        rcases canon_short_inv hC with ⟨old, hc, hK, hold⟩ | ⟨ch0, hc, hKne, hK, hC0⟩
        · exfalso
          have hk2 : TermKey (cm ++ y :: rk') := e1 ▸ hk
          have := term_prefix_eq hK hk2
          cases this
        · subst hc
          have hk2 : TermKey (cm ++ y :: rk') := e1 ▸ hk
          have hrk := term_suffix hK hk2
          obtain ⟨d, child, hd, hCc, hdf, hnee, hget⟩ := ih (y :: rk') hC0 hrk
          cases d with
          | false =>
            have := hdf rfl
            subst this
            refine ⟨false, .short cm (.full ch0), by rw [delete_short_eq _ _ _ _ _ _ hsp, hd], hC, fun _ => rfl,
              (by intro ch h; cases h), ?_⟩
            intro k' hk'
            by_cases hkk : k' = k
            · subst hkk
              rw [if_pos rfl, get_short, e1, onStrip_some (stripPrefix_append_self cm (y :: rk'))]
              have := hget (y :: rk') hrk
              simpa using this
            · rw [if_neg hkk]
          | true =>
            have hne := hnee ch0 rfl
            -- the node built from the new child, and its lookup function
            have key : ∃ n', Mpt.delete (.short cm (.full ch0)) k = some (true, n') ∧ Canon n' ∧
                ∀ k', Mpt.get n' k' = onStrip cm k' (Mpt.get child) := by
              cases hch : child with
              | empty => exact absurd hch hne
              | value v => rw [hch] at hCc; exact absurd hCc canon_value_false
              | full ch' =>
                rw [hch] at hCc hd
                refine ⟨.short cm (.full ch'), by rw [delete_short_eq _ _ _ _ _ _ hsp, hd], .ext _ _ hKne hK hCc, ?_⟩
                intro k'; rw [get_short]
              | short ck cv =>
                rw [hch] at hCc hd
                refine ⟨.short (cm ++ ck) cv, by rw [delete_short_eq _ _ _ _ _ _ hsp, hd], ?_, ?_⟩
                · rcases canon_short_inv hCc with ⟨v, hcv, hck, hv⟩ | ⟨ch1, hcv, hckne, hck, hC1⟩
                  · subst hcv; exact .leaf _ _ (term_append hK hck) hv
                  · subst hcv; exact .ext _ _ (by simp [hKne]) (noTerm_append.mpr ⟨hK, hck⟩) hC1
                · intro k'
                  rw [get_short, onStrip_append]
                  have : (fun r => onStrip ck r (Mpt.get cv)) = Mpt.get (.short ck cv) := by
                    funext r; exact (get_short ck cv r).symm
                  rw [this]
            obtain ⟨n', hdel, hCn, hgetn⟩ := key
            refine ⟨true, n', hdel, hCn, by simp, (by intro ch h; cases h), ?_⟩
            intro k' hk'
            rw [hgetn, get_short]
            cases hs : stripPrefix cm k' with
            | none =>
              rw [onStrip_none hs, onStrip_none hs]
              have : k' ≠ k := by
                intro e; subst e
                rw [e1, stripPrefix_append_self] at hs; cases hs
              simp [this]
            | some r2 =>
              rw [onStrip_some hs, onStrip_some hs]
              have e := stripPrefix_some hs
              subst e
              have hr2 := term_suffix hK hk'
              rw [hget r2 hr2, e1]
              by_cases h : r2 = y :: rk'
              · subst h; simp
              · have : ¬ (cm ++ r2 = cm ++ y :: rk') := fun e => h (List.append_cancel_left e)
                simp [h, this]
  | full ch ih =>
    intro k hC hk
    cases k with
    | nil => exact absurd rfl (term_ne_nil hk)
    | cons k0 kr =>
    obtain ⟨hch, h16, h2⟩ := canon_full_inv hC
    have hchild : ∃ d nn, Mpt.delete (ch k0) kr = some (d, nn) ∧ SlotOk k0 nn ∧ (d = false → nn = ch k0) ∧
        ∀ r, TermKey (k0 :: r) → Mpt.get nn r = if r = kr then .absent else Mpt.get (ch k0) r := by
      by_cases hk0 : k0 = 16
      · subst hk0
        have := term_head16 hk
        subst this
        have hg : ∀ r, TermKey ((16 : Nib) :: r) → Mpt.get .empty r = if r = [] then .absent else Mpt.get (ch 16) r := by
          intro r hr
          have := term_head16 hr
          subst this
          simp [Mpt.get]
        rcases h16 with h | ⟨old, hold, h⟩
        · exact ⟨false, .empty, by simp [h, Mpt.delete], by simp [SlotOk], fun _ => h.symm, hg⟩
        · exact ⟨true, .empty, by simp [h, Mpt.delete], by simp [SlotOk], by simp, hg⟩
      · have hkr := term_tail hk hk0
        obtain ⟨d, nn, hi, hCn, hdf, _, hget⟩ := ih k0 kr (hch k0 hk0) hkr
        refine ⟨d, nn, hi, by simpa [SlotOk, hk0] using hCn, hdf, ?_⟩
        intro r hr
        exact hget r (term_tail hr hk0)
    obtain ⟨d, nn, hi, hslot, hdf, hget⟩ := hchild
    cases d with
    | false =>
      have := hdf rfl
      subst this
      refine ⟨false, .full ch, by simp [Mpt.delete, hi], hC, fun _ => rfl, by simp, ?_⟩
      intro k' hk'
      by_cases hkk : k' = k0 :: kr
      · subst hkk
        rw [if_pos rfl, get_full_cons]
        have := hget kr hk
        simpa using this
      · rw [if_neg hkk]
    | true =>
      have hslots : ∀ i, SlotOk i (setChild ch k0 nn i) := by
        intro i
        simp only [setChild]
        by_cases h : i = k0
        · subst h; simpa using hslot
        · simpa [h] using slots_of_canon_full hC i
      have hne : ∃ i, setChild ch k0 nn i ≠ .empty := by
        obtain ⟨i, j, hij, hi', hj'⟩ := h2
        by_cases h : i = k0
        · refine ⟨j, ?_⟩
          have : j ≠ k0 := fun e => hij (h.trans e.symm)
          simpa [setChild, this] using hj'
        · exact ⟨i, by simpa [setChild, h] using hi'⟩
      obtain ⟨hCr, hner, hgetr⟩ := reduceFull_spec _ hslots hne
      refine ⟨true, _, delete_full_eq ch k0 kr nn hi, hCr, by simp, fun _ _ => hner, ?_⟩
      intro k' hk'
      cases k' with
      | nil => exact absurd rfl (term_ne_nil hk')
      | cons x r =>
        rw [hgetr, get_full_cons]
        simp only [setChild]
        by_cases h : x = k0
        · subst h
          rw [if_pos rfl, hget r hk']
          by_cases h' : r = kr <;> simp [h']
        · rw [if_neg h]
          have : ¬ (x :: r = k0 :: kr) := by simp [h]
          rw [if_neg this]

/-! ### histories -/

/-- one trie operation on a hex key: `TryUpdate(key, value)` (an empty value deletes) / `TryDelete(key)` -/
inductive Op where
  | put (k : List Nib) (v : Val)
  | del (k : List Nib)

def Op.key : Op → List Nib
  | .put k _ => k
  | .del k => k

/-- the implementation's step (`none` = panic) -/
def stepOp (t : Node) : Op → Option Node
  | .put k v => Mpt.update t k v
  | .del k => Mpt.remove t k

def run : Node → List Op → Option Node
  | t, [] => some t
  | t, op :: ops =>
    match stepOp t op with
    | none => none
    | some t' => run t' ops

/-- the specification: a finite map as a function, last write wins, empty value = delete -/
def specStep (m : List Nib → Option Val) : Op → (List Nib → Option Val)
  | .put k v => fun k' => if k' = k then (if v = [] then none else some v) else m k'
  | .del k => fun k' => if k' = k then none else m k'

def spec : (List Nib → Option Val) → List Op → (List Nib → Option Val)
  | m, [] => m
  | m, op :: ops => spec (specStep m op) ops

def toRes : Option Val → GetRes
  | some v => .found v
  | none => .absent

theorem step_spec (t : Node) (m : List Nib → Option Val) (op : Op) (hC : Canon t)
    (hm : ∀ k, TermKey k → Mpt.get t k = toRes (m k)) (hk : TermKey op.key) :
    ∃ t', stepOp t op = some t' ∧ Canon t' ∧ ∀ k, TermKey k → Mpt.get t' k = toRes (specStep m op k) := by
  have hdel : ∀ k0, TermKey k0 → ∃ t', (Mpt.delete t k0).map (·.2) = some t' ∧ Canon t' ∧
      ∀ k, TermKey k → Mpt.get t' k = toRes (if k = k0 then none else m k) := by
    intro k0 hk0
    obtain ⟨d, n', hd, hCn, _, _, hget⟩ := delete_spec t k0 hC hk0
    refine ⟨n', by simp [hd], hCn, ?_⟩
    intro k hk'
    rw [hget k hk']
    by_cases h : k = k0
    · simp [h, toRes]
    · simp [h, hm k hk']
  cases op with
  | del k0 => exact hdel k0 hk
  | put k0 v =>
    cases v with
    | nil =>
      obtain ⟨t', h1, h2, h3⟩ := hdel k0 hk
      exact ⟨t', by simpa [stepOp, Mpt.update] using h1, h2, by simpa [specStep] using h3⟩
    | cons y ys =>
      obtain ⟨d, n', hd, hCn, _, _, _, hget⟩ := insert_spec t k0 (y :: ys) hC hk (by simp)
      refine ⟨n', by simp [stepOp, Mpt.update, hd], hCn, ?_⟩
      intro k hk'
      rw [hget k hk']
      by_cases h : k = k0
      · simp [h, specStep, toRes]
      · simp [h, specStep, hm k hk']

theorem run_spec : ∀ (ops : List Op) (t : Node) (m : List Nib → Option Val), Canon t →
    (∀ k, TermKey k → Mpt.get t k = toRes (m k)) → (∀ op, op ∈ ops → TermKey op.key) →
    ∃ t', run t ops = some t' ∧ Canon t' ∧ ∀ k, TermKey k → Mpt.get t' k = toRes (spec m ops k) := by
  intro ops
  induction ops with
  | nil => intro t m hC hm _; exact ⟨t, rfl, hC, hm⟩
  | cons op ops ih =>
    intro t m hC hm hk
    obtain ⟨t1, h1, hC1, hg1⟩ := step_spec t m op hC hm (hk op List.mem_cons_self)
    obtain ⟨t2, h2, hC2, hg2⟩ := ih t1 (specStep m op) hC1 hg1 (fun o ho => hk o (List.mem_cons_of_mem _ ho))
    exact ⟨t2, by simp [run, h1, h2], hC2, hg2⟩

/-! ### `keybytesToHex` -/

theorem ofNat_ne16 (x : Nat) : (Fin.ofNat 17 (x % 16)) ≠ (16 : Nib) := by
  intro h
  have := congrArg Fin.val h
  simp [Fin.ofNat] at this
  omega

theorem hexKey_term (bs : List Nat) : TermKey (hexKey bs) := by
  induction bs with
  | nil => exact .last
  | cons b bs ih => exact .cons _ _ (ofNat_ne16 _) (.cons _ _ (ofNat_ne16 _) ih)

theorem hexKey_inj : ∀ (a b : List Nat), (∀ x, x ∈ a → x < 256) → (∀ x, x ∈ b → x < 256) →
    hexKey a = hexKey b → a = b := by
  intro a
  induction a with
  | nil =>
    intro b _ _ h
    cases b with
    | nil => rfl
    | cons y b =>
      simp only [hexKey, List.cons.injEq] at h
      exact absurd h.1.symm (ofNat_ne16 _)
  | cons x a ih =>
    intro b ha hb h
    cases b with
    | nil =>
      simp only [hexKey, List.cons.injEq] at h
      exact absurd h.1 (ofNat_ne16 _)
    | cons y b =>
      simp only [hexKey, List.cons.injEq] at h
      obtain ⟨h1, h2, h3⟩ := h
      have hx := ha x List.mem_cons_self
      have hy := hb y List.mem_cons_self
      have e1 := congrArg Fin.val h1
      have e2 := congrArg Fin.val h2
      simp [Fin.ofNat] at e1 e2
      have : x = y := by omega
      subst this
      rw [ih b (fun z hz => ha z (List.mem_cons_of_mem _ hz)) (fun z hz => hb z (List.mem_cons_of_mem _ hz)) h3]

/-! ### canonical tries are determined by their content -/

theorem found_short {K : List Nib} {c : Node} {k : List Nib} {v : Val}
    (h : Mpt.get (.short K c) k = .found v) : ∃ r, k = K ++ r ∧ Mpt.get c r = .found v := by
  rw [get_short] at h
  cases hs : stripPrefix K k with
  | none => rw [onStrip_none hs] at h; cases h
  | some r => rw [onStrip_some hs] at h; exact ⟨r, stripPrefix_some hs, h⟩

theorem get_short_append_self (K : List Nib) (c : Node) (r : List Nib) :
    Mpt.get (.short K c) (K ++ r) = Mpt.get c r := by
  rw [get_short, onStrip_some (stripPrefix_append_self K r)]

/-- every non-empty canonical trie stores at least one key -/
theorem canon_has_key {n : Node} (hC : Canon n) : n ≠ .empty →
    ∃ k v, TermKey k ∧ Mpt.get n k = .found v := by
  induction hC with
  | empty => intro h; exact absurd rfl h
  | leaf K v hK _ => intro _; exact ⟨K, v, hK, by rw [get_leaf hK hK]; simp⟩
  | ext K ch _ hK _ ih =>
    intro _
    obtain ⟨k, v, hk, hg⟩ := ih (by simp)
    exact ⟨K ++ k, v, term_append hK hk, by rw [get_short_append_self]; exact hg⟩
  | full ch h1 h2 h3 ih =>
    intro _
    obtain ⟨i, _, _, hi, _⟩ := h3
    by_cases h16 : i = 16
    · subst h16
      rcases h2 with h | ⟨v, _, h⟩
      · exact absurd h hi
      · exact ⟨[16], v, .last, by rw [get_full_cons, h]; simp [Mpt.get]⟩
    · obtain ⟨k, v, hk, hg⟩ := ih i h16 hi
      exact ⟨i :: k, v, .cons _ _ h16 hk, by rw [get_full_cons]; exact hg⟩

theorem slot_has_key {ch : Nib → Node} (hC : Canon (.full ch)) (x : Nib) (hx : ch x ≠ .empty) :
    ∃ k v, TermKey (x :: k) ∧ Mpt.get (.full ch) (x :: k) = .found v := by
  obtain ⟨h1, h2, _⟩ := canon_full_inv hC
  by_cases h16 : x = 16
  · subst h16
    rcases h2 with h | ⟨v, _, h⟩
    · exact absurd h hx
    · exact ⟨[], v, .last, by rw [get_full_cons, h]; simp [Mpt.get]⟩
  · obtain ⟨k, v, hk, hg⟩ := canon_has_key (h1 x h16) hx
    exact ⟨k, v, .cons _ _ h16 hk, by rw [get_full_cons]; exact hg⟩

theorem two_keys_of_full {ch : Nib → Node} (hC : Canon (.full ch)) :
    ∃ i j k1 k2 v1 v2, i ≠ j ∧ TermKey (i :: k1) ∧ TermKey (j :: k2) ∧
      Mpt.get (.full ch) (i :: k1) = .found v1 ∧ Mpt.get (.full ch) (j :: k2) = .found v2 := by
  obtain ⟨_, _, i, j, hij, hi, hj⟩ := canon_full_inv hC
  obtain ⟨k1, v1, ht1, hg1⟩ := slot_has_key hC i hi
  obtain ⟨k2, v2, ht2, hg2⟩ := slot_has_key hC j hj
  exact ⟨i, j, k1, k2, v1, v2, hij, ht1, ht2, hg1, hg2⟩

theorem two_keys_of_ext {K : List Nib} {ch : Nib → Node} (hK : NoTerm K) (hC : Canon (.full ch)) :
    ∃ i j k1 k2 v1 v2, i ≠ j ∧ TermKey (K ++ i :: k1) ∧ TermKey (K ++ j :: k2) ∧
      Mpt.get (.short K (.full ch)) (K ++ i :: k1) = .found v1 ∧
      Mpt.get (.short K (.full ch)) (K ++ j :: k2) = .found v2 := by
  obtain ⟨i, j, k1, k2, v1, v2, hij, ht1, ht2, hg1, hg2⟩ := two_keys_of_full hC
  exact ⟨i, j, k1, k2, v1, v2, hij, term_append hK ht1, term_append hK ht2,
    by rw [get_short_append_self]; exact hg1, by rw [get_short_append_self]; exact hg2⟩

theorem found_leaf {K : List Nib} {v v' : Val} {k : List Nib} (hK : TermKey K) (hk : TermKey k)
    (h : Mpt.get (.short K (.value v)) k = .found v') : k = K ∧ v' = v := by
  rw [get_leaf hK hk] at h
  by_cases e : k = K
  · rw [if_pos e] at h; injection h with h; exact ⟨e, h.symm⟩
  · rw [if_neg e] at h; cases h

theorem empty_false {b : Node} (hb : Canon b) (hne : b ≠ .empty)
    (hsem : ∀ k, TermKey k → Mpt.get .empty k = Mpt.get b k) : False := by
  obtain ⟨k, v, hk, hg⟩ := canon_has_key hb hne
  have := hsem k hk
  rw [hg] at this
  simp [Mpt.get] at this

theorem leaf_ext_false {K K' : List Nib} {v : Val} {ch' : Nib → Node} (hK : TermKey K)
    (hK' : NoTerm K') (hb : Canon (.full ch'))
    (hsem : ∀ k, TermKey k → Mpt.get (.short K (.value v)) k = Mpt.get (.short K' (.full ch')) k) : False := by
  obtain ⟨i, j, k1, k2, v1, v2, hij, ht1, ht2, hg1, hg2⟩ := two_keys_of_ext hK' hb
  have e1 := (found_leaf hK ht1 ((hsem _ ht1).trans hg1)).1
  have e2 := (found_leaf hK ht2 ((hsem _ ht2).trans hg2)).1
  have := List.append_cancel_left (e1.trans e2.symm)
  simp only [List.cons.injEq] at this
  exact hij this.1

theorem leaf_full_false {K : List Nib} {v : Val} {ch' : Nib → Node} (hK : TermKey K)
    (hb : Canon (.full ch'))
    (hsem : ∀ k, TermKey k → Mpt.get (.short K (.value v)) k = Mpt.get (.full ch') k) : False := by
  obtain ⟨i, j, k1, k2, v1, v2, hij, ht1, ht2, hg1, hg2⟩ := two_keys_of_full hb
  have e1 := (found_leaf hK ht1 ((hsem _ ht1).trans hg1)).1
  have e2 := (found_leaf hK ht2 ((hsem _ ht2).trans hg2)).1
  have := e1.trans e2.symm
  simp only [List.cons.injEq] at this
  exact hij this.1

theorem ext_full_false {K : List Nib} {ch ch' : Nib → Node} (hKne : K ≠ [])
    (hb : Canon (.full ch'))
    (hsem : ∀ k, TermKey k → Mpt.get (.short K (.full ch)) k = Mpt.get (.full ch') k) : False := by
  obtain ⟨i, j, k1, k2, v1, v2, hij, ht1, ht2, hg1, hg2⟩ := two_keys_of_full hb
  obtain ⟨r1, e1, _⟩ := found_short ((hsem _ ht1).trans hg1)
  obtain ⟨r2, e2, _⟩ := found_short ((hsem _ ht2).trans hg2)
  cases K with
  | nil => exact hKne rfl
  | cons x K =>
    simp only [List.cons_append, List.cons.injEq] at e1 e2
    exact hij (e1.1.trans e2.1.symm)

theorem prefix_of_both : ∀ (P K : List Nib) (i j : Nib) (x y r1 r2 : List Nib), i ≠ j →
    stripPrefix P (K ++ i :: x) = some r1 → stripPrefix P (K ++ j :: y) = some r2 → ∃ s, K = P ++ s := by
  intro P
  induction P with
  | nil => intro K _ _ _ _ _ _ _ _ _; exact ⟨K, rfl⟩
  | cons p P ih =>
    intro K i j x y r1 r2 hij h1 h2
    cases K with
    | nil =>
      exfalso
      simp only [List.nil_append, stripPrefix] at h1 h2
      split at h1
      · next e1 =>
        split at h2
        · next e2 => exact hij (e1.symm.trans e2)
        · cases h2
      · cases h1
    | cons q K =>
      simp only [List.cons_append, stripPrefix] at h1 h2
      split at h1
      · next e1 =>
        rw [if_pos e1] at h2
        obtain ⟨s, hs⟩ := ih K i j x y r1 r2 hij h1 h2
        exact ⟨s, by rw [hs, e1]; rfl⟩
      · cases h1

theorem ext_key_eq {K K' : List Nib} {ch ch' : Nib → Node} (hK : NoTerm K) (_hK' : NoTerm K')
    (ha : Canon (.full ch)) (_hb : Canon (.full ch'))
    (hsem : ∀ k, TermKey k → Mpt.get (.short K (.full ch)) k = Mpt.get (.short K' (.full ch')) k) :
    ∃ s, K = K' ++ s := by
  obtain ⟨i, j, k1, k2, v1, v2, hij, ht1, ht2, hg1, hg2⟩ := two_keys_of_ext hK ha
  obtain ⟨r1, e1, _⟩ := found_short ((hsem _ ht1).symm.trans hg1)
  obtain ⟨r2, e2, _⟩ := found_short ((hsem _ ht2).symm.trans hg2)
  have s1 : stripPrefix K' (K ++ i :: k1) = some r1 := by rw [e1]; exact stripPrefix_append_self _ _
  have s2 : stripPrefix K' (K ++ j :: k2) = some r2 := by rw [e2]; exact stripPrefix_append_self _ _
  exact prefix_of_both K' K i j k1 k2 r1 r2 hij s1 s2

/-- **extensionality**: two canonical tries with the same content (the same answer of `get` on every
    terminated key) are the same tree. -/
theorem canon_ext (a : Node) : ∀ (b : Node), Canon a → Canon b →
    (∀ k, TermKey k → Mpt.get a k = Mpt.get b k) → a = b := by
  induction a with
  | empty =>
    intro b _ hb hsem
    apply Classical.byContradiction
    intro hne
    exact empty_false hb (fun e => hne e.symm) hsem
  | value v => intro b ha; exact absurd ha canon_value_false
  | short K c ih =>
    intro b ha hb hsem
    rcases canon_short_inv ha with ⟨v, hc, hK, hv⟩ | ⟨ch, hc, hKne, hK, hCc⟩
    · subst hc
      cases hb with
      | empty => exact absurd (fun k hk => (hsem k hk).symm) (fun h => empty_false ha (by simp) h)
      | leaf K' v' hK' hv' =>
        have h := hsem K' hK'
        rw [get_leaf hK' hK', if_pos rfl] at h
        obtain ⟨e1, e2⟩ := found_leaf hK hK' h
        rw [e1, e2]
      | ext K' ch' _ hK' hC' => exact absurd hsem (fun h => leaf_ext_false hK hK' hC' h)
      | full ch' h1 h2 h3 => exact absurd hsem (fun h => leaf_full_false hK (.full ch' h1 h2 h3) h)
    · subst hc
      cases hb with
      | empty => exact absurd (fun k hk => (hsem k hk).symm) (fun h => empty_false ha (by simp) h)
      | leaf K' v' hK' hv' =>
        exact absurd (fun k hk => (hsem k hk).symm) (fun h => leaf_ext_false hK' hK hCc h)
      | full ch' h1 h2 h3 => exact absurd hsem (fun h => ext_full_false hKne (.full ch' h1 h2 h3) h)
      | ext K' ch' hKne' hK' hC' =>
        obtain ⟨s, hs⟩ := ext_key_eq hK hK' hCc hC' hsem
        obtain ⟨s', hs'⟩ := ext_key_eq hK' hK hC' hCc (fun k hk => (hsem k hk).symm)
        have hlen := congrArg List.length hs
        have hlen' := congrArg List.length hs'
        simp only [List.length_append] at hlen hlen'
        have : s = [] := List.eq_nil_of_length_eq_zero (by omega)
        subst this
        rw [List.append_nil] at hs
        subst hs
        have hchild : ∀ r, TermKey r → Mpt.get (.full ch) r = Mpt.get (.full ch') r := by
          intro r hr
          have := hsem (K ++ r) (term_append hK hr)
          rwa [get_short_append_self, get_short_append_self] at this
        rw [ih (.full ch') hCc hC' hchild]
  | full ch ih =>
    intro b ha hb hsem
    cases hb with
    | empty => exact absurd (fun k hk => (hsem k hk).symm) (fun h => empty_false ha (by simp) h)
    | leaf K' v' hK' hv' =>
      exact absurd (fun k hk => (hsem k hk).symm) (fun h => leaf_full_false hK' ha h)
    | ext K' ch' hKne' hK' hC' =>
      exact absurd (fun k hk => (hsem k hk).symm) (fun h => ext_full_false hKne' ha h)
    | full ch' h1' h2' h3' =>
      obtain ⟨h1, h2, _⟩ := canon_full_inv ha
      have : ch = ch' := by
        funext i
        by_cases h16 : i = 16
        · subst h16
          have h := hsem [16] .last
          rw [get_full_cons, get_full_cons] at h
          rcases h2 with e | ⟨v, _, e⟩ <;> rcases h2' with e' | ⟨v', _, e'⟩
          · rw [e, e']
          · rw [e, e'] at h; simp [Mpt.get] at h
          · rw [e, e'] at h; simp [Mpt.get] at h
          · rw [e, e'] at h; simp only [Mpt.get] at h; injection h with h; rw [e, e', h]
        · apply ih i (ch' i) (h1 i h16) (h1' i h16)
          intro k hk
          have := hsem (i :: k) (.cons _ _ h16 hk)
          rwa [get_full_cons, get_full_cons] at this
      rw [this]

end LemoProofs.MptLemmas

/-
  Helper lemmas for C17 part B (Merkle-Patricia trie of store/trie/trie.go).
-/
import LemoModel.Mpt
namespace LemoProofs.MptLemmas
open LemoModel LemoModel.Mpt

/-! ### hex keys -/

/-- a terminated hex key: nibbles `< 16` followed by exactly one terminator `16` (what `keybytesToHex` yields) -/
inductive TermKey : List Nib → Prop
  | last : TermKey [16]
  | cons (n : Nib) (k : List Nib) : n ≠ 16 → TermKey k → TermKey (n :: k)

/-- a key segment without terminator -/
def NoTerm (k : List Nib) : Prop := ∀ n, n ∈ k → n ≠ 16

theorem noTerm_nil : NoTerm [] := fun _ h => by cases h

theorem noTerm_cons {x : Nib} {k : List Nib} : NoTerm (x :: k) ↔ x ≠ 16 ∧ NoTerm k := by
  constructor
  · intro h
    exact ⟨h x (List.mem_cons_self), fun n hn => h n (List.mem_cons_of_mem _ hn)⟩
  · intro ⟨h1, h2⟩ n hn
    cases hn with
    | head => exact h1
    | tail _ h => exact h2 n h

theorem noTerm_append {a b : List Nib} : NoTerm (a ++ b) ↔ NoTerm a ∧ NoTerm b := by
  constructor
  · intro h
    exact ⟨fun n hn => h n (List.mem_append_left _ hn), fun n hn => h n (List.mem_append_right _ hn)⟩
  · intro ⟨h1, h2⟩ n hn
    rcases List.mem_append.mp hn with h | h
    · exact h1 n h
    · exact h2 n h

theorem term_ne_nil {k : List Nib} (h : TermKey k) : k ≠ [] := by
  cases h <;> simp

theorem term_head16 {r : List Nib} (h : TermKey ((16 : Nib) :: r)) : r = [] := by
  cases h with
  | last => rfl
  | cons _ _ hn _ => exact absurd rfl hn

theorem term_tail {x : Nib} {r : List Nib} (h : TermKey (x :: r)) (hx : x ≠ 16) : TermKey r := by
  cases h with
  | last => exact absurd rfl hx
  | cons _ _ _ hr => exact hr

theorem term_cons_iff {x : Nib} {r : List Nib} :
    TermKey (x :: r) ↔ (x = 16 ∧ r = []) ∨ (x ≠ 16 ∧ TermKey r) := by
  constructor
  · intro h
    by_cases hx : x = 16
    · subst hx; exact Or.inl ⟨rfl, term_head16 h⟩
    · exact Or.inr ⟨hx, term_tail h hx⟩
  · rintro (⟨h1, h2⟩ | ⟨h1, h2⟩)
    · subst h1; subst h2; exact .last
    · exact .cons _ _ h1 h2

theorem term_append {a b : List Nib} (ha : NoTerm a) (hb : TermKey b) : TermKey (a ++ b) := by
  induction a with
  | nil => exact hb
  | cons x a ih =>
    have := noTerm_cons.mp ha
    exact .cons _ _ this.1 (ih this.2)

/-- a terminated key that continues after `a` has no terminator inside `a` -/
theorem term_split {a : List Nib} {x : Nib} {r : List Nib} (h : TermKey (a ++ x :: r)) :
    NoTerm a ∧ TermKey (x :: r) := by
  induction a with
  | nil => exact ⟨noTerm_nil, h⟩
  | cons y a ih =>
    rcases term_cons_iff.mp h with ⟨_, h2⟩ | ⟨h1, h2⟩
    · cases a <;> cases h2
    · have := ih h2
      exact ⟨noTerm_cons.mpr ⟨h1, this.1⟩, this.2⟩

theorem term_suffix {a b : List Nib} (ha : NoTerm a) (h : TermKey (a ++ b)) : TermKey b := by
  induction a with
  | nil => exact h
  | cons x a ih =>
    have hx := noTerm_cons.mp ha
    exact ih hx.2 (term_tail h hx.1)

/-- terminated keys are prefix free -/
theorem term_prefix_eq {a r : List Nib} (ha : TermKey a) (h : TermKey (a ++ r)) : r = [] := by
  induction ha with
  | last => exact term_head16 h
  | cons n k hn _ ih => exact ih (term_tail h hn)

theorem term_noTerm_false {a : List Nib} (ha : TermKey a) (hn : NoTerm a) : False := by
  induction ha with
  | last => exact hn 16 (List.mem_cons_self) rfl
  | cons n k _ _ ih => exact ih (noTerm_cons.mp hn).2

/-! ### splitPrefix / stripPrefix -/

theorem splitPrefix_spec (a b : List Nib) :
    a = (splitPrefix a b).1 ++ (splitPrefix a b).2.1 ∧ b = (splitPrefix a b).1 ++ (splitPrefix a b).2.2 ∧
    (∀ x y xs ys, (splitPrefix a b).2.1 = x :: xs → (splitPrefix a b).2.2 = y :: ys → x ≠ y) := by
  induction a generalizing b with
  | nil => simp [splitPrefix]
  | cons x a ih =>
    cases b with
    | nil => simp [splitPrefix]
    | cons y b =>
      by_cases hxy : x = y
      · subst hxy
        simp only [splitPrefix, if_true]
        obtain ⟨h1, h2, h3⟩ := ih b
        refine ⟨by simp [← h1], by simp [← h2], h3⟩
      · simp only [splitPrefix, if_neg hxy]
        refine ⟨rfl, rfl, ?_⟩
        intro x' y' xs ys h1 h2
        simp only [List.cons.injEq] at h1 h2
        rw [← h1.1, ← h2.1]; exact hxy

theorem stripPrefix_append_self (a r : List Nib) : stripPrefix a (a ++ r) = some r := by
  induction a with
  | nil => simp [stripPrefix]
  | cons x a ih => simp [stripPrefix, ih]

theorem stripPrefix_some {a k r : List Nib} (h : stripPrefix a k = some r) : k = a ++ r := by
  induction a generalizing k with
  | nil => simp [stripPrefix] at h; simp [h]
  | cons x a ih =>
    cases k with
    | nil => simp [stripPrefix] at h
    | cons y k =>
      simp only [stripPrefix] at h
      split at h
      · next hxy => subst hxy; simp [ih h]
      · cases h

theorem stripPrefix_append (a b k : List Nib) :
    stripPrefix (a ++ b) k = (stripPrefix a k).bind (stripPrefix b) := by
  induction a generalizing k with
  | nil => simp [stripPrefix]
  | cons x a ih =>
    cases k with
    | nil => simp [stripPrefix]
    | cons y k =>
      simp only [List.cons_append, stripPrefix]
      split
      · exact ih k
      · simp

theorem stripPrefix_cons_ne {x y : Nib} (a k : List Nib) (h : x ≠ y) : stripPrefix (x :: a) (y :: k) = none := by
  simp [stripPrefix, h]

/-- two terminated keys: one is a prefix of the other only if they are equal -/
theorem stripPrefix_term {k k' r : List Nib} (hk : TermKey k) (hk' : TermKey k')
    (h : stripPrefix k k' = some r) : k' = k ∧ r = [] := by
  have e := stripPrefix_some h
  subst e
  have := term_prefix_eq hk hk'
  subst this
  simp

/-! ### get on short nodes -/

/-- `f` on the rest of `k` after the prefix `p`, `absent` if `p` is not a prefix -/
def onStrip (p k : List Nib) (f : List Nib → GetRes) : GetRes :=
  match stripPrefix p k with
  | none => .absent
  | some r => f r

theorem onStrip_none {p k : List Nib} {f : List Nib → GetRes} (h : stripPrefix p k = none) :
    onStrip p k f = .absent := by simp [onStrip, h]

theorem onStrip_some {p k r : List Nib} {f : List Nib → GetRes} (h : stripPrefix p k = some r) :
    onStrip p k f = f r := by simp [onStrip, h]

theorem onStrip_nil (k : List Nib) (f : List Nib → GetRes) : onStrip [] k f = f k := by
  simp [onStrip, stripPrefix]

theorem onStrip_cons_ne {x y : Nib} (a k : List Nib) (f : List Nib → GetRes) (h : x ≠ y) :
    onStrip (x :: a) (y :: k) f = .absent := by
  simp [onStrip, stripPrefix, h]

theorem onStrip_cons_self (x : Nib) (a k : List Nib) (f : List Nib → GetRes) :
    onStrip (x :: a) (x :: k) f = onStrip a k f := by
  simp [onStrip, stripPrefix]

theorem onStrip_self (a : List Nib) (f : List Nib → GetRes) : onStrip a a f = f [] := by
  have := stripPrefix_append_self a []
  rw [List.append_nil] at this
  simp [onStrip, this]

theorem onStrip_append (a b k : List Nib) (f : List Nib → GetRes) :
    onStrip (a ++ b) k f = onStrip a k (fun r => onStrip b r f) := by
  simp only [onStrip, stripPrefix_append]
  cases stripPrefix a k <;> simp

theorem get_short (K : List Nib) (c : Node) (k : List Nib) :
    Mpt.get (.short K c) k = onStrip K k (Mpt.get c) := by
  simp only [Mpt.get, onStrip]
  cases stripPrefix K k <;> rfl

theorem get_insertNil (b : List Nib) (c : Node) (r : List Nib) :
    Mpt.get (insertNil b c) r = onStrip b r (Mpt.get c) := by
  cases b with
  | nil => simp [insertNil, onStrip_nil]
  | cons x b => simp only [insertNil, get_short]

theorem get_full_cons (ch : Nib → Node) (x : Nib) (r : List Nib) :
    Mpt.get (.full ch) (x :: r) = Mpt.get (ch x) r := by
  simp [Mpt.get]

/-! ### the canonical-shape invariant -/

/-- canonical shape of a trie over terminated keys: leaves carry non-empty values, a short node is
    either a leaf (key ends with the terminator) or an extension in front of a full node, a full node
    has at least two non-nil children and only a value (or nil) in slot 16. -/
inductive Canon : Node → Prop
  | empty : Canon .empty
  | leaf (K : List Nib) (v : Val) : TermKey K → v ≠ [] → Canon (.short K (.value v))
  | ext (K : List Nib) (ch : Nib → Node) : K ≠ [] → NoTerm K → Canon (.full ch) → Canon (.short K (.full ch))
  | full (ch : Nib → Node) : (∀ i, i ≠ 16 → Canon (ch i)) →
      (ch 16 = .empty ∨ ∃ v, v ≠ [] ∧ ch 16 = .value v) →
      (∃ i j, i ≠ j ∧ ch i ≠ .empty ∧ ch j ≠ .empty) → Canon (.full ch)

theorem canon_short_inv {K : List Nib} {c : Node} (h : Canon (.short K c)) :
    (∃ v, c = .value v ∧ TermKey K ∧ v ≠ []) ∨
    (∃ ch, c = .full ch ∧ K ≠ [] ∧ NoTerm K ∧ Canon (.full ch)) := by
  cases h with
  | leaf _ v h1 h2 => exact Or.inl ⟨v, rfl, h1, h2⟩
  | ext _ ch h1 h2 h3 => exact Or.inr ⟨ch, rfl, h1, h2, h3⟩

theorem canon_full_inv {ch : Nib → Node} (h : Canon (.full ch)) :
    (∀ i, i ≠ 16 → Canon (ch i)) ∧ (ch 16 = .empty ∨ ∃ v, v ≠ [] ∧ ch 16 = .value v) ∧
    (∃ i j, i ≠ j ∧ ch i ≠ .empty ∧ ch j ≠ .empty) := by
  cases h with
  | full _ h1 h2 h3 => exact ⟨h1, h2, h3⟩

theorem canon_value_false {v : Val} (h : Canon (.value v)) : False := by cases h

theorem insertNil_ne_empty {b : List Nib} {c : Node} (h : c ≠ .empty) : insertNil b c ≠ .empty := by
  cases b with
  | nil => simpa [insertNil] using h
  | cons x b => simp [insertNil]

theorem get_leaf {K : List Nib} {v : Val} {k' : List Nib} (hK : TermKey K) (hk' : TermKey k') :
    Mpt.get (.short K (.value v)) k' = if k' = K then .found v else .absent := by
  rw [get_short]
  cases h : stripPrefix K k' with
  | none =>
    rw [onStrip_none h]
    have : k' ≠ K := by
      intro e; subst e
      have := stripPrefix_append_self k' []
      simp [h] at this
    simp [this]
  | some r =>
    rw [onStrip_some h]
    have := (stripPrefix_term hK hk' h).1
    simp [this, Mpt.get]

/-- what a child placed below a full node (after the nibble `i`) must look like -/
def SlotOk (i : Nib) (n : Node) : Prop :=
  if i = 16 then (n = .empty ∨ ∃ v, v ≠ [] ∧ n = .value v) else Canon n

theorem canon_full_of_slots {ch : Nib → Node} (h : ∀ i, SlotOk i (ch i))
    (h2 : ∃ i j, i ≠ j ∧ ch i ≠ .empty ∧ ch j ≠ .empty) : Canon (.full ch) := by
  refine .full ch (fun i hi => ?_) ?_ h2
  · have := h i; simpa [SlotOk, hi] using this
  · have := h 16; simpa [SlotOk] using this

theorem slots_of_canon_full {ch : Nib → Node} (h : Canon (.full ch)) (i : Nib) : SlotOk i (ch i) := by
  obtain ⟨h1, h2, _⟩ := canon_full_inv h
  by_cases hi : i = 16
  · subst hi; simpa [SlotOk] using h2
  · simpa [SlotOk, hi] using h1 i hi

/-- the rest `insertNil r c` of a short node `short (cm ++ x :: r) c`, hung below nibble `x` of a full node -/
theorem slot_of_short_rest {cm r : List Nib} {x : Nib} {c : Node} (h : Canon (.short (cm ++ x :: r) c)) :
    SlotOk x (insertNil r c) ∧ insertNil r c ≠ .empty := by
  rcases canon_short_inv h with ⟨v, hc, hK, hv⟩ | ⟨ch, hc, _, hK, hC⟩
  · subst hc
    have hx := (term_split hK).2
    refine ⟨?_, insertNil_ne_empty (by simp)⟩
    by_cases hx16 : x = 16
    · subst hx16
      have := term_head16 hx
      subst this
      simp only [SlotOk, if_true, insertNil]
      exact Or.inr ⟨v, hv, rfl⟩
    · have hr := term_tail hx hx16
      simp only [SlotOk, if_neg hx16]
      cases r with
      | nil => exact absurd rfl (term_ne_nil hr)
      | cons y r => exact .leaf _ _ hr hv
  · subst hc
    have h1 := (noTerm_append.mp hK).2
    have h2 := noTerm_cons.mp h1
    refine ⟨?_, insertNil_ne_empty (by simp)⟩
    simp only [SlotOk, if_neg h2.1]
    cases r with
    | nil => exact hC
    | cons y r => exact .ext _ _ (by simp) h2.2 hC

/-- the branch built by `insert` when the key leaves a short node in the middle -/
theorem branch_spec (cm rk' rK' : List Nib) (kk kn : Nib) (c : Node) (v : Val) (hne : kk ≠ kn)
    (hk : TermKey (cm ++ kk :: rk')) (hK : Canon (.short (cm ++ kn :: rK') c)) (hv : v ≠ []) :
    Canon (insertNil cm (.full (setChild (setChild (fun _ => .empty) kn (insertNil rK' c)) kk
        (insertNil rk' (.value v))))) ∧
    ∀ k', TermKey k' →
      Mpt.get (insertNil cm (.full (setChild (setChild (fun _ => .empty) kn (insertNil rK' c)) kk
        (insertNil rk' (.value v))))) k' =
      if k' = cm ++ kk :: rk' then .found v else Mpt.get (.short (cm ++ kn :: rK') c) k' := by
  obtain ⟨hcm, hkk⟩ := term_split hk
  obtain ⟨hslotK, hneK⟩ := slot_of_short_rest hK
  have hslotk : SlotOk kk (insertNil rk' (.value v)) ∧ insertNil rk' (.value v) ≠ .empty :=
    slot_of_short_rest (cm := cm) (.leaf _ _ hk hv)
  have hbranch : Canon (.full (setChild (setChild (fun _ => .empty) kn (insertNil rK' c)) kk
      (insertNil rk' (.value v)))) := by
    apply canon_full_of_slots
    · intro i
      simp only [setChild]
      by_cases h1 : i = kk
      · subst h1; simpa using hslotk.1
      · by_cases h2 : i = kn
        · subst h2; simpa [h1] using hslotK
        · simp only [if_neg h1, if_neg h2]
          by_cases h16 : i = 16
          · simp [SlotOk, h16]
          · simp only [SlotOk, if_neg h16]; exact .empty
    · refine ⟨kk, kn, hne, ?_, ?_⟩
      · simpa [setChild] using hslotk.2
      · have : kn ≠ kk := fun e => hne e.symm
        simpa [setChild, this] using hneK
  constructor
  · cases cm with
    | nil => simpa [insertNil] using hbranch
    | cons y cm => exact .ext _ _ (by simp) hcm hbranch
  · intro k' hk'
    rw [get_insertNil, get_short, onStrip_append]
    cases hs : stripPrefix cm k' with
    | none =>
      rw [onStrip_none hs, onStrip_none hs]
      have : k' ≠ cm ++ kk :: rk' := by
        intro e; subst e
        rw [stripPrefix_append_self] at hs; cases hs
      simp [this]
    | some r =>
      rw [onStrip_some hs, onStrip_some hs]
      have e := stripPrefix_some hs
      subst e
      cases r with
      | nil =>
        exfalso
        rw [List.append_nil] at hk'
        have := term_prefix_eq hk' hk
        cases this
      | cons x r =>
        rw [get_full_cons]
        simp only [setChild]
        by_cases h1 : x = kk
        · subst h1
          rw [if_pos rfl, get_insertNil]
          have hne' : x ≠ kn := hne
          rw [onStrip_cons_ne _ _ _ (fun e => hne' e.symm)]
          cases hs2 : stripPrefix rk' r with
          | none =>
            rw [onStrip_none hs2]
            have : ¬ (cm ++ x :: r = cm ++ x :: rk') := by
              intro e
              have : r = rk' := by simpa using e
              subst this
              have h3 := stripPrefix_append_self r []
              rw [List.append_nil, hs2] at h3
              cases h3
            simp [this]
          | some r2 =>
            rw [onStrip_some hs2]
            have e2 := stripPrefix_some hs2
            subst e2
            have hk2 : TermKey ((cm ++ x :: rk') ++ r2) := by simpa using hk'
            have := term_prefix_eq hk hk2
            subst this
            simp [Mpt.get]
        · rw [if_neg h1]
          have hkne : ¬ (cm ++ x :: r = cm ++ kk :: rk') := by
            intro e
            have := (List.append_cancel_left e)
            simp only [List.cons.injEq] at this
            exact h1 this.1
          rw [if_neg hkne]
          by_cases h2 : x = kn
          · subst h2
            rw [if_pos rfl, get_insertNil, onStrip_cons_self]
          · rw [if_neg h2, onStrip_cons_ne _ _ _ (fun e => h2 e.symm)]
            simp [Mpt.get]

/-! ### insert -/

theorem insert_spec (n : Node) : ∀ (k : List Nib) (v : Val), Canon n → TermKey k → v ≠ [] →
    ∃ d n', Mpt.insert n k v = some (d, n') ∧ Canon n' ∧ n' ≠ .empty ∧ (d = false → n' = n) ∧
      (∀ ch, n = .full ch → ∃ ch', n' = .full ch') ∧
      (∀ k', TermKey k' → Mpt.get n' k' = if k' = k then .found v else Mpt.get n k') := by
  induction n with
  | empty =>
    intro k v _ hk hv
    cases k with
    | nil => exact absurd rfl (term_ne_nil hk)
    | cons x r =>
      refine ⟨true, .short (x :: r) (.value v), by simp [Mpt.insert], .leaf _ _ hk hv, by simp, by simp,
        by intro ch h; cases h, ?_⟩
      intro k' hk'
      rw [get_leaf hk hk']; simp [Mpt.get]
  | value old => intro k v hC; exact absurd hC canon_value_false
  | short K c ih =>
    intro k v hC hk hv
    cases k with
    | nil => exact absurd rfl (term_ne_nil hk)
    | cons x r =>
    obtain ⟨e1, e2, e3⟩ := splitPrefix_spec (x :: r) K
    cases hsp : splitPrefix (x :: r) K with
    | mk cm rest =>
    cases rest with
    | mk rk rK =>
    rw [hsp] at e1 e2 e3
    simp only at e1 e2 e3
    cases rK with
    | nil =>
      have eK : cm = K := by simpa using e2.symm
      subst eK
      rcases canon_short_inv hC with ⟨old, hc, hK, hold⟩ | ⟨ch0, hc, hKne, hK, hC0⟩
      · subst hc
        have hk2 : TermKey (cm ++ rk) := e1 ▸ hk
        have := term_prefix_eq hK hk2
        subst this
        have ek : x :: r = cm := by simpa using e1
        have hins : Mpt.insert (.short cm (.value old)) (x :: r) v =
            (if old = v then some (false, .short cm (.value old)) else some (true, .short cm (.value v))) := by
          simp only [Mpt.insert, hsp]
          by_cases h : old = v <;> simp [h]
        by_cases hov : old = v
        · refine ⟨false, _, by rw [hins, if_pos hov], hC, by simp, fun _ => rfl, by intro ch h; cases h, ?_⟩
          intro k' hk'
          rw [get_leaf hK hk', ek, hov]
          split <;> rfl
        · refine ⟨true, .short cm (.value v), by rw [hins, if_neg hov], .leaf _ _ hK hv, by simp, by simp,
            by intro ch h; cases h, ?_⟩
          intro k' hk'
          rw [get_leaf hK hk', get_leaf hK hk', ek]
          split <;> simp [*]
      · subst hc
        have hk2 : TermKey (cm ++ rk) := e1 ▸ hk
        have hrk := term_suffix hK hk2
        obtain ⟨d, nn, hi, hCn, hne, hdf, hfull, hget⟩ := ih rk v hC0 hrk hv
        obtain ⟨ch', hch'⟩ := hfull ch0 rfl
        cases d with
        | false =>
          have := hdf rfl
          subst this
          refine ⟨false, .short cm (.full ch0), by simp [Mpt.insert, hsp, hi], hC, by simp, fun _ => rfl,
            by intro ch h; cases h, ?_⟩
          intro k' hk'
          by_cases hkk : k' = x :: r
          · subst hkk
            rw [if_pos rfl, get_short, e1, onStrip_some (stripPrefix_append_self cm rk)]
            have := hget rk hrk
            simpa using this
          · rw [if_neg hkk]
        | true =>
          subst hch'
          refine ⟨true, .short cm (.full ch'), by simp [Mpt.insert, hsp, hi], .ext _ _ hKne hK hCn, by simp,
            by simp, by intro ch h; cases h, ?_⟩
          intro k' hk'
          rw [get_short, get_short]
          cases hs : stripPrefix cm k' with
          | none =>
            rw [onStrip_none hs, onStrip_none hs]
            have : k' ≠ x :: r := by
              intro e; subst e
              rw [e1, stripPrefix_append_self] at hs; cases hs
            simp [this]
          | some r2 =>
            rw [onStrip_some hs, onStrip_some hs]
            have e := stripPrefix_some hs
            subst e
            have hr2 := term_suffix hK hk'
            rw [hget r2 hr2, e1]
            by_cases h : r2 = rk
            · subst h; simp
            · have : ¬ (cm ++ r2 = cm ++ rk) := fun e => h (List.append_cancel_left e)
              simp [h, this]
    | cons kn rK' =>
      cases rk with
      | nil =>
        exfalso
        have ek : x :: r = cm := by simpa using e1
        rw [ek] at hk
        rw [e2] at hC
        rcases canon_short_inv hC with ⟨old, _, hK, _⟩ | ⟨ch0, _, _, hK, _⟩
        · have := term_prefix_eq hk hK
          cases this
        · exact term_noTerm_false hk (noTerm_append.mp hK).1
      | cons kk rk' =>
        have hne : kk ≠ kn := e3 kk kn rk' rK' rfl rfl
        subst e2
        have hk2 : TermKey (cm ++ kk :: rk') := e1 ▸ hk
        obtain ⟨hCb, hgetb⟩ := branch_spec cm rk' rK' kk kn c v hne hk2 hC hv
        have hins : Mpt.insert (.short (cm ++ kn :: rK') c) (x :: r) v = some (true, insertNil cm
            (.full (setChild (setChild (fun _ => .empty) kn (insertNil rK' c)) kk (insertNil rk' (.value v))))) := by
          simp only [Mpt.insert, hsp]
          cases cm <;> rfl
        refine ⟨true, _, hins, hCb, insertNil_ne_empty (by simp), by simp, by intro ch h; cases h, ?_⟩
        intro k' hk'
        rw [hgetb k' hk', e1]
  | full ch ih =>
    intro k v hC hk hv
    cases k with
    | nil => exact absurd rfl (term_ne_nil hk)
    | cons k0 kr =>
    obtain ⟨hch, h16, h2⟩ := canon_full_inv hC
    have hchild : ∃ d nn, Mpt.insert (ch k0) kr v = some (d, nn) ∧ SlotOk k0 nn ∧ nn ≠ .empty ∧
        (d = false → nn = ch k0) ∧
        ∀ r, TermKey (k0 :: r) → Mpt.get nn r = if r = kr then .found v else Mpt.get (ch k0) r := by
      by_cases hk0 : k0 = 16
      · subst hk0
        have := term_head16 hk
        subst this
        have hslot : SlotOk 16 (.value v) := by
          simp only [SlotOk, if_true]; exact Or.inr ⟨v, hv, rfl⟩
        have hg : ∀ r, TermKey ((16 : Nib) :: r) → Mpt.get (.value v) r = if r = [] then .found v else Mpt.get (ch 16) r := by
          intro r hr
          have := term_head16 hr
          subst this
          simp [Mpt.get]
        rcases h16 with h | ⟨old, hold, h⟩
        · exact ⟨true, .value v, by simp [h, Mpt.insert], hslot, by simp, by simp, hg⟩
        · by_cases hov : old = v
          · exact ⟨false, .value v, by simp [h, Mpt.insert, hov], hslot, by simp, fun _ => by rw [h, hov], hg⟩
          · exact ⟨true, .value v, by simp [h, Mpt.insert, hov], hslot, by simp, by simp, hg⟩
      · have hkr := term_tail hk hk0
        obtain ⟨d, nn, hi, hCn, hne, hdf, _, hget⟩ := ih k0 kr v (hch k0 hk0) hkr hv
        refine ⟨d, nn, hi, by simpa [SlotOk, hk0] using hCn, hne, hdf, ?_⟩
        intro r hr
        exact hget r (term_tail hr hk0)
    obtain ⟨d, nn, hi, hslot, hne, hdf, hget⟩ := hchild
    cases d with
    | false =>
      have := hdf rfl
      subst this
      refine ⟨false, .full ch, by simp [Mpt.insert, hi], hC, by simp, fun _ => rfl, fun _ _ => ⟨ch, rfl⟩, ?_⟩
      intro k' hk'
      by_cases hkk : k' = k0 :: kr
      · subst hkk
        rw [if_pos rfl, get_full_cons]
        have := hget kr hk
        simpa using this
      · rw [if_neg hkk]
    | true =>
      refine ⟨true, .full (setChild ch k0 nn), by simp [Mpt.insert, hi], ?_, by simp, by simp,
        fun _ _ => ⟨_, rfl⟩, ?_⟩
      · apply canon_full_of_slots
        · intro i
          simp only [setChild]
          by_cases h : i = k0
          · subst h; simpa using hslot
          · simpa [h] using slots_of_canon_full hC i
        · obtain ⟨i, j, hij, hi', hj'⟩ := h2
          refine ⟨i, j, hij, ?_, ?_⟩ <;> simp only [setChild] <;> split <;> assumption
      · intro k' hk'
        cases k' with
        | nil => exact absurd rfl (term_ne_nil hk')
        | cons x r =>
          rw [get_full_cons, get_full_cons]
          simp only [setChild]
          by_cases h : x = k0
          · subst h
            rw [if_pos rfl, hget r hk']
            by_cases h' : r = kr <;> simp [h']
          · rw [if_neg h]
            have : ¬ (x :: r = k0 :: kr) := by simp [h]
            rw [if_neg this]

end LemoProofs.MptLemmas

/-
  Helper lemmas for C17 part C, node codec (`encoding.go` hexToCompact / compactToHex, the RLP item a
  collapsed node is written as): the compact key encoding round-trips on hex keys, and the item
  encoding `toItem` is injective on normal nodes (`Norm`) whose bytes are bytes and whose keys are hex
  keys — so that collision freedom of `hashOf = Keccak ∘ rlp ∘ toItem` on `Norm` (`HashOk`) is a
  property of Keccak alone (with C14's `decode_encode`).
-/
import LemoModel.MptStore
import LemoProofs.Lemmas.MptStore
import LemoProofs.Lemmas.MptDb
import LemoProofs.C14
namespace LemoProofs.MptCodecLemmas
open LemoModel LemoModel.Mpt LemoModel.MptStore LemoProofs.MptLemmas LemoProofs.MptStoreLemmas
open LemoProofs.MptDbLemmas

/-- a hex key: nibbles `< 16`, optionally followed by the terminator -/
def KeyOk (K : List Nib) : Prop := ∃ body, NoTerm body ∧ (K = body ∨ K = body ++ [16])

theorem nib_lt {x : Nib} (h : x ≠ 16) : x.val < 16 := by
  have := x.isLt
  have : x.val ≠ 16 := fun e => h (Fin.ext e)
  omega

theorem unpack_pack : ∀ (l : List Nib), NoTerm l → l.length % 2 = 0 → unpackNibbles (packNibbles l) = l
  | [], _, _ => rfl
  | [_], _, h => by simp at h
  | a :: b :: rest, hn, hl => by
    have ha := nib_lt ((noTerm_cons.mp hn).1)
    have hn2 := (noTerm_cons.mp hn).2
    have hb := nib_lt ((noTerm_cons.mp hn2).1)
    have hr := (noTerm_cons.mp hn2).2
    have ih := unpack_pack rest hr (by simp at hl; omega)
    simp only [packNibbles, unpackNibbles, UInt8.toNat_ofNat', ih]
    have e1 : (a.val * 16 + b.val) % 256 / 16 = a.val := by omega
    have e2 : (a.val * 16 + b.val) % 256 % 16 = b.val := by omega
    simp [e1, e2]

theorem hasTerm_append16 (body : List Nib) : hasTerm (body ++ [16]) = true := by
  simp [hasTerm]

/-- `hexToCompact` on the body (no terminator) and the terminator flag -/
def compactOf (t : Bool) (body : List Nib) : List UInt8 :=
  if body.length % 2 = 1 then
    match body with
    | x :: rest => UInt8.ofNat ((if t then 32 else 0) + 16 + x.val) :: packNibbles rest
    | [] => []
  else UInt8.ofNat (if t then 32 else 0) :: packNibbles body

theorem hexToCompact_eq (K : List Nib) :
    hexToCompact K = compactOf (hasTerm K) (if hasTerm K then K.dropLast else K) := rfl

theorem compactOf_roundtrip (t : Bool) (body : List Nib) (hb : NoTerm body) :
    compactToHex (compactOf t body) = some (if t then body ++ [16] else body) := by
  unfold compactOf
  by_cases hodd : body.length % 2 = 1
  · rw [if_pos hodd]
    cases body with
    | nil => simp at hodd
    | cons x rest =>
      have hx := nib_lt ((noTerm_cons.mp hb).1)
      have hr := (noTerm_cons.mp hb).2
      have hl : rest.length % 2 = 0 := by simp at hodd; omega
      simp only [compactToHex, unpackNibbles, UInt8.toNat_ofNat', unpack_pack rest hr hl]
      cases t with
      | true =>
        have e1 : (32 + 16 + x.val) % 256 / 16 = 3 := by omega
        have e2 : (32 + 16 + x.val) % 256 % 16 = x.val := by omega
        simp only [if_true, e1, e2]
        have h3 : ((3 : Nib) : Nat) = 3 := rfl
        simp [h3]
      | false =>
        have e1 : (0 + 16 + x.val) % 256 / 16 = 1 := by omega
        have e2 : (0 + 16 + x.val) % 256 % 16 = x.val := by omega
        simp only [Bool.false_eq_true, if_false, e1, e2]
        simp
  · rw [if_neg hodd]
    have hl : body.length % 2 = 0 := by omega
    simp only [compactToHex, unpackNibbles, UInt8.toNat_ofNat', unpack_pack body hb hl]
    cases t with
    | true => simp
    | false => simp

/-- **the compact key encoding round-trips on hex keys** (`compactToHex(hexToCompact(K)) = K`) -/
theorem compact_roundtrip (K : List Nib) (hK : KeyOk K) : compactToHex (hexToCompact K) = some K := by
  obtain ⟨body, hb, hKb⟩ := hK
  rw [hexToCompact_eq]
  rcases hKb with e | e
  · subst e
    have ht : hasTerm K = false := hasTerm_of_noTerm hb
    rw [ht]
    simpa using compactOf_roundtrip false K hb
  · subst e
    have ht : hasTerm (body ++ [16]) = true := hasTerm_append16 body
    rw [ht]
    simpa using compactOf_roundtrip true body hb

theorem hexToCompact_inj {K1 K2 : List Nib} (h1 : KeyOk K1) (h2 : KeyOk K2)
    (h : hexToCompact K1 = hexToCompact K2) : K1 = K2 := by
  have a := compact_roundtrip K1 h1
  rw [h, compact_roundtrip K2 h2] at a
  exact (Option.some.inj a).symm

/-! ### the item encoding is injective on normal nodes -/

/-- bytes are bytes, keys are hex keys -/
def BytesOk : CNode → Prop
  | .empty => True
  | .value v => ∀ x, x ∈ v → x < 256
  | .hash h => ∀ x, x ∈ h → x < 256
  | .short K c => KeyOk K ∧ BytesOk c
  | .full ch => ∀ i, BytesOk (ch i)

theorem map_ofNat_inj : ∀ (l1 l2 : List Nat), (∀ x, x ∈ l1 → x < 256) → (∀ x, x ∈ l2 → x < 256) →
    l1.map UInt8.ofNat = l2.map UInt8.ofNat → l1 = l2
  | [], [], _, _, _ => rfl
  | [], _ :: _, _, _, h => by simp at h
  | _ :: _, [], _, _, h => by simp at h
  | a :: l1, b :: l2, h1, h2, h => by
    simp only [List.map_cons, List.cons.injEq] at h
    have ha := h1 a List.mem_cons_self
    have hb := h2 b List.mem_cons_self
    have e : a = b := by
      have := congrArg UInt8.toNat h.1
      simp only [UInt8.toNat_ofNat'] at this
      omega
    rw [e, map_ofNat_inj l1 l2 (fun x hx => h1 x (List.mem_cons_of_mem _ hx))
      (fun x hx => h2 x (List.mem_cons_of_mem _ hx)) h.2]

theorem toItem_inj (a : CNode) : ∀ (m : Bool) (b : CNode), NormM m a → NormM m b → BytesOk a → BytesOk b →
    toItem a = toItem b → a = b := by
  induction a with
  | empty =>
    intro m b na nb _ bb h
    cases b with
    | empty => rfl
    | hash x =>
      cases m with
      | true =>
        simp only [toItem, Rlp.Item.bytes.injEq] at h
        have : x = [] := by cases x <;> simp at h; rfl
        exact absurd this nb
      | false => exact absurd nb id
    | value v => cases m <;> exact absurd nb id
    | short K c => simp [toItem] at h
    | full ch => simp [toItem] at h
  | value v => intro m b na; cases m <;> exact absurd na id
  | hash x =>
    intro m b na nb ba bb h
    cases m with
    | false => exact absurd na id
    | true =>
      cases b with
      | empty =>
        simp only [toItem, Rlp.Item.bytes.injEq] at h
        have : x = [] := by cases x <;> simp at h; rfl
        exact absurd this na
      | hash y =>
        simp only [toItem, Rlp.Item.bytes.injEq] at h
        rw [map_ofNat_inj x y ba bb h]
      | value v => exact absurd nb id
      | short K c => simp [toItem] at h
      | full ch => simp [toItem] at h
  | short K c ih =>
    intro m b na nb ba bb h
    cases b with
    | empty => simp [toItem] at h
    | hash y => simp [toItem] at h
    | value v => simp [toItem] at h
    | full ch =>
      simp only [toItem, Rlp.Item.list.injEq] at h
      have := congrArg List.length h
      simp at this
    | short K2 c2 =>
      simp only [toItem, Rlp.Item.list.injEq, List.cons.injEq, Rlp.Item.bytes.injEq, and_true] at h
      have hK := hexToCompact_inj ba.1 bb.1 h.1
      subst hK
      have na' : if hasTerm K then (∃ v, c = .value v) else NormM true c := by cases m <;> exact na
      have nb' : if hasTerm K then (∃ v, c2 = .value v) else NormM true c2 := by cases m <;> exact nb
      congr 1
      by_cases ht : hasTerm K = true
      · rw [if_pos ht] at na' nb'
        obtain ⟨v, hv⟩ := na'
        obtain ⟨v2, hv2⟩ := nb'
        subst hv; subst hv2
        have h2 := h.2
        simp only [toItem, Rlp.Item.bytes.injEq] at h2
        rw [map_ofNat_inj v v2 ba.2 bb.2 h2]
      · rw [if_neg ht] at na' nb'
        exact ih true c2 na' nb' ba.2 bb.2 h.2
  | full ch ih =>
    intro m b na nb ba bb h
    cases b with
    | empty => simp [toItem] at h
    | hash y => simp [toItem] at h
    | value v => simp [toItem] at h
    | short K2 c2 =>
      simp only [toItem, Rlp.Item.list.injEq] at h
      have := congrArg List.length h
      simp at this
    | full ch2 =>
      simp only [toItem, Rlp.Item.list.injEq] at h
      have hi : ∀ i, toItem (ch i) = toItem (ch2 i) := fun i =>
        List.map_inj_left.mp h i (List.mem_finRange i)
      have na' : (∀ i, i ≠ 16 → NormM true (ch i)) ∧ (ch 16 = .empty ∨ ∃ v, v ≠ [] ∧ ch 16 = .value v) := by
        cases m <;> exact na
      have nb' : (∀ i, i ≠ 16 → NormM true (ch2 i)) ∧ (ch2 16 = .empty ∨ ∃ v, v ≠ [] ∧ ch2 16 = .value v) := by
        cases m <;> exact nb
      congr 1
      funext i
      by_cases h16 : i = 16
      · subst h16
        have h' := hi 16
        rcases na'.2 with e1 | ⟨v1, hv1, e1⟩ <;> rcases nb'.2 with e2 | ⟨v2, hv2, e2⟩
        · rw [e1, e2]
        · rw [e1, e2] at h'
          simp only [toItem, Rlp.Item.bytes.injEq] at h'
          have : v2 = [] := by cases v2 <;> simp at h'; rfl
          exact absurd this hv2
        · rw [e1, e2] at h'
          simp only [toItem, Rlp.Item.bytes.injEq] at h'
          have : v1 = [] := by cases v1 <;> simp at h'; rfl
          exact absurd this hv1
        · rw [e1, e2] at h'
          simp only [toItem, Rlp.Item.bytes.injEq] at h'
          have b1 := ba 16; have b2 := bb 16
          rw [e1] at b1; rw [e2] at b2
          rw [e1, e2, map_ofNat_inj v1 v2 b1 b2 h']
      · exact ih i true (ch2 i) (na'.1 i h16) (nb'.1 i h16) (ba i) (bb i) (hi i)

/-- **the blob (RLP bytes) of a normal node determines the node** (with C14's `decode_encode`; sizes
    below 2^64 as there) -/
theorem nodeRlp_inj (a b : CNode) (na : Norm a) (nb : Norm b) (ba : BytesOk a) (bb : BytesOk b)
    (la : (nodeRlp a).length < 2 ^ 64) (lb : (nodeRlp b).length < 2 ^ 64)
    (h : nodeRlp a = nodeRlp b) : a = b := by
  have d1 := LemoProofs.C14.decode_encode (toItem a) la
  have d2 := LemoProofs.C14.decode_encode (toItem b) lb
  have hi : toItem a = toItem b := by
    unfold nodeRlp at h
    rw [h, d2] at d1
    exact (Except.ok.inj d1).symm
  rcases na with ea | na <;> rcases nb with eb | nb
  · rw [ea, eb]
  · subst ea
    cases b <;> first | exact absurd nb id | simp [toItem] at hi
  · subst eb
    cases a <;> first | exact absurd na id | simp [toItem] at hi
  · exact toItem_inj a false b na nb ba bb hi

/-! ### the real embedding test `len(rlp) < 32`: an embedded node contains no hash reference -/

/-- every hash reference is 32 bytes long -/
def Hash32 : CNode → Prop
  | .hash h => h.length = 32
  | .short _ c => Hash32 c
  | .full ch => ∀ i, Hash32 (ch i)
  | _ => True

theorem encodeList_ge_mem : ∀ (xs : List Rlp.Item) (x : Rlp.Item), x ∈ xs →
    (Rlp.encode x).length ≤ (Rlp.encodeList xs).length
  | [], _, h => by cases h
  | y :: ys, x, h => by
    rw [Rlp.encodeList, List.length_append]
    rcases List.mem_cons.mp h with e | h'
    · subst e; omega
    · have := encodeList_ge_mem ys x h'; omega

theorem encode_list_ge (xs : List Rlp.Item) : (Rlp.encodeList xs).length ≤ (Rlp.encode (.list xs)).length := by
  rw [Rlp.encode, List.length_append]; omega

theorem small_noHash (c : CNode) : Hash32 c → (nodeRlp c).length < 33 → noHashC c := by
  induction c with
  | empty => intro _ _; trivial
  | value v => intro _ _; trivial
  | hash h =>
    intro h32 hl
    exfalso
    have h32' : h.length = 32 := h32
    have hlen : (h.map UInt8.ofNat).length = 32 := by simpa using h32'
    have : (nodeRlp (.hash h)).length = 33 := by
      unfold nodeRlp toItem
      rw [Rlp.encode]
      unfold Rlp.encodeBytes
      split
      · rename_i x hx; rw [hx] at hlen; simp at hlen
      · rw [List.length_append, hlen]; simp [Rlp.encLen]
    omega
  | short K c ih =>
    intro h32 hl
    apply ih h32
    have h1 := encodeList_ge_mem [.bytes (hexToCompact K), toItem c] (toItem c) (by simp)
    have h2 := encode_list_ge [.bytes (hexToCompact K), toItem c]
    unfold nodeRlp at hl ⊢
    simp only [toItem] at hl
    omega
  | full ch ih =>
    intro h32 hl i
    apply ih i (h32 i)
    have h1 := encodeList_ge_mem ((List.finRange 17).map (fun i => toItem (ch i))) (toItem (ch i))
      (List.mem_map.mpr ⟨i, List.mem_finRange i, rfl⟩)
    have h2 := encode_list_ge ((List.finRange 17).map (fun i => toItem (ch i)))
    unfold nodeRlp at hl ⊢
    simp only [toItem] at hl
    omega

end LemoProofs.MptCodecLemmas

/-
  Helper lemmas for C17 part C, node pool of /repo/store/trie_database.go (model `LemoModel.MptStore.Db`):
  what `TrieDatabase.Node` returns after `Insert`/`Reference` and after `TrieDatabase.Commit`.
-/
import LemoModel.MptStore
import LemoProofs.Lemmas.MptStore
namespace LemoProofs.MptDbLemmas
open LemoModel LemoModel.Mpt LemoModel.MptStore LemoProofs.MptStoreLemmas

/-! ### association lists -/

theorem lookupH_append {α : Type} (a b : List (Hash × α)) (h : Hash) :
    lookupH (a ++ b) h = match lookupH a h with
      | some x => some x
      | none => lookupH b h := by
  induction a with
  | nil => rfl
  | cons e a ih =>
    obtain ⟨k, x⟩ := e
    simp only [List.cons_append, lookupH]
    by_cases hk : k = h
    · simp [hk]
    · simp only [hk, if_false]; exact ih

theorem lookupH_map {α : Type} (g : Hash × α → Hash × α) (hg : ∀ e, (g e).1 = e.1)
    (l : List (Hash × α)) (h : Hash) :
    lookupH (l.map g) h = (lookupH l h).map (fun a => (g (h, a)).2) := by
  induction l with
  | nil => rfl
  | cons e l ih =>
    obtain ⟨k, x⟩ := e
    have e1 : g (k, x) = ((g (k, x)).1, (g (k, x)).2) := rfl
    rw [List.map_cons, e1, hg]
    simp only [lookupH]
    by_cases hk : k = h
    · subst hk; simp
    · simp only [hk, if_false]; exact ih

theorem lookupH_filter {α : Type} (p : Hash → Bool) (l : List (Hash × α)) (h : Hash) :
    lookupH (l.filter (fun e => p e.1)) h = if p h then lookupH l h else none := by
  induction l with
  | nil => simp [lookupH]
  | cons e l ih =>
    obtain ⟨k, x⟩ := e
    by_cases hp : p k = true
    · simp only [List.filter_cons, hp, if_true, lookupH]
      by_cases hk : k = h
      · subst hk; simp [hp]
      · simp only [hk, if_false]; exact ih
    · simp only [List.filter_cons, hp, Bool.false_eq_true, if_false]
      rw [ih]
      by_cases hk : k = h
      · subst hk; simp [hp]
      · simp [lookupH, hk]

theorem lookupH_mem {α : Type} {l : List (Hash × α)} {h : Hash} {a : α} (hl : lookupH l h = some a) :
    (h, a) ∈ l := by
  induction l with
  | nil => cases hl
  | cons e l ih =>
    obtain ⟨k, x⟩ := e
    simp only [lookupH] at hl
    by_cases hk : k = h
    · simp only [hk, if_true, Option.some.injEq] at hl
      rw [hk, hl]; exact List.mem_cons_self
    · simp only [hk, if_false] at hl
      exact List.mem_cons_of_mem _ (ih hl)

/-! ### `Node` after `Insert` + `Reference` -/

theorem addChild_fst (parent child : Hash) (e : Hash × MemNode) :
    (if e.1 = parent ∧ child ∉ e.2.children
      then (e.1, { e.2 with children := e.2.children ++ [child] }) else e).1 = e.1 := by
  split <;> rfl

theorem lookupH_addChild (mem : List (Hash × MemNode)) (parent child h : Hash) :
    lookupH (addChild mem parent child) h = (lookupH mem h).map (fun m =>
      if h = parent ∧ child ∉ m.children then { m with children := m.children ++ [child] } else m) := by
  unfold addChild
  rw [lookupH_map _ (addChild_fst parent child)]
  cases lookupH mem h with
  | none => rfl
  | some m =>
    simp only [Option.map_some, Option.some.injEq]
    split <;> rfl

theorem reference_node (db : Db) (child parent : Hash) : (db.reference child parent).node = db.node := by
  unfold Db.reference
  cases hc : lookupH db.mem child with
  | none => rfl
  | some m0 =>
    funext h
    simp only [Db.node, lookupH_addChild]
    cases lookupH db.mem h with
    | none => rfl
    | some m => simp only [Option.map_some]; split <;> rfl

theorem reference_disk (db : Db) (child parent : Hash) : (db.reference child parent).disk = db.disk := by
  unfold Db.reference
  cases lookupH db.mem child <;> rfl

theorem foldl_reference (refs : List Hash) (parent : Hash) : ∀ (db : Db),
    (refs.foldl (fun d c => d.reference c parent) db).node = db.node ∧
    (refs.foldl (fun d c => d.reference c parent) db).disk = db.disk := by
  induction refs with
  | nil => intro db; exact ⟨rfl, rfl⟩
  | cons x refs ih =>
    intro db
    simp only [List.foldl_cons]
    obtain ⟨h1, h2⟩ := ih (db.reference x parent)
    exact ⟨by rw [h1, reference_node], by rw [h2, reference_disk]⟩

/-- what `Node` returns after `Insert(hash, blob)` and the `Reference` calls -/
theorem insert_node (db : Db) (w : Hash × CNode) (x : Hash) :
    (db.insert w).node x =
      if x = w.1 ∧ lookupH db.mem w.1 = none then some w.2 else db.node x := by
  unfold Db.insert
  simp only
  rw [(foldl_reference _ _ _).1]
  cases hm : lookupH db.mem w.1 with
  | some m => simp
  | none =>
    simp only [Db.node, lookupH_append, and_true]
    by_cases hx : x = w.1
    · subst hx
      simp [hm, lookupH]
    · simp only [hx, if_false]
      cases lookupH db.mem x with
      | some m => rfl
      | none =>
        have : ¬ w.1 = x := fun e => hx e.symm
        simp [lookupH, this]

theorem insert_disk (db : Db) (w : Hash × CNode) : (db.insert w).disk = db.disk := by
  unfold Db.insert
  simp only
  rw [(foldl_reference _ _ _).2]
  cases lookupH db.mem w.1 <;> rfl

section sound
variable {hashOf : CNode → Hash} (hH : HashOk hashOf)
include hH

theorem insert_spec {db : Db} (hS : Sound hashOf db.node) {w : Hash × CNode}
    (hw : w.1 = hashOf w.2 ∧ NormM false w.2) :
    Store.le db.node (db.insert w).node ∧ Sound hashOf (db.insert w).node ∧ (db.insert w).node w.1 = some w.2 := by
  refine ⟨fun x c hx => ?_, fun x c hx => ?_, ?_⟩
  · rw [insert_node]
    by_cases hc : x = w.1 ∧ lookupH db.mem w.1 = none
    · rw [if_pos hc]
      have h1 := (hS _ _ hx).1
      rw [hc.1, hw.1] at h1
      rw [hH.inj _ _ (Or.inr hw.2) (Or.inr (hS _ _ hx).2) h1]
    · rw [if_neg hc]; exact hx
  · rw [insert_node] at hx
    by_cases hc : x = w.1 ∧ lookupH db.mem w.1 = none
    · rw [if_pos hc] at hx
      simp only [Option.some.injEq] at hx
      rw [hc.1, ← hx]; exact hw
    · rw [if_neg hc] at hx; exact hS _ _ hx
  · rw [insert_node]
    by_cases hc : lookupH db.mem w.1 = none
    · simp [hc]
    · simp only [hc, and_false, if_false]
      cases hm : lookupH db.mem w.1 with
      | none => exact absurd hm hc
      | some m =>
        have hn : db.node w.1 = some m.blob := by simp [Db.node, hm]
        have h1 := (hS _ _ hn).1
        rw [hw.1] at h1
        rw [hn, hH.inj _ _ (Or.inr hw.2) (Or.inr (hS _ _ hn).2) h1]

theorem insertAll_spec : ∀ (ws : List (Hash × CNode)) (db : Db), Sound hashOf db.node →
    (∀ w, w ∈ ws → w.1 = hashOf w.2 ∧ NormM false w.2) →
    Store.le db.node (db.insertAll ws).node ∧ Sound hashOf (db.insertAll ws).node ∧
    (∀ w, w ∈ ws → (db.insertAll ws).node w.1 = some w.2) ∧ (db.insertAll ws).disk = db.disk := by
  intro ws
  induction ws with
  | nil => intro db hS _; exact ⟨Store.le_refl _, hS, fun w hw => (by cases hw), rfl⟩
  | cons w ws ih =>
    intro db hS hw
    obtain ⟨a1, a2, a3⟩ := insert_spec hH hS (hw w List.mem_cons_self)
    obtain ⟨g1, g2, g3, g4⟩ := ih (db.insert w) a2 (fun x hx => hw x (List.mem_cons_of_mem _ hx))
    refine ⟨Store.le_trans a1 g1, g2, fun x hx => ?_, by rw [show db.insertAll (w :: ws) = (db.insert w).insertAll ws from rfl, g4, insert_disk]⟩
    rcases List.mem_cons.mp hx with hx | hx
    · subst hx; exact g1 _ _ a3
    · exact g3 x hx

end sound

/-! ### `Node` after `TrieDatabase.Commit`: unchanged -/

theorem lookupH_of_unique {α : Type} {l : List (Hash × α)} {x : Hash} {v : α}
    (hex : ∃ a, (x, a) ∈ l) (hall : ∀ a, (x, a) ∈ l → a = v) : lookupH l x = some v := by
  induction l with
  | nil => obtain ⟨a, ha⟩ := hex; cases ha
  | cons e l ih =>
    obtain ⟨k, b⟩ := e
    simp only [lookupH]
    by_cases hk : k = x
    · subst hk
      simp only [if_true, Option.some.injEq]
      exact hall b List.mem_cons_self
    · simp only [hk, if_false]
      apply ih
      · obtain ⟨a, ha⟩ := hex
        rcases List.mem_cons.mp ha with ha | ha
        · simp only [Prod.mk.injEq] at ha; exact absurd ha.1.symm hk
        · exact ⟨a, ha⟩
      · exact fun a ha => hall a (List.mem_cons_of_mem _ ha)

theorem lookupH_none_of {α : Type} {l : List (Hash × α)} {x : Hash} (h : ∀ a, (x, a) ∉ l) :
    lookupH l x = none := by
  cases hl : lookupH l x with
  | none => rfl
  | some a => exact absurd (lookupH_mem hl) (h a)

/-- the blobs `Commit` writes: the pool blob of every visited hash -/
def flushed (mem : List (Hash × MemNode)) (hs : List Hash) : List (Hash × CNode) :=
  hs.filterMap (fun h => (lookupH mem h).map (fun m => (h, m.blob)))

theorem mem_flushed {mem : List (Hash × MemNode)} {hs : List Hash} {x : Hash} {a : CNode} :
    (x, a) ∈ (flushed mem hs).reverse ↔ x ∈ hs ∧ ∃ m, lookupH mem x = some m ∧ a = m.blob := by
  simp only [flushed, List.mem_reverse, List.mem_filterMap, Option.map_eq_some_iff, Prod.mk.injEq]
  constructor
  · rintro ⟨h, hh, m, hm, e1, e2⟩
    subst e1
    exact ⟨hh, m, hm, e2.symm⟩
  · rintro ⟨hx, m, hm, e⟩
    exact ⟨x, hx, m, hm, rfl, e.symm⟩

theorem lookupH_flushed (mem : List (Hash × MemNode)) (hs : List Hash) (x : Hash) :
    lookupH (flushed mem hs).reverse x =
      if x ∈ hs then (lookupH mem x).map (fun m => m.blob) else none := by
  by_cases hx : x ∈ hs
  · rw [if_pos hx]
    cases hm : lookupH mem x with
    | none =>
      apply lookupH_none_of
      intro a ha
      obtain ⟨_, m, h1, _⟩ := mem_flushed.mp ha
      rw [hm] at h1; cases h1
    | some m =>
      apply lookupH_of_unique
      · exact ⟨m.blob, mem_flushed.mpr ⟨hx, m, hm, rfl⟩⟩
      · intro a ha
        obtain ⟨_, m', h1, h2⟩ := mem_flushed.mp ha
        rw [hm] at h1
        simp only [Option.some.injEq] at h1
        rw [h2, h1]
  · rw [if_neg hx]
    apply lookupH_none_of
    intro a ha
    exact hx (mem_flushed.mp ha).1

theorem commit_eq {db db' : Db} {root : Hash} (h : db.commit root = .ok db') :
    ∃ hs, reach db.mem (db.mem.length + 1) root = some hs ∧
      db'.mem = db.mem.filter (fun e => (fun k => decide (k ∉ hs)) e.1) ∧
      db'.disk = (flushed db.mem hs).reverse ++ db.disk := by
  unfold Db.commit at h
  cases hr : reach db.mem (db.mem.length + 1) root with
  | none => rw [hr] at h; cases h
  | some hs =>
    rw [hr] at h
    simp only [Res.ok.injEq] at h
    subst h
    exact ⟨hs, rfl, rfl, rfl⟩

/-- **`TrieDatabase.Commit` does not change what `Node` returns** (flushed nodes are found on disk) -/
theorem commit_node {db db' : Db} {root : Hash} (h : db.commit root = .ok db') : db'.node = db.node := by
  obtain ⟨hs, _, h1, h2⟩ := commit_eq h
  funext x
  have hfil : lookupH db'.mem x = if decide (x ∉ hs) then lookupH db.mem x else none := by
    rw [h1]; exact lookupH_filter (fun k => decide (k ∉ hs)) db.mem x
  simp only [Db.node, hfil, h2, lookupH_append, lookupH_flushed]
  by_cases hx : x ∈ hs
  · simp only [hx, not_true_eq_false, decide_false, Bool.false_eq_true, if_false, if_true]
    cases lookupH db.mem x with
    | some m => rfl
    | none => rfl
  · simp only [hx, not_false_eq_true, decide_true, if_true, if_false]

/-! ### the reference graph of the pool -/

def inMem (db : Db) (x : Hash) : Prop := lookupH db.mem x ≠ none
def onDisk (db : Db) (x : Hash) : Prop := lookupH db.disk x ≠ none

/-- invariant of the pool: the recorded references cover every hash child that is not already on disk,
    recorded children are somewhere, the disk is closed under hash children and content-addressed -/
structure DbOk (hashOf : CNode → Hash) (db : Db) : Prop where
  refs : ∀ h m, lookupH db.mem h = some m → ∀ x, x ∈ directRefs m.blob → x ∈ m.children ∨ onDisk db x
  kids : ∀ h m, lookupH db.mem h = some m → ∀ x, x ∈ m.children → inMem db x ∨ onDisk db x
  disk : ∀ h c, lookupH db.disk h = some c → ∀ x, x ∈ directRefs c → onDisk db x
  dsound : ∀ h c, lookupH db.disk h = some c → h = hashOf c ∧ NormM false c

theorem dbOk_empty (hashOf : CNode → Hash) : DbOk hashOf {} :=
  ⟨fun h m hm => (by cases hm), fun h m hm => (by cases hm), fun h c hc => (by cases hc), fun h c hc => (by cases hc)⟩

/-! #### `reach` -/

def foldReach (mem : List (Hash × MemNode)) (fuel : Nat) (acc : Option (List Hash)) (cs : List Hash) :
    Option (List Hash) :=
  cs.foldl (fun acc c => match acc, reach mem fuel c with
    | some a, some r => some (a ++ r)
    | _, _ => none) acc

theorem foldReach_none (mem : List (Hash × MemNode)) (fuel : Nat) (cs : List Hash) :
    foldReach mem fuel none cs = none := by
  induction cs with
  | nil => rfl
  | cons c cs ih => simpa [foldReach] using ih

theorem foldReach_spec (mem : List (Hash × MemNode)) (fuel : Nat) : ∀ (cs : List Hash) (a L : List Hash),
    foldReach mem fuel (some a) cs = some L →
    (∀ y, y ∈ a → y ∈ L) ∧
    (∀ c, c ∈ cs → ∃ lc, reach mem fuel c = some lc ∧ ∀ y, y ∈ lc → y ∈ L) ∧
    (∀ y, y ∈ L → y ∈ a ∨ ∃ c lc, c ∈ cs ∧ reach mem fuel c = some lc ∧ y ∈ lc) := by
  intro cs
  induction cs with
  | nil =>
    intro a L h
    simp only [foldReach, List.foldl_nil, Option.some.injEq] at h
    subst h
    exact ⟨fun y hy => hy, fun c hc => (by cases hc), fun y hy => Or.inl hy⟩
  | cons c cs ih =>
    intro a L h
    cases hr : reach mem fuel c with
    | none =>
      have : foldReach mem fuel (some a) (c :: cs) = foldReach mem fuel none cs := by
        simp [foldReach, hr]
      rw [this, foldReach_none] at h; cases h
    | some r =>
      have : foldReach mem fuel (some a) (c :: cs) = foldReach mem fuel (some (a ++ r)) cs := by
        simp [foldReach, hr]
      rw [this] at h
      obtain ⟨g1, g2, g3⟩ := ih (a ++ r) L h
      refine ⟨fun y hy => g1 y (List.mem_append_left _ hy), fun c' hc' => ?_, fun y hy => ?_⟩
      · rcases List.mem_cons.mp hc' with e | hc'
        · subst e; exact ⟨r, hr, fun y hy => g1 y (List.mem_append_right _ hy)⟩
        · exact g2 c' hc'
      · rcases g3 y hy with h1 | ⟨c', lc, h1, h2, h3⟩
        · rcases List.mem_append.mp h1 with h1 | h1
          · exact Or.inl h1
          · exact Or.inr ⟨c, r, List.mem_cons_self, hr, h1⟩
        · exact Or.inr ⟨c', lc, List.mem_cons_of_mem _ h1, h2, h3⟩

theorem reach_succ (mem : List (Hash × MemNode)) (fuel : Nat) (h : Hash) :
    reach mem (fuel + 1) h = match lookupH mem h with
      | none => some []
      | some m => (foldReach mem fuel (some []) m.children).map (fun l => l ++ [h]) := rfl

/-- what `TrieDatabase.commit` visits: only pool nodes, the start node if it is in the pool, and with a
    node every recorded child that is in the pool -/
theorem reach_spec (mem : List (Hash × MemNode)) : ∀ (fuel : Nat) (h : Hash) (l : List Hash),
    reach mem fuel h = some l →
    (∀ y, y ∈ l → lookupH mem y ≠ none) ∧ (lookupH mem h ≠ none → h ∈ l) ∧
    (∀ y, y ∈ l → ∀ my, lookupH mem y = some my → ∀ x, x ∈ my.children → lookupH mem x ≠ none → x ∈ l) := by
  intro fuel
  induction fuel with
  | zero => intro h l hr; cases hr
  | succ fuel ih =>
    intro h l hr
    rw [reach_succ] at hr
    cases hm : lookupH mem h with
    | none =>
      rw [hm] at hr
      simp only [Option.some.injEq] at hr
      subst hr
      exact ⟨fun y hy => (by cases hy), fun hne => absurd rfl hne, fun y hy => (by cases hy)⟩
    | some m =>
      rw [hm] at hr
      simp only [Option.map_eq_some_iff] at hr
      obtain ⟨L, hL, e⟩ := hr
      subst e
      obtain ⟨_, g2, g3⟩ := foldReach_spec mem fuel m.children [] L hL
      refine ⟨fun y hy => ?_, fun _ => (by simp), fun y hy my hmy x hx hxm => ?_⟩
      · rcases List.mem_append.mp hy with hy | hy
        · rcases g3 y hy with h1 | ⟨c, lc, _, h2, h3⟩
          · cases h1
          · exact (ih c lc h2).1 y h3
        · simp only [List.mem_singleton] at hy
          rw [hy, hm]; simp
      · rcases List.mem_append.mp hy with hy | hy
        · rcases g3 y hy with h1 | ⟨c, lc, _, h2, h3⟩
          · cases h1
          · have := (ih c lc h2).2.2 y h3 my hmy x hx hxm
            obtain ⟨lc', e1, e2⟩ := g2 c ‹c ∈ m.children›
            rw [h2] at e1
            simp only [Option.some.injEq] at e1
            subst e1
            exact List.mem_append_left _ (e2 x this)
        · simp only [List.mem_singleton] at hy
          subst hy
          rw [hm] at hmy
          simp only [Option.some.injEq] at hmy
          subst hmy
          obtain ⟨lc, e1, e2⟩ := g2 x hx
          exact List.mem_append_left _ (e2 x ((ih x lc e1).2.1 hxm))

/-! #### `TrieDatabase.Commit` keeps the invariant -/

theorem onDisk_commit {db db' : Db} {hs : List Hash}
    (h2 : db'.disk = (flushed db.mem hs).reverse ++ db.disk) (x : Hash) :
    onDisk db' x ↔ (x ∈ hs ∧ inMem db x) ∨ onDisk db x := by
  unfold onDisk inMem
  rw [h2, lookupH_append, lookupH_flushed]
  by_cases hx : x ∈ hs
  · simp only [hx, if_true, true_and]
    cases lookupH db.mem x with
    | none => simp
    | some m => simp
  · simp [hx]

theorem commit_ok {hashOf : CNode → Hash} {db db' : Db} {root : Hash} (hOk : DbOk hashOf db)
    (hS : Sound hashOf db.node) (h : db.commit root = .ok db') :
    DbOk hashOf db' ∧ (inMem db root → onDisk db' root) ∧ (∀ x, onDisk db x → onDisk db' x) := by
  obtain ⟨hs, hr, h1, h2⟩ := commit_eq h
  obtain ⟨r1, r2, r3⟩ := reach_spec db.mem _ root hs hr
  have hfil : ∀ x, lookupH db'.mem x = if decide (x ∉ hs) then lookupH db.mem x else none := by
    intro x; rw [h1]; exact lookupH_filter (fun k => decide (k ∉ hs)) db.mem x
  have hmem' : ∀ x m, lookupH db'.mem x = some m → lookupH db.mem x = some m ∧ x ∉ hs := by
    intro x m hm
    rw [hfil] at hm
    by_cases hx : x ∈ hs
    · simp [hx] at hm
    · simp only [hx, not_false_eq_true, decide_true, if_true] at hm
      exact ⟨hm, hx⟩
  have hd := onDisk_commit h2
  refine ⟨⟨fun x m hm y hy => ?_, fun x m hm y hy => ?_, fun x c hc y hy => ?_, fun x c hc => ?_⟩, fun hin => ?_,
    fun x hx => (hd x).mpr (Or.inr hx)⟩
  · obtain ⟨g1, _⟩ := hmem' x m hm
    rcases hOk.refs x m g1 y hy with g | g
    · exact Or.inl g
    · exact Or.inr ((hd y).mpr (Or.inr g))
  · obtain ⟨g1, _⟩ := hmem' x m hm
    rcases hOk.kids x m g1 y hy with g | g
    · by_cases hy' : y ∈ hs
      · exact Or.inr ((hd y).mpr (Or.inl ⟨hy', g⟩))
      · left
        unfold inMem at g ⊢
        rw [hfil]
        simpa [hy'] using g
    · exact Or.inr ((hd y).mpr (Or.inr g))
  · rw [h2, lookupH_append, lookupH_flushed] at hc
    by_cases hx : x ∈ hs
    · simp only [hx, if_true] at hc
      cases hm : lookupH db.mem x with
      | none =>
        rw [hm] at hc
        simp only [Option.map_none] at hc
        exact (hd y).mpr (Or.inr (hOk.disk x c hc y hy))
      | some m =>
        rw [hm] at hc
        simp only [Option.map_some, Option.some.injEq] at hc
        subst hc
        rcases hOk.refs x m hm y hy with g | g
        · rcases hOk.kids x m hm y g with g' | g'
          · exact (hd y).mpr (Or.inl ⟨r3 x hx m hm y g g', g'⟩)
          · exact (hd y).mpr (Or.inr g')
        · exact (hd y).mpr (Or.inr g)
    · simp only [hx, if_false] at hc
      exact (hd y).mpr (Or.inr (hOk.disk x c hc y hy))
  · rw [h2, lookupH_append, lookupH_flushed] at hc
    by_cases hx : x ∈ hs
    · simp only [hx, if_true] at hc
      cases hm : lookupH db.mem x with
      | none =>
        rw [hm] at hc
        simp only [Option.map_none] at hc
        exact hOk.dsound x c hc
      | some m =>
        rw [hm] at hc
        simp only [Option.map_some, Option.some.injEq] at hc
        subst hc
        exact hS x m.blob (by simp [Db.node, hm])
    · simp only [hx, if_false] at hc
      exact hOk.dsound x c hc
  · exact (hd root).mpr (Or.inl ⟨r2 hin, hin⟩)

/-! #### `Insert` + `Reference` keep the invariant -/

theorem reference_mem (db : Db) (c p h : Hash) :
    lookupH (db.reference c p).mem h = (lookupH db.mem h).map (fun m =>
      if lookupH db.mem c ≠ none ∧ h = p ∧ c ∉ m.children
      then { m with children := m.children ++ [c] } else m) := by
  unfold Db.reference
  cases hc : lookupH db.mem c with
  | none =>
    simp only [ne_eq, not_true_eq_false, false_and, if_false]
    cases lookupH db.mem h <;> rfl
  | some m0 =>
    simp only [lookupH_addChild, ne_eq, reduceCtorEq, not_false_eq_true, true_and]

/-- effect of the `Reference` calls of one `hasher.store` on the pool entries -/
theorem foldl_reference_mem (p : Hash) : ∀ (refs : List Hash) (db : Db),
    (∀ h, lookupH (refs.foldl (fun d c => d.reference c p) db).mem h = none ↔ lookupH db.mem h = none) ∧
    (∀ h m', lookupH (refs.foldl (fun d c => d.reference c p) db).mem h = some m' →
      ∃ m, lookupH db.mem h = some m ∧ m'.blob = m.blob ∧ (h ≠ p → m' = m) ∧
        (∀ x, x ∈ m.children → x ∈ m'.children) ∧
        (∀ x, x ∈ m'.children → x ∈ m.children ∨ (x ∈ refs ∧ lookupH db.mem x ≠ none))) ∧
    (∀ m', lookupH (refs.foldl (fun d c => d.reference c p) db).mem p = some m' →
      ∀ x, x ∈ refs → lookupH db.mem x ≠ none → x ∈ m'.children) := by
  intro refs
  induction refs with
  | nil =>
    intro db
    refine ⟨fun h => Iff.rfl, fun h m' hm => ⟨m', hm, rfl, fun _ => rfl, fun x hx => hx, fun x hx => Or.inl hx⟩,
      fun m' _ x hx => (by cases hx)⟩
  | cons c refs ih =>
    intro db
    simp only [List.foldl_cons]
    obtain ⟨k1, a1, b1⟩ := ih (db.reference c p)
    have hk : ∀ h, lookupH (db.reference c p).mem h = none ↔ lookupH db.mem h = none := by
      intro h; rw [reference_mem]; cases lookupH db.mem h <;> simp
    refine ⟨fun h => (k1 h).trans (hk h), fun h m' hm => ?_, fun m' hm x hx hxm => ?_⟩
    · obtain ⟨m1, g1, g2, g3, g4, g5⟩ := a1 h m' hm
      rw [reference_mem] at g1
      cases hm0 : lookupH db.mem h with
      | none => rw [hm0] at g1; cases g1
      | some m =>
        rw [hm0] at g1
        simp only [Option.map_some, Option.some.injEq] at g1
        refine ⟨m, rfl, ?_, fun hne => ?_, fun x hx => ?_, fun x hx => ?_⟩
        · rw [g2, ← g1]; split <;> rfl
        · rw [g3 hne, ← g1]; simp [hne]
        · apply g4
          rw [← g1]
          split
          · exact List.mem_append_left _ hx
          · exact hx
        · rcases g5 x hx with g | ⟨g, g'⟩
          · rw [← g1] at g
            split at g
            · rename_i hcond
              rcases List.mem_append.mp g with g | g
              · exact Or.inl g
              · simp only [List.mem_singleton] at g
                subst g
                exact Or.inr ⟨List.mem_cons_self, hcond.1⟩
            · exact Or.inl g
          · exact Or.inr ⟨List.mem_cons_of_mem _ g, fun e => g' ((hk x).mpr e)⟩
    · obtain ⟨m1, g1, _, _, g4, _⟩ := a1 p m' hm
      rcases List.mem_cons.mp hx with e | hx
      · subst e
        apply g4
        rw [reference_mem] at g1
        cases hm0 : lookupH db.mem p with
        | none => rw [hm0] at g1; cases g1
        | some m =>
          rw [hm0] at g1
          simp only [Option.map_some, Option.some.injEq] at g1
          rw [← g1]
          by_cases hin : x ∈ m.children
          · split
            · exact List.mem_append_left _ hin
            · exact hin
          · rw [if_pos (by simp [hxm, hin])]
            exact List.mem_append_right _ List.mem_cons_self
      · exact b1 m' hm x hx (fun e => hxm ((hk x).mp e))

theorem node_ne_none (db : Db) (x : Hash) : db.node x ≠ none ↔ inMem db x ∨ onDisk db x := by
  unfold Db.node inMem onDisk
  cases lookupH db.mem x with
  | none => simp
  | some m => simp

theorem fold_ok {hashOf : CNode → Hash} {db1 : Db} (p : Hash) (refs : List Hash)
    (hrefs : ∀ h m, lookupH db1.mem h = some m → ∀ x, x ∈ directRefs m.blob →
      x ∈ m.children ∨ onDisk db1 x ∨ (h = p ∧ x ∈ refs ∧ inMem db1 x))
    (hkids : ∀ h m, lookupH db1.mem h = some m → ∀ x, x ∈ m.children → inMem db1 x ∨ onDisk db1 x)
    (hdisk : ∀ h c, lookupH db1.disk h = some c → ∀ x, x ∈ directRefs c → onDisk db1 x)
    (hds : ∀ h c, lookupH db1.disk h = some c → h = hashOf c ∧ NormM false c) :
    DbOk hashOf (refs.foldl (fun d c => d.reference c p) db1) := by
  obtain ⟨k1, a1, b1⟩ := foldl_reference_mem p refs db1
  have hd : (refs.foldl (fun d c => d.reference c p) db1).disk = db1.disk := (foldl_reference refs p db1).2
  have hon : ∀ x, onDisk (refs.foldl (fun d c => d.reference c p) db1) x ↔ onDisk db1 x := by
    intro x; unfold onDisk; rw [hd]
  have hin : ∀ x, inMem db1 x → inMem (refs.foldl (fun d c => d.reference c p) db1) x := by
    intro x hx; unfold inMem at hx ⊢; exact fun e => hx ((k1 x).mp e)
  refine ⟨fun h m' hm x hx => ?_, fun h m' hm x hx => ?_, fun h c hc x hx => ?_, fun h c hc => ?_⟩
  · obtain ⟨m, g1, g2, _, g4, _⟩ := a1 h m' hm
    rw [g2] at hx
    rcases hrefs h m g1 x hx with g | g | ⟨e, g, g'⟩
    · exact Or.inl (g4 x g)
    · exact Or.inr ((hon x).mpr g)
    · subst e
      exact Or.inl (b1 m' hm x g g')
  · obtain ⟨m, g1, _, _, _, g5⟩ := a1 h m' hm
    rcases g5 x hx with g | ⟨_, g⟩
    · rcases hkids h m g1 x g with g' | g'
      · exact Or.inl (hin x g')
      · exact Or.inr ((hon x).mpr g')
    · exact Or.inl (hin x g)
  · rw [hd] at hc
    exact (hon x).mpr (hdisk h c hc x hx)
  · rw [hd] at hc
    exact hds h c hc

theorem insert_ok {hashOf : CNode → Hash} {db : Db} (hOk : DbOk hashOf db) (w : Hash × CNode)
    (hpres : ∀ x, x ∈ directRefs w.2 → db.node x ≠ none) : DbOk hashOf (db.insert w) := by
  cases hm0 : lookupH db.mem w.1 with
  | some m0 =>
    have hins : db.insert w = (directRefs w.2).foldl (fun d c => d.reference c w.1) db := by
      simp only [Db.insert, hm0]
    rw [hins]
    exact fold_ok w.1 _ (fun h m hm x hx => (hOk.refs h m hm x hx).imp id Or.inl) hOk.kids hOk.disk hOk.dsound
  | none =>
    have hins : db.insert w = (directRefs w.2).foldl (fun d c => d.reference c w.1)
        { db with mem := db.mem ++ [(w.1, ⟨w.2, []⟩)] } := by
      simp only [Db.insert, hm0]
    rw [hins]
    have hl : ∀ h, lookupH (db.mem ++ [(w.1, (⟨w.2, []⟩ : MemNode))]) h = match lookupH db.mem h with
        | some x => some x
        | none => if w.1 = h then some ⟨w.2, []⟩ else none := by
      intro h
      rw [lookupH_append]
      cases lookupH db.mem h with
      | some x => rfl
      | none => simp [lookupH]
    have hinm : ∀ x, inMem db x → inMem { db with mem := db.mem ++ [(w.1, (⟨w.2, []⟩ : MemNode))] } x := by
      intro x hx
      unfold inMem at hx ⊢
      simp only [hl]
      cases hh : lookupH db.mem x with
      | none => exact absurd hh hx
      | some m => simp
    apply fold_ok w.1
    · intro h m hm x hx
      simp only [hl] at hm
      cases hh : lookupH db.mem h with
      | some m1 =>
        rw [hh] at hm
        simp only [Option.some.injEq] at hm
        subst hm
        exact (hOk.refs h m1 hh x hx).imp id Or.inl
      | none =>
        rw [hh] at hm
        by_cases he : w.1 = h
        · simp only [he, if_true, Option.some.injEq] at hm
          subst hm
          rcases (node_ne_none db x).mp (hpres x hx) with g | g
          · exact Or.inr (Or.inr ⟨he.symm, hx, hinm x g⟩)
          · exact Or.inr (Or.inl g)
        · simp [he] at hm
    · intro h m hm x hx
      simp only [hl] at hm
      cases hh : lookupH db.mem h with
      | some m1 =>
        rw [hh] at hm
        simp only [Option.some.injEq] at hm
        subst hm
        exact (hOk.kids h m1 hh x hx).imp (hinm x) id
      | none =>
        rw [hh] at hm
        by_cases he : w.1 = h
        · simp only [he, if_true, Option.some.injEq] at hm
          subst hm
          cases hx
        · simp [he] at hm
    · exact hOk.disk
    · exact hOk.dsound

/-- the writes of one `Commit`, in order: every hash child of a written blob is in the database by then -/
def PresentR (P : Hash → Prop) : List (Hash × CNode) → Prop
  | [] => True
  | w :: ws => (∀ x, x ∈ directRefs w.2 → P x) ∧ PresentR (fun x => P x ∨ x = w.1) ws

theorem presentR_mono : ∀ (ws : List (Hash × CNode)) (P Q : Hash → Prop), (∀ x, P x → Q x) →
    PresentR P ws → PresentR Q ws := by
  intro ws
  induction ws with
  | nil => intro _ _ _ _; trivial
  | cons w ws ih =>
    intro P Q hPQ ⟨h1, h2⟩
    exact ⟨fun x hx => hPQ x (h1 x hx), ih _ _ (fun x hx => hx.imp (hPQ x) id) h2⟩

theorem presentR_append : ∀ (a b : List (Hash × CNode)) (P : Hash → Prop), PresentR P a →
    PresentR (fun x => P x ∨ x ∈ a.map (·.1)) b → PresentR P (a ++ b) := by
  intro a
  induction a with
  | nil => intro b P _ hb; exact presentR_mono b _ _ (fun x hx => by simpa using hx) hb
  | cons w a ih =>
    intro b P ⟨h1, h2⟩ hb
    refine ⟨h1, ih b _ h2 (presentR_mono b _ _ (fun x hx => ?_) hb)⟩
    rcases hx with hx | hx
    · exact Or.inl (Or.inl hx)
    · simp only [List.map_cons, List.mem_cons] at hx
      rcases hx with hx | hx
      · exact Or.inl (Or.inr hx)
      · exact Or.inr hx

theorem insertAll_ok {hashOf : CNode → Hash} (hH : HashOk hashOf) :
    ∀ (ws : List (Hash × CNode)) (db : Db), DbOk hashOf db → Sound hashOf db.node →
    (∀ w, w ∈ ws → w.1 = hashOf w.2 ∧ NormM false w.2) → PresentR (fun x => db.node x ≠ none) ws →
    DbOk hashOf (db.insertAll ws) := by
  intro ws
  induction ws with
  | nil => intro db hOk _ _ _; exact hOk
  | cons w ws ih =>
    intro db hOk hS hw ⟨h1, h2⟩
    obtain ⟨a1, a2, a3⟩ := insert_spec hH hS (hw w List.mem_cons_self)
    refine ih (db.insert w) (insert_ok hOk w h1) a2 (fun x hx => hw x (List.mem_cons_of_mem _ hx))
      (presentR_mono ws _ _ (fun x hx => ?_) h2)
    rcases hx with hx | hx
    · cases hn : db.node x with
      | none => exact absurd hn hx
      | some c => rw [a1 x c hn]; simp
    · rw [hx, a3]; simp

/-! #### the hasher writes children before parents -/

theorem presentR_flatMap {ι : Type} (f : ι → List (Hash × CNode)) (P : Hash → Prop) : ∀ (l : List ι),
    (∀ i, i ∈ l → PresentR P (f i)) → PresentR P (l.flatMap f) := by
  intro l
  induction l with
  | nil => intro _; trivial
  | cons i l ih =>
    intro h
    rw [List.flatMap_cons]
    exact presentR_append _ _ P (h i List.mem_cons_self)
      (presentR_mono _ _ _ (fun x hx => Or.inl hx) (ih (fun j hj => h j (List.mem_cons_of_mem _ hj))))

theorem presentR_storeWrite (hx : Hasher) (X : CNode) (o : Option Hash) (force : Bool) (Q : Hash → Prop)
    (h : hx.commit = true → ∀ x, x ∈ directRefs X → Q x) : PresentR Q (storeWrite hx X o force) := by
  unfold storeWrite
  by_cases hc : hx.commit = true
  · simp only [hc, Bool.not_true, Bool.false_eq_true, if_false]
    cases X with
    | empty => trivial
    | hash x => trivial
    | value v =>
      by_cases hsm : (hx.small (CNode.value v) && !force) = true
      · simp only [hsm, if_true]; trivial
      · simp only [hsm]; exact ⟨h hc, trivial⟩
    | short K c =>
      by_cases hsm : (hx.small (CNode.short K c) && !force) = true
      · simp only [hsm, if_true]; trivial
      · simp only [hsm]; exact ⟨h hc, trivial⟩
    | full ch =>
      by_cases hsm : (hx.small (CNode.full ch) && !force) = true
      · simp only [hsm, if_true]; trivial
      · simp only [hsm]; exact ⟨h hc, trivial⟩
  · simp [hc, PresentR]

section present
variable (hs hx : Hasher)

theorem writes_present {s : Store} {top : Bool} {p : PNode} {n : Node} (hI : Inv hs s top p n) :
    Placed n → (∀ v, n ≠ .value v) → ∀ P : Hash → Prop, (∀ x, s x ≠ none → P x) →
    PresentR P (writes hx p top) ∧
    (hx.commit = true → ∀ h, hashed hx p top = .hash h → P h ∨ h ∈ (writes hx p top).map (·.1)) := by
  induction hI with
  | empty top => intro _ _ P _; exact ⟨trivial, fun _ h hh => by simp [hashed] at hh⟩
  | value top v => intro _ hv; exact absurd rfl (hv v)
  | hash top h n hb hr hst hcl =>
    intro _ _ P hP
    refine ⟨trivial, fun _ h' hh => Or.inl (hP _ ?_)⟩
    simp only [hashed, CNode.hash.injEq] at hh
    rw [← hh, hst]; simp
  | short top K c n f hIc hF ih =>
    intro hPl _ P hP
    cases hcd : cacheDecision hx f with
    | some hu =>
      obtain ⟨h, u⟩ := hu
      obtain ⟨hfh, _, hclean⟩ := cd_some hx hcd
      refine ⟨by simp [writes, hcd, PresentR], fun hc h' hh => Or.inl (hP _ ?_)⟩
      rw [hashed_short_some hx top hcd] at hh
      simp only [CNode.hash.injEq] at hh
      rw [← hh, ((hF.1 h hfh).2 (hclean hc)).1]; simp
    | none =>
      rw [writes_short_none hx top hcd]
      have hch : PresentR P (pWrites hx c) ∧
          (hx.commit = true → ∀ x, pRef hx c = .hash x → P x ∨ x ∈ (pWrites hx c).map (·.1)) := by
        cases hIc with
        | empty => exact absurd rfl hPl.1
        | value _ v => exact ⟨trivial, fun _ x hx' => by simp [pRef] at hx'⟩
        | hash _ h' _ hb' hr' hst' hcl' =>
          exact ih hPl.2 (by intro v hv; rw [hv] at hb'; simp [Node.isBranch] at hb') P hP
        | short _ K' c' n' f' h1 h2 => exact ih hPl.2 (by intro v hv; cases hv) P hP
        | full _ ch0 ch0' f' h1 h2 => exact ih hPl.2 (by intro v hv; cases hv) P hP
      refine ⟨presentR_append _ _ P hch.1 (presentR_storeWrite hx _ _ _ _ (fun hc x hx' => ?_)), fun hc h hh => ?_⟩
      · rw [kids_short] at hx'
        cases hr : pRef hx c with
        | hash y =>
          rw [hr] at hx'
          simp only [directRefs, List.mem_singleton] at hx'
          subst hx'
          exact hch.2 hc x hr
        | empty => rw [hr] at hx'; simp [directRefs] at hx'
        | value v => rw [hr] at hx'; simp [directRefs] at hx'
        | short K2 c2 => rw [hr] at hx'; simp [directRefs] at hx'
        | full ch2 => rw [hr] at hx'; simp [directRefs] at hx'
      · right
        rw [hashed_short_none hx top hcd] at hh
        have := storeWrite_of_hash hx _ (by rw [kids_short]; rfl) _ _ hc hh
        rw [this]; simp
  | full top ch ch' f hIc hF ih =>
    intro hPl _ P hP
    cases hcd : cacheDecision hx f with
    | some hu =>
      obtain ⟨h, u⟩ := hu
      obtain ⟨hfh, _, hclean⟩ := cd_some hx hcd
      refine ⟨by simp [writes, hcd, PresentR], fun hc h' hh => Or.inl (hP _ ?_)⟩
      rw [hashed_full_some hx top hcd] at hh
      simp only [CNode.hash.injEq] at hh
      rw [← hh, ((hF.1 h hfh).2 (hclean hc)).1]; simp
    | none =>
      rw [writes_full_none hx top hcd]
      have hch : ∀ i, i ≠ 16 → PresentR P (writes hx (ch i) false) ∧
          (hx.commit = true → ∀ x, hashed hx (ch i) false = .hash x →
            P x ∨ x ∈ (writes hx (ch i) false).map (·.1)) :=
        fun i hi => ih i (hPl.2.2 i) (hPl.1 i hi) P hP
      refine ⟨presentR_append _ _ P (presentR_flatMap _ P _ (fun i _ => ?_))
        (presentR_storeWrite hx _ _ _ _ (fun hc x hx' => ?_)), fun hc h hh => ?_⟩
      · by_cases hi : i = 16
        · simp [hi, PresentR]
        · simp only [hi, if_false]; exact (hch i hi).1
      · rw [kids_full] at hx'
        simp only [directRefs, List.mem_filterMap, List.mem_finRange, true_and] at hx'
        obtain ⟨i, hi⟩ := hx'
        by_cases h16 : i = 16
        · simp [h16] at hi
        · simp only [h16, if_false] at hi
          cases hr : hashed hx (ch i) false with
          | hash y =>
            rw [hr] at hi
            simp only [Option.some.injEq] at hi
            subst hi
            rcases (hch i h16).2 hc y hr with g | g
            · exact Or.inl g
            · right
              simp only [List.map_flatMap, List.mem_flatMap, List.mem_finRange, true_and]
              exact ⟨i, by simp only [h16, if_false]; exact g⟩
          | empty => rw [hr] at hi; simp at hi
          | value v => rw [hr] at hi; simp at hi
          | short K2 c2 => rw [hr] at hi; simp at hi
          | full ch2 => rw [hr] at hi; simp at hi
      · right
        rw [hashed_full_none hx top hcd] at hh
        have := storeWrite_of_hash hx _ (by rw [kids_full]; rfl) _ _ hc hh
        rw [this]; simp

end present

/-! #### from the closed reference graph on disk to the closed store of the trie invariant -/

/-- no hash reference anywhere inside a collapsed node -/
def noHashC : CNode → Prop
  | .hash _ => False
  | .short _ c => noHashC c
  | .full ch => ∀ i, noHashC (ch i)
  | _ => True

section graph
variable (hs : Hasher) (hsmall : ∀ m : Node, hs.small (refKids hs m) = true → noHashC (refKids hs m))

/-- the reference of a child is either a hash or the embedded (small) collapsed child -/
theorem refC_cases (m : Node) (hb : Node.isBranch m = true) :
    (∃ x, refC hs m false = .hash x) ∨ (refC hs m false = refKids hs m ∧ hs.small (refKids hs m) = true) := by
  rw [refC_branch hs m hb, storeRef_branch hs _ (refKids_isBranch hs m hb)]
  by_cases hc : (hs.small (refKids hs m) && !false) = true
  · rw [if_pos hc]; exact Or.inr ⟨rfl, by simpa using hc⟩
  · rw [if_neg hc]; exact Or.inl ⟨_, rfl⟩

theorem closed_of_noHash (s : Store) (m : Node) : Placed m → noHashC (refKids hs m) → Closed hs s m := by
  induction m with
  | empty => intro _ _; trivial
  | value v => intro _ _; trivial
  | short K c ih =>
    intro hP hn
    rw [refKids_short] at hn
    rw [closed_short]
    cases c with
    | value v => exact ⟨trivial, trivial⟩
    | empty => exact absurd rfl hP.1
    | short K' c' =>
      have hn' : noHashC (refC hs (.short K' c') false) := hn
      rcases refC_cases hs (.short K' c') rfl with ⟨x, hx⟩ | ⟨h1, _⟩
      · rw [hx] at hn'; exact absurd hn' id
      · refine ⟨fun h hh => ?_, ih hP.2 (by rw [← h1]; exact hn')⟩
        rw [hh] at hn'; exact absurd hn' id
    | full ch' =>
      have hn' : noHashC (refC hs (.full ch') false) := hn
      rcases refC_cases hs (.full ch') rfl with ⟨x, hx⟩ | ⟨h1, _⟩
      · rw [hx] at hn'; exact absurd hn' id
      · refine ⟨fun h hh => ?_, ih hP.2 (by rw [← h1]; exact hn')⟩
        rw [hh] at hn'; exact absurd hn' id
  | full ch ih =>
    intro hP hn i
    rw [refKids_full] at hn
    by_cases hi : i = 16
    · subst hi
      refine ⟨fun h => absurd rfl h, ?_⟩
      rcases hP.2.1 with h | ⟨v, h⟩ <;> rw [h] <;> trivial
    · have hn' : noHashC (refC hs (ch i) false) := by
        have := hn i; simpa [hi] using this
      refine ⟨fun _ h hh => ?_, ?_⟩
      · rw [hh] at hn'; exact absurd hn' id
      · cases hc : ch i with
        | empty => trivial
        | value v => trivial
        | short K' c' =>
          rw [hc] at hn'
          rcases refC_cases hs (.short K' c') rfl with ⟨x, hx⟩ | ⟨h1, _⟩
          · rw [hx] at hn'; exact absurd hn' id
          · have := ih i (hP.2.2 i)
            rw [hc] at this
            exact this (by rw [← h1]; exact hn')
        | full ch' =>
          rw [hc] at hn'
          rcases refC_cases hs (.full ch') rfl with ⟨x, hx⟩ | ⟨h1, _⟩
          · rw [hx] at hn'; exact absurd hn' id
          · have := ih i (hP.2.2 i)
            rw [hc] at this
            exact this (by rw [← h1]; exact hn')

include hsmall

/-- a store `d` (the disk) below a store `U` (pool + disk) that is closed for `n`: if `d` is closed under
    direct hash children and holds the root of `n`, it is closed for `n` -/
theorem closed_of_graph (d U : Store) (hle : Store.le d U)
    (hg : ∀ h c, d h = some c → ∀ x, x ∈ directRefs c → d x ≠ none) (n : Node) :
    ∀ (top : Bool) (h : Hash), Node.isBranch n = true → Placed n → refC hs n top = .hash h → d h ≠ none →
    Stored hs U top n → Closed hs U n → d h = some (refKids hs n) ∧ Closed hs d n := by
  induction n with
  | empty => intro top h hb; simp [Node.isBranch] at hb
  | value v => intro top h hb; simp [Node.isBranch] at hb
  | short K c ih =>
    intro top h _ hP hr hd hSt hCl
    have hdh : d h = some (refKids hs (.short K c)) := by
      cases hc : d h with
      | none => exact absurd hc hd
      | some c' =>
        have := hle _ _ hc
        rw [hSt h hr] at this
        rw [this]
    refine ⟨hdh, ?_⟩
    rw [closed_short] at hCl ⊢
    cases c with
    | value v => exact ⟨trivial, trivial⟩
    | empty => exact absurd rfl hP.1
    | short K' c' =>
      rcases refC_cases hs (.short K' c') rfl with ⟨x, hx⟩ | ⟨h1, h2⟩
      · have hxin : x ∈ directRefs (refKids hs (.short K (.short K' c'))) := by
          rw [refKids_short]
          show x ∈ directRefs (.short K (refC hs (.short K' c') false))
          rw [hx]; simp [directRefs]
        obtain ⟨g1, g2⟩ := ih false x rfl hP.2 hx (hg _ _ hdh x hxin) hCl.1 hCl.2
        refine ⟨fun h' hh => ?_, g2⟩
        rw [hx] at hh; simp only [CNode.hash.injEq] at hh; rw [← hh]; exact g1
      · refine ⟨fun h' hh => ?_, closed_of_noHash hs d _ hP.2 (hsmall _ h2)⟩
        rw [h1] at hh; rw [refKids_short] at hh; cases hh
    | full ch' =>
      rcases refC_cases hs (.full ch') rfl with ⟨x, hx⟩ | ⟨h1, h2⟩
      · have hxin : x ∈ directRefs (refKids hs (.short K (.full ch'))) := by
          rw [refKids_short]
          show x ∈ directRefs (.short K (refC hs (.full ch') false))
          rw [hx]; simp [directRefs]
        obtain ⟨g1, g2⟩ := ih false x rfl hP.2 hx (hg _ _ hdh x hxin) hCl.1 hCl.2
        refine ⟨fun h' hh => ?_, g2⟩
        rw [hx] at hh; simp only [CNode.hash.injEq] at hh; rw [← hh]; exact g1
      · refine ⟨fun h' hh => ?_, closed_of_noHash hs d _ hP.2 (hsmall _ h2)⟩
        rw [h1] at hh; rw [refKids_full] at hh; cases hh
  | full ch ih =>
    intro top h _ hP hr hd hSt hCl
    have hdh : d h = some (refKids hs (.full ch)) := by
      cases hc : d h with
      | none => exact absurd hc hd
      | some c' =>
        have := hle _ _ hc
        rw [hSt h hr] at this
        rw [this]
    refine ⟨hdh, fun i => ?_⟩
    by_cases hi : i = 16
    · subst hi
      refine ⟨fun h => absurd rfl h, ?_⟩
      rcases hP.2.1 with h | ⟨v, h⟩ <;> rw [h] <;> trivial
    · have hci := hCl i
      cases hc : ch i with
      | empty => exact ⟨fun _ h' hh => by simp [refC] at hh, trivial⟩
      | value v => exact absurd hc (hP.1 i hi v)
      | short K' c' =>
        have hbr : Node.isBranch (ch i) = true := by rw [hc]; rfl
        rcases refC_cases hs (ch i) hbr with ⟨x, hx⟩ | ⟨h1, h2⟩
        · have hxin : x ∈ directRefs (refKids hs (.full ch)) := by
            rw [refKids_full]
            simp only [directRefs, List.mem_filterMap, List.mem_finRange, true_and]
            exact ⟨i, by simp [hi, hx]⟩
          obtain ⟨g1, g2⟩ := ih i false x hbr (hP.2.2 i) hx (hg _ _ hdh x hxin) (hci.1 hi) hci.2
          rw [← hc]
          refine ⟨fun _ h' hh => ?_, g2⟩
          rw [hx] at hh; simp only [CNode.hash.injEq] at hh; rw [← hh]; exact g1
        · rw [← hc]
          refine ⟨fun _ h' hh => ?_, closed_of_noHash hs d _ (hP.2.2 i) (hsmall _ h2)⟩
          rw [h1, hc, refKids_short] at hh; cases hh
      | full ch' =>
        have hbr : Node.isBranch (ch i) = true := by rw [hc]; rfl
        rcases refC_cases hs (ch i) hbr with ⟨x, hx⟩ | ⟨h1, h2⟩
        · have hxin : x ∈ directRefs (refKids hs (.full ch)) := by
            rw [refKids_full]
            simp only [directRefs, List.mem_filterMap, List.mem_finRange, true_and]
            exact ⟨i, by simp [hi, hx]⟩
          obtain ⟨g1, g2⟩ := ih i false x hbr (hP.2.2 i) hx (hg _ _ hdh x hxin) (hci.1 hi) hci.2
          rw [← hc]
          refine ⟨fun _ h' hh => ?_, g2⟩
          rw [hx] at hh; simp only [CNode.hash.injEq] at hh; rw [← hh]; exact g1
        · rw [← hc]
          refine ⟨fun _ h' hh => ?_, closed_of_noHash hs d _ (hP.2.2 i) (hsmall _ h2)⟩
          rw [h1, hc, refKids_full] at hh; cases hh

end graph

end LemoProofs.MptDbLemmas
